(* C01 (fourth file): the matrix pass on nested-free trees: proofs.

   The first versions of statements 1 and 2 of Properties/C01_matrix.v (without cmp_reads) are
   FALSE (witnesses below, evaluated with vm_compute), for one reason:
     a comparison whose LEFT operand is a str() cast (ECast f MStr) and whose right operand is a
     constant other than `== null` evaluates to F WITHOUT reading the field (Solver.operand_of
     gives OFalse); as a matrix cell the column is loaded first and the row is M (missing) when
     the field is absent.  So or[str(f)==1; str(f)==2] is F unoptimised and M as a table on a
     document without f; under a negation T becomes F.
       matrix_exact_flat  -> matrix_exact_flat_refuted,  matrix_exact_flat_alt   (+ cmp_reads e)
       matrix_truth_flat  -> matrix_truth_flat_refuted,  matrix_truth_flat_alt   (+ cmp_reads e)
   Scope.cmp_reads is an executable shape predicate: no comparison with a constant right operand
   has a str()/not() cast on the left, `str(f) == null` excepted (it reads the field since fix
   D27).  (Before fix D27 the loader's `str(f): [null, null]` under `not` refuted statement 3 as
   well.)  The statements file now carries the hypothesis; it is closed by the _alt lemmas.

   Statement 3 (scope_all_sound) is proved as stated, against Scope.matrix_input_ok with its two
   conjuncts on the trees handed to `matrix`: they satisfy cmp_reads, and when the identifiers
   are not inlined the condition holds no quantifier (Scope.no_match).  Sections 10-12 show that
   both conjuncts hold of everything the loader builds (matrix_input_extra_loaded): they never
   put a loaded rule out of the scope.
   matrix_flat_example is proved as stated.

   Method.  (5) one or-group and its table: every row of the table evaluates, against the cache,
   like its member (single-cell rows: exactly; multi-cell rows: true iff the and-group is true),
   so the table is the three-valued or of the row members and the rebuilt group is the or of all
   members (place_all_spec, Sd_matrix, Sd_collapse).  (7) matrix_sem: induction over the tree
   with the polarity-indexed relation Rn (exact in a negative position, truth-preserving in a
   positive one), two identifier tables (bodies are matrixed on their own) and shake_1 on
   quantifier operands (C01_shake1.shake1_exact_gen). *)
From Coq Require Import Permutation Lia ZArith ZifyBool List Bool.
From TauModel Require Import Base Num Oracles Syntax Generated Token Pratt Ident Value Yaml ParseMap Solver Rule Keys Optimiser Known.
From TauModel Require Import Scope.
From TauProofs Require C01 C03 C01_flat C01_shake1 C01_loaded C01_nested.
From TauProofs Require Import C03_opt C03_matrix.
Import ListNotations.

(* ---- the helper definition of Properties/C01_matrix.v, restated identically ---- *)
Definition no_multi_cell (ord : hord) (e : expr) : bool :=
  negb (exists_sub (fun _ x => d17_here ord true x) false e).

(* ---- the extra shape predicate of the _alt statements: Scope.cmp_reads ----
   a comparison with a constant on the right reads its left field: the left operand is not a
   str() / not() cast (those evaluate to "false" without looking the field up), `str(f) == null`
   excepted.  (cr_cmp, cmp_reads and no_match are defined in Model/Scope.v.) *)

(* ====================================================================================== *)
(* 1. three-valued algebra                                                                *)
(* ====================================================================================== *)

Definition teq (a b : res3) : Prop := a = T <-> b = T.
(* exact in a negative position, truth-preserving in a positive one *)
Definition Rn (neg : bool) (a b : res3) : Prop := if neg then a = b else teq a b.

Definition join (a b : res3) : res3 :=
  match a, b with
  | T, _ | _, T => T
  | F, _ | _, F => F
  | M, M => M
  end.
Definition sumr (rs : list res3) : res3 := fold_right join M rs.

(* first non-true value *)
Fixpoint conj3 (rs : list res3) : res3 :=
  match rs with
  | [] => T
  | T :: rest => conj3 rest
  | x :: _ => x
  end.
Fixpoint conj3o (ws : list (option res3)) : res3 :=
  match ws with
  | [] => T
  | None :: rest => conj3o rest
  | Some T :: rest => conj3o rest
  | Some x :: _ => x
  end.

Lemma Rn_refl neg a : Rn neg a a.
Proof. destruct neg; cbn [Rn]; [reflexivity | unfold teq; tauto]. Qed.
Lemma Rn_eq neg a b : a = b -> Rn neg a b.
Proof. intros ->. apply Rn_refl. Qed.
Lemma Rn_trans neg a b c : Rn neg a b -> Rn neg b c -> Rn neg a c.
Proof. destruct neg; cbn [Rn]; unfold teq; [congruence | tauto]. Qed.
Lemma Rn_true_teq neg a b : a = b -> Rn neg a b.
Proof. apply Rn_eq. Qed.

Lemma join_T_iff a b : join a b = T <-> a = T \/ b = T.
Proof. destruct a, b; cbn [join]; split; intros H; try discriminate H; auto; destruct H; try discriminate; reflexivity. Qed.
Lemma join_comm a b : join a b = join b a.
Proof. destruct a, b; reflexivity. Qed.
Lemma join_assoc a b c : join a (join b c) = join (join a b) c.
Proof. destruct a, b, c; reflexivity. Qed.
Lemma join_M_l a : join M a = a.
Proof. destruct a; reflexivity. Qed.
Lemma join_M_r a : join a M = a.
Proof. destruct a; reflexivity. Qed.

Lemma Rn_join neg a a' b b' : Rn neg a a' -> Rn neg b b' -> Rn neg (join a b) (join a' b').
Proof.
  destruct neg; cbn [Rn]; [intros -> ->; reflexivity|].
  unfold teq. rewrite !join_T_iff. tauto.
Qed.

Lemma sumr_app a b : sumr (a ++ b) = join (sumr a) (sumr b).
Proof.
  induction a as [|x a IH]; cbn [app sumr fold_right]; [symmetry; apply join_M_l|].
  fold (sumr (a ++ b)). fold (sumr a). rewrite IH. apply join_assoc.
Qed.

Lemma sumr_cons x a : sumr (x :: a) = join x (sumr a).
Proof. reflexivity. Qed.

Lemma Rn_sumr neg : forall xs ys, Forall2 (Rn neg) xs ys -> Rn neg (sumr xs) (sumr ys).
Proof.
  induction 1 as [|x y xs ys Hxy _ IH]; [apply Rn_refl|].
  rewrite !sumr_cons. apply Rn_join; assumption.
Qed.

Lemma conj3_T_iff rs : conj3 rs = T <-> (forall r, In r rs -> r = T).
Proof.
  induction rs as [|x rs IH]; cbn [conj3 In]; [tauto|].
  destruct x; [|split; [discriminate | intros H; apply H; left; reflexivity] ..].
  rewrite IH. split; [intros H r [<-|Hr]; [reflexivity | exact (H r Hr)] | intros H r Hr; apply H; right; exact Hr].
Qed.

Lemma conj3o_T_iff ws : conj3o ws = T <-> (forall w, In (Some w) ws -> w = T).
Proof.
  induction ws as [|[x|] ws IH]; cbn [conj3o In]; [tauto| |].
  - destruct x; [|split; [discriminate | intros H; apply H; left; reflexivity] ..].
    rewrite IH. split.
    + intros H w [Hw|Hw]; [inversion Hw; reflexivity | exact (H w Hw)].
    + intros H w Hw. apply H. right. exact Hw.
  - rewrite IH. split.
    + intros H w [Hw|Hw]; [discriminate Hw | exact (H w Hw)].
    + intros H w Hw. apply H. right. exact Hw.
Qed.

Lemma Rn_conj3 neg : forall xs ys, Forall2 (Rn neg) xs ys -> Rn neg (conj3 xs) (conj3 ys).
Proof.
  destruct neg; cbn [Rn].
  - intros xs ys H. replace ys with xs; [reflexivity|].
    induction H as [|x y xs ys Hxy _ IH]; [reflexivity | cbn [Rn] in Hxy; subst; f_equal; exact IH].
  - intros xs ys H. unfold teq. rewrite !conj3_T_iff.
    induction H as [|x y xs ys Hxy _ IH]; [cbn [In]; tauto|].
    cbn [Rn] in Hxy. unfold teq in Hxy. cbn [In]. split; intros Hall r [<-|Hr].
    + apply Hxy. apply Hall. left. reflexivity.
    + apply (proj1 IH); [|exact Hr]. intros r' Hr'. apply Hall. right. exact Hr'.
    + apply Hxy. apply Hall. left. reflexivity.
    + apply (proj2 IH); [|exact Hr]. intros r' Hr'. apply Hall. right. exact Hr'.
Qed.

(* a table row with at most one kind of cell value *)
Lemma conj3o_single (p : str -> bool) w : forall cols,
  existsb p cols = true ->
  conj3o (map (fun col => if p col then Some w else None) cols) = w.
Proof.
  assert (HT : forall cols, conj3o (map (fun col => if p col then Some T else None) cols) = T).
  { induction cols as [|c cols IH]; [reflexivity|]. cbn [map conj3o]. destruct (p c); exact IH. }
  induction cols as [|c cols IH]; intros H; [discriminate H|].
  cbn [existsb] in H. cbn [map]. destruct (p c) eqn:Ep.
  - cbn [conj3o]. destruct w; try reflexivity. apply HT.
  - cbn [conj3o]. apply IH. exact H.
Qed.

(* the folds of the solver over members that evaluate *)
Section Folds.
Variable slv : expr -> out res3.
Variable val : expr -> res3.

Lemma or_fold_vals : forall l acc, acc <> T ->
  (forall x, In x l -> slv x = Ok (val x)) ->
  or_fold acc (map (fun x (_ : unit) => slv x) l) = Ok (join acc (sumr (map val l))).
Proof.
  induction l as [|x l IH]; intros acc Hacc H; cbn [map or_fold].
  - cbn [sumr fold_right]. rewrite join_M_r. reflexivity.
  - rewrite (H x (or_introl eq_refl)). cbn [bind]. rewrite sumr_cons.
    assert (Hl : forall y, In y l -> slv y = Ok (val y)) by (intros y Hy; apply H; right; exact Hy).
    destruct (val x).
    + destruct acc; reflexivity.
    + rewrite (IH F ltac:(discriminate) Hl). destruct acc; [congruence| |]; destruct (sumr (map val l)); reflexivity.
    + rewrite (IH acc Hacc Hl). rewrite join_M_l. reflexivity.
Qed.

Lemma and_fold_vals : forall l,
  (forall x, In x l -> slv x = Ok (val x)) ->
  and_fold (map (fun x (_ : unit) => slv x) l) = Ok (conj3 (map val l)).
Proof.
  induction l as [|x l IH]; intros H; cbn [map and_fold]; [reflexivity|].
  rewrite (H x (or_introl eq_refl)). cbn [bind conj3].
  destruct (val x); try reflexivity. apply IH. intros y Hy. apply H. right. exact Hy.
Qed.
End Folds.

(* ====================================================================================== *)
(* 2. the cache of one evaluation                                                         *)
(* ====================================================================================== *)

Lemma upd_nth {A} (x : A) : forall i (l : list A) j, i < length l ->
  nth_error (firstn i l ++ [x] ++ skipn (S i) l) j = if (j =? i)%nat then Some x else nth_error l j.
Proof.
  induction i as [|i IH]; intros [|a l] j Hi; cbn [length] in Hi; try lia.
  - destruct j; reflexivity.
  - cbn [firstn skipn app]. destruct j as [|j]; [reflexivity|].
    cbn [nth_error Nat.eqb]. apply (IH l j). lia.
Qed.

Section Cache.
Variable d : doc.
Variable cols : list str.

Definition cache_ok (cache : list (option value)) : Prop :=
  length cache = length cols /\
  forall i v, nth_error cache i = Some (Some v) ->
              exists col, nth_error cols i = Some col /\ d col = Some v.

Lemma cache_ok_empty : cache_ok (empty_cache cols).
Proof.
  split; [apply empty_cache_length|]. intros i v H. exfalso. unfold empty_cache in H.
  rewrite nth_error_map in H. destruct (nth_error cols i); discriminate H.
Qed.

(* what a row is expected to give: per cell, a value that is M when the column is absent from
   the document and that the cell returns once the column is loaded *)
Fixpoint row_spec (i : nat) (cells : list (option cellfn)) (ws : list (option res3)) : Prop :=
  match cells, ws with
  | [], [] => True
  | None :: cs, None :: ws' => row_spec (S i) cs ws'
  | Some cell :: cs, Some w :: ws' =>
      (exists col, nth_error cols i = Some col /\
         (d col = None -> w = M) /\
         (forall cache v, cache_ok cache -> nth_error cache i = Some (Some v) ->
                          cell (cache_doc cache) = Ok w))
      /\ row_spec (S i) cs ws'
  | _, _ => False
  end.

Lemma row_cells_spec : forall cells i ws cache,
  cache_ok cache -> row_spec i cells ws ->
  exists cache', row_cells (pure_doc d) cols i cells cache = Ok (conj3o ws, cache') /\ cache_ok cache'.
Proof.
  induction cells as [|[cell|] cells IH]; intros i ws cache Hc Hs.
  - destruct ws; [|contradiction]. exists cache. split; [reflexivity | exact Hc].
  - destruct ws as [|[w|] ws]; try contradiction. cbn [row_spec] in Hs.
    destruct Hs as [(col & Hcol & HM & Hcell) Hrest].
    cbn [row_cells].
    assert (Hi : i < length cache).
    { destruct Hc as [Hl _]. rewrite Hl. apply nth_error_Some. rewrite Hcol. discriminate. }
    destruct (nth_error cache i) as [slot|] eqn:En; [|apply nth_error_None in En; lia].
    destruct slot as [v|].
    + cbn [bind]. rewrite (Hcell cache v Hc En). cbn [bind conj3o].
      destruct w; [apply IH; assumption | exists cache; split; [reflexivity | exact Hc] ..].
    + rewrite Hcol. unfold pure_doc at 1. cbn [bind].
      destruct (d col) as [v|] eqn:Ed.
      * set (cache' := firstn i cache ++ [Some v] ++ skipn (S i) cache).
        assert (Hn' : forall j, nth_error cache' j = if (j =? i)%nat then Some (Some v) else nth_error cache j).
        { intros j. unfold cache'. apply upd_nth. exact Hi. }
        assert (Hc' : cache_ok cache').
        { split.
          - unfold cache'. rewrite !app_length, firstn_length, skipn_length. cbn [length].
            destruct Hc as [Hl _]. lia.
          - intros j v' Hj. rewrite Hn' in Hj. destruct (j =? i)%nat eqn:Eji.
            + apply Nat.eqb_eq in Eji. subst j. inversion Hj; subst. exists col. split; assumption.
            + destruct Hc as [_ Hc2]. exact (Hc2 j v' Hj). }
        assert (Hi' : nth_error cache' i = Some (Some v)) by (rewrite Hn', Nat.eqb_refl; reflexivity).
        rewrite (Hcell cache' v Hc' Hi'). cbn [bind conj3o].
        destruct w; [apply IH; assumption | exists cache'; split; [reflexivity | exact Hc'] ..].
      * rewrite (HM eq_refl). cbn [conj3o]. exists cache. split; [reflexivity | exact Hc].
  - destruct ws as [|[w|] ws]; try contradiction. cbn [row_spec] in Hs. cbn [row_cells conj3o].
    apply IH; assumption.
Qed.

Lemma matrix_or_spec : forall rows wss, Forall2 (row_spec 0) rows wss ->
  forall cache acc, acc <> T -> cache_ok cache ->
  matrix_or (pure_doc d) cols rows cache acc = Ok (join acc (sumr (map conj3o wss))).
Proof.
  induction 1 as [|row ws rows wss Hrow _ IH]; intros cache acc Hacc Hc; cbn [matrix_or map].
  - cbn [sumr fold_right]. rewrite join_M_r. reflexivity.
  - destruct (row_cells_spec row 0 ws cache Hc Hrow) as (cache' & -> & Hc'). cbn [bind].
    rewrite sumr_cons. destruct (conj3o ws).
    + destruct acc; reflexivity.
    + rewrite (IH cache' F ltac:(discriminate) Hc').
      destruct acc; [congruence| |]; destruct (sumr (map conj3o wss)); reflexivity.
    + rewrite (IH cache' acc Hacc Hc'). rewrite join_M_l. reflexivity.
Qed.

End Cache.

(* ====================================================================================== *)
(* 3. cells: a member re-keyed to a column evaluates like the member                      *)
(* ====================================================================================== *)

Lemma solve_cmp o ids body l op r d : is_and_or op = false ->
  solve o ids body (EBexp l op r) d = solve_compare o d l op r.
Proof. destruct op; intros H; try discriminate H; reflexivity. Qed.

Lemma compare_rekey_cast o (d1 d2 : docq) f k m op r ov :
  is_const r = true -> d1 f = Ok ov -> d2 k = Ok ov ->
  solve_compare o d2 (ECast k m) op r = solve_compare o d1 (ECast f m) op r.
Proof.
  intros Hr H1 H2. destruct r; try discriminate Hr; destruct m; destruct op;
    cbn [solve_compare operand_of]; rewrite ?H1, ?H2; reflexivity.
Qed.

Lemma compare_rekey_field o (d1 d2 : docq) f k op r ov :
  is_const r = true -> d1 f = Ok ov -> d2 k = Ok ov ->
  solve_compare o d2 (EField k) op r = solve_compare o d1 (EField f) op r.
Proof.
  intros Hr H1 H2. destruct r; try discriminate Hr; destruct op;
    cbn [solve_compare operand_of]; rewrite ?H1, ?H2; reflexivity.
Qed.

Lemma compare_missing o (d1 : docq) l op r f :
  left_field l = Some f -> is_const r = true -> cr_cmp l op r = true -> d1 f = Ok None ->
  solve_compare o d1 l op r = Ok M.
Proof.
  intros Hl Hr Hc H1.
  destruct l as [ | | | f0 m | f0 | | | | | | | | | ]; try discriminate Hl; injection Hl as ->;
    destruct r; try discriminate Hr; try destruct m; destruct op; try discriminate Hc;
    cbn [solve_compare operand_of]; rewrite ?H1; reflexivity.
Qed.

(* the members that become cells *)
Definition conj_ok (x : expr) : bool :=
  match x with
  | EBexp l op r =>
      match left_field l with
      | Some _ => is_const r && negb (is_and_or op) && cr_cmp l op r
      | None => false
      end
  | ENested _ _ | ESearch _ _ _ => true
  | _ => false
  end.

Section Cells.
Variable o : oracles.
Variable ids : list (str * expr).
Variable body : expr -> docq -> out res3.

Lemma cell_rekey x f k : conj_ok x = true -> conj_field1 x = Some f ->
  exists c, cell_of k x = Some (Some c) /\
    forall (d1 d2 : docq) ov, d1 f = Ok ov -> d2 k = Ok ov ->
      solve o ids body c d2 = solve o ids body x d1.
Proof.
  intros Hok Hf.
  destruct x as [ s g | l1 op r1 | b | f0 m | f0 | y | i | z | k0 e | cols rows | e | f0 e | | s f0 cst ];
    cbn [conj_ok] in Hok; try discriminate Hok; cbn [conj_field1] in Hf.
  - destruct (left_field l1) as [f1|] eqn:El; [|discriminate Hok].
    apply andb_prop in Hok. destruct Hok as [Hok Hcr]. apply andb_prop in Hok. destruct Hok as [Hc Hop].
    apply negb_true_iff in Hop. rewrite Hc in Hf. injection Hf as ->.
    destruct l1 as [ | | | f0 m | f0 | | | | | | | | | ]; try discriminate El; injection El as ->; cbn [cell_of];
      (eexists; split; [reflexivity|]); intros d1 d2 ov H1 H2; rewrite !solve_cmp by exact Hop.
    + exact (compare_rekey_cast o d1 d2 f k m op r1 ov Hc H1 H2).
    + exact (compare_rekey_field o d1 d2 f k op r1 ov Hc H1 H2).
  - injection Hf as ->. cbn [cell_of]. eexists. split; [reflexivity|].
    intros d1 d2 ov H1 H2. rewrite !C01.solve_nested_eq, H1, H2. reflexivity.
  - injection Hf as ->. cbn [cell_of]. eexists. split; [reflexivity|].
    intros d1 d2 ov H1 H2. cbn [solve]. unfold field_search. rewrite H1, H2. reflexivity.
Qed.

Lemma cell_missing x f : conj_ok x = true -> conj_field1 x = Some f ->
  forall d1 : docq, d1 f = Ok None -> solve o ids body x d1 = Ok M.
Proof.
  intros Hok Hf d1 H1.
  destruct x as [ s g | l1 op r1 | b | f0 m | f0 | y | i | z | k0 e | cols rows | e | f0 e | | s f0 cst ];
    cbn [conj_ok] in Hok; try discriminate Hok; cbn [conj_field1] in Hf.
  - destruct (left_field l1) as [f1|] eqn:El; [|discriminate Hok].
    apply andb_prop in Hok. destruct Hok as [Hok Hcr]. apply andb_prop in Hok. destruct Hok as [Hc Hop].
    apply negb_true_iff in Hop. rewrite Hc in Hf. injection Hf as ->.
    rewrite solve_cmp by exact Hop. exact (compare_missing o d1 l1 op r1 f El Hc Hcr H1).
  - injection Hf as ->. rewrite C01.solve_nested_eq, H1. reflexivity.
  - injection Hf as ->. cbn [solve]. unfold field_search. rewrite H1. reflexivity.
Qed.

End Cells.

(* ====================================================================================== *)
(* 4. the columns contain every counted field; the lookup of an and-group                 *)
(* ====================================================================================== *)

(* the fields a member contributes to count_fields *)
Definition mfields (x : expr) : list str :=
  match x with
  | EGroup BAnd es =>
      if forallb conj_valid1 es
      then flat_map (fun c => match conj_field1 c with Some f => [f] | None => [] end) es
      else []
  | EBexp l _ _ => match left_field l with Some f => [f] | None => [] end
  | ENested f _ | ESearch _ f _ => [f]
  | _ => []
  end.

Lemma count_incr_In k m : In k (map fst (count_incr k m)).
Proof.
  induction m as [|[k' n] m IH]; cbn [count_incr map fst In]; [left; reflexivity|].
  destruct (str_eqb k k') eqn:E; cbn [map fst In].
  - left. symmetry. exact (str_eqb_true _ _ E).
  - right. exact IH.
Qed.

Lemma count_incr_mono k k0 m : In k0 (map fst m) -> In k0 (map fst (count_incr k m)).
Proof.
  induction m as [|[k' n] m IH]; cbn [count_incr map fst In]; [contradiction|].
  intros [H|H]; destruct (str_eqb k k'); cbn [map fst In]; auto.
Qed.

Definition cf_conj (m : list (key * nat)) (x : expr) : list (key * nat) :=
  match conj_field1 x with Some f => count_incr f m | None => m end.

Lemma cf_conj_fold f : forall es m,
  In f (map fst m) \/ In f (flat_map (fun c => match conj_field1 c with Some f => [f] | None => [] end) es) ->
  In f (map fst (fold_left cf_conj es m)).
Proof.
  induction es as [|x es IH]; intros m H; cbn [fold_left flat_map] in *.
  - destruct H as [H|H]; [exact H | contradiction].
  - apply IH. change (cf_conj m x) with (match conj_field1 x with Some f => count_incr f m | None => m end).
    destruct H as [H|H].
    + left. destruct (conj_field1 x); [apply count_incr_mono|]; exact H.
    + apply in_app_or in H. destruct H as [H|H]; [|right; exact H].
      left. destruct (conj_field1 x) as [f0|]; [|contradiction].
      destruct H as [<-|[]]. apply count_incr_In.
Qed.

Lemma cf_step_In f m x : In f (map fst m) \/ In f (mfields x) -> In f (map fst (cf_step m x)).
Proof.
  intros H.
  destruct x as [ s g | l1 op r1 | b | f0 m0 | f0 | y | i | z | k0 e | cols rows | e | f0 e | | s f0 cst ];
    cbn [cf_step mfields] in *; try (destruct H as [H|[]]; exact H).
  - destruct s; try (destruct H as [H|[]]; exact H).
    destruct (forallb conj_valid1 g); [|destruct H as [H|[]]; exact H].
    exact (cf_conj_fold f g m H).
  - destruct (left_field l1) as [f1|]; [|destruct H as [H|[]]; exact H].
    destruct H as [H|[<-|[]]]; [apply count_incr_mono; exact H | apply count_incr_In].
  - destruct H as [H|[<-|[]]]; [apply count_incr_mono; exact H | apply count_incr_In].
  - destruct H as [H|[<-|[]]]; [apply count_incr_mono; exact H | apply count_incr_In].
Qed.

Lemma count_fields_In f : forall l x, In x l -> In f (mfields x) -> In f (map fst (count_fields l)).
Proof.
  intros l x Hx Hf. rewrite count_fields_eq.
  assert (G : forall l m, In f (map fst m) \/ (exists x, In x l /\ In f (mfields x)) ->
                          In f (map fst (fold_left cf_step l m))).
  { clear. induction l as [|a l IH]; intros m H; cbn [fold_left].
    - destruct H as [H|(x & [] & _)]. exact H.
    - apply IH. destruct H as [H|(x & [<-|Hx] & Hf)].
      + left. apply cf_step_In. left. exact H.
      + left. apply cf_step_In. right. exact Hf.
      + right. exists x. split; assumption. }
  apply G. right. exists x. split; assumption.
Qed.

Lemma lookup_of_In {A} k : forall (m : list (str * A)), In k (map fst m) -> exists v, lookup k m = Some v.
Proof.
  induction m as [|[k' v] m IH]; cbn [map fst In lookup]; [contradiction|].
  intros [->|H].
  - rewrite str_eqb_same. eauto.
  - destruct (str_eqb k k'); [eauto | exact (IH H)].
Qed.

Lemma matrix_cols_In ord fields k : (forall l, Permutation (ord l) l) ->
  In k (map fst fields) -> In k (matrix_cols ord fields).
Proof.
  intros Hord Hk. unfold matrix_cols.
  destruct (lookup_of_In k fields Hk) as [n Hn].
  apply (in_map fst _ (k, n)). apply C01_shake1.sort_by_In. apply in_flat_map.
  exists k. split.
  - apply (Permutation_in k (Permutation_sym (Hord _))). exact Hk.
  - rewrite Hn. left. reflexivity.
Qed.

(* ---- conj_lookup on an and-group all of whose conjuncts are countable ---- *)
Lemma lookup_app {A} k (a b : list (str * A)) :
  lookup k (a ++ b) = match lookup k a with Some v => Some v | None => lookup k b end.
Proof.
  induction a as [|[k' v] a IH]; cbn [app lookup]; [reflexivity|].
  destruct (str_eqb k k'); [reflexivity | exact IH].
Qed.

Lemma conj_lookup_cons x : conj_valid1 x = true ->
  exists f, conj_field1 x = Some f /\
    forall rest m0, conj_lookup (x :: rest) m0 =
                    if has_key f m0 then None else conj_lookup rest (m0 ++ [(f, x)]).
Proof.
  intros Hv.
  destruct x as [ s g | l1 op r1 | b | f0 m | f0 | y | i | z | k0 e | cols rows | e | f0 e | | s f0 cst ];
    cbn [conj_valid1] in Hv; try discriminate Hv; cbn [conj_field1 conj_lookup].
  - destruct (left_field l1) as [f|]; [|discriminate Hv]. rewrite Hv. exists f. split; reflexivity.
  - exists f0. split; reflexivity.
  - exists f0. split; reflexivity.
Qed.

Lemma conj_lookup_spec : forall es m0 m,
  forallb conj_valid1 es = true -> conj_lookup es m0 = Some m ->
  (forall k v, lookup k m0 = Some v -> lookup k m = Some v) /\
  (forall x, In x es -> exists f, conj_field1 x = Some f /\ lookup f m = Some x) /\
  (forall k v, lookup k m = Some v -> lookup k m0 = Some v \/ (In v es /\ conj_field1 v = Some k)) /\
  length m = length m0 + length es.
Proof.
  induction es as [|x es IH]; intros m0 m Hv H.
  - cbn [conj_lookup] in H. inversion H; subst.
    split; [auto|]. split; [intros x []|]. split; [intros k v Hk; left; exact Hk|]. cbn [length]. lia.
  - cbn [forallb] in Hv. apply andb_prop in Hv. destruct Hv as [Hx Hv].
    destruct (conj_lookup_cons x Hx) as (f & Hf & Hstep). rewrite Hstep in H.
    destruct (has_key f m0) eqn:Ehk; [discriminate H|].
    destruct (IH _ _ Hv H) as (I1 & I2 & I3 & I4).
    assert (Hnone : lookup f m0 = None).
    { unfold has_key in Ehk. destruct (lookup f m0); [discriminate Ehk | reflexivity]. }
    split; [|split; [|split]].
    + intros k v Hk. apply I1. rewrite lookup_app, Hk. reflexivity.
    + intros y [<-|Hy].
      * exists f. split; [exact Hf|]. apply I1. rewrite lookup_app, Hnone. cbn [lookup].
        rewrite str_eqb_same. reflexivity.
      * exact (I2 y Hy).
    + intros k v Hk. destruct (I3 k v Hk) as [Hk0|[Hin Hfk]].
      * rewrite lookup_app in Hk0. destruct (lookup k m0) as [v0|]; [left; exact Hk0|].
        cbn [lookup] in Hk0. destruct (str_eqb k f) eqn:Ekf; [|discriminate Hk0].
        inversion Hk0; subst. right. split; [left; reflexivity|].
        apply str_eqb_true in Ekf. subst k. exact Hf.
      * right. split; [right; exact Hin | exact Hfk].
    + rewrite I4, app_length. cbn [length]. lia.
Qed.

(* ====================================================================================== *)
(* 5. one or-group and its table                                                          *)
(* ====================================================================================== *)

(* what cmp_reads leaves of a matrixed member: its top comparison / its conjuncts read *)
Definition cr1 (x : expr) : bool :=
  match x with EBexp l op r => is_and_or op || cr_cmp l op r | _ => true end.
Definition cr2 (x : expr) : bool :=
  match x with EGroup BAnd es => forallb cr1 es | _ => cr1 x end.

Lemma cr2_cr1 x : cr2 x = true -> cr1 x = true.
Proof. destruct x as [ [] g | | | | | | | | | | | | | ]; intros H; try exact H; reflexivity. Qed.

Lemma conj_ok_of K x : gm K x = true -> conj_valid1 x = true -> cr1 x = true -> conj_ok x = true.
Proof.
  destruct x as [ s g | l1 op r1 | b | f0 m | f0 | y | i | z | k0 e | cols rows | e | f0 e | | s f0 cst ];
    cbn [gm conj_valid1 cr1 conj_ok]; intros Hg Hv Hc; try discriminate Hv; try reflexivity.
  destruct (left_field l1) eqn:El; [|discriminate Hv]. rewrite Hv.
  destruct (is_and_or op) eqn:Eo.
  - destruct l1; try discriminate El; cbn [gm andb] in Hg; discriminate Hg.
  - cbn [orb negb andb] in *. exact Hc.
Qed.

Lemma place_member_shape cols e p : place_member cols e = Ok p ->
  (exists row, p = (Some row, None)) \/ p = (None, Some e).
Proof.
  intros H.
  destruct e as [ s g | l1 op r1 | b | f0 m | f0 | y | i | z | k0 e | cols' rows | e | f0 e | | s f0 cst ];
    cbn [place_member] in H; try (inversion H; right; reflexivity).
  - destruct s; try (inversion H; right; reflexivity).
    destruct (conj_lookup g []); [|inversion H; right; reflexivity].
    apply C03.bind_ok_inv in H. destruct H as (row & _ & H). inversion H. left. eauto.
  - destruct l1; try (inversion H; right; reflexivity);
      (destruct (is_const r1); [|inversion H; right; reflexivity]);
      apply C03.bind_ok_inv in H; destruct H as (row & _ & H); inversion H; left; eauto.
  - apply C03.bind_ok_inv in H. destruct H as (row & _ & H). inversion H. left. eauto.
  - apply C03.bind_ok_inv in H. destruct H as (row & _ & H). inversion H. left. eauto.
Qed.

Section Table.
Variable o : oracles.
Variable ids : list (str * expr).
Variable body : expr -> docq -> out res3.
Variable d : doc.
Variable cols : list str.
Variable K : str -> bool.

Definition Sd (e : expr) : out res3 := solve o ids body e (pure_doc d).
Hypothesis Hok : forall e, gm K e = true -> C03.okr (Sd e).

Definition val (e : expr) : res3 := match Sd e with Ok v => v | _ => M end.
Lemma val_ok e : gm K e = true -> Sd e = Ok (val e).
Proof. intros H. unfold val. destruct (Hok e H) as [v ->]. reflexivity. Qed.

Definition cf (c : expr) : cellfn := fun d' => solve o ids body c d'.

Lemma cell_sem x f i col c :
  conj_ok x = true -> conj_field1 x = Some f -> gm K x = true ->
  cell_of [N.of_nat i] x = Some (Some c) ->
  nth_error cols i = Some col -> col = f ->
  (d col = None -> val x = M) /\
  (forall cache v, cache_ok d cols cache -> nth_error cache i = Some (Some v) ->
                   cf c (cache_doc cache) = Ok (val x)).
Proof.
  intros Hc Hf Hg Hcell Hcol ->. split.
  - intros Hd. unfold val, Sd.
    rewrite (cell_missing o ids body x f Hc Hf (pure_doc d)); [reflexivity|].
    unfold pure_doc. rewrite Hd. reflexivity.
  - intros cache v Hcache Hn.
    destruct (cell_rekey o ids body x f [N.of_nat i] Hc Hf) as (c' & Hc' & Hre).
    rewrite Hcell in Hc'. inversion Hc'; subst c'. unfold cf.
    destruct Hcache as [_ H2]. destruct (H2 i v Hn) as (col' & Hcol' & Hdv).
    rewrite Hcol in Hcol'. inversion Hcol'; subst col'.
    rewrite (Hre (pure_doc d) (cache_doc cache) (Some v)).
    + apply val_ok. exact Hg.
    + unfold pure_doc. rewrite Hdv. reflexivity.
    + apply cache_doc_key. exact Hn.
Qed.

Lemma row_single_spec x f mk :
  conj_ok x = true -> conj_field1 x = Some f -> gm K x = true ->
  (forall k, cell_of k x = Some (Some (mk k))) ->
  forall cols' i row,
  (forall j col, nth_error cols' j = Some col -> nth_error cols (i + j) = Some col) ->
  row_single cols' i f mk = Ok row ->
  row_spec d cols i (map (option_map cf) row)
           (map (fun col => if str_eqb col f then Some (val x) else None) cols').
Proof.
  intros Hc Hf Hg Hmk. induction cols' as [|col cols' IH]; intros i row Hsh H; cbn [row_single] in H.
  - inversion H; subst. exact I.
  - assert (Hsh' : forall j col0, nth_error cols' j = Some col0 -> nth_error cols (S i + j) = Some col0).
    { intros j col0 Hj. replace (S i + j) with (i + S j) by lia. apply Hsh. exact Hj. }
    assert (Hcol : nth_error cols i = Some col).
    { replace i with (i + 0) at 1 by lia. apply Hsh. reflexivity. }
    cbn [map]. destruct (str_eqb col f) eqn:Ecf.
    + apply C03.bind_ok_inv in H. destruct H as (k & Hk & H).
      apply C03.bind_ok_inv in H. destruct H as (tl' & Ht & H). inversion H; subst.
      apply column_key_inv in Hk. subst k. cbn [map option_map row_spec]. split.
      * exists col. split; [exact Hcol|].
        apply (cell_sem x f i col (mk [N.of_nat i])); auto. apply str_eqb_true. exact Ecf.
      * exact (IH _ _ Hsh' Ht).
    + apply C03.bind_ok_inv in H. destruct H as (tl' & Ht & H). inversion H; subst.
      cbn [map option_map row_spec]. exact (IH _ _ Hsh' Ht).
Qed.

Lemma row_lookup_spec m :
  (forall f x, lookup f m = Some x -> conj_ok x = true /\ conj_field1 x = Some f /\ gm K x = true) ->
  forall cols' i row,
  (forall j col, nth_error cols' j = Some col -> nth_error cols (i + j) = Some col) ->
  row_of_lookup cols' i m = Ok row ->
  row_spec d cols i (map (option_map cf) row)
           (map (fun col => option_map val (lookup col m)) cols').
Proof.
  intros Hm. induction cols' as [|col cols' IH]; intros i row Hsh H; cbn [row_of_lookup] in H.
  - inversion H; subst. exact I.
  - assert (Hsh' : forall j col0, nth_error cols' j = Some col0 -> nth_error cols (S i + j) = Some col0).
    { intros j col0 Hj. replace (S i + j) with (i + S j) by lia. apply Hsh. exact Hj. }
    assert (Hcol : nth_error cols i = Some col).
    { replace i with (i + 0) at 1 by lia. apply Hsh. reflexivity. }
    cbn [map]. destruct (lookup col m) as [x|] eqn:El.
    + destruct (Hm col x El) as (Hc & Hf & Hg).
      apply C03.bind_ok_inv in H. destruct H as (k & Hk & H).
      apply C03.bind_ok_inv in H. destruct H as (tl' & Ht & H).
      apply column_key_inv in Hk. subst k.
      destruct (cell_rekey o ids body x col [N.of_nat i] Hc Hf) as (c & Hcell & _).
      rewrite Hcell in H. inversion H; subst. cbn [map option_map row_spec]. split.
      * exists col. split; [exact Hcol|].
        apply (cell_sem x col i col c); auto.
      * exact (IH _ _ Hsh' Ht).
    + apply C03.bind_ok_inv in H. destruct H as (tl' & Ht & H). inversion H; subst.
      cbn [map option_map row_spec]. exact (IH _ _ Hsh' Ht).
Qed.

Lemma and_row_sem neg es m :
  forallb conj_valid1 es = true -> conj_lookup es [] = Some m ->
  (neg = true -> (1 <? length m)%nat = false) ->
  (forall x f, In x es -> conj_field1 x = Some f -> In f cols) ->
  Rn neg (conj3o (map (fun col => option_map val (lookup col m)) cols)) (conj3 (map val es)).
Proof.
  intros Hv Hm Hneg Hcols.
  destruct (conj_lookup_spec es [] m Hv Hm) as (_ & I2 & I3 & I4).
  assert (Hteq : teq (conj3o (map (fun col => option_map val (lookup col m)) cols)) (conj3 (map val es))).
  { unfold teq. rewrite conj3o_T_iff, conj3_T_iff. split.
    - intros H r Hr. apply in_map_iff in Hr. destruct Hr as (x & <- & Hx).
      destruct (I2 x Hx) as (f & Hf & Hl). apply H. apply in_map_iff. exists f.
      split; [rewrite Hl; reflexivity|]. exact (Hcols x f Hx Hf).
    - intros H w Hw. apply in_map_iff in Hw. destruct Hw as (col & Hw & _).
      destruct (lookup col m) as [x|] eqn:El; [|discriminate Hw]. inversion Hw; subst.
      destruct (I3 col x El) as [H0|[Hin _]]; [discriminate H0|]. apply H. apply in_map. exact Hin. }
  destruct neg; [|exact Hteq]. cbn [Rn]. specialize (Hneg eq_refl).
  destruct es as [|x [|y es]].
  - cbn [conj_lookup] in Hm. inversion Hm; subst. cbn [conj3 map].
    apply conj3o_T_iff. intros w Hw. apply in_map_iff in Hw. destruct Hw as (col & Hw & _). discriminate Hw.
  - cbn [forallb] in Hv. apply andb_prop in Hv. destruct Hv as [Hx _].
    destruct (conj_lookup_cons x Hx) as (f & Hf & Hstep). rewrite Hstep in Hm.
    unfold has_key in Hm. cbn [lookup conj_lookup app] in Hm. inversion Hm; subst.
    replace (conj3 (map val [x])) with (val x) by (cbn [map conj3]; destruct (val x); reflexivity).
    rewrite <- (conj3o_single (fun col => str_eqb col f) (val x) cols).
    + f_equal. apply map_ext. intros col. cbn [lookup]. destruct (str_eqb col f); reflexivity.
    + apply existsb_exists. exists f. split; [|apply str_eqb_same].
      apply (Hcols x f); [left; reflexivity | exact Hf].
  - exfalso. cbn [length] in I4. apply Nat.ltb_ge in Hneg. lia.
Qed.

Lemma Sd_and es : Sd (EGroup BAnd es) = and_fold (map (fun x (_ : unit) => Sd x) es).
Proof. reflexivity. Qed.
Lemma Sd_or es : Sd (EGroup BOr es) = or_fold M (map (fun x (_ : unit) => Sd x) es).
Proof. reflexivity. Qed.

Lemma shift0 : forall j col, nth_error cols j = Some col -> nth_error cols (0 + j) = Some col.
Proof. intros j col H. exact H. Qed.

Lemma place_member_spec neg x row oth :
  gm K x = true -> cr2 x = true -> d18_member x = false ->
  (neg = true -> multi_cell x = false) ->
  (forall f, In f (mfields x) -> In f cols) ->
  place_member cols x = Ok (Some row, oth) ->
  exists ws, row_spec d cols 0 (map (option_map cf) row) ws /\ Rn neg (conj3o ws) (val x).
Proof.
  intros Hg Hcr H18 Hmc Hcols H.
  assert (Hsingle : forall f mk, conj_ok x = true -> conj_field1 x = Some f ->
            (forall k, cell_of k x = Some (Some (mk k))) -> In f cols ->
            row_single cols 0 f mk = Ok row ->
            exists ws, row_spec d cols 0 (map (option_map cf) row) ws /\ Rn neg (conj3o ws) (val x)).
  { intros f mk Hc Hf Hmk Hin Hr. eexists. split.
    - exact (row_single_spec x f mk Hc Hf Hg Hmk cols 0 row shift0 Hr).
    - apply Rn_eq. apply conj3o_single. apply existsb_exists. exists f. split; [exact Hin | apply str_eqb_same]. }
  destruct x as [ s g | l1 op r1 | b | f0 m | f0 | y | i | z | k0 e | cols' rows | e | f0 e | | s f0 cst ];
    cbn [place_member] in H; try discriminate H.
  - (* and-group *)
    destruct s; try discriminate H.
    destruct (conj_lookup g []) as [m|] eqn:Ec; [|discriminate H].
    apply C03.bind_ok_inv in H. destruct H as (row' & Hr & H). inversion H; subst row' oth.
    cbn [d18_member] in H18. rewrite Ec, andb_true_r in H18. apply negb_false_iff in H18.
    cbn [gm is_and_or andb] in Hg. cbn [cr2] in Hcr.
    destruct (conj_lookup_spec g [] m H18 Ec) as (_ & I2 & I3 & _).
    exists (map (fun col => option_map val (lookup col m)) cols). split.
    + apply (row_lookup_spec m); [|exact shift0 | exact Hr].
      intros f x Hl. destruct (I3 f x Hl) as [H0|[Hin Hf]]; [discriminate H0|].
      pose proof (C01.forallb_In _ _ _ Hg Hin) as Gx.
      split; [|split; [exact Hf | exact Gx]].
      apply (conj_ok_of K); [exact Gx | exact (C01.forallb_In _ _ _ H18 Hin) | exact (C01.forallb_In _ _ _ Hcr Hin)].
    + replace (val (EGroup BAnd g)) with (conj3 (map val g)).
      * apply and_row_sem; [exact H18 | exact Ec | |].
        -- intros Hn. specialize (Hmc Hn). cbn [multi_cell] in Hmc. rewrite Ec in Hmc. exact Hmc.
        -- intros x f Hin Hf. apply Hcols. cbn [mfields]. rewrite H18. apply in_flat_map.
           exists x. split; [exact Hin|]. rewrite Hf. left. reflexivity.
      * unfold val at 2. rewrite Sd_and, (and_fold_vals Sd val); [reflexivity|].
        intros x Hx. apply val_ok. exact (C01.forallb_In _ _ _ Hg Hx).
  - (* comparison *)
    assert (Hck : forall f, left_field l1 = Some f -> is_const r1 = true -> conj_ok (EBexp l1 op r1) = true).
    { intros f Hl Hcst. apply (conj_ok_of K); [exact Hg | cbn [conj_valid1]; rewrite Hl; exact Hcst | exact (cr2_cr1 _ Hcr)]. }
    destruct l1; try discriminate H;
      (destruct (is_const r1) eqn:Ecst; [|discriminate H]);
      apply C03.bind_ok_inv in H; destruct H as (row' & Hr & H); inversion H; subst row' oth.
    + apply (Hsingle f (fun k => EBexp (ECast k m) op r1) (Hck f eq_refl eq_refl));
        [ cbn [conj_field1 left_field]; rewrite Ecst; reflexivity | intros k; reflexivity
        | apply Hcols; cbn [mfields left_field]; left; reflexivity | exact Hr ].
    + apply (Hsingle f (fun k => EBexp (EField k) op r1) (Hck f eq_refl eq_refl));
        [ cbn [conj_field1 left_field]; rewrite Ecst; reflexivity | intros k; reflexivity
        | apply Hcols; cbn [mfields left_field]; left; reflexivity | exact Hr ].
  - apply C03.bind_ok_inv in H. destruct H as (row' & Hr & H). inversion H; subst row' oth.
    apply (Hsingle f0 (fun k => ENested k e) eq_refl eq_refl);
      [ intros k; reflexivity | apply Hcols; left; reflexivity | exact Hr ].
  - apply C03.bind_ok_inv in H. destruct H as (row' & Hr & H). inversion H; subst row' oth.
    apply (Hsingle f0 (fun k => ESearch s k cst) eq_refl eq_refl);
      [ intros k; reflexivity | apply Hcols; left; reflexivity | exact Hr ].
Qed.

Definition mem_ok (neg : bool) (x : expr) : Prop :=
  gm K x = true /\ cr2 x = true /\ d18_member x = false /\
  (neg = true -> multi_cell x = false) /\ (forall f, In f (mfields x) -> In f cols).

Lemma place_all_spec neg : forall sc rows others,
  Forall (mem_ok neg) sc -> place_all cols sc = Ok (rows, others) ->
  (forall x, In x others -> In x sc) /\
  exists wss, Forall2 (row_spec d cols 0) (map (map (option_map cf)) rows) wss /\
     Rn neg (join (sumr (map conj3o wss)) (sumr (map val others))) (sumr (map val sc)).
Proof.
  induction sc as [|x sc IH]; intros rows others HF H; cbn [place_all] in H.
  - inversion H; subst. split; [intros x []|]. exists []. split; [constructor | apply Rn_refl].
  - apply C03.bind_ok_inv in H. destruct H as (p & Hp & H).
    apply C03.bind_ok_inv in H. destruct H as ([rows' others'] & Hq & H). inversion H; subst; clear H.
    inversion HF as [|? ? Hx HF']; subst.
    destruct (IH _ _ HF' Hq) as (Hsub & wss & HW & HR).
    destruct (place_member_shape _ _ _ Hp) as [[row ->]| ->]; cbn [fst snd].
    + destruct Hx as (G1 & G2 & G3 & G4 & G5).
      destruct (place_member_spec neg x row None G1 G2 G3 G4 G5 Hp) as (ws & Hws & Hrel).
      split; [intros y Hy; right; exact (Hsub y Hy)|].
      exists (ws :: wss). split; [cbn [map]; constructor; assumption|].
      cbn [map]. rewrite !sumr_cons, <- join_assoc. apply Rn_join; assumption.
    + split; [intros y [<-|Hy]; [left; reflexivity | right; exact (Hsub y Hy)]|].
      exists wss. split; [exact HW|].
      cbn [map]. rewrite !sumr_cons.
      replace (join (sumr (map conj3o wss)) (join (val x) (sumr (map val others'))))
        with (join (val x) (join (sumr (map conj3o wss)) (sumr (map val others')))).
      * apply Rn_join; [apply Rn_refl | exact HR].
      * rewrite !join_assoc. f_equal. apply join_comm.
Qed.

(* the solver on the table and on what `matrix` builds from it *)
Lemma Sd_matrix rows wss : Forall2 (row_spec d cols 0) (map (map (option_map cf)) rows) wss ->
  Sd (EMatrix cols rows) = Ok (sumr (map conj3o wss)).
Proof.
  intros H. unfold Sd. cbn [solve].
  change (map (map (option_map (fun cell d' => solve o ids body cell d'))) rows)
    with (map (map (option_map cf)) rows).
  rewrite (matrix_or_spec d cols _ wss H (empty_cache cols) M ltac:(discriminate) (cache_ok_empty d cols)).
  rewrite join_M_l. reflexivity.
Qed.

Lemma Sd_collapse exprs vs : Forall2 (fun x v => Sd x = Ok v) exprs vs ->
  Sd (match exprs with [x] => x | _ => EGroup BOr exprs end) = Ok (sumr vs).
Proof.
  intros H.
  assert (G : Sd (EGroup BOr exprs) = Ok (sumr vs)).
  { rewrite Sd_or. clear - H. 
    assert (G : forall acc, acc <> T -> or_fold acc (map (fun x (_ : unit) => Sd x) exprs) = Ok (join acc (sumr vs))).
    { induction H as [|x v xs vs Hx _ IH]; intros acc Hacc; cbn [map or_fold].
      - cbn [sumr fold_right]. rewrite join_M_r. reflexivity.
      - rewrite Hx. cbn [bind]. rewrite sumr_cons. destruct v.
        + destruct acc; reflexivity.
        + rewrite (IH F ltac:(discriminate)). destruct acc; [congruence| |]; destruct (sumr vs); reflexivity.
        + rewrite (IH acc Hacc), join_M_l. reflexivity. }
    rewrite (G M ltac:(discriminate)), join_M_l. reflexivity. }
  destruct H as [|x v xs vs Hx [|]]; try exact G.
  rewrite Hx. cbn [sumr fold_right]. rewrite join_M_r. reflexivity.
Qed.

Lemma val_and es : forallb (gm K) es = true -> val (EGroup BAnd es) = conj3 (map val es).
Proof.
  intros Hg. unfold val at 1. rewrite Sd_and, (and_fold_vals Sd val); [reflexivity|].
  intros x Hx. apply val_ok. exact (C01.forallb_In _ _ _ Hg Hx).
Qed.

Lemma val_or es : forallb (gm K) es = true -> val (EGroup BOr es) = sumr (map val es).
Proof.
  intros Hg. unfold val at 1. rewrite Sd_or, (or_fold_vals Sd val); [apply join_M_l | discriminate|].
  intros x Hx. apply val_ok. exact (C01.forallb_In _ _ _ Hg Hx).
Qed.

End Table.

(* ====================================================================================== *)
(* 6. shapes of what `matrix` returns (no hypothesis on the number of columns: the pass    *)
(*    is assumed to have returned)                                                        *)
(* ====================================================================================== *)

Lemma matrix_any_fuel ord F F' e y : matrix ord F e = Ok y ->
  exists y', matrix ord F' e = Ok y' /\ erase y = erase y'.
Proof. intros H. exact (omap_ok_inv erase _ _ y (matrix_erase ord F F' e) H). Qed.

Lemma Forall2_In_l {A B} (R : A -> B -> Prop) l l' x : Forall2 R l l' -> In x l -> exists y, In y l' /\ R x y.
Proof.
  induction 1 as [|a b l l' Hab _ IH]; intros Hx; [destruct Hx|].
  destruct Hx as [<-|Hx]; [exists b; split; [left; reflexivity | exact Hab]|].
  destruct (IH Hx) as (y & Hy & Hr). exists y. split; [right; exact Hy | exact Hr].
Qed.

Lemma Forall2_In_r {A B} (R : A -> B -> Prop) l l' y : Forall2 R l l' -> In y l' -> exists x, In x l /\ R x y.
Proof.
  induction 1 as [|a b l l' Hab _ IH]; intros Hy; [destruct Hy|].
  destruct Hy as [<-|Hy]; [exists a; split; [left; reflexivity | exact Hab]|].
  destruct (IH Hy) as (x & Hx & Hr). exists x. split; [right; exact Hx | exact Hr].
Qed.

Lemma members_k_scratch ord F g scratch : mapM (fun x => matrix ord F x) g = Ok scratch ->
  map erase (members_k ord g) = map erase scratch.
Proof.
  intros Hm. apply (members_k_erase ord F g scratch); [|exact Hm].
  intros x Hx. destruct (Forall2_In_l _ _ _ x (C01.mapM_Forall2 _ _ _ Hm) Hx) as (y & _ & Hy).
  destruct (matrix_any_fuel ord F (shake_fuel x) x y Hy) as (y' & Hy' & _). eauto.
Qed.

Lemma multi_cell_erase e : multi_cell (erase e) = multi_cell e.
Proof.
  destruct e as [ s g | l1 op r1 | b | f m | f | y | j | z | k e | cols rows | e | f e | | s f cst ];
    try reflexivity.
  destruct s; try reflexivity. cbn [erase multi_cell].
  change (@nil (str * expr)) with (erase_m []) at 1. rewrite conj_lookup_erase.
  destruct (conj_lookup g []) as [m|]; cbn [option_map]; [|reflexivity].
  unfold erase_m. rewrite map_length. reflexivity.
Qed.

Lemma existsb_mc_erase l : existsb multi_cell (map erase l) = existsb multi_cell l.
Proof.
  induction l as [|a l IH]; [reflexivity|]. cbn [map existsb]. rewrite multi_cell_erase, IH. reflexivity.
Qed.

(* what the classifiers say about the members the pass really places *)
Lemma scratch_d18 ord neg F g scratch :
  d18_here ord neg (EGroup BOr g) = false ->
  mapM (fun x => matrix ord F x) g = Ok scratch -> matrix_fires scratch = true ->
  existsb d18_member scratch = false.
Proof.
  intros Hh Hm Ef. pose proof (members_k_scratch ord F g scratch Hm) as HE.
  cbn [d18_here] in Hh. fold (members_k ord g) in Hh.
  unfold matrix_fires in Hh, Ef. rewrite (count_fields_erase_eq _ _ HE), Ef in Hh.
  cbn [andb] in Hh. rewrite <- existsb_d18_erase, HE, existsb_d18_erase in Hh. exact Hh.
Qed.

Lemma scratch_d17 ord F g scratch :
  d17_here ord true (EGroup BOr g) = false ->
  mapM (fun x => matrix ord F x) g = Ok scratch -> matrix_fires scratch = true ->
  existsb multi_cell scratch = false.
Proof.
  intros Hh Hm Ef. pose proof (members_k_scratch ord F g scratch Hm) as HE.
  cbn [d17_here andb] in Hh. fold (members_k ord g) in Hh.
  unfold matrix_fires in Hh, Ef. rewrite (count_fields_erase_eq _ _ HE), Ef in Hh.
  cbn [andb] in Hh. rewrite <- existsb_mc_erase, HE, existsb_mc_erase in Hh. exact Hh.
Qed.

Lemma matrix_match ord F k e : matrix ord F (EMatch k e) = Ok (shake1 ord (S F) (EMatch k e)).
Proof. destruct e; reflexivity. Qed.

Section MatrixShape.
Variable ord : hord.
Variable K : str -> bool.

Lemma matrix_gm' : forall e neg, gk K e = true ->
  exists_sub (d18_here ord) neg e = false ->
  forall F e', matrix ord F e = Ok e' -> gm K e' = true.
Proof.
  induction e as [e IH] using C01.size_ind. intros neg Hg H18 F e' H.
  pose proof (proj1 (gk_gm K e Hg)) as Hgm.
  dex e; cbn [gk] in Hg; try discriminate Hg; try (inversion H; subst; exact Hgm);
    cbn [exists_sub] in H18;
    apply orb_false_iff in H18; destruct H18 as [Hh18 Hs18].
  - (* group *)
    apply andb_prop in Hg. destruct Hg as [Hs Hl].
    assert (Hmem : forall x y, In x g -> matrix ord F x = Ok y -> gm K y = true).
    { intros x y Hx Hy.
      apply (IH x ltac:(sz) neg (C01.forallb_In _ _ _ Hl Hx) (C01.existsb_false_In _ _ _ Hs18 Hx) F y Hy). }
    assert (Hsc : forall scratch, mapM (fun x => matrix ord F x) g = Ok scratch ->
                                  Forall (fun y => gm K y = true) scratch).
    { intros scratch Hm. apply C01.mapM_Forall2 in Hm. apply Forall_forall. intros y Hy.
      destruct (Forall2_In_r _ _ _ y Hm Hy) as (x & Hx & Hxy). exact (Hmem x y Hx Hxy). }
    destruct s; try discriminate Hs.
    + cbn [matrix] in H. apply C03.bind_ok_inv in H. destruct H as (l' & Hm & H). inversion H; subst.
      cbn [gm is_and_or andb]. apply forallb_forall. apply Forall_forall. exact (Hsc _ Hm).
    + rewrite matrix_or_eq in H. apply C03.bind_ok_inv in H. destruct H as (scratch & Hm & H).
      pose proof (Hsc _ Hm) as Hgs.
      assert (HGS : gm K (EGroup BOr scratch) = true).
      { cbn [gm is_and_or andb]. apply forallb_forall. apply Forall_forall. exact Hgs. }
      destruct (matrix_table scratch) eqn:Et; [|inversion H; subst; exact HGS].
      pose proof (matrix_table_fires _ Et) as Ef.
      cbv zeta in H.
      apply C03.bind_ok_inv in H. destruct H as ([rows others] & Hp & H).
      pose proof (scratch_d18 ord neg F g scratch Hh18 Hm Ef) as Hd.
      destruct (place_all_good K _ scratch rows others Hgs Hd Hp) as [R O].
      set (cols := matrix_cols ord (count_fields scratch)) in *.
      assert (HX : forallb (gm K) ((match rows with [] => [] | _ => [EMatrix cols rows] end) ++ others) = true).
      { rewrite forallb_app, O, andb_true_r. destruct rows as [|r0 rows0]; [reflexivity|].
        cbn [forallb]. rewrite andb_true_r. cbn [gm]. exact R. }
      revert H HX. generalize ((match rows with [] => [] | _ => [EMatrix cols rows] end) ++ others).
      intros exprs H HX. destruct exprs as [|a [|b rest]]; inversion H; subst.
      * reflexivity.
      * cbn [forallb] in HX. rewrite andb_true_r in HX. exact HX.
      * cbn [gm is_and_or andb]. exact HX.
  - (* bexp *)
    cbn [matrix] in H. destruct (is_and_or op) eqn:Eop.
    + apply andb_prop in Hg. destruct Hg as [G1 G2].
      apply orb_false_iff in Hs18. destruct Hs18 as [A1 A2].
      apply C03.bind_ok_inv in H. destruct H as (l' & Hl' & H).
      apply C03.bind_ok_inv in H. destruct H as (r' & Hr' & H). inversion H; subst.
      pose proof (IH l1 ltac:(sz) neg G1 A1 F l' Hl') as R1.
      pose proof (IH r1 ltac:(sz) neg G2 A2 F r' Hr') as R2.
      cbn [gm]. rewrite Eop, R1, R2. reflexivity.
    + apply andb_prop in Hg. destruct Hg as [G1 G2].
      rewrite (matrix_leaf ord F l1 G1), (matrix_leaf ord F r1 G2) in H. cbn [bind] in H.
      inversion H; subst. exact Hgm.
  - (* match *)
    rewrite matrix_match in H.
    assert (E : e' = shake1 ord (S F) (EMatch k e)) by congruence. rewrite E.
    apply (gk_gm K). apply shake1_good. cbn [gk]. exact Hg.
  - (* negate *)
    cbn [matrix] in H. apply C03.bind_ok_inv in H. destruct H as (x & Hx & H). inversion H; subst.
    cbn [gm]. exact (IH e ltac:(sz) true Hg Hs18 F x Hx).
  - (* nested *)
    cbn [matrix] in H. apply C03.bind_ok_inv in H. destruct H as (x & Hx & H). inversion H; subst.
    cbn [gm]. exact (IH e ltac:(sz) neg Hg Hs18 F x Hx).
Qed.

Lemma place_all_others cols : forall sc rows others, place_all cols sc = Ok (rows, others) ->
  forall x, In x others -> In x sc.
Proof.
  induction sc as [|e sc IH]; intros rows others H x Hx; cbn [place_all] in H.
  - inversion H; subst. destruct Hx.
  - apply C03.bind_ok_inv in H. destruct H as (p & Hp & H).
    apply C03.bind_ok_inv in H. destruct H as ([rows' others'] & Hq & H). inversion H; subst; clear H.
    destruct (place_member_shape _ _ _ Hp) as [[row ->]| ->]; cbn [fst snd] in Hx.
    + right. exact (IH _ _ Hq x Hx).
    + destruct Hx as [<-|Hx]; [left; reflexivity | right; exact (IH _ _ Hq x Hx)].
Qed.

Lemma matrix_cr2 : forall e F e', gk K e = true -> cmp_reads e = true ->
  matrix ord F e = Ok e' -> cr2 e' = true.
Proof.
  induction e as [e IH] using C01.size_ind. intros F e' Hg Hc H.
  dex e; cbn [gk] in Hg; try discriminate Hg; try (inversion H; subst; reflexivity).
  - (* group *)
    apply andb_prop in Hg. destruct Hg as [Hs Hl]. cbn [cmp_reads] in Hc.
    assert (Hsc : forall scratch, mapM (fun x => matrix ord F x) g = Ok scratch ->
                                  forall y, In y scratch -> cr2 y = true).
    { intros scratch Hm y Hy. apply C01.mapM_Forall2 in Hm.
      destruct (Forall2_In_r _ _ _ y Hm Hy) as (x & Hx & Hxy).
      exact (IH x ltac:(sz) F y (C01.forallb_In _ _ _ Hl Hx) (C01.forallb_In _ _ _ Hc Hx) Hxy). }
    destruct s; try discriminate Hs.
    + cbn [matrix] in H. apply C03.bind_ok_inv in H. destruct H as (l' & Hm & H). inversion H; subst.
      cbn [cr2]. apply C01.forallb_intro. intros y Hy. apply cr2_cr1. exact (Hsc _ Hm y Hy).
    + rewrite matrix_or_eq in H. apply C03.bind_ok_inv in H. destruct H as (scratch & Hm & H).
      destruct (matrix_table scratch); [|inversion H; subst; reflexivity].
      cbv zeta in H. apply C03.bind_ok_inv in H. destruct H as ([rows others] & Hp & H).
      pose proof (place_all_others _ _ _ _ Hp) as Hsub.
      destruct rows as [|r0 rows0]; cbn [app] in H.
      * destruct others as [|a [|b rest]]; inversion H; subst; try reflexivity.
        apply (Hsc _ Hm). apply Hsub. left. reflexivity.
      * destruct others as [|a rest]; inversion H; subst; reflexivity.
  - (* bexp *)
    cbn [matrix] in H. cbn [cmp_reads] in Hc. destruct (is_and_or op) eqn:Eop.
    + apply C03.bind_ok_inv in H. destruct H as (l' & Hl' & H).
      apply C03.bind_ok_inv in H. destruct H as (r' & Hr' & H). inversion H; subst.
      cbn [cr2 cr1]. rewrite Eop. reflexivity.
    + apply andb_prop in Hg. destruct Hg as [G1 G2].
      rewrite (matrix_leaf ord F l1 G1), (matrix_leaf ord F r1 G2) in H. cbn [bind] in H.
      inversion H; subst. cbn [cr2 cr1]. rewrite Eop. exact Hc.
  - cbn [matrix] in H. destruct e; inversion H; subst; reflexivity.
  - cbn [matrix] in H. apply C03.bind_ok_inv in H. destruct H as (x & Hx & H). inversion H; subst. reflexivity.
  - cbn [matrix] in H. apply C03.bind_ok_inv in H. destruct H as (x & Hx & H). inversion H; subst. reflexivity.
Qed.

End MatrixShape.

(* ====================================================================================== *)
(* 7. the pass, semantically                                                              *)
(* ====================================================================================== *)

(* no negative position below *)
Fixpoint no_neg (e : expr) : bool :=
  match e with
  | EGroup _ l => forallb no_neg l
  | EBexp l _ r => no_neg l && no_neg r
  | EMatch (MOf c) e' => negb (c =? 0)%Z && no_neg e'
  | EMatch MAll e' => no_neg e'
  | ENegate _ => false
  | ENested _ e' => no_neg e'
  | _ => true
  end.

Lemma Rn_weaken b neg a c : Rn b a c -> (b = true \/ neg = false) -> Rn neg a c.
Proof.
  destruct b, neg; cbn [Rn]; intros H [E|E]; try discriminate E; try exact H;
    subst; unfold teq; tauto.
Qed.

Lemma gk_cl K : forall e, gk K e = true -> C01.cmp_leaves e = true.
Proof.
  induction e as [e IH] using C01.size_ind. intros H.
  dex e; cbn [gk] in H; try discriminate H; cbn [C01.cmp_leaves]; try reflexivity.
  - apply andb_prop in H. destruct H as [_ Hl]. apply C01.forallb_intro. intros x Hx.
    apply IH; [sz | exact (C01.forallb_In _ _ _ Hl Hx)].
  - destruct (is_and_or op); [|exact H]. apply andb_prop in H. destruct H as [H1 H2].
    rewrite (IH l1), (IH r1); try assumption; try reflexivity; sz.
  - apply IH; [sz | exact H].
  - apply IH; [sz | exact H].
  - apply IH; [sz | exact H].
Qed.

Lemma F2_rel {A B} (P : A -> B -> Prop) (Q : B -> A -> Prop) l l' :
  Forall2 P l l' -> (forall x y, In x l -> P x y -> Q y x) -> Forall2 Q l' l.
Proof.
  induction 1 as [|a b l l' Hab _ IH]; intros H; constructor.
  - apply H; [left; reflexivity | exact Hab].
  - apply IH. intros x y Hx. apply H. right. exact Hx.
Qed.

Lemma Forall2_map2 {A B C D} (R : C -> D -> Prop) (f : A -> C) (g : B -> D) l l' :
  Forall2 (fun a b => R (f a) (g b)) l l' -> Forall2 R (map f l) (map g l').
Proof. induction 1; cbn [map]; constructor; assumption. Qed.

Lemma size_bl l op r : expr_size l < expr_size (EBexp l op r).
Proof. cbn [expr_size]. lia. Qed.
Lemma size_br l op r : expr_size r < expr_size (EBexp l op r).
Proof. cbn [expr_size]. lia. Qed.
Lemma size_ng e : expr_size e < expr_size (ENegate e).
Proof. cbn [expr_size]. lia. Qed.

Section Main.
Variable o : oracles.
Variable ord : hord.
Hypothesis Hord : forall l, Permutation (ord l) l.
Variable d : doc.
Variables ids1 ids2 : list (str * expr).
Variable K : str -> bool.

Let S1 (e : expr) : out res3 := Sd o ids1 (solve_body o) d e.
Let S2 (e : expr) : out res3 := Sd o ids2 (solve_body o) d e.
Let V1 (e : expr) : res3 := val o ids1 (solve_body o) d e.
Let V2 (e : expr) : res3 := val o ids2 (solve_body o) d e.

Hypothesis Hok1 : forall e, gm K e = true -> C03.okr (S1 e).
Hypothesis Hok2 : forall e, gm K e = true -> C03.okr (S2 e).
(* identifiers: related as the bodies are *)
Variable bn : bool.
Hypothesis Hid : forall i, K i = true -> Rn bn (V2 (EIdent i)) (V1 (EIdent i)).
(* quantifiers: shake_1 on the operand, when allowed at all *)
Variable am : bool.
Hypothesis HM : am = true -> forall k e0 F, gk K (EMatch k e0) = true -> C01.no_nested e0 = true ->
  S2 (shake1 ord (S F) (EMatch k e0)) = S1 (EMatch k e0).

Lemma matrix_sem : forall e neg F e',
  gk K e = true -> C01.no_nested e = true -> cmp_reads e = true ->
  exists_sub (d17_here ord) neg e = false -> exists_sub (d18_here ord) neg e = false ->
  (bn = true \/ (neg = false /\ no_neg e = true)) ->
  (am = true \/ no_match e = true) ->
  matrix ord F e = Ok e' ->
  Rn neg (V2 e') (V1 e).
Proof.
  induction e as [e IH] using C01.size_ind. intros neg F e' Hg Hnn Hcr H17 H18 Hpn Hpm H.
  dex e; cbn [gk] in Hg; try discriminate Hg.
  - (* group *)
    apply andb_prop in Hg. destruct Hg as [Hs Hl].
    cbn [C01.no_nested cmp_reads exists_sub] in Hnn, Hcr, H17, H18.
    apply orb_false_iff in H17. destruct H17 as [Hh17 Hs17].
    apply orb_false_iff in H18. destruct H18 as [Hh18 Hs18].
    assert (Hmem : forall x y, In x g -> matrix ord F x = Ok y ->
              gm K y = true /\ cr2 y = true /\ Rn neg (V2 y) (V1 x)).
    { intros x y Hx Hy.
      pose proof (C01.forallb_In _ _ _ Hl Hx) as Gx.
      pose proof (C01.existsb_false_In _ _ _ Hs18 Hx) as Dx.
      split; [exact (matrix_gm' ord K x neg Gx Dx F y Hy)|].
      split; [exact (matrix_cr2 ord K x F y Gx (C01.forallb_In _ _ _ Hcr Hx) Hy)|].
      apply (IH x (C01.size_member s g x Hx) neg F y Gx (C01.forallb_In _ _ _ Hnn Hx) (C01.forallb_In _ _ _ Hcr Hx)
                (C01.existsb_false_In _ _ _ Hs17 Hx) Dx); [| |exact Hy].
      - destruct Hpn as [Hb|[Hn Hq]]; [left; exact Hb|right]. split; [exact Hn|].
        cbn [no_neg] in Hq. exact (C01.forallb_In _ _ _ Hq Hx).
      - destruct Hpm as [Hb|Hq]; [left; exact Hb|right].
        cbn [no_match] in Hq. exact (C01.forallb_In _ _ _ Hq Hx). }
    assert (Hgl : forallb (gm K) g = true).
    { apply C01.forallb_intro. intros x Hx. exact (proj1 (gk_gm K x (C01.forallb_In _ _ _ Hl Hx))). }
    assert (Hsc : forall scratch, mapM (fun x => matrix ord F x) g = Ok scratch ->
              forallb (gm K) scratch = true /\ (forall y, In y scratch -> cr2 y = true) /\
              Forall2 (Rn neg) (map V2 scratch) (map V1 g)).
    { intros scratch Hm. apply C01.mapM_Forall2 in Hm. split; [|split].
      - apply C01.forallb_intro. intros y Hy. destruct (Forall2_In_r _ _ _ y Hm Hy) as (x & Hx & Hxy).
        exact (proj1 (Hmem x y Hx Hxy)).
      - intros y Hy. destruct (Forall2_In_r _ _ _ y Hm Hy) as (x & Hx & Hxy).
        exact (proj1 (proj2 (Hmem x y Hx Hxy))).
      - apply Forall2_map2. apply (F2_rel _ _ _ _ Hm). intros x y Hx Hxy.
        exact (proj2 (proj2 (Hmem x y Hx Hxy))). }
    destruct s; try discriminate Hs.
    + (* and *)
      cbn [matrix] in H. apply C03.bind_ok_inv in H. destruct H as (l' & Hm & H). inversion H; subst e'.
      destruct (Hsc l' Hm) as (G' & _ & HR).
      unfold V1, V2. rewrite (val_and o ids1 _ d K Hok1 g Hgl), (val_and o ids2 _ d K Hok2 l' G').
      apply Rn_conj3. exact HR.
    + (* or *)
      rewrite matrix_or_eq in H. apply C03.bind_ok_inv in H. destruct H as (scratch & Hm & H).
      destruct (Hsc scratch Hm) as (G' & C' & HR).
      assert (HV1 : V1 (EGroup BOr g) = sumr (map V1 g)) by (apply (val_or o ids1 _ d K Hok1 g Hgl)).
      assert (HRs : Rn neg (sumr (map V2 scratch)) (V1 (EGroup BOr g))).
      { rewrite HV1. apply Rn_sumr. exact HR. }
      destruct (matrix_table scratch) eqn:Et.
      2:{ inversion H; subst e'. unfold V2 at 1. rewrite (val_or o ids2 _ d K Hok2 scratch G'). exact HRs. }
      pose proof (matrix_table_fires _ Et) as Ef.
      cbv zeta in H. set (cols := matrix_cols ord (count_fields scratch)) in *.
      apply C03.bind_ok_inv in H. destruct H as ([rows others] & Hp & H).
      pose proof (scratch_d18 ord neg F g scratch Hh18 Hm Ef) as Hd18.
      assert (Hmc : neg = true -> existsb multi_cell scratch = false).
      { intros ->. exact (scratch_d17 ord F g scratch Hh17 Hm Ef). }
      assert (HF : Forall (mem_ok cols K neg) scratch).
      { apply Forall_forall. intros y Hy. unfold mem_ok.
        split; [exact (C01.forallb_In _ _ _ G' Hy)|]. split; [exact (C' y Hy)|].
        split; [exact (C01.existsb_false_In _ _ _ Hd18 Hy)|]. split.
        - intros Hn. exact (C01.existsb_false_In _ _ _ (Hmc Hn) Hy).
        - intros f Hf. apply matrix_cols_In; [exact Hord|]. exact (count_fields_In f scratch y Hy Hf). }
      destruct (place_all_spec o ids2 (solve_body o) d cols K Hok2 neg scratch rows others HF Hp)
        as (Hsub & wss & HW & HRp).
      apply (Rn_trans neg _ (sumr (map V2 scratch))); [|exact HRs].
      refine (Rn_trans neg _ _ _ _ HRp). apply Rn_eq.
      assert (Hoth : Forall2 (fun x v => S2 x = Ok v) others (map V2 others)).
      { clear - Hsub G' Hok2. induction others as [|a others IHo]; cbn [map]; constructor.
        - apply (val_ok o ids2 (solve_body o) d K Hok2). apply (C01.forallb_In _ _ _ G'). apply Hsub. left. reflexivity.
        - apply IHo. intros x Hx. apply Hsub. right. exact Hx. }
      destruct rows as [|r0 rows0].
      * cbn [app] in H. cbn [map] in HW. inversion HW; subst wss.
        cbn [map sumr fold_right]. rewrite join_M_l.
        assert (E : e' = match others with [x] => x | _ => EGroup BOr others end)
          by (destruct others as [|a [|b rest]]; inversion H; reflexivity).
        assert (HS : Sd o ids2 (solve_body o) d e' = Ok (sumr (map V2 others))).
        { rewrite E. exact (Sd_collapse o ids2 (solve_body o) d others (map V2 others) Hoth). }
        unfold V2 at 1, val. rewrite HS. reflexivity.
      * cbn [app] in H.
        assert (E : e' = match EMatrix cols (r0 :: rows0) :: others with [x] => x | l => EGroup BOr l end)
          by (destruct others as [|a rest]; inversion H; reflexivity).
        assert (HS : Sd o ids2 (solve_body o) d e' = Ok (sumr (sumr (map conj3o wss) :: map V2 others))).
        { rewrite E. clear E H Hsub Hp.
          pose proof (Sd_matrix o ids2 (solve_body o) d cols (r0 :: rows0) wss HW) as HMx.
          destruct others as [|a rest].
          - apply (Sd_collapse o ids2 (solve_body o) d [EMatrix cols (r0 :: rows0)] [sumr (map conj3o wss)]).
            constructor; [exact HMx | constructor].
          - apply (Sd_collapse o ids2 (solve_body o) d (EMatrix cols (r0 :: rows0) :: a :: rest)
                     (sumr (map conj3o wss) :: map V2 (a :: rest))).
            constructor; [exact HMx | exact Hoth]. }
        unfold V2 at 1, val. rewrite HS. reflexivity.
  - (* bexp *)
    cbn [matrix] in H. cbn [C01.no_nested cmp_reads exists_sub] in Hnn, Hcr, H17, H18.
    apply orb_false_iff in H17. destruct H17 as [_ Hs17].
    apply orb_false_iff in H18. destruct H18 as [_ Hs18].
    destruct (is_and_or op) eqn:Eop.
    + apply andb_prop in Hg. destruct Hg as [G1 G2].
      apply andb_prop in Hnn. destruct Hnn as [N1 N2].
      apply andb_prop in Hcr. destruct Hcr as [C1 C2].
      apply orb_false_iff in Hs17. destruct Hs17 as [A1 A2].
      apply orb_false_iff in Hs18. destruct Hs18 as [B1 B2].
      apply C03.bind_ok_inv in H. destruct H as (l' & Hl' & H).
      apply C03.bind_ok_inv in H. destruct H as (r' & Hr' & H). inversion H; subst e'.
      assert (P1 : (bn = true \/ neg = false /\ no_neg l1 = true) /\ (bn = true \/ neg = false /\ no_neg r1 = true)).
      { destruct Hpn as [Hb|[Hn Hq]]; [split; left; exact Hb|].
        cbn [no_neg] in Hq. apply andb_prop in Hq. destruct Hq. split; right; split; assumption. }
      assert (P2 : (am = true \/ no_match l1 = true) /\ (am = true \/ no_match r1 = true)).
      { destruct Hpm as [Hb|Hq]; [split; left; exact Hb|].
        cbn [no_match] in Hq. apply andb_prop in Hq. destruct Hq. split; right; assumption. }
      pose proof (IH l1 (size_bl l1 op r1) neg F l' G1 N1 C1 A1 B1 (proj1 P1) (proj1 P2) Hl') as R1.
      pose proof (IH r1 (size_br l1 op r1) neg F r' G2 N2 C2 A2 B2 (proj2 P1) (proj2 P2) Hr') as R2.
      pose proof (matrix_gm' ord K l1 neg G1 B1 F l' Hl') as GL.
      pose proof (matrix_gm' ord K r1 neg G2 B2 F r' Hr') as GR.
      pose proof (proj1 (gk_gm K l1 G1)) as GL0. pose proof (proj1 (gk_gm K r1 G2)) as GR0.
      assert (HF2 : Forall2 (Rn neg) (map V2 [l'; r']) (map V1 [l1; r1])) by (repeat constructor; assumption).
      destruct op; try discriminate Eop.
      * replace (V2 (EBexp l' BAnd r')) with (V2 (EGroup BAnd [l'; r'])).
        2:{ unfold V2, val, Sd. cbn [solve]. rewrite C01.and2_fold. reflexivity. }
        replace (V1 (EBexp l1 BAnd r1)) with (V1 (EGroup BAnd [l1; r1])).
        2:{ unfold V1, val, Sd. cbn [solve]. rewrite C01.and2_fold. reflexivity. }
        unfold V1, V2. rewrite (val_and o ids1 _ d K Hok1), (val_and o ids2 _ d K Hok2).
        -- apply Rn_conj3. exact HF2.
        -- cbn [forallb]. rewrite GL, GR. reflexivity.
        -- cbn [forallb]. rewrite GL0, GR0. reflexivity.
      * replace (V2 (EBexp l' BOr r')) with (V2 (EGroup BOr [l'; r'])).
        2:{ unfold V2, val, Sd. cbn [solve]. rewrite C01.or2_fold. reflexivity. }
        replace (V1 (EBexp l1 BOr r1)) with (V1 (EGroup BOr [l1; r1])).
        2:{ unfold V1, val, Sd. cbn [solve]. rewrite C01.or2_fold. reflexivity. }
        unfold V1, V2. rewrite (val_or o ids1 _ d K Hok1), (val_or o ids2 _ d K Hok2).
        -- apply Rn_sumr. exact HF2.
        -- cbn [forallb]. rewrite GL, GR. reflexivity.
        -- cbn [forallb]. rewrite GL0, GR0. reflexivity.
    + apply andb_prop in Hg. destruct Hg as [G1 G2].
      rewrite (matrix_leaf ord F l1 G1), (matrix_leaf ord F r1 G2) in H. cbn [bind] in H.
      inversion H; subst e'. apply Rn_eq. unfold V1, V2, val, Sd. rewrite !solve_cmp by exact Eop. reflexivity.
  - (* ident *)
    inversion H; subst e'. apply (Rn_weaken bn); [exact (Hid i Hg)|].
    destruct Hpn as [Hb|[Hn _]]; [left; exact Hb | right; exact Hn].
  - (* match *)
    rewrite matrix_match in H.
    assert (E : e' = shake1 ord (S F) (EMatch k e)) by congruence. rewrite E.
    destruct Hpm as [Ha|Hq]; [|discriminate Hq].
    apply Rn_eq. unfold V1, V2, val.
    change (Sd o ids2 (solve_body o) d (shake1 ord (S F) (EMatch k e))) with (S2 (shake1 ord (S F) (EMatch k e))).
    rewrite (HM Ha k e F Hg Hnn). reflexivity.
  - (* negate *)
    cbn [matrix] in H. apply C03.bind_ok_inv in H. destruct H as (x & Hx & H). inversion H; subst e'.
    cbn [C01.no_nested cmp_reads exists_sub] in Hnn, Hcr, H17, H18.
    apply orb_false_iff in H17. destruct H17 as [_ Hs17].
    apply orb_false_iff in H18. destruct H18 as [_ Hs18].
    assert (Hb : bn = true) by (destruct Hpn as [Hb|[_ Hq]]; [exact Hb | discriminate Hq]).
    assert (Pm' : am = true \/ no_match e = true) by (destruct Hpm as [Ha|Hq]; [left; exact Ha | right; exact Hq]).
    pose proof (IH e (size_ng e) true F x Hg Hnn Hcr Hs17 Hs18 (or_introl Hb) Pm' Hx) as R. cbn [Rn] in R.
    pose proof (matrix_gm' ord K e true Hg Hs18 F x Hx) as GX.
    apply Rn_eq. unfold V1, V2, val, Sd. cbn [solve].
    fold (Sd o ids2 (solve_body o) d x). fold (Sd o ids1 (solve_body o) d e).
    rewrite (val_ok o ids2 _ d K Hok2 x GX), (val_ok o ids1 _ d K Hok1 e (proj1 (gk_gm K e Hg))).
    cbn [bind]. fold (V2 x). fold (V1 e). rewrite R. reflexivity.
  - (* nested *)
    discriminate Hnn.
  - (* search *)
    inversion H; subst e'. apply Rn_eq. reflexivity.
Qed.

End Main.

(* ====================================================================================== *)
(* 8. identifier-free trees: statements 1 and 2                                           *)
(* ====================================================================================== *)

Lemma existsb_ext_In {A} (p q : A -> bool) l : (forall x, In x l -> p x = q x) -> existsb p l = existsb q l.
Proof.
  induction l as [|a l IH]; intros H; [reflexivity|]. cbn [existsb].
  rewrite (H a (or_introl eq_refl)), IH; [reflexivity|]. intros x Hx. apply H. right. exact Hx.
Qed.

(* a classifier that does not look at the polarity (or is asked at negative polarity only) *)
Lemma exists_sub_neg_irrel (p q : bool -> expr -> bool) : (forall n x, p n x = q true x) ->
  forall e n, exists_sub p n e = exists_sub q true e.
Proof.
  intros Hpq. induction e as [e IH] using C01.size_ind. intros n.
  dex e; cbn [exists_sub]; rewrite (Hpq n); try reflexivity; f_equal.
  - apply existsb_ext_In. intros x Hx. apply IH. sz.
  - rewrite (IH l1), (IH r1); [reflexivity | sz | sz].
  - destruct k as [|c]; cbn [orb]; apply IH; sz.
  - apply existsb_ext_In. intros row Hrow. apply existsb_ext_In. intros [c|] Hc; [|reflexivity].
    apply IH. exact (C01.size_cell cols rows row c Hrow Hc).
  - apply IH. sz.
  - apply IH. sz.
Qed.

Section Flat.
Variable o : oracles.
Variable ord : hord.
Hypothesis Hord : forall l, Permutation (ord l) l.
Variable d : doc.

Lemma ok_nil e : gm nokey e = true -> C03.okr (Sd o [] (solve_body o) d e).
Proof. intros H. exact (solve_body_m o e (pure_doc d) H (C03.npd_pure d)). Qed.

Lemma hm_nil k e0 F : gk nokey (EMatch k e0) = true -> C01.no_nested e0 = true ->
  Sd o [] (solve_body o) d (shake1 ord (S F) (EMatch k e0)) = Sd o [] (solve_body o) d (EMatch k e0).
Proof.
  intros Hg Hn.
  exact (C01_shake1.shake1_exact_gen o [] eq_refl (pure_doc d) (C03.npd_pure d) ord
           (C01_shake1.perm_ord_keeps ord Hord) (S F) (EMatch k e0)
           (C03.wf_body_cond_nil _ (gb_wf_body _ Hg)) Hn (gk_cl nokey _ Hg)).
Qed.

Lemma matrix_flat_rel neg F e e' :
  gb e = true -> C01.no_nested e = true -> cmp_reads e = true ->
  exists_sub (d17_here ord) neg e = false -> exists_sub (d18_here ord) neg e = false ->
  matrix ord F e = Ok e' ->
  exists v v', solve_body o e (pure_doc d) = Ok v /\ solve_body o e' (pure_doc d) = Ok v' /\ Rn neg v' v.
Proof.
  intros Hg Hn Hc H17 H18 H.
  assert (Hid : forall i, nokey i = true ->
            Rn true (val o [] (solve_body o) d (EIdent i)) (val o [] (solve_body o) d (EIdent i)))
    by (intros i Hi; discriminate Hi).
  pose proof (matrix_sem o ord Hord d [] [] nokey ok_nil ok_nil true Hid true (fun _ => hm_nil)
                e neg F e' Hg Hn Hc H17 H18 (or_introl eq_refl) (or_introl eq_refl) H) as R.
  pose proof (matrix_gm' ord nokey e neg Hg H18 F e' H) as Gm'.
  exists (val o [] (solve_body o) d e), (val o [] (solve_body o) d e').
  split; [|split; [|exact R]].
  - exact (val_ok o [] (solve_body o) d nokey ok_nil e (proj1 (gk_gm nokey e Hg))).
  - exact (val_ok o [] (solve_body o) d nokey ok_nil e' Gm').
Qed.

End Flat.

(* ---- statement 1 ---- *)
(* FALSE as stated: a str() cast compared with a constant is F without reading the field, M as a
   cell when the field is absent (ord = identity, a permutation) *)
Lemma matrix_exact_flat_refuted :
  let f := [102%N] in
  let e := EGroup BOr [EBexp (ECast f MStr) BEqual (EInt 1); EBexp (ECast f MStr) BEqual (EInt 2)] in
  let d : doc := fun _ => None in
  wf_body e = true /\ C01.no_nested e = true /\ C01.cmp_leaves e = true /\
  no_multi_cell (fun k => k) e = true /\ exists_sub (d18_here (fun k => k)) false e = false /\
  exists e', matrix (fun k => k) 10 e = Ok e' /\
             solve_body C01.o0 e' (pure_doc d) = Ok M /\ solve_body C01.o0 e (pure_doc d) = Ok F.
Proof.
  cbv zeta. do 5 (split; [vm_compute; reflexivity|]).
  eexists. split; [vm_compute; reflexivity|]. split; vm_compute; reflexivity.
Qed.

(* the closest true statement: + cmp_reads e *)
Lemma matrix_exact_flat_alt : forall o ord fuel e e' (d : doc),
  (forall l, Permutation (ord l) l) ->
  wf_body e = true -> C01.no_nested e = true -> C01.cmp_leaves e = true ->
  cmp_reads e = true ->
  no_multi_cell ord e = true ->
  exists_sub (d18_here ord) false e = false ->
  matrix ord fuel e = Ok e' ->
  solve_body o e' (pure_doc d) = solve_body o e (pure_doc d).
Proof.
  intros o ord fuel e e' d Hord Hw Hn Hcl Hcr Hmc H18 H.
  unfold no_multi_cell in Hmc. apply negb_true_iff in Hmc.
  rewrite (exists_sub_neg_irrel _ (d17_here ord)) in Hmc by (intros n x; reflexivity).
  rewrite (exists_sub_neg_irrel _ (d18_here ord)) in H18 by (intros n x; reflexivity).
  destruct (matrix_flat_rel o ord Hord d true fuel e e' (gb_of_wf_body e Hw Hcl) Hn Hcr Hmc H18 H)
    as (v & v' & E1 & E2 & R).
  cbn [Rn] in R. rewrite E1, E2, R. reflexivity.
Qed.

(* ---- statement 2 ---- *)
Lemma matrix_truth_flat_refuted :
  let f := [102%N] in
  let e := ENegate (EGroup BOr [EBexp (ECast f MStr) BEqual (EInt 1); EBexp (ECast f MStr) BEqual (EInt 2)]) in
  let d : doc := fun _ => None in
  wf_body e = true /\ C01.no_nested e = true /\ C01.cmp_leaves e = true /\
  exists_sub (d17_here (fun k => k)) false e = false /\ exists_sub (d18_here (fun k => k)) false e = false /\
  exists e', matrix (fun k => k) 10 e = Ok e' /\
             solve_body C01.o0 e' (pure_doc d) = Ok F /\ solve_body C01.o0 e (pure_doc d) = Ok T.
Proof.
  cbv zeta. do 5 (split; [vm_compute; reflexivity|]).
  eexists. split; [vm_compute; reflexivity|]. split; vm_compute; reflexivity.
Qed.

Lemma matrix_truth_flat_alt : forall o ord fuel e e' (d : doc),
  (forall l, Permutation (ord l) l) ->
  wf_body e = true -> C01.no_nested e = true -> C01.cmp_leaves e = true ->
  cmp_reads e = true ->
  exists_sub (d17_here ord) false e = false ->
  exists_sub (d18_here ord) false e = false ->
  matrix ord fuel e = Ok e' ->
  (solve_body o e' (pure_doc d) = Ok T <-> solve_body o e (pure_doc d) = Ok T).
Proof.
  intros o ord fuel e e' d Hord Hw Hn Hcl Hcr H17 H18 H.
  destruct (matrix_flat_rel o ord Hord d false fuel e e' (gb_of_wf_body e Hw Hcl) Hn Hcr H17 H18 H)
    as (v & v' & E1 & E2 & R).
  cbn [Rn] in R. unfold teq in R. rewrite E1, E2. split; intros E; inversion E; subst; f_equal; tauto.
Qed.

(* ---- statement 4 ---- *)
Lemma matrix_flat_example :
  let f := [102%N] in let g := [103%N] in
  let row a b := EGroup BAnd [ESearch (SExact [a]) f false; ESearch (SExact [b]) g false] in
  let e := EGroup BOr [row 97%N 98%N; row 99%N 100%N] in
  wf_body e = true /\ C01.no_nested e = true /\
  exists_sub (d17_here (fun k => k)) false e = false /\
  exists_sub (d18_here (fun k => k)) false e = false /\
  exists cols rows, matrix (fun k => k) 10 e = Ok (EMatrix cols rows) /\ length cols = 2%nat /\ length rows = 2%nat.
Proof.
  cbv zeta. do 4 (split; [vm_compute; reflexivity|]).
  eexists. eexists. split; [vm_compute; reflexivity|]. split; reflexivity.
Qed.

(* ====================================================================================== *)
(* 9. whole rules: statement 3                                                            *)
(* ====================================================================================== *)

Lemma size_mt k e : expr_size e < expr_size (EMatch k e).
Proof. cbn [expr_size]. lia. Qed.
Lemma size_ns f e : expr_size e < expr_size (ENested f e).
Proof. cbn [expr_size]. lia. Qed.

Lemma has_negative_no_neg : forall e n,
  exists_sub (fun _ x => match x with
                         | ENegate _ => true
                         | EMatch (MOf c) _ => (c =? 0)%Z
                         | _ => false
                         end) n e = false ->
  no_neg e = true.
Proof.
  induction e as [e IH] using C01.size_ind. intros n H.
  dex e; cbn [exists_sub orb] in H; cbn [no_neg]; try reflexivity.
  - apply C01.forallb_intro. intros x Hx.
    exact (IH x (C01.size_member s g x Hx) n (C01.existsb_false_In _ _ _ H Hx)).
  - apply orb_false_iff in H. destruct H as [H1 H2].
    rewrite (IH l1 (size_bl l1 op r1) n H1), (IH r1 (size_br l1 op r1) n H2). reflexivity.
  - destruct k as [|c].
    + exact (IH e (size_mt _ e) n H).
    + apply orb_false_iff in H. destruct H as [H1 H2]. rewrite H1. cbn [negb andb].
      exact (IH e (size_mt _ e) _ H2).
  - discriminate H.
  - exact (IH e (size_ns f e) n H).
Qed.

Lemma stage_sw o ord sw dt :
  no_matrix_stage o ord (Scope.sw_without_matrix sw) dt = no_matrix_stage o ord sw dt.
Proof. reflexivity. Qed.

Lemma stage_coalesce_ids o ord sw dt s3 : sw_coalesce sw = true ->
  no_matrix_stage o ord sw dt = Ok s3 -> d_ids s3 = [].
Proof.
  unfold no_matrix_stage. intros Hc H. rewrite Hc in H.
  apply C03.bind_ok_inv in H. destruct H as (s1 & H1 & H).
  apply C03.bind_ok_inv in H1. destruct H1 as (e1 & _ & H1). inversion H1; subst s1. clear H1.
  apply C03.bind_ok_inv in H. destruct H as (s2 & H2 & H). cbn [d_expr d_ids] in H2.
  assert (E2 : d_ids s2 = []).
  { destruct (sw_shake sw).
    - apply C03.bind_ok_inv in H2. destruct H2 as (e2 & _ & H2).
      cbn [map_ids mapM bind] in H2. inversion H2; subst s2. reflexivity.
    - inversion H2; subst s2. reflexivity. }
  inversion H; subst s3. destruct (sw_rewrite sw); cbn [d_ids]; rewrite E2; reflexivity.
Qed.

Lemma perm_len ord : (forall l : list key, Permutation (ord l) l) -> forall ks, length (ord ks) <= length ks.
Proof. intros H ks. rewrite (Permutation_length (H ks)). apply le_n. Qed.

Lemma teq_matches o r r' (d : doc) v v' :
  solve_rule3 o (r_det r) (pure_doc d) = Ok v -> solve_rule3 o (r_det r') (pure_doc d) = Ok v' ->
  teq v' v -> matches o r' d = matches o r d.
Proof.
  intros E E' R. unfold matches. rewrite E, E'. cbn [bind]. unfold teq in R.
  destruct v, v'; try reflexivity; exfalso; destruct R as [R1 R2];
    try (specialize (R1 eq_refl); discriminate R1); specialize (R2 eq_refl); discriminate R2.
Qed.

Lemma gm_of_gids ids : gids ids -> Forall (fun kv : str * expr => gm nokey (snd kv) = true) ids.
Proof. unfold gids. intros H. eapply Forall_impl; [|exact H]. intros kv Hkv. exact (proj1 (gk_gm nokey _ Hkv)). Qed.

(* the matrix stage on the trees handed to it *)
Lemma matrix_stage_verdict o ord (d : doc) e3 ids3 e4 ids4 :
  (forall l, Permutation (ord l) l) ->
  gk (keys_of ids3) e3 = true -> gids ids3 ->
  forallb C01.no_nested (all_trees (e3, ids3)) = true ->
  forallb cmp_reads (all_trees (e3, ids3)) = true ->
  (ids3 = [] \/ no_match e3 = true) ->
  any_tree (d17_here ord) (e3, ids3) = false ->
  any_tree (d18_here ord) (e3, ids3) = false ->
  matrix ord (shake_fuel e3) e3 = Ok e4 ->
  map_ids (entries (fun x => matrix ord (shake_fuel x) x)) ids3 = Ok ids4 ->
  exists v v', solve_cond o ids3 e3 (pure_doc d) = Ok v /\ solve_cond o ids4 e4 (pure_doc d) = Ok v' /\
               teq v' v.
Proof.
  intros Hord Gc Gi Hnn Hcr Hnm H17 H18 He4 Hids4.
  cbn [all_trees fst snd forallb] in Hnn, Hcr.
  apply andb_prop in Hnn. destruct Hnn as [Nc Ni]. apply andb_prop in Hcr. destruct Hcr as [Cc Ci].
  unfold any_tree in H17, H18. cbn [fst snd] in H17, H18.
  apply orb_false_iff in H17. destruct H17 as [A1 A2].
  apply orb_false_iff in H18. destruct H18 as [B1 B2].
  set (bn := body_neg (e3, ids3)) in *.
  set (K := keys_of ids3).
  (* the bodies *)
  pose proof (C01_shake1.map_ids_F2 _ _ _ Hids4) as HF.
  assert (Hbody : forall kv kv' : str * expr, In kv ids3 ->
            entries (fun x => matrix ord (shake_fuel x) x) (snd kv) = Ok (snd kv') ->
            gm nokey (snd kv') = true /\
            exists v v', solve_body o (snd kv) (pure_doc d) = Ok v /\
                         solve_body o (snd kv') (pure_doc d) = Ok v' /\ Rn bn v' v).
  { intros kv kv' Hkv Hm.
    assert (Hin : In (snd kv) (map snd ids3)) by (apply in_map; exact Hkv).
    pose proof (C01.forallb_In _ _ _ Ni Hin) as N. pose proof (C01.forallb_In _ _ _ Ci Hin) as C.
    pose proof (C01.existsb_false_In _ _ _ A2 Hkv) as A. pose proof (C01.existsb_false_In _ _ _ B2 Hkv) as B.
    cbn beta in A, B. unfold gids in Gi. rewrite Forall_forall in Gi. pose proof (Gi kv Hkv) as G.
    (* fix D15/D20: entry by entry *)
    apply (C01_nested.entries_vals_rel o (pure_doc d) bn (fun x => matrix ord (shake_fuel x) x)
             (fun x => gb x = true /\ C01.no_nested x = true /\ cmp_reads x = true /\
                       exists_sub (d17_here ord) bn x = false /\ exists_sub (d18_here ord) bn x = false)
             (fun y => gm nokey y = true) (snd kv) (snd kv')); [| | | |exact Hm].
    - intros s0 l0 Hs0 Hl0. cbn [gm]. rewrite Hs0. cbn [andb]. apply C01.forallb_intro. exact Hl0.
    - destruct (snd kv) as [s0 l0| | | | | | | | | | | | |]; try exact I.
      unfold gb in G. cbn [gk] in G. apply andb_prop in G. exact (proj1 G).
    - intros x Hx. destruct (snd kv) as [s0 l0| | | | | | | | | | | | |]; cbn [C01_nested.entry_trees] in Hx;
        try (destruct Hx as [<-|[]]; auto).
      unfold gb in G. cbn [gk] in G. apply andb_prop in G. destruct G as [_ G].
      cbn [C01.no_nested cmp_reads] in N, C.
      split; [exact (C01.forallb_In _ _ _ G Hx)|]. split; [exact (C01.forallb_In _ _ _ N Hx)|].
      split; [exact (C01.forallb_In _ _ _ C Hx)|].
      split; [exact (C01.exists_sub_member _ _ _ _ _ A Hx)|exact (C01.exists_sub_member _ _ _ _ _ B Hx)].
    - intros x x' (Gx & Nx & Cx & Ax & Bx) Hx.
      split; [exact (matrix_gm' ord nokey _ bn Gx Bx _ _ Hx)|].
      exact (matrix_flat_rel o ord Hord d bn _ _ _ Gx Nx Cx Ax Bx Hx). }
  assert (Gi4 : Forall (fun kv : str * expr => gm nokey (snd kv) = true) ids4).
  { apply Forall_forall. intros kv' Hkv'. destruct (Forall2_In_r _ _ _ kv' HF Hkv') as (kv & Hkv & _ & Hm).
    exact (proj1 (Hbody kv kv' Hkv Hm)). }
  assert (Hfst : map fst ids4 = map fst ids3) by (exact (proj1 (map_ids_inv _ _ _ Hids4))).
  assert (Hok1 : forall e, gm K e = true -> C03.okr (Sd o ids3 (solve_body o) d e)).
  { intros e Hg. exact (solve_cond_m o ids3 e (pure_doc d) Hg (gm_of_gids _ Gi) (C03.npd_pure d)). }
  assert (Hok2 : forall e, gm K e = true -> C03.okr (Sd o ids4 (solve_body o) d e)).
  { intros e Hg. apply (solve_cond_m o ids4 e (pure_doc d)); [|exact Gi4 | apply C03.npd_pure].
    rewrite (gm_ext _ K); [exact Hg|]. intros i. unfold K, keys_of. apply has_key_fst. exact Hfst. }
  assert (Hrel : C01_shake1.ids_rel (fun b b' => entries (fun x => matrix ord (shake_fuel x) x) b = Ok b') ids3 ids4).
  { apply C01_shake1.ids_rel_F2. exact HF. }
  assert (Hlk : forall i b, lookup i ids3 = Some b -> exists kv, In kv ids3 /\ snd kv = b).
  { intros i b Hl. destruct (C03.lookup_in _ _ _ Hl) as [k Hk]. exists (k, b). split; [exact Hk | reflexivity]. }
  assert (Hid : forall i, K i = true ->
            Rn bn (val o ids4 (solve_body o) d (EIdent i)) (val o ids3 (solve_body o) d (EIdent i))).
  { intros i Hi. unfold K, keys_of, has_key in Hi. specialize (Hrel i).
    destruct (lookup i ids3) as [b|] eqn:E3; [|discriminate Hi].
    destruct (lookup i ids4) as [b'|] eqn:E4; [|contradiction].
    destruct (Hlk i b E3) as (kv & Hkv & <-).
    destruct (Hbody kv (fst kv, b') Hkv Hrel) as (_ & v & v' & Ev & Ev' & R). cbn [snd] in Ev'.
    unfold val, Sd. cbn [solve]. rewrite E3, E4, Ev, Ev'. exact R. }
  assert (Gm4 : gm K e4 = true) by exact (matrix_gm' ord K e3 false Gc B1 _ _ He4).
  assert (Hpn : bn = true \/ (false = false /\ no_neg e3 = true)).
  { destruct bn eqn:Ebn; [left; reflexivity|right]. split; [reflexivity|].
    unfold bn, body_neg, has_negative in Ebn. cbn [fst] in Ebn. exact (has_negative_no_neg e3 false Ebn). }
  exists (val o ids3 (solve_body o) d e3), (val o ids4 (solve_body o) d e4).
  split; [exact (val_ok o ids3 (solve_body o) d K Hok1 e3 (proj1 (gk_gm K e3 Gc)))|].
  split; [exact (val_ok o ids4 (solve_body o) d K Hok2 e4 Gm4)|].
  destruct Hnm as [Hnil|Hnm].
  - (* identifier-free: quantifiers allowed *)
    subst ids3. inversion HF; subst ids4.
    exact (matrix_sem o ord Hord d [] [] K Hok1 Hok2 bn Hid true (fun _ => hm_nil o ord Hord d)
             e3 false _ e4 Gc Nc Cc A1 B1 Hpn (or_introl eq_refl) He4).
  - assert (HM : false = true -> forall k e0 F, gk K (EMatch k e0) = true -> C01.no_nested e0 = true ->
              Sd o ids4 (solve_body o) d (shake1 ord (S F) (EMatch k e0)) = Sd o ids3 (solve_body o) d (EMatch k e0))
      by (intros Hf; discriminate Hf).
    exact (matrix_sem o ord Hord d ids3 ids4 K Hok1 Hok2 bn Hid false HM
             e3 false _ e4 Gc Nc Cc A1 B1 Hpn (or_intror Hnm) He4).
Qed.

(* ---- statement 3 (as stated, against Scope.matrix_input_ok with its cmp_reads / no_match
        conjuncts) ---- *)
Lemma scope_all_sound : forall o ic ord sw y r (d : doc),
  (forall l, Permutation (ord l) l) ->
  C01.H_strip o ->
  load_rule o ic y = Ok r -> r_optimised r = false ->
  Scope.c01_scope_all o ord sw (r_det r) = true ->
  exists r', optimise o ord sw r = Ok r' /\ matches o r' d = matches o r d.
Proof.
  intros o ic ord sw y r d Hord Hs Hl Hopt Hsc.
  unfold Scope.c01_scope_all in Hsc. apply andb_prop in Hsc. destruct Hsc as [Hsc0 Hscm].
  destruct (sw_matrix sw) eqn:Em.
  2:{ apply (C01_flat.scope_sound o ic ord sw y r d Hord Hs Hl Hopt).
      destruct sw as [c s w m]. cbn [sw_matrix] in Em. subst m. exact Hsc0. }
  cbn [negb orb] in Hscm. apply andb_prop in Hscm. destruct Hscm as [Hnq Hmi].
  (* the passes before matrix: exact *)
  set (sw0 := Scope.sw_without_matrix sw) in *.
  pose proof (C03.load_wf _ _ _ _ Hl) as Hwf.
  destruct (C03.load_rule_det _ _ _ _ Hl) as [dy Hdy].
  destruct (C01_loaded.load_detection_parse _ _ _ _ Hdy) as [ts Hp].
  destruct (C01_loaded.loaded_condition_shapes _ _ Hp) as [Hnn Hcl].
  unfold Scope.c01_scope in Hsc0. apply andb_prop in Hsc0. destruct Hsc0 as [Hsc0 H3].
  apply andb_prop in Hsc0. destruct Hsc0 as [_ H2].
  assert (Hq : sw_coalesce sw0 = true \/ C01_shake1.no_quant_ident (d_expr (r_det r)) = true).
  { apply Bool.orb_prop in H2. destruct H2 as [H2|H2]; [left; exact H2 | right; exact H2]. }
  assert (Hin : sw_shake sw0 = true -> C01_shake1.shake_input_ok o sw0 (r_det r) = true).
  { intros Hsh. rewrite Hsh in H3. cbn [negb orb] in H3. exact H3. }
  destruct (C01_shake1.optimise_no_matrix_exact_flat_alt o ord sw0 r d Hord Hs eq_refl Hwf Hopt Hnn Hcl Hq Hin)
    as (r1 & Hr1 & Hsem & _).
  (* the stage before matrix *)
  destruct (no_matrix_stage_good o ord sw _ (load_good _ _ _ _ Hl)) as (s3 & Hst & [Gc Gi]).
  assert (Er1 : r_det r1 = s3).
  { unfold optimise in Hr1. rewrite Hopt in Hr1. unfold sw0 in Hr1.
    rewrite optimise_detection_stage, stage_sw, Hst in Hr1. cbn [bind Scope.sw_without_matrix sw_matrix] in Hr1.
    inversion Hr1; subst r1. reflexivity. }
  pose proof (no_matrix_stage_pre _ _ _ _ _ Hst) as Hpre.
  unfold Scope.matrix_input_ok in Hmi.
  apply andb_prop in Hmi. destruct Hmi as [Hmi Xnm]. apply andb_prop in Hmi. destruct Hmi as [Hmi Xcr].
  apply andb_prop in Hmi. destruct Hmi as [Hmi K21]. apply andb_prop in Hmi. destruct Hmi as [Hmi K18].
  apply andb_prop in Hmi. destruct Hmi as [Knn K17].
  apply negb_true_iff in K17. apply negb_true_iff in K18. apply negb_true_iff in K21.
  (* optimise returns *)
  destruct (optimise_total_stage o ord sw _ (perm_len ord Hord) (load_good _ _ _ _ Hl) K21) as [dt' Hdt'].
  exists {| r_optimised := true; r_det := dt'; r_tp := r_tp r; r_tn := r_tn r |}.
  split; [unfold optimise; rewrite Hopt, Hdt'; reflexivity|].
  rewrite optimise_detection_stage, Hst, Em in Hdt'. cbn [bind] in Hdt'.
  apply C03.bind_ok_inv in Hdt'. destruct Hdt' as (e4 & He4 & Hdt').
  apply C03.bind_ok_inv in Hdt'. destruct Hdt' as (ids4 & Hids4 & Hdt'). inversion Hdt'; subst dt'; clear Hdt'.
  unfold known_d17 in K17. unfold known_d18 in K18. rewrite Em, Hpre in K17, K18. cbn [andb] in K17, K18.
  rewrite Hpre in Knn, Xcr, Xnm. cbn [fst] in Xnm.
  assert (Hnm : d_ids s3 = [] \/ no_match (d_expr s3) = true).
  { apply Bool.orb_prop in Xnm. destruct Xnm as [Hco|Hno]; [left|right; exact Hno].
    exact (stage_coalesce_ids o ord sw _ s3 Hco Hst). }
  destruct (matrix_stage_verdict o ord d (d_expr s3) (d_ids s3) e4 ids4 Hord Gc Gi Knn Xcr Hnm K17 K18 He4 Hids4)
    as (v & v' & Ev & Ev' & R).
  apply (teq_matches o r _ d v v'); [|exact Ev' | exact R].
  rewrite <- Hsem, Er1. exact Ev.
Qed.

(* ====================================================================================== *)
(* 10. node predicates kept by coalesce / shake / rewrite                                 *)
(* ====================================================================================== *)

Section AllQ.
Variable q : expr -> boolsym -> expr -> bool.   (* on comparisons *)
Variable qm : bool.                              (* are quantifiers allowed? *)

Fixpoint allq (e : expr) : bool :=
  match e with
  | EGroup _ l => forallb allq l
  | EBexp l s r => if is_and_or s then allq l && allq r else q l s r
  | EMatch _ e' => qm && allq e'
  | ENegate e' | ENested _ e' => allq e'
  | _ => true
  end.

Lemma srch_allq y : C01_shake1.srch y = true -> allq y = true.
Proof. destruct y; intros H; try discriminate H; reflexivity. Qed.

Lemma allq_collapse s L : forallb allq L = true ->
  allq (match L with [x] => x | _ => EGroup s L end) = true.
Proof.
  intros H. destruct L as [|x [|y L]]; try exact H.
  cbn [forallb] in H. rewrite andb_true_r in H. exact H.
Qed.

Lemma rewrite_leaf o x : leaf x = true -> rewrite o x = x.
Proof. destruct x; intros H; try discriminate H; reflexivity. Qed.

Lemma rewrite_allq o K : forall e, gk K e = true -> allq e = true -> allq (rewrite o e) = true.
Proof.
  induction e as [e IH] using C01.size_ind. intros Hg Ha.
  dex e; cbn [gk] in Hg; try discriminate Hg; cbn [rewrite allq] in *; try reflexivity.
  - apply andb_prop in Hg. destruct Hg as [_ Hl].
    apply forallb_forall. intros y Hy. apply in_map_iff in Hy. destruct Hy as (x & <- & Hx).
    exact (IH x (C01.size_member s g x Hx) (C01.forallb_In _ _ _ Hl Hx) (C01.forallb_In _ _ _ Ha Hx)).
  - destruct (is_and_or op).
    + apply andb_prop in Hg. destruct Hg as [G1 G2]. apply andb_prop in Ha. destruct Ha as [A1 A2].
      rewrite (IH l1 (size_bl l1 op r1) G1 A1), (IH r1 (size_br l1 op r1) G2 A2). reflexivity.
    + apply andb_prop in Hg. destruct Hg as [G1 G2].
      rewrite (rewrite_leaf o l1 G1), (rewrite_leaf o r1 G2). exact Ha.
  - apply andb_prop in Ha. destruct Ha as [-> Ha]. cbn [andb]. exact (IH e (size_mt k e) Hg Ha).
  - exact (IH e (size_ng e) Hg Ha).
  - exact (IH e (size_ns f e) Hg Ha).
Qed.

Lemma flat_allq s l' r' L : is_and_or s = true -> allq l' = true -> allq r' = true ->
  C01.flat s l' r' = Some L -> forallb allq L = true.
Proof.
  intros Hs Hl Hr Hf. unfold C01.flat in Hf.
  destruct (C01.grp s l') as [a|] eqn:G1; destruct (C01.grp s r') as [b|] eqn:G2.
  - injection Hf as <-. apply C01.grp_some in G1. apply C01.grp_some in G2. subst l' r'.
    cbn [allq] in Hl, Hr. rewrite forallb_app, Hl, Hr. reflexivity.
  - injection Hf as <-. apply C01.grp_some in G1. subst l'.
    cbn [allq] in Hl. rewrite forallb_app, Hl. cbn [forallb]. rewrite Hr. reflexivity.
  - injection Hf as <-. apply C01.grp_some in G2. subst r'.
    cbn [allq] in Hr. cbn [forallb]. rewrite Hl, Hr. reflexivity.
  - destruct (C01.bx s l') as [[x y]|] eqn:B1.
    + injection Hf as <-. apply C01.bx_some in B1. subst l'.
      cbn [allq] in Hl. rewrite Hs in Hl. apply andb_prop in Hl. destruct Hl as [Hx Hy].
      cbn [forallb]. rewrite Hx, Hy, Hr. reflexivity.
    + destruct (C01.bx s r') as [[y z]|] eqn:B2; [|discriminate Hf].
      injection Hf as <-. apply C01.bx_some in B2. subst r'.
      cbn [allq] in Hr. rewrite Hs in Hr. apply andb_prop in Hr. destruct Hr as [Hy Hz].
      cbn [forallb]. rewrite Hl, Hy, Hz. reflexivity.
Qed.

Lemma shake0_allq K : forall fuel e e', gk K e = true -> allq e = true ->
  shake0 fuel e = Ok e' -> allq e' = true.
Proof.
  induction fuel as [|fu IH]; intros e e' Hg Ha H.
  { inversion H; subst. exact Ha. }
  dex e; cbn [gk] in Hg; try discriminate Hg; try (inversion H; subst; exact Ha).
  - apply andb_prop in Hg. destruct Hg as [Hs Hl]. cbn [shake0] in H. rewrite Hs in H. cbn [negb] in H.
    apply C03.bind_ok_inv in H. destruct H as (l' & Hm & H). cbn [allq] in Ha.
    assert (Hl' : forallb allq l' = true).
    { apply C01.mapM_Forall2 in Hm. apply C01.forallb_intro. intros y Hy.
      destruct (Forall2_In_r _ _ _ y Hm Hy) as (x & Hx & Hxy).
      exact (IH x y (C01.forallb_In _ _ _ Hl Hx) (C01.forallb_In _ _ _ Ha Hx) Hxy). }
    destruct l' as [|x [|y l'']]; inversion H; subst; try exact Hl'.
    cbn [forallb] in Hl'. rewrite andb_true_r in Hl'. exact Hl'.
  - cbn [allq] in Ha. destruct (is_and_or op) eqn:Eop.
    + apply andb_prop in Hg. destruct Hg as [G1 G2]. apply andb_prop in Ha. destruct Ha as [A1 A2].
      rewrite (C01.shake0_bexp_andor fu l1 op r1 Eop) in H.
      destruct (shake0_good K fu l1 G1) as (l' & El & Gl). destruct (shake0_good K fu r1 G2) as (r' & Er & Gr).
      rewrite El, Er in H. cbn [bind] in H.
      pose proof (IH l1 l' G1 A1 El) as Al. pose proof (IH r1 r' G2 A2 Er) as Ar.
      destruct (C01.flat op l' r') as [L|] eqn:Ef.
      * apply (IH (EGroup op L) e'); [| |exact H].
        -- cbn [gk]. rewrite Eop. cbn [andb]. exact (flat_good K _ _ _ _ Eop Gl Gr Ef).
        -- cbn [allq]. exact (flat_allq _ _ _ _ Eop Al Ar Ef).
      * inversion H; subst. cbn [allq]. rewrite Eop, Al, Ar. reflexivity.
    + apply andb_prop in Hg. destruct Hg as [G1 G2].
      rewrite (C01.shake0_bexp_cmp fu l1 op r1 Eop) in H.
      rewrite (C01.shake0_leaf fu l1 G1), (C01.shake0_leaf fu r1 G2) in H. cbn [bind] in H.
      inversion H; subst. cbn [allq]. rewrite Eop. exact Ha.
  - destruct (C01.shake0_match_inv _ _ _ _ H) as [(s0 & l0 & l' & -> & Hm & ->)|(_ & x & Hx & ->)].
    + cbn [allq gk] in *. apply andb_prop in Ha. destruct Ha as [-> Ha]. cbn [andb].
      apply andb_prop in Hg. destruct Hg as [Hs Hl].
      apply C01.mapM_Forall2 in Hm. apply C01.forallb_intro. intros y Hy.
      destruct (Forall2_In_r _ _ _ y Hm Hy) as (x & Hx & Hxy).
      exact (IH x y (C01.forallb_In _ _ _ Hl Hx) (C01.forallb_In _ _ _ Ha Hx) Hxy).
    + cbn [allq] in *. apply andb_prop in Ha. destruct Ha as [-> Ha]. cbn [andb]. exact (IH e x Hg Ha Hx).
  - cbn [shake0] in H. apply C03.bind_ok_inv in H. destruct H as (x & Hx & H). cbn [allq] in Ha.
    pose proof (IH e x Hg Ha Hx) as Ax.
    destruct (shake0_good K fu e Hg) as (x' & Ex & Gx). rewrite Hx in Ex. inversion Ex; subst x'.
    destruct x; try (inversion H; subst; exact Ax).
    cbn [gk] in Gx. cbn [allq] in Ax. exact (IH x e' Gx Ax H).
  - cbn [shake0] in H. apply C03.bind_ok_inv in H. destruct H as (x & Hx & H). inversion H; subst.
    cbn [allq] in *. exact (IH e x Hg Ha Hx).
Qed.

Lemma shake1_allq ord : forall fuel e, C01.no_nested e = true -> C01.cmp_leaves e = true ->
  allq e = true -> allq (shake1 ord fuel e) = true.
Proof.
  induction fuel as [|fu IH]; intros e Hnn Hcl Ha; [exact Ha|].
  destruct e as [s l|l s r|b|f m|f|z|i|z|k e|cols rows|e|f e| |s f c];
    try (cbn [shake1]; exact Ha).
  - (* group *)
    cbn [C01.no_nested C01.cmp_leaves allq] in Hnn, Hcl, Ha.
    set (L := map (shake1 ord fu) l).
    assert (HL : forall y, In y L -> C01.no_nested y = true /\ C01.cmp_leaves y = true /\ allq y = true).
    { intros y Hy. apply in_map_iff in Hy. destruct Hy as (x & <- & Hx).
      pose proof (C01.forallb_In _ _ _ Hnn Hx) as N. pose proof (C01.forallb_In _ _ _ Hcl Hx) as C.
      destruct (C01_shake1.shake1_keeps3 ord fu x N) as (K1 & _ & K3).
      split; [exact K1|]. split; [exact (K3 C)|]. exact (IH x N C (C01.forallb_In _ _ _ Ha Hx)). }
    assert (HLa : forallb allq L = true) by (apply C01.forallb_intro; intros y Hy; apply (HL y Hy)).
    destruct s; try (cbn [shake1]; fold L; exact HLa).
    + rewrite C01_shake1.shake1_and_eq by (intros y Hy; apply (HL y Hy)). fold L. cbv zeta.
      apply allq_collapse. exact HLa.
    + rewrite C01_shake1.shake1_or_eq by (intros y Hy; apply (HL y Hy)). fold L. cbv zeta.
      set (Sc := C01_shake1.or_scratch ord L).
      assert (HSc : forall y, In y Sc -> C01.no_nested y = true /\ C01.cmp_leaves y = true /\ allq y = true).
      { intros y Hy. destruct (C01_shake1.or_scratch_members ord L y Hy) as [Hs|Hin]; [|exact (HL y Hin)].
        destruct (C01_shake1.srch_shape y Hs) as (A & _ & C). split; [exact A|]. split; [exact C | exact (srch_allq y Hs)]. }
      assert (HSa : forallb allq Sc = true) by (apply C01.forallb_intro; intros y Hy; apply (HSc y Hy)).
      destruct (negb (length Sc =? length l)%nat).
      * apply IH; cbn [C01.no_nested C01.cmp_leaves allq]; try exact HSa;
          apply C01.forallb_intro; intros y Hy; apply (HSc y Hy).
      * apply allq_collapse. exact HSa.
  - (* bexp *)
    cbn [shake1]. cbn [C01.no_nested C01.cmp_leaves allq] in *.
    apply andb_prop in Hnn. destruct Hnn as [N1 N2].
    destruct (is_and_or s).
    + apply andb_prop in Hcl. destruct Hcl as [C1 C2]. apply andb_prop in Ha. destruct Ha as [A1 A2].
      rewrite (IH l N1 C1 A1), (IH r N2 C2 A2). reflexivity.
    + apply andb_prop in Hcl. destruct Hcl as [C1 C2].
      apply negb_true_iff in C1. apply negb_true_iff in C2.
      rewrite (C01_shake1.shake1_leaf ord fu l C1), (C01_shake1.shake1_leaf ord fu r C2). exact Ha.
  - (* match *)
    cbn [C01.no_nested C01.cmp_leaves allq] in Hnn, Hcl, Ha.
    apply andb_prop in Ha. destruct Ha as [Hq Ha].
    destruct e as [s l|l s r|b|f m|f|z|i|z|k0 e|cols rows|e|f e| |s f c];
      try (cbn [shake1]; cbn [allq]; rewrite Hq; cbn [andb]; exact (IH _ Hnn Hcl Ha)).
    cbn [shake1]. cbn [allq]. rewrite Hq. cbn [andb].
    cbn [C01.no_nested C01.cmp_leaves allq] in Hnn, Hcl, Ha.
    apply forallb_forall. intros y Hy. apply in_map_iff in Hy. destruct Hy as (x & <- & Hx).
    exact (IH x (C01.forallb_In _ _ _ Hnn Hx) (C01.forallb_In _ _ _ Hcl Hx) (C01.forallb_In _ _ _ Ha Hx)).
  - (* negate *)
    cbn [shake1]. cbn [C01.no_nested C01.cmp_leaves allq] in *. exact (IH e Hnn Hcl Ha).
  - discriminate Hnn.
Qed.

Lemma shake_allq ord K e e' : gk K e = true -> C01.no_nested e = true -> allq e = true ->
  shake ord e = Ok e' -> allq e' = true.
Proof.
  intros Hg Hn Ha H. unfold shake in H. apply C03.bind_ok_inv in H. destruct H as (e0 & H0 & H).
  inversion H; subst e'.
  destruct (shake0_good K (shake_fuel e) e Hg) as (e0' & E0 & G0). rewrite H0 in E0. inversion E0; subst e0'.
  apply shake1_allq.
  - exact (C01_shake1.shake0_nn _ _ _ Hn H0).
  - exact (gk_cl K e0 G0).
  - exact (shake0_allq K _ _ _ Hg Ha H0).
Qed.

End AllQ.

Lemma leaf_no_match x : leaf x = true -> no_match x = true.
Proof. destruct x; intros H; try discriminate H; reflexivity. Qed.

Lemma no_match_allq K : forall e, gk K e = true -> no_match e = allq (fun _ _ _ => true) false e.
Proof.
  induction e as [e IH] using C01.size_ind. intros Hg.
  dex e; cbn [gk] in Hg; try discriminate Hg; cbn [no_match allq]; try reflexivity.
  - apply andb_prop in Hg. destruct Hg as [_ Hl].
    apply forallb_ext_In. intros x Hx. exact (IH x (C01.size_member s g x Hx) (C01.forallb_In _ _ _ Hl Hx)).
  - destruct (is_and_or op).
    + apply andb_prop in Hg. destruct Hg as [G1 G2].
      rewrite (IH l1 (size_bl l1 op r1) G1), (IH r1 (size_br l1 op r1) G2). reflexivity.
    + apply andb_prop in Hg. destruct Hg as [G1 G2].
      rewrite (leaf_no_match l1 G1), (leaf_no_match r1 G2). reflexivity.
  - exact (IH e (size_ng e) Hg).
  - exact (IH e (size_ns f e) Hg).
Qed.

Section StageQ.
Variable q : expr -> boolsym -> expr -> bool.
Variable qm : bool.
Notation A := (allq q qm).

Lemma coalesce_allq ids K : (forall i b, lookup i ids = Some b -> A b = true) ->
  forall e e', gk K e = true -> A e = true -> coalesce ids e = Ok e' -> A e' = true.
Proof.
  intros Hb. induction e as [e IH] using C01.size_ind. intros e' Hg Ha H.
  dex e; cbn [gk] in Hg; try discriminate Hg; cbn [coalesce] in H; try (inversion H; subst; exact Ha).
  - apply andb_prop in Hg. destruct Hg as [_ Hl]. cbn [allq] in Ha.
    apply C03.bind_ok_inv in H. destruct H as (l' & Hm & H). inversion H; subst. cbn [allq].
    apply C01.mapM_Forall2 in Hm. apply C01.forallb_intro. intros y Hy.
    destruct (Forall2_In_r _ _ _ y Hm Hy) as (x & Hx & Hxy).
    exact (IH x (C01.size_member s g x Hx) y (C01.forallb_In _ _ _ Hl Hx) (C01.forallb_In _ _ _ Ha Hx) Hxy).
  - cbn [allq] in Ha. destruct (is_and_or op) eqn:Eop.
    + apply andb_prop in Hg. destruct Hg as [G1 G2]. apply andb_prop in Ha. destruct Ha as [A1 A2].
      apply C03.bind_ok_inv in H. destruct H as (l' & Hl' & H).
      apply C03.bind_ok_inv in H. destruct H as (r' & Hr' & H). inversion H; subst.
      cbn [allq]. rewrite Eop, (IH l1 (size_bl l1 op r1) l' G1 A1 Hl'), (IH r1 (size_br l1 op r1) r' G2 A2 Hr').
      reflexivity.
    + apply andb_prop in Hg. destruct Hg as [G1 G2].
      assert (Hleaf : forall x, leaf x = true -> coalesce ids x = Ok x).
      { intros x Hx. destruct x; try discriminate Hx; reflexivity. }
      rewrite (Hleaf _ G1), (Hleaf _ G2) in H. cbn [bind] in H. inversion H; subst.
      cbn [allq]. rewrite Eop. exact Ha.
  - destruct (lookup i ids) as [b|] eqn:El; [|discriminate H]. inversion H; subst. exact (Hb i e' El).
  - apply C03.bind_ok_inv in H. destruct H as (x & Hx & H). inversion H; subst.
    cbn [allq] in *. apply andb_prop in Ha. destruct Ha as [-> Ha]. cbn [andb].
    exact (IH e (size_mt k e) x Hg Ha Hx).
  - apply C03.bind_ok_inv in H. destruct H as (x & Hx & H). inversion H; subst.
    cbn [allq] in *. exact (IH e (size_ng e) x Hg Ha Hx).
  - apply C03.bind_ok_inv in H. destruct H as (x & Hx & H). inversion H; subst.
    cbn [allq] in *. exact (IH e (size_ns f e) x Hg Ha Hx).
Qed.

Lemma stage_allq o ord sw dt s3 :
  good_det dt ->
  (sw_shake sw = true -> forallb C01.no_nested (all_trees (staged sw dt)) = true) ->
  A (d_expr dt) = true ->
  (sw_coalesce sw = true -> forall i b, lookup i (d_ids dt) = Some b -> A b = true) ->
  no_matrix_stage o ord sw dt = Ok s3 -> A (d_expr s3) = true.
Proof.
  intros [Gc Gi] Hnn Ha Hb H. unfold no_matrix_stage in H.
  apply C03.bind_ok_inv in H. destruct H as (s1 & H1 & H).
  apply C03.bind_ok_inv in H. destruct H as (s2 & H2 & H). inversion H; subst s3; clear H.
  assert (P1 : exists K1, gk K1 (d_expr s1) = true /\ A (d_expr s1) = true /\
                          (sw_shake sw = true -> C01.no_nested (d_expr s1) = true)).
  { destruct (sw_coalesce sw) eqn:Ec.
    - apply C03.bind_ok_inv in H1. destruct H1 as (e1 & He1 & H1). inversion H1; subst s1. cbn [d_expr].
      exists nokey.
      destruct (coalesce_good (d_ids dt) (keys_of (d_ids dt))) with (e := d_expr dt) as (e1' & E & G).
      { intros i Hk. unfold keys_of, has_key in Hk.
        destruct (lookup i (d_ids dt)) as [b|] eqn:El; [|discriminate Hk].
        exists b. split; [reflexivity | exact (lookup_gids _ _ _ Gi El)]. }
      { exact Gc. }
      rewrite He1 in E. inversion E; subst e1'. split; [exact G|]. split.
      + exact (coalesce_allq (d_ids dt) _ (Hb eq_refl) _ _ Gc Ha He1).
      + intros Hs. specialize (Hnn Hs). unfold staged in Hnn. rewrite Ec, He1 in Hnn.
        cbn [ok_or all_trees fst snd map forallb] in Hnn. rewrite andb_true_r in Hnn. exact Hnn.
    - inversion H1; subst s1. exists (keys_of (d_ids dt)). split; [exact Gc|]. split; [exact Ha|].
      intros Hs. specialize (Hnn Hs). unfold staged in Hnn. rewrite Ec in Hnn.
      cbn [all_trees fst snd forallb] in Hnn. apply andb_prop in Hnn. exact (proj1 Hnn). }
  destruct P1 as (K1 & G1 & A1 & N1).
  assert (P2 : exists K2, gk K2 (d_expr s2) = true /\ A (d_expr s2) = true).
  { destruct (sw_shake sw) eqn:Es.
    - apply C03.bind_ok_inv in H2. destruct H2 as (e2 & He2 & H2).
      apply C03.bind_ok_inv in H2. destruct H2 as (ids2 & _ & H2). inversion H2; subst s2. cbn [d_expr].
      exists K1. destruct (shake_good ord K1 _ G1) as (e2' & E & G). rewrite He2 in E. inversion E; subst e2'.
      split; [exact G|]. exact (shake_allq q qm ord K1 _ _ G1 (N1 eq_refl) A1 He2).
    - inversion H2; subst s2. exists K1. split; assumption. }
  destruct P2 as (K2 & G2 & A2).
  destruct (sw_rewrite sw); cbn [d_expr]; [apply (rewrite_allq q qm o K2); assumption | exact A2].
Qed.

Lemma stage_allq_ids o ord sw dt s3 :
  good_det dt ->
  (sw_shake sw = true -> forallb C01.no_nested (all_trees (staged sw dt)) = true) ->
  Forall (fun kv : str * expr => A (snd kv) = true) (d_ids dt) ->
  no_matrix_stage o ord sw dt = Ok s3 ->
  Forall (fun kv : str * expr => A (snd kv) = true) (d_ids s3).
Proof.
  intros [Gc Gi] Hnn Ha H.
  destruct (sw_coalesce sw) eqn:Ec.
  { rewrite (stage_coalesce_ids o ord sw dt s3 Ec H). constructor. }
  unfold no_matrix_stage in H. rewrite Ec in H. cbn [bind] in H.
  apply C03.bind_ok_inv in H. destruct H as (s2 & H2 & H). inversion H; subst s3; clear H.
  assert (P2 : Forall (fun kv : str * expr => gb (snd kv) = true /\ A (snd kv) = true) (d_ids s2)).
  { destruct (sw_shake sw) eqn:Es.
    - apply C03.bind_ok_inv in H2. destruct H2 as (e2 & _ & H2).
      apply C03.bind_ok_inv in H2. destruct H2 as (ids2 & Hi2 & H2). inversion H2; subst s2. cbn [d_ids].
      pose proof (C01_shake1.map_ids_F2 _ _ _ Hi2) as HF.
      specialize (Hnn eq_refl). unfold staged in Hnn. rewrite Ec in Hnn.
      cbn [all_trees fst snd forallb] in Hnn. apply andb_prop in Hnn. destruct Hnn as [_ Hnn].
      apply Forall_forall. intros kv' Hkv'.
      destruct (Forall2_In_r _ _ _ kv' HF Hkv') as (kv & Hkv & _ & Hs).
      unfold gids in Gi. rewrite Forall_forall in Gi, Ha.
      pose proof (Gi kv Hkv) as G. pose proof (Ha kv Hkv) as Ak.
      assert (N : C01.no_nested (snd kv) = true).
      { apply (C01.forallb_In _ _ _ Hnn). apply in_map. exact Hkv. }
      (* fix D15/D20: entry by entry *)
      apply C01.entries_inv in Hs.
      destruct (snd kv) as [s0 l0| | | | | | | | | | | | |];
        try (destruct (shake_good ord nokey _ G) as (b' & E & G'); rewrite Hs in E; inversion E; subst b';
             split; [exact G'|exact (shake_allq q qm ord nokey _ _ G N Ak Hs)]).
      destruct Hs as [l' [-> HF']]. unfold gb in G. cbn [gk] in G. apply andb_prop in G. destruct G as [Gs Gl].
      cbn [C01.no_nested allq] in N, Ak.
      assert (Hm : forall y, In y l' -> gb y = true /\ A y = true).
      { intros y Hy. destruct (Forall2_In_r _ _ _ y HF' Hy) as (x & Hx & Hxy). cbn beta in Hxy.
        pose proof (C01.forallb_In _ _ _ Gl Hx) as Gx.
        destruct (shake_good ord nokey _ Gx) as (y' & E & G'). rewrite Hxy in E. inversion E; subst y'.
        split; [exact G'|].
        exact (shake_allq q qm ord nokey _ _ Gx (C01.forallb_In _ _ _ N Hx) (C01.forallb_In _ _ _ Ak Hx) Hxy). }
      split.
      + unfold gb. cbn [gk]. rewrite Gs. cbn [andb]. apply C01.forallb_intro. intros y Hy. exact (proj1 (Hm y Hy)).
      + cbn [allq]. apply C01.forallb_intro. intros y Hy. exact (proj2 (Hm y Hy)).
    - inversion H2; subst s2. unfold gids in Gi. rewrite Forall_forall in Gi, Ha.
      apply Forall_forall. intros kv Hkv. split; [exact (Gi kv Hkv) | exact (Ha kv Hkv)]. }
  destruct (sw_rewrite sw); cbn [d_ids].
  - rewrite Forall_map. cbn [snd]. eapply Forall_impl; [|exact P2].
    intros kv [G Ak]. exact (rewrite_allq q qm o nokey _ G Ak).
  - eapply Forall_impl; [|exact P2]. intros kv [_ Ak]. exact Ak.
Qed.

End StageQ.

(* ---- the condition handed to matrix holds no quantifier (identifiers not inlined) ---- *)
Lemma cond_shape_no_match : forall e, Spec.cond_shape e = true -> Scope.no_quant_ident e = true ->
  no_match e = true.
Proof.
  induction e as [ s g | l IHl op r IHr | bb | f m | f | x | i | z | k e IHe | cols rows
                 | e IHe | f e IHe | | s f cst ]; intros Hs Hq; try discriminate Hs; try reflexivity.
  - cbn [Spec.cond_shape] in Hs. cbn [Scope.no_quant_ident] in Hq. cbn [no_match].
    assert (Hcmp : forall eq, types_ok eq l r = true -> no_match l && no_match r = true).
    { intros eq Ht. destruct (C01_loaded.types_ok_leaves _ _ _ Ht) as [Hl Hr].
      rewrite (leaf_no_match l), (leaf_no_match r); [reflexivity | |]; unfold leaf; [rewrite Hr | rewrite Hl]; reflexivity. }
    apply andb_prop in Hq. destruct Hq as [Q1 Q2].
    destruct op; try (exact (Hcmp _ Hs));
      (apply andb_prop in Hs; destruct Hs as [H1 H2]; rewrite (IHl H1 Q1), (IHr H2 Q2); reflexivity).
  - cbn [Spec.cond_shape] in Hs. destruct e; try discriminate Hs. discriminate Hq.
  - cbn [Spec.cond_shape] in Hs. cbn [Scope.no_quant_ident] in Hq. cbn [no_match]. exact (IHe Hs Hq).
Qed.

Lemma gk_solvable K e : gk K e = true -> is_solvable e = true.
Proof. destruct e; intros H; try discriminate H; reflexivity. Qed.

Lemma input_ok_nn sw dt : Scope.shake_input_ok sw dt = true ->
  forallb C01.no_nested (all_trees (staged sw dt)) = true.
Proof.
  unfold Scope.shake_input_ok. intros H. apply C01.forallb_intro. intros t Ht.
  pose proof (C01.forallb_In _ _ _ H Ht) as Hb. cbn beta in Hb.
  apply andb_prop in Hb. destruct Hb as [Hb _]. apply andb_prop in Hb. destruct Hb as [Hb _].
  apply andb_prop in Hb. destruct Hb as [Hb _]. exact Hb.
Qed.

(* ====================================================================================== *)
(* 11. everything the loader builds satisfies cmp_reads                                   *)
(* ====================================================================================== *)

Definition cr (e : expr) : Prop := cmp_reads e = true.

(* the left operand of the comparisons a key builds, against the key's modifier *)
Definition ue_ok (ue : expr) (misc : option modsym) : Prop :=
  match ue with
  | ECast _ MStr => misc_is MStr misc = true
  | ECast _ MNot => False
  | _ => True
  end.

Definition ue_of (ki : keyinfo) : expr := match k_e ki with EMatch _ inner => inner | _ => k_e ki end.

Lemma parse_key_cr o k v ki : parse_key o k v = Ok ki -> ue_ok (ue_of ki) (k_misc ki).
Proof.
  unfold parse_key. destruct k; try (intros H; discriminate H). intros H.
  apply C03.bind_ok_inv in H. destruct H as (ts & _ & H).
  apply C03.bind_ok_inv in H. destruct H as (ex & _ & H).
  destruct ex; try discriminate H.
  - inversion H; subst. unfold ue_of, ue_ok. cbn [k_e k_misc]. destruct m; reflexivity.
  - inversion H; subst. exact I.
  - destruct (is_yseq v); [|discriminate H]. destruct ex; try discriminate H.
    inversion H; subst. exact I.
Qed.

Lemma misc_int_not_str misc : misc_is MInt misc = true -> misc_is MStr misc = false.
Proof. destruct misc as [[]|]; intros H; try discriminate H; reflexivity. Qed.

Lemma cr_cmp_ue ue misc op r : ue_ok ue misc ->
  misc_is MStr misc = false \/ (op = BEqual /\ r = ENull) -> cr_cmp ue op r = true.
Proof.
  intros Hk Hm. destruct ue as [ | | | f m | | | | | | | | | | ]; try reflexivity.
  destruct m; try reflexivity; cbn [ue_ok] in Hk; [contradiction|].
  destruct Hm as [Hm|[-> ->]]; [congruence | reflexivity].
Qed.

Lemma check_numeric misc p u : misc_pattern_check misc p = Ok u -> is_string_pattern p = false ->
  misc_is MStr misc = false.
Proof.
  intros H Hp. destruct misc as [[]|]; try reflexivity. cbn [misc_pattern_check] in H.
  rewrite Hp in H. discriminate H.
Qed.

Ltac crt Hue :=
  unfold cr, cmp_expr; cbn [cmp_reads is_and_or];
  first [ reflexivity
        | apply (cr_cmp_ue _ _ _ _ Hue);
          first [ left; assumption | left; apply misc_int_not_str; assumption
                | right; split; reflexivity ] ].

Lemma numeric_expr_cr ue misc p x : ue_ok ue misc -> misc_is MStr misc = false ->
  numeric_expr ue p = Some x -> cr x.
Proof. intros He Hm. destruct p; cbn [numeric_expr]; intros H; inversion H; subst; crt He. Qed.

Lemma numeric_not_string ue p x : numeric_expr ue p = Some x -> is_string_pattern p = false.
Proof. destruct p; cbn [numeric_expr]; intros H; try discriminate H; reflexivity. Qed.

Lemma scalar_string_expr_cr o ic ki s e :
  ue_ok (k_e ki) (k_misc ki) -> scalar_string_expr o ic ki s = Ok e -> cr e.
Proof.
  intros He. unfold scalar_string_expr. intros H.
  apply C03.bind_ok_inv in H. destruct H as (id & _ & H).
  apply C03.bind_ok_inv in H. destruct H as (u & Hu & H). cbv zeta in H.
  destruct (numeric_expr (k_e ki) (id_pat id)) as [x|] eqn:En.
  - inversion H; subst.
    exact (numeric_expr_cr _ _ _ _ He (check_numeric _ _ _ Hu (numeric_not_string _ _ _ En)) En).
  - destruct (id_pat id); inversion H; subst; reflexivity.
Qed.

Definition sub_cr (sub : option (out expr)) : Prop := forall r e, sub = Some r -> r = Ok e -> cr e.

Lemma sub_cr_none : sub_cr None.
Proof. intros r e H; discriminate. Qed.

Lemma seq_member_cr o ic ki ue a v sub a' :
  ue_ok ue (k_misc ki) ->
  sub_cr sub -> Forall cr (a_rest a) -> seq_member o ic ki ue a v sub = Ok a' ->
  Forall cr (a_rest a').
Proof.
  intros Hue Hs Ha. unfold seq_member. cbv zeta.
  destruct v as [| b | z | x | s | l | kv | tag w].
  - intros H; inversion H; subst. apply C03.Forall_snoc; [exact Ha | crt Hue].
  - destruct (misc_is MInt (k_misc ki)) eqn:E1; [|destruct (misc_is MStr (k_misc ki)) eqn:E2];
      intros H; inversion H; subst; first [exact Ha | apply C03.Forall_snoc; [exact Ha | crt Hue]].
  - destruct (number_of z);
      [ destruct (misc_is MStr (k_misc ki)) eqn:E2
      | destruct (misc_is MInt (k_misc ki)) eqn:E1; [|destruct (misc_is MStr (k_misc ki)) eqn:E2] ];
      intros H; inversion H; subst; first [exact Ha | apply C03.Forall_snoc; [exact Ha | crt Hue]].
  - destruct (misc_is MInt (k_misc ki)) eqn:E1; [|destruct (misc_is MStr (k_misc ki)) eqn:E2];
      intros H; inversion H; subst; first [exact Ha | apply C03.Forall_snoc; [exact Ha | crt Hue]].
  - intros H.
    apply C03.bind_ok_inv in H. destruct H as (id & _ & H).
    apply C03.bind_ok_inv in H. destruct H as (u & Hu & H).
    assert (Ha2 : Forall cr (a_rest (if misc_is MStr (k_misc ki) then flag_cast a else a))).
    { destruct (misc_is MStr (k_misc ki)); exact Ha. }
    revert H Ha2. generalize (if misc_is MStr (k_misc ki) then flag_cast a else a). intros a2 H Ha2.
    destruct (id_pat id) eqn:Ep; cbn [numeric_expr] in H; inversion H; subst;
      try (pose proof (check_numeric _ _ _ Hu eq_refl) as Hns);
      first [exact Ha2 | apply C03.Forall_snoc; [exact Ha2 | crt Hue]].
  - intros H; discriminate H.
  - destruct (k_misc ki); [intros H; discriminate H|].
    destruct sub as [r|]; [|intros H; discriminate H].
    intros H. apply C03.bind_ok_inv in H. destruct H as (e & Hr & H). inversion H; subst.
    apply C03.Forall_snoc; [exact Ha|]. unfold cr. cbn [cmp_reads]. exact (Hs _ e eq_refl eq_refl).
  - intros H; discriminate H.
Qed.

Lemma seq_members_cr o ic ki ue : ue_ok ue (k_misc ki) -> forall vs a subs a',
  Forall sub_cr subs -> Forall cr (a_rest a) -> seq_members o ic ki ue a vs subs = Ok a' ->
  Forall cr (a_rest a').
Proof.
  intros Hue. induction vs as [|v vs IH]; intros a subs a' HF Ha H; cbn [seq_members] in H.
  - inversion H; subst. exact Ha.
  - apply C03.bind_ok_inv in H. destruct H as (a1 & H1 & H).
    apply (IH a1 (tl subs) a'); [| |exact H].
    + destruct subs as [|s subs']; cbn [tl]; [constructor|]. inversion HF; assumption.
    + refine (seq_member_cr _ _ _ _ _ _ _ _ Hue _ Ha H1).
      destruct subs as [|s subs']; [apply sub_cr_none|]. inversion HF; assumption.
Qed.

Lemma finish_tail_cr (ke : expr) (multiple : bool) (group : list expr) e :
  Forall cr group ->
  match group with
  | [] => Err EInvalidIdent
  | [x] =>
      let keep_of := match ke with
                     | EMatch (MOf c) _ => negb (c =? 1)%Z
                     | _ => false
                     end in
      if negb multiple && negb keep_of then Ok x
      else match ke with
           | EMatch m _ => Ok (EMatch m x)
           | _ => Ok (EGroup BOr group)
           end
  | _ =>
      match ke with
      | EMatch m _ => Ok (EMatch m (EGroup BOr group))
      | _ => Ok (EGroup BOr group)
      end
  end = Ok e -> cr e.
Proof.
  intros HF.
  assert (HG : cmp_reads (EGroup BOr group) = true).
  { cbn [cmp_reads]. apply forallb_forall. rewrite Forall_forall in HF. exact HF. }
  destruct group as [|x [|y rest]].
  - intros H; discriminate H.
  - cbv zeta. inversion HF as [|x' l' Hx _]; subst.
    destruct (negb multiple && negb _).
    + intros H; inversion H; subst. exact Hx.
    + destruct ke; intros H; inversion H; subst; first [exact HG | exact Hx].
  - destruct ke; intros H; inversion H; subst; exact HG.
Qed.

Lemma Forall_search_map_cr {A} (l : list A) s f c :
  Forall cr (map (fun _ => ESearch s f c) l).
Proof. induction l; cbn [map]; constructor; [reflexivity | assumption]. Qed.

Lemma finish_seq_cr ki a e : Forall cr (a_rest a) -> finish_seq ki a = Ok e -> cr e.
Proof.
  intros Ha. unfold finish_seq. cbv zeta.
  C03.destruct_let_pair.
  C03.destruct_let_pair.
  C03.destruct_let_pair.
  C03.destruct_let_pair.
  C03.destruct_let_pair.
  match goal with |- (if ?b then _ else _) = _ -> _ => destruct b end; [intros H; discriminate H|].
  match goal with |- (if ?b then _ else _) = _ -> _ => destruct b end; [intros H; discriminate H|].
  match goal with |- (if ?b then _ else _) = _ -> _ => destruct b end; [intros H; discriminate H|].
  apply finish_tail_cr.
  repeat (apply Forall_app; split); try exact Ha; try apply Forall_search_map_cr;
    match goal with
    | H : match ?X with _ => _ end = (?g, _) |- Forall cr ?g =>
        destruct X as [|? [|? ?]]; inversion H; subst; unfold cr;
        repeat first [reflexivity | constructor]
    end.
Qed.

Lemma ue_of_leaf ki : leaf (k_e ki) = true -> ue_of ki = k_e ki.
Proof. unfold ue_of. destruct (k_e ki); intros H; try discriminate H; reflexivity. Qed.

Lemma parse_entry_cr o ic k v sub subs e :
  sub_cr sub -> Forall sub_cr subs -> parse_entry o ic k v sub subs = Ok e -> cr e.
Proof.
  intros Hs HF H. unfold parse_entry in H.
  apply C03.bind_ok_inv in H. destruct H as (ki & Hki & H). cbv zeta in H.
  pose proof (parse_key_cr _ _ _ _ Hki) as Hcr.
  apply parse_key_ok in Hki.
  apply C03.bind_ok_inv in H. destruct H as (ex & Hex & H).
  assert (Hw : cr ex).
  { clear H. destruct v as [| b | z | x | s | l | kv | tag w];
      try (pose proof (ki_ok_scalar _ _ Hki eq_refl) as Hke;
           rewrite (ue_of_leaf ki Hke) in Hcr).
    - inversion Hex; subst; crt Hcr.
    - destruct (misc_is MInt (k_misc ki)) eqn:E1; [|destruct (misc_is MStr (k_misc ki)) eqn:E2];
        inversion Hex; subst; crt Hcr.
    - destruct (number_of z);
        [ destruct (misc_is MStr (k_misc ki)) eqn:E2
        | destruct (misc_is MInt (k_misc ki)) eqn:E1; [|destruct (misc_is MStr (k_misc ki)) eqn:E2] ];
        inversion Hex; subst; crt Hcr.
    - destruct (misc_is MInt (k_misc ki)) eqn:E1; [|destruct (misc_is MStr (k_misc ki)) eqn:E2];
        inversion Hex; subst; crt Hcr.
    - exact (scalar_string_expr_cr _ _ _ _ _ Hcr Hex).
    - apply C03.bind_ok_inv in Hex. destruct Hex as (a & Hm & Hf).
      apply (finish_seq_cr ki a); [|exact Hf].
      refine (seq_members_cr _ _ _ _ Hcr _ _ _ _ HF _ Hm).
      destruct (misc_is MStr (k_misc ki)); apply Forall_nil.
    - destruct (k_misc ki); [discriminate Hex|].
      destruct sub as [r|]; [|discriminate Hex].
      apply C03.bind_ok_inv in Hex. destruct Hex as (x & Hr & Hx). inversion Hx; subst.
      unfold cr. cbn [cmp_reads]. exact (Hs _ x eq_refl eq_refl).
    - discriminate Hex. }
  destruct (misc_is MNot (k_misc ki)); inversion H; subst; exact Hw.
Qed.

Lemma finish_mapping_cr es e : Forall cr es -> finish_mapping es = Ok e -> cr e.
Proof.
  intros HF. unfold finish_mapping.
  assert (HG : cmp_reads (EGroup BAnd es) = true).
  { cbn [cmp_reads]. apply forallb_forall. rewrite Forall_forall in HF. exact HF. }
  destruct es as [|x [|y rest]]; intros H; inversion H; subst.
  - inversion HF; assumption.
  - exact HG.
Qed.

Fixpoint parse_mapping_cr (o : oracles) (ic : bool) (y : yaml) {struct y} :
  forall e, parse_mapping o ic y = Ok e -> cr e.
Proof.
  destruct y as [| | | | |l|kv|tag w]; try (intros e H; discriminate H).
  cbn [parse_mapping]. intros e H.
  apply C03.bind_ok_inv in H. destruct H as (es & Hes & Hfin).
  apply (finish_mapping_cr es); [|exact Hfin]. clear Hfin e.
  revert es Hes.
  induction kv as [|[k v] kv' IH]; intros es Hes.
  - inversion Hes; subst. constructor.
  - assert (H1 : sub_cr (match v with YMap _ => Some (parse_mapping o ic v) | _ => None end)).
    { clear Hes IH. intros r x Hr Hx. pose proof (parse_mapping_cr o ic v) as Hv.
      destruct v as [| | | | |l|kv0|tag w]; try discriminate Hr.
      injection Hr as <-. exact (Hv _ Hx). }
    assert (H2 : Forall sub_cr
                   (match v with
                    | YSeq l => map (fun m => match m with
                                              | YMap _ => Some (parse_mapping o ic m)
                                              | _ => None
                                              end) l
                    | _ => []
                    end)).
    { clear Hes IH H1. destruct v as [| | | | |l|kv0|tag w]; try constructor.
      induction l as [|m l IHl]; cbn [map]; constructor; [|exact IHl].
      intros r x Hr Hx. pose proof (parse_mapping_cr o ic m) as Hm.
      destruct m as [| | | | |l0|kv0|tag w]; try discriminate Hr.
      injection Hr as <-. exact (Hm _ Hx). }
    apply C03.bind_ok_inv in Hes. destruct Hes as (e & He & Hes).
    apply C03.bind_ok_inv in Hes. destruct Hes as (es' & Hes' & Hes).
    inversion Hes; subst. constructor; [|exact (IH _ Hes')].
    exact (parse_entry_cr _ _ _ _ _ _ _ H1 H2 He).
Qed.

Lemma parse_identifier_cr : forall o ic y e,
  parse_identifier o ic y = Ok e -> cmp_reads e = true.
Proof.
  intros o ic y e H. unfold parse_identifier in H.
  destruct y as [| | | | |l|kv|tag w]; try discriminate H.
  - destruct l as [|first others]; [discriminate H|].
    destruct (is_ymap first); [|discriminate H].
    apply C03.bind_ok_inv in H. destruct H as (e0 & H0 & H).
    apply C03.bind_ok_inv in H. destruct H as (es & Hes & H). inversion H; subst.
    apply parse_mapping_cr in H0.
    apply (C03.mapM_Forall _ cr) in Hes.
    + cbn [cmp_reads forallb]. rewrite H0. cbn [andb].
      apply forallb_forall. rewrite Forall_forall in Hes. exact Hes.
    + intros a b Hab. destruct (is_ymap a); [|discriminate Hab].
      exact (parse_mapping_cr _ _ _ _ Hab).
  - exact (parse_mapping_cr _ _ _ _ H).
Qed.

(* ====================================================================================== *)
(* 12. the cmp_reads / no_match conjuncts of Scope.matrix_input_ok hold of loaded rules   *)
(* ====================================================================================== *)

Lemma cmp_reads_allq : forall e, cmp_reads e = allq cr_cmp true e.
Proof.
  induction e as [e IH] using C01.size_ind.
  dex e; cbn [cmp_reads allq andb]; reflexivity.
Qed.

Lemma types_ok_cr eq l r op : types_ok eq l r = true -> cr_cmp l op r = true.
Proof.
  intros H.
  destruct l as [ | | | f1 m1 | | | | | | | | | | ]; try discriminate H; try reflexivity.
  destruct m1; try reflexivity; destruct r as [ | | | f2 m2 | | | | | | | | | | ]; try discriminate H;
    destruct m2; try discriminate H; reflexivity.
Qed.

Lemma cond_shape_cr : forall e, Spec.cond_shape e = true -> cmp_reads e = true.
Proof.
  induction e as [ s g | l IHl op r IHr | bb | f m | f | x | i | z | k e IHe | cols rows
                 | e IHe | f e IHe | | s f cst ]; intros Hs; try discriminate Hs; try reflexivity.
  - cbn [Spec.cond_shape] in Hs. cbn [cmp_reads].
    destruct op; cbn [is_and_or]; try (exact (types_ok_cr _ _ _ _ Hs));
      (apply andb_prop in Hs; destruct Hs as [H1 H2]; rewrite (IHl H1), (IHr H2); reflexivity).
  - cbn [Spec.cond_shape] in Hs. destruct e; try discriminate Hs. reflexivity.
  - cbn [Spec.cond_shape] in Hs. cbn [cmp_reads]. exact (IHe Hs).
Qed.

Lemma load_entries_cr o ic : forall kv cond ids cond' ids',
  Forall (fun kv : str * expr => cmp_reads (snd kv) = true) ids ->
  load_entries o ic kv cond ids = Ok (cond', ids') ->
  Forall (fun kv : str * expr => cmp_reads (snd kv) = true) ids'.
Proof.
  induction kv as [|[k v] kv IH]; intros cond ids cond' ids' Hids H; cbn [load_entries] in H.
  - inversion H; subst. exact Hids.
  - destruct (untag k); try discriminate H.
    destruct (str_eqb s cond_key).
    + destruct (untag v); try discriminate H. exact (IH _ _ _ _ Hids H).
    + apply C03.bind_ok_inv in H. destruct H as (e & He & H).
      apply C03.as_rule_err_ok in He.
      refine (IH _ _ _ _ _ H).
      apply C03.Forall_snoc; [exact Hids|]. cbn [snd]. exact (parse_identifier_cr _ _ _ _ He).
Qed.

Lemma load_detection_shapes o ic y dt : load_detection o ic y = Ok dt ->
  Spec.cond_shape (d_expr dt) = true /\
  Forall (fun kv : str * expr => cmp_reads (snd kv) = true) (d_ids dt).
Proof.
  intros H. unfold load_detection in H. destruct (untag y); try discriminate H.
  apply C03.bind_ok_inv in H. destruct H as ([cond ids] & Hent & H).
  destruct cond as [raw|]; [|discriminate H].
  apply C03.bind_ok_inv in H. destruct H as (ts & _ & H).
  destruct (idents_known ids None None ts); [|discriminate H]. cbn [negb] in H.
  apply C03.bind_ok_inv in H. destruct H as (e & He & H). apply C03.as_rule_err_ok in He.
  destruct (is_solvable e) eqn:Es; [|discriminate H]. inversion H; subst. cbn [d_expr d_ids]. split.
  - exact (C02_cond.loaded_condition_shape _ _ He Es).
  - exact (load_entries_cr _ _ _ _ [] _ _ (Forall_nil _) Hent).
Qed.

Lemma staged_sw0 sw dt : staged (Scope.sw_without_matrix sw) dt = staged sw dt.
Proof. reflexivity. Qed.

(* the two conjuncts never put a loaded rule out of the scope *)
Lemma matrix_input_extra_loaded : forall o ic ord sw y r,
  load_rule o ic y = Ok r ->
  Scope.c01_scope (Scope.sw_without_matrix sw) (r_det r) = true ->
  Scope.no_quant_ident (d_expr (r_det r)) = true ->
  forallb cmp_reads (all_trees (pre_matrix o ord sw (r_det r))) = true /\
  sw_coalesce sw || no_match (fst (pre_matrix o ord sw (r_det r))) = true.
Proof.
  intros o ic ord sw y r Hl Hsc Hnq.
  destruct (C03.load_rule_det _ _ _ _ Hl) as [dy Hdy].
  destruct (load_detection_shapes _ _ _ _ Hdy) as [Hcs Hcb].
  pose proof (load_good _ _ _ _ Hl) as Hgood.
  destruct (no_matrix_stage_good o ord sw _ Hgood) as (s3 & Hst & [Gc3 Gi3]).
  rewrite (no_matrix_stage_pre _ _ _ _ _ Hst). cbn [fst].
  assert (Hnn : sw_shake sw = true -> forallb C01.no_nested (all_trees (staged sw (r_det r))) = true).
  { intros Hs. unfold Scope.c01_scope in Hsc. apply andb_prop in Hsc. destruct Hsc as [_ H3].
    cbn [Scope.sw_without_matrix sw_shake] in H3. rewrite Hs in H3. cbn [negb orb] in H3.
    rewrite <- staged_sw0. exact (input_ok_nn _ _ H3). }
  split.
  - (* cmp_reads *)
    assert (Hb : Forall (fun kv : str * expr => allq cr_cmp true (snd kv) = true) (d_ids (r_det r))).
    { eapply Forall_impl; [|exact Hcb]. intros kv Hkv. rewrite <- cmp_reads_allq. exact Hkv. }
    assert (He : allq cr_cmp true (d_expr (r_det r)) = true)
      by (rewrite <- cmp_reads_allq; exact (cond_shape_cr _ Hcs)).
    pose proof (stage_allq cr_cmp true o ord sw _ s3 Hgood Hnn He) as Ae.
    pose proof (stage_allq_ids cr_cmp true o ord sw _ s3 Hgood Hnn Hb Hst) as Ai.
    cbn [all_trees fst snd forallb]. rewrite cmp_reads_allq, Ae; [cbn [andb]| |exact Hst].
    + apply forallb_forall. intros b Hb'. apply in_map_iff in Hb'. destruct Hb' as (kv & <- & Hkv).
      rewrite Forall_forall in Ai. rewrite cmp_reads_allq. exact (Ai kv Hkv).
    + intros _ i b Hlk. destruct (C03.lookup_in _ _ _ Hlk) as [k Hk].
      rewrite Forall_forall in Hb. exact (Hb (k, b) Hk).
  - (* no quantifier in the condition *)
    destruct (sw_coalesce sw) eqn:Ec; [reflexivity|]. cbn [orb].
    destruct Hgood as [Gc Gi].
    pose proof (cond_shape_no_match _ Hcs Hnq) as Hm.
    rewrite (no_match_allq _ _ Gc) in Hm.
    pose proof (stage_allq (fun _ _ _ => true) false o ord sw _ s3 (conj Gc Gi) Hnn Hm) as Ae.
    rewrite (no_match_allq _ _ Gc3). apply Ae; [|exact Hst].
    intros Hco. rewrite Ec in Hco. discriminate Hco.
Qed.
