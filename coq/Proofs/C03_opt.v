(* C03 (second file)  Optimising an accepted rule never panics and the optimised rule can
   still be evaluated: proofs. *)
From TauModel Require Import Base Num Oracles Syntax Generated Token Pratt Ident Value Yaml
     ParseMap Solver Rule Keys Optimiser Known.
From Coq Require Import Lia ZArith ZifyBool List Bool.
Import ListNotations.
From TauProofs Require C01 C03.

(* ------------------------------------------------------------------------------------ *)
(* (A) the invariant: evaluable shape + comparison operands are leaves                   *)
(* ------------------------------------------------------------------------------------ *)

Definition leaf (e : expr) : bool := negb (is_solvable e).

(* K tells which identifiers are known *)
Fixpoint gk (K : str -> bool) (e : expr) : bool :=
  match e with
  | EGroup s l => is_and_or s && forallb (gk K) l
  | EBexp l s r => if is_and_or s then gk K l && gk K r else leaf l && leaf r
  | EIdent i => K i
  | EMatch _ e' => gk K e'
  | ENegate e' => gk K e'
  | ENested _ e' => gk K e'
  | ESearch _ _ _ => true
  | _ => false
  end.

Definition nokey : str -> bool := fun _ => false.
Definition keys_of (ids : list (str * expr)) : str -> bool := fun i => has_key i ids.
Definition gb (e : expr) : bool := gk nokey e.

Ltac sz := first [ cbn [expr_size]; lia | apply C01.size_member; assumption ].

Ltac dex e :=
  destruct e as [ ?s ?g | ?l1 ?op ?r1 | ?b | ?f ?m | ?f | ?x | ?i | ?z | ?k ?e | ?cols ?rows | ?e | ?f ?e | | ?s ?f ?cst ].

Lemma forallb_ext_In {A} (p q : A -> bool) l :
  (forall x, In x l -> p x = q x) -> forallb p l = forallb q l.
Proof.
  induction l as [|a l IH]; intros H; [reflexivity|]. cbn [forallb].
  rewrite (H a (or_introl eq_refl)), IH; [reflexivity|]. intros x Hx. apply H. right. exact Hx.
Qed.

Lemma gk_ext K K' : (forall i, K i = K' i) -> forall e, gk K e = gk K' e.
Proof.
  intros HK. induction e as [e IH] using C01.size_ind.
  dex e; cbn [gk]; try reflexivity.
  - f_equal. apply forallb_ext_In. intros x Hx. apply IH. sz.
  - rewrite (IH l1), (IH r1); [reflexivity | sz | sz].
  - apply HK.
  - apply IH; sz.
  - apply IH; sz.
  - apply IH; sz.
Qed.

Lemma gk_wf_cond ids : forall e, gk (keys_of ids) e = true -> wf_cond ids e = true.
Proof.
  induction e as [e IH] using C01.size_ind. intros H.
  dex e; cbn [gk] in H; try discriminate H; cbn [wf_cond].
  - apply andb_prop in H. destruct H as [Hs Hl]. change (is_and_or_op s) with (is_and_or s).
    rewrite Hs. cbn [andb]. apply C01.forallb_intro. intros x Hx.
    apply IH; [sz | exact (C01.forallb_In _ _ _ Hl Hx)].
  - change (is_and_or_op op) with (is_and_or op). destruct (is_and_or op); [|reflexivity].
    apply andb_prop in H. destruct H as [H1 H2].
    rewrite (IH l1), (IH r1); try assumption; try reflexivity; sz.
  - exact H.
  - apply IH; [sz | exact H].
  - apply IH; [sz | exact H].
  - apply IH; [sz | exact H].
  - reflexivity.
Qed.

Lemma gb_wf_body : forall e, gb e = true -> wf_body e = true.
Proof.
  unfold gb. induction e as [e IH] using C01.size_ind. intros H.
  dex e; cbn [gk] in H; try discriminate H; cbn [wf_body].
  - apply andb_prop in H. destruct H as [Hs Hl]. change (is_and_or_op s) with (is_and_or s).
    rewrite Hs. cbn [andb]. apply C01.forallb_intro. intros x Hx.
    apply IH; [sz | exact (C01.forallb_In _ _ _ Hl Hx)].
  - change (is_and_or_op op) with (is_and_or op). destruct (is_and_or op); [|reflexivity].
    apply andb_prop in H. destruct H as [H1 H2].
    rewrite (IH l1), (IH r1); try assumption; try reflexivity; sz.
  - apply IH; [sz | exact H].
  - apply IH; [sz | exact H].
  - apply IH; [sz | exact H].
  - reflexivity.
Qed.

Lemma gk_of_wf_cond ids : forall e,
  wf_cond ids e = true -> C01.cmp_leaves e = true -> gk (keys_of ids) e = true.
Proof.
  induction e as [e IH] using C01.size_ind. intros H Hc.
  dex e; cbn [wf_cond] in H; try discriminate H; cbn [C01.cmp_leaves] in Hc; cbn [gk].
  - apply andb_prop in H. destruct H as [Hs Hl]. change (is_and_or_op s) with (is_and_or s) in Hs.
    rewrite Hs. cbn [andb]. apply C01.forallb_intro. intros x Hx.
    apply IH; [sz | exact (C01.forallb_In _ _ _ Hl Hx) | exact (C01.forallb_In _ _ _ Hc Hx)].
  - change (is_and_or_op op) with (is_and_or op) in H. destruct (is_and_or op); [|exact Hc].
    apply andb_prop in H. destruct H as [H1 H2]. apply andb_prop in Hc. destruct Hc as [H3 H4].
    rewrite (IH l1), (IH r1); try assumption; try reflexivity; sz.
  - exact H.
  - apply IH; [sz | exact H | exact Hc].
  - apply IH; [sz | exact H | exact Hc].
  - apply IH; [sz | exact H | exact Hc].
  - reflexivity.
Qed.

Lemma gb_of_wf_body e : wf_body e = true -> C01.cmp_leaves e = true -> gb e = true.
Proof.
  intros H Hc. apply C03.wf_body_cond_nil in H. exact (gk_of_wf_cond [] e H Hc).
Qed.

(* ------------------------------------------------------------------------------------ *)
(* (B1) the Pratt parser builds comparisons over leaves only                             *)
(* ------------------------------------------------------------------------------------ *)

Definition cl (e : expr) : Prop := C01.cmp_leaves e = true.
Definition Pcl (rec : parser) : Prop := forall rbp ts e rest, rec rbp ts = Ok (e, rest) -> cl e.

Lemma parse_all_cl rec ts e : Pcl rec -> parse_all rec ts = Ok e -> cl e.
Proof.
  intros HP H. unfold parse_all in H.
  apply C03.bind_ok_inv in H. destruct H as ([e' rest] & Hr & H).
  destruct rest; [|discriminate H]. inversion H; subst. exact (HP _ _ _ _ Hr).
Qed.

Lemma parse_nud_cl rec ts e rest : Pcl rec -> parse_nud rec ts = Ok (e, rest) -> cl e.
Proof.
  intros HP H. unfold parse_nud in H. destruct ts as [|t rest0]; [discriminate H|].
  destruct t as [d|f|s|z|b|m| |m]; try discriminate H.
  - destruct d; try discriminate H.
    destruct (collect_paren 0 rest0) as [inner after].
    apply C03.bind_ok_inv in H. destruct H as (e' & Hall & H). inversion H; subst.
    exact (parse_all_cl _ _ _ HP Hall).
  - inversion H; subst. reflexivity.
  - inversion H; subst. reflexivity.
  - inversion H; subst. reflexivity.
  - apply C03.bind_ok_inv in H. destruct H as ([s r] & _ & H). inversion H; subst. reflexivity.
  - apply C03.bind_ok_inv in H. destruct H as ([rgt rest'] & Hr & H).
    destruct (negatable rgt); [|discriminate H]. inversion H; subst.
    unfold cl. cbn [C01.cmp_leaves]. exact (HP _ _ _ _ Hr).
  - destruct m.
    + apply C03.bind_ok_inv in H. destruct H as ([s r] & _ & H). inversion H; subst. reflexivity.
    + repeat match goal with
             | H : match ?x with _ => _ end = Ok _ |- _ => destruct x eqn:?; try discriminate H
             | H : (if ?x then _ else _) = Ok _ |- _ => destruct x eqn:?; try discriminate H
             end.
      inversion H; subst. reflexivity.
Qed.

Lemma eq_operand_leaf e : eq_operand e = true -> leaf e = true.
Proof. destruct e; try discriminate; reflexivity. Qed.
Lemma ord_operand_leaf e : ord_operand e = true -> leaf e = true.
Proof. destruct e; try discriminate; reflexivity. Qed.

Lemma led_check_cl l s r e : cl l -> cl r -> led_check l s r = Ok e -> cl e.
Proof.
  intros Hl Hr. unfold led_check.
  destruct s;
    repeat match goal with
           | |- (if ?x then _ else _) = Ok _ -> _ => destruct x eqn:?; try (intros H; discriminate H)
           end;
    intros H; inversion H; subst; unfold cl; cbn [C01.cmp_leaves is_and_or];
    try (unfold cl in Hl, Hr; rewrite Hl, Hr; reflexivity);
    repeat match goal with
           | H : negb _ = false |- _ => apply negb_false_iff in H
           end;
    change (leaf l && leaf r = true);
    first [ rewrite (eq_operand_leaf l), (eq_operand_leaf r) by assumption; reflexivity
          | rewrite (ord_operand_leaf l), (ord_operand_leaf r) by assumption; reflexivity ].
Qed.

Lemma parse_led_cl rec lft ts e rest :
  Pcl rec -> cl lft -> parse_led rec lft ts = Ok (e, rest) -> cl e.
Proof.
  intros HP Hl H. unfold parse_led in H. destruct ts as [|t rest0]; [discriminate H|].
  destruct t as [d|f|s|z|b|m| |m]; try discriminate H.
  apply C03.bind_ok_inv in H. destruct H as ([rgt rest'] & Hr & H).
  apply C03.bind_ok_inv in H. destruct H as (e' & Hc & H). inversion H; subst.
  exact (led_check_cl _ _ _ _ Hl (HP _ _ _ _ Hr) Hc).
Qed.

Lemma parse_loop_cl rec : Pcl rec ->
  forall n rbp lft ts e rest, cl lft -> parse_loop rec n rbp lft ts = Ok (e, rest) -> cl e.
Proof.
  intros HP. induction n as [|n IH]; intros rbp lft ts e rest Hl H.
  - cbn [parse_loop] in H. destruct ts as [|next ts'].
    + inversion H; subst. exact Hl.
    + destruct (binding_power next <=? rbp)%N; [|discriminate H]. inversion H; subst. exact Hl.
  - cbn [parse_loop] in H. destruct ts as [|next ts'].
    + inversion H; subst. exact Hl.
    + destruct (binding_power next <=? rbp)%N.
      { inversion H; subst. exact Hl. }
      apply C03.bind_ok_inv in H. destruct H as ([lft' rest1] & Hled & H).
      exact (IH _ _ _ _ _ (parse_led_cl _ _ _ _ _ HP Hl Hled) H).
Qed.

Lemma parse_expr_cl : forall n, Pcl (parse_expr n).
Proof.
  induction n as [|n IH]; intros rbp ts e rest H; [discriminate H|].
  cbn [parse_expr] in H.
  apply C03.bind_ok_inv in H. destruct H as ([lft rest1] & Hnud & H).
  exact (parse_loop_cl _ IH _ _ _ _ _ _ (parse_nud_cl _ _ _ _ IH Hnud) H).
Qed.

Lemma parse_cl ts e : parse ts = Ok e -> C01.cmp_leaves e = true.
Proof. intros H. exact (parse_all_cl _ _ _ (parse_expr_cl _) H). Qed.

(* ------------------------------------------------------------------------------------ *)
(* (B2) identifier blocks: comparisons over leaves only                                  *)
(* ------------------------------------------------------------------------------------ *)

Definition ki_ok (v : yaml) (ki : keyinfo) : Prop :=
  leaf (k_e ki) = true \/ (is_yseq v = true /\ exists m s, k_e ki = EMatch m (EField s)).

Lemma parse_key_ok o k v ki : parse_key o k v = Ok ki -> ki_ok v ki.
Proof.
  unfold parse_key. destruct k; try (intros H; discriminate H). intros H.
  apply C03.bind_ok_inv in H. destruct H as (ts & _ & H).
  apply C03.bind_ok_inv in H. destruct H as (ex & _ & H).
  destruct ex; try discriminate H.
  - inversion H; subst. left. cbn [k_e]. destruct m; reflexivity.
  - inversion H; subst. left. reflexivity.
  - destruct (is_yseq v) eqn:E; [|discriminate H]. destruct ex; try discriminate H.
    inversion H; subst. right. split; [exact E|]. cbn [k_e]. eauto.
Qed.

Lemma ki_ok_ue v ki : ki_ok v ki ->
  negb (is_solvable (match k_e ki with EMatch _ inner => inner | _ => k_e ki end)) = true.
Proof.
  intros [H|(_ & m & s & ->)]; [|reflexivity].
  unfold leaf in H. destruct (k_e ki); try discriminate H; exact H.
Qed.

Lemma ki_ok_scalar v ki : ki_ok v ki -> is_yseq v = false -> negb (is_solvable (k_e ki)) = true.
Proof. intros [H|(E & _)] Hv; [exact H | congruence]. Qed.

Ltac clt Hue :=
  unfold cl, cmp_expr; cbn [C01.cmp_leaves is_and_or];
  first [reflexivity | rewrite Hue; reflexivity].

Lemma numeric_expr_cl e p x : negb (is_solvable e) = true -> numeric_expr e p = Some x -> cl x.
Proof. intros He. destruct p; cbn [numeric_expr]; intros H; inversion H; subst; clt He. Qed.

Lemma scalar_string_expr_cl o ic ki s e :
  negb (is_solvable (k_e ki)) = true -> scalar_string_expr o ic ki s = Ok e -> cl e.
Proof.
  intros He. unfold scalar_string_expr. intros H.
  apply C03.bind_ok_inv in H. destruct H as (id & _ & H).
  apply C03.bind_ok_inv in H. destruct H as (u & _ & H). cbv zeta in H.
  destruct (id_pat id); cbn [numeric_expr] in H; inversion H; subst; clt He.
Qed.

Definition sub_cl (sub : option (out expr)) : Prop := forall r e, sub = Some r -> r = Ok e -> cl e.

Lemma sub_cl_none : sub_cl None.
Proof. intros r e H; discriminate. Qed.

Lemma seq_member_cl o ic ki ue a v sub a' :
  negb (is_solvable ue) = true ->
  sub_cl sub -> Forall cl (a_rest a) -> seq_member o ic ki ue a v sub = Ok a' ->
  Forall cl (a_rest a').
Proof.
  intros Hue Hs Ha. unfold seq_member. cbv zeta.
  destruct v as [| b | z | x | s | l | kv | tag w].
  - intros H; inversion H; subst. apply C03.Forall_snoc; [exact Ha | clt Hue].
  - destruct (misc_is MInt (k_misc ki)); [|destruct (misc_is MStr (k_misc ki))];
      intros H; inversion H; subst; first [exact Ha | apply C03.Forall_snoc; [exact Ha | clt Hue]].
  - destruct (number_of z);
      [ destruct (misc_is MStr (k_misc ki))
      | destruct (misc_is MInt (k_misc ki)); [|destruct (misc_is MStr (k_misc ki))] ];
      intros H; inversion H; subst; first [exact Ha | apply C03.Forall_snoc; [exact Ha | clt Hue]].
  - destruct (misc_is MInt (k_misc ki)); [|destruct (misc_is MStr (k_misc ki))];
      intros H; inversion H; subst; first [exact Ha | apply C03.Forall_snoc; [exact Ha | clt Hue]].
  - intros H.
    apply C03.bind_ok_inv in H. destruct H as (id & _ & H).
    apply C03.bind_ok_inv in H. destruct H as (u & _ & H).
    assert (Ha2 : Forall cl (a_rest (if misc_is MStr (k_misc ki) then flag_cast a else a))).
    { destruct (misc_is MStr (k_misc ki)); exact Ha. }
    revert H Ha2. generalize (if misc_is MStr (k_misc ki) then flag_cast a else a). intros a2 H Ha2.
    destruct (id_pat id) eqn:Ep; cbn [numeric_expr] in H; inversion H; subst;
      first [exact Ha2 | apply C03.Forall_snoc; [exact Ha2 | clt Hue]].
  - intros H; discriminate H.
  - destruct (k_misc ki); [intros H; discriminate H|].
    destruct sub as [r|]; [|intros H; discriminate H].
    intros H. apply C03.bind_ok_inv in H. destruct H as (e & Hr & H). inversion H; subst.
    apply C03.Forall_snoc; [exact Ha|]. unfold cl. cbn [C01.cmp_leaves]. exact (Hs _ e eq_refl eq_refl).
  - intros H; discriminate H.
Qed.

Lemma seq_members_cl o ic ki ue : negb (is_solvable ue) = true -> forall vs a subs a',
  Forall sub_cl subs -> Forall cl (a_rest a) -> seq_members o ic ki ue a vs subs = Ok a' ->
  Forall cl (a_rest a').
Proof.
  intros Hue. induction vs as [|v vs IH]; intros a subs a' HF Ha H; cbn [seq_members] in H.
  - inversion H; subst. exact Ha.
  - apply C03.bind_ok_inv in H. destruct H as (a1 & H1 & H).
    apply (IH a1 (tl subs) a'); [| |exact H].
    + destruct subs as [|s subs']; cbn [tl]; [constructor|]. inversion HF; assumption.
    + refine (seq_member_cl _ _ _ _ _ _ _ _ Hue _ Ha H1).
      destruct subs as [|s subs']; [apply sub_cl_none|]. inversion HF; assumption.
Qed.

Lemma finish_tail_cl (ke : expr) (multiple : bool) (group : list expr) e :
  Forall cl group ->
  match group with
  | [] => Err EInvalidIdent
  | [x] =>
      let keep_of := match ke with
                     | EMatch (MOf c) _ => negb (c =? 1)%Z
                     | _ => false
                     end in
      if negb multiple && negb keep_of then Ok x
      else match ke with
           | EMatch m _ => Ok (EMatch m x)
           | _ => Ok (EGroup BOr group)
           end
  | _ =>
      match ke with
      | EMatch m _ => Ok (EMatch m (EGroup BOr group))
      | _ => Ok (EGroup BOr group)
      end
  end = Ok e -> cl e.
Proof.
  intros HF.
  assert (HG : C01.cmp_leaves (EGroup BOr group) = true).
  { cbn [C01.cmp_leaves]. apply forallb_forall. rewrite Forall_forall in HF. exact HF. }
  destruct group as [|x [|y rest]].
  - intros H; discriminate H.
  - cbv zeta. inversion HF as [|x' l' Hx _]; subst.
    destruct (negb multiple && negb _).
    + intros H; inversion H; subst. exact Hx.
    + destruct ke; intros H; inversion H; subst; first [exact HG | exact Hx].
  - destruct ke; intros H; inversion H; subst; exact HG.
Qed.

Lemma Forall_search_map_cl {A} (l : list A) s f c :
  Forall cl (map (fun _ => ESearch s f c) l).
Proof. induction l; cbn [map]; constructor; [reflexivity | assumption]. Qed.

Lemma finish_seq_cl ki a e : Forall cl (a_rest a) -> finish_seq ki a = Ok e -> cl e.
Proof.
  intros Ha. unfold finish_seq. cbv zeta.
  C03.destruct_let_pair.
  C03.destruct_let_pair.
  C03.destruct_let_pair.
  C03.destruct_let_pair.
  C03.destruct_let_pair.
  match goal with |- (if ?b then _ else _) = _ -> _ => destruct b end; [intros H; discriminate H|].
  match goal with |- (if ?b then _ else _) = _ -> _ => destruct b end; [intros H; discriminate H|].
  match goal with |- (if ?b then _ else _) = _ -> _ => destruct b end; [intros H; discriminate H|].
  apply finish_tail_cl.
  repeat (apply Forall_app; split); try exact Ha; try apply Forall_search_map_cl;
    match goal with
    | H : match ?X with _ => _ end = (?g, _) |- Forall cl ?g =>
        destruct X as [|? [|? ?]]; inversion H; subst; unfold cl;
        repeat first [reflexivity | constructor]
    end.
Qed.

Lemma parse_entry_cl o ic k v sub subs e :
  sub_cl sub -> Forall sub_cl subs -> parse_entry o ic k v sub subs = Ok e -> cl e.
Proof.
  intros Hs HF H. unfold parse_entry in H.
  apply C03.bind_ok_inv in H. destruct H as (ki & Hki & H). cbv zeta in H.
  apply parse_key_ok in Hki.
  apply C03.bind_ok_inv in H. destruct H as (ex & Hex & H).
  assert (Hw : cl ex).
  { clear H. destruct v as [| b | z | x | s | l | kv | tag w];
      try (pose proof (ki_ok_scalar _ _ Hki eq_refl) as Hke).
    - inversion Hex; subst; clt Hke.
    - destruct (misc_is MInt (k_misc ki)); [|destruct (misc_is MStr (k_misc ki))];
        inversion Hex; subst; clt Hke.
    - destruct (number_of z);
        [ destruct (misc_is MStr (k_misc ki))
        | destruct (misc_is MInt (k_misc ki)); [|destruct (misc_is MStr (k_misc ki))] ];
        inversion Hex; subst; clt Hke.
    - destruct (misc_is MInt (k_misc ki)); [|destruct (misc_is MStr (k_misc ki))];
        inversion Hex; subst; clt Hke.
    - exact (scalar_string_expr_cl _ _ _ _ _ Hke Hex).
    - apply C03.bind_ok_inv in Hex. destruct Hex as (a & Hm & Hf).
      apply (finish_seq_cl ki a); [|exact Hf].
      refine (seq_members_cl _ _ _ _ (ki_ok_ue _ _ Hki) _ _ _ _ HF _ Hm).
      destruct (misc_is MStr (k_misc ki)); apply Forall_nil.
    - destruct (k_misc ki); [discriminate Hex|].
      destruct sub as [r|]; [|discriminate Hex].
      apply C03.bind_ok_inv in Hex. destruct Hex as (x & Hr & Hx). inversion Hx; subst.
      unfold cl. cbn [C01.cmp_leaves]. exact (Hs _ x eq_refl eq_refl).
    - discriminate Hex. }
  destruct (misc_is MNot (k_misc ki)); inversion H; subst; exact Hw.
Qed.

Lemma finish_mapping_cl es e : Forall cl es -> finish_mapping es = Ok e -> cl e.
Proof.
  intros HF. unfold finish_mapping.
  assert (HG : C01.cmp_leaves (EGroup BAnd es) = true).
  { cbn [C01.cmp_leaves]. apply forallb_forall. rewrite Forall_forall in HF. exact HF. }
  destruct es as [|x [|y rest]]; intros H; inversion H; subst.
  - inversion HF; assumption.
  - exact HG.
Qed.

Fixpoint parse_mapping_cl (o : oracles) (ic : bool) (y : yaml) {struct y} :
  forall e, parse_mapping o ic y = Ok e -> cl e.
Proof.
  destruct y as [| | | | |l|kv|tag w]; try (intros e H; discriminate H).
  cbn [parse_mapping]. intros e H.
  apply C03.bind_ok_inv in H. destruct H as (es & Hes & Hfin).
  apply (finish_mapping_cl es); [|exact Hfin]. clear Hfin e.
  revert es Hes.
  induction kv as [|[k v] kv' IH]; intros es Hes.
  - inversion Hes; subst. constructor.
  - assert (H1 : sub_cl (match v with YMap _ => Some (parse_mapping o ic v) | _ => None end)).
    { clear Hes IH. intros r x Hr Hx. pose proof (parse_mapping_cl o ic v) as Hv.
      destruct v as [| | | | |l|kv0|tag w]; try discriminate Hr.
      injection Hr as <-. exact (Hv _ Hx). }
    assert (H2 : Forall sub_cl
                   (match v with
                    | YSeq l => map (fun m => match m with
                                              | YMap _ => Some (parse_mapping o ic m)
                                              | _ => None
                                              end) l
                    | _ => []
                    end)).
    { clear Hes IH H1. destruct v as [| | | | |l|kv0|tag w]; try constructor.
      induction l as [|m l IHl]; cbn [map]; constructor; [|exact IHl].
      intros r x Hr Hx. pose proof (parse_mapping_cl o ic m) as Hm.
      destruct m as [| | | | |l0|kv0|tag w]; try discriminate Hr.
      injection Hr as <-. exact (Hm _ Hx). }
    apply C03.bind_ok_inv in Hes. destruct Hes as (e & He & Hes).
    apply C03.bind_ok_inv in Hes. destruct Hes as (es' & Hes' & Hes).
    inversion Hes; subst. constructor; [|exact (IH _ Hes')].
    exact (parse_entry_cl _ _ _ _ _ _ _ H1 H2 He).
Qed.

Lemma parse_identifier_cl : forall o ic y e,
  parse_identifier o ic y = Ok e -> C01.cmp_leaves e = true.
Proof.
  intros o ic y e H. unfold parse_identifier in H.
  destruct y as [| | | | |l|kv|tag w]; try discriminate H.
  - destruct l as [|first others]; [discriminate H|].
    destruct (is_ymap first); [|discriminate H].
    apply C03.bind_ok_inv in H. destruct H as (e0 & H0 & H).
    apply C03.bind_ok_inv in H. destruct H as (es & Hes & H). inversion H; subst.
    apply parse_mapping_cl in H0.
    apply (C03.mapM_Forall _ cl) in Hes.
    + cbn [C01.cmp_leaves forallb]. rewrite H0. cbn [andb].
      apply forallb_forall. rewrite Forall_forall in Hes. exact Hes.
    + intros a b Hab. destruct (is_ymap a); [|discriminate Hab].
      exact (parse_mapping_cl _ _ _ _ Hab).
  - exact (parse_mapping_cl _ _ _ _ H).
Qed.

(* ---- loaded rules satisfy the invariant ---- *)
Definition good_det (dt : detection) : Prop :=
  gk (keys_of (d_ids dt)) (d_expr dt) = true /\
  Forall (fun kv : str * expr => gb (snd kv) = true) (d_ids dt).

Lemma load_entries_good o ic : forall kv cond ids cond' ids',
  Forall (fun kv : str * expr => gb (snd kv) = true) ids ->
  load_entries o ic kv cond ids = Ok (cond', ids') ->
  Forall (fun kv : str * expr => gb (snd kv) = true) ids'.
Proof.
  induction kv as [|[k v] kv IH]; intros cond ids cond' ids' Hids H; cbn [load_entries] in H.
  - inversion H; subst. exact Hids.
  - destruct (untag k); try discriminate H.
    destruct (str_eqb s cond_key).
    + destruct (untag v); try discriminate H. exact (IH _ _ _ _ Hids H).
    + apply C03.bind_ok_inv in H. destruct H as (e & He & H).
      apply C03.as_rule_err_ok in He.
      refine (IH _ _ _ _ _ H).
      apply C03.Forall_snoc; [exact Hids|]. cbn [snd].
      apply gb_of_wf_body; [exact (C03.parse_identifier_wf _ _ _ _ He) | exact (parse_identifier_cl _ _ _ _ He)].
Qed.

Lemma load_detection_good o ic y dt : load_detection o ic y = Ok dt -> good_det dt.
Proof.
  intros H0. pose proof (C03.load_detection_wf _ _ _ _ H0) as Hwf. revert H0.
  unfold load_detection. intros H. destruct (untag y); try discriminate H.
  apply C03.bind_ok_inv in H. destruct H as ([cond ids] & Hent & H).
  destruct cond as [raw|]; [|discriminate H].
  apply C03.bind_ok_inv in H. destruct H as (ts & _ & H).
  destruct (idents_known ids None None ts) eqn:Eik; [|discriminate H]. cbn [negb] in H.
  apply C03.bind_ok_inv in H. destruct H as (e & He & H). apply C03.as_rule_err_ok in He.
  destruct (is_solvable e) eqn:Es; [|discriminate H]. inversion H; subst.
  unfold wf_det in Hwf. cbn [d_expr d_ids] in Hwf. apply andb_prop in Hwf. destruct Hwf as [Hc _].
  split; cbn [d_expr d_ids].
  - apply gk_of_wf_cond; [exact Hc | exact (parse_cl _ _ He)].
  - exact (load_entries_good _ _ _ _ [] _ _ (Forall_nil _) Hent).
Qed.

Lemma load_good o ic y r : load_rule o ic y = Ok r -> good_det (r_det r).
Proof.
  intros H. destruct (C03.load_rule_det _ _ _ _ H) as [d Hd].
  exact (load_detection_good _ _ _ _ Hd).
Qed.

(* ------------------------------------------------------------------------------------ *)
(* (C) the passes keep the invariant and (matrix apart) never panic                      *)
(* ------------------------------------------------------------------------------------ *)

Lemma mapM_cons {A B} (f : A -> out B) a l :
  mapM f (a :: l) = match f a with
                    | Ok y => match mapM f l with
                              | Ok ys => Ok (y :: ys)
                              | Err k => Err k
                              | Panic s => Panic s
                              end
                    | Err k => Err k
                    | Panic s => Panic s
                    end.
Proof. reflexivity. Qed.

Lemma mapM_good {A B} (f : A -> out B) (P : B -> Prop) : forall l,
  (forall x, In x l -> exists y, f x = Ok y /\ P y) ->
  exists l', mapM f l = Ok l' /\ Forall P l' /\ length l' = length l.
Proof.
  induction l as [|a l IH]; intros H.
  - exists []. split; [reflexivity|]. split; [constructor | reflexivity].
  - destruct (H a (or_introl eq_refl)) as (y & Hy & Py).
    destruct IH as (l' & Hl' & Pl' & Ll'). { intros x Hx. apply H. right. exact Hx. }
    exists (y :: l'). split; [|split].
    + rewrite mapM_cons, Hy, Hl'. reflexivity.
    + constructor; assumption.
    + cbn [length]. rewrite Ll'. reflexivity.
Qed.

Lemma Forall_gk_forallb K l : Forall (fun x => gk K x = true) l -> forallb (gk K) l = true.
Proof. intros H. apply forallb_forall. rewrite Forall_forall in H. exact H. Qed.

Lemma forallb_gk_Forall K l : forallb (gk K) l = true -> Forall (fun x => gk K x = true) l.
Proof. intros H. apply Forall_forall. rewrite forallb_forall in H. exact H. Qed.

(* ---- coalesce ---- *)
Lemma coalesce_good ids K :
  (forall i, K i = true -> exists b, lookup i ids = Some b /\ gb b = true) ->
  forall e, gk K e = true -> exists e', coalesce ids e = Ok e' /\ gb e' = true.
Proof.
  intros HK. induction e as [e IH] using C01.size_ind. intros H.
  dex e; cbn [gk] in H; try discriminate H; cbn [coalesce].
  - apply andb_prop in H. destruct H as [Hs Hl].
    destruct (mapM_good (fun x => coalesce ids x) (fun x => gb x = true) g) as (l' & -> & Pl' & _).
    { intros x Hx. apply IH; [sz | exact (C01.forallb_In _ _ _ Hl Hx)]. }
    cbn [bind]. eexists. split; [reflexivity|]. unfold gb. cbn [gk]. rewrite Hs. cbn [andb].
    apply Forall_gk_forallb. exact Pl'.
  - destruct (is_and_or op) eqn:Eop.
    + apply andb_prop in H. destruct H as [H1 H2].
      destruct (IH l1 ltac:(sz) H1) as (l' & -> & Gl).
      destruct (IH r1 ltac:(sz) H2) as (r' & -> & Gr).
      cbn [bind]. eexists. split; [reflexivity|]. unfold gb in *. cbn [gk]. rewrite Eop, Gl, Gr. reflexivity.
    + apply andb_prop in H. destruct H as [H1 H2].
      assert (Hleaf : forall x, leaf x = true -> coalesce ids x = Ok x).
      { intros x Hx. destruct x; try discriminate Hx; reflexivity. }
      rewrite (Hleaf _ H1), (Hleaf _ H2). cbn [bind]. eexists. split; [reflexivity|].
      unfold gb. cbn [gk]. rewrite Eop, H1, H2. reflexivity.
  - destruct (HK _ H) as (b & -> & Gb). eexists. split; [reflexivity | exact Gb].
  - destruct (IH e ltac:(sz) H) as (e' & -> & Ge). cbn [bind]. eexists. split; [reflexivity | exact Ge].
  - destruct (IH e ltac:(sz) H) as (e' & -> & Ge). cbn [bind]. eexists. split; [reflexivity | exact Ge].
  - destruct (IH e ltac:(sz) H) as (e' & -> & Ge). cbn [bind]. eexists. split; [reflexivity | exact Ge].
  - eexists. split; reflexivity.
Qed.

(* ---- shake_0 ---- *)
Lemma flat_good K s l' r' L : is_and_or s = true -> gk K l' = true -> gk K r' = true ->
  C01.flat s l' r' = Some L -> forallb (gk K) L = true.
Proof.
  intros Hs Hl Hr Hf. unfold C01.flat in Hf.
  destruct (C01.grp s l') as [a|] eqn:G1; destruct (C01.grp s r') as [b|] eqn:G2.
  - injection Hf as <-. apply C01.grp_some in G1. apply C01.grp_some in G2. subst l' r'.
    cbn [gk] in Hl, Hr. rewrite Hs in Hl, Hr. cbn [andb] in Hl, Hr.
    rewrite forallb_app, Hl, Hr. reflexivity.
  - injection Hf as <-. apply C01.grp_some in G1. subst l'.
    cbn [gk] in Hl. rewrite Hs in Hl. cbn [andb] in Hl.
    rewrite forallb_app, Hl. cbn [forallb]. rewrite Hr. reflexivity.
  - injection Hf as <-. apply C01.grp_some in G2. subst r'.
    cbn [gk] in Hr. rewrite Hs in Hr. cbn [andb] in Hr.
    cbn [forallb]. rewrite Hl, Hr. reflexivity.
  - destruct (C01.bx s l') as [[x y]|] eqn:B1.
    + injection Hf as <-. apply C01.bx_some in B1. subst l'.
      cbn [gk] in Hl. rewrite Hs in Hl. apply andb_prop in Hl. destruct Hl as [Hx Hy].
      cbn [forallb]. rewrite Hx, Hy, Hr. reflexivity.
    + destruct (C01.bx s r') as [[y z]|] eqn:B2; [|discriminate Hf].
      injection Hf as <-. apply C01.bx_some in B2. subst r'.
      cbn [gk] in Hr. rewrite Hs in Hr. apply andb_prop in Hr. destruct Hr as [Hy Hz].
      cbn [forallb]. rewrite Hl, Hy, Hz. reflexivity.
Qed.

Lemma shake0_good K : forall fuel e, gk K e = true ->
  exists e', shake0 fuel e = Ok e' /\ gk K e' = true.
Proof.
  induction fuel as [|fu IH]; intros e H.
  { exists e. split; [reflexivity | exact H]. }
  dex e; cbn [gk] in H; try discriminate H.
  - apply andb_prop in H. destruct H as [Hs Hl]. cbn [shake0]. rewrite Hs. cbn [negb].
    destruct (mapM_good (fun x => shake0 fu x) (fun x => gk K x = true) g) as (l' & -> & Pl' & _).
    { intros x Hx. apply IH. exact (C01.forallb_In _ _ _ Hl Hx). }
    cbn [bind].
    assert (HG : gk K (EGroup s l') = true).
    { cbn [gk]. rewrite Hs. cbn [andb]. apply Forall_gk_forallb. exact Pl'. }
    destruct l' as [|x [|y l'']].
    + eexists. split; [reflexivity | exact HG].
    + eexists. split; [reflexivity|]. inversion Pl'; assumption.
    + eexists. split; [reflexivity | exact HG].
  - destruct (is_and_or op) eqn:Eop.
    + apply andb_prop in H. destruct H as [H1 H2].
      rewrite (C01.shake0_bexp_andor fu l1 op r1 Eop).
      destruct (IH l1 H1) as (l' & -> & Gl). destruct (IH r1 H2) as (r' & -> & Gr). cbn [bind].
      destruct (C01.flat op l' r') as [L|] eqn:Ef.
      * apply IH. cbn [gk]. rewrite Eop. cbn [andb]. exact (flat_good K _ _ _ _ Eop Gl Gr Ef).
      * eexists. split; [reflexivity|]. cbn [gk]. rewrite Eop, Gl, Gr. reflexivity.
    + apply andb_prop in H. destruct H as [H1 H2].
      rewrite (C01.shake0_bexp_cmp fu l1 op r1 Eop).
      rewrite (C01.shake0_leaf fu l1 H1), (C01.shake0_leaf fu r1 H2). cbn [bind].
      eexists. split; [reflexivity|]. cbn [gk]. rewrite Eop, H1, H2. reflexivity.
  - eexists. split; [reflexivity | exact H].
  - destruct (C01.is_group_dec e) as [[s0 [g0 ->]]|Hng].
    + (* fix D14: the group a quantifier holds stays; its members are shaken *)
      rewrite C01.shake0_match_group. cbn [gk] in H. apply andb_prop in H. destruct H as [Hs Hl].
      destruct (mapM_good (fun x => shake0 fu x) (fun x => gk K x = true) g0) as (l' & -> & Pl' & _).
      { intros x Hx. apply IH. exact (C01.forallb_In _ _ _ Hl Hx). }
      cbn [bind]. eexists. split; [reflexivity|].
      cbn [gk]. rewrite Hs. cbn [andb]. apply Forall_gk_forallb. exact Pl'.
    + rewrite (C01.shake0_match_other fu k e Hng).
      destruct (IH e H) as (e' & -> & Ge). cbn [bind]. eexists. split; [reflexivity | exact Ge].
  - cbn [shake0]. destruct (IH e H) as (e' & -> & Ge). cbn [bind].
    destruct e'; try (eexists; split; [reflexivity | exact Ge]).
    apply IH. exact Ge.
  - cbn [shake0]. destruct (IH e H) as (e' & -> & Ge). cbn [bind]. eexists. split; [reflexivity | exact Ge].
  - eexists. split; [reflexivity | reflexivity].
Qed.

(* ---- shake_1 ---- *)
Lemma amap_push_F {V} (Q : V -> Prop) k v : forall (m : list (key * list V)),
  Forall (fun kv => Forall Q (snd kv)) m -> Forall Q v ->
  Forall (fun kv => Forall Q (snd kv)) (amap_push k v m).
Proof.
  induction m as [|[k' vs] m IH]; intros Hm Hv; cbn [amap_push].
  - constructor; [exact Hv | constructor].
  - inversion Hm as [|? ? H1 H2]; subst. destruct (str_eqb k k').
    + constructor; [|exact H2]. cbn [snd] in *. apply Forall_app. split; assumption.
    + constructor; [exact H1 | exact (IH H2 Hv)].
Qed.

Lemma amap_iter_F {V} ord (R : list V -> Prop) (m : list (key * list V)) :
  Forall (fun kv => R (snd kv)) m -> Forall (fun kv => R (snd kv)) (amap_iter ord m).
Proof.
  intros Hm. unfold amap_iter. generalize (ord (map fst m)). intros ks.
  induction ks as [|k ks IH]; cbn [flat_map]; [constructor|].
  apply Forall_app. split; [|exact IH].
  destruct (lookup k m) as [vs|] eqn:El; [|constructor].
  constructor; [|constructor]. cbn [snd].
  destruct (C03.lookup_in _ _ _ El) as [k' Hk]. rewrite Forall_forall in Hm. exact (Hm _ Hk).
Qed.

Lemma insert_by_F {A} (Q : A -> Prop) lt x : forall l, Q x -> Forall Q l -> Forall Q (insert_by lt x l).
Proof.
  induction l as [|y l IH]; intros Hx Hl; cbn [insert_by].
  - constructor; [exact Hx | constructor].
  - destruct (lt x y); [constructor; assumption|].
    inversion Hl; subst. constructor; [assumption | apply IH; assumption].
Qed.

Lemma sort_by_F {A} (Q : A -> Prop) lt l : Forall Q l -> Forall Q (sort_by lt l).
Proof.
  unfold sort_by. assert (H : forall l acc, Forall Q l -> Forall Q acc ->
    Forall Q (fold_left (fun acc x => insert_by lt x acc) l acc)).
  { clear l. induction l as [|x l IH]; intros acc Hl Ha; cbn [fold_left]; [exact Ha|].
    inversion Hl; subst. apply IH; [assumption | apply insert_by_F; assumption]. }
  intros Hl. apply H; [exact Hl | constructor].
Qed.

Lemma fold_left_inv {A B} (f : A -> B -> A) (I : A -> Prop) (Q : B -> Prop) :
  (forall a b, I a -> Q b -> I (f a b)) -> forall l a, I a -> Forall Q l -> I (fold_left f l a).
Proof.
  intros Hf. induction l as [|b l IH]; intros a Ha Hl; cbn [fold_left]; [exact Ha|].
  inversion Hl; subst. apply IH; [apply Hf; assumption | assumption].
Qed.

Definition and_scratch (ord : hord) (sh : expr -> expr) (shaken : list expr) : list expr :=
  let nested :=
    fold_left (fun m x => match x with
                          | ENested f inner => if is_all_match inner then m else amap_push f [inner] m
                          | _ => m
                          end) shaken [] in
  let plain := filter (fun x => match x with ENested _ inner => is_all_match inner | _ => true end) shaken in
  let merged :=
    map (fun kv : key * list expr =>
           let '(f, es) := kv in
           ENested f (match es with
                      | [x] => sh x
                      | _ => sh (EMatch MAll (EGroup BOr es))
                      end)) (amap_iter ord nested) in
  plain ++ merged.

Definition or_scratch (ord : hord) (sh : expr -> expr) (shaken : list expr) : list expr :=
  let a := fold_left or_classify shaken oracc0 in
  let b := fold_left needle_bucket (amap_iter ord (oa_needles a)) buckets0 in
  let nested :=
    map (fun kv : key * list expr =>
           let '(f, es) := kv in
           ENested f (match es with
                      | [x] => sh x
                      | _ => sh (EGroup BOr es)
                      end)) (amap_iter ord (oa_nested a)) in
  let pats := map pattern_exprs (amap_iter ord (oa_patterns a)) in
  let regex := flat_map fst pats in
  let regex_set := flat_map snd pats in
  oa_any a ++ sort_by len_lt (b_exact b) ++ sort_by len_lt (b_starts b)
       ++ sort_by len_lt (b_ends b) ++ sort_by len_lt (b_contains b)
       ++ sort_by aho_lt (b_aho b) ++ sort_by regex_lt regex
       ++ sort_by regexset_lt regex_set ++ oa_rest a ++ nested.

Lemma shake1_and ord fu l :
  shake1 ord (S fu) (EGroup BAnd l) =
  let scratch := and_scratch ord (shake1 ord fu) (map (shake1 ord fu) l) in
  if negb (length scratch =? length l)%nat then shake1 ord fu (EGroup BAnd scratch)
  else match scratch with [x] => x | _ => EGroup BAnd scratch end.
Proof. reflexivity. Qed.

Lemma shake1_or ord fu l :
  shake1 ord (S fu) (EGroup BOr l) =
  let scratch := or_scratch ord (shake1 ord fu) (map (shake1 ord fu) l) in
  if negb (length scratch =? length l)%nat then shake1 ord fu (EGroup BOr scratch)
  else match scratch with [x] => x | _ => EGroup BOr scratch end.
Proof. reflexivity. Qed.

Section Shake1.
Variable ord : hord.
Variable K : str -> bool.
Definition Pg (x : expr) : Prop := gk K x = true.
Definition PVg (kv : key * list expr) : Prop := Forall Pg (snd kv).

Variable sh : expr -> expr.
Hypothesis Hsh : forall x, Pg x -> Pg (sh x).

Lemma and_scratch_good shaken : Forall Pg shaken -> Forall Pg (and_scratch ord sh shaken).
Proof.
  intros Hs. unfold and_scratch. cbv zeta. apply Forall_app. split.
  - apply Forall_forall. intros x Hx. apply filter_In in Hx. rewrite Forall_forall in Hs.
    apply Hs. exact (proj1 Hx).
  - rewrite Forall_map.
    assert (Hm : Forall PVg (fold_left (fun m x => match x with
                          | ENested f inner => if is_all_match inner then m else amap_push f [inner] m
                          | _ => m
                          end) shaken [])).
    { apply (fold_left_inv _ (Forall PVg) Pg); [|constructor|exact Hs].
      intros m x Hm Hx. destruct x; try exact Hm.
      destruct (is_all_match x); [exact Hm|].
      apply amap_push_F; [exact Hm|]. constructor; [exact Hx | constructor]. }
    apply (amap_iter_F ord (Forall Pg)) in Hm.
    eapply Forall_impl; [|exact Hm]. intros [f es] Hes. cbn [snd] in Hes.
    unfold Pg. cbn [gk]. destruct es as [|x [|y es']].
    + apply Hsh. reflexivity.
    + apply Hsh. inversion Hes; assumption.
    + apply Hsh. unfold Pg. cbn [gk is_and_or andb]. apply Forall_gk_forallb. exact Hes.
Qed.

Definition OI (a : oracc) : Prop :=
  Forall Pg (oa_any a) /\ Forall Pg (oa_rest a) /\ Forall PVg (oa_nested a).

Lemma or_classify_good a x : OI a -> Pg x -> OI (or_classify a x).
Proof.
  intros (H1 & H2 & H3) Hx. unfold or_classify.
  destruct x as [ ?s ?g | ?l1 ?op ?r1 | ?b | ?f ?m | ?f | ?x | ?i | ?z | ?k ?e | ?cols ?rows | ?e | ?f ?e | | s f cst ];
    try (split; [|split]; cbn [oa_any oa_rest oa_nested]; try assumption;
         apply C03.Forall_snoc; assumption).
  - destruct (is_all_match e).
    + split; [|split]; cbn [oa_any oa_rest oa_nested]; try assumption.
      apply C03.Forall_snoc; assumption.
    + split; [|split]; cbn [oa_any oa_rest oa_nested]; try assumption.
      apply amap_push_F; [exact H3|]. constructor; [exact Hx | constructor].
  - destruct s; cbn [mt_of_search];
      (split; [|split]; cbn [oa_any oa_rest oa_nested]; try assumption;
       apply C03.Forall_snoc; assumption).
Qed.

Definition BI (b : buckets) : Prop :=
  Forall Pg (b_exact b) /\ Forall Pg (b_starts b) /\ Forall Pg (b_ends b) /\
  Forall Pg (b_contains b) /\ Forall Pg (b_aho b).

Lemma needle_bucket_good b kv : BI b -> BI (needle_bucket b kv).
Proof.
  intros (H1 & H2 & H3 & H4 & H5). destruct kv as [k ms]. unfold needle_bucket. cbv zeta.
  destruct (key3_ci k); destruct ms as [|m [|m' ms']]; try destruct m;
    (repeat split; cbn [b_exact b_starts b_ends b_contains b_aho]; try assumption;
     apply C03.Forall_snoc; [assumption | reflexivity]).
Qed.

Lemma pattern_exprs_good kv : Forall Pg (fst (pattern_exprs kv)) /\ Forall Pg (snd (pattern_exprs kv)).
Proof.
  destruct kv as [k ps]. unfold pattern_exprs. cbv zeta.
  destruct ps as [|p [|p' ps']]; cbn [fst snd]; split; repeat constructor.
Qed.

Lemma flat_map_F {A B} (Q : B -> Prop) (f : A -> list B) l :
  Forall (fun x => Forall Q (f x)) l -> Forall Q (flat_map f l).
Proof.
  induction 1 as [|a l Ha _ IH]; cbn [flat_map]; [constructor|].
  apply Forall_app. split; [exact Ha | exact IH].
Qed.

Lemma or_scratch_good shaken : Forall Pg shaken -> Forall Pg (or_scratch ord sh shaken).
Proof.
  intros Hs. unfold or_scratch. cbv zeta.
  assert (Ha : OI (fold_left or_classify shaken oracc0)).
  { apply (fold_left_inv _ OI Pg); [exact or_classify_good | | exact Hs].
    repeat split; constructor. }
  destruct Ha as (A1 & A2 & A3).
  set (a := fold_left or_classify shaken oracc0) in *.
  assert (Hb : BI (fold_left needle_bucket (amap_iter ord (oa_needles a)) buckets0)).
  { apply (fold_left_inv _ BI (fun _ => True)).
    - intros b kv Hb _. apply needle_bucket_good. exact Hb.
    - repeat split; constructor.
    - apply Forall_forall. intros; exact I. }
  destruct Hb as (B1 & B2 & B3 & B4 & B5).
  repeat (apply Forall_app; split); try assumption; try (apply sort_by_F; try assumption).
  - apply flat_map_F. rewrite Forall_map. apply Forall_forall. intros kv _.
    exact (proj1 (pattern_exprs_good kv)).
  - apply flat_map_F. rewrite Forall_map. apply Forall_forall. intros kv _.
    exact (proj2 (pattern_exprs_good kv)).
  - rewrite Forall_map.
    apply (amap_iter_F ord (Forall Pg)) in A3.
    eapply Forall_impl; [|exact A3]. intros [f es] Hes. cbn [snd] in Hes.
    unfold Pg. cbn [gk]. destruct es as [|x [|y es']].
    + apply Hsh. reflexivity.
    + apply Hsh. inversion Hes; assumption.
    + apply Hsh. unfold Pg. cbn [gk is_and_or andb]. apply Forall_gk_forallb. exact Hes.
Qed.
End Shake1.

Lemma shake1_good ord K : forall fuel e, gk K e = true -> gk K (shake1 ord fuel e) = true.
Proof.
  induction fuel as [|fu IH]; intros e H; [exact H|].
  assert (Hl : forall l, forallb (gk K) l = true -> Forall (Pg K) (map (shake1 ord fu) l)).
  { intros l Hl. rewrite Forall_map. apply forallb_gk_Forall in Hl.
    eapply Forall_impl; [|exact Hl]. intros x Hx. apply IH. exact Hx. }
  dex e; cbn [gk] in H; try discriminate H; try exact H.
  - apply andb_prop in H. destruct H as [Hs Hg].
    destruct s; try discriminate Hs.
    + rewrite shake1_and. cbv zeta.
      pose proof (and_scratch_good ord K _ (IH) _ (Hl _ Hg)) as Hsc.
      set (scratch := and_scratch ord (shake1 ord fu) (map (shake1 ord fu) g)) in *.
      assert (HG : gk K (EGroup BAnd scratch) = true).
      { cbn [gk is_and_or andb]. apply Forall_gk_forallb. exact Hsc. }
      destruct (negb (length scratch =? length g)%nat); [apply IH; exact HG|].
      destruct scratch as [|x [|y l'']]; try exact HG. inversion Hsc; assumption.
    + rewrite shake1_or. cbv zeta.
      pose proof (or_scratch_good ord K _ (IH) _ (Hl _ Hg)) as Hsc.
      set (scratch := or_scratch ord (shake1 ord fu) (map (shake1 ord fu) g)) in *.
      assert (HG : gk K (EGroup BOr scratch) = true).
      { cbn [gk is_and_or andb]. apply Forall_gk_forallb. exact Hsc. }
      destruct (negb (length scratch =? length g)%nat); [apply IH; exact HG|].
      destruct scratch as [|x [|y l'']]; try exact HG. inversion Hsc; assumption.
  - cbn [shake1 gk]. destruct (is_and_or op) eqn:Eop.
    + apply andb_prop in H. destruct H as [H1 H2]. rewrite (IH _ H1), (IH _ H2). reflexivity.
    + apply andb_prop in H. destruct H as [H1 H2].
      assert (Hleaf : forall x, leaf x = true -> shake1 ord fu x = x).
      { intros x Hx. destruct fu; [reflexivity|]. destruct x; try discriminate Hx; reflexivity. }
      rewrite (Hleaf _ H1), (Hleaf _ H2), H1, H2. reflexivity.
  - assert (Hd : gk K (EMatch k (shake1 ord fu e)) = true) by (cbn [gk]; apply IH; exact H).
    dex e; try exact Hd.
    cbn [shake1 gk]. cbn [gk] in H. apply andb_prop in H. destruct H as [Hs Hg]. rewrite Hs. cbn [andb].
    apply Forall_gk_forallb. exact (Hl _ Hg).
  - cbn [shake1 gk]. apply IH. exact H.
  - cbn [shake1 gk]. apply IH. exact H.
Qed.

(* ---- rewrite ---- *)
Lemma rewrite_good o K : forall e, gk K e = true -> gk K (rewrite o e) = true.
Proof.
  induction e as [e IH] using C01.size_ind. intros H.
  dex e; cbn [gk] in H; try discriminate H; cbn [rewrite gk]; try exact H.
  - apply andb_prop in H. destruct H as [Hs Hl]. rewrite Hs. cbn [andb].
    rewrite forallb_forall. intros y Hy. apply in_map_iff in Hy. destruct Hy as (x & <- & Hx).
    apply IH; [sz | exact (C01.forallb_In _ _ _ Hl Hx)].
  - destruct (is_and_or op).
    + apply andb_prop in H. destruct H as [H1 H2]. rewrite (IH l1), (IH r1); try assumption; try reflexivity; sz.
    + apply andb_prop in H. destruct H as [H1 H2].
      assert (Hleaf : forall x, leaf x = true -> rewrite o x = x).
      { intros x Hx. destruct x; try discriminate Hx; reflexivity. }
      rewrite (Hleaf _ H1), (Hleaf _ H2), H1, H2. reflexivity.
  - apply IH; [sz | exact H].
  - apply IH; [sz | exact H].
  - apply IH; [sz | exact H].
Qed.

(* ------------------------------------------------------------------------------------ *)
(* (D) the pipeline without matrix                                                       *)
(* ------------------------------------------------------------------------------------ *)

Lemma shake_good ord K e : gk K e = true -> exists e', shake ord e = Ok e' /\ gk K e' = true.
Proof.
  intros H. unfold shake. destruct (shake0_good K (shake_fuel e) e H) as (e0 & -> & G0).
  cbn [bind]. eexists. split; [reflexivity|]. apply shake1_good. exact G0.
Qed.

Definition gids (ids : list (str * expr)) : Prop :=
  Forall (fun kv : str * expr => gb (snd kv) = true) ids.

Lemma has_key_fst {A B} (a : list (str * A)) : forall (b : list (str * B)) i,
  map fst a = map fst b -> has_key i a = has_key i b.
Proof.
  unfold has_key. induction a as [|[k v] a IH]; intros [|[k' v'] b] i H; try discriminate H; [reflexivity|].
  cbn [map fst] in H. injection H as -> H. cbn [lookup]. destruct (str_eqb i k'); [reflexivity|].
  apply IH. exact H.
Qed.

Lemma map_ids_good (f : expr -> out expr) ids :
  (forall e, gb e = true -> exists e', f e = Ok e' /\ gb e' = true) ->
  gids ids -> exists ids', map_ids f ids = Ok ids' /\ gids ids' /\ map fst ids' = map fst ids.
Proof.
  intros Hf. unfold map_ids, gids. induction 1 as [|[k e] ids He _ IH].
  - exists []. split; [reflexivity|]. split; [constructor | reflexivity].
  - destruct IH as (ids' & Hm & Gi & Fi). cbn [snd] in He.
    destruct (Hf e He) as (e' & Hfe & Ge).
    exists ((k, e') :: ids'). split; [|split].
    + rewrite mapM_cons. cbn [snd fst]. rewrite Hfe. cbn [bind]. rewrite Hm. reflexivity.
    + constructor; [exact Ge | exact Gi].
    + cbn [map fst]. rewrite Fi. reflexivity.
Qed.

Lemma lookup_gids ids i b : gids ids -> lookup i ids = Some b -> gb b = true.
Proof.
  intros Hg Hl. destruct (C03.lookup_in _ _ _ Hl) as [k Hk]. unfold gids in Hg.
  rewrite Forall_forall in Hg. exact (Hg _ Hk).
Qed.

Lemma keys_of_ext ids ids' : map fst ids' = map fst ids ->
  forall e, gk (keys_of ids) e = gk (keys_of ids') e.
Proof. intros H. apply gk_ext. intros i. unfold keys_of. symmetry. apply has_key_fst. exact H. Qed.

(* fix D15/D20: an identifier body is optimised entry by entry (Optimiser.entries) *)
Lemma entries_good (f : expr -> out expr) e :
  (forall x, gb x = true -> exists x', f x = Ok x' /\ gb x' = true) ->
  gb e = true -> exists e', entries f e = Ok e' /\ gb e' = true.
Proof.
  intros Hf He. destruct e as [b l| | | | | | | | | | | | |]; try exact (Hf _ He).
  unfold gb in He. cbn [gk] in He. apply andb_prop in He. destruct He as [Hs Hl].
  destruct (mapM_good f (fun y => gb y = true) l) as (l' & Hm & Pl & _).
  { intros x Hx. apply Hf. exact (C01.forallb_In _ _ _ Hl Hx). }
  exists (EGroup b l'). cbn [entries]. rewrite Hm. cbn [bind]. split; [reflexivity|].
  unfold gb. cbn [gk]. rewrite Hs. cbn [andb]. apply Forall_gk_forallb. exact Pl.
Qed.

Definition no_matrix_stage o ord (sw : switches) (dt : detection) : out detection :=
  do s1 <- (if sw_coalesce sw then
              do e <- coalesce (d_ids dt) (d_expr dt); Ok {| d_expr := e; d_ids := [] |}
            else Ok dt);
  do s2 <- (if sw_shake sw then
              do e <- shake ord (d_expr s1);
              do ids <- map_ids (entries (shake ord)) (d_ids s1);
              Ok {| d_expr := e; d_ids := ids |}
            else Ok s1);
  Ok (if sw_rewrite sw then
        {| d_expr := rewrite o (d_expr s2);
           d_ids := map (fun kv => (fst kv, rewrite o (snd kv))) (d_ids s2) |}
      else s2).

Lemma optimise_detection_stage o ord sw dt :
  optimise_detection o ord sw dt =
  do s3 <- no_matrix_stage o ord sw dt;
  if sw_matrix sw then
    do e <- matrix ord (shake_fuel (d_expr s3)) (d_expr s3);
    do ids <- map_ids (entries (fun x => matrix ord (shake_fuel x) x)) (d_ids s3);
    Ok {| d_expr := e; d_ids := ids |}
  else Ok s3.
Proof.
  unfold optimise_detection, no_matrix_stage.
  destruct (if sw_coalesce sw then _ else _) as [s1| |]; cbn [bind]; try reflexivity.
  destruct (if sw_shake sw then _ else _) as [s2| |]; cbn [bind]; reflexivity.
Qed.

Lemma no_matrix_stage_good o ord sw dt : good_det dt ->
  exists dt', no_matrix_stage o ord sw dt = Ok dt' /\ good_det dt'.
Proof.
  intros [Hc Hi]. unfold no_matrix_stage.
  (* coalesce *)
  assert (H1 : exists s1, (if sw_coalesce sw then
              do e <- coalesce (d_ids dt) (d_expr dt); Ok {| d_expr := e; d_ids := [] |}
            else Ok dt) = Ok s1 /\ good_det s1).
  { destruct (sw_coalesce sw).
    - destruct (coalesce_good (d_ids dt) (keys_of (d_ids dt))) with (e := d_expr dt) as (e' & -> & Ge).
      + intros i Hk. unfold keys_of, has_key in Hk.
        destruct (lookup i (d_ids dt)) as [b|] eqn:El; [|discriminate Hk].
        exists b. split; [reflexivity | exact (lookup_gids _ _ _ Hi El)].
      + exact Hc.
      + cbn [bind]. eexists. split; [reflexivity|]. split; cbn [d_expr d_ids]; [exact Ge | constructor].
    - exists dt. split; [reflexivity | split; assumption]. }
  destruct H1 as (s1 & -> & [Hc1 Hi1]). cbn [bind].
  (* shake *)
  assert (H2 : exists s2, (if sw_shake sw then
              do e <- shake ord (d_expr s1);
              do ids <- map_ids (entries (shake ord)) (d_ids s1);
              Ok {| d_expr := e; d_ids := ids |}
            else Ok s1) = Ok s2 /\ good_det s2).
  { destruct (sw_shake sw).
    - destruct (shake_good ord _ _ Hc1) as (e' & -> & Ge). cbn [bind].
      destruct (map_ids_good (entries (shake ord)) (d_ids s1)) as (ids' & -> & Gi & Fi).
      + intros e He. apply entries_good; [|exact He]. intros x Hx. exact (shake_good ord _ _ Hx).
      + exact Hi1.
      + cbn [bind]. eexists. split; [reflexivity|]. split; cbn [d_expr d_ids]; [|exact Gi].
        rewrite <- (keys_of_ext _ _ Fi). exact Ge.
    - exists s1. split; [reflexivity | split; assumption]. }
  destruct H2 as (s2 & -> & [Hc2 Hi2]). cbn [bind].
  eexists. split; [reflexivity|].
  destruct (sw_rewrite sw); [|split; assumption].
  split; cbn [d_expr d_ids].
  - rewrite <- (keys_of_ext (d_ids s2)).
    + apply rewrite_good. exact Hc2.
    + rewrite map_map. cbn [fst]. reflexivity.
  - unfold gids. rewrite Forall_map. cbn [snd]. eapply Forall_impl; [|exact Hi2].
    intros kv Hkv. apply rewrite_good. exact Hkv.
Qed.

Lemma good_det_wf dt : good_det dt -> wf_det dt = true.
Proof.
  intros [Hc Hi]. unfold wf_det. rewrite (gk_wf_cond _ _ Hc). cbn [andb].
  apply forallb_forall. unfold gids in Hi. rewrite Forall_forall in Hi.
  intros kv Hkv. apply gb_wf_body. exact (Hi _ Hkv).
Qed.

(* ---- theorems 1-3 ---- *)
Lemma optimise_no_matrix_total : forall o ic ord sw y r,
  load_rule o ic y = Ok r -> sw_matrix sw = false ->
  exists r', optimise o ord sw r = Ok r'.
Proof.
  intros o ic ord sw y r Hl Hm. unfold optimise.
  destruct (r_optimised r); [eexists; reflexivity|].
  rewrite optimise_detection_stage, Hm.
  destruct (no_matrix_stage_good o ord sw _ (load_good _ _ _ _ Hl)) as (dt' & -> & _).
  cbn [bind]. eexists; reflexivity.
Qed.

Lemma optimised_no_matrix_wf : forall o ic ord sw y r r',
  load_rule o ic y = Ok r -> sw_matrix sw = false ->
  optimise o ord sw r = Ok r' -> wf_det (r_det r') = true.
Proof.
  intros o ic ord sw y r r' Hl Hm H. unfold optimise in H.
  destruct (r_optimised r).
  { inversion H; subst. exact (C03.load_wf _ _ _ _ Hl). }
  rewrite optimise_detection_stage, Hm in H.
  destruct (no_matrix_stage_good o ord sw _ (load_good _ _ _ _ Hl)) as (dt' & E & G).
  rewrite E in H. cbn [bind] in H. inversion H; subst. cbn [r_det]. exact (good_det_wf _ G).
Qed.

Lemma wf_det_evaluates o r (d : doc) : wf_det (r_det r) = true ->
  (exists b, matches o r d = Ok b) /\ (exists l, validate o r = Ok l).
Proof.
  intros H.
  assert (Hm : forall d, exists b, matches o r d = Ok b).
  { intros d0. unfold matches. destruct (C03.solve_wf_no_panic o (r_det r) d0 H) as [x ->].
    cbn [bind]. eexists; reflexivity. }
  split; [apply Hm|].
  unfold validate.
  destruct (C03.validate_list_ok o r true Hm (r_tp r) 0%Z) as [a ->].
  destruct (C03.validate_list_ok o r false Hm (r_tn r) 1000%Z) as [b ->].
  cbn [bind]. eexists; reflexivity.
Qed.

Lemma optimised_no_matrix_evaluates : forall o ic ord sw y r r' (d : doc),
  load_rule o ic y = Ok r -> sw_matrix sw = false ->
  optimise o ord sw r = Ok r' ->
  (exists b, matches o r' d = Ok b) /\ (exists l, validate o r' = Ok l).
Proof.
  intros o ic ord sw y r r' d Hl Hm H. apply wf_det_evaluates.
  exact (optimised_no_matrix_wf _ _ _ _ _ _ _ Hl Hm H).
Qed.
