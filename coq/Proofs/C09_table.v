(* C09: the comparison table regenerated from src/solver.rs (Model/GeneratedCmp.v), read with
   Rust's first-match semantics (Model/CmpTable.v), is Solver.compare_values. *)
From Coq Require Import ZArith Bool List.
From TauModel Require Import Base Num Syntax Value Solver CmpTable GeneratedCmp.

Definition is_cmp (op : boolsym) : bool :=
  match op with BAnd | BOr => false | _ => true end.

Lemma cmp_table_is_compare_values : forall x op y,
  is_cmp op = true -> eval_arms cmp_arms x op y = Some (compare_values x op y).
Proof.
  intros x op y Hop.
  destruct op; try discriminate Hop; clear Hop;
    destruct x as [|a|a|a|a|a|a|a]; destruct y as [|b|b|b|b|b|b|b];
    cbn [eval_arms cmp_arms boolsym_eqb kind_matches guard_ok body_eval rel_eval z_rel f_rel
         compare_values andb];
    try reflexivity;
    try (destruct (a <=? i64_max)%Z; reflexivity);
    try (destruct (b <=? i64_max)%Z; reflexivity).
Qed.

(* and / or never reach the table: the final `_ => unreachable!()` *)
Lemma cmp_table_unreachable_arm : forall x op y,
  is_cmp op = false -> eval_arms cmp_arms x op y = None.
Proof.
  intros x op y Hop. destruct op; try discriminate Hop; reflexivity.
Qed.
