(* C06  Three-valued connectives obey their truth tables (all list lengths): proofs. *)
From TauModel Require Import Base Num Oracles Syntax Value Solver Rule.
From Coq Require Import Lia ZArith ZifyBool List Bool.
Import ListNotations.

(* ---- the helper definitions of Properties/C06.v, restated identically ---- *)
Definition lz (rs : list res3) : list lazy3 := map (fun r (_ : unit) => Ok r) rs.
Definition is_T (r : res3) : bool := match r with T => true | _ => false end.
Definition is_F (r : res3) : bool := match r with F => true | _ => false end.
Definition count_T (rs : list res3) : Z := Z.of_nat (length (filter is_T rs)).
Fixpoint first_non_true (rs : list res3) : res3 :=
  match rs with [] => T | T :: rest => first_non_true rest | x :: _ => x end.
Definition singles (ctx : list mtype) (ci : bool) (f : str) (cast : bool) : list expr :=
  map (fun m => ESearch (SAho [m] ci) f cast) ctx.

(* ================= helper lemmas ================= *)

Lemma lz_cons : forall r rs, lz (r :: rs) = (fun _ : unit => Ok r) :: lz rs.
Proof. reflexivity. Qed.

Lemma count_T_nil : count_T [] = 0%Z.
Proof. reflexivity. Qed.

Lemma count_T_cons : forall r rs,
  count_T (r :: rs) = ((if is_T r then 1 else 0) + count_T rs)%Z.
Proof.
  intros r rs. unfold count_T. cbn [filter].
  destruct (is_T r); cbn [length]; lia.
Qed.

Lemma count_T_nonneg : forall rs, (0 <= count_T rs)%Z.
Proof. intros rs. unfold count_T. lia. Qed.

(* ---- folds over already evaluated operands, general accumulators ---- *)

Lemma or_fold_gen : forall rs acc,
  or_fold acc (lz rs) =
  Ok (if existsb is_T rs then T else if existsb is_F rs then F else acc).
Proof.
  induction rs as [|r rs IH]; intros acc; [reflexivity|].
  rewrite lz_cons. cbn [or_fold bind].
  destruct r; cbn [existsb is_T is_F orb].
  - reflexivity.
  - rewrite IH. destruct (existsb is_T rs), (existsb is_F rs); reflexivity.
  - rewrite IH. reflexivity.
Qed.

Lemma of0_fold_gen : forall rs acc,
  of0_fold acc (lz rs) =
  Ok (if existsb is_T rs then F else if existsb is_F rs then T else acc).
Proof.
  induction rs as [|r rs IH]; intros acc; [reflexivity|].
  rewrite lz_cons. cbn [of0_fold bind].
  destruct r; cbn [existsb is_T is_F orb].
  - reflexivity.
  - rewrite IH. destruct (existsb is_T rs), (existsb is_F rs); reflexivity.
  - rewrite IH. reflexivity.
Qed.

Lemma ofn_fold_gen : forall rs c count acc,
  (count < c)%Z -> (acc = M \/ acc = F) ->
  ofn_fold c count acc (lz rs) =
  Ok (if (c <=? count + count_T rs)%Z then T
      else if res3_eqb acc M && forallb (fun r => res3_eqb r M) rs then M else F).
Proof.
  induction rs as [|r rs IH]; intros c count acc Hlt Hacc.
  - cbn [lz map ofn_fold forallb]. rewrite count_T_nil.
    destruct (Z.leb_spec c (count + 0)) as [Hle|Hgt]; [lia|].
    destruct Hacc as [-> | ->]; reflexivity.
  - rewrite lz_cons, count_T_cons. cbn [ofn_fold bind forallb].
    destruct r; cbn [is_T res3_eqb andb].
    + destruct (Z.leb_spec c (count + 1)) as [Hle|Hgt].
      * destruct (Z.leb_spec c (count + (1 + count_T rs))) as [Hle'|Hgt'];
          [reflexivity|].
        pose proof (count_T_nonneg rs). lia.
      * rewrite IH by (try lia; auto).
        replace (count + 1 + count_T rs)%Z with (count + (1 + count_T rs))%Z by lia.
        cbn [res3_eqb andb]. rewrite andb_false_r. reflexivity.
    + rewrite IH by (try lia; auto).
      rewrite Z.add_0_l. cbn [res3_eqb andb]. rewrite andb_false_r. reflexivity.
    + rewrite IH by (try lia; auto).
      rewrite Z.add_0_l. reflexivity.
Qed.

Lemma first_non_true_T_iff : forall rs,
  first_non_true rs = T <-> Forall (fun r => r = T) rs.
Proof.
  induction rs as [|r rs IH]; cbn [first_non_true].
  - split; intros _; [constructor|reflexivity].
  - destruct r.
    + rewrite IH. split; intros H.
      * constructor; [reflexivity|exact H].
      * inversion H; assumption.
    + split; intros H; [discriminate|]. inversion H; assumption.
    + split; intros H; [discriminate|]. inversion H; assumption.
Qed.

(* ---- pointwise extensionality of the folds ---- *)

Section FoldExt.
Context {A : Type} (f g : A -> lazy3).
Hypothesis Hfg : forall x, f x tt = g x tt.

Lemma and_fold_map_ext : forall l, and_fold (map f l) = and_fold (map g l).
Proof.
  induction l as [|x l IH]; [reflexivity|].
  cbn [map and_fold]. rewrite Hfg, IH. reflexivity.
Qed.

Lemma or_fold_map_ext : forall l acc, or_fold acc (map f l) = or_fold acc (map g l).
Proof.
  induction l as [|x l IH]; intros acc; [reflexivity|].
  cbn [map or_fold]. rewrite Hfg.
  destruct (g x tt) as [r| |]; cbn [bind]; try reflexivity.
  destruct r; try reflexivity; apply IH.
Qed.

Lemma of0_fold_map_ext : forall l acc, of0_fold acc (map f l) = of0_fold acc (map g l).
Proof.
  induction l as [|x l IH]; intros acc; [reflexivity|].
  cbn [map of0_fold]. rewrite Hfg.
  destruct (g x tt) as [r| |]; cbn [bind]; try reflexivity.
  destruct r; try reflexivity; apply IH.
Qed.

Lemma ofn_fold_map_ext : forall l c count acc,
  ofn_fold c count acc (map f l) = ofn_fold c count acc (map g l).
Proof.
  induction l as [|x l IH]; intros c count acc; [reflexivity|].
  cbn [map ofn_fold]. rewrite Hfg.
  destruct (g x tt) as [r| |]; cbn [bind]; try reflexivity.
  destruct r; try apply IH.
  destruct (c <=? count + 1)%Z; [reflexivity|apply IH].
Qed.

Lemma of_fold_map_ext : forall l c, of_fold c (map f l) = of_fold c (map g l).
Proof.
  intros l c. unfold of_fold.
  destruct (c =? 0)%Z; [apply of0_fold_map_ext|apply ofn_fold_map_ext].
Qed.
End FoldExt.

(* ---- the one-needle members of a batched search ---- *)

Definition bt (b : bool) : res3 := if b then T else F.

Lemma lz_map : forall {A} (k : A -> res3) (l : list A),
  map (fun x (_ : unit) => Ok (k x)) l = lz (map k l).
Proof. intros A k l. unfold lz. rewrite map_map. reflexivity. Qed.

Lemma single_str : forall o ids body ci f cast d h m,
  d f = Ok (Some (VStr h)) ->
  solve o ids body (ESearch (SAho [m] ci) f cast) d = Ok (bt (mtype_holds ci m h)).
Proof.
  intros o ids body ci f cast d h m Hd.
  cbn [solve]. unfold field_search. rewrite Hd.
  cbn [bind search_value res_of_search search existsb].
  rewrite orb_false_r. destruct (mtype_holds ci m h); reflexivity.
Qed.

Lemma single_missing : forall o ids body ci f cast d m,
  d f = Ok None ->
  solve o ids body (ESearch (SAho [m] ci) f cast) d = Ok M.
Proof.
  intros o ids body ci f cast d m Hd.
  cbn [solve]. unfold field_search. rewrite Hd. reflexivity.
Qed.

Lemma singles_str : forall o ids body ctx ci f cast d h,
  d f = Ok (Some (VStr h)) ->
  (and_fold (map (fun x (_ : unit) => solve o ids body x d) (singles ctx ci f cast)) =
   and_fold (lz (map (fun m => bt (mtype_holds ci m h)) ctx))) /\
  (forall c,
   of_fold c (map (fun x (_ : unit) => solve o ids body x d) (singles ctx ci f cast)) =
   of_fold c (lz (map (fun m => bt (mtype_holds ci m h)) ctx))).
Proof.
  intros o ids body ctx ci f cast d h Hd.
  unfold singles. rewrite map_map, <- lz_map.
  split; [|intros c].
  - apply and_fold_map_ext. intros m. apply single_str; exact Hd.
  - apply of_fold_map_ext. intros m. apply single_str; exact Hd.
Qed.

Lemma singles_missing : forall o ids body ctx ci f cast d,
  d f = Ok None ->
  (and_fold (map (fun x (_ : unit) => solve o ids body x d) (singles ctx ci f cast)) =
   and_fold (lz (map (fun _ => M) ctx))) /\
  (forall c,
   of_fold c (map (fun x (_ : unit) => solve o ids body x d) (singles ctx ci f cast)) =
   of_fold c (lz (map (fun _ => M) ctx))).
Proof.
  intros o ids body ctx ci f cast d Hd.
  unfold singles. rewrite map_map, <- lz_map.
  split; [|intros c].
  - apply and_fold_map_ext. intros m. apply single_missing; exact Hd.
  - apply of_fold_map_ext. intros m. apply single_missing; exact Hd.
Qed.

(* counting facts about the boolean members *)
Section Members.
Context {A : Type} (p : A -> bool).

Lemma count_T_bt : forall l, count_T (map (fun m => bt (p m)) l) = count_true p l.
Proof.
  induction l as [|a l IH]; [reflexivity|].
  cbn [map]. rewrite count_T_cons, IH. unfold count_true. cbn [filter].
  destruct (p a); cbn [bt is_T length]; lia.
Qed.

Lemma count_true_le : forall l, (count_true p l <= len_Z l)%Z.
Proof.
  intros l. unfold count_true, len_Z.
  induction l as [|a l IH]; [cbn [filter length]; lia|].
  cbn [filter]. destruct (p a); cbn [length]; lia.
Qed.

Lemma count_true_full : forall l, (count_true p l =? len_Z l)%Z = forallb p l.
Proof.
  induction l as [|a l IH]; [reflexivity|].
  cbn [forallb]. rewrite <- IH.
  pose proof (count_true_le l) as Hle.
  unfold count_true, len_Z in *. cbn [filter length].
  destruct (p a); cbn [length andb]; lia.
Qed.

Lemma first_non_true_bt : forall l,
  first_non_true (map (fun m => bt (p m)) l) = bt (forallb p l).
Proof.
  induction l as [|a l IH]; [reflexivity|].
  cbn [map first_non_true forallb].
  destruct (p a); cbn [bt andb]; [exact IH|reflexivity].
Qed.

Lemma existsb_T_bt : forall l, existsb is_T (map (fun m => bt (p m)) l) = existsb p l.
Proof.
  induction l as [|a l IH]; [reflexivity|].
  cbn [map existsb]. rewrite IH. destruct (p a); reflexivity.
Qed.

Lemma existsb_F_bt : forall l, l <> [] -> existsb p l = false ->
  existsb is_F (map (fun m => bt (p m)) l) = true.
Proof.
  intros [|a l] Hne Hex; [congruence|].
  cbn [existsb] in Hex. apply orb_false_iff in Hex. destruct Hex as [Ha _].
  cbn [map existsb]. rewrite Ha. reflexivity.
Qed.

Lemma forallb_M_bt : forall l, l <> [] ->
  forallb (fun r => res3_eqb r M) (map (fun m => bt (p m)) l) = false.
Proof.
  intros [|a l] Hne; [congruence|].
  cbn [map forallb]. destruct (p a); reflexivity.
Qed.
End Members.

(* all members missing *)
Lemma and_fold_allM : forall {A} (l : list A), l <> [] ->
  and_fold (lz (map (fun _ => M) l)) = Ok M.
Proof. intros A [|a l] Hne; [congruence|reflexivity]. Qed.

Lemma of0_fold_allM : forall {A} (l : list A),
  of0_fold M (lz (map (fun _ => M) l)) = Ok M.
Proof. intros A l. induction l as [|a l IH]; [reflexivity|exact IH]. Qed.

Lemma ofn_fold_allM : forall {A} (l : list A) c count,
  ofn_fold c count M (lz (map (fun _ => M) l)) = Ok M.
Proof. intros A l c count. induction l as [|a l IH]; [reflexivity|exact IH]. Qed.

(* ================= the theorems of Properties/C06.v ================= *)

Lemma or_group_spec : forall rs,
  or_fold M (lz rs) = Ok (if existsb is_T rs then T else if existsb is_F rs then F else M).
Proof. intros rs. apply or_fold_gen. Qed.

Lemma and_group_spec : forall rs, and_fold (lz rs) = Ok (first_non_true rs).
Proof.
  induction rs as [|r rs IH]; [reflexivity|].
  rewrite lz_cons. cbn [and_fold bind first_non_true].
  destruct r; [exact IH|reflexivity|reflexivity].
Qed.

Lemma and_group_true_iff : forall rs, and_fold (lz rs) = Ok T <-> Forall (fun r => r = T) rs.
Proof.
  intros rs. rewrite and_group_spec, <- first_non_true_T_iff.
  split; intros H; [injection H; auto|rewrite H; reflexivity].
Qed.

Lemma binary_eq_group : forall a b,
  and2 (fun _ => Ok a) (fun _ => Ok b) = and_fold (lz [a; b]) /\
  or2 (fun _ => Ok a) (fun _ => Ok b) = or_fold M (lz [a; b]).
Proof. intros a b. destruct a, b; split; reflexivity. Qed.

Lemma negate_spec : neg3 T = F /\ neg3 F = T /\ neg3 M = F.
Proof. repeat split. Qed.

Lemma negate_solve : forall o ids body e d,
  solve o ids body (ENegate e) d = bind (solve o ids body e d) (fun r => Ok (neg3 r)).
Proof. intros. reflexivity. Qed.

Lemma all_spec : forall o ids body op g d,
  solve o ids body (EMatch MAll (EGroup op g)) d = solve o ids body (EGroup BAnd g) d.
Proof. intros. reflexivity. Qed.

Lemma of_pos_spec : forall c rs, (1 <= c)%Z ->
  of_fold c (lz rs) =
  Ok (if (c <=? count_T rs)%Z then T
      else if forallb (fun r => res3_eqb r M) rs then M else F).
Proof.
  intros c rs Hc. unfold of_fold.
  destruct (Z.eqb_spec c 0) as [Heq|Hne]; [lia|].
  rewrite ofn_fold_gen by (try lia; auto).
  rewrite Z.add_0_l. reflexivity.
Qed.

Lemma of_zero_spec : forall rs,
  of_fold 0 (lz rs) = Ok (if existsb is_T rs then F else if existsb is_F rs then T else M).
Proof. intros rs. unfold of_fold. cbn [Z.eqb]. apply of0_fold_gen. Qed.

Lemma group_solve : forall o ids body g d,
  solve o ids body (EGroup BAnd g) d = and_fold (map (fun x (_ : unit) => solve o ids body x d) g) /\
  solve o ids body (EGroup BOr g) d = or_fold M (map (fun x (_ : unit) => solve o ids body x d) g) /\
  (forall c op, solve o ids body (EMatch (MOf c) (EGroup op g)) d =
                of_fold c (map (fun x (_ : unit) => solve o ids body x d) g)).
Proof. intros. repeat split. Qed.

Lemma forms_agree_identifier : forall o ids i op g k d,
  lookup i ids = Some (EGroup op g) ->
  solve_cond o ids (EMatch k (EIdent i)) d = solve_body o (EMatch k (EGroup op g)) d.
Proof.
  intros o ids i op g k d Hl.
  unfold solve_cond. destruct k as [|c]; cbn [solve]; rewrite Hl; reflexivity.
Qed.

Lemma forms_agree_batched_all : forall o ids body ctx ci f cast d h,
  d f = Ok (Some (VStr h)) ->
  solve o ids body (EMatch MAll (ESearch (SAho ctx ci) f cast)) d =
  solve o ids body (EMatch MAll (EGroup BOr (singles ctx ci f cast))) d.
Proof.
  intros o ids body ctx ci f cast d h Hd.
  cbn [solve].
  destruct (singles_str o ids body ctx ci f cast d h Hd) as [Hand _].
  rewrite Hand, and_group_spec, first_non_true_bt.
  unfold field_search. rewrite Hd. cbn [bind search_value res_of_search].
  unfold slow_aho. rewrite count_true_full.
  destruct (forallb _ ctx); reflexivity.
Qed.

Lemma forms_agree_batched_of : forall o ids body ctx ci f cast d h c,
  ctx <> [] -> (0 <= c)%Z ->
  d f = Ok (Some (VStr h)) ->
  solve o ids body (EMatch (MOf c) (ESearch (SAho ctx ci) f cast)) d =
  solve o ids body (EMatch (MOf c) (EGroup BOr (singles ctx ci f cast))) d.
Proof.
  intros o ids body ctx ci f cast d h c Hne Hc Hd.
  cbn [solve].
  destruct (singles_str o ids body ctx ci f cast d h Hd) as [_ Hof].
  rewrite Hof.
  destruct (Z.eqb_spec c 0) as [Heq|Hnz].
  - subst c. rewrite of_zero_spec, existsb_T_bt.
    unfold field_search. rewrite Hd. cbn [bind search_value res_of_search search].
    destruct (existsb (fun m => mtype_holds ci m h) ctx) eqn:Hex; [reflexivity|].
    rewrite (existsb_F_bt _ ctx Hne Hex). reflexivity.
  - rewrite of_pos_spec by lia.
    rewrite count_T_bt, (forallb_M_bt _ ctx Hne).
    unfold field_search. rewrite Hd. cbn [bind search_value res_of_search].
    unfold slow_aho.
    destruct (c <=? count_true (fun m => mtype_holds ci m h) ctx)%Z; reflexivity.
Qed.

Lemma forms_agree_batched_missing : forall o ids body ctx ci f cast d k,
  ctx <> [] ->
  d f = Ok None ->
  solve o ids body (EMatch k (ESearch (SAho ctx ci) f cast)) d = Ok M /\
  solve o ids body (EMatch k (EGroup BOr (singles ctx ci f cast))) d = Ok M.
Proof.
  intros o ids body ctx ci f cast d k Hne Hd.
  destruct (singles_missing o ids body ctx ci f cast d Hd) as [Hand Hof].
  destruct k as [|c]; cbn [solve].
  - split.
    + unfold field_search. rewrite Hd. reflexivity.
    + rewrite Hand. apply and_fold_allM; exact Hne.
  - split.
    + unfold field_search. rewrite Hd. cbn [bind].
      destruct (c =? 0)%Z; reflexivity.
    + rewrite Hof. unfold of_fold.
      destruct (c =? 0)%Z; [apply of0_fold_allM|apply ofn_fold_allM].
Qed.

Lemma matches_only_true : forall o r d,
  matches o r d = Ok true <-> solve_rule3 o (r_det r) (pure_doc d) = Ok T.
Proof.
  intros o r d. unfold matches.
  destruct (solve_rule3 o (r_det r) (pure_doc d)) as [x|k|s]; cbn [bind].
  - destruct x; split; intros H; try discriminate; reflexivity.
  - split; intros H; discriminate.
  - split; intros H; discriminate.
Qed.

Lemma of_example :
  of_fold 2 (lz [T; M; F; T]) = Ok T /\ of_fold 3 (lz [T; M; F; T]) = Ok F /\
  of_fold 1 (lz [M; M]) = Ok M /\ of_fold 0 (lz [M; F]) = Ok T.
Proof. repeat split. Qed.
