(* C01 (eleventh file): the matrix pass WITHOUT coalesce on conditions that hold quantifiers.

   Properties/C01_nomatch.v: Scope5.c01_scope_quant_all_nm is Scope2.c01_scope_quant_all_noq
   without the conjunct `sw_coalesce sw || no_match (fst pm)` of Scope2.matrix_input_ok3.  All
   three statements are proved as stated.

   Method.  With coalesce off the condition handed to matrix is what shake / rewrite made of the
   loaded condition, and a loaded condition has Spec.cond_shape: its quantifiers are all(A) /
   of(A, n) over IDENTIFIERS, and it holds no nested block.  This shape (qid below) is kept by
   shake_0, shake_1 and rewrite (section 1, as C01_matrix.shake0_allq / shake1_allq / rewrite_allq).
   On `EMatch k (EIdent A)` the matrix pass is the identity, and the solver evaluates it by looking
   the body of A up and counting the members of its top-level group (Solver.solve).  Since fix
   D15/D20 the body of A is optimised entry by entry (Optimiser.entries): the group stays and
   every entry is related to the entry it was made from (exactly in the presence of a negation,
   in truth otherwise) -- C01_d15.BR; a body that is not a group keeps its head (a search stays
   as it is, the other heads stay), so all()/of() take the same arm of match_all / match_of.
   C01_d15.all_ident_rel / of_ident_rel turn BR into the relation of the two quantifier values.
   Section 2 redoes the induction C01_matrix_quant.matrix_sem_q with this quantifier case in place
   of the one that `no_match` excluded; section 3 is the matrix stage, section 4 the whole-rule
   statements.  With coalesce ON there is no identifier table and the old theorem
   (C01_matrix_quant.matrix_stage_verdict_q, left disjunct) applies unchanged. *)
From Coq Require Import Permutation Lia ZArith ZifyBool List Bool.
From TauModel Require Import Base Num Oracles Syntax Generated Token Pratt Ident Value Yaml ParseMap Solver Rule Keys Optimiser Known.
From TauModel Require Import Scope.
From TauModel Require Scope2 Scope5 Order.
From TauProofs Require C01 C03 C01_flat C01_shake1 C01_loaded C01_nested C01_scope2 C01_d15 C12_order.
From TauProofs Require Import C03_opt C03_matrix C01_matrix C01_matrix_nested C01_matrix_quant.
Import ListNotations.

(* ====================================================================================== *)
(* 1. the shape of a condition whose identifiers are not inlined                          *)
(* ====================================================================================== *)
(* every quantifier is over an identifier; no nested block *)
Fixpoint qid (e : expr) : bool :=
  match e with
  | EGroup _ l => forallb qid l
  | EBexp l s r => if is_and_or s then qid l && qid r else true
  | EMatch _ e' => match e' with EIdent _ => true | _ => false end
  | ENegate e' => qid e'
  | ENested _ _ => false
  | _ => true
  end.

Lemma cond_shape_qid : forall e, Spec.cond_shape e = true -> qid e = true.
Proof.
  induction e as [ s g | l IHl op r IHr | bb | f m | f | x | i | z | k e IHe | cols rows
                 | e IHe | f e IHe | | s f cst ]; intros Hs; try discriminate Hs; try reflexivity.
  - cbn [Spec.cond_shape] in Hs. cbn [qid].
    destruct op; try reflexivity; cbn [is_and_or];
      apply andb_prop in Hs; destruct Hs as [H1 H2]; rewrite (IHl H1), (IHr H2); reflexivity.
  - cbn [Spec.cond_shape] in Hs. destruct e; try discriminate Hs. reflexivity.
  - cbn [Spec.cond_shape] in Hs. cbn [qid]. exact (IHe Hs).
Qed.

Lemma leaf_nn x : leaf x = true -> C01.no_nested x = true.
Proof. destruct x; intros H; try discriminate H; reflexivity. Qed.

Lemma qid_nn K : forall e, gk K e = true -> qid e = true -> C01.no_nested e = true.
Proof.
  induction e as [e IH] using C01.size_ind. intros Hg H.
  dex e; cbn [gk] in Hg; try discriminate Hg; cbn [qid] in H; cbn [C01.no_nested]; try reflexivity;
    try discriminate H.
  - apply andb_prop in Hg. destruct Hg as [_ Hl]. apply C01.forallb_intro. intros x Hx.
    exact (IH x (C01.size_member s g x Hx) (C01.forallb_In _ _ _ Hl Hx) (C01.forallb_In _ _ _ H Hx)).
  - destruct (is_and_or op).
    + apply andb_prop in Hg. destruct Hg as [G1 G2]. apply andb_prop in H. destruct H as [H1 H2].
      rewrite (IH l1 (size_bl l1 op r1) G1 H1), (IH r1 (size_br l1 op r1) G2 H2). reflexivity.
    + apply andb_prop in Hg. destruct Hg as [G1 G2]. rewrite (leaf_nn _ G1), (leaf_nn _ G2). reflexivity.
  - destruct e; try discriminate H. reflexivity.
  - exact (IH e (size_ng e) Hg H).
Qed.

Lemma srch_qid y : C01_shake1.srch y = true -> qid y = true.
Proof. destruct y; intros H; try discriminate H; reflexivity. Qed.

Lemma qid_collapse s L : forallb qid L = true ->
  qid (match L with [x] => x | _ => EGroup s L end) = true.
Proof.
  intros H. destruct L as [|x [|y L]]; try exact H.
  cbn [forallb] in H. rewrite andb_true_r in H. exact H.
Qed.

Lemma rewrite_qid o K : forall e, gk K e = true -> qid e = true -> qid (rewrite o e) = true.
Proof.
  induction e as [e IH] using C01.size_ind. intros Hg Ha.
  dex e; cbn [gk] in Hg; try discriminate Hg; cbn [rewrite qid] in *; try reflexivity.
  - apply andb_prop in Hg. destruct Hg as [_ Hl].
    apply forallb_forall. intros y Hy. apply in_map_iff in Hy. destruct Hy as (x & <- & Hx).
    exact (IH x (C01.size_member s g x Hx) (C01.forallb_In _ _ _ Hl Hx) (C01.forallb_In _ _ _ Ha Hx)).
  - destruct (is_and_or op); [|reflexivity].
    apply andb_prop in Hg. destruct Hg as [G1 G2]. apply andb_prop in Ha. destruct Ha as [A1 A2].
    rewrite (IH l1 (size_bl l1 op r1) G1 A1), (IH r1 (size_br l1 op r1) G2 A2). reflexivity.
  - destruct e; try discriminate Ha. reflexivity.
  - exact (IH e (size_ng e) Hg Ha).
  - discriminate Ha.
Qed.

Lemma flat_qid s l' r' L : is_and_or s = true -> qid l' = true -> qid r' = true ->
  C01.flat s l' r' = Some L -> forallb qid L = true.
Proof.
  intros Hs Hl Hr Hf. unfold C01.flat in Hf.
  destruct (C01.grp s l') as [a|] eqn:G1; destruct (C01.grp s r') as [b|] eqn:G2.
  - injection Hf as <-. apply C01.grp_some in G1. apply C01.grp_some in G2. subst l' r'.
    cbn [qid] in Hl, Hr. rewrite forallb_app, Hl, Hr. reflexivity.
  - injection Hf as <-. apply C01.grp_some in G1. subst l'.
    cbn [qid] in Hl. rewrite forallb_app, Hl. cbn [forallb]. rewrite Hr. reflexivity.
  - injection Hf as <-. apply C01.grp_some in G2. subst r'.
    cbn [qid] in Hr. cbn [forallb]. rewrite Hl, Hr. reflexivity.
  - destruct (C01.bx s l') as [[x y]|] eqn:B1.
    + injection Hf as <-. apply C01.bx_some in B1. subst l'.
      cbn [qid] in Hl. rewrite Hs in Hl. apply andb_prop in Hl. destruct Hl as [Hx Hy].
      cbn [forallb]. rewrite Hx, Hy, Hr. reflexivity.
    + destruct (C01.bx s r') as [[y z]|] eqn:B2; [|discriminate Hf].
      injection Hf as <-. apply C01.bx_some in B2. subst r'.
      cbn [qid] in Hr. rewrite Hs in Hr. apply andb_prop in Hr. destruct Hr as [Hy Hz].
      cbn [forallb]. rewrite Hl, Hy, Hz. reflexivity.
Qed.

Lemma shake0_qid K : forall fuel e e', gk K e = true -> qid e = true ->
  shake0 fuel e = Ok e' -> qid e' = true.
Proof.
  induction fuel as [|fu IH]; intros e e' Hg Ha H.
  { inversion H; subst. exact Ha. }
  dex e; cbn [gk] in Hg; try discriminate Hg; try (inversion H; subst; exact Ha).
  - apply andb_prop in Hg. destruct Hg as [Hs Hl]. cbn [shake0] in H. rewrite Hs in H. cbn [negb] in H.
    apply C03.bind_ok_inv in H. destruct H as (l' & Hm & H). cbn [qid] in Ha.
    assert (Hl' : forallb qid l' = true).
    { apply C01.mapM_Forall2 in Hm. apply C01.forallb_intro. intros y Hy.
      destruct (Forall2_In_r _ _ _ y Hm Hy) as (x & Hx & Hxy).
      exact (IH x y (C01.forallb_In _ _ _ Hl Hx) (C01.forallb_In _ _ _ Ha Hx) Hxy). }
    destruct l' as [|x [|y l'']]; inversion H; subst; try exact Hl'.
    cbn [forallb] in Hl'. rewrite andb_true_r in Hl'. exact Hl'.
  - cbn [qid] in Ha. destruct (is_and_or op) eqn:Eop.
    + apply andb_prop in Hg. destruct Hg as [G1 G2]. apply andb_prop in Ha. destruct Ha as [A1 A2].
      rewrite (C01.shake0_bexp_andor fu l1 op r1 Eop) in H.
      destruct (shake0_good K fu l1 G1) as (l' & El & Gl). destruct (shake0_good K fu r1 G2) as (r' & Er & Gr).
      rewrite El, Er in H. cbn [bind] in H.
      pose proof (IH l1 l' G1 A1 El) as Al. pose proof (IH r1 r' G2 A2 Er) as Ar.
      destruct (C01.flat op l' r') as [L|] eqn:Ef.
      * apply (IH (EGroup op L) e'); [| |exact H].
        -- cbn [gk]. rewrite Eop. cbn [andb]. exact (flat_good K _ _ _ _ Eop Gl Gr Ef).
        -- cbn [qid]. exact (flat_qid _ _ _ _ Eop Al Ar Ef).
      * inversion H; subst. cbn [qid]. rewrite Eop, Al, Ar. reflexivity.
    + apply andb_prop in Hg. destruct Hg as [G1 G2].
      rewrite (C01.shake0_bexp_cmp fu l1 op r1 Eop) in H.
      rewrite (C01.shake0_leaf fu l1 G1), (C01.shake0_leaf fu r1 G2) in H. cbn [bind] in H.
      inversion H; subst. cbn [qid]. rewrite Eop. reflexivity.
  - cbn [qid] in Ha. destruct e; try discriminate Ha.
    cbn [shake0] in H. destruct fu; cbn [shake0 bind] in H; inversion H; subst; reflexivity.
  - cbn [shake0] in H. apply C03.bind_ok_inv in H. destruct H as (x & Hx & H). cbn [qid] in Ha.
    pose proof (IH e x Hg Ha Hx) as Ax.
    destruct (shake0_good K fu e Hg) as (x' & Ex & Gx). rewrite Hx in Ex. inversion Ex; subst x'.
    destruct x; try (inversion H; subst; exact Ax).
    cbn [gk] in Gx. cbn [qid] in Ax. exact (IH x e' Gx Ax H).
  - discriminate Ha.
Qed.

Lemma shake1_ident ord fuel i : shake1 ord fuel (EIdent i) = EIdent i.
Proof. destruct fuel; reflexivity. Qed.

Lemma shake1_qid ord : forall fuel e, C01.no_nested e = true -> C01.cmp_leaves e = true ->
  qid e = true -> qid (shake1 ord fuel e) = true.
Proof.
  induction fuel as [|fu IH]; intros e Hnn Hcl Ha; [exact Ha|].
  destruct e as [s l|l s r|b|f m|f|z|i|z|k e|cols rows|e|f e| |s f c];
    try (cbn [shake1]; exact Ha).
  - (* group *)
    cbn [C01.no_nested C01.cmp_leaves qid] in Hnn, Hcl, Ha.
    set (L := map (shake1 ord fu) l).
    assert (HL : forall y, In y L -> C01.no_nested y = true /\ C01.cmp_leaves y = true /\ qid y = true).
    { intros y Hy. apply in_map_iff in Hy. destruct Hy as (x & <- & Hx).
      pose proof (C01.forallb_In _ _ _ Hnn Hx) as N. pose proof (C01.forallb_In _ _ _ Hcl Hx) as C.
      destruct (C01_shake1.shake1_keeps3 ord fu x N) as (K1 & _ & K3).
      split; [exact K1|]. split; [exact (K3 C)|]. exact (IH x N C (C01.forallb_In _ _ _ Ha Hx)). }
    assert (HLa : forallb qid L = true) by (apply C01.forallb_intro; intros y Hy; apply (HL y Hy)).
    destruct s; try (cbn [shake1]; fold L; exact HLa).
    + rewrite C01_shake1.shake1_and_eq by (intros y Hy; apply (HL y Hy)). fold L. cbv zeta.
      apply qid_collapse. exact HLa.
    + rewrite C01_shake1.shake1_or_eq by (intros y Hy; apply (HL y Hy)). fold L. cbv zeta.
      set (Sc := C01_shake1.or_scratch ord L).
      assert (HSc : forall y, In y Sc -> C01.no_nested y = true /\ C01.cmp_leaves y = true /\ qid y = true).
      { intros y Hy. destruct (C01_shake1.or_scratch_members ord L y Hy) as [Hs|Hin]; [|exact (HL y Hin)].
        destruct (C01_shake1.srch_shape y Hs) as (A & _ & C). split; [exact A|]. split; [exact C | exact (srch_qid y Hs)]. }
      assert (HSa : forallb qid Sc = true) by (apply C01.forallb_intro; intros y Hy; apply (HSc y Hy)).
      destruct (negb (length Sc =? length l)%nat).
      * apply IH; cbn [C01.no_nested C01.cmp_leaves qid]; try exact HSa;
          apply C01.forallb_intro; intros y Hy; apply (HSc y Hy).
      * apply qid_collapse. exact HSa.
  - (* bexp *)
    cbn [shake1]. cbn [C01.no_nested C01.cmp_leaves qid] in *.
    apply andb_prop in Hnn. destruct Hnn as [N1 N2].
    destruct (is_and_or s); [|reflexivity].
    apply andb_prop in Hcl. destruct Hcl as [C1 C2]. apply andb_prop in Ha. destruct Ha as [A1 A2].
    rewrite (IH l N1 C1 A1), (IH r N2 C2 A2). reflexivity.
  - (* match *)
    cbn [qid] in Ha. destruct e; try discriminate Ha.
    cbn [shake1]. rewrite shake1_ident. reflexivity.
  - (* negate *)
    cbn [shake1]. cbn [C01.no_nested C01.cmp_leaves qid] in *. exact (IH e Hnn Hcl Ha).
Qed.

Lemma shake_qid ord K e e' : gk K e = true -> qid e = true -> shake ord e = Ok e' -> qid e' = true.
Proof.
  intros Hg Ha H. unfold shake in H. apply C03.bind_ok_inv in H. destruct H as (e0 & H0 & H).
  inversion H; subst e'.
  destruct (shake0_good K (shake_fuel e) e Hg) as (e0' & E0 & G0). rewrite H0 in E0. inversion E0; subst e0'.
  pose proof (shake0_qid K _ _ _ Hg Ha H0) as A0.
  apply shake1_qid; [exact (qid_nn K e0 G0 A0) | exact (gk_cl K e0 G0) | exact A0].
Qed.

(* the condition handed to matrix when the identifiers are not inlined *)
Lemma stage_qid o ord sw dt s3 :
  good_det dt -> sw_coalesce sw = false -> qid (d_expr dt) = true ->
  no_matrix_stage o ord sw dt = Ok s3 -> qid (d_expr s3) = true.
Proof.
  intros [Gc Gi] Ec Ha H. unfold no_matrix_stage in H. rewrite Ec in H. cbn [bind] in H.
  apply C03.bind_ok_inv in H. destruct H as (s2 & H2 & H). inversion H; subst s3; clear H.
  set (K := keys_of (d_ids dt)) in *.
  assert (P2 : gk K (d_expr s2) = true /\ qid (d_expr s2) = true).
  { destruct (sw_shake sw) eqn:Es.
    - apply C03.bind_ok_inv in H2. destruct H2 as (e2 & He2 & H2).
      apply C03.bind_ok_inv in H2. destruct H2 as (ids2 & _ & H2). inversion H2; subst s2. cbn [d_expr].
      destruct (shake_good ord K _ Gc) as (e2' & E & G). rewrite He2 in E. inversion E; subst e2'.
      split; [exact G|]. exact (shake_qid ord K _ _ Gc Ha He2).
    - inversion H2; subst s2. split; assumption. }
  destruct P2 as (G2 & A2).
  destruct (sw_rewrite sw); cbn [d_expr]; [apply (rewrite_qid o K); assumption | exact A2].
Qed.

(* ====================================================================================== *)
(* 2. the pass on such a condition, semantically, at every document                       *)
(* ====================================================================================== *)
(* C01_matrix_quant.matrix_sem_q with the quantifier case for identifiers: the pass leaves
   `EMatch k (EIdent i)` as it is, and the two tables give related values (HQ) *)
Section MainNM.
Variable o : oracles.
Variable ord : hord.
Hypothesis Hord : forall l, Permutation (ord l) l.
Variables ids1 ids2 : list (str * expr).
Variable K : str -> bool.

Let S1 (d : doc) (e : expr) : out res3 := Sd o ids1 (solve_body o) d e.
Let S2 (d : doc) (e : expr) : out res3 := Sd o ids2 (solve_body o) d e.
Let V1 (d : doc) (e : expr) : res3 := val o ids1 (solve_body o) d e.
Let V2 (d : doc) (e : expr) : res3 := val o ids2 (solve_body o) d e.

Hypothesis Hok1 : forall (d : doc) e, gm K e = true -> C03.okr (S1 d e).
Hypothesis Hok2 : forall (d : doc) e, gm K e = true -> C03.okr (S2 d e).
(* identifiers: related as the bodies are *)
Variable bn : bool.
Hypothesis Hid : forall (d : doc) i, K i = true -> Rn bn (V2 d (EIdent i)) (V1 d (EIdent i)).
(* quantifiers over identifiers: related as the ENTRIES of the bodies are (of(i, 0) only when the
   bodies are related exactly) *)
Hypothesis HQ : forall (d : doc) i k, K i = true ->
  (bn = true \/ no_neg (EMatch k (EIdent i)) = true) ->
  Rn bn (V2 d (EMatch k (EIdent i))) (V1 d (EMatch k (EIdent i))).

Lemma matrix_sem_nm : forall e neg F e' (d : doc),
  gk K e = true -> cmp_reads e = true ->
  exists_sub (d17_here ord) neg e = false ->
  (bn = true \/ (neg = false /\ no_neg e = true)) ->
  qid e = true ->
  matrix ord F e = Ok e' ->
  Rn neg (V2 d e') (V1 d e).
Proof.
  induction e as [e IH] using C01.size_ind. intros neg F e' d Hg Hcr H17 Hpn Hq H.
  dex e; cbn [gk] in Hg; try discriminate Hg.
  - (* group *)
    apply andb_prop in Hg. destruct Hg as [Hs Hl].
    cbn [cmp_reads exists_sub qid] in Hcr, H17, Hq.
    apply orb_false_iff in H17. destruct H17 as [Hh17 Hs17].
    pose proof (d18_here_never ord neg (EGroup s g)) as Hh18.
    assert (Hmem : forall x y, In x g -> matrix ord F x = Ok y ->
              gm K y = true /\ cr2 y = true /\ Rn neg (V2 d y) (V1 d x)).
    { intros x y Hx Hy.
      pose proof (C01.forallb_In _ _ _ Hl Hx) as Gx.
      split; [exact (matrix_gm' ord K x neg Gx (d18_sub_never ord neg x) F y Hy)|].
      split; [exact (matrix_cr2 ord K x F y Gx (C01.forallb_In _ _ _ Hcr Hx) Hy)|].
      apply (IH x (C01.size_member s g x Hx) neg F y d Gx (C01.forallb_In _ _ _ Hcr Hx)
                (C01.existsb_false_In _ _ _ Hs17 Hx)); [|exact (C01.forallb_In _ _ _ Hq Hx)|exact Hy].
      destruct Hpn as [Hb|[Hn Hp]]; [left; exact Hb|right]. split; [exact Hn|].
      cbn [no_neg] in Hp. exact (C01.forallb_In _ _ _ Hp Hx). }
    assert (Hgl : forallb (gm K) g = true).
    { apply C01.forallb_intro. intros x Hx. exact (proj1 (gk_gm K x (C01.forallb_In _ _ _ Hl Hx))). }
    assert (Hsc : forall scratch, mapM (fun x => matrix ord F x) g = Ok scratch ->
              forallb (gm K) scratch = true /\ (forall y, In y scratch -> cr2 y = true) /\
              Forall2 (Rn neg) (map (V2 d) scratch) (map (V1 d) g)).
    { intros scratch Hm. apply C01.mapM_Forall2 in Hm. split; [|split].
      - apply C01.forallb_intro. intros y Hy. destruct (Forall2_In_r _ _ _ y Hm Hy) as (x & Hx & Hxy).
        exact (proj1 (Hmem x y Hx Hxy)).
      - intros y Hy. destruct (Forall2_In_r _ _ _ y Hm Hy) as (x & Hx & Hxy).
        exact (proj1 (proj2 (Hmem x y Hx Hxy))).
      - apply Forall2_map2. apply (F2_rel _ _ _ _ Hm). intros x y Hx Hxy.
        exact (proj2 (proj2 (Hmem x y Hx Hxy))). }
    destruct s; try discriminate Hs.
    + (* and *)
      cbn [matrix] in H. apply C03.bind_ok_inv in H. destruct H as (l' & Hm & H). inversion H; subst e'.
      destruct (Hsc l' Hm) as (G' & _ & HR).
      unfold V1, V2. rewrite (val_and o ids1 _ d K (Hok1 d) g Hgl), (val_and o ids2 _ d K (Hok2 d) l' G').
      apply Rn_conj3. exact HR.
    + (* or *)
      rewrite matrix_or_eq in H. apply C03.bind_ok_inv in H. destruct H as (scratch & Hm & H).
      destruct (Hsc scratch Hm) as (G' & C' & HR).
      assert (HV1 : V1 d (EGroup BOr g) = sumr (map (V1 d) g)) by (apply (val_or o ids1 _ d K (Hok1 d) g Hgl)).
      assert (HRs : Rn neg (sumr (map (V2 d) scratch)) (V1 d (EGroup BOr g))).
      { rewrite HV1. apply Rn_sumr. exact HR. }
      destruct (matrix_table scratch) eqn:Et.
      2:{ inversion H; subst e'. unfold V2 at 1. rewrite (val_or o ids2 _ d K (Hok2 d) scratch G'). exact HRs. }
      pose proof (matrix_table_fires _ Et) as Ef.
      cbv zeta in H. set (cols := matrix_cols ord (count_fields scratch)) in *.
      apply C03.bind_ok_inv in H. destruct H as ([rows others] & Hp & H).
      pose proof (scratch_d18 ord neg F g scratch Hh18 Hm Ef) as Hd18.
      assert (Hmc : neg = true -> existsb multi_cell scratch = false).
      { intros ->. exact (scratch_d17 ord F g scratch Hh17 Hm Ef). }
      assert (HF : Forall (mem_ok cols K neg) scratch).
      { apply Forall_forall. intros y Hy. unfold mem_ok.
        split; [exact (C01.forallb_In _ _ _ G' Hy)|]. split; [exact (C' y Hy)|].
        split; [exact (C01.existsb_false_In _ _ _ Hd18 Hy)|]. split.
        - intros Hn. exact (C01.existsb_false_In _ _ _ (Hmc Hn) Hy).
        - intros f Hf. apply matrix_cols_In; [exact Hord|]. exact (count_fields_In f scratch y Hy Hf). }
      destruct (place_all_spec o ids2 (solve_body o) d cols K (Hok2 d) neg scratch rows others HF Hp)
        as (Hsub & wss & HW & HRp).
      apply (Rn_trans neg _ (sumr (map (V2 d) scratch))); [|exact HRs].
      refine (Rn_trans neg _ _ _ _ HRp). apply Rn_eq.
      assert (Hoth : Forall2 (fun x v => S2 d x = Ok v) others (map (V2 d) others)).
      { clear - Hsub G' Hok2. induction others as [|a others IHo]; cbn [map]; constructor.
        - apply (val_ok o ids2 (solve_body o) d K (Hok2 d)). apply (C01.forallb_In _ _ _ G'). apply Hsub. left. reflexivity.
        - apply IHo. intros x Hx. apply Hsub. right. exact Hx. }
      destruct rows as [|r0 rows0].
      * cbn [app] in H. cbn [map] in HW. inversion HW; subst wss.
        cbn [map sumr fold_right]. rewrite join_M_l.
        assert (E : e' = match others with [x] => x | _ => EGroup BOr others end)
          by (destruct others as [|a [|b rest]]; inversion H; reflexivity).
        assert (HS : Sd o ids2 (solve_body o) d e' = Ok (sumr (map (V2 d) others))).
        { rewrite E. exact (Sd_collapse o ids2 (solve_body o) d others (map (V2 d) others) Hoth). }
        unfold V2 at 1, val. rewrite HS. reflexivity.
      * cbn [app] in H.
        assert (E : e' = match EMatrix cols (r0 :: rows0) :: others with [x] => x | l => EGroup BOr l end)
          by (destruct others as [|a rest]; inversion H; reflexivity).
        assert (HS : Sd o ids2 (solve_body o) d e' = Ok (sumr (sumr (map conj3o wss) :: map (V2 d) others))).
        { rewrite E. clear E H Hsub Hp.
          pose proof (Sd_matrix o ids2 (solve_body o) d cols (r0 :: rows0) wss HW) as HMx.
          destruct others as [|a rest].
          - apply (Sd_collapse o ids2 (solve_body o) d [EMatrix cols (r0 :: rows0)] [sumr (map conj3o wss)]).
            constructor; [exact HMx | constructor].
          - apply (Sd_collapse o ids2 (solve_body o) d (EMatrix cols (r0 :: rows0) :: a :: rest)
                     (sumr (map conj3o wss) :: map (V2 d) (a :: rest))).
            constructor; [exact HMx | exact Hoth]. }
        unfold V2 at 1, val. rewrite HS. reflexivity.
  - (* bexp *)
    cbn [matrix] in H. cbn [cmp_reads exists_sub qid] in Hcr, H17, Hq.
    apply orb_false_iff in H17. destruct H17 as [_ Hs17].
    destruct (is_and_or op) eqn:Eop.
    + apply andb_prop in Hg. destruct Hg as [G1 G2].
      apply andb_prop in Hcr. destruct Hcr as [C1 C2].
      apply andb_prop in Hq. destruct Hq as [Q1 Q2].
      apply orb_false_iff in Hs17. destruct Hs17 as [A1 A2].
      apply C03.bind_ok_inv in H. destruct H as (l' & Hl' & H).
      apply C03.bind_ok_inv in H. destruct H as (r' & Hr' & H). inversion H; subst e'.
      assert (P1 : (bn = true \/ neg = false /\ no_neg l1 = true) /\ (bn = true \/ neg = false /\ no_neg r1 = true)).
      { destruct Hpn as [Hb|[Hn Hp]]; [split; left; exact Hb|].
        cbn [no_neg] in Hp. apply andb_prop in Hp. destruct Hp. split; right; split; assumption. }
      pose proof (IH l1 (size_bl l1 op r1) neg F l' d G1 C1 A1 (proj1 P1) Q1 Hl') as R1.
      pose proof (IH r1 (size_br l1 op r1) neg F r' d G2 C2 A2 (proj2 P1) Q2 Hr') as R2.
      pose proof (matrix_gm' ord K l1 neg G1 (d18_sub_never ord neg l1) F l' Hl') as GL.
      pose proof (matrix_gm' ord K r1 neg G2 (d18_sub_never ord neg r1) F r' Hr') as GR.
      pose proof (proj1 (gk_gm K l1 G1)) as GL0. pose proof (proj1 (gk_gm K r1 G2)) as GR0.
      assert (HF2 : Forall2 (Rn neg) (map (V2 d) [l'; r']) (map (V1 d) [l1; r1])) by (repeat constructor; assumption).
      destruct op; try discriminate Eop.
      * replace (V2 d (EBexp l' BAnd r')) with (V2 d (EGroup BAnd [l'; r'])).
        2:{ unfold V2, val, Sd. cbn [solve]. rewrite C01.and2_fold. reflexivity. }
        replace (V1 d (EBexp l1 BAnd r1)) with (V1 d (EGroup BAnd [l1; r1])).
        2:{ unfold V1, val, Sd. cbn [solve]. rewrite C01.and2_fold. reflexivity. }
        unfold V1, V2. rewrite (val_and o ids1 _ d K (Hok1 d)), (val_and o ids2 _ d K (Hok2 d)).
        -- apply Rn_conj3. exact HF2.
        -- cbn [forallb]. rewrite GL, GR. reflexivity.
        -- cbn [forallb]. rewrite GL0, GR0. reflexivity.
      * replace (V2 d (EBexp l' BOr r')) with (V2 d (EGroup BOr [l'; r'])).
        2:{ unfold V2, val, Sd. cbn [solve]. rewrite C01.or2_fold. reflexivity. }
        replace (V1 d (EBexp l1 BOr r1)) with (V1 d (EGroup BOr [l1; r1])).
        2:{ unfold V1, val, Sd. cbn [solve]. rewrite C01.or2_fold. reflexivity. }
        unfold V1, V2. rewrite (val_or o ids1 _ d K (Hok1 d)), (val_or o ids2 _ d K (Hok2 d)).
        -- apply Rn_sumr. exact HF2.
        -- cbn [forallb]. rewrite GL, GR. reflexivity.
        -- cbn [forallb]. rewrite GL0, GR0. reflexivity.
    + apply andb_prop in Hg. destruct Hg as [G1 G2].
      rewrite (matrix_leaf ord F l1 G1), (matrix_leaf ord F r1 G2) in H. cbn [bind] in H.
      inversion H; subst e'. apply Rn_eq. unfold V1, V2, val, Sd. rewrite !solve_cmp by exact Eop. reflexivity.
  - (* ident *)
    inversion H; subst e'. apply (Rn_weaken bn); [exact (Hid d i Hg)|].
    destruct Hpn as [Hb|[Hn _]]; [left; exact Hb | right; exact Hn].
  - (* a quantifier over an identifier: left as it is; the entries of the body are counted *)
    cbn [qid] in Hq. destruct e as [| | | | | |i| | | | | | |]; try discriminate Hq.
    cbn [matrix] in H. rewrite shake1_ident in H. inversion H; subst e'.
    cbn [gk] in Hg.
    apply (Rn_weaken bn).
    + apply (HQ d i k Hg). destruct Hpn as [Hb|[_ Hp]]; [left; exact Hb | right; exact Hp].
    + destruct Hpn as [Hb|[Hn _]]; [left; exact Hb | right; exact Hn].
  - (* negate *)
    cbn [matrix] in H. apply C03.bind_ok_inv in H. destruct H as (x & Hx & H). inversion H; subst e'.
    cbn [cmp_reads exists_sub qid] in Hcr, H17, Hq.
    apply orb_false_iff in H17. destruct H17 as [_ Hs17].
    assert (Hb : bn = true) by (destruct Hpn as [Hb|[_ Hp]]; [exact Hb | discriminate Hp]).
    pose proof (IH e (size_ng e) true F x d Hg Hcr Hs17 (or_introl Hb) Hq Hx) as R. cbn [Rn] in R.
    pose proof (matrix_gm' ord K e true Hg (d18_sub_never ord true e) F x Hx) as GX.
    apply Rn_eq. unfold V1, V2, val, Sd. cbn [solve].
    fold (Sd o ids2 (solve_body o) d x). fold (Sd o ids1 (solve_body o) d e).
    rewrite (val_ok o ids2 _ d K (Hok2 d) x GX), (val_ok o ids1 _ d K (Hok1 d) e (proj1 (gk_gm K e Hg))).
    cbn [bind]. fold (V2 d x). fold (V1 d e). rewrite R. reflexivity.
  - (* nested: not in such a condition *)
    discriminate Hq.
  - (* search *)
    inversion H; subst e'. apply Rn_eq. reflexivity.
Qed.

End MainNM.

(* ====================================================================================== *)
(* 3. the matrix stage: bodies entry by entry, the condition over the two tables          *)
(* ====================================================================================== *)
(* a body that is not a group keeps its head through matrix: a search stays as it is, a
   comparison, quantifier, negation, nested block stays one *)
Lemma matrix_head ord F b b' : gb b = true -> (forall s l, b <> EGroup s l) ->
  matrix ord F b = Ok b' -> C01_d15.same_head b b'.
Proof.
  intros Hg Hng H. unfold gb in Hg.
  dex b; cbn [gk] in Hg; try discriminate Hg.
  - exfalso. exact (Hng _ _ eq_refl).
  - cbn [matrix] in H. apply C03.bind_ok_inv in H. destruct H as (l' & _ & H).
    apply C03.bind_ok_inv in H. destruct H as (r' & _ & H). inversion H; subst. right. split; reflexivity.
  - rewrite matrix_match in H. right. split; [reflexivity|]. injection H as <-.
    match goal with |- context [match ?x with _ => _ end] => destruct x end; reflexivity.
  - cbn [matrix] in H. apply C03.bind_ok_inv in H. destruct H as (x & _ & H). inversion H; subst.
    right. split; reflexivity.
  - cbn [matrix] in H. apply C03.bind_ok_inv in H. destruct H as (x & _ & H). inversion H; subst.
    right. split; reflexivity.
  - inversion H; subst. left. reflexivity.
Qed.

(* one identifier body through the matrix pass, entry by entry: the entry-wise relation *)
Lemma matrix_entries_BR o ord bn b b' (d0 : doc) :
  (forall l, Permutation (ord l) l) ->
  gb b = true -> cmp_reads b = true ->
  forallb (fun m => match_safe ord bn (shake_fuel m) m) (Scope2.entry_trees b) = true ->
  exists_sub (d17_here ord) bn b = false ->
  entries (fun x => matrix ord (shake_fuel x) x) b = Ok b' ->
  C01_d15.BR o (pure_doc d0) bn b b'.
Proof.
  intros Hord G C Q A H. apply C01.entries_inv in H.
  destruct (C01.is_group_dec b) as [[s [l ->]]|Hng].
  - destruct H as [l' [-> HF]]. cbn [C01_d15.BR]. exists l'. split; [reflexivity|].
    unfold gb in G. cbn [gk] in G. apply andb_prop in G. destruct G as [_ G].
    cbn [cmp_reads] in C. cbn [Scope2.entry_trees] in Q.
    eapply C01.Forall2_In_impl; [exact HF|]. intros x y Hx _ Hxy. cbn beta in Hxy.
    pose proof (C01.forallb_In _ _ _ Q Hx) as Qx. cbn beta in Qx.
    exact (matrix_quant_rel o ord Hord bn _ x y d0 (C01.forallb_In _ _ _ G Hx) (C01.forallb_In _ _ _ C Hx) Qx
             (C01.exists_sub_member _ _ _ _ _ A Hx) Hxy).
  - assert (Hm : matrix ord (shake_fuel b) b = Ok b').
    { destruct b; try exact H. exfalso. exact (Hng _ _ eq_refl). }
    assert (Qb : match_safe ord bn (shake_fuel b) b = true).
    { destruct b; cbn [Scope2.entry_trees forallb] in Q; try (rewrite andb_true_r in Q; exact Q).
      exfalso. exact (Hng _ _ eq_refl). }
    assert (HB : C01_d15.vrel o (pure_doc d0) bn b b' /\ C01_d15.same_head b b').
    { split; [exact (matrix_quant_rel o ord Hord bn _ b b' d0 G C Qb A Hm)|].
      exact (matrix_head ord _ b b' G Hng Hm). }
    destruct b; try exact HB. exfalso. exact (Hng _ _ eq_refl).
Qed.

(* the matrix stage on a condition whose quantifiers are over identifiers of the table *)
Lemma matrix_stage_verdict_nm o ord (d : doc) e3 ids3 e4 ids4 :
  (forall l, Permutation (ord l) l) ->
  gk (keys_of ids3) e3 = true -> gids ids3 ->
  forallb cmp_reads (all_trees (e3, ids3)) = true ->
  qid e3 = true ->
  forallb (fun b : str * expr =>
             forallb (fun m => match_safe ord (body_neg (e3, ids3)) (shake_fuel m) m) (Scope2.entry_trees (snd b)))
          ids3 = true ->
  any_tree (d17_here ord) (e3, ids3) = false ->
  matrix ord (shake_fuel e3) e3 = Ok e4 ->
  map_ids (entries (fun x => matrix ord (shake_fuel x) x)) ids3 = Ok ids4 ->
  exists v v', solve_cond o ids3 e3 (pure_doc d) = Ok v /\ solve_cond o ids4 e4 (pure_doc d) = Ok v' /\
               teq v' v.
Proof.
  intros Hord Gc Gi Hcr Hq Qi H17 He4 Hids4.
  cbn [all_trees fst snd forallb] in Hcr.
  apply andb_prop in Hcr. destruct Hcr as [Cc Ci].
  unfold any_tree in H17. cbn [fst snd] in H17.
  apply orb_false_iff in H17. destruct H17 as [A1 A2].
  set (bn := body_neg (e3, ids3)) in *.
  set (K := keys_of ids3).
  (* the bodies *)
  pose proof (C01_shake1.map_ids_F2 _ _ _ Hids4) as HF.
  assert (Hfacts : forall kv : str * expr, In kv ids3 ->
            gb (snd kv) = true /\ cmp_reads (snd kv) = true /\
            forallb (fun m => match_safe ord bn (shake_fuel m) m) (Scope2.entry_trees (snd kv)) = true /\
            exists_sub (d17_here ord) bn (snd kv) = false).
  { intros kv Hkv.
    assert (Hin : In (snd kv) (map snd ids3)) by (apply in_map; exact Hkv).
    unfold gids in Gi. rewrite Forall_forall in Gi.
    split; [exact (Gi kv Hkv)|]. split; [exact (C01.forallb_In _ _ _ Ci Hin)|].
    split; [exact (C01.forallb_In _ _ _ Qi Hkv)|exact (C01.existsb_false_In _ _ _ A2 Hkv)]. }
  assert (Hbody : forall kv kv' : str * expr, In kv ids3 ->
            entries (fun x => matrix ord (shake_fuel x) x) (snd kv) = Ok (snd kv') ->
            gm nokey (snd kv') = true /\
            forall d0 : doc, C01_d15.BR o (pure_doc d0) bn (snd kv) (snd kv')).
  { intros kv kv' Hkv Hm. destruct (Hfacts kv Hkv) as (G & C & Q & A).
    split; [exact (entries_matrix_gm ord _ _ bn (perm_len ord Hord) G (d18_sub_never ord bn _) Hm)|].
    intros d0. exact (matrix_entries_BR o ord bn _ _ d0 Hord G C Q A Hm). }
  assert (Gi4 : Forall (fun kv : str * expr => gm nokey (snd kv) = true) ids4).
  { apply Forall_forall. intros kv' Hkv'. destruct (Forall2_In_r _ _ _ kv' HF Hkv') as (kv & Hkv & _ & Hm).
    exact (proj1 (Hbody kv kv' Hkv Hm)). }
  assert (Hfst : map fst ids4 = map fst ids3) by (exact (proj1 (map_ids_inv _ _ _ Hids4))).
  assert (Hok1 : forall (d0 : doc) e, gm K e = true -> C03.okr (Sd o ids3 (solve_body o) d0 e)).
  { intros d0 e Hg. exact (solve_cond_m o ids3 e (pure_doc d0) Hg (gm_of_gids _ Gi) (C03.npd_pure d0)). }
  assert (Hok2 : forall (d0 : doc) e, gm K e = true -> C03.okr (Sd o ids4 (solve_body o) d0 e)).
  { intros d0 e Hg. apply (solve_cond_m o ids4 e (pure_doc d0)); [|exact Gi4 | apply C03.npd_pure].
    rewrite (gm_ext _ K); [exact Hg|]. intros i. unfold K, keys_of. apply has_key_fst. exact Hfst. }
  assert (Hrel : C01_shake1.ids_rel (fun b b' => entries (fun x => matrix ord (shake_fuel x) x) b = Ok b') ids3 ids4).
  { apply C01_shake1.ids_rel_F2. exact HF. }
  assert (Hwb : forallb (fun kv : str * expr => wf_body (snd kv)) ids3 = true).
  { apply C01.forallb_intro. intros kv Hkv. apply gb_wf_body. exact (proj1 (Hfacts kv Hkv)). }
  (* what the condition sees of each identifier *)
  assert (Hlook : forall i, K i = true ->
            exists b b', lookup i ids3 = Some b /\ lookup i ids4 = Some b' /\ wf_body b = true /\
                         forall d0 : doc, C01_d15.BR o (pure_doc d0) bn b b').
  { intros i Hi. unfold K, keys_of, has_key in Hi. specialize (Hrel i).
    destruct (lookup i ids3) as [b|] eqn:E3; [|discriminate Hi].
    destruct (lookup i ids4) as [b'|] eqn:E4; [|contradiction].
    destruct (C03.lookup_in _ _ _ E3) as [k Hk].
    exists b, b'. split; [reflexivity|]. split; [reflexivity|].
    split; [exact (gb_wf_body _ (proj1 (Hfacts (k, b) Hk)))|].
    exact (proj2 (Hbody (k, b) (k, b') Hk Hrel)). }
  assert (Hcrel : forall (d0 : doc) E0, C01_d15.crel o ids3 ids4 (pure_doc d0) bn E0 ->
            Rn bn (val o ids4 (solve_body o) d0 E0) (val o ids3 (solve_body o) d0 E0)).
  { intros d0 E0 (v & v' & E & E' & R). unfold solve_cond in E, E'. unfold val, Sd. rewrite E, E'. exact R. }
  assert (Hid : forall (d0 : doc) i, K i = true ->
            Rn bn (val o ids4 (solve_body o) d0 (EIdent i)) (val o ids3 (solve_body o) d0 (EIdent i))).
  { intros d0 i Hi. destruct (Hlook i Hi) as (b & b' & L & L' & Wb & R). apply Hcrel.
    exact (C01_d15.ident_rel o ids3 ids4 (pure_doc d0) i b b' L L' Wb bn (R d0)). }
  assert (HQ : forall (d0 : doc) i k, K i = true ->
            (bn = true \/ no_neg (EMatch k (EIdent i)) = true) ->
            Rn bn (val o ids4 (solve_body o) d0 (EMatch k (EIdent i)))
                  (val o ids3 (solve_body o) d0 (EMatch k (EIdent i)))).
  { intros d0 i k Hi Hc. destruct (Hlook i Hi) as (b & b' & L & L' & Wb & R). apply Hcrel.
    destruct k as [|c].
    - exact (C01_d15.all_ident_rel o ids3 ids4 Hwb (pure_doc d0) (C03.npd_pure d0) i b b' L L' Wb bn (R d0)).
    - apply (C01_d15.of_ident_rel o ids3 ids4 Hwb (pure_doc d0) (C03.npd_pure d0) i b b' L L' Wb bn c); [|exact (R d0)].
      destruct Hc as [Hb|Hc]; [left; exact Hb|right].
      cbn [no_neg] in Hc. apply andb_prop in Hc. destruct Hc as [Hc _]. apply negb_true_iff in Hc. exact Hc. }
  assert (Gm4 : gm K e4 = true) by exact (matrix_gm' ord K e3 false Gc (d18_sub_never ord false e3) _ _ He4).
  assert (Hpn : bn = true \/ (false = false /\ no_neg e3 = true)).
  { destruct bn eqn:Ebn; [left; reflexivity|right]. split; [reflexivity|].
    unfold bn, body_neg, has_negative in Ebn. cbn [fst] in Ebn. exact (has_negative_no_neg e3 false Ebn). }
  exists (val o ids3 (solve_body o) d e3), (val o ids4 (solve_body o) d e4).
  split; [exact (val_ok o ids3 (solve_body o) d K (Hok1 d) e3 (proj1 (gk_gm K e3 Gc)))|].
  split; [exact (val_ok o ids4 (solve_body o) d K (Hok2 d) e4 Gm4)|].
  exact (matrix_sem_nm o ord Hord ids3 ids4 K Hok1 Hok2 bn Hid HQ e3 false _ e4 d Gc Cc A1 Hpn Hq He4).
Qed.

(* ====================================================================================== *)
(* 4. whole rules: the statements of Properties/C01_nomatch.v                             *)
(* ====================================================================================== *)
Lemma scope_quant_all_sound_nm : forall o ic ord sw y r (d : doc),
  (forall l, Permutation (ord l) l) ->
  C01.H_strip o ->
  load_rule o ic y = Ok r -> r_optimised r = false ->
  Scope5.c01_scope_quant_all_nm o ord sw (r_det r) = true ->
  exists r', optimise o ord sw r = Ok r' /\ matches o r' d = matches o r d.
Proof.
  intros o ic ord sw y r d Hord Hs Hl Hopt Hsc.
  unfold Scope5.c01_scope_quant_all_nm in Hsc. apply andb_prop in Hsc. destruct Hsc as [Hsc0 Hscm].
  destruct (sw_matrix sw) eqn:Em.
  2:{ apply (C01_d15.scope_nested_sound_noq o ic ord sw y r d Hord Hs Hl Hopt).
      destruct sw as [c s w m]. cbn [sw_matrix] in Em. subst m. exact Hsc0. }
  cbn [negb orb] in Hscm. pose proof Hscm as Hmi.
  (* the passes before matrix: the verdict is preserved *)
  set (sw0 := Scope.sw_without_matrix sw) in *.
  destruct (C01_d15.scope_nested_sound_noq o ic ord sw0 y r d Hord Hs Hl Hopt Hsc0) as (r1 & Hr1 & Hsem).
  (* the stage before matrix *)
  destruct (no_matrix_stage_good o ord sw _ (load_good _ _ _ _ Hl)) as (s3 & Hst & [Gc Gi]).
  assert (Er1 : r_det r1 = s3).
  { unfold optimise in Hr1. rewrite Hopt in Hr1. unfold sw0 in Hr1.
    rewrite optimise_detection_stage, stage_sw, Hst in Hr1. cbn [bind Scope.sw_without_matrix sw_matrix] in Hr1.
    inversion Hr1; subst r1. reflexivity. }
  pose proof (no_matrix_stage_pre _ _ _ _ _ Hst) as Hpre.
  unfold Scope5.matrix_input_ok4 in Hmi. cbv zeta in Hmi.
  apply andb_prop in Hmi. destruct Hmi as [Hmi Xqi].
  apply andb_prop in Hmi. destruct Hmi as [Hmi Xqc]. apply andb_prop in Hmi. destruct Hmi as [Hmi Xcr].
  apply andb_prop in Hmi. destruct Hmi as [K17 _].
  apply negb_true_iff in K17.
  (* optimise returns *)
  destruct (optimise_total_stage_all o ord sw _ (perm_len ord Hord) (load_good _ _ _ _ Hl)) as [dt' Hdt'].
  exists {| r_optimised := true; r_det := dt'; r_tp := r_tp r; r_tn := r_tn r |}.
  split; [unfold optimise; rewrite Hopt, Hdt'; reflexivity|].
  rewrite optimise_detection_stage, Hst, Em in Hdt'. cbn [bind] in Hdt'.
  apply C03.bind_ok_inv in Hdt'. destruct Hdt' as (e4 & He4 & Hdt').
  apply C03.bind_ok_inv in Hdt'. destruct Hdt' as (ids4 & Hids4 & Hdt'). inversion Hdt'; subst dt'; clear Hdt'.
  unfold known_d17 in K17. rewrite Em, Hpre in K17. cbn [andb] in K17.
  rewrite Hpre in Xcr, Xqc, Xqi. cbn [fst snd] in Xqc, Xqi.
  assert (Hv : exists v v', solve_cond o (d_ids s3) (d_expr s3) (pure_doc d) = Ok v /\
                            solve_cond o ids4 e4 (pure_doc d) = Ok v' /\ teq v' v).
  { destruct (sw_coalesce sw) eqn:Ec.
    - (* identifiers inlined: no table, quantifiers over lists of the condition itself *)
      exact (matrix_stage_verdict_q o ord d (d_expr s3) (d_ids s3) e4 ids4 Hord Gc Gi Xcr
               (or_introl (stage_coalesce_ids o ord sw _ s3 Ec Hst)) Xqc Xqi K17 He4 Hids4).
    - (* identifiers kept: the quantifiers of the condition are over identifiers *)
      destruct (C03.load_rule_det _ _ _ _ Hl) as [dy Hdy].
      destruct (load_detection_shapes _ _ _ _ Hdy) as [Hcs _].
      pose proof (stage_qid o ord sw _ s3 (load_good _ _ _ _ Hl) Ec (cond_shape_qid _ Hcs) Hst) as Hq.
      exact (matrix_stage_verdict_nm o ord d (d_expr s3) (d_ids s3) e4 ids4 Hord Gc Gi Xcr Hq Xqi K17 He4 Hids4). }
  destruct Hv as (v & v' & Ev & Ev' & R).
  rewrite <- Hsem.
  apply (teq_matches o r1 _ d v v'); [|exact Ev' | exact R].
  rewrite Er1. exact Ev.
Qed.

(* the old scope implies the new one *)
Lemma scope_quant_all_noq_weaker_nm : forall o ord sw dt,
  Scope2.c01_scope_quant_all_noq o ord sw dt = true -> Scope5.c01_scope_quant_all_nm o ord sw dt = true.
Proof.
  intros o ord sw dt H. unfold Scope2.c01_scope_quant_all_noq in H. apply andb_prop in H. destruct H as [H1 H2].
  unfold Scope5.c01_scope_quant_all_nm. rewrite H1. cbn [andb].
  destruct (sw_matrix sw); [|reflexivity]. cbn [negb orb] in *.
  unfold Scope2.matrix_input_ok3 in H2. cbv zeta in H2. apply andb_prop in H2. destruct H2 as [H2 _].
  exact H2.
Qed.

(* at the crate's own map order *)
Lemma crate_order_scope_quant_all_nm_sound : forall o ic sw y r (d : doc),
  C01.H_strip o ->
  load_rule o ic y = Ok r -> r_optimised r = false ->
  Scope5.c01_scope_quant_all_nm o Order.rust_ord sw (r_det r) = true ->
  exists r', optimise o Order.rust_ord sw r = Ok r' /\ matches o r' d = matches o r d.
Proof.
  intros o ic sw y r d Hs Hl Hopt Hsc.
  exact (scope_quant_all_sound_nm o ic Order.rust_ord sw y r d C12_order.rust_ord_perm Hs Hl Hopt Hsc).
Qed.

(* ---- the new part of the scope is inhabited ----
   C01_d15.y_count: { A: [ {g: [{p: a}, {p: b}]}, {g: [{q: c}]}, {h: d} ], condition: of(A, 2) }.
   Inside Scope2.c01_scope_quant_all_noq for every switch set but coalesce off + matrix on
   (C01_d15.quant_ident_example); inside the scope without the conjunct for all sixteen.  With
   shake off and matrix on the entries of A are optimised by the matrix pass alone (the quantifier
   arm of matrix shakes the first entry); the body keeps its three entries. *)
Lemma nomatch_example :
  exists r, load_rule C01.o0 false C01_d15.y_count = Ok r /\ r_optimised r = false /\
    d_expr (r_det r) = EMatch (MOf 2) (EIdent [65%N]) /\
    forallb (fun sw => Bool.eqb (Scope2.c01_scope_quant_all_noq C01.o0 idord sw (r_det r))
                                (sw_coalesce sw || negb (sw_matrix sw))) all16 = true /\
    forallb (fun sw => Scope5.c01_scope_quant_all_nm C01.o0 idord sw (r_det r)) all16 = true /\
    matches C01.o0 r C01_d15.d_count = Ok true /\
    forallb (fun sw => match optimise C01.o0 idord sw r with
                       | Ok r' => match matches C01.o0 r' C01_d15.d_count with Ok true => true | _ => false end
                       | _ => false
                       end) all16 = true /\
    exists r', optimise C01.o0 idord (sw_of false true true true) r = Ok r' /\
      d_expr (r_det r') = EMatch (MOf 2) (EIdent [65%N]) /\
      d_ids (r_det r') =
        [([65%N], EGroup BOr
            [ENested [103%N] (ESearch (SAho [MTExact [97%N]; MTExact [98%N]] false) [112%N] false);
             ENested [103%N] (ESearch (SExact [99%N]) [113%N] false);
             ESearch (SExact [100%N]) [104%N] false])].
Proof.
  eexists. split; [vm_compute; reflexivity|]. split; [reflexivity|]. split; [reflexivity|].
  split; [vm_compute; reflexivity|]. split; [vm_compute; reflexivity|]. split; [vm_compute; reflexivity|].
  split; [vm_compute; reflexivity|].
  eexists. split; [vm_compute; reflexivity|]. split; vm_compute; reflexivity.
Qed.

Print Assumptions scope_quant_all_sound_nm.
Print Assumptions scope_quant_all_noq_weaker_nm.
Print Assumptions crate_order_scope_quant_all_nm_sound.
