(* C08: the quantifier tables for lists of EVERY scalar member kind, as corollaries of
   C02_lists.list_entry_refines. *)
From TauModel Require Import Base Num Oracles Syntax Value Yaml Pratt ParseMap Solver Rule Keys Known Spec.
From TauProofs Require C02_lists.

Lemma quantified_list_all_kinds : forall o ic k f m vs e,
  read_key o k = Some (m, f) ->
  forallb scalar_yaml vs = true ->
  excluded_entry o (YStr k) (YSeq vs) = false -> d32_entry o (YStr k) (YSeq vs) = false ->
  parse_entry o ic (YStr k) (YSeq vs) None (map (fun _ => None) vs) = Ok e ->
  exists_sub d10_here false e = false ->
  forall (d : doc) x, d f = Some x -> C02_lists.array_ok m vs (Some x) ->
    solve_body o e (pure_doc d) =
    Ok (match m with
        | KAll => first_non_true (map (fun v => sem_scalar o ic KPlain v x) vs)
        | KOf c => of3 c (map (fun v => sem_scalar o ic KPlain v x) vs)
        | KNot => not3 (max3 (map (fun v => sem_scalar o ic KPlain v x) vs))
        | _ => max3 (map (fun v => sem_scalar o ic m v x) vs)
        end).
Proof.
  intros o ic k f m vs e Hk Hs Hx H32 Hp H10 d x Hd Ha.
  destruct (C02_lists.list_entry_refines o ic k vs e Hs Hx H32 Hp H10) as [m' [f' [Hk' H]]].
  rewrite Hk in Hk'. inversion Hk'; subst m' f'.
  assert (Ha' : C02_lists.array_ok m vs (d f)) by (rewrite Hd; exact Ha).
  rewrite (H d Ha'). unfold C02_lists.sem_entry_list. rewrite Hd.
  destruct m; reflexivity.
Qed.

Lemma quantified_list_missing_all_kinds : forall o ic k f m vs e,
  read_key o k = Some (m, f) ->
  forallb scalar_yaml vs = true ->
  excluded_entry o (YStr k) (YSeq vs) = false -> d32_entry o (YStr k) (YSeq vs) = false ->
  parse_entry o ic (YStr k) (YSeq vs) None (map (fun _ => None) vs) = Ok e ->
  exists_sub d10_here false e = false ->
  forall (d : doc), d f = None ->
    solve_body o e (pure_doc d) = Ok (match m with KNot => F | _ => M end).
Proof.
  intros o ic k f m vs e Hk Hs Hx H32 Hp H10 d Hd.
  destruct (C02_lists.list_entry_refines o ic k vs e Hs Hx H32 Hp H10) as [m' [f' [Hk' H]]].
  rewrite Hk in Hk'. inversion Hk'; subst m' f'.
  assert (Ha' : C02_lists.array_ok m vs (d f)).
  { rewrite Hd. unfold C02_lists.array_ok. destruct m; try exact I; intros _; exact I. }
  rewrite (H d Ha'). unfold C02_lists.sem_entry_list. rewrite Hd.
  destruct m; reflexivity.
Qed.
