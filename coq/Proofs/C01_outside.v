(* C01 (fourteenth file): the executable scope of the end-to-end theorem is COMPLETE for loadable
   rules outside D13 / D16 / D17 -- Properties/C01_outside.v, scope_complete, PROVED here
   (rules WITH nested blocks included; C01_complete.v had it for rules without).

   By C01_complete.scope_complete_alt2 two conjuncts that follow the run of shake_1 were open:
   dyn_run (Scope2.run_safe) and dyn_match (the match_safe conjuncts).  shake1_safe checks two
   things at every group the run meets: (i) the body of a rebuilt nested block does not become /
   stop being an all()-over-or list, (ii) the D16 shape in negative positions.

   1-5   (i) holds on every tree the loader can build, every fuel, every polarity:
         head_allor_shake1 (a tree that shakes to an all()-over-or list through one-member
         groups has one at its head already; all trees, all fuels, any key order that loses no
         key), kn / kn_shake1 (invariant "every nested body is nested_ok, no matrix", kept by
         shake_1), allor_keep, and safe_is_d16_run: on kn trees shake1_safe IS d16_run, the same
         walk that checks the D16 shape only.
   6-8   rules without negation / of(_,0): d16_run is vacuous (d16_run_pos), hence
         dyn_run_positive, dyn_match_positive, scope_complete_positive.
   9-11  negative polarity.  Fuel adequacy of shake_1 at shake_fuel (2*size+2) is NOT proved and
         not needed: a static predictor T x in {NP f, NA f, TO} ("x shakes to a nested block on f
         that the merge takes / leaves alone (fix D29) / to something else") is
         - SOUND at EVERY fuel: T_shake1 (T (shake1 fu x) = NP f -> T x = NP f, ...) on trees
           whose nested bodies hold an all() list only un-grouped (sgp, kept by shake_1:
           sgp_shake1, ham_shake1),
         - COMPLETE above the small fuel hh x <= 2*size x <= shake_fuel x: T_complete,
           T_nested_full (T x <> TO -> is_nested (shake1 ord (shake_fuel x) x)).
         Gd neg e = "no and-group of two or more members in a negative position has a member
         with T <> TO" is kept by shake_1 (Gd_shake1), gives d16_run at every fuel
         (d16_run_Gd, safe_of_Gd, match_safe_Gd), and follows from the classifier
         (Gd_of_not_d16: exists_sub d16_here neg e = false -> Gd neg e).
   12-15 glue: Gd and the polarity (Gd_mono), rewrite keeps T / Gd / sgp / kn, shake_0 keeps sgp
         (sgp_shake0, on inv2 trees) and the presence of a negation in the condition (hn_shake0,
         on invc2 trees: the polarity the bodies start with is the same for the classifier and
         for the run), the loader builds sgp trees (parse_identifier_sgp: same walk as
         C01_loaded.parse_identifier_inv).
   16-17 dyn_run_general, dyn_match_general (every loaded rule outside D13 / D16, every switch
         set, every permutation order), scope_complete.

   Nothing refuted.  Print Assumptions: the structural theorems (sections 1-12) are closed under
   the global context; the theorems about loaded rules inherit the standard-library axioms of
   the float model (ClassicalDedekindReals, functional extensionality, classic) exactly as
   C01_complete.scope_complete_alt2 / no_dneg_of_not_d13 / C01_d14.shake0_post2 do. *)
From Coq Require Import Permutation Lia ZArith ZifyBool List Bool.
From TauModel Require Import Base Num Oracles Syntax Generated Token Pratt Ident Value Yaml ParseMap Solver Rule Keys Optimiser Known.
From TauModel Require Scope Scope2 Scope4 Scope5 Scope6 Order.
From TauProofs Require C01 C03 C03_opt C03_matrix C01_shake1 C01_loaded C01_d14 C01_d15 C01_sh0w C01_matrix C01_nested C01_complete.
Import ListNotations.
Module D14 := C01_d14.
Module CW := C01_sh0w.CondW.
Module N := C01_nested.
Module S1 := C01_shake1.
Module CC := C01_complete.

Ltac dex e :=
  destruct e as [ ?s ?g | ?l1 ?op ?r1 | ?b | ?f ?m | ?f | ?x | ?i | ?z | ?k ?e | ?cols ?rows | ?e | ?f ?e | | ?s ?f ?cst ].

(* ====================================================================================== *)
(* 1. small list facts                                                                     *)
(* ====================================================================================== *)
Lemma app_single {A} (a b : list A) y : a ++ b = [y] -> (a = [y] /\ b = []) \/ (a = [] /\ b = [y]).
Proof.
  destruct a as [|a0 a]; cbn [app]; intros H; [right; split; [reflexivity | exact H]|].
  injection H as -> H. apply app_eq_nil in H. destruct H as [-> ->]. left. split; reflexivity.
Qed.

Lemma app_single_mid {A} (a b c : list A) y : a ++ b ++ c = [y] -> In y b -> a = [] /\ b = [y] /\ c = [].
Proof.
  intros H Hy. destruct (app_single _ _ _ H) as [[Ha Hbc]|[Ha Hbc]].
  - apply app_eq_nil in Hbc. destruct Hbc as [-> _]. destruct Hy.
  - destruct (app_single _ _ _ Hbc) as [[Hb Hc]|[Hb Hc]]; [auto|]. subst b. destruct Hy.
Qed.

Lemma filter_all {A} (p : A -> bool) l : (forall x, In x l -> p x = true) -> filter p l = l.
Proof.
  induction l as [|a l IH]; intros H; [reflexivity|]. cbn [filter].
  rewrite (H a (or_introl eq_refl)), IH; [reflexivity|]. intros x Hx. apply H. right. exact Hx.
Qed.

Lemma sort_by_nil {A} (lt : A -> A -> bool) l : sort_by lt l = [] -> l = [].
Proof.
  intros H. destruct l as [|a l]; [reflexivity|]. exfalso.
  assert (Ha : In a (sort_by lt (a :: l))) by (apply S1.sort_by_In; left; reflexivity).
  rewrite H in Ha. destruct Ha.
Qed.

Lemma map_single {A B} (f : A -> B) l y : map f l = [y] -> exists x, l = [x] /\ y = f x.
Proof. destruct l as [|a [|b l]]; cbn [map]; intros H; try discriminate H. injection H as <-. eauto. Qed.

(* ====================================================================================== *)
(* 2. shapes: shake_1 keeps the head constructor of everything but and/or-groups          *)
(* ====================================================================================== *)
Definition is_group (e : expr) : bool := match e with EGroup _ _ => true | _ => false end.

Lemma shake1_group_shape ord : forall fu e, is_group (shake1 ord fu e) = true -> is_group e = true.
Proof.
  intros [|fu] e H; [exact H|]. dex e; try reflexivity; cbn [shake1] in H; try discriminate H.
  destruct e; discriminate H.
Qed.

Lemma head_allor_single s Sc : C01.head_allor (EGroup s Sc) = true ->
  exists y, Sc = [y] /\ C01.head_allor y = true.
Proof. destruct Sc as [|y [|y' Sc]]; cbn [C01.head_allor]; intros H; try discriminate H. eauto. Qed.

Lemma head_allor_collapse s Sc : C01.head_allor (match Sc with [x] => x | _ => EGroup s Sc end) = true ->
  exists y, Sc = [y] /\ C01.head_allor y = true.
Proof. destruct Sc as [|y [|y' Sc]]; cbn [C01.head_allor]; intros H; try discriminate H. eauto. Qed.

(* neither a nested block nor a search: what the regrouping neither builds nor merges *)
Definition pl (y : expr) : bool := match y with ENested _ _ | ESearch _ _ _ => false | _ => true end.
Lemma pl_not_nest y : pl y = true -> S1.is_nest y = false /\ S1.srch y = false.
Proof. destruct y; intros H; try discriminate H; split; reflexivity. Qed.
Lemma head_allor_pl y : C01.head_allor y = true -> pl y = true.
Proof. destruct y; intros H; try discriminate H; reflexivity. Qed.

(* ====================================================================================== *)
(* 3. ML: a tree that shakes to an all()-over-or list (through one-member groups) has one  *)
(*    at its head already -- every fuel, every tree, every key order that loses no key     *)
(* ====================================================================================== *)
Section Head.
Variable ord : hord.
Hypothesis Hk : S1.ord_keeps ord.

Lemma merged_part_nil sh q L : N.merged_part ord sh q L = [] -> forall x, In x L -> S1.is_nest x = false.
Proof.
  intros H x Hx. destruct (S1.is_nest x) eqn:E; [exfalso|reflexivity].
  destruct x; try discriminate E. cbn [S1.is_nest] in E. apply negb_true_iff in E.
  destruct (N.nest_fwd ord L _ _ Hk Hx E) as (es & Hin & _).
  unfold N.merged_part in H. apply map_eq_nil in H. rewrite H in Hin. destruct Hin.
Qed.

Lemma merged_part_nested sh q L y : In y (N.merged_part ord sh q L) -> exists f b, y = ENested f b.
Proof. unfold N.merged_part. intros H. apply in_map_iff in H. destruct H as (kv & <- & _). eauto. Qed.

(* and-arm: the regrouped list is one head-allor member only if the group was *)
Lemma and_scratch_single sh L y : C03_opt.and_scratch ord sh L = [y] -> pl y = true -> L = [y].
Proof.
  intros H Hy. rewrite N.and_scratch_eq in H.
  destruct (app_single _ _ _ H) as [[Ha Hb]|[Ha Hb]].
  - rewrite (filter_all _ L) in Ha; [exact Ha|]. intros x Hx.
    rewrite (merged_part_nil _ _ _ Hb x Hx). reflexivity.
  - exfalso. destruct (merged_part_nested sh true L y) as (f & b & ->); [rewrite Hb; left; reflexivity|].
    discriminate Hy.
Qed.

Lemma amap_iter_nil_inv {V} (m : list (key * list V)) : amap_iter ord m = [] -> m = [].
Proof.
  intros H. destruct m as [|[k v] m]; [reflexivity|]. exfalso.
  assert (Hl : lookup k ((k, v) :: m) = Some v) by (cbn [lookup]; rewrite S1.str_eqb_refl'; reflexivity).
  pose proof (S1.amap_iter_keeps ord _ k v Hk Hl) as Hin. rewrite H in Hin. destruct Hin.
Qed.

Lemma push_fold_nil {V} (ps : list (key * list V)) : fold_left S1.push ps [] = [] -> ps = [].
Proof.
  intros H. destruct ps as [|[k v] ps]; [reflexivity|]. exfalso.
  destruct (S1.amap_fwd ((k, v) :: ps) [] k v (or_introl eq_refl)) as (vs' & Hl & _).
  rewrite H in Hl. discriminate Hl.
Qed.

Lemma or_part_single L y : S1.or_scratch ord L = [y] -> S1.srch y = false ->
  (forall x, In x L -> S1.is_nest x = false) -> L = [y].
Proof.
  intros Ha Hs Hnn.
  assert (HyL : In y L /\ S1.is_rest y = true).
  { assert (Hin : In y (S1.or_scratch ord L)) by (rewrite Ha; left; reflexivity).
    apply S1.or_scratch_In in Hin. destruct Hin as [[H1 H2]|[Hin|[Hin|Hin]]]; [| | |exact Hin].
    - destruct y; try discriminate H2. discriminate Hs.
    - apply in_map_iff in Hin. destruct Hin as (kv & <- & _). rewrite S1.needle_expr_srch in Hs. discriminate Hs.
    - apply in_map_iff in Hin. destruct Hin as (kv & <- & _). rewrite S1.pat_expr_srch in Hs. discriminate Hs. }
  (* the shape of the list *)
  unfold S1.or_scratch in Ha. cbv zeta in Ha.
  destruct (S1.classify_spec L oracc0) as (H1 & H2 & H3 & H4 & _).
  cbn [oracc0 oa_needles oa_patterns oa_any oa_rest app] in H1, H2, H3, H4.
  rewrite H1, H2, H3, H4 in Ha. fold (S1.needles_of L) in Ha. fold (S1.patterns_of L) in Ha.
  set (bk := fold_left needle_bucket (amap_iter ord (S1.needles_of L)) buckets0) in Ha.
  set (pats := map pattern_exprs (amap_iter ord (S1.patterns_of L))) in Ha.
  assert (Hr : In y (filter S1.is_rest L)) by (apply filter_In; exact HyL).
  (* every segment but the last is empty *)
  assert (Hseg : filter S1.is_any L = [] /\ b_exact bk = [] /\ b_starts bk = [] /\ b_ends bk = [] /\
                 b_contains bk = [] /\ b_aho bk = [] /\ flat_map fst pats = [] /\ flat_map snd pats = [] /\
                 filter S1.is_rest L = [y]).
  { repeat match type of Ha with
           | ?a ++ ?rest = [y] =>
               let Hx := fresh "Hx" in
               destruct (app_single _ _ _ Ha) as [[Hx Hrest]|[Hx Hrest]];
               [ exfalso;
                 repeat (apply app_eq_nil in Hrest; destruct Hrest as [_ Hrest]);
                 rewrite Hrest in Hr; destruct Hr
               | clear Ha; rename Hrest into Ha ]
           end.
    repeat match goal with Hx : sort_by _ _ = [] |- _ => apply sort_by_nil in Hx end.
    repeat split; assumption. }
  destruct Hseg as (Ga & G1 & G2 & G3 & G4 & G5 & G6 & G7 & Gr).
  (* no needle key, no pattern key *)
  assert (Hnd : flat_map S1.cls_n L = []).
  { apply push_fold_nil. apply amap_iter_nil_inv. fold (S1.needles_of L).
    destruct (amap_iter ord (S1.needles_of L)) as [|kv kvs] eqn:E; [reflexivity|exfalso].
    assert (Hbk : S1.in_buckets (S1.needle_expr kv) bk).
    { unfold bk. apply S1.buckets0_In. left. reflexivity. }
    unfold S1.in_buckets in Hbk. rewrite G1, G2, G3, G4, G5 in Hbk. cbn [In] in Hbk. tauto. }
  assert (Hpt : flat_map S1.cls_p L = []).
  { apply push_fold_nil. apply amap_iter_nil_inv. fold (S1.patterns_of L).
    destruct (amap_iter ord (S1.patterns_of L)) as [|kv kvs] eqn:E; [reflexivity|exfalso].
    assert (Hbp : In (S1.pat_expr kv) (map S1.pat_expr (kv :: kvs))) by (left; reflexivity).
    apply S1.patterns_In in Hbp. unfold pats in G6, G7. rewrite G6, G7 in Hbp. cbn [In] in Hbp. tauto. }
  rewrite <- Gr. symmetry. apply filter_all. intros x Hx.
  destruct (S1.cls_total x) as [C|[C|[C|[[kv C]|[kv C]]]]].
  - rewrite (Hnn x Hx) in C. discriminate C.
  - assert (Hin : In x (filter S1.is_any L)) by (apply filter_In; split; assumption).
    rewrite Ga in Hin. destruct Hin.
  - exact C.
  - assert (Hin : In kv (flat_map S1.cls_n L)) by (apply in_flat_map; exists x; split; assumption).
    rewrite Hnd in Hin. destruct Hin.
  - assert (Hin : In kv (flat_map S1.cls_p L)) by (apply in_flat_map; exists x; split; assumption).
    rewrite Hpt in Hin. destruct Hin.
Qed.


Lemma or_scratch_single sh L y : C03_opt.or_scratch ord sh L = [y] -> pl y = true -> L = [y].
Proof.
  intros H Hy. destruct (pl_not_nest y Hy) as [Hn Hs].
  rewrite N.or_scratch_eq in H.
  destruct (app_single _ _ _ H) as [[Ha Hb]|[Ha Hb]].
  2:{ exfalso. destruct (merged_part_nested sh false L y) as (f & b & ->); [rewrite Hb; left; reflexivity|].
      discriminate Hy. }
  exact (or_part_single L y Ha Hs (merged_part_nil _ _ _ Hb)).
Qed.

Theorem head_allor_shake1 : forall fu e, C01.head_allor (shake1 ord fu e) = true -> C01.head_allor e = true.
Proof.
  induction fu as [|fu IH]; intros e H; [exact H|].
  dex e; try (cbn [shake1] in H; discriminate H); try exact H.
  - (* group *)
    destruct s;
      try (rewrite S1.shake1_group_other in H by reflexivity;
           destruct (head_allor_single _ _ H) as (y & EL & Hy);
           destruct (map_single _ _ _ EL) as (x0 & -> & ->); cbn [C01.head_allor]; exact (IH _ Hy)).
    + rewrite N.shake1_and' in H. cbv zeta in H.
      set (L := map (shake1 ord fu) g) in *. set (Sc := C03_opt.and_scratch ord (shake1 ord fu) L) in *.
      assert (HS : exists y, Sc = [y] /\ C01.head_allor y = true).
      { destruct (negb (length Sc =? length g)%nat).
        - apply IH in H. exact (head_allor_single _ _ H).
        - exact (head_allor_collapse _ _ H). }
      destruct HS as (y & ESc & Hy).
      pose proof (and_scratch_single _ _ _ ESc (head_allor_pl _ Hy)) as EL.
      destruct (map_single _ _ _ EL) as (x0 & -> & ->). cbn [C01.head_allor]. exact (IH _ Hy).
    + rewrite N.shake1_or' in H. cbv zeta in H.
      set (L := map (shake1 ord fu) g) in *. set (Sc := C03_opt.or_scratch ord (shake1 ord fu) L) in *.
      assert (HS : exists y, Sc = [y] /\ C01.head_allor y = true).
      { destruct (negb (length Sc =? length g)%nat).
        - apply IH in H. exact (head_allor_single _ _ H).
        - exact (head_allor_collapse _ _ H). }
      destruct HS as (y & ESc & Hy).
      pose proof (or_scratch_single _ _ _ ESc (head_allor_pl _ Hy)) as EL.
      destruct (map_single _ _ _ EL) as (x0 & -> & ->). cbn [C01.head_allor]. exact (IH _ Hy).
  - (* quantifier *)
    destruct (C01.is_group_dec e) as [[s0 [g0 ->]]|Hng].
    + cbn [shake1] in H. destruct k; [|discriminate H]. destruct s0; try discriminate H. reflexivity.
    + assert (E : shake1 ord (S fu) (EMatch k e) = EMatch k (shake1 ord fu e)).
      { destruct e; try reflexivity. exfalso. exact (Hng _ _ eq_refl). }
      rewrite E in H. destruct k; [|discriminate H].
      destruct (shake1 ord fu e) eqn:Es; try discriminate H.
      exfalso. assert (Hg : is_group (shake1 ord fu e) = true) by (rewrite Es; reflexivity).
      apply shake1_group_shape in Hg. destruct e; try discriminate Hg. exact (Hng _ _ eq_refl).
Qed.
End Head.

(* ====================================================================================== *)
(* 4. the invariant kn: every nested body is nested_ok, no matrix; kept by shake_1         *)
(* ====================================================================================== *)
Fixpoint kn (e : expr) : bool :=
  match e with
  | EGroup _ l => forallb kn l
  | EBexp l _ r => kn l && kn r
  | EMatch _ e' | ENegate e' => kn e'
  | ENested _ e' => C01.nested_ok e' && kn e'
  | EMatrix _ _ => false
  | _ => true
  end.

Lemma srch_kn y : S1.srch y = true -> kn y = true.
Proof. destruct y; intros H; try discriminate H. reflexivity. Qed.

Lemma nested_ok_group_iff e : C01.nested_ok e = negb (is_group e && C01.head_allor e).
Proof. destruct e; try reflexivity. Qed.

Section Keep.
Variable ord : hord.
Hypothesis Hk : S1.ord_keeps ord.

(* nested_ok is kept by shake_1 (no invariant needed) *)
Lemma nested_ok_shake1 fu b : C01.nested_ok b = true -> C01.nested_ok (shake1 ord fu b) = true.
Proof.
  intros H. rewrite nested_ok_group_iff in *. apply negb_true_iff. apply negb_true_iff in H.
  destruct (is_group (shake1 ord fu b)) eqn:Eg; [|reflexivity]. cbn [andb].
  destruct (C01.head_allor (shake1 ord fu b)) eqn:Eh; [exfalso|reflexivity].
  rewrite (shake1_group_shape ord fu b Eg), (head_allor_shake1 ord Hk fu b Eh) in H. discriminate H.
Qed.

(* the bodies the merge builds *)
Lemma merge_body_ok q L f es : (forall x, In x L -> kn x = true) ->
  In (f, es) (amap_iter ord (N.nested_of L)) ->
  kn (N.merge_body q es) = true /\ C01.nested_ok (N.merge_body q es) = true.
Proof.
  intros HL Hin. destruct (N.nest_bwd ord L f es Hin) as [Hne Hes].
  assert (Hb : forall b, In b es -> kn b = true /\ C01.nested_ok b = true).
  { intros b Hb. destruct (Hes b Hb) as [Hin' _]. specialize (HL _ Hin'). cbn [kn] in HL.
    apply andb_prop in HL. tauto. }
  destruct es as [|x [|y es']]; [congruence | exact (Hb x (or_introl eq_refl)) |].
  assert (Hall : forallb kn (x :: y :: es') = true) by (apply C01.forallb_intro; intros b Hb'; apply (Hb b Hb')).
  unfold N.merge_body. destruct q; cbn [kn C01.nested_ok C01.head_allor negb]; split; try exact Hall; reflexivity.
Qed.

Lemma merged_part_kn fu q L : (forall x, In x L -> kn x = true) ->
  (forall x, kn x = true -> kn (shake1 ord fu x) = true) ->
  forall y, In y (N.merged_part ord (shake1 ord fu) q L) -> kn y = true.
Proof.
  intros HL IH y Hy. unfold N.merged_part in Hy. apply in_map_iff in Hy. destruct Hy as ([f es] & <- & Hin).
  cbn [fst snd]. destruct (merge_body_ok q L f es HL Hin) as [A1 A2].
  cbn [kn]. rewrite (nested_ok_shake1 fu _ A2), (IH _ A1). reflexivity.
Qed.

Theorem kn_shake1 : forall fu e, kn e = true -> kn (shake1 ord fu e) = true.
Proof.
  induction fu as [|fu IH]; intros e H; [exact H|].
  dex e; try exact H; try discriminate H.
  - (* group *)
    cbn [kn] in H.
    set (L := map (shake1 ord fu) g).
    assert (HL : forall x, In x L -> kn x = true).
    { intros x Hx. apply in_map_iff in Hx. destruct Hx as (x0 & <- & Hx0). apply IH. exact (C01.forallb_In _ _ _ H Hx0). }
    assert (Hcol : forall s Sc, forallb kn Sc = true -> kn (match Sc with [x] => x | _ => EGroup s Sc end) = true).
    { intros s0 Sc HSc. destruct Sc as [|x [|y Sc]]; try exact HSc. cbn [forallb] in HSc. rewrite andb_true_r in HSc. exact HSc. }
    destruct s; try (rewrite S1.shake1_group_other by reflexivity; cbn [kn]; apply C01.forallb_intro; exact HL).
    + rewrite N.shake1_and'. fold L. cbv zeta.
      set (Sc := C03_opt.and_scratch ord (shake1 ord fu) L).
      assert (HSc : forallb kn Sc = true).
      { apply C01.forallb_intro. intros y Hy. unfold Sc in Hy. rewrite N.and_scratch_eq in Hy.
        apply in_app_iff in Hy. destruct Hy as [Hy|Hy].
        - apply filter_In in Hy. exact (HL y (proj1 Hy)).
        - exact (merged_part_kn fu true L HL IH y Hy). }
      destruct (negb (length Sc =? length g)%nat); [apply IH; exact HSc | apply Hcol; exact HSc].
    + rewrite N.shake1_or'. fold L. cbv zeta.
      set (Sc := C03_opt.or_scratch ord (shake1 ord fu) L).
      assert (HSc : forallb kn Sc = true).
      { apply C01.forallb_intro. intros y Hy. unfold Sc in Hy. rewrite N.or_scratch_eq in Hy.
        apply in_app_iff in Hy. destruct Hy as [Hy|Hy].
        - destruct (S1.or_scratch_members ord L y Hy) as [Hs|Hin]; [exact (srch_kn y Hs) | exact (HL y Hin)].
        - exact (merged_part_kn fu false L HL IH y Hy). }
      destruct (negb (length Sc =? length g)%nat); [apply IH; exact HSc | apply Hcol; exact HSc].
  - cbn [kn shake1] in *. apply andb_prop in H. destruct H as [H1 H2]. rewrite (IH _ H1), (IH _ H2). reflexivity.
  - cbn [kn] in H. destruct (C01.is_group_dec e) as [[s0 [g0 ->]]|Hng].
    + cbn [shake1 kn] in *. apply C01.forallb_intro. intros y Hy. apply in_map_iff in Hy.
      destruct Hy as (x0 & <- & Hx0). apply IH. exact (C01.forallb_In _ _ _ H Hx0).
    + assert (E : shake1 ord (S fu) (EMatch k e) = EMatch k (shake1 ord fu e)).
      { destruct e; try reflexivity. exfalso. exact (Hng _ _ eq_refl). }
      rewrite E. cbn [kn]. exact (IH _ H).
  - cbn [kn shake1] in *. exact (IH _ H).
  - cbn [kn shake1] in *. apply andb_prop in H. destruct H as [H1 H2].
    rewrite (nested_ok_shake1 fu _ H1), (IH _ H2). reflexivity.
Qed.

Lemma and_scratch_kn fu L : (forall x, In x L -> kn x = true) ->
  forallb kn (C03_opt.and_scratch ord (shake1 ord fu) L) = true.
Proof.
  intros HL. apply C01.forallb_intro. intros y Hy. rewrite N.and_scratch_eq in Hy.
  apply in_app_iff in Hy. destruct Hy as [Hy|Hy].
  - apply filter_In in Hy. exact (HL y (proj1 Hy)).
  - exact (merged_part_kn fu true L HL (kn_shake1 fu) y Hy).
Qed.
Lemma or_scratch_kn fu L : (forall x, In x L -> kn x = true) ->
  forallb kn (C03_opt.or_scratch ord (shake1 ord fu) L) = true.
Proof.
  intros HL. apply C01.forallb_intro. intros y Hy. rewrite N.or_scratch_eq in Hy.
  apply in_app_iff in Hy. destruct Hy as [Hy|Hy].
  - destruct (S1.or_scratch_members ord L y Hy) as [Hs|Hin]; [exact (srch_kn y Hs) | exact (HL y Hin)].
  - exact (merged_part_kn fu false L HL (kn_shake1 fu) y Hy).
Qed.
Lemma shaken_kn fu l : forallb kn l = true -> forall x, In x (map (shake1 ord fu) l) -> kn x = true.
Proof.
  intros H x Hx. apply in_map_iff in Hx. destruct Hx as (x0 & <- & Hx0).
  apply kn_shake1. exact (C01.forallb_In _ _ _ H Hx0).
Qed.

(* the all()-over-or condition of shake1_safe holds on kn trees: every fuel *)
Lemma kn_is_allor e : kn e = true -> is_allor e = true -> C01.head_allor e = true.
Proof.
  intros H Ha. destruct e; try discriminate Ha. destruct k; [|discriminate Ha].
  destruct e as [s0 g0| | | | | | | | | | | | |]; try discriminate Ha; [|discriminate H]. destruct s0; try discriminate Ha. reflexivity.
Qed.

Theorem allor_keep fu b : kn b = true -> C01.nested_ok b = true ->
  Bool.eqb (is_allor (shake1 ord fu b)) (is_allor b) = true.
Proof.
  intros Hkn Hok. destruct (is_allor b) eqn:Ea.
  - destruct b; try discriminate Ea. destruct k; [|discriminate Ea].
    destruct b as [s0 g0| | | | | | | | | | | | |]; try discriminate Ea; [|discriminate Hkn]. destruct s0; try discriminate Ea.
    destruct fu; reflexivity.
  - destruct (is_allor (shake1 ord fu b)) eqn:Es; [exfalso|reflexivity].
    pose proof (kn_is_allor _ (kn_shake1 fu b Hkn) Es) as Hh.
    pose proof (head_allor_shake1 ord Hk fu b Hh) as Hb.
    rewrite nested_ok_group_iff in Hok. rewrite Hb, andb_true_r in Hok. apply negb_true_iff in Hok.
    destruct b; try discriminate Hb; try discriminate Hok.
    destruct k; [|discriminate Hb]. destruct b as [s0 g0| | | | | | | | | | | | |]; try discriminate Hb. destruct s0; try discriminate Hb. discriminate Ea.
Qed.
End Keep.

(* ====================================================================================== *)
(* 5. on kn trees shake1_safe IS its D16 part: d16_run follows the run of shake_1 like     *)
(*    shake1_safe and checks only the D16 shape (no all()-over-or condition)               *)
(* ====================================================================================== *)
Fixpoint d16_run (ord : hord) (neg : bool) (fuel : nat) (e : expr) : bool :=
  match fuel with
  | O => true
  | S fu =>
      let sh := shake1 ord fu in
      let entries_ok := fun q shaken =>
        forallb (fun kv : key * list expr => d16_run ord neg fu (N.merge_body q (snd kv)))
                (amap_iter ord (N.nested_of shaken)) in
      match e with
      | EGroup BAnd l =>
          let shaken := map sh l in
          let scratch := C03_opt.and_scratch ord sh shaken in
          forallb (d16_run ord neg fu) l &&
          negb (neg && (1 <? length l)%nat && existsb N.merges shaken) &&
          entries_ok true shaken &&
          (if negb (length scratch =? length l)%nat then d16_run ord neg fu (EGroup BAnd scratch) else true)
      | EGroup BOr l =>
          let shaken := map sh l in
          let scratch := C03_opt.or_scratch ord sh shaken in
          forallb (d16_run ord neg fu) l &&
          entries_ok false shaken &&
          (if negb (length scratch =? length l)%nat then d16_run ord neg fu (EGroup BOr scratch) else true)
      | EGroup _ l => forallb (d16_run ord neg fu) l
      | EBexp l _ r => d16_run ord neg fu l && d16_run ord neg fu r
      | EMatch k (EGroup _ l) => forallb (d16_run ord (N.neg_of neg k) fu) l
      | EMatch k e' => d16_run ord (N.neg_of neg k) fu e'
      | ENegate e' => d16_run ord true fu e'
      | ENested _ e' => d16_run ord neg fu e'
      | _ => true
      end
  end.

Definition d16_entries (ord : hord) (neg : bool) (fu : nat) (q : bool) (shaken : list expr) : bool :=
  forallb (fun kv : key * list expr => d16_run ord neg fu (N.merge_body q (snd kv)))
          (amap_iter ord (N.nested_of shaken)).

Lemma d16_and : forall ord neg fu l,
  d16_run ord neg (S fu) (EGroup BAnd l) =
  forallb (d16_run ord neg fu) l &&
  negb (neg && (1 <? length l)%nat && existsb N.merges (map (shake1 ord fu) l)) &&
  d16_entries ord neg fu true (map (shake1 ord fu) l) &&
  (if negb (length (C03_opt.and_scratch ord (shake1 ord fu) (map (shake1 ord fu) l)) =? length l)%nat
   then d16_run ord neg fu (EGroup BAnd (C03_opt.and_scratch ord (shake1 ord fu) (map (shake1 ord fu) l))) else true).
Proof. reflexivity. Qed.
Lemma d16_or : forall ord neg fu l,
  d16_run ord neg (S fu) (EGroup BOr l) =
  forallb (d16_run ord neg fu) l &&
  d16_entries ord neg fu false (map (shake1 ord fu) l) &&
  (if negb (length (C03_opt.or_scratch ord (shake1 ord fu) (map (shake1 ord fu) l)) =? length l)%nat
   then d16_run ord neg fu (EGroup BOr (C03_opt.or_scratch ord (shake1 ord fu) (map (shake1 ord fu) l))) else true).
Proof. reflexivity. Qed.

Lemma forallb_ext_In {A} (p q : A -> bool) l : (forall x, In x l -> p x = q x) -> forallb p l = forallb q l.
Proof.
  induction l as [|a l IH]; intros H; [reflexivity|]. cbn [forallb].
  rewrite (H a (or_introl eq_refl)), IH; [reflexivity|]. intros x Hx. apply H. right. exact Hx.
Qed.

Section Reduce.
Variable ord : hord.
Hypothesis Hk : S1.ord_keeps ord.

Theorem safe_is_d16_run : forall fu neg e, kn e = true -> N.shake1_safe ord neg fu e = d16_run ord neg fu e.
Proof.
  induction fu as [|fu IH]; intros neg e H; [reflexivity|].
  assert (Hmem : forall n l, forallb kn l = true -> forallb (N.shake1_safe ord n fu) l = forallb (d16_run ord n fu) l).
  { intros n l Hl. apply forallb_ext_In. intros x Hx. apply IH. exact (C01.forallb_In _ _ _ Hl Hx). }
  assert (Hent : forall q L, (forall x, In x L -> kn x = true) ->
            N.entries_okb ord neg fu q L = d16_entries ord neg fu q L).
  { intros q L HL. unfold N.entries_okb, d16_entries. apply forallb_ext_In. intros [f es] Hin. cbn [snd].
    destruct (merge_body_ok ord q L f es HL Hin) as [A1 A2].
    unfold N.nest_okb. rewrite (allor_keep ord Hk fu _ A1 A2). cbn [andb]. apply IH. exact A1. }
  dex e; try reflexivity; try discriminate H.
  - cbn [kn] in H. pose proof (shaken_kn ord Hk fu g H) as HL.
    destruct s; try (exact (Hmem neg g H)).
    + rewrite N.safe_and, d16_and, (Hmem neg g H), (Hent true _ HL).
      destruct (negb (length (C03_opt.and_scratch ord (shake1 ord fu) (map (shake1 ord fu) g)) =? length g)%nat); [|reflexivity].
      rewrite (IH neg (EGroup BAnd _)); [reflexivity|]. cbn [kn]. exact (and_scratch_kn ord Hk fu _ HL).
    + rewrite N.safe_or, d16_or, (Hmem neg g H), (Hent false _ HL).
      destruct (negb (length (C03_opt.or_scratch ord (shake1 ord fu) (map (shake1 ord fu) g)) =? length g)%nat); [|reflexivity].
      rewrite (IH neg (EGroup BOr _)); [reflexivity|]. cbn [kn]. exact (or_scratch_kn ord Hk fu _ HL).
  - cbn [kn] in H. apply andb_prop in H. destruct H as [H1 H2].
    rewrite N.safe_bexp. cbn [d16_run]. rewrite (IH neg l1 H1), (IH neg r1 H2). reflexivity.
  - cbn [kn] in H. destruct (C01.is_group_dec e) as [[s0 [g0 ->]]|Hng].
    + rewrite N.safe_match_group. cbn [d16_run]. cbn [kn] in H. exact (Hmem _ g0 H).
    + assert (E1 : N.shake1_safe ord neg (S fu) (EMatch k e) = N.shake1_safe ord (N.neg_of neg k) fu e).
      { destruct e; try reflexivity. exfalso. exact (Hng _ _ eq_refl). }
      assert (E2 : d16_run ord neg (S fu) (EMatch k e) = d16_run ord (N.neg_of neg k) fu e).
      { destruct e; try reflexivity. exfalso. exact (Hng _ _ eq_refl). }
      rewrite E1, E2. exact (IH _ e H).
  - rewrite N.safe_negate. cbn [d16_run]. exact (IH true e H).
  - cbn [kn] in H. apply andb_prop in H. destruct H as [H1 H2].
    rewrite N.safe_nested. unfold N.nest_okb. rewrite (allor_keep ord Hk fu _ H2 H1). cbn [andb d16_run]. exact (IH neg e H2).
Qed.
End Reduce.

(* ====================================================================================== *)
(* 6. positive trees (no negation, no of(_, 0), no matrix): kept by shake_0, shake_1,      *)
(*    rewrite; on them the D16 part of the run is vacuous                                  *)
(* ====================================================================================== *)
Definition none_of (k : matchk) : bool := match k with MOf c => (c =? 0)%Z | MAll => false end.

Fixpoint posb (e : expr) : bool :=
  match e with
  | EGroup _ l => forallb posb l
  | EBexp l _ r => posb l && posb r
  | EMatch k e' => negb (none_of k) && posb e'
  | ENegate _ => false
  | ENested _ e' => posb e'
  | EMatrix _ _ => false
  | _ => true
  end.

Lemma srch_posb y : S1.srch y = true -> posb y = true.
Proof. destruct y; intros H; try discriminate H. reflexivity. Qed.

Lemma neg_of_pos k : none_of k = false -> N.neg_of false k = false.
Proof. destruct k; intros H; [reflexivity|exact H]. Qed.

Section Pos.
Variable ord : hord.

Lemma merge_body_posb q L f es : (forall x, In x L -> posb x = true) ->
  In (f, es) (amap_iter ord (N.nested_of L)) -> posb (N.merge_body q es) = true.
Proof.
  intros HL Hin. destruct (N.nest_bwd ord L f es Hin) as [Hne Hes].
  assert (Hb : forall b, In b es -> posb b = true).
  { intros b Hb. destruct (Hes b Hb) as [Hin' _]. exact (HL _ Hin'). }
  destruct es as [|x [|y es']]; [congruence | exact (Hb x (or_introl eq_refl)) |].
  assert (Hall : forallb posb (x :: y :: es') = true) by (apply C01.forallb_intro; exact Hb).
  unfold N.merge_body. destruct q; cbn [posb none_of negb andb]; exact Hall.
Qed.

Lemma merged_part_posb fu q L : (forall x, In x L -> posb x = true) ->
  (forall x, posb x = true -> posb (shake1 ord fu x) = true) ->
  forall y, In y (N.merged_part ord (shake1 ord fu) q L) -> posb y = true.
Proof.
  intros HL IH y Hy. unfold N.merged_part in Hy. apply in_map_iff in Hy. destruct Hy as ([f es] & <- & Hin).
  cbn [fst snd posb]. apply IH. exact (merge_body_posb q L f es HL Hin).
Qed.

Lemma and_scratch_posb fu L : (forall x, In x L -> posb x = true) ->
  (forall x, posb x = true -> posb (shake1 ord fu x) = true) ->
  forallb posb (C03_opt.and_scratch ord (shake1 ord fu) L) = true.
Proof.
  intros HL IH. apply C01.forallb_intro. intros y Hy. rewrite N.and_scratch_eq in Hy.
  apply in_app_iff in Hy. destruct Hy as [Hy|Hy].
  - apply filter_In in Hy. exact (HL y (proj1 Hy)).
  - exact (merged_part_posb fu true L HL IH y Hy).
Qed.
Lemma or_scratch_posb fu L : (forall x, In x L -> posb x = true) ->
  (forall x, posb x = true -> posb (shake1 ord fu x) = true) ->
  forallb posb (C03_opt.or_scratch ord (shake1 ord fu) L) = true.
Proof.
  intros HL IH. apply C01.forallb_intro. intros y Hy. rewrite N.or_scratch_eq in Hy.
  apply in_app_iff in Hy. destruct Hy as [Hy|Hy].
  - destruct (S1.or_scratch_members ord L y Hy) as [Hs|Hin]; [exact (srch_posb y Hs) | exact (HL y Hin)].
  - exact (merged_part_posb fu false L HL IH y Hy).
Qed.

Theorem posb_shake1 : forall fu e, posb e = true -> posb (shake1 ord fu e) = true.
Proof.
  induction fu as [|fu IH]; intros e H; [exact H|].
  dex e; try exact H; try discriminate H.
  - cbn [posb] in H.
    set (L := map (shake1 ord fu) g).
    assert (HL : forall x, In x L -> posb x = true).
    { intros x Hx. apply in_map_iff in Hx. destruct Hx as (x0 & <- & Hx0). apply IH. exact (C01.forallb_In _ _ _ H Hx0). }
    assert (Hcol : forall s Sc, forallb posb Sc = true -> posb (match Sc with [x] => x | _ => EGroup s Sc end) = true).
    { intros s0 Sc HSc. destruct Sc as [|x [|y Sc]]; try exact HSc. cbn [forallb] in HSc. rewrite andb_true_r in HSc. exact HSc. }
    destruct s; try (rewrite S1.shake1_group_other by reflexivity; cbn [posb]; apply C01.forallb_intro; exact HL).
    + rewrite N.shake1_and'. fold L. cbv zeta.
      pose proof (and_scratch_posb fu L HL IH) as HSc.
      destruct (negb (length (C03_opt.and_scratch ord (shake1 ord fu) L) =? length g)%nat); [apply IH; exact HSc | apply Hcol; exact HSc].
    + rewrite N.shake1_or'. fold L. cbv zeta.
      pose proof (or_scratch_posb fu L HL IH) as HSc.
      destruct (negb (length (C03_opt.or_scratch ord (shake1 ord fu) L) =? length g)%nat); [apply IH; exact HSc | apply Hcol; exact HSc].
  - cbn [posb shake1] in *. apply andb_prop in H. destruct H as [H1 H2]. rewrite (IH _ H1), (IH _ H2). reflexivity.
  - cbn [posb] in H. apply andb_prop in H. destruct H as [Hq H].
    destruct (C01.is_group_dec e) as [[s0 [g0 ->]]|Hng].
    + cbn [shake1 posb] in *. rewrite Hq. cbn [andb]. apply C01.forallb_intro. intros y Hy. apply in_map_iff in Hy.
      destruct Hy as (x0 & <- & Hx0). apply IH. exact (C01.forallb_In _ _ _ H Hx0).
    + assert (E : shake1 ord (S fu) (EMatch k e) = EMatch k (shake1 ord fu e)).
      { destruct e; try reflexivity. exfalso. exact (Hng _ _ eq_refl). }
      rewrite E. cbn [posb]. rewrite Hq, (IH _ H). reflexivity.
  - cbn [posb shake1] in *. exact (IH _ H).
Qed.

(* the D16 part of the run is vacuous in positive polarity *)
Theorem d16_run_pos : forall fu e, posb e = true -> d16_run ord false fu e = true.
Proof.
  induction fu as [|fu IH]; intros e H; [reflexivity|].
  assert (Hmem : forall l, forallb posb l = true -> forallb (d16_run ord false fu) l = true).
  { intros l Hl. apply C01.forallb_intro. intros x Hx. apply IH. exact (C01.forallb_In _ _ _ Hl Hx). }
  assert (Hent : forall q L, (forall x, In x L -> posb x = true) -> d16_entries ord false fu q L = true).
  { intros q L HL. unfold d16_entries. apply C01.forallb_intro. intros [f es] Hin. cbn [snd].
    apply IH. exact (merge_body_posb q L f es HL Hin). }
  dex e; try reflexivity; try discriminate H.
  - cbn [posb] in H.
    assert (HL : forall x, In x (map (shake1 ord fu) g) -> posb x = true).
    { intros x Hx. apply in_map_iff in Hx. destruct Hx as (x0 & <- & Hx0). apply posb_shake1. exact (C01.forallb_In _ _ _ H Hx0). }
    destruct s; try (exact (Hmem g H)).
    + rewrite d16_and, (Hmem g H), (Hent true _ HL). cbn [andb negb].
      destruct (negb _); [|reflexivity]. apply IH. cbn [posb].
      exact (and_scratch_posb fu _ HL (posb_shake1 fu)).
    + rewrite d16_or, (Hmem g H), (Hent false _ HL). cbn [andb].
      destruct (negb _); [|reflexivity]. apply IH. cbn [posb].
      exact (or_scratch_posb fu _ HL (posb_shake1 fu)).
  - cbn [posb] in H. apply andb_prop in H. destruct H as [H1 H2].
    cbn [d16_run]. rewrite (IH l1 H1), (IH r1 H2). reflexivity.
  - cbn [posb] in H. apply andb_prop in H. destruct H as [Hq H]. apply negb_true_iff in Hq.
    destruct (C01.is_group_dec e) as [[s0 [g0 ->]]|Hng].
    + cbn [d16_run]. rewrite (neg_of_pos k Hq). cbn [posb] in H. exact (Hmem g0 H).
    + assert (E2 : d16_run ord false (S fu) (EMatch k e) = d16_run ord (N.neg_of false k) fu e).
      { destruct e; try reflexivity. exfalso. exact (Hng _ _ eq_refl). }
      rewrite E2, (neg_of_pos k Hq). exact (IH e H).
  - cbn [posb d16_run] in *. exact (IH e H).
Qed.
End Pos.

(* shake1_safe in positive polarity: every kn tree without negation, every fuel *)
Theorem safe_positive ord : S1.ord_keeps ord -> forall fu e, kn e = true -> posb e = true ->
  N.shake1_safe ord false fu e = true.
Proof. intros Hk fu e H1 H2. rewrite (safe_is_d16_run ord Hk fu false e H1). exact (d16_run_pos ord fu e H2). Qed.

(* ====================================================================================== *)
(* 7. shake_0 and rewrite keep the two invariants                                          *)
(* ====================================================================================== *)
Lemma flat_posb : forall s l' r' L, C01.flat s l' r' = Some L ->
  posb l' = true -> posb r' = true -> forallb posb L = true.
Proof.
  intros s l' r' L Hf Hl Hr. unfold C01.flat in Hf.
  destruct (C01.grp s l') as [a|] eqn:G1; destruct (C01.grp s r') as [b|] eqn:G2.
  - injection Hf as <-. apply C01.grp_some in G1. apply C01.grp_some in G2. subst l' r'.
    cbn [posb] in Hl, Hr. rewrite forallb_app, Hl, Hr. reflexivity.
  - injection Hf as <-. apply C01.grp_some in G1. subst l'.
    cbn [posb] in Hl. rewrite forallb_app, Hl. cbn [forallb]. rewrite Hr. reflexivity.
  - injection Hf as <-. apply C01.grp_some in G2. subst r'.
    cbn [posb] in Hr. cbn [forallb]. rewrite Hl, Hr. reflexivity.
  - destruct (C01.bx s l') as [[x y]|] eqn:B1.
    + injection Hf as <-. apply C01.bx_some in B1. subst l'. cbn [posb] in Hl.
      apply andb_true_iff in Hl. destruct Hl as [Hx Hy]. cbn [forallb]. rewrite Hx, Hy, Hr. reflexivity.
    + destruct (C01.bx s r') as [[y z]|] eqn:B2; [|discriminate].
      injection Hf as <-. apply C01.bx_some in B2. subst r'. cbn [posb] in Hr.
      apply andb_true_iff in Hr. destruct Hr as [Hy Hz]. cbn [forallb]. rewrite Hl, Hy, Hz. reflexivity.
Qed.

Lemma posb_shake0 : forall fuel e e', posb e = true -> shake0 fuel e = Ok e' -> posb e' = true.
Proof.
  induction fuel as [|fu IH]; intros e e' Hn H; [injection H as <-; exact Hn|].
  destruct e as [s l|l s r|b|f m|f|z|i|z|k e|cols rows|e|f e| |s f c];
    try (injection H as <-; exact Hn); try discriminate Hn.
  - cbn [shake0] in H. destruct (negb (is_and_or s)); [discriminate|].
    apply C01.bind_ok_inv in H. destruct H as [l' [Hl' H]].
    pose proof (C01.mapM_Forall2 _ _ _ Hl') as HF. cbn [posb] in Hn.
    assert (Hl'n : forallb posb l' = true).
    { eapply C01.Forall2_forallb; [exact HF|]. intros x y Hx Hxy. cbn beta in Hxy.
      apply (IH x y); [apply (C01.forallb_In _ _ _ Hn Hx)|exact Hxy]. }
    destruct l' as [|x [|x2 l'']]; injection H as <-; try exact Hl'n.
    cbn [forallb] in Hl'n. apply andb_true_iff in Hl'n. apply Hl'n.
  - cbn [posb] in Hn. apply andb_true_iff in Hn. destruct Hn as [Hl Hr].
    destruct (is_and_or s) eqn:Hs.
    + rewrite C01.shake0_bexp_andor in H by exact Hs.
      apply C01.bind_ok_inv in H. destruct H as [l' [Hl' H]].
      apply C01.bind_ok_inv in H. destruct H as [r' [Hr' H]].
      pose proof (IH l l' Hl Hl') as Hl'n. pose proof (IH r r' Hr Hr') as Hr'n.
      destruct (C01.flat s l' r') as [L|] eqn:Hflat.
      * apply (IH (EGroup s L) e' (flat_posb s l' r' L Hflat Hl'n Hr'n) H).
      * injection H as <-. cbn [posb]. rewrite Hl'n, Hr'n. reflexivity.
    + rewrite C01.shake0_bexp_cmp in H by exact Hs.
      apply C01.bind_ok_inv in H. destruct H as [l' [Hl' H]].
      apply C01.bind_ok_inv in H. destruct H as [r' [Hr' H]]. injection H as <-.
      cbn [posb]. rewrite (IH l l' Hl Hl'), (IH r r' Hr Hr'). reflexivity.
  - cbn [posb] in Hn. apply andb_true_iff in Hn. destruct Hn as [Hq Hn].
    destruct (C01.shake0_match_inv _ _ _ _ H) as [[s [l [l' [-> [Hl' ->]]]]]|[_ [x [Hx ->]]]].
    + cbn [posb] in *. rewrite Hq. cbn [andb]. eapply C01.Forall2_forallb; [exact (C01.mapM_Forall2 _ _ _ Hl')|].
      intros x y Hx Hxy. cbn beta in Hxy. apply (IH x y); [apply (C01.forallb_In _ _ _ Hn Hx)|exact Hxy].
    + cbn [posb] in *. rewrite Hq. cbn [andb]. apply (IH e x Hn Hx).
  - cbn [shake0] in H. apply C01.bind_ok_inv in H. destruct H as [x [Hx H]]. injection H as <-.
    cbn [posb] in *. exact (IH e x Hn Hx).
Qed.

Lemma forallb_map_ext {A B} (p : B -> bool) (q : A -> bool) (f : A -> B) l :
  (forall x, In x l -> p (f x) = q x) -> forallb p (map f l) = forallb q l.
Proof.
  induction l as [|a l IH]; intros H; [reflexivity|]. cbn [map forallb].
  rewrite (H a (or_introl eq_refl)), IH; [reflexivity|]. intros x Hx. apply H. right. exact Hx.
Qed.

Section Rewrite.
Variable o : oracles.

Lemma posb_rewrite : forall e, posb (rewrite o e) = posb e.
Proof.
  induction e as [e IH] using C01.size_ind.
  dex e; try reflexivity; cbn [rewrite posb].
  - apply forallb_map_ext. intros x Hx. apply IH. exact (C01.size_member _ _ _ Hx).
  - rewrite (IH l1), (IH r1); try (cbn [expr_size]; lia); try reflexivity.
  - rewrite (IH e); [reflexivity | cbn [expr_size]; lia].
  - apply IH. cbn [expr_size]. lia.
Qed.

Lemma is_group_rewrite e : is_group (rewrite o e) = is_group e.
Proof. destruct e; reflexivity. Qed.

Lemma head_allor_rewrite : forall e, C01.head_allor (rewrite o e) = C01.head_allor e.
Proof.
  induction e as [e IH] using C01.size_ind.
  dex e; try reflexivity; cbn [rewrite].
  - destruct g as [|y [|y' g']]; try reflexivity. cbn [map C01.head_allor]. apply IH.
    apply (C01.size_member s [y] y). left. reflexivity.
  - destruct k; [|reflexivity]. destruct e; reflexivity.
Qed.

Lemma nested_ok_rewrite e : C01.nested_ok (rewrite o e) = C01.nested_ok e.
Proof. rewrite !nested_ok_group_iff, is_group_rewrite, head_allor_rewrite. reflexivity. Qed.

Lemma kn_rewrite : forall e, kn (rewrite o e) = kn e.
Proof.
  induction e as [e IH] using C01.size_ind.
  dex e; try reflexivity; cbn [rewrite kn].
  - apply forallb_map_ext. intros x Hx. apply IH. exact (C01.size_member _ _ _ Hx).
  - rewrite (IH l1), (IH r1); try (cbn [expr_size]; lia); try reflexivity.
  - apply IH. cbn [expr_size]. lia.
  - apply IH. cbn [expr_size]. lia.
  - rewrite nested_ok_rewrite, (IH e); [reflexivity | cbn [expr_size]; lia].
Qed.
End Rewrite.

Lemma inv2_kn : forall e, D14.inv2 e = true -> kn e = true.
Proof.
  induction e as [e IH] using C01.size_ind. intros H.
  dex e; try discriminate H; try reflexivity; cbn [D14.inv2] in H; cbn [kn].
  - apply andb_prop in H. destruct H as [_ H]. destruct g as [|a g']; [discriminate H|].
    apply C01.forallb_intro. intros x Hx. apply IH; [exact (C01.size_member _ _ _ Hx) | exact (C01.forallb_In _ _ _ H Hx)].
  - destruct (is_and_or op).
    + apply andb_prop in H. destruct H as [H1 H2].
      rewrite (IH l1), (IH r1); try assumption; try (cbn [expr_size]; lia); try reflexivity.
    + apply andb_prop in H. destruct H as [H1 H2].
      assert (L : forall x, C01.leaf x = true -> kn x = true) by (intros x Hx; destruct x; try discriminate Hx; reflexivity).
      rewrite (L _ H1), (L _ H2). reflexivity.
  - apply andb_prop in H. destruct H as [_ H]. apply IH; [cbn [expr_size]; lia | exact H].
  - apply andb_prop in H. destruct H as [_ H]. apply IH; [cbn [expr_size]; lia | exact H].
  - apply andb_prop in H. destruct H as [H1 H2]. rewrite H1. cbn [andb]. apply IH; [cbn [expr_size]; lia | exact H2].
Qed.

(* has_negative and posb *)
Definition hneg (_ : bool) (x : expr) : bool :=
  match x with ENegate _ => true | EMatch (MOf c) _ => (c =? 0)%Z | _ => false end.

Lemma has_negative_eq e : has_negative e = exists_sub hneg false e.
Proof. reflexivity. Qed.

Lemma posb_no_hneg : forall e n, posb e = true -> exists_sub hneg n e = false.
Proof.
  induction e as [e IH] using C01.size_ind. intros n H.
  dex e; try reflexivity; try discriminate H; cbn [posb] in H; cbn [exists_sub hneg orb].
  - apply CC.existsb_false_all. intros x Hx. apply IH; [exact (C01.size_member _ _ _ Hx) | exact (C01.forallb_In _ _ _ H Hx)].
  - apply andb_prop in H. destruct H as [H1 H2].
    rewrite (IH l1), (IH r1); try assumption; try (cbn [expr_size]; lia); try reflexivity.
  - apply andb_prop in H. destruct H as [Hq H]. apply negb_true_iff in Hq.
    destruct k as [|c]; cbn [exists_sub hneg orb none_of] in *.
    + apply IH; [cbn [expr_size]; lia | exact H].
    + rewrite Hq. cbn [orb]. apply IH; [cbn [expr_size]; lia | exact H].
  - apply IH; [cbn [expr_size]; lia | exact H].
Qed.

Lemma posb_has_negative e : posb e = true -> has_negative e = false.
Proof. intros H. rewrite has_negative_eq. exact (posb_no_hneg e false H). Qed.

Lemma no_hneg_posb : forall e n, CC.pinv e = true -> exists_sub hneg n e = false -> posb e = true.
Proof.
  induction e as [e IH] using C01.size_ind. intros n Hp H.
  dex e; try discriminate Hp; try reflexivity; cbn [exists_sub hneg orb] in H; cbn [posb].
  - destruct (CC.pinv_group _ _ Hp) as (_ & _ & Hl). apply C01.forallb_intro. intros x Hx.
    apply (IH x (C01.size_member _ _ _ Hx) n (Hl x Hx)). exact (C01.existsb_false_In _ _ _ H Hx).
  - apply orb_false_iff in H. destruct H as [H1 H2]. cbn [CC.pinv] in Hp. destruct (is_and_or op).
    + apply andb_prop in Hp. destruct Hp as [P1 P2].
      rewrite (IH l1 ltac:(cbn [expr_size]; lia) n P1 H1), (IH r1 ltac:(cbn [expr_size]; lia) n P2 H2). reflexivity.
    + apply andb_prop in Hp. destruct Hp as [P1 P2].
      assert (L : forall x, C01.leaf x = true -> posb x = true) by (intros x Hx; destruct x; try discriminate Hx; reflexivity).
      rewrite (L _ P1), (L _ P2). reflexivity.
  - cbn [CC.pinv] in Hp. apply andb_prop in Hp. destruct Hp as [_ P2].
    destruct k as [|c]; cbn [exists_sub hneg orb none_of negb andb] in *.
    + apply (IH e ltac:(cbn [expr_size]; lia) n P2 H).
    + apply orb_false_iff in H. destruct H as [H1 H2]. rewrite H1. cbn [negb andb].
      apply (IH e ltac:(cbn [expr_size]; lia) _ P2 H2).
  - discriminate H.
  - cbn [CC.pinv] in Hp. apply andb_prop in Hp. destruct Hp as [_ P2].
    apply (IH e ltac:(cbn [expr_size]; lia) n P2 H).
Qed.

Lemma posb_nodneg : forall e, CC.pinv e = true -> posb e = true -> CC.nodneg e.
Proof.
  intros e Hp H. unfold CC.nodneg, CC.nop.
  assert (G : forall e n, CC.pinv e = true -> posb e = true -> exists_sub C01.dneg_here n e = false).
  { clear e Hp H. induction e as [e IH] using C01.size_ind. intros n Hp H.
    dex e; try discriminate Hp; try discriminate H; try reflexivity; cbn [posb] in H; cbn [exists_sub C01.dneg_here orb].
    - destruct (CC.pinv_group _ _ Hp) as (_ & _ & Hl). apply CC.existsb_false_all. intros x Hx.
      apply (IH x (C01.size_member _ _ _ Hx) n (Hl x Hx)). exact (C01.forallb_In _ _ _ H Hx).
    - apply andb_prop in H. destruct H as [H1 H2]. cbn [CC.pinv] in Hp. destruct (is_and_or op).
      + apply andb_prop in Hp. destruct Hp as [P1 P2].
        rewrite (IH l1 ltac:(cbn [expr_size]; lia) n P1 H1), (IH r1 ltac:(cbn [expr_size]; lia) n P2 H2). reflexivity.
      + apply andb_prop in Hp. destruct Hp as [P1 P2].
        rewrite (C01_loaded.leaf_no_dneg _ _ P1), (C01_loaded.leaf_no_dneg _ _ P2). reflexivity.
    - cbn [CC.pinv] in Hp. apply andb_prop in Hp. destruct Hp as [_ P2].
      apply andb_prop in H. destruct H as [_ H].
      destruct k as [|c]; cbn [exists_sub]; apply (IH e ltac:(cbn [expr_size]; lia) _ P2 H).
    - cbn [CC.pinv] in Hp. apply andb_prop in Hp. destruct Hp as [_ P2].
      apply (IH e ltac:(cbn [expr_size]; lia) n P2 H). }
  exact (G e false Hp H).
Qed.

(* ====================================================================================== *)
(* 8. loaded rules without negation: the two run-following conjuncts of the scope hold     *)
(* ====================================================================================== *)
Definition tree_ok (t : expr) : Prop :=
  CC.pinv t = true /\ (CC.noid t = true \/ C01.no_nested t = true) /\ posb t = true.

Lemma tree_ok_member s l x : tree_ok (EGroup s l) -> In x l -> tree_ok x.
Proof.
  intros (P & K & Q) Hx. destruct (CC.pinv_group _ _ P) as (_ & _ & Hl). split; [exact (Hl x Hx)|]. split.
  - destruct K as [K|K]; [left|right]; exact (C01.forallb_In _ _ _ K Hx).
  - exact (C01.forallb_In _ _ _ Q Hx).
Qed.

Lemma tree_ok_entry b x : tree_ok b -> In x (Scope2.entry_trees b) -> tree_ok x.
Proof.
  intros Hb Hx. destruct b; cbn [Scope2.entry_trees] in Hx; try (destruct Hx as [<-|[]]; exact Hb).
  exact (tree_ok_member _ _ _ Hb Hx).
Qed.

Lemma tree_ok_inv2 x : tree_ok x -> CC.noid x = true -> D14.inv2 x = true.
Proof. intros (P & _ & Q) Hn. exact (CC.pinv_inv2 x P Hn (posb_nodneg x P Q)). Qed.

Lemma staged_tree_ok o ic y r sw : load_rule o ic y = Ok r ->
  existsb has_negative (all_trees (staged sw (r_det r))) = false ->
  forall t, In t (all_trees (staged sw (r_det r))) -> tree_ok t.
Proof.
  intros Hl Hneg t Ht. destruct (CC.staged_pinv o ic y r sw Hl t Ht) as [P K]. split; [exact P|]. split; [exact K|].
  apply (no_hneg_posb t false P). rewrite <- has_negative_eq. exact (C01.existsb_false_In _ _ _ Hneg Ht).
Qed.

Section Loaded.
Variable ord : hord.
Hypothesis Hperm : forall l, Permutation (ord l) l.
Let Hk : S1.ord_keeps ord := S1.perm_ord_keeps ord Hperm.

Lemma shaken0_kn F x : D14.inv2 x = true -> kn (ok_or (shake0 F x) x) = true.
Proof.
  intros Hi. destruct (shake0 F x) as [x'| |] eqn:E; cbn [ok_or]; try exact (inv2_kn _ Hi).
  destruct (D14.shake0_post2 C01.o0 F x x' Hi E) as (Hi' & _). exact (inv2_kn _ Hi').
Qed.

Lemma shaken0_posb F x : posb x = true -> posb (ok_or (shake0 F x) x) = true.
Proof.
  intros H. destruct (shake0 F x) as [x'| |] eqn:E; cbn [ok_or]; try exact H. exact (posb_shake0 F x x' H E).
Qed.

Lemma safe_pos_tree F F' x : tree_ok x -> N.shake1_safe ord false F' (ok_or (shake0 F x) x) = true.
Proof.
  intros Hx. destruct Hx as (P & [Hn|Hn] & Q).
  - apply (safe_positive ord Hk).
    + apply shaken0_kn. apply tree_ok_inv2; [repeat split; auto | exact Hn].
    + apply shaken0_posb. exact Q.
  - apply CC.safe_nn. apply CC.shake0_ok_or_nn. exact Hn.
Qed.

(* dyn_run: the run of shake_1 on the shaken_0 trees is safe *)
Theorem dyn_run_positive : forall o ic sw y r, load_rule o ic y = Ok r ->
  existsb has_negative (all_trees (staged sw (r_det r))) = false ->
  CC.dyn_run ord sw (r_det r) = true.
Proof.
  intros o ic sw y r Hl Hneg. pose proof (staged_tree_ok o ic y r sw Hl Hneg) as HT.
  unfold CC.dyn_run. destruct (sw_shake sw); [|reflexivity]. cbn [negb orb].
  unfold Scope2.run_safe. cbv zeta.
  change (staged (Scope.sw_without_matrix sw) (r_det r)) with (staged sw (r_det r)).
  assert (Hbn : body_neg (staged sw (r_det r)) = false).
  { unfold body_neg. apply (C01.existsb_false_In _ _ _ Hneg). left. reflexivity. }
  rewrite Hbn. apply andb_true_intro. split.
  - unfold shaken0. cbn [fst]. apply safe_pos_tree. apply HT. left. reflexivity.
  - apply C01.forallb_intro. intros b Hb. apply C01.forallb_intro. intros x Hx. cbv zeta.
    apply safe_pos_tree. apply (tree_ok_entry (snd b)); [|exact Hx]. apply HT. right. apply in_map. exact Hb.
Qed.

(* the trees handed to matrix *)
Lemma pm_f_posb o sw x : posb x = true -> posb (CC.pm_f o ord sw x) = true.
Proof.
  intros H. unfold CC.pm_f.
  assert (H1 : posb (if sw_shake sw then ok_or (shake ord x) x else x) = true).
  { destruct (sw_shake sw); [|exact H]. unfold shake.
    destruct (shake0 (shake_fuel x) x) as [e0| |] eqn:E; cbn [bind ok_or]; try exact H.
    apply posb_shake1. exact (posb_shake0 _ _ _ H E). }
  destruct (sw_rewrite sw); [rewrite posb_rewrite|]; exact H1.
Qed.

Lemma pm_f_kn o sw x : D14.inv2 x = true -> kn (CC.pm_f o ord sw x) = true.
Proof.
  intros H. unfold CC.pm_f.
  assert (H1 : kn (if sw_shake sw then ok_or (shake ord x) x else x) = true).
  { destruct (sw_shake sw); [|exact (inv2_kn _ H)]. unfold shake.
    destruct (shake0 (shake_fuel x) x) as [e0| |] eqn:E; cbn [bind ok_or]; try exact (inv2_kn _ H).
    apply (kn_shake1 ord Hk). destruct (D14.shake0_post2 C01.o0 _ x e0 H E) as (Hi' & _). exact (inv2_kn _ Hi'). }
  destruct (sw_rewrite sw); [rewrite kn_rewrite|]; exact H1.
Qed.

Lemma match_safe_pos fu : forall e, kn e = true -> posb e = true -> Scope2.match_safe ord false fu e = true.
Proof.
  induction e as [e IH] using C01.size_ind. intros Hkn Hp.
  dex e; try reflexivity; try discriminate Hp; cbn [kn] in Hkn; cbn [posb] in Hp.
  - cbn [Scope2.match_safe]. apply C01.forallb_intro. intros x Hx.
    apply IH; [exact (C01.size_member _ _ _ Hx) | exact (C01.forallb_In _ _ _ Hkn Hx) | exact (C01.forallb_In _ _ _ Hp Hx)].
  - apply andb_prop in Hkn. destruct Hkn as [K1 K2]. apply andb_prop in Hp. destruct Hp as [P1 P2].
    cbn [Scope2.match_safe]. rewrite (IH l1), (IH r1); try assumption; try (cbn [expr_size]; lia); try reflexivity.
  - apply andb_prop in Hp. destruct Hp as [Hq Hp]. apply negb_true_iff in Hq.
    destruct (C01.is_group_dec e) as [[s0 [g0 ->]]|Hng].
    + cbn [Scope2.match_safe]. change (Scope2.neg_of false k) with (N.neg_of false k). rewrite (neg_of_pos k Hq).
      cbn [kn posb] in Hkn, Hp. apply C01.forallb_intro. intros x Hx.
      exact (safe_positive ord Hk fu x (C01.forallb_In _ _ _ Hkn Hx) (C01.forallb_In _ _ _ Hp Hx)).
    + assert (E : Scope2.match_safe ord false fu (EMatch k e) = Scope2.shake1_safe ord (Scope2.neg_of false k) fu e).
      { destruct e; try reflexivity. exfalso. exact (Hng _ _ eq_refl). }
      rewrite E. change (Scope2.neg_of false k) with (N.neg_of false k). rewrite (neg_of_pos k Hq).
      exact (safe_positive ord Hk fu e Hkn Hp).
  - apply andb_prop in Hkn. destruct Hkn as [_ K2]. cbn [Scope2.match_safe].
    apply IH; [cbn [expr_size]; lia | exact K2 | exact Hp].
Qed.

Lemma match_safe_pm o sw fu x : tree_ok x -> Scope2.match_safe ord false fu (CC.pm_f o ord sw x) = true.
Proof.
  intros Hx. pose proof Hx as (P & [Hn|Hn] & Q).
  - apply match_safe_pos; [apply pm_f_kn; exact (tree_ok_inv2 x Hx Hn) | apply pm_f_posb; exact Q].
  - apply CC.match_safe_nn. apply CC.pm_f_nn. exact Hn.
Qed.

Lemma match_safe_members fu e : Scope2.match_safe ord false fu e = true ->
  forall x, In x (Scope2.entry_trees e) -> Scope2.match_safe ord false fu x = true.
Proof.
  intros H x Hx. destruct e; cbn [Scope2.entry_trees] in Hx; try (destruct Hx as [<-|[]]; exact H).
  cbn [Scope2.match_safe] in H. exact (C01.forallb_In _ _ _ H Hx).
Qed.

Theorem dyn_match_positive : forall o ic sw y r, load_rule o ic y = Ok r ->
  existsb has_negative (all_trees (staged sw (r_det r))) = false ->
  CC.dyn_match o ord sw (r_det r) = true.
Proof.
  intros o ic sw y r Hl Hneg. pose proof (staged_tree_ok o ic y r sw Hl Hneg) as HT.
  unfold CC.dyn_match. cbv zeta. destruct (sw_matrix sw); [|reflexivity]. cbn [negb orb].
  rewrite CC.pre_matrix_eq. cbn [fst snd].
  assert (Hc : tree_ok (fst (staged sw (r_det r)))) by (apply HT; left; reflexivity).
  assert (Hbn : body_neg (CC.pm_f o ord sw (fst (staged sw (r_det r))),
                          map (fun kv => (fst kv, on_entries (CC.pm_f o ord sw) (snd kv))) (snd (staged sw (r_det r)))) = false).
  { unfold body_neg. cbn [fst]. apply posb_has_negative. apply pm_f_posb. apply Hc. }
  rewrite Hbn. apply andb_true_intro. split.
  - apply match_safe_pm. exact Hc.
  - apply C01.forallb_intro. intros b Hb. apply in_map_iff in Hb. destruct Hb as (kv & <- & Hkv). cbn [snd].
    assert (Hb : tree_ok (snd kv)) by (apply HT; right; apply in_map; exact Hkv).
    apply C01.forallb_intro. intros x Hx.
    destruct (snd kv) as [s0 g0| | | | | | | | | | | | |] eqn:Eb;
      try (cbn [on_entries] in Hx; refine (match_safe_members _ _ _ x Hx); apply match_safe_pm; exact Hb).
    cbn [on_entries Scope2.entry_trees] in Hx. apply in_map_iff in Hx. destruct Hx as (x0 & <- & Hx0).
    apply match_safe_pm. exact (tree_ok_member _ _ _ Hb Hx0).
Qed.

(* the statement of Properties/C01_outside.v for rules without negation *)
Theorem scope_complete_positive : forall o ic sw y r,
  load_rule o ic y = Ok r ->
  existsb has_negative (all_trees (staged sw (r_det r))) = false ->
  known_d13 sw (r_det r) = false ->
  known_d16 ord sw (r_det r) = false ->
  known_d17 o ord sw (r_det r) = false ->
  Scope6.c01_scope_quant_all_f o ord sw (r_det r) = true.
Proof.
  intros o ic sw y r Hl Hneg H13 H16 H17.
  apply (CC.scope_complete_alt2 o ic ord sw y r Hl H13 H16 H17).
  - exact (dyn_run_positive o ic sw y r Hl Hneg).
  - exact (dyn_match_positive o ic sw y r Hl Hneg).
Qed.
End Loaded.


(* ====================================================================================== *)
(* 9. NEGATIVE polarity: a static predictor of "shakes to a nested block"                  *)
(*    T x = NP f : a nested block on f that the merge takes (body not an all() list)       *)
(*    T x = NA f : a nested block on f whose body is an all() list (left alone, fix D29)   *)
(*    T x = TO   : anything else                                                           *)
(* ====================================================================================== *)
Inductive ty := NP (f : str) | NA (f : str) | TO.

(* an all() list at the head, through one-member and/or-groups *)
Fixpoint ham (e : expr) : bool :=
  match e with
  | EMatch MAll _ => true
  | EGroup BAnd [y] | EGroup BOr [y] => ham y
  | _ => false
  end.

Definition tnp (T : expr -> ty) (f : str) (y : expr) : bool :=
  match T y with NP g => str_eqb f g | _ => false end.

Fixpoint T (e : expr) : ty :=
  match e with
  | ENested f b => if ham b then NA f else NP f
  | EGroup s l =>
      if is_and_or s then
        match l with
        | [] => TO
        | [x] => T x
        | x :: rest =>
            match T x with
            | NP f => if forallb (tnp T f) rest
                      then (match s with BAnd => NA f | _ => NP f end) else TO
            | _ => TO
            end
        end
      else TO
  | _ => TO
  end.

Definition isTO (t : ty) : bool := match t with TO => true | _ => false end.

(* the invariant on nested bodies: an all() list at the head is there without a group around it *)
Definition bok1 (b : expr) : bool := negb (ham b) || is_all_match b.
Fixpoint sgp (e : expr) : bool :=
  match e with
  | EGroup _ l => forallb sgp l
  | EBexp l _ r => sgp l && sgp r
  | EMatch _ e' | ENegate e' => sgp e'
  | ENested _ b => bok1 b && sgp b
  | _ => true
  end.

(* D16-free at polarity neg: no and-group of two or more members in a negative position has a
   member that is predicted to shake to a nested block *)
Fixpoint Gd (neg : bool) (e : expr) : bool :=
  match e with
  | EGroup BAnd l => forallb (Gd neg) l && (negb (neg && (1 <? length l)%nat) || forallb (fun x => isTO (T x)) l)
  | EGroup _ l => forallb (Gd neg) l
  | EBexp l _ r => Gd neg l && Gd neg r
  | EMatch k (EGroup _ l) => forallb (Gd (N.neg_of neg k)) l
  | EMatch k e' => Gd (N.neg_of neg k) e'
  | ENegate e' => Gd true e'
  | ENested _ b => Gd neg b
  | _ => true
  end.

Definition allNP (f : str) (M : list expr) : Prop := forall y, In y M -> T y = NP f.

Lemma tnp_iff f y : tnp T f y = true <-> T y = NP f.
Proof.
  unfold tnp. destruct (T y) as [g|g|]; split; intros H; try discriminate H.
  - apply S1.str_eqb_eq' in H. subst g. reflexivity.
  - injection H as ->. apply S1.str_eqb_refl'.
Qed.

Lemma forallb_tnp f M : forallb (tnp T f) M = true <-> allNP f M.
Proof.
  unfold allNP. rewrite forallb_forall. split; intros H y Hy; apply tnp_iff; exact (H y Hy).
Qed.

Lemma T_single s y : is_and_or s = true -> T (EGroup s [y]) = T y.
Proof. intros Hs. cbn [T]. rewrite Hs. reflexivity. Qed.

(* a group of two or more *)
Lemma T_long s x y M : is_and_or s = true ->
  T (EGroup s (x :: y :: M)) =
  match T x with
  | NP f => if forallb (tnp T f) (y :: M) then (match s with BAnd => NA f | _ => NP f end) else TO
  | _ => TO
  end.
Proof. intros Hs. cbn [T]. rewrite Hs. reflexivity. Qed.

Lemma T_group_NP s M f : is_and_or s = true -> T (EGroup s M) = NP f ->
  M <> [] /\ allNP f M /\ (s = BAnd -> exists y, M = [y]).
Proof.
  intros Hs H. destruct M as [|x [|y M]].
  - cbn [T] in H. rewrite Hs in H. discriminate H.
  - rewrite (T_single s x Hs) in H. split; [discriminate|]. split; [|eauto].
    intros z [<-|[]]. exact H.
  - rewrite (T_long s x y M Hs) in H. destruct (T x) as [g|g|] eqn:Ex; try discriminate H.
    destruct (forallb (tnp T g) (y :: M)) eqn:Ea; [|discriminate H].
    assert (g = f /\ s <> BAnd) as [-> Hns] by (destruct s; try discriminate Hs; try discriminate H; injection H as ->; split; [reflexivity|discriminate]).
    split; [discriminate|]. split; [|intros E; congruence].
    apply forallb_tnp in Ea. intros z [<-|Hz]; [exact Ex | exact (Ea z Hz)].
Qed.

Lemma T_group_NA s M f : is_and_or s = true -> T (EGroup s M) = NA f ->
  (exists y, M = [y] /\ T y = NA f) \/ (s = BAnd /\ M <> [] /\ allNP f M).
Proof.
  intros Hs H. destruct M as [|x [|y M]].
  - cbn [T] in H. rewrite Hs in H. discriminate H.
  - rewrite (T_single s x Hs) in H. left. eauto.
  - rewrite (T_long s x y M Hs) in H. destruct (T x) as [g|g|] eqn:Ex; try discriminate H.
    destruct (forallb (tnp T g) (y :: M)) eqn:Ea; [|discriminate H].
    assert (g = f /\ s = BAnd) as [-> ->] by (destruct s; try discriminate Hs; try discriminate H; injection H as ->; split; reflexivity).
    right. split; [reflexivity|]. split; [discriminate|].
    apply forallb_tnp in Ea. intros z [<-|Hz]; [exact Ex | exact (Ea z Hz)].
Qed.

Lemma T_group_allNP s M f : is_and_or s = true -> M <> [] -> allNP f M ->
  (s = BOr -> T (EGroup s M) = NP f) /\
  (s = BAnd -> (exists y, M = [y] /\ T (EGroup s M) = NP f) \/ T (EGroup s M) = NA f).
Proof.
  intros Hs Hne Ha. destruct M as [|x [|y M]]; [congruence| |].
  - rewrite (T_single s x Hs). split; intros _; [|left; exists x; split; [reflexivity|]]; apply Ha; left; reflexivity.
  - rewrite (T_long s x y M Hs), (Ha x (or_introl eq_refl)).
    assert (E : forallb (tnp T f) (y :: M) = true) by (apply forallb_tnp; intros z Hz; apply Ha; right; exact Hz).
    rewrite E. split; intros ->; [reflexivity | right; reflexivity].
Qed.

Lemma T_nested f b : T (ENested f b) = if ham b then NA f else NP f.
Proof. reflexivity. Qed.

Lemma T_not_TO_shape x : isTO (T x) = false -> (exists f b, x = ENested f b) \/ (exists s l, x = EGroup s l /\ is_and_or s = true).
Proof.
  destruct x; cbn [T isTO]; intros H; try discriminate H; [|left; eauto].
  right. destruct (is_and_or o) eqn:E; [eauto | discriminate H].
Qed.

Lemma all_match_ham b : is_all_match b = true -> ham b = true.
Proof. destruct b; intros H; try discriminate H. destruct k; [reflexivity|discriminate H]. Qed.

Lemma all_match_shake1 ord fu b : is_all_match b = true -> is_all_match (shake1 ord fu b) = true.
Proof.
  intros H. destruct b; try discriminate H. destruct k; [|discriminate H].
  destruct fu; [reflexivity|]. cbn [shake1]. destruct b; reflexivity.
Qed.

(* a mergeable nested block with a good body is of type NP *)
Lemma is_nest_T y : sgp y = true -> S1.is_nest y = true -> exists f b, y = ENested f b /\ T y = NP f /\ is_all_match b = false.
Proof.
  intros Hs Hn. destruct y; try discriminate Hn. cbn [S1.is_nest] in Hn. apply negb_true_iff in Hn.
  cbn [sgp] in Hs. apply andb_prop in Hs. destruct Hs as [Hb _]. unfold bok1 in Hb. rewrite Hn, orb_false_r in Hb.
  apply negb_true_iff in Hb. exists f, y. rewrite T_nested, Hb. auto.
Qed.

Lemma srch_T y : S1.srch y = true -> T y = TO.
Proof. destruct y; intros H; try discriminate H. reflexivity. Qed.

Lemma ham_pl y : ham y = true -> pl y = true.
Proof. destruct y; intros H; try discriminate H; reflexivity. Qed.

Lemma ham_single s Sc : ham (EGroup s Sc) = true -> exists y, Sc = [y] /\ ham y = true.
Proof. destruct s; destruct Sc as [|y [|y' Sc]]; cbn [ham]; intros H; try discriminate H; eauto. Qed.

Lemma ham_collapse s Sc : ham (match Sc with [x] => x | _ => EGroup s Sc end) = true ->
  exists y, Sc = [y] /\ ham y = true.
Proof. destruct Sc as [|y [|y' Sc]]; intros H; [exact (ham_single _ _ H) | eauto | exact (ham_single _ _ H)]. Qed.

Section Types.
Variable ord : hord.
Hypothesis Hperm : forall l, Permutation (ord l) l.
Let Hk : S1.ord_keeps ord := S1.perm_ord_keeps ord Hperm.

(* HM: like head_allor_shake1, for an all() list of any operand *)
Theorem ham_shake1 : forall fu e, ham (shake1 ord fu e) = true -> ham e = true.
Proof.
  induction fu as [|fu IH]; intros e H; [exact H|].
  dex e; try (cbn [shake1] in H; discriminate H); try exact H.
  - destruct s; try (rewrite S1.shake1_group_other in H by reflexivity; discriminate H).
    + rewrite N.shake1_and' in H. cbv zeta in H.
      set (L := map (shake1 ord fu) g) in *. set (Sc := C03_opt.and_scratch ord (shake1 ord fu) L) in *.
      assert (HS : exists y, Sc = [y] /\ ham y = true).
      { destruct (negb (length Sc =? length g)%nat).
        - apply IH in H. exact (ham_single _ _ H).
        - exact (ham_collapse _ _ H). }
      destruct HS as (y & ESc & Hy).
      pose proof (and_scratch_single ord Hk _ _ _ ESc (ham_pl _ Hy)) as EL.
      destruct (map_single _ _ _ EL) as (x0 & -> & ->). cbn [ham]. exact (IH _ Hy).
    + rewrite N.shake1_or' in H. cbv zeta in H.
      set (L := map (shake1 ord fu) g) in *. set (Sc := C03_opt.or_scratch ord (shake1 ord fu) L) in *.
      assert (HS : exists y, Sc = [y] /\ ham y = true).
      { destruct (negb (length Sc =? length g)%nat).
        - apply IH in H. exact (ham_single _ _ H).
        - exact (ham_collapse _ _ H). }
      destruct HS as (y & ESc & Hy).
      pose proof (or_scratch_single ord Hk _ _ _ ESc (ham_pl _ Hy)) as EL.
      destruct (map_single _ _ _ EL) as (x0 & -> & ->). cbn [ham]. exact (IH _ Hy).
  - destruct (C01.is_group_dec e) as [[s0 [g0 ->]]|Hng].
    + cbn [shake1] in H. destruct k; [reflexivity|discriminate H].
    + assert (E : shake1 ord (S fu) (EMatch k e) = EMatch k (shake1 ord fu e)).
      { destruct e; try reflexivity. exfalso. exact (Hng _ _ eq_refl). }
      rewrite E in H. destruct k; [reflexivity|discriminate H].
Qed.

(* the body invariant is kept *)
Lemma bok1_shake1 fu b : bok1 b = true -> bok1 (shake1 ord fu b) = true.
Proof.
  unfold bok1. intros H. destruct (ham (shake1 ord fu b)) eqn:Eh; [|reflexivity]. cbn [negb orb].
  rewrite (ham_shake1 fu b Eh) in H. cbn [negb orb] in H. exact (all_match_shake1 ord fu b H).
Qed.

Lemma merge_body_sgp q L f es : (forall x, In x L -> sgp x = true) ->
  In (f, es) (amap_iter ord (N.nested_of L)) ->
  sgp (N.merge_body q es) = true /\ bok1 (N.merge_body q es) = true.
Proof.
  intros HL Hin. destruct (N.nest_bwd ord L f es Hin) as [Hne Hes].
  assert (Hb : forall b, In b es -> sgp b = true /\ bok1 b = true).
  { intros b Hb. destruct (Hes b Hb) as [Hin' _]. specialize (HL _ Hin'). cbn [sgp] in HL.
    apply andb_prop in HL. tauto. }
  destruct es as [|x [|y es']]; [congruence | exact (Hb x (or_introl eq_refl)) |].
  assert (Hall : forallb sgp (x :: y :: es') = true) by (apply C01.forallb_intro; intros b Hb'; apply (Hb b Hb')).
  unfold N.merge_body, bok1. destruct q; cbn [sgp ham is_all_match negb orb]; split; try exact Hall; reflexivity.
Qed.

Lemma merged_part_sgp fu q L : (forall x, In x L -> sgp x = true) ->
  (forall x, sgp x = true -> sgp (shake1 ord fu x) = true) ->
  forall y, In y (N.merged_part ord (shake1 ord fu) q L) -> sgp y = true.
Proof.
  intros HL IH y Hy. unfold N.merged_part in Hy. apply in_map_iff in Hy. destruct Hy as ([f es] & <- & Hin).
  cbn [fst snd]. destruct (merge_body_sgp q L f es HL Hin) as [A1 A2].
  cbn [sgp]. rewrite (bok1_shake1 fu _ A2), (IH _ A1). reflexivity.
Qed.

Lemma srch_sgp y : S1.srch y = true -> sgp y = true.
Proof. destruct y; intros H; try discriminate H. reflexivity. Qed.

Lemma and_scratch_sgp fu L : (forall x, In x L -> sgp x = true) ->
  (forall x, sgp x = true -> sgp (shake1 ord fu x) = true) ->
  forallb sgp (C03_opt.and_scratch ord (shake1 ord fu) L) = true.
Proof.
  intros HL IH. apply C01.forallb_intro. intros y Hy. rewrite N.and_scratch_eq in Hy.
  apply in_app_iff in Hy. destruct Hy as [Hy|Hy].
  - apply filter_In in Hy. exact (HL y (proj1 Hy)).
  - exact (merged_part_sgp fu true L HL IH y Hy).
Qed.
Lemma or_scratch_sgp fu L : (forall x, In x L -> sgp x = true) ->
  (forall x, sgp x = true -> sgp (shake1 ord fu x) = true) ->
  forallb sgp (C03_opt.or_scratch ord (shake1 ord fu) L) = true.
Proof.
  intros HL IH. apply C01.forallb_intro. intros y Hy. rewrite N.or_scratch_eq in Hy.
  apply in_app_iff in Hy. destruct Hy as [Hy|Hy].
  - destruct (S1.or_scratch_members ord L y Hy) as [Hs|Hin]; [exact (srch_sgp y Hs) | exact (HL y Hin)].
  - exact (merged_part_sgp fu false L HL IH y Hy).
Qed.

Theorem sgp_shake1 : forall fu e, sgp e = true -> sgp (shake1 ord fu e) = true.
Proof.
  induction fu as [|fu IH]; intros e H; [exact H|].
  dex e; try exact H; try discriminate H.
  - cbn [sgp] in H.
    set (L := map (shake1 ord fu) g).
    assert (HL : forall x, In x L -> sgp x = true).
    { intros x Hx. apply in_map_iff in Hx. destruct Hx as (x0 & <- & Hx0). apply IH. exact (C01.forallb_In _ _ _ H Hx0). }
    assert (Hcol : forall s Sc, forallb sgp Sc = true -> sgp (match Sc with [x] => x | _ => EGroup s Sc end) = true).
    { intros s0 Sc HSc. destruct Sc as [|x [|y Sc]]; try exact HSc. cbn [forallb] in HSc. rewrite andb_true_r in HSc. exact HSc. }
    destruct s; try (rewrite S1.shake1_group_other by reflexivity; cbn [sgp]; apply C01.forallb_intro; exact HL).
    + rewrite N.shake1_and'. fold L. cbv zeta.
      pose proof (and_scratch_sgp fu L HL IH) as HSc.
      destruct (negb (length (C03_opt.and_scratch ord (shake1 ord fu) L) =? length g)%nat); [apply IH; exact HSc | apply Hcol; exact HSc].
    + rewrite N.shake1_or'. fold L. cbv zeta.
      pose proof (or_scratch_sgp fu L HL IH) as HSc.
      destruct (negb (length (C03_opt.or_scratch ord (shake1 ord fu) L) =? length g)%nat); [apply IH; exact HSc | apply Hcol; exact HSc].
  - cbn [sgp shake1] in *. apply andb_prop in H. destruct H as [H1 H2]. rewrite (IH _ H1), (IH _ H2). reflexivity.
  - cbn [sgp] in H. destruct (C01.is_group_dec e) as [[s0 [g0 ->]]|Hng].
    + cbn [shake1 sgp] in *. apply C01.forallb_intro. intros y Hy. apply in_map_iff in Hy.
      destruct Hy as (x0 & <- & Hx0). apply IH. exact (C01.forallb_In _ _ _ H Hx0).
    + assert (E : shake1 ord (S fu) (EMatch k e) = EMatch k (shake1 ord fu e)).
      { destruct e; try reflexivity. exfalso. exact (Hng _ _ eq_refl). }
      rewrite E. cbn [sgp]. exact (IH _ H).
  - cbn [sgp shake1] in *. exact (IH _ H).
  - cbn [sgp shake1] in *. apply andb_prop in H. destruct H as [H1 H2].
    rewrite (bok1_shake1 fu _ H1), (IH _ H2). reflexivity.
Qed.
End Types.

(* ====================================================================================== *)
(* 10. S3: the predictor is sound for shake_1 at EVERY fuel (on sgp trees)                 *)
(* ====================================================================================== *)
Definition keyis (f : str) (x : expr) : bool :=
  match x with ENested g b => negb (is_all_match b) && str_eqb f g | _ => false end.

Lemma nested_len : forall L (m0 : list (key * list expr)) f es,
  lookup f (fold_left S1.push (flat_map N.cls_e L) m0) = Some es ->
  length es = (match lookup f m0 with Some v => length v | None => 0 end + length (filter (keyis f) L))%nat.
Proof.
  induction L as [|x L IH]; intros m0 f es H.
  - cbn [flat_map fold_left] in H. rewrite H. cbn [filter length]. lia.
  - cbn [flat_map] in H. rewrite fold_left_app in H. cbn [filter].
    destruct x; try (cbn [N.cls_e fold_left keyis] in *; exact (IH _ _ _ H)).
    cbn [N.cls_e keyis] in *. destruct (is_all_match x) eqn:Ea; cbn [negb andb fold_left] in *; [exact (IH _ _ _ H)|].
    apply IH in H. unfold S1.push in H. cbn [fst snd] in H. rewrite S1.lookup_push in H.
    destruct (str_eqb f f0) eqn:E.
    + apply S1.str_eqb_eq' in E. subst f0. cbn [length].
      destruct (lookup f m0) as [v|]; [rewrite app_length in H|]; cbn [length] in H; lia.
    + exact H.
Qed.

Section Sound.
Variable ord : hord.
Hypothesis Hperm : forall l, Permutation (ord l) l.
Let Hk : S1.ord_keeps ord := S1.perm_ord_keeps ord Hperm.
Variable fu : nat.
Let sh := shake1 ord fu.

(* the members the merge builds *)
Lemma merged_inv q L y : (forall x, In x L -> sgp x = true) -> In y (N.merged_part ord sh q L) ->
  exists f es, In (f, es) (amap_iter ord (N.nested_of L)) /\ y = ENested f (sh (N.merge_body q es)) /\
    es <> [] /\ (forall b, In b es -> In (ENested f b) L /\ is_all_match b = false /\ ham b = false).
Proof.
  intros HL Hy. unfold N.merged_part in Hy. apply in_map_iff in Hy. destruct Hy as ([f es] & <- & Hin).
  cbn [fst snd]. exists f, es. destruct (N.nest_bwd ord L f es Hin) as [Hne Hes].
  split; [exact Hin|]. split; [reflexivity|]. split; [exact Hne|].
  intros b Hb. destruct (Hes b Hb) as [H1 H2]. split; [exact H1|]. split; [exact H2|].
  specialize (HL _ H1). cbn [sgp] in HL. apply andb_prop in HL. destruct HL as [HL _]. unfold bok1 in HL.
  rewrite H2, orb_false_r in HL. apply negb_true_iff in HL. exact HL.
Qed.

Lemma merged_type q f es : es <> [] -> (forall b, In b es -> ham b = false) ->
  T (ENested f (sh (N.merge_body q es))) = if (q && (1 <? length es)%nat) then NA f else NP f.
Proof.
  intros Hne Hb. rewrite T_nested. destruct es as [|x [|y es']]; [congruence| |].
  - cbn [N.merge_body length Nat.ltb Nat.leb]. rewrite andb_false_r.
    destruct (ham (sh x)) eqn:E; [|reflexivity].
    unfold sh in E. pose proof (Hb x (or_introl eq_refl)) as Hx. rewrite (ham_shake1 ord Hperm fu x E) in Hx. discriminate Hx.
  - unfold N.merge_body. cbn [length Nat.ltb Nat.leb]. destruct q; cbn [andb].
    + unfold sh. rewrite (all_match_ham _ (all_match_shake1 ord fu (EMatch MAll (EGroup BOr (x :: y :: es'))) eq_refl)). reflexivity.
    + destruct (ham (sh (EGroup BOr (x :: y :: es')))) eqn:E; [|reflexivity].
      unfold sh in E. apply (ham_shake1 ord Hperm) in E. discriminate E.
Qed.

(* a merged member of type NP f / NA f has key f *)
Lemma merged_key q L y f : (forall x, In x L -> sgp x = true) -> In y (N.merged_part ord sh q L) ->
  (T y = NP f \/ T y = NA f) ->
  exists es, In (f, es) (amap_iter ord (N.nested_of L)) /\ y = ENested f (sh (N.merge_body q es)) /\
    es <> [] /\ (forall b, In b es -> In (ENested f b) L /\ is_all_match b = false /\ ham b = false).
Proof.
  intros HL Hy HT. destruct (merged_inv q L y HL Hy) as (g & es & Hin & -> & Hne & Hes).
  rewrite (merged_type q g es Hne (fun b Hb => proj2 (proj2 (Hes b Hb)))) in HT.
  assert (g = f) as -> by (destruct (q && _); destruct HT as [HT|HT]; congruence).
  exists es. auto.
Qed.

(* a mergeable member of L whose key's merged block has type with key f *)
Lemma nest_member_key q L Sc z f : (forall x, In x L -> sgp x = true) ->
  (forall y, In y (N.merged_part ord sh q L) -> In y Sc) ->
  (forall y, In y Sc -> T y = NP f \/ T y = NA f) ->
  In z L -> S1.is_nest z = true -> T z = NP f /\ keyis f z = true.
Proof.
  intros HL Hsub HSc Hz Hn. destruct (is_nest_T z (HL z Hz) Hn) as (g & c & -> & HTz & Hc).
  destruct (N.nest_fwd ord L g c Hk Hz Hc) as (es & Hin & _).
  assert (Hy : In (ENested g (sh (N.merge_body q es))) (N.merged_part ord sh q L)).
  { unfold N.merged_part. apply in_map_iff. exists (g, es). split; [reflexivity|exact Hin]. }
  destruct (merged_key q L _ f HL Hy (HSc _ (Hsub _ Hy))) as (es' & _ & E & _). injection E as -> _.
  split; [exact HTz|]. cbn [keyis]. rewrite Hc, S1.str_eqb_refl'. reflexivity.
Qed.

(* ---- and-arm ---- *)
Lemma and_NP L f : (forall x, In x L -> sgp x = true) ->
  T (EGroup BAnd (C03_opt.and_scratch ord sh L)) = NP f -> T (EGroup BAnd L) = NP f.
Proof.
  intros HL H. destruct (T_group_NP BAnd _ f eq_refl H) as (_ & Ha & Hs). destruct (Hs eq_refl) as [y ESc].
  assert (Hy : T y = NP f) by (apply Ha; rewrite ESc; left; reflexivity).
  rewrite N.and_scratch_eq in ESc. destruct (app_single _ _ _ ESc) as [[Ep Em]|[Ep Em]].
  - rewrite (filter_all _ L) in Ep; [rewrite Ep, T_single by reflexivity; exact Hy|].
    intros x Hx. rewrite (merged_part_nil ord Hk _ _ _ Em x Hx). reflexivity.
  - assert (Hym : In y (N.merged_part ord sh true L)) by (rewrite Em; left; reflexivity).
    destruct (merged_key true L y f HL Hym (or_introl Hy)) as (es & Hin & -> & Hne & Hes).
    rewrite (merged_type true f es Hne (fun b Hb => proj2 (proj2 (Hes b Hb)))) in Hy. cbn [andb] in Hy.
    destruct (1 <? length es)%nat eqn:El; [discriminate Hy|]. apply Nat.ltb_ge in El.
    assert (Hall : forall z, In z L -> T z = NP f /\ keyis f z = true).
    { intros z Hz. apply (nest_member_key true L [ENested f (sh (N.merge_body true es))] z f HL); try assumption.
      - intros y' Hy'. rewrite Em in Hy'. exact Hy'.
      - intros y' [<-|[]]. left. rewrite (merged_type true f es Hne (fun b Hb => proj2 (proj2 (Hes b Hb)))).
        cbn [andb]. apply Nat.ltb_ge in El. rewrite El. reflexivity.
      - destruct (S1.is_nest z) eqn:En; [reflexivity|exfalso].
        assert (Hp : In z (filter (fun x => negb (S1.is_nest x)) L)) by (apply filter_In; rewrite En; auto).
        rewrite Ep in Hp. destruct Hp. }
    pose proof (nested_len L [] f es) as Hlen. rewrite <- N.nested_of_eq in Hlen.
    specialize (Hlen (S1.amap_iter_In ord _ f es Hin)). cbn [lookup] in Hlen.
    rewrite (filter_all (keyis f) L (fun z Hz => proj2 (Hall z Hz))) in Hlen.
    destruct L as [|z [|z' L']]; [destruct es; [congruence|cbn [length] in Hlen; lia] | | cbn [length] in Hlen; lia].
    rewrite T_single by reflexivity. exact (proj1 (Hall z (or_introl eq_refl))).
Qed.

Lemma scratch_allNP q L Sc f : (forall x, In x L -> sgp x = true) ->
  (forall y, In y (N.merged_part ord sh q L) -> In y Sc) ->
  (forall z, In z L -> S1.is_nest z = false -> In z Sc \/ exists y, In y Sc /\ S1.srch y = true) ->
  Sc <> [] -> (forall y, In y Sc -> S1.srch y = true \/ In y L \/ In y (N.merged_part ord sh q L)) ->
  allNP f Sc -> L <> [] /\ allNP f L.
Proof.
  intros HL Hsub Hpl Hne Hmem Ha. split.
  - destruct Sc as [|y Sc']; [congruence|]. destruct (Hmem y (or_introl eq_refl)) as [Hs|[Hy|Hy]].
    + pose proof (Ha y (or_introl eq_refl)) as Hy'. rewrite (srch_T y Hs) in Hy'. discriminate Hy'.
    + intros ->. destruct Hy.
    + destruct (merged_inv q L y HL Hy) as (g & es & _ & _ & Hne' & Hes).
      destruct es as [|b es']; [congruence|]. destruct (Hes b (or_introl eq_refl)) as [Hin _]. intros ->. destruct Hin.
  - intros z Hz. destruct (S1.is_nest z) eqn:En.
    + apply (nest_member_key q L Sc z f HL Hsub); try assumption. intros y Hy. left. exact (Ha y Hy).
    + destruct (Hpl z Hz En) as [Hin|(y & Hy & Hs)]; [exact (Ha z Hin)|].
      pose proof (Ha y Hy) as Hy'. rewrite (srch_T y Hs) in Hy'. discriminate Hy'.
Qed.

Lemma and_NA L f : (forall x, In x L -> sgp x = true) ->
  T (EGroup BAnd (C03_opt.and_scratch ord sh L)) = NA f ->
  T (EGroup BAnd L) = NP f \/ T (EGroup BAnd L) = NA f.
Proof.
  intros HL H.
  assert (Hfin : L <> [] -> allNP f L -> T (EGroup BAnd L) = NP f \/ T (EGroup BAnd L) = NA f).
  { intros Hne Ha. destruct (proj2 (T_group_allNP BAnd L f eq_refl Hne Ha) eq_refl) as [(y & _ & E)|E]; auto. }
  destruct (T_group_NA BAnd _ f eq_refl H) as [(y & ESc & Hy)|(_ & Hne & Ha)].
  - rewrite N.and_scratch_eq in ESc. destruct (app_single _ _ _ ESc) as [[Ep Em]|[Ep Em]].
    + rewrite (filter_all _ L) in Ep; [rewrite Ep, T_single by reflexivity; right; exact Hy|].
      intros x Hx. rewrite (merged_part_nil ord Hk _ _ _ Em x Hx). reflexivity.
    + assert (Hym : In y (N.merged_part ord sh true L)) by (rewrite Em; left; reflexivity).
      destruct (merged_key true L y f HL Hym (or_intror Hy)) as (es & Hin & -> & Hne & Hes).
      assert (Hall : forall z, In z L -> T z = NP f).
      { intros z Hz. apply (nest_member_key true L [ENested f (sh (N.merge_body true es))] z f HL); try assumption.
        - intros y' Hy'. rewrite Em in Hy'. exact Hy'.
        - intros y' [<-|[]]. right. exact Hy.
        - destruct (S1.is_nest z) eqn:En; [reflexivity|exfalso].
          assert (Hp : In z (filter (fun x => negb (S1.is_nest x)) L)) by (apply filter_In; rewrite En; auto).
          rewrite Ep in Hp. destruct Hp. }
      apply Hfin; [|exact Hall]. destruct es as [|b es']; [congruence|].
      destruct (Hes b (or_introl eq_refl)) as [Hb _]. intros ->. destruct Hb.
  - destruct (scratch_allNP true L (C03_opt.and_scratch ord sh L) f HL) as [A1 A2]; try assumption.
    + intros y Hy. rewrite N.and_scratch_eq. apply in_app_iff. right. exact Hy.
    + intros z Hz En. left. rewrite N.and_scratch_eq. apply in_app_iff. left. apply filter_In. rewrite En. auto.
    + intros y Hy. rewrite N.and_scratch_eq in Hy. apply in_app_iff in Hy. destruct Hy as [Hy|Hy]; [|auto].
      apply filter_In in Hy. right. left. exact (proj1 Hy).
    + exact (Hfin A1 A2).
Qed.

(* ---- or-arm ---- *)
Lemma srch_survives L z : In z L -> S1.is_nest z = false -> S1.is_rest z = false ->
  exists y, In y (S1.or_scratch ord L) /\ S1.srch y = true.
Proof.
  intros Hz Hn Hr. destruct (S1.cls_total z) as [C|[C|[C|[[kv C]|[kv C]]]]]; try congruence.
  - exists z. split; [apply S1.or_scratch_In; left; auto|]. destruct z; try discriminate C. reflexivity.
  - destruct kv as [k v].
    destruct (S1.amap_fwd (flat_map S1.cls_n L) [] k v) as (vs' & Hl & _); [apply in_flat_map; eauto|].
    exists (S1.needle_expr (k, vs')). split; [|apply S1.needle_expr_srch].
    apply S1.or_scratch_In. right. left. apply in_map. exact (S1.amap_iter_keeps ord _ k vs' Hk Hl).
  - destruct kv as [k v].
    destruct (S1.amap_fwd (flat_map S1.cls_p L) [] k v) as (vs' & Hl & _); [apply in_flat_map; eauto|].
    exists (S1.pat_expr (k, vs')). split; [|apply S1.pat_expr_srch].
    apply S1.or_scratch_In. right. right. left. apply in_map. exact (S1.amap_iter_keeps ord _ k vs' Hk Hl).
Qed.

Lemma or_NP L f : (forall x, In x L -> sgp x = true) ->
  T (EGroup BOr (C03_opt.or_scratch ord sh L)) = NP f -> T (EGroup BOr L) = NP f.
Proof.
  intros HL H. destruct (T_group_NP BOr _ f eq_refl H) as (Hne & Ha & _).
  destruct (scratch_allNP false L (C03_opt.or_scratch ord sh L) f HL) as [A1 A2]; try assumption.
  - intros y Hy. rewrite N.or_scratch_eq. apply in_app_iff. right. exact Hy.
  - intros z Hz En. destruct (S1.is_rest z) eqn:Er.
    + left. rewrite N.or_scratch_eq. apply in_app_iff. left. apply S1.or_scratch_In. right. right. right. auto.
    + right. destruct (srch_survives L z Hz En Er) as (y & Hy & Hs). exists y. split; [|exact Hs].
      rewrite N.or_scratch_eq. apply in_app_iff. left. exact Hy.
  - intros y Hy. rewrite N.or_scratch_eq in Hy. apply in_app_iff in Hy. destruct Hy as [Hy|Hy]; [|auto].
    destruct (S1.or_scratch_members ord L y Hy); auto.
  - exact (proj1 (T_group_allNP BOr L f eq_refl A1 A2) eq_refl).
Qed.

Lemma or_NA L f : (forall x, In x L -> sgp x = true) ->
  T (EGroup BOr (C03_opt.or_scratch ord sh L)) = NA f -> T (EGroup BOr L) = NA f.
Proof.
  intros HL H. destruct (T_group_NA BOr _ f eq_refl H) as [(y & ESc & Hy)|(E & _)]; [|discriminate E].
  rewrite N.or_scratch_eq in ESc. destruct (app_single _ _ _ ESc) as [[Ep Em]|[Ep Em]].
  - assert (Hs : S1.srch y = false).
    { destruct (S1.srch y) eqn:E; [|reflexivity]. rewrite (srch_T y E) in Hy. discriminate Hy. }
    rewrite (or_part_single ord Hk L y Ep Hs (merged_part_nil ord Hk _ _ _ Em)), T_single by reflexivity. exact Hy.
  - exfalso. assert (Hym : In y (N.merged_part ord sh false L)) by (rewrite Em; left; reflexivity).
    destruct (merged_inv false L y HL Hym) as (g & es & _ & -> & Hne & Hes).
    rewrite (merged_type false g es Hne (fun b Hb => proj2 (proj2 (Hes b Hb)))) in Hy. discriminate Hy.
Qed.
End Sound.

Lemma T_collapse s Sc : is_and_or s = true ->
  T (match Sc with [x] => x | _ => EGroup s Sc end) = T (EGroup s Sc).
Proof. intros Hs. destruct Sc as [|x [|y Sc]]; try reflexivity. rewrite T_single by exact Hs. reflexivity. Qed.

Section Run.
Variable ord : hord.
Hypothesis Hperm : forall l, Permutation (ord l) l.
Let Hk : S1.ord_keeps ord := S1.perm_ord_keeps ord Hperm.

Theorem T_shake1 : forall fu x, sgp x = true ->
  (forall f, T (shake1 ord fu x) = NP f -> T x = NP f) /\
  (forall f, T (shake1 ord fu x) = NA f -> T x = NP f \/ T x = NA f).
Proof.
  induction fu as [|fu IH]; intros e Hs; [split; auto|].
  dex e; try (split; intros f0 H; cbn [shake1 T] in H; discriminate H).
  - (* group *)
    cbn [sgp] in Hs.
    destruct (is_and_or s) eqn:Es.
    2:{ rewrite S1.shake1_group_other by exact Es. split; intros f0 H; cbn [T] in H; rewrite Es in H; discriminate H. }
    set (L := map (shake1 ord fu) g).
    assert (HL : forall x, In x L -> sgp x = true).
    { intros x Hx. apply in_map_iff in Hx. destruct Hx as (x0 & <- & Hx0). apply (sgp_shake1 ord Hperm).
      exact (C01.forallb_In _ _ _ Hs Hx0). }
    assert (Hmem : forall f, allNP f L -> allNP f g).
    { intros f Ha x Hx. apply (proj1 (IH x (C01.forallb_In _ _ _ Hs Hx))). apply Ha. apply in_map. exact Hx. }
    assert (LL1 : forall f, T (EGroup s L) = NP f -> T (EGroup s g) = NP f).
    { intros f H. destruct (T_group_NP s L f Es H) as (Hne & Ha & Hsing).
      assert (Hg : g <> []) by (intros ->; apply Hne; reflexivity).
      destruct (T_group_allNP s g f Es Hg (Hmem f Ha)) as [B1 B2].
      destruct s; try discriminate Es; [|exact (B1 eq_refl)].
      destruct (Hsing eq_refl) as [y Ey]. destruct (map_single _ _ _ Ey) as (x0 & -> & ->).
      rewrite T_single by reflexivity. apply (Hmem f Ha). left. reflexivity. }
    assert (LL2 : forall f, T (EGroup s L) = NA f -> T (EGroup s g) = NP f \/ T (EGroup s g) = NA f).
    { intros f H. destruct (T_group_NA s L f Es H) as [(y & Ey & Hy)|(-> & Hne & Ha)].
      - destruct (map_single _ _ _ Ey) as (x0 & -> & ->). rewrite T_single by exact Es.
        apply (proj2 (IH x0 (C01.forallb_In _ _ _ Hs (or_introl eq_refl)))). exact Hy.
      - assert (Hg : g <> []) by (intros ->; apply Hne; reflexivity).
        destruct (proj2 (T_group_allNP BAnd g f eq_refl Hg (Hmem f Ha)) eq_refl) as [(y & _ & E)|E]; auto. }
    destruct s; try discriminate Es.
    + rewrite N.shake1_and'. fold L. cbv zeta.
      set (Sc := C03_opt.and_scratch ord (shake1 ord fu) L).
      pose proof (and_scratch_sgp ord Hperm fu L HL (sgp_shake1 ord Hperm fu)) as HSc.
      assert (R : (forall f, T (if negb (length Sc =? length g)%nat then shake1 ord fu (EGroup BAnd Sc)
                                else match Sc with [x] => x | _ => EGroup BAnd Sc end) = NP f -> T (EGroup BAnd Sc) = NP f) /\
                  (forall f, T (if negb (length Sc =? length g)%nat then shake1 ord fu (EGroup BAnd Sc)
                                else match Sc with [x] => x | _ => EGroup BAnd Sc end) = NA f ->
                             T (EGroup BAnd Sc) = NP f \/ T (EGroup BAnd Sc) = NA f)).
      { destruct (negb (length Sc =? length g)%nat); [exact (IH (EGroup BAnd Sc) HSc)|].
        rewrite T_collapse by reflexivity. split; auto. }
      destruct R as [R1 R2]. split.
      * intros f H. apply LL1. apply (and_NP ord Hperm fu L f HL). exact (R1 f H).
      * intros f H. destruct (R2 f H) as [H'|H'].
        -- left. apply LL1. exact (and_NP ord Hperm fu L f HL H').
        -- destruct (and_NA ord Hperm fu L f HL H') as [H''|H'']; [left; exact (LL1 f H'') | exact (LL2 f H'')].
    + rewrite N.shake1_or'. fold L. cbv zeta.
      set (Sc := C03_opt.or_scratch ord (shake1 ord fu) L).
      pose proof (or_scratch_sgp ord Hperm fu L HL (sgp_shake1 ord Hperm fu)) as HSc.
      assert (R : (forall f, T (if negb (length Sc =? length g)%nat then shake1 ord fu (EGroup BOr Sc)
                                else match Sc with [x] => x | _ => EGroup BOr Sc end) = NP f -> T (EGroup BOr Sc) = NP f) /\
                  (forall f, T (if negb (length Sc =? length g)%nat then shake1 ord fu (EGroup BOr Sc)
                                else match Sc with [x] => x | _ => EGroup BOr Sc end) = NA f ->
                             T (EGroup BOr Sc) = NP f \/ T (EGroup BOr Sc) = NA f)).
      { destruct (negb (length Sc =? length g)%nat); [exact (IH (EGroup BOr Sc) HSc)|].
        rewrite T_collapse by reflexivity. split; auto. }
      destruct R as [R1 R2]. split.
      * intros f H. apply LL1. apply (or_NP ord Hperm fu L f HL). exact (R1 f H).
      * intros f H. destruct (R2 f H) as [H'|H'].
        -- left. apply LL1. exact (or_NP ord Hperm fu L f HL H').
        -- exact (LL2 f (or_NA ord Hperm fu L f HL H')).
  - (* quantifier *)
    split; intros f0 H; cbn [shake1] in H; destruct e; discriminate H.
  - (* nested block *)
    cbn [sgp] in Hs. apply andb_prop in Hs. destruct Hs as [Hb _].
    cbn [shake1]. rewrite !T_nested. split; intros f0 H.
    + destruct (ham (shake1 ord fu e)) eqn:E1; [discriminate H|]. injection H as <-.
      destruct (ham e) eqn:E2; [|reflexivity]. unfold bok1 in Hb. rewrite E2 in Hb. cbn [negb orb] in Hb.
      rewrite (all_match_ham _ (all_match_shake1 ord fu e Hb)) in E1. discriminate E1.
    + assert (f = f0) as -> by (destruct (ham (shake1 ord fu e)); congruence).
      destruct (ham e); auto.
Qed.

Lemma TO_shake1 fu x : sgp x = true -> isTO (T x) = true -> isTO (T (shake1 ord fu x)) = true.
Proof.
  intros Hs H. destruct (T_shake1 fu x Hs) as [A B]. destruct (T (shake1 ord fu x)) as [f|f|] eqn:E; [| |reflexivity].
  - rewrite (A f eq_refl) in H. discriminate H.
  - destruct (B f eq_refl) as [H'|H']; rewrite H' in H; discriminate H.
Qed.

Lemma TO_not_nest y : sgp y = true -> isTO (T y) = true -> S1.is_nest y = false.
Proof.
  intros Hs H. destruct (S1.is_nest y) eqn:E; [|reflexivity].
  destruct (is_nest_T y Hs E) as (f & b & _ & HT & _). rewrite HT in H. discriminate H.
Qed.

Lemma nested_of_plain L : (forall y, In y L -> S1.is_nest y = false) -> N.nested_of L = [].
Proof.
  intros H. apply (S1.fold_nested_none L []). apply CC.existsb_false_all. exact H.
Qed.

Lemma and_scratch_plain sh L : (forall y, In y L -> S1.is_nest y = false) -> C03_opt.and_scratch ord sh L = L.
Proof.
  intros H. rewrite N.and_scratch_eq. unfold N.merged_part. rewrite (nested_of_plain L H), CC.amap_iter_nil.
  cbn [map]. rewrite app_nil_r. apply filter_all. intros x Hx. rewrite (H x Hx). reflexivity.
Qed.

Lemma and_scratch_len1 sh L : (length L <= 1)%nat -> (length (C03_opt.and_scratch ord sh L) <= 1)%nat.
Proof.
  intros Hl. destruct L as [|y [|y' L']]; [| |cbn [length] in Hl; lia].
  - rewrite and_scratch_plain; [cbn; lia | intros y []].
  - destruct (S1.is_nest y) eqn:E.
    + rewrite N.and_scratch_eq. cbn [filter]. rewrite E. cbn [negb app]. unfold N.merged_part. rewrite map_length.
      destruct y; try discriminate E. cbn [S1.is_nest] in E. apply negb_true_iff in E.
      unfold N.nested_of. cbn [fold_left]. rewrite E. cbn [amap_push]. rewrite (N.amap_iter_single ord _ _ Hperm). cbn. lia.
    + rewrite and_scratch_plain; [cbn; lia|]. intros z [<-|[]]. exact E.
Qed.

(* ---- P: Gd is kept by shake_1 ---- *)
Lemma gd_merge_body neg q L f es : (forall x, In x L -> Gd neg x = true) ->
  In (f, es) (amap_iter ord (N.nested_of L)) -> Gd neg (N.merge_body q es) = true.
Proof.
  intros HL Hin. destruct (N.nest_bwd ord L f es Hin) as [Hne Hes].
  assert (Hb : forall b, In b es -> Gd neg b = true).
  { intros b Hb. destruct (Hes b Hb) as [Hin' _]. exact (HL _ Hin'). }
  destruct es as [|x [|y es']]; [congruence | exact (Hb x (or_introl eq_refl)) |].
  assert (Hall : forallb (Gd neg) (x :: y :: es') = true) by (apply C01.forallb_intro; exact Hb).
  unfold N.merge_body. destruct q; cbn [Gd N.neg_of]; exact Hall.
Qed.

Section Step.
Variable fu : nat.
Hypothesis IHP : forall neg e, sgp e = true -> Gd neg e = true -> Gd neg (shake1 ord fu e) = true.

Lemma gd_shaken neg l : forallb sgp l = true -> forallb (Gd neg) l = true ->
  forall y, In y (map (shake1 ord fu) l) -> Gd neg y = true /\ sgp y = true.
Proof.
  intros Hs Hg y Hy. apply in_map_iff in Hy. destruct Hy as (x & <- & Hx). split.
  - apply IHP; [exact (C01.forallb_In _ _ _ Hs Hx) | exact (C01.forallb_In _ _ _ Hg Hx)].
  - apply (sgp_shake1 ord Hperm). exact (C01.forallb_In _ _ _ Hs Hx).
Qed.

Lemma gd_merged neg q L : (forall y, In y L -> Gd neg y = true /\ sgp y = true) ->
  forall y, In y (N.merged_part ord (shake1 ord fu) q L) -> Gd neg y = true.
Proof.
  intros HL y Hy. unfold N.merged_part in Hy. apply in_map_iff in Hy. destruct Hy as ([f es] & <- & Hin).
  cbn [fst snd Gd]. apply IHP.
  - exact (proj1 (merge_body_sgp ord q L f es (fun x Hx => proj2 (HL x Hx)) Hin)).
  - exact (gd_merge_body neg q L f es (fun x Hx => proj1 (HL x Hx)) Hin).
Qed.

Lemma gd_and_scratch neg g : forallb sgp g = true -> Gd neg (EGroup BAnd g) = true ->
  Gd neg (EGroup BAnd (C03_opt.and_scratch ord (shake1 ord fu) (map (shake1 ord fu) g))) = true /\
  (neg && (1 <? length g)%nat = true ->
   C03_opt.and_scratch ord (shake1 ord fu) (map (shake1 ord fu) g) = map (shake1 ord fu) g).
Proof.
  intros Hs Hg. cbn [Gd] in Hg. apply andb_prop in Hg. destruct Hg as [Hm Hc].
  set (L := map (shake1 ord fu) g). pose proof (gd_shaken neg g Hs Hm) as HL. fold L in HL.
  destruct (neg && (1 <? length g)%nat) eqn:Ec; cbn [negb orb] in Hc.
  - assert (HT : forall y, In y L -> isTO (T y) = true).
    { intros y Hy. apply in_map_iff in Hy. destruct Hy as (x & <- & Hx).
      apply TO_shake1; [exact (C01.forallb_In _ _ _ Hs Hx) | exact (C01.forallb_In _ _ _ Hc Hx)]. }
    assert (E : C03_opt.and_scratch ord (shake1 ord fu) L = L).
    { apply and_scratch_plain. intros y Hy. apply TO_not_nest; [exact (proj2 (HL y Hy)) | exact (HT y Hy)]. }
    split; [|intros _; exact E]. rewrite E. cbn [Gd]. apply andb_true_intro. split.
    + apply C01.forallb_intro. intros y Hy. exact (proj1 (HL y Hy)).
    + rewrite (C01.forallb_intro _ L HT). apply orb_true_r.
  - split; [|intros X; discriminate X]. cbn [Gd]. apply andb_true_intro. split.
    + apply C01.forallb_intro. intros y Hy. rewrite N.and_scratch_eq in Hy. apply in_app_iff in Hy. destruct Hy as [Hy|Hy].
      * apply filter_In in Hy. exact (proj1 (HL y (proj1 Hy))).
      * exact (gd_merged neg true L HL y Hy).
    + apply orb_true_iff. left. apply negb_true_iff. apply andb_false_iff in Ec. destruct Ec as [->|Ec]; [reflexivity|].
      apply andb_false_iff. right. apply Nat.ltb_ge in Ec. apply Nat.ltb_ge.
      apply and_scratch_len1. unfold L. rewrite map_length. exact Ec.
Qed.

Lemma gd_or_scratch neg g : forallb sgp g = true -> Gd neg (EGroup BOr g) = true ->
  Gd neg (EGroup BOr (C03_opt.or_scratch ord (shake1 ord fu) (map (shake1 ord fu) g))) = true.
Proof.
  intros Hs Hg. cbn [Gd] in Hg. pose proof (gd_shaken neg g Hs Hg) as HL.
  cbn [Gd]. apply C01.forallb_intro. intros y Hy. rewrite N.or_scratch_eq in Hy. apply in_app_iff in Hy.
  destruct Hy as [Hy|Hy].
  - destruct (S1.or_scratch_members ord _ y Hy) as [Hsr|Hin]; [destruct y; try discriminate Hsr; reflexivity|].
    exact (proj1 (HL y Hin)).
  - exact (gd_merged neg false _ HL y Hy).
Qed.
End Step.

Lemma Gd_collapse neg s Sc : Gd neg (EGroup s Sc) = true -> Gd neg (match Sc with [x] => x | _ => EGroup s Sc end) = true.
Proof.
  intros H. destruct Sc as [|x [|y Sc]]; try exact H.
  destruct s; cbn [Gd forallb] in H; try (rewrite andb_true_r in H; exact H).
  apply andb_prop in H. destruct H as [H _]. rewrite andb_true_r in H. exact H.
Qed.

Theorem Gd_shake1 : forall fu neg e, sgp e = true -> Gd neg e = true -> Gd neg (shake1 ord fu e) = true.
Proof.
  induction fu as [|fu IH]; intros neg e Hs Hg; [exact Hg|].
  dex e; try exact Hg.
  - cbn [sgp] in Hs. destruct s;
      try (rewrite S1.shake1_group_other by reflexivity; cbn [Gd] in *; apply C01.forallb_intro; intros y Hy;
           exact (proj1 (gd_shaken fu IH neg g Hs Hg y Hy))).
    + rewrite N.shake1_and'. cbv zeta. destruct (gd_and_scratch fu IH neg g Hs Hg) as [G1 _].
      destruct (negb _); [|exact (Gd_collapse _ _ _ G1)]. apply IH; [|exact G1].
      cbn [sgp]. apply (and_scratch_sgp ord Hperm fu); [|exact (sgp_shake1 ord Hperm fu)].
      intros y Hy. exact (proj2 (gd_shaken fu IH neg g Hs (proj1 (andb_prop _ _ Hg)) y Hy)).
    + rewrite N.shake1_or'. cbv zeta. pose proof (gd_or_scratch fu IH neg g Hs Hg) as G1.
      destruct (negb _); [|exact (Gd_collapse _ _ _ G1)]. apply IH; [|exact G1].
      cbn [sgp]. apply (or_scratch_sgp ord Hperm fu); [|exact (sgp_shake1 ord Hperm fu)].
      intros y Hy. exact (proj2 (gd_shaken fu IH neg g Hs Hg y Hy)).
  - cbn [sgp Gd shake1] in *. apply andb_prop in Hs. destruct Hs as [S1' S2']. apply andb_prop in Hg. destruct Hg as [G1 G2].
    rewrite (IH neg l1 S1' G1), (IH neg r1 S2' G2). reflexivity.
  - cbn [sgp] in Hs. destruct (C01.is_group_dec e) as [[s0 [g0 ->]]|Hng].
    + cbn [shake1 Gd sgp] in *. apply C01.forallb_intro. intros y Hy.
      exact (proj1 (gd_shaken fu IH _ g0 Hs Hg y Hy)).
    + assert (E : shake1 ord (S fu) (EMatch k e) = EMatch k (shake1 ord fu e)).
      { destruct e; try reflexivity. exfalso. exact (Hng _ _ eq_refl). }
      assert (E1 : forall n e', (forall s l, e' <> EGroup s l) -> Gd n (EMatch k e') = Gd (N.neg_of n k) e').
      { intros n e' Hn. destruct e'; try reflexivity. exfalso. exact (Hn _ _ eq_refl). }
      rewrite E, E1.
      * rewrite E1 in Hg by exact Hng. exact (IH _ e Hs Hg).
      * intros s0 l0 E0. assert (Hgr : is_group (shake1 ord fu e) = true) by (rewrite E0; reflexivity).
        apply shake1_group_shape in Hgr. destruct e; try discriminate Hgr. exact (Hng _ _ eq_refl).
  - cbn [sgp Gd shake1] in *. exact (IH true e Hs Hg).
  - cbn [sgp Gd shake1] in *. apply andb_prop in Hs. destruct Hs as [_ Hs]. exact (IH neg e Hs Hg).
Qed.

(* ---- D: on Gd trees the D16 part of the run holds, every fuel ---- *)
Theorem d16_run_Gd : forall fu neg e, sgp e = true -> Gd neg e = true -> d16_run ord neg fu e = true.
Proof.
  induction fu as [|fu IH]; intros neg e Hs Hg; [reflexivity|].
  assert (Hmem : forall n l, forallb sgp l = true -> forallb (Gd n) l = true -> forallb (d16_run ord n fu) l = true).
  { intros n l Hl Hgl. apply C01.forallb_intro. intros x Hx.
    apply IH; [exact (C01.forallb_In _ _ _ Hl Hx) | exact (C01.forallb_In _ _ _ Hgl Hx)]. }
  assert (Hent : forall q L, (forall y, In y L -> Gd neg y = true /\ sgp y = true) -> d16_entries ord neg fu q L = true).
  { intros q L HL. unfold d16_entries. apply C01.forallb_intro. intros [f es] Hin. cbn [snd]. apply IH.
    - exact (proj1 (merge_body_sgp ord q L f es (fun x Hx => proj2 (HL x Hx)) Hin)).
    - exact (gd_merge_body neg q L f es (fun x Hx => proj1 (HL x Hx)) Hin). }
  dex e; try reflexivity.
  - cbn [sgp] in Hs. destruct s; try (cbn [Gd] in Hg; exact (Hmem neg g Hs Hg)).
    + pose proof Hg as Hg0. cbn [Gd] in Hg. apply andb_prop in Hg. destruct Hg as [Hm Hc].
      pose proof (gd_shaken fu (Gd_shake1 fu) neg g Hs Hm) as HL.
      destruct (gd_and_scratch fu (Gd_shake1 fu) neg g Hs Hg0) as [G1 G2].
      rewrite d16_and, (Hmem neg g Hs Hm), (Hent true _ HL). cbn [andb].
      assert (Hchk : negb (neg && (1 <? length g)%nat && existsb N.merges (map (shake1 ord fu) g)) = true).
      { destruct (neg && (1 <? length g)%nat) eqn:Ec; [|reflexivity]. cbn [negb orb andb] in *.
        apply negb_true_iff. apply CC.existsb_false_all. intros y Hy. rewrite N.merges_nest.
        apply TO_not_nest; [exact (proj2 (HL y Hy))|].
        apply in_map_iff in Hy. destruct Hy as (x & <- & Hx).
        apply TO_shake1; [exact (C01.forallb_In _ _ _ Hs Hx) | exact (C01.forallb_In _ _ _ Hc Hx)]. }
      rewrite Hchk. cbn [andb]. destruct (negb (length _ =? length g)%nat); [|reflexivity]. apply IH; [|exact G1].
      cbn [sgp]. apply (and_scratch_sgp ord Hperm fu); [|exact (sgp_shake1 ord Hperm fu)].
      intros y Hy. exact (proj2 (HL y Hy)).
    + pose proof Hg as Hg0. cbn [Gd] in Hg.
      pose proof (gd_shaken fu (Gd_shake1 fu) neg g Hs Hg) as HL.
      rewrite d16_or, (Hmem neg g Hs Hg), (Hent false _ HL). cbn [andb].
      destruct (negb (length _ =? length g)%nat); [|reflexivity]. apply IH; [|exact (gd_or_scratch fu (Gd_shake1 fu) neg g Hs Hg0)].
      cbn [sgp]. apply (or_scratch_sgp ord Hperm fu); [|exact (sgp_shake1 ord Hperm fu)].
      intros y Hy. exact (proj2 (HL y Hy)).
  - cbn [sgp Gd d16_run] in *. apply andb_prop in Hs. destruct Hs as [S1' S2']. apply andb_prop in Hg. destruct Hg as [G1 G2].
    rewrite (IH neg l1 S1' G1), (IH neg r1 S2' G2). reflexivity.
  - cbn [sgp] in Hs. destruct (C01.is_group_dec e) as [[s0 [g0 ->]]|Hng].
    + cbn [d16_run Gd sgp] in *. exact (Hmem _ g0 Hs Hg).
    + assert (E2 : d16_run ord neg (S fu) (EMatch k e) = d16_run ord (N.neg_of neg k) fu e).
      { destruct e; try reflexivity. exfalso. exact (Hng _ _ eq_refl). }
      assert (E1 : Gd neg (EMatch k e) = Gd (N.neg_of neg k) e).
      { destruct e; try reflexivity. exfalso. exact (Hng _ _ eq_refl). }
      rewrite E2. rewrite E1 in Hg. exact (IH _ e Hs Hg).
  - cbn [sgp Gd d16_run] in *. exact (IH true e Hs Hg).
  - cbn [sgp Gd d16_run] in *. apply andb_prop in Hs. destruct Hs as [_ Hs]. exact (IH neg e Hs Hg).
Qed.

(* shake1_safe on kn + sgp + Gd trees: every fuel, every polarity *)
Theorem safe_of_Gd : forall fu neg e, kn e = true -> sgp e = true -> Gd neg e = true ->
  N.shake1_safe ord neg fu e = true.
Proof.
  intros fu neg e H1 H2 H3. rewrite (safe_is_d16_run ord Hk fu neg e H1). exact (d16_run_Gd fu neg e H2 H3).
Qed.
End Run.

(* ====================================================================================== *)
(* 11. C: the predictor is COMPLETE at the fuel of the classifier: a tree of type NP f /    *)
(*     NA f shakes to a nested block on f for every fuel above hh (<= shake_fuel)          *)
(* ====================================================================================== *)
Fixpoint hh (e : expr) : nat :=
  match e with
  | EGroup _ l => 2 + fold_right (fun x n => Nat.max (hh x) n) 0%nat l
  | _ => 0
  end.

Lemma hh_member s l x : In x l -> (2 + hh x <= hh (EGroup s l))%nat.
Proof.
  intros H. cbn [hh]. induction l as [|a l IH]; [destruct H|]. cbn [fold_right].
  destruct H as [->|H]; [lia|]. specialize (IH H). lia.
Qed.

Lemma hh_size : forall e, (hh e <= 2 * expr_size e)%nat.
Proof.
  induction e as [e IH] using C01.size_ind. destruct e; cbn [hh]; try lia.
  assert (H : forall l0, (forall x, In x l0 -> (hh x <= 2 * expr_size x)%nat) ->
            (fold_right (fun x n => Nat.max (hh x) n) 0 l0 <= 2 * fold_right (fun x n => expr_size x + n) 0 l0)%nat).
  { induction l0 as [|a l0 IHl]; intros Hl; cbn [fold_right]; [lia|].
    pose proof (Hl a (or_introl eq_refl)). specialize (IHl (fun x Hx => Hl x (or_intror Hx))). lia. }
  specialize (H l (fun x Hx => IH x (C01.size_member o l x Hx))). cbn [expr_size]. lia.
Qed.

Lemma hh_fuel e : (hh e <= shake_fuel e)%nat.
Proof. pose proof (hh_size e). unfold shake_fuel. lia. Qed.

Lemma filter_none {A} (p : A -> bool) l : (forall x, In x l -> p x = false) -> filter p l = [].
Proof.
  induction l as [|a l IH]; intros H; [reflexivity|]. cbn [filter].
  rewrite (H a (or_introl eq_refl)). apply IH. intros x Hx. apply H. right. exact Hx.
Qed.

Definition body_of (y : expr) : list expr := match y with ENested _ b => [b] | _ => [] end.

Lemma nested_of_samekey (f : key) : forall L acc,
  (forall y, In y L -> exists b, y = ENested f b /\ is_all_match b = false) ->
  fold_left S1.push (flat_map N.cls_e L) [(f, acc)] = [(f, acc ++ flat_map body_of L)].
Proof.
  induction L as [|y L IH]; intros acc H; cbn [flat_map fold_left]; [rewrite app_nil_r; reflexivity|].
  destruct (H y (or_introl eq_refl)) as (b & -> & Hb). cbn [N.cls_e body_of]. rewrite Hb.
  rewrite fold_left_app. cbn [fold_left]. unfold S1.push at 2. cbn [fst snd amap_push]. rewrite S1.str_eqb_refl'.
  rewrite IH by (intros z Hz; apply H; right; exact Hz). rewrite <- app_assoc. reflexivity.
Qed.

Section Complete.
Variable ord : hord.
Hypothesis Hperm : forall l, Permutation (ord l) l.
Let Hk : S1.ord_keeps ord := S1.perm_ord_keeps ord Hperm.

Lemma nested_of_samekey' (f : key) L :
  (forall y, In y L -> exists b, y = ENested f b /\ is_all_match b = false) -> L <> [] ->
  amap_iter ord (N.nested_of L) = [(f, flat_map body_of L)].
Proof.
  intros H Hne. rewrite N.nested_of_eq. destruct L as [|y L]; [congruence|].
  destruct (H y (or_introl eq_refl)) as (b & -> & Hb). cbn [flat_map N.cls_e body_of]. rewrite Hb.
  rewrite fold_left_app. cbn [fold_left]. unfold S1.push at 2. cbn [fst snd amap_push].
  rewrite (nested_of_samekey f L [b]) by (intros z Hz; apply H; right; exact Hz).
  apply N.amap_iter_single. exact Hperm.
Qed.

Lemma or_part_nosearch L : (forall y, In y L -> S1.srch y = false) -> S1.or_scratch ord L = filter S1.is_rest L.
Proof.
  intros H. unfold S1.or_scratch. cbv zeta.
  destruct (S1.classify_spec L oracc0) as (H1 & H2 & H3 & H4 & _).
  cbn [oracc0 oa_needles oa_patterns oa_any oa_rest app] in H1, H2, H3, H4.
  rewrite H1, H2, H3, H4.
  assert (En : flat_map S1.cls_n L = []).
  { apply CC.flat_map_nil. intros y Hy. specialize (H y Hy). destruct y; try reflexivity. discriminate H. }
  assert (Ep : flat_map S1.cls_p L = []).
  { apply CC.flat_map_nil. intros y Hy. specialize (H y Hy). destruct y; try reflexivity. discriminate H. }
  assert (Ea : filter S1.is_any L = []).
  { apply filter_none. intros y Hy. specialize (H y Hy). destruct y; try reflexivity. discriminate H. }
  rewrite En, Ep, Ea. cbn [fold_left]. rewrite !S1.amap_iter_nil. cbn. reflexivity.
Qed.

Lemma nested_shake_form fu f X : exists X2, shake1 ord fu (ENested f X) = ENested f X2 /\
  (ham X2 = true -> ham X = true) /\ (is_all_match X = true -> is_all_match X2 = true).
Proof.
  destruct fu as [|fu]; [exists X; auto|]. exists (shake1 ord fu X). split; [reflexivity|]. split.
  - exact (ham_shake1 ord Hperm fu X).
  - exact (all_match_shake1 ord fu X).
Qed.

(* one-member groups *)
Lemma single_NP fu s x f b : is_and_or s = true -> shake1 ord fu x = ENested f b ->
  is_all_match b = false -> ham b = false ->
  exists b2, shake1 ord (S fu) (EGroup s [x]) = ENested f b2 /\ is_all_match b2 = false.
Proof.
  intros Hs Hx Hb Hh. exists (shake1 ord fu b).
  assert (Hb2 : is_all_match (shake1 ord fu b) = false).
  { destruct (is_all_match (shake1 ord fu b)) eqn:E; [|reflexivity].
    apply all_match_ham in E. apply (ham_shake1 ord Hperm) in E. congruence. }
  split; [|exact Hb2].
  assert (Em : forall q, N.merged_part ord (shake1 ord fu) q [ENested f b] = [ENested f (shake1 ord fu b)]).
  { intros q. unfold N.merged_part, N.nested_of. cbn [fold_left]. rewrite Hb. cbn [amap_push].
    rewrite (N.amap_iter_single ord f [b] Hperm). reflexivity. }
  destruct s; try discriminate Hs.
  - rewrite N.shake1_and'. cbv zeta. cbn [map]. rewrite Hx, N.and_scratch_eq, Em. cbn [filter S1.is_nest].
    rewrite Hb. reflexivity.
  - rewrite N.shake1_or'. cbv zeta. cbn [map]. rewrite Hx, N.or_scratch_eq, Em.
    rewrite or_part_nosearch by (intros y [<-|[]]; reflexivity). cbn [filter S1.is_rest]. rewrite Hb. reflexivity.
Qed.

Lemma single_NA fu s x f b : is_and_or s = true -> shake1 ord fu x = ENested f b ->
  is_all_match b = true ->
  shake1 ord (S fu) (EGroup s [x]) = ENested f b.
Proof.
  intros Hs Hx Hb.
  assert (Hn : forall y, In y [ENested f b] -> S1.is_nest y = false).
  { intros y [<-|[]]. cbn [S1.is_nest]. rewrite Hb. reflexivity. }
  destruct s; try discriminate Hs.
  - rewrite N.shake1_and'. cbv zeta. cbn [map]. rewrite Hx, (and_scratch_plain ord _ _ Hn). reflexivity.
  - rewrite N.shake1_or'. cbv zeta. cbn [map]. rewrite Hx, N.or_scratch_eq.
    unfold N.merged_part. rewrite (nested_of_plain _ Hn), CC.amap_iter_nil.
    rewrite or_part_nosearch by (intros y [<-|[]]; reflexivity). cbn [filter S1.is_rest map app]. rewrite Hb. reflexivity.
Qed.

(* groups of two or more blocks on one key *)
Lemma long_same_key fu s l f : is_and_or s = true -> (2 <= length l)%nat ->
  (forall x, In x l -> exists b, shake1 ord (S fu) x = ENested f b /\ is_all_match b = false) ->
  exists b2, shake1 ord (S (S fu)) (EGroup s l) = ENested f b2 /\
             is_all_match b2 = match s with BAnd => true | _ => false end.
Proof.
  intros Hs Hlen Hl.
  set (L := map (shake1 ord (S fu)) l).
  assert (HL : forall y, In y L -> exists b, y = ENested f b /\ is_all_match b = false).
  { intros y Hy. apply in_map_iff in Hy. destruct Hy as (x & <- & Hx). exact (Hl x Hx). }
  assert (HLne : L <> []) by (unfold L; destruct l; [cbn [length] in Hlen; lia | discriminate]).
  pose proof (nested_of_samekey' f L HL HLne) as Enest.
  set (es := flat_map body_of L) in *.
  assert (Hes : (2 <= length es)%nat).
  { assert (E : length es = length L).
    { unfold es. clear -HL. induction L as [|y L IH]; [reflexivity|]. cbn [flat_map].
      destruct (HL y (or_introl eq_refl)) as (b & -> & _). cbn [body_of app length]. f_equal.
      apply IH. intros z Hz. apply HL. right. exact Hz. }
    rewrite E. unfold L. rewrite map_length. exact Hlen. }
  assert (Hnest : forall y, In y L -> S1.is_nest y = true).
  { intros y Hy. destruct (HL y Hy) as (b & -> & Hb). cbn [S1.is_nest]. rewrite Hb. reflexivity. }
  assert (Hmb : forall q, N.merged_part ord (shake1 ord (S fu)) q L = [ENested f (shake1 ord (S fu) (N.merge_body q es))]).
  { intros q. unfold N.merged_part. rewrite Enest. reflexivity. }
  assert (Hmbody : forall q, N.merge_body q es = if q then EMatch MAll (EGroup BOr es) else EGroup BOr es).
  { intros q. destruct es as [|a [|a' es']]; cbn [length] in Hes; try lia. reflexivity. }
  assert (Hneq : (1 =? length l)%nat = false) by (apply Nat.eqb_neq; lia).
  destruct s; try discriminate Hs.
  - rewrite N.shake1_and'. fold L. cbv zeta. rewrite N.and_scratch_eq, Hmb, Hmbody.
    rewrite (filter_none _ L) by (intros y Hy; rewrite (Hnest y Hy); reflexivity).
    cbn [app length]. rewrite Hneq. cbn [negb].
    destruct (nested_shake_form fu f (shake1 ord (S fu) (EMatch MAll (EGroup BOr es)))) as (Y2 & E2 & _ & A2).
    rewrite (single_NA fu BAnd _ f Y2 eq_refl E2); [eexists; split; [reflexivity|]|].
    + apply A2. apply all_match_shake1. reflexivity.
    + apply A2. apply all_match_shake1. reflexivity.
  - rewrite N.shake1_or'. fold L. cbv zeta. rewrite N.or_scratch_eq, Hmb, Hmbody.
    rewrite or_part_nosearch by (intros y Hy; destruct (HL y Hy) as (b & -> & _); reflexivity).
    rewrite (filter_none _ L) by (intros y Hy; destruct (HL y Hy) as (b & -> & Hb); cbn [S1.is_rest]; exact Hb).
    cbn [app length]. rewrite Hneq. cbn [negb].
    destruct (nested_shake_form fu f (shake1 ord (S fu) (EGroup BOr es))) as (X2 & E2 & A1 & _).
    assert (HX2 : ham X2 = false).
    { apply not_true_is_false. intros E. apply A1 in E. apply (ham_shake1 ord Hperm) in E.
      destruct es as [|a [|a' es']]; cbn [length] in Hes; try lia. discriminate E. }
    assert (HX2' : is_all_match X2 = false).
    { apply not_true_is_false. intros E. apply all_match_ham in E. congruence. }
    exact (single_NP fu BOr _ f X2 eq_refl E2 HX2' HX2).
Qed.

Theorem T_complete : forall e, sgp e = true -> forall fu, (hh e <= fu)%nat ->
  (forall f, T e = NP f -> exists b, shake1 ord fu e = ENested f b /\ is_all_match b = false) /\
  (forall f, T e = NA f -> exists b, shake1 ord fu e = ENested f b /\ is_all_match b = true).
Proof.
  induction e as [e IH] using C01.size_ind. intros Hs fu Hfu.
  dex e; try (split; intros f0 H; discriminate H).
  - (* group *)
    cbn [sgp] in Hs. destruct (is_and_or s) eqn:Es; [|split; intros f0 H; cbn [T] in H; rewrite Es in H; discriminate H].
    destruct g as [|x [|y g']]; [split; intros f0 H; cbn [T] in H; rewrite Es in H; discriminate H| |].
    + (* one member *)
      rewrite (T_single s x Es). pose proof (hh_member s [x] x (or_introl eq_refl)) as Hh.
      destruct fu as [|fu]; [lia|].
      assert (Hsx : sgp x = true) by (cbn [forallb] in Hs; rewrite andb_true_r in Hs; exact Hs).
      destruct (IH x (C01.size_member s [x] x (or_introl eq_refl)) Hsx fu ltac:(lia)) as [A B].
      pose proof (sgp_shake1 ord Hperm fu x Hsx) as Hsx'.
      split; intros f0 H.
      * destruct (A f0 H) as (b & Eb & Hb). apply (single_NP fu s x f0 b Es Eb Hb).
        rewrite Eb in Hsx'. cbn [sgp] in Hsx'. apply andb_prop in Hsx'. destruct Hsx' as [Hk' _].
        unfold bok1 in Hk'. rewrite Hb, orb_false_r in Hk'. apply negb_true_iff in Hk'. exact Hk'.
      * destruct (B f0 H) as (b & Eb & Hb). exists b. split; [exact (single_NA fu s x f0 b Es Eb Hb) | exact Hb].
    + (* two or more *)
      rewrite (T_long s x y g' Es).
      destruct (T x) as [g0|g0|] eqn:Ex; try (split; intros f0 H; discriminate H).
      destruct (forallb (tnp T g0) (y :: g')) eqn:Ea; [|split; intros f0 H; discriminate H].
      apply forallb_tnp in Ea.
      assert (Hall : forall z, In z (x :: y :: g') -> T z = NP g0) by (intros z [<-|Hz]; [exact Ex | exact (Ea z Hz)]).
      assert (Hfu2 : exists fu2, fu = S (S fu2)).
      { pose proof (hh_member s (x :: y :: g') x (or_introl eq_refl)). destruct fu as [|[|fu2]]; try lia. eauto. }
      destruct Hfu2 as [fu2 ->].
      destruct (long_same_key fu2 s (x :: y :: g') g0 Es ltac:(cbn [length]; lia)) as (b2 & E2 & F2).
      { intros z Hz. pose proof (hh_member s (x :: y :: g') z Hz) as Hh.
        exact (proj1 (IH z (C01.size_member s _ z Hz) (C01.forallb_In _ _ _ Hs Hz) (S fu2) ltac:(lia)) g0 (Hall z Hz)). }
      destruct s; try discriminate Es; split; intros f0 H; try discriminate H; injection H as <-; exists b2; auto.
  - (* nested *)
    cbn [sgp] in Hs. apply andb_prop in Hs. destruct Hs as [Hb _]. rewrite T_nested.
    destruct (nested_shake_form fu f e) as (X2 & E2 & A1 & A2).
    split; intros f0 H.
    + destruct (ham e) eqn:Eh; [discriminate H|]. injection H as <-. exists X2. split; [exact E2|].
      apply not_true_is_false. intros E. apply all_match_ham in E. apply A1 in E. congruence.
    + destruct (ham e) eqn:Eh; [|discriminate H]. injection H as <-. exists X2. split; [exact E2|].
      apply A2. unfold bok1 in Hb. rewrite Eh in Hb. exact Hb.
Qed.

Corollary T_nested_full m : sgp m = true -> isTO (T m) = false -> is_nested (shake1 ord (shake_fuel m) m) = true.
Proof.
  intros Hs H. destruct (T_complete m Hs (shake_fuel m) (hh_fuel m)) as [A B].
  destruct (T m) as [f|f|] eqn:E; [| |discriminate H].
  - destruct (A f eq_refl) as (b & -> & _). reflexivity.
  - destruct (B f eq_refl) as (b & -> & _). reflexivity.
Qed.
End Complete.

(* ====================================================================================== *)
(* 12. from the classifier to Gd; Gd and the polarity; rewrite; match_safe                 *)
(* ====================================================================================== *)
Lemma neg_of_eq neg k : N.neg_of neg k = match k with MOf c => neg || (c =? 0)%Z | MAll => neg end.
Proof. reflexivity. Qed.

Section Classifier.
Variable ord : hord.
Hypothesis Hperm : forall l, Permutation (ord l) l.

(* outside D16 (the classifier runs shake_1 with the fuel shake_fuel m on every member m of an
   and-group in a negative position) the tree is D16-free in the static sense *)
Theorem Gd_of_not_d16 : forall e neg, sgp e = true -> exists_sub (d16_here ord) neg e = false -> Gd neg e = true.
Proof.
  induction e as [e IH] using C01.size_ind. intros neg Hs H.
  dex e; try reflexivity; cbn [exists_sub] in H; apply orb_false_iff in H; destruct H as [Hh H]; cbn [sgp] in Hs.
  - assert (Hm : forallb (Gd neg) g = true).
    { apply C01.forallb_intro. intros x Hx.
      apply IH; [exact (C01.size_member _ _ _ Hx) | exact (C01.forallb_In _ _ _ Hs Hx) | exact (C01.existsb_false_In _ _ _ H Hx)]. }
    destruct s; try exact Hm. cbn [Gd]. rewrite Hm. cbn [andb].
    unfold d16_here in Hh. destruct (neg && (1 <? length g)%nat) eqn:Ec; [|reflexivity]. cbn [negb orb].
    assert (Hex : existsb (fun m => is_nested (shake1 ord (shake_fuel m) m)) g = false).
    { destruct neg; [|discriminate Ec]. cbn [andb] in Ec, Hh. rewrite Ec in Hh. exact Hh. }
    apply C01.forallb_intro. intros x Hx. pose proof (C01.existsb_false_In _ _ _ Hex Hx) as Hn. cbn beta in Hn.
    destruct (isTO (T x)) eqn:Et; [reflexivity|].
    rewrite (T_nested_full ord Hperm x (C01.forallb_In _ _ _ Hs Hx) Et) in Hn. discriminate Hn.
  - apply orb_false_iff in H. destruct H as [H1 H2]. apply andb_prop in Hs. destruct Hs as [S1' S2'].
    cbn [Gd]. rewrite (IH l1), (IH r1); try assumption; try (cbn [expr_size]; lia); try reflexivity.
  - assert (Hsub : exists_sub (d16_here ord) (N.neg_of neg k) e = false) by (destruct k; exact H).
    destruct (C01.is_group_dec e) as [[s0 [g0 ->]]|Hng].
    + cbn [Gd]. cbn [exists_sub] in Hsub. apply orb_false_iff in Hsub. destruct Hsub as [_ Hsub]. cbn [sgp] in Hs.
      apply C01.forallb_intro. intros x Hx.
      apply IH; [| exact (C01.forallb_In _ _ _ Hs Hx) | exact (C01.existsb_false_In _ _ _ Hsub Hx)].
      pose proof (C01.size_member s0 g0 x Hx). cbn [expr_size] in *. lia.
    + assert (E1 : Gd neg (EMatch k e) = Gd (N.neg_of neg k) e).
      { destruct e; try reflexivity. exfalso. exact (Hng _ _ eq_refl). }
      rewrite E1. apply IH; [cbn [expr_size]; lia | exact Hs | exact Hsub].
  - cbn [Gd]. apply IH; [cbn [expr_size]; lia | exact Hs | exact H].
  - apply andb_prop in Hs. destruct Hs as [_ Hs]. cbn [Gd]. apply IH; [cbn [expr_size]; lia | exact Hs | exact H].
Qed.
End Classifier.

(* Gd at negative polarity is the stronger one *)
Lemma Gd_mono : forall e neg, Gd true e = true -> Gd neg e = true.
Proof.
  induction e as [e IH] using C01.size_ind. intros neg H. destruct neg; [exact H|].
  dex e; try reflexivity.
  - assert (Hm : forallb (Gd true) g = true -> forallb (Gd false) g = true).
    { intros Hg. apply C01.forallb_intro. intros x Hx. apply IH; [exact (C01.size_member _ _ _ Hx) | exact (C01.forallb_In _ _ _ Hg Hx)]. }
    destruct s; cbn [Gd] in *; try (exact (Hm H)).
    apply andb_prop in H. destruct H as [H _]. rewrite (Hm H). reflexivity.
  - cbn [Gd] in *. apply andb_prop in H. destruct H as [H1 H2].
    rewrite (IH l1), (IH r1); try assumption; try (cbn [expr_size]; lia); try reflexivity.
  - destruct (C01.is_group_dec e) as [[s0 [g0 ->]]|Hng].
    + cbn [Gd] in *. assert (En : N.neg_of true k = true) by (destruct k; reflexivity). rewrite En in H.
      apply C01.forallb_intro. intros x Hx. apply IH; [|exact (C01.forallb_In _ _ _ H Hx)].
      pose proof (C01.size_member s0 g0 x Hx). cbn [expr_size] in *. lia.
    + assert (E1 : forall n, Gd n (EMatch k e) = Gd (N.neg_of n k) e).
      { intros n. destruct e; try reflexivity. exfalso. exact (Hng _ _ eq_refl). }
      rewrite E1 in *. assert (En : N.neg_of true k = true) by (destruct k; reflexivity). rewrite En in H.
      apply IH; [cbn [expr_size]; lia | exact H].
  - exact H.
  - cbn [Gd] in *. apply IH; [cbn [expr_size]; lia | exact H].
Qed.

Lemma Gd_weaken neg neg' e : (neg' = true -> neg = true) -> Gd neg e = true -> Gd neg' e = true.
Proof.
  intros Hn H. destruct neg'; [|destruct neg; [apply Gd_mono|]; exact H]. rewrite (Hn eq_refl) in H. exact H.
Qed.

(* rewrite changes search patterns only *)
Section RewriteT.
Variable o : oracles.

Lemma ham_rewrite : forall e, ham (rewrite o e) = ham e.
Proof.
  induction e as [e IH] using C01.size_ind.
  dex e; try reflexivity; cbn [rewrite].
  - destruct g as [|y [|y' g']]; destruct s; try reflexivity; cbn [map ham]; apply IH;
      apply (C01.size_member _ [y] y); left; reflexivity.
Qed.

Lemma is_all_match_rewrite e : is_all_match (rewrite o e) = is_all_match e.
Proof. destruct e; reflexivity. Qed.

Lemma T_rewrite : forall e, T (rewrite o e) = T e.
Proof.
  induction e as [e IH] using C01.size_ind.
  dex e; try reflexivity; cbn [rewrite].
  - destruct (is_and_or s) eqn:Es; [|cbn [T]; rewrite Es; reflexivity].
    assert (Hm : forall x, In x g -> T (rewrite o x) = T x) by (intros x Hx; apply IH; exact (C01.size_member _ _ _ Hx)).
    destruct g as [|x [|y g']]; [reflexivity| |].
    + cbn [map]. rewrite !T_single by exact Es. apply Hm. left. reflexivity.
    + cbn [map]. rewrite !T_long by exact Es. rewrite (Hm x (or_introl eq_refl)).
      destruct (T x) as [f0|f0|]; try reflexivity.
      assert (E : forallb (tnp T f0) (rewrite o y :: map (rewrite o) g') = forallb (tnp T f0) (y :: g')).
      { change (rewrite o y :: map (rewrite o) g') with (map (rewrite o) (y :: g')).
        apply forallb_map_ext. intros z Hz. unfold tnp. rewrite (Hm z (or_intror Hz)). reflexivity. }
      rewrite E. reflexivity.
  - rewrite !T_nested, ham_rewrite. reflexivity.
Qed.

Lemma sgp_rewrite : forall e, sgp (rewrite o e) = sgp e.
Proof.
  induction e as [e IH] using C01.size_ind.
  dex e; try reflexivity; cbn [rewrite sgp].
  - apply forallb_map_ext. intros x Hx. apply IH. exact (C01.size_member _ _ _ Hx).
  - rewrite (IH l1), (IH r1); try (cbn [expr_size]; lia); try reflexivity.
  - apply IH. cbn [expr_size]. lia.
  - apply IH. cbn [expr_size]. lia.
  - unfold bok1. rewrite ham_rewrite, is_all_match_rewrite, (IH e); [reflexivity | cbn [expr_size]; lia].
Qed.

Lemma Gd_rewrite : forall e neg, Gd neg (rewrite o e) = Gd neg e.
Proof.
  induction e as [e IH] using C01.size_ind. intros neg.
  dex e; try reflexivity; cbn [rewrite].
  - assert (Hm : forall n, forallb (Gd n) (map (rewrite o) g) = forallb (Gd n) g).
    { intros n. apply forallb_map_ext. intros x Hx. apply IH. exact (C01.size_member _ _ _ Hx). }
    destruct s; cbn [Gd]; try apply Hm. rewrite Hm, map_length. f_equal. f_equal.
    apply forallb_map_ext. intros x Hx. rewrite T_rewrite. reflexivity.
  - cbn [Gd]. rewrite (IH l1), (IH r1); try (cbn [expr_size]; lia); try reflexivity.
  - destruct (C01.is_group_dec e) as [[s0 [g0 ->]]|Hng].
    + cbn [rewrite Gd]. apply forallb_map_ext. intros x Hx. apply IH.
      pose proof (C01.size_member s0 g0 x Hx). cbn [expr_size] in *. lia.
    + assert (E1 : forall e', (forall s l, e' <> EGroup s l) -> Gd neg (EMatch k e') = Gd (N.neg_of neg k) e').
      { intros e' Hn. destruct e'; try reflexivity. exfalso. exact (Hn _ _ eq_refl). }
      rewrite !E1; [apply IH; cbn [expr_size]; lia | exact Hng |].
      intros s0 l0 E0. destruct e; try discriminate E0. exact (Hng _ _ eq_refl).
  - cbn [Gd]. apply IH. cbn [expr_size]. lia.
  - cbn [Gd]. apply IH. cbn [expr_size]. lia.
Qed.

Lemma hneg_rewrite : forall e n, exists_sub hneg n (rewrite o e) = exists_sub hneg n e.
Proof.
  induction e as [e IH] using C01.size_ind. intros n.
  dex e; try reflexivity; cbn [rewrite exists_sub hneg orb].
  - induction g as [|a g IHg]; [reflexivity|]. cbn [map existsb].
    rewrite (IH a (C01.size_member s (a :: g) a (or_introl eq_refl))). f_equal. apply IHg.
    intros e' He'. apply IH. cbn [expr_size fold_right] in *. lia.
  - rewrite (IH l1), (IH r1); try (cbn [expr_size]; lia); try reflexivity.
  - destruct k; cbn [exists_sub hneg]; rewrite IH; try reflexivity; cbn [expr_size]; lia.
  - apply IH. cbn [expr_size]. lia.
Qed.
End RewriteT.

(* the runs of shake_1 that matrix starts on quantifier operands *)
Lemma match_safe_Gd ord (Hperm : forall l, Permutation (ord l) l) fu : forall e neg,
  kn e = true -> sgp e = true -> Gd neg e = true -> Scope2.match_safe ord neg fu e = true.
Proof.
  induction e as [e IH] using C01.size_ind. intros neg Hkn Hs Hg.
  dex e; try reflexivity; cbn [kn] in Hkn; cbn [sgp] in Hs.
  - cbn [Scope2.match_safe]. apply C01.forallb_intro. intros x Hx.
    apply IH; [exact (C01.size_member _ _ _ Hx) | exact (C01.forallb_In _ _ _ Hkn Hx) | exact (C01.forallb_In _ _ _ Hs Hx) |].
    destruct s; cbn [Gd] in Hg; try exact (C01.forallb_In _ _ _ Hg Hx).
    apply andb_prop in Hg. exact (C01.forallb_In _ _ _ (proj1 Hg) Hx).
  - apply andb_prop in Hkn. destruct Hkn as [K1 K2]. apply andb_prop in Hs. destruct Hs as [S1' S2'].
    cbn [Gd] in Hg. apply andb_prop in Hg. destruct Hg as [G1 G2].
    cbn [Scope2.match_safe]. rewrite (IH l1), (IH r1); try assumption; try (cbn [expr_size]; lia); try reflexivity.
  - destruct (C01.is_group_dec e) as [[s0 [g0 ->]]|Hng].
    + cbn [Scope2.match_safe]. change (Scope2.neg_of neg k) with (N.neg_of neg k).
      cbn [kn sgp Gd] in Hkn, Hs, Hg. apply C01.forallb_intro. intros x Hx.
      exact (safe_of_Gd ord Hperm fu _ x (C01.forallb_In _ _ _ Hkn Hx) (C01.forallb_In _ _ _ Hs Hx) (C01.forallb_In _ _ _ Hg Hx)).
    + assert (E : Scope2.match_safe ord neg fu (EMatch k e) = Scope2.shake1_safe ord (Scope2.neg_of neg k) fu e).
      { destruct e; try reflexivity. exfalso. exact (Hng _ _ eq_refl). }
      assert (E1 : Gd neg (EMatch k e) = Gd (N.neg_of neg k) e).
      { destruct e; try reflexivity. exfalso. exact (Hng _ _ eq_refl). }
      rewrite E. rewrite E1 in Hg. change (Scope2.neg_of neg k) with (N.neg_of neg k).
      exact (safe_of_Gd ord Hperm fu _ e Hkn Hs Hg).
  - cbn [Scope2.match_safe Gd] in *. apply IH; [cbn [expr_size]; lia | exact Hkn | exact Hs | exact Hg].
  - apply andb_prop in Hkn. destruct Hkn as [_ K2]. apply andb_prop in Hs. destruct Hs as [_ S2'].
    cbn [Scope2.match_safe Gd] in *. apply IH; [cbn [expr_size]; lia | exact K2 | exact S2' | exact Hg].
Qed.

(* ====================================================================================== *)
(* 13. shake_0 keeps sgp (on inv2 trees) and the presence of a negation (on invc2 trees)   *)
(* ====================================================================================== *)
Lemma flat_sgp : forall s l' r' L, C01.flat s l' r' = Some L ->
  sgp l' = true -> sgp r' = true -> forallb sgp L = true.
Proof.
  intros s l' r' L Hf Hl Hr. unfold C01.flat in Hf.
  destruct (C01.grp s l') as [a|] eqn:G1; destruct (C01.grp s r') as [b|] eqn:G2.
  - injection Hf as <-. apply C01.grp_some in G1. apply C01.grp_some in G2. subst l' r'.
    cbn [sgp] in Hl, Hr. rewrite forallb_app, Hl, Hr. reflexivity.
  - injection Hf as <-. apply C01.grp_some in G1. subst l'.
    cbn [sgp] in Hl. rewrite forallb_app, Hl. cbn [forallb]. rewrite Hr. reflexivity.
  - injection Hf as <-. apply C01.grp_some in G2. subst r'.
    cbn [sgp] in Hr. cbn [forallb]. rewrite Hl, Hr. reflexivity.
  - destruct (C01.bx s l') as [[x y]|] eqn:B1.
    + injection Hf as <-. apply C01.bx_some in B1. subst l'. cbn [sgp] in Hl.
      apply andb_true_iff in Hl. destruct Hl as [Hx Hy]. cbn [forallb]. rewrite Hx, Hy, Hr. reflexivity.
    + destruct (C01.bx s r') as [[y z]|] eqn:B2; [|discriminate].
      injection Hf as <-. apply C01.bx_some in B2. subst r'. cbn [sgp] in Hr.
      apply andb_true_iff in Hr. destruct Hr as [Hy Hz]. cbn [forallb]. rewrite Hl, Hy, Hz. reflexivity.
Qed.

Lemma Forall2_length_1 {A B} (R : A -> B -> Prop) l y : Forall2 R l [y] -> exists x, l = [x] /\ R x y.
Proof. intros H. inversion H as [|x y' l0 l0' Hxy Hl]; subst. inversion Hl; subst. eauto. Qed.

Lemma sgp_shake0 : forall fuel e e', D14.inv2 e = true -> sgp e = true -> shake0 fuel e = Ok e' ->
  sgp e' = true /\ (ham e' = true -> ham e = true).
Proof.
  induction fuel as [|fu IH]; intros e e' Hi Hn H; [injection H as <-; auto|].
  destruct e as [s l|l s r|b|f m|f|z|i|z|k e|cols rows|e|f e| |s f c];
    try (injection H as <-; auto); try discriminate Hi.
  - (* group *)
    destruct (D14.inv2_group s l Hi) as (Hs & Hl & _).
    cbn [shake0] in H. rewrite Hs in H. cbn [negb] in H.
    apply C01.bind_ok_inv in H. destruct H as [l' [Hl' H]].
    pose proof (C01.mapM_Forall2 _ _ _ Hl') as HF. cbn [sgp] in Hn.
    assert (HF2 : Forall2 (fun x y => sgp y = true /\ (ham y = true -> ham x = true)) l l').
    { clear -HF IH Hl Hn. induction HF as [|x y l l' Hxy HF IHF]; constructor.
      - cbn [forallb] in Hl, Hn. apply andb_prop in Hl. apply andb_prop in Hn. exact (IH x y (proj1 Hl) (proj1 Hn) Hxy).
      - cbn [forallb] in Hl, Hn. apply andb_prop in Hl. apply andb_prop in Hn. exact (IHF (proj2 Hn) (proj2 Hl)). }
    assert (Hl'n : forallb sgp l' = true).
    { clear -HF2. induction HF2 as [|x y l l' Hxy _ IHF]; [reflexivity|]. cbn [forallb]. rewrite (proj1 Hxy), IHF. reflexivity. }
    destruct l' as [|x [|x2 l'']]; injection H as <-.
    + split; [reflexivity|]. intros X. destruct s; discriminate X.
    + destruct (Forall2_length_1 _ _ _ HF2) as (x0 & -> & Hx0 & Hx1). split; [exact Hx0|].
      intros X. destruct s; try discriminate Hs; cbn [ham]; exact (Hx1 X).
    + split; [exact Hl'n|]. intros X. destruct s; discriminate X.
  - (* bexp *)
    cbn [D14.inv2] in Hi. cbn [sgp] in Hn. apply andb_true_iff in Hn. destruct Hn as [Hl Hr].
    destruct (is_and_or s) eqn:Hs.
    + apply andb_prop in Hi. destruct Hi as [Il Ir].
      rewrite C01.shake0_bexp_andor in H by exact Hs.
      apply C01.bind_ok_inv in H. destruct H as [l' [Hl' H]].
      apply C01.bind_ok_inv in H. destruct H as [r' [Hr' H]].
      destruct (IH l l' Il Hl Hl') as [Hl'n _]. destruct (IH r r' Ir Hr Hr') as [Hr'n _].
      destruct (D14.shake0_post2 C01.o0 fu l l' Il Hl') as (Il' & _).
      destruct (D14.shake0_post2 C01.o0 fu r r' Ir Hr') as (Ir' & _).
      destruct (C01.flat s l' r') as [L|] eqn:Hflat.
      * destruct (D14.flat_spec2 C01.o0 s l' r' L Hs Il' Ir' Hflat) as (IL & (a0 & b0 & L0 & ->) & _).
        destruct (IH (EGroup s (a0 :: b0 :: L0)) e' IL (flat_sgp s l' r' _ Hflat Hl'n Hr'n) H) as [A B].
        split; [exact A|]. intros X. apply B in X. destruct s; discriminate X.
      * injection H as <-. cbn [sgp]. rewrite Hl'n, Hr'n. split; [reflexivity|]. intros X; discriminate X.
    + rewrite C01.shake0_bexp_cmp in H by exact Hs.
      apply C01.bind_ok_inv in H. destruct H as [l' [Hl' H]].
      apply C01.bind_ok_inv in H. destruct H as [r' [Hr' H]]. injection H as <-.
      apply andb_prop in Hi. destruct Hi as [Il Ir].
      assert (Hleaf : forall fu0 x x', C01.leaf x = true -> shake0 fu0 x = Ok x' -> x' = x).
      { intros fu0 x x' Hx Hx'. destruct fu0; [injection Hx' as <-; reflexivity|].
        destruct x; try discriminate Hx; injection Hx' as <-; reflexivity. }
      rewrite (Hleaf fu l l' Il Hl'), (Hleaf fu r r' Ir Hr'). cbn [sgp]. rewrite Hl, Hr.
      split; [reflexivity|]. intros X; discriminate X.
  - (* quantifier *)
    cbn [D14.inv2] in Hi. apply andb_prop in Hi. destruct Hi as [_ Hi]. cbn [sgp] in Hn.
    destruct (C01.shake0_match_inv _ _ _ _ H) as [[s [l [l' [-> [Hl' ->]]]]]|[_ [x [Hx ->]]]].
    + cbn [sgp ham] in *. split; [|auto].
      destruct (D14.inv2_group s l Hi) as (_ & Hl & _).
      pose proof (C01.mapM_Forall2 _ _ _ Hl') as HF.
      eapply C01.Forall2_forallb; [exact HF|]. intros x y Hx Hxy. cbn beta in Hxy.
      exact (proj1 (IH x y (C01.forallb_In _ _ _ Hl Hx) (C01.forallb_In _ _ _ Hn Hx) Hxy)).
    + cbn [sgp ham]. split; [exact (proj1 (IH e x Hi Hn Hx)) | auto].
  - (* negation *)
    cbn [D14.inv2] in Hi. apply andb_prop in Hi. destruct Hi as [Hh Hi]. apply negb_true_iff in Hh. cbn [sgp] in Hn.
    cbn [shake0] in H. apply C01.bind_ok_inv in H. destruct H as [x [Hx H]].
    destruct (D14.shake0_post2 C01.o0 fu e x Hi Hx) as (_ & Hhn & _).
    destruct (IH e x Hi Hn Hx) as [A _].
    destruct x; try (injection H as <-; split; [exact A | intros X; discriminate X]).
    exfalso. rewrite (Hhn eq_refl) in Hh. discriminate Hh.
  - (* nested *)
    cbn [D14.inv2] in Hi. apply andb_prop in Hi. destruct Hi as [_ Hi].
    cbn [sgp] in Hn. apply andb_prop in Hn. destruct Hn as [Hb Hn].
    cbn [shake0] in H. apply C01.bind_ok_inv in H. destruct H as [x [Hx H]]. injection H as <-.
    destruct (IH e x Hi Hn Hx) as [A B]. split; [|intros X; discriminate X].
    cbn [sgp]. rewrite A, andb_true_r. unfold bok1 in *.
    destruct (ham x) eqn:Ehx; [|reflexivity]. cbn [negb orb]. rewrite (B eq_refl) in Hb. cbn [negb orb] in Hb.
    destruct e; try discriminate Hb. destruct k; [|discriminate Hb].
    clear IH A B. destruct fu as [|fu']; [injection Hx as <-; reflexivity|].
    destruct (C01.shake0_match_inv _ _ _ _ Hx) as [[s [l [l' [-> [_ ->]]]]]|[_ [x' [_ ->]]]]; reflexivity.
Qed.

(* ---- a negation in the condition survives shake_0 ---- *)
Definition hn (e : expr) : bool := exists_sub hneg false e.

Lemma hneg_pol : forall a b x, hneg a x = hneg b x.
Proof. reflexivity. Qed.

Lemma hn_group s l : hn (EGroup s l) = existsb hn l.
Proof. reflexivity. Qed.
Lemma hn_bexp l s r : hn (EBexp l s r) = hn l || hn r.
Proof. reflexivity. Qed.
Lemma hn_match k e : hn (EMatch k e) = none_of k || hn e.
Proof. unfold hn. destruct k; cbn [exists_sub hneg none_of orb]; [reflexivity|]. rewrite (CC.pol hneg hneg_pol e _ false). reflexivity. Qed.

Lemma flat_hn : forall s l' r' L, C01.flat s l' r' = Some L -> existsb hn L = hn l' || hn r'.
Proof.
  intros s l' r' L Hf. unfold C01.flat in Hf.
  destruct (C01.grp s l') as [a|] eqn:G1; destruct (C01.grp s r') as [b|] eqn:G2.
  - injection Hf as <-. apply C01.grp_some in G1. apply C01.grp_some in G2. subst l' r'.
    rewrite existsb_app, !hn_group. reflexivity.
  - injection Hf as <-. apply C01.grp_some in G1. subst l'.
    rewrite existsb_app, hn_group. cbn [existsb]. rewrite orb_false_r. reflexivity.
  - injection Hf as <-. apply C01.grp_some in G2. subst r'. rewrite hn_group. reflexivity.
  - destruct (C01.bx s l') as [[x y]|] eqn:B1.
    + injection Hf as <-. apply C01.bx_some in B1. subst l'. rewrite hn_bexp. cbn [existsb].
      rewrite orb_false_r, orb_assoc. reflexivity.
    + destruct (C01.bx s r') as [[y z]|] eqn:B2; [|discriminate].
      injection Hf as <-. apply C01.bx_some in B2. subst r'. rewrite hn_bexp. cbn [existsb].
      rewrite orb_false_r. reflexivity.
Qed.

Lemma hn_shake0 : forall fuel e e', CW.invc2 e = true -> shake0 fuel e = Ok e' -> hn e' = hn e.
Proof.
  induction fuel as [|fu IH]; intros e e' Hi H; [injection H as <-; reflexivity|].
  destruct e as [s l|l s r|b|f m|f|z|i|z|k e|cols rows|e|f e| |s f c];
    try (injection H as <-; reflexivity); try discriminate Hi.
  - destruct (CW.invc2_group s l Hi) as (Hs & Hl & _).
    cbn [shake0] in H. rewrite Hs in H. cbn [negb] in H.
    apply C01.bind_ok_inv in H. destruct H as [l' [Hl' H]].
    pose proof (C01.mapM_Forall2 _ _ _ Hl') as HF.
    assert (E : existsb hn l' = existsb hn l).
    { clear -HF IH Hl. induction HF as [|x y l l' Hxy HF IHF]; [reflexivity|]. cbn [existsb forallb] in *.
      apply andb_prop in Hl. rewrite (IH x y (proj1 Hl) Hxy), (IHF (proj2 Hl)). reflexivity. }
    rewrite hn_group, <- E.
    destruct l' as [|x [|x2 l'']]; injection H as <-; try reflexivity.
    cbn [existsb]. rewrite orb_false_r. reflexivity.
  - cbn [CW.invc2] in Hi. destruct (is_and_or s) eqn:Hs.
    + apply andb_prop in Hi. destruct Hi as [Il Ir].
      rewrite C01.shake0_bexp_andor in H by exact Hs.
      apply C01.bind_ok_inv in H. destruct H as [l' [Hl' H]].
      apply C01.bind_ok_inv in H. destruct H as [r' [Hr' H]].
      destruct (CW.shake0_postc2 C01.o0 [] fu l l' Il Hl') as (Il' & _).
      destruct (CW.shake0_postc2 C01.o0 [] fu r r' Ir Hr') as (Ir' & _).
      rewrite hn_bexp, <- (IH l l' Il Hl'), <- (IH r r' Ir Hr').
      destruct (C01.flat s l' r') as [L|] eqn:Hflat.
      * destruct (CW.flatc_spec2 C01.o0 [] s l' r' L Hs Il' Ir' Hflat) as (IL & _ & _).
        rewrite (IH (EGroup s L) e' IL H), hn_group. exact (flat_hn s l' r' L Hflat).
      * injection H as <-. reflexivity.
    + rewrite C01.shake0_bexp_cmp in H by exact Hs.
      apply C01.bind_ok_inv in H. destruct H as [l' [Hl' H]].
      apply C01.bind_ok_inv in H. destruct H as [r' [Hr' H]]. injection H as <-.
      apply andb_prop in Hi. destruct Hi as [Il Ir].
      assert (Hleaf : forall fu0 x x', C01.leaf x = true -> shake0 fu0 x = Ok x' -> x' = x).
      { intros fu0 x x' Hx Hx'. destruct fu0; [injection Hx' as <-; reflexivity|].
        destruct x; try discriminate Hx; injection Hx' as <-; reflexivity. }
      rewrite (Hleaf fu l l' Il Hl'), (Hleaf fu r r' Ir Hr'). reflexivity.
  - cbn [CW.invc2] in Hi. apply andb_prop in Hi. destruct Hi as [_ Hi].
    destruct (C01.shake0_match_inv _ _ _ _ H) as [[s [l [l' [-> [Hl' ->]]]]]|[_ [x [Hx ->]]]].
    + rewrite !hn_match, !hn_group. f_equal.
      destruct (CW.invc2_group s l Hi) as (_ & Hl & _).
      pose proof (C01.mapM_Forall2 _ _ _ Hl') as HF.
      clear -HF IH Hl. induction HF as [|x y l l' Hxy HF IHF]; [reflexivity|]. cbn [existsb forallb] in *.
      apply andb_prop in Hl. rewrite (IH x y (proj1 Hl) Hxy), (IHF (proj2 Hl)). reflexivity.
    + rewrite !hn_match. f_equal. exact (IH e x Hi Hx).
  - cbn [CW.invc2] in Hi. apply andb_prop in Hi. destruct Hi as [Hh Hi]. apply negb_true_iff in Hh.
    cbn [shake0] in H. apply C01.bind_ok_inv in H. destruct H as [x [Hx H]].
    destruct (CW.shake0_postc2 C01.o0 [] fu e x Hi Hx) as (_ & Hhn & _).
    destruct x; try (injection H as <-; reflexivity).
    exfalso. rewrite (Hhn eq_refl) in Hh. discriminate Hh.
Qed.

(* ====================================================================================== *)
(* 14. what the loader builds satisfies sgp (same walk as C01_loaded.parse_identifier_inv) *)
(* ====================================================================================== *)
Module LD := C01_loaded.

Definition ms (x : expr) : Prop := sgp x = true /\ LD.atom x = true.
Definition es_ok (e : expr) : Prop := sgp e = true /\ bok1 e = true.

Lemma atom_bok x : LD.atom x = true -> bok1 x = true.
Proof. destruct x; intros H; try discriminate H; reflexivity. Qed.
Lemma ms_es x : ms x -> es_ok x.
Proof. intros [H1 H2]. split; [exact H1 | exact (atom_bok x H2)]. Qed.
Lemma leaf_sgp x : C01.leaf x = true -> sgp x = true.
Proof. destruct x; intros H; try discriminate H; reflexivity. Qed.
Lemma search_ms s f c : ms (ESearch s f c).
Proof. split; reflexivity. Qed.
Lemma cmp_ms e op r : C01.leaf e = true -> C01.leaf r = true -> is_and_or op = false -> ms (cmp_expr e op r).
Proof.
  intros He Hr Hop. unfold cmp_expr. split.
  - cbn [sgp]. rewrite (leaf_sgp _ He), (leaf_sgp _ Hr). reflexivity.
  - cbn [LD.atom]. rewrite Hop. reflexivity.
Qed.
Lemma nested_ms f e : es_ok e -> ms (ENested f e).
Proof. intros [H1 H2]. split; [|reflexivity]. cbn [sgp]. rewrite H1, H2. reflexivity. Qed.
Lemma Forall_ms_sgp l : Forall ms l -> forallb sgp l = true.
Proof. intros H. apply C01.forallb_intro. rewrite Forall_forall in H. intros x Hx. apply (H x Hx). Qed.

Lemma numeric_expr_ms e p x : C01.leaf e = true -> numeric_expr e p = Some x -> ms x.
Proof.
  intros He. destruct p; cbn [numeric_expr]; intros H; inversion H; subst;
    apply cmp_ms; try exact He; reflexivity.
Qed.

Lemma scalar_string_expr_ms o ic ki s e :
  C01.leaf (k_e ki) = true -> scalar_string_expr o ic ki s = Ok e -> ms e.
Proof.
  intros Hl. unfold scalar_string_expr. intros H.
  apply C03.bind_ok_inv in H. destruct H as (id & _ & H).
  apply C03.bind_ok_inv in H. destruct H as (u & _ & H). cbv zeta in H.
  destruct (numeric_expr (k_e ki) (id_pat id)) as [x|] eqn:En.
  - inversion H; subst. exact (numeric_expr_ms _ _ _ Hl En).
  - destruct (id_pat id); inversion H; subst; try apply search_ms; discriminate En.
Qed.

Definition sub_s (sub : option (out expr)) : Prop := forall r e, sub = Some r -> r = Ok e -> es_ok e.
Lemma sub_s_none : sub_s None.
Proof. intros r e H; discriminate. Qed.

Lemma seq_member_ms o ic ki ue a v sub a' :
  C01.leaf ue = true ->
  sub_s sub -> Forall ms (a_rest a) -> seq_member o ic ki ue a v sub = Ok a' ->
  Forall ms (a_rest a').
Proof.
  intros Hl Hs Ha. unfold seq_member. cbv zeta.
  assert (Hc : forall r, C01.leaf r = true -> ms (cmp_expr ue BEqual r)).
  { intros r Hr. apply cmp_ms; [exact Hl | exact Hr | reflexivity]. }
  destruct v as [| b | z | x | s | l | kv | tag w].
  - intros H; inversion H; subst. apply C03.Forall_snoc; [exact Ha | apply Hc; reflexivity].
  - destruct (misc_is MInt (k_misc ki)); [|destruct (misc_is MStr (k_misc ki))];
      intros H; inversion H; subst;
      first [exact Ha | apply C03.Forall_snoc; [exact Ha | apply Hc; reflexivity]].
  - destruct (number_of z);
      [ destruct (misc_is MStr (k_misc ki))
      | destruct (misc_is MInt (k_misc ki)); [|destruct (misc_is MStr (k_misc ki))] ];
      intros H; inversion H; subst;
      first [exact Ha | apply C03.Forall_snoc; [exact Ha | apply Hc; reflexivity]].
  - destruct (misc_is MInt (k_misc ki)); [|destruct (misc_is MStr (k_misc ki))];
      intros H; inversion H; subst;
      first [exact Ha | apply C03.Forall_snoc; [exact Ha | apply Hc; reflexivity]].
  - intros H.
    apply C03.bind_ok_inv in H. destruct H as (id & _ & H).
    apply C03.bind_ok_inv in H. destruct H as (u & _ & H).
    assert (Ha2 : Forall ms (a_rest (if misc_is MStr (k_misc ki) then flag_cast a else a))).
    { destruct (misc_is MStr (k_misc ki)); exact Ha. }
    revert H Ha2. generalize (if misc_is MStr (k_misc ki) then flag_cast a else a). intros a2 H Ha2.
    destruct (id_pat id) eqn:Ep; cbn [numeric_expr] in H; inversion H; subst;
      first [ exact Ha2
            | apply C03.Forall_snoc;
              [exact Ha2 | first [apply search_ms | apply cmp_ms; [exact Hl | reflexivity | reflexivity]]] ].
  - intros H; discriminate H.
  - destruct (k_misc ki); [intros H; discriminate H|].
    destruct sub as [r|]; [|intros H; discriminate H].
    intros H. apply C03.bind_ok_inv in H. destruct H as (e & Hr & H). inversion H; subst.
    apply C03.Forall_snoc; [exact Ha|]. apply nested_ms. exact (Hs _ e eq_refl eq_refl).
  - intros H; discriminate H.
Qed.

Lemma seq_members_ms o ic ki ue : C01.leaf ue = true -> forall vs a subs a',
  Forall sub_s subs -> Forall ms (a_rest a) -> seq_members o ic ki ue a vs subs = Ok a' ->
  Forall ms (a_rest a').
Proof.
  intros Hl. induction vs as [|v vs IH]; intros a subs a' HF Ha H; cbn [seq_members] in H.
  - inversion H; subst. exact Ha.
  - apply C03.bind_ok_inv in H. destruct H as (a1 & H1 & H).
    apply (IH a1 (tl subs) a'); [| |exact H].
    + destruct subs as [|s subs']; cbn [tl]; [constructor|]. inversion HF; assumption.
    + refine (seq_member_ms _ _ _ _ _ _ _ _ Hl _ Ha H1).
      destruct subs as [|s subs']; [apply sub_s_none|]. inversion HF; assumption.
Qed.

Lemma finish_tail_s (ke : expr) (multiple : bool) (group : list expr) e :
  Forall ms group ->
  match group with
  | [] => Err EInvalidIdent
  | [x] =>
      let keep_of := match ke with
                     | EMatch (MOf c) _ => negb (c =? 1)%Z
                     | _ => false
                     end in
      if negb multiple && negb keep_of then Ok x
      else match ke with
           | EMatch m _ => Ok (EMatch m x)
           | _ => Ok (EGroup BOr group)
           end
  | _ =>
      match ke with
      | EMatch m _ => Ok (EMatch m (EGroup BOr group))
      | _ => Ok (EGroup BOr group)
      end
  end = Ok e -> es_ok e.
Proof.
  intros HF. pose proof (Forall_ms_sgp _ HF) as HI.
  assert (Hm : forall m x, sgp x = true -> es_ok (EMatch m x)).
  { intros m x Hx. split; [exact Hx|]. unfold bok1. destruct m; reflexivity. }
  destruct group as [|x [|y rest]].
  - intros H; discriminate H.
  - cbv zeta. inversion HF as [|x' l' Hx _]; subst.
    destruct (negb multiple && negb _).
    + intros H; inversion H; subst. exact (ms_es _ Hx).
    + assert (Hg : es_ok (EGroup BOr [x])).
      { split; [exact HI|]. unfold bok1. cbn [ham]. destruct Hx as [_ Hx].
        destruct x; try discriminate Hx; reflexivity. }
      destruct ke; intros H; inversion H; subst; first [exact Hg | exact (Hm _ _ (proj1 Hx))].
  - assert (Hg : es_ok (EGroup BOr (x :: y :: rest))) by (split; [exact HI | reflexivity]).
    destruct ke; intros H; inversion H; subst; first [exact Hg | exact (Hm _ (EGroup BOr (x :: y :: rest)) HI)].
Qed.

Lemma Forall_search_map_ms {A} (l : list A) s f c : Forall ms (map (fun _ => ESearch s f c) l).
Proof. induction l; cbn [map]; constructor; [apply search_ms | assumption]. Qed.

Lemma finish_seq_s ki a e : Forall ms (a_rest a) -> finish_seq ki a = Ok e -> es_ok e.
Proof.
  intros Ha. unfold finish_seq. cbv zeta.
  C03.destruct_let_pair.
  C03.destruct_let_pair.
  C03.destruct_let_pair.
  C03.destruct_let_pair.
  C03.destruct_let_pair.
  match goal with |- (if ?b then _ else _) = _ -> _ => destruct b end; [intros H; discriminate H|].
  match goal with |- (if ?b then _ else _) = _ -> _ => destruct b end; [intros H; discriminate H|].
  match goal with |- (if ?b then _ else _) = _ -> _ => destruct b end; [intros H; discriminate H|].
  apply finish_tail_s.
  repeat (apply Forall_app; split); try exact Ha; try apply Forall_search_map_ms;
    match goal with
    | H : match ?X with _ => _ end = (?g, _) |- Forall ms ?g =>
        destruct X as [|? [|? ?]]; inversion H; subst;
        repeat first [apply search_ms | constructor]
    end.
Qed.

Lemma parse_entry_s o ic k v sub subs e :
  sub_s sub -> Forall sub_s subs -> parse_entry o ic k v sub subs = Ok e -> es_ok e.
Proof.
  intros Hs HF H. unfold parse_entry in H.
  apply C03.bind_ok_inv in H. destruct H as (ki & Hk & H). cbv zeta in H.
  apply LD.parse_key_ok in Hk.
  apply C03.bind_ok_inv in H. destruct H as (ex & Hex & H).
  assert (Hw : es_ok ex).
  { clear H.
    assert (Hc : is_yseq v = false -> forall r, C01.leaf r = true -> es_ok (cmp_expr (k_e ki) BEqual r)).
    { intros Hv r Hr. apply ms_es. apply cmp_ms; [exact (LD.key_ok_leaf _ _ Hk Hv) | exact Hr | reflexivity]. }
    destruct v as [| b | z | x | s | l | kv | tag w].
    - inversion Hex; subst. apply Hc; reflexivity.
    - destruct (misc_is MInt (k_misc ki)); [|destruct (misc_is MStr (k_misc ki))];
        inversion Hex; subst;
        first [apply ms_es; apply search_ms | apply Hc; reflexivity].
    - destruct (number_of z);
        [ destruct (misc_is MStr (k_misc ki))
        | destruct (misc_is MInt (k_misc ki)); [|destruct (misc_is MStr (k_misc ki))] ];
        inversion Hex; subst;
        first [apply ms_es; apply search_ms | apply Hc; reflexivity].
    - destruct (misc_is MInt (k_misc ki)); [|destruct (misc_is MStr (k_misc ki))];
        inversion Hex; subst;
        first [apply ms_es; apply search_ms | apply Hc; reflexivity].
    - apply ms_es.
      exact (scalar_string_expr_ms _ _ _ _ _ (LD.key_ok_leaf _ _ Hk eq_refl) Hex).
    - apply C03.bind_ok_inv in Hex. destruct Hex as (a & Hm & Hf).
      apply (finish_seq_s ki a); [|exact Hf].
      refine (seq_members_ms _ _ _ _ (LD.key_ok_ue _ _ Hk) _ _ _ _ HF _ Hm).
      destruct (misc_is MStr (k_misc ki)); apply Forall_nil.
    - destruct (k_misc ki); [discriminate Hex|].
      destruct sub as [r|]; [|discriminate Hex].
      apply C03.bind_ok_inv in Hex. destruct Hex as (x & Hr & Hx). inversion Hx; subst.
      apply ms_es. apply nested_ms. exact (Hs _ x eq_refl eq_refl).
    - discriminate Hex. }
  destruct (misc_is MNot (k_misc ki)); inversion H; subst; [|exact Hw].
  split; [exact (proj1 Hw) | reflexivity].
Qed.

Lemma finish_mapping_s es e : Forall es_ok es -> finish_mapping es = Ok e -> es_ok e.
Proof.
  intros HF. unfold finish_mapping.
  assert (HI : forallb sgp es = true).
  { apply C01.forallb_intro. rewrite Forall_forall in HF. intros x Hx. apply (HF x Hx). }
  destruct es as [|x [|y rest]]; intros H; inversion H; subst.
  - inversion HF; assumption.
  - split; [exact HI | reflexivity].
Qed.

Fixpoint parse_mapping_s (o : oracles) (ic : bool) (y : yaml) {struct y} :
  forall e, parse_mapping o ic y = Ok e -> es_ok e.
Proof.
  destruct y as [| | | | |l|kv|tag w]; try (intros e H; discriminate H).
  cbn [parse_mapping]. intros e H.
  apply C03.bind_ok_inv in H. destruct H as (es & Hes & Hfin).
  apply (finish_mapping_s es); [|exact Hfin]. clear Hfin e.
  revert es Hes.
  induction kv as [|[k v] kv' IH]; intros es Hes.
  - inversion Hes; subst. constructor.
  - assert (H1 : sub_s (match v with YMap _ => Some (parse_mapping o ic v) | _ => None end)).
    { clear Hes IH. intros r x Hr Hx. pose proof (parse_mapping_s o ic v) as Hv.
      destruct v as [| | | | |l|kv0|tag w]; try discriminate Hr.
      injection Hr as <-. exact (Hv _ Hx). }
    assert (H2 : Forall sub_s
                   (match v with
                    | YSeq l => map (fun m => match m with
                                              | YMap _ => Some (parse_mapping o ic m)
                                              | _ => None
                                              end) l
                    | _ => []
                    end)).
    { clear Hes IH H1. destruct v as [| | | | |l|kv0|tag w]; try constructor.
      induction l as [|m l IHl]; cbn [map]; constructor; [|exact IHl].
      intros r x Hr Hx. pose proof (parse_mapping_s o ic m) as Hm.
      destruct m as [| | | | |l0|kv0|tag w]; try discriminate Hr.
      injection Hr as <-. exact (Hm _ Hx). }
    apply C03.bind_ok_inv in Hes. destruct Hes as (e & He & Hes).
    apply C03.bind_ok_inv in Hes. destruct Hes as (es' & Hes' & Hes).
    inversion Hes; subst. constructor; [|exact (IH _ Hes')].
    exact (parse_entry_s _ _ _ _ _ _ _ H1 H2 He).
Qed.

Lemma parse_identifier_sgp : forall o ic y e, parse_identifier o ic y = Ok e -> sgp e = true.
Proof.
  intros o ic y e H. unfold parse_identifier in H.
  destruct y as [| | | | |l|kv|tag w]; try discriminate H.
  - destruct l as [|first others]; [discriminate H|].
    destruct (is_ymap first); [|discriminate H].
    apply C03.bind_ok_inv in H. destruct H as (e0 & H0 & H).
    apply C03.bind_ok_inv in H. destruct H as (es & Hes & H). inversion H; subst.
    apply parse_mapping_s in H0.
    apply (C03.mapM_Forall _ es_ok) in Hes.
    + cbn [sgp forallb]. rewrite (proj1 H0). cbn [andb].
      apply C01.forallb_intro. rewrite Forall_forall in Hes. intros x Hx. apply (Hes x Hx).
    + intros a b Hab. destruct (is_ymap a); [|discriminate Hab].
      exact (parse_mapping_s _ _ _ _ Hab).
  - exact (proj1 (parse_mapping_s _ _ _ _ H)).
Qed.

(* ====================================================================================== *)
(* 15. the staged trees of a loaded rule                                                   *)
(* ====================================================================================== *)
Lemma pinv_kn : forall e, CC.pinv e = true -> kn e = true.
Proof.
  induction e as [e IH] using C01.size_ind. intros H.
  dex e; try discriminate H; try reflexivity; cbn [CC.pinv] in H; cbn [kn].
  - apply andb_prop in H. destruct H as [_ H]. destruct g as [|a g']; [discriminate H|].
    apply C01.forallb_intro. intros x Hx. apply IH; [exact (C01.size_member _ _ _ Hx) | exact (C01.forallb_In _ _ _ H Hx)].
  - destruct (is_and_or op).
    + apply andb_prop in H. destruct H as [H1 H2].
      rewrite (IH l1), (IH r1); try assumption; try (cbn [expr_size]; lia); try reflexivity.
    + apply andb_prop in H. destruct H as [H1 H2].
      assert (L : forall x, C01.leaf x = true -> kn x = true) by (intros x Hx; destruct x; try discriminate Hx; reflexivity).
      rewrite (L _ H1), (L _ H2). reflexivity.
  - apply andb_prop in H. destruct H as [_ H]. apply IH; [cbn [expr_size]; lia | exact H].
  - apply IH; [cbn [expr_size]; lia | exact H].
  - apply andb_prop in H. destruct H as [H1 H2]. rewrite H1. cbn [andb]. apply IH; [cbn [expr_size]; lia | exact H2].
Qed.

Lemma invc2_kn : forall e, CW.invc2 e = true -> kn e = true.
Proof.
  induction e as [e IH] using C01.size_ind. intros H.
  dex e; try discriminate H; try reflexivity; cbn [CW.invc2] in H; cbn [kn].
  - apply andb_prop in H. destruct H as [_ H]. destruct g as [|a g']; [discriminate H|].
    apply C01.forallb_intro. intros x Hx. apply IH; [exact (C01.size_member _ _ _ Hx) | exact (C01.forallb_In _ _ _ H Hx)].
  - destruct (is_and_or op).
    + apply andb_prop in H. destruct H as [H1 H2].
      rewrite (IH l1), (IH r1); try assumption; try (cbn [expr_size]; lia); try reflexivity.
    + apply andb_prop in H. destruct H as [H1 H2].
      assert (L : forall x, C01.leaf x = true -> kn x = true) by (intros x Hx; destruct x; try discriminate Hx; reflexivity).
      rewrite (L _ H1), (L _ H2). reflexivity.
  - apply andb_prop in H. destruct H as [_ H]. apply IH; [cbn [expr_size]; lia | exact H].
  - apply andb_prop in H. destruct H as [_ H]. apply IH; [cbn [expr_size]; lia | exact H].
Qed.

Lemma nn_sgp : forall e, C01.no_nested e = true -> sgp e = true.
Proof.
  induction e as [e IH] using C01.size_ind. intros H.
  dex e; try discriminate H; try reflexivity; cbn [C01.no_nested] in H; cbn [sgp].
  - apply C01.forallb_intro. intros x Hx. apply IH; [exact (C01.size_member _ _ _ Hx) | exact (C01.forallb_In _ _ _ H Hx)].
  - apply andb_prop in H. destruct H as [H1 H2].
    rewrite (IH l1), (IH r1); try assumption; try (cbn [expr_size]; lia); try reflexivity.
  - apply IH; [cbn [expr_size]; lia | exact H].
  - apply IH; [cbn [expr_size]; lia | exact H].
Qed.

Lemma coalesce_sgp ids : (forall i b, lookup i ids = Some b -> sgp b = true) ->
  forall e e', C01.no_nested e = true -> coalesce ids e = Ok e' -> sgp e' = true.
Proof.
  intros Hids. induction e as [e IH] using C01.size_ind. intros e' H Hc.
  dex e; try discriminate H; cbn [C01.no_nested] in H; cbn [coalesce] in Hc;
    try (inversion Hc; subst e'; reflexivity).
  - apply C03.bind_ok_inv in Hc. destruct Hc as (l' & Hl & Hc). inversion Hc; subst e'. cbn [sgp].
    pose proof (C01.mapM_Forall2 _ _ _ Hl) as HF.
    eapply C01.Forall2_forallb; [exact HF|]. intros x y Hx Hxy. cbn beta in Hxy.
    exact (IH x (C01.size_member _ _ _ Hx) y (C01.forallb_In _ _ _ H Hx) Hxy).
  - apply andb_prop in H. destruct H as [H1 H2].
    apply C03.bind_ok_inv in Hc. destruct Hc as (l' & Hl & Hc).
    apply C03.bind_ok_inv in Hc. destruct Hc as (r' & Hr & Hc). inversion Hc; subst e'. cbn [sgp].
    rewrite (IH l1 ltac:(cbn [expr_size]; lia) l' H1 Hl), (IH r1 ltac:(cbn [expr_size]; lia) r' H2 Hr). reflexivity.
  - destruct (lookup i ids) as [b|] eqn:El; [|discriminate Hc]. inversion Hc; subst e'. exact (Hids _ _ El).
  - apply C03.bind_ok_inv in Hc. destruct Hc as (x & Hx & Hc). inversion Hc; subst e'. cbn [sgp].
    exact (IH e ltac:(cbn [expr_size]; lia) x H Hx).
  - apply C03.bind_ok_inv in Hc. destruct Hc as (x & Hx & Hc). inversion Hc; subst e'. cbn [sgp].
    exact (IH e ltac:(cbn [expr_size]; lia) x H Hx).
Qed.

Lemma staged_sgp o ic y r sw : load_rule o ic y = Ok r ->
  forall t, In t (all_trees (staged sw (r_det r))) -> sgp t = true.
Proof.
  intros H t Ht. unfold staged, all_trees in Ht.
  pose proof (CC.load_cond_shape _ _ _ _ H) as Hc. destruct (CC.cond_shape_pinv _ Hc) as [_ Hnn].
  pose proof (CC.load_ids_P (fun e => sgp e = true) parse_identifier_sgp _ _ _ _ H) as Hids.
  rewrite Forall_forall in Hids.
  destruct (sw_coalesce sw).
  - cbn [fst snd map] in Ht. destruct Ht as [<-|[]].
    destruct (CC.load_coalesce _ _ _ _ H) as (e' & He' & _). rewrite He'. cbn [ok_or].
    apply (coalesce_sgp (d_ids (r_det r))) with (e := d_expr (r_det r)); [|exact Hnn|exact He'].
    intros i b Hl. destruct (C03.lookup_in _ _ _ Hl) as [k Hk]. exact (Hids _ Hk).
  - cbn [fst snd] in Ht. destruct Ht as [<-|Ht]; [exact (nn_sgp _ Hnn)|].
    apply in_map_iff in Ht. destruct Ht as ([k b] & <- & Hkb). exact (Hids _ Hkb).
Qed.

(* what is known of every staged tree of a loaded rule *)
Definition tree_f (t : expr) : Prop :=
  CC.pinv t = true /\ (CC.noid t = true \/ C01.no_nested t = true) /\ sgp t = true.

Lemma tree_f_member s l x : tree_f (EGroup s l) -> In x l -> tree_f x.
Proof.
  intros (P & K & Q) Hx. destruct (CC.pinv_group _ _ P) as (_ & _ & Hl). split; [exact (Hl x Hx)|]. split.
  - destruct K as [K|K]; [left|right]; exact (C01.forallb_In _ _ _ K Hx).
  - exact (C01.forallb_In _ _ _ Q Hx).
Qed.
Lemma tree_f_entry b x : tree_f b -> In x (Scope2.entry_trees b) -> tree_f x.
Proof.
  intros Hb Hx. destruct b; cbn [Scope2.entry_trees] in Hx; try (destruct Hx as [<-|[]]; exact Hb).
  exact (tree_f_member _ _ _ Hb Hx).
Qed.
Lemma nodneg_member s l x : CC.nodneg (EGroup s l) -> In x l -> CC.nodneg x.
Proof. intros H Hx. exact (CC.nop_group _ _ _ _ H Hx). Qed.
Lemma nodneg_entry b x : CC.nodneg b -> In x (Scope2.entry_trees b) -> CC.nodneg x.
Proof.
  intros Hb Hx. destruct b; cbn [Scope2.entry_trees] in Hx; try (destruct Hx as [<-|[]]; exact Hb).
  exact (nodneg_member _ _ _ Hb Hx).
Qed.

Lemma staged_tree_f o ic y r sw : load_rule o ic y = Ok r ->
  forall t, In t (all_trees (staged sw (r_det r))) -> tree_f t.
Proof.
  intros Hl t Ht. destruct (CC.staged_pinv o ic y r sw Hl t Ht) as [P K].
  split; [exact P|]. split; [exact K | exact (staged_sgp o ic y r sw Hl t Ht)].
Qed.

Lemma staged_nodneg o ic y r sw : load_rule o ic y = Ok r -> sw_shake sw = true ->
  known_d13 sw (r_det r) = false ->
  forall t, In t (all_trees (staged sw (r_det r))) -> CC.nodneg t.
Proof.
  intros Hl Hs H13 t Ht. pose proof (CC.no_dneg_of_not_d13 o ic y r sw Hl Hs H13) as H.
  pose proof (C01.forallb_In _ _ _ H Ht) as Ht'.
  change (Scope.no_dneg t) with (negb (exists_sub C01.dneg_here false t)) in Ht'.
  apply negb_true_iff in Ht'. exact Ht'.
Qed.

Lemma entries_sub p n f b : exists_sub p n (on_entries f b) = false ->
  forall x, In x (Scope2.entry_trees b) -> exists_sub p n (f x) = false.
Proof.
  intros H x Hx. destruct b; cbn [on_entries Scope2.entry_trees] in *; try (destruct Hx as [<-|[]]; exact H).
  cbn [exists_sub] in H. apply orb_false_iff in H. destruct H as [_ H].
  apply (C01.existsb_false_In _ _ _ H). apply in_map. exact Hx.
Qed.

Lemma entries_sub_id p n b : exists_sub p n b = false ->
  forall x, In x (Scope2.entry_trees b) -> exists_sub p n x = false.
Proof.
  intros H x Hx. destruct b; cbn [Scope2.entry_trees] in *; try (destruct Hx as [<-|[]]; exact H).
  cbn [exists_sub] in H. apply orb_false_iff in H. destruct H as [_ H].
  exact (C01.existsb_false_In _ _ _ H Hx).
Qed.

(* a positive tree of good shape, the converse of posb_no_hneg with kn for the shape *)
Lemma no_hneg_posb_kn : forall e n, kn e = true -> exists_sub hneg n e = false -> posb e = true.
Proof.
  induction e as [e IH] using C01.size_ind. intros n Hp H.
  dex e; try discriminate Hp; try reflexivity; cbn [exists_sub hneg orb] in H; cbn [posb]; cbn [kn] in Hp.
  - apply C01.forallb_intro. intros x Hx.
    apply (IH x (C01.size_member _ _ _ Hx) n (C01.forallb_In _ _ _ Hp Hx)). exact (C01.existsb_false_In _ _ _ H Hx).
  - apply orb_false_iff in H. destruct H as [H1 H2]. apply andb_prop in Hp. destruct Hp as [P1 P2].
    rewrite (IH l1 ltac:(cbn [expr_size]; lia) n P1 H1), (IH r1 ltac:(cbn [expr_size]; lia) n P2 H2). reflexivity.
  - destruct k as [|c]; cbn [exists_sub hneg orb none_of negb andb] in *.
    + apply (IH e ltac:(cbn [expr_size]; lia) n Hp H).
    + apply orb_false_iff in H. destruct H as [H1 H2]. rewrite H1. cbn [negb andb].
      apply (IH e ltac:(cbn [expr_size]; lia) _ Hp H2).
  - discriminate H.
  - apply andb_prop in Hp. destruct Hp as [_ P2]. apply (IH e ltac:(cbn [expr_size]; lia) n P2 H).
Qed.

(* ====================================================================================== *)
(* 16. dyn_run and dyn_match for every loaded rule outside D13 / D16                       *)
(* ====================================================================================== *)
Definition pmatch (_ : bool) (x : expr) : bool := match x with EMatch _ _ => true | _ => false end.
Lemma has_match_eq e : has_match e = exists_sub pmatch false e.
Proof. reflexivity. Qed.
Lemma pmatch_pol : forall a b x, pmatch a x = pmatch b x.
Proof. reflexivity. Qed.

Lemma pmatch_rewrite o : forall e n, exists_sub pmatch n (rewrite o e) = exists_sub pmatch n e.
Proof.
  induction e as [e IH] using C01.size_ind. intros n.
  dex e; try reflexivity; cbn [rewrite exists_sub pmatch orb].
  - induction g as [|a g IHg]; [reflexivity|]. cbn [map existsb].
    rewrite (IH a (C01.size_member s (a :: g) a (or_introl eq_refl))). f_equal. apply IHg.
    intros e' He'. apply IH. cbn [expr_size fold_right] in *. lia.
  - rewrite (IH l1), (IH r1); try (cbn [expr_size]; lia); try reflexivity.
  - apply IH. cbn [expr_size]. lia.
  - apply IH. cbn [expr_size]. lia.
Qed.

Lemma nomatch_safe ord fu : forall e n neg, exists_sub pmatch n e = false -> Scope2.match_safe ord neg fu e = true.
Proof.
  induction e as [e IH] using C01.size_ind. intros n neg H.
  dex e; try reflexivity; cbn [exists_sub pmatch orb] in H; cbn [Scope2.match_safe].
  - apply C01.forallb_intro. intros x Hx.
    apply (IH x (C01.size_member _ _ _ Hx) n). exact (C01.existsb_false_In _ _ _ H Hx).
  - apply orb_false_iff in H. destruct H as [H1 H2].
    rewrite (IH l1 ltac:(cbn [expr_size]; lia) n neg H1), (IH r1 ltac:(cbn [expr_size]; lia) n neg H2). reflexivity.
  - discriminate H.
  - apply (IH e ltac:(cbn [expr_size]; lia) true). exact H.
  - apply (IH e ltac:(cbn [expr_size]; lia) n). exact H.
Qed.

Lemma match_safe_entries ord neg e :
  (forall fu, Scope2.match_safe ord neg fu e = true) ->
  forall x, In x (Scope2.entry_trees e) -> Scope2.match_safe ord neg (shake_fuel x) x = true.
Proof.
  intros H x Hx. specialize (H (shake_fuel x)).
  destruct e; cbn [Scope2.entry_trees] in Hx; try (destruct Hx as [<-|[]]; exact H).
  cbn [Scope2.match_safe] in H. exact (C01.forallb_In _ _ _ H Hx).
Qed.

Section Final.
Variable ord : hord.
Hypothesis Hperm : forall l, Permutation (ord l) l.
Let Hk : S1.ord_keeps ord := S1.perm_ord_keeps ord Hperm.

Lemma shaken0_sgp F x : D14.inv2 x = true -> sgp x = true -> sgp (ok_or (shake0 F x) x) = true.
Proof.
  intros Hi Hs. destruct (shake0 F x) as [x'| |] eqn:E; cbn [ok_or]; try exact Hs.
  exact (proj1 (sgp_shake0 F x x' Hi Hs E)).
Qed.

Lemma tree_f_inv2 x : tree_f x -> CC.nodneg x -> CC.noid x = true -> D14.inv2 x = true.
Proof. intros (P & _ & _) Hd Hn. exact (CC.pinv_inv2 x P Hn Hd). Qed.

(* one tree handed to shake: its shaken_0 form is safe for shake_1 *)
Lemma run_tree_safe neg neg' F F' x : tree_f x -> CC.nodneg x -> (neg = true -> neg' = true) ->
  exists_sub (d16_here ord) neg' (ok_or (shake0 F x) x) = false ->
  N.shake1_safe ord neg F' (ok_or (shake0 F x) x) = true.
Proof.
  intros Hx Hd Hn Hex. pose proof Hx as (P & [Kn|Kn] & Q).
  - pose proof (tree_f_inv2 x Hx Hd Kn) as Hi.
    pose proof (shaken0_sgp F x Hi Q) as Hs.
    apply (safe_of_Gd ord Hperm); [exact (shaken0_kn F x Hi) | exact Hs |].
    apply (Gd_weaken neg' neg _ Hn). exact (Gd_of_not_d16 ord Hperm _ neg' Hs Hex).
  - apply CC.safe_nn. apply CC.shake0_ok_or_nn. exact Kn.
Qed.

(* the polarity of the bodies: a negation in the condition survives shake_0 *)
Lemma cond_neg_kept F x : CC.pinv x = true -> C01.no_nested x = true -> CC.nodneg x ->
  hn (ok_or (shake0 F x) x) = hn x /\ kn (ok_or (shake0 F x) x) = true.
Proof.
  intros P Kn Hd. pose proof (CC.pinv_invc2 x P Kn Hd) as Hi.
  destruct (shake0 F x) as [x'| |] eqn:E; cbn [ok_or]; try (split; [reflexivity | exact (pinv_kn x P)]).
  split; [exact (hn_shake0 F x x' Hi E)|].
  destruct (CW.shake0_postc2 C01.o0 [] F x x' Hi E) as (Hi' & _). exact (invc2_kn _ Hi').
Qed.

Lemma staged_cases o ic y r sw : load_rule o ic y = Ok r ->
  snd (staged sw (r_det r)) = [] \/ C01.no_nested (fst (staged sw (r_det r))) = true.
Proof.
  intros Hl. unfold staged. destruct (sw_coalesce sw); [left; reflexivity|right]. cbn [fst].
  exact (proj2 (CC.cond_shape_pinv _ (CC.load_cond_shape _ _ _ _ Hl))).
Qed.

Theorem dyn_run_general : forall o ic sw y r, load_rule o ic y = Ok r ->
  known_d13 sw (r_det r) = false -> known_d16 ord sw (r_det r) = false ->
  CC.dyn_run ord sw (r_det r) = true.
Proof.
  intros o ic sw y r Hl H13 H16. unfold CC.dyn_run. destruct (sw_shake sw) eqn:Es; [|reflexivity]. cbn [negb orb].
  pose proof (staged_tree_f o ic y r sw Hl) as HT. pose proof (staged_nodneg o ic y r sw Hl Es H13) as HD.
  unfold known_d16 in H16. rewrite Es in H16. cbn [andb] in H16. apply orb_false_iff in H16. destruct H16 as [H16 _].
  destruct (CC.any_tree_false _ _ H16) as [Hc Hb].
  unfold Scope2.run_safe. cbv zeta.
  change (staged (Scope.sw_without_matrix sw) (r_det r)) with (staged sw (r_det r)).
  set (st := staged sw (r_det r)) in *.
  apply andb_true_intro. split.
  - unfold shaken0. cbn [fst]. unfold shaken0 in Hc. cbn [fst] in Hc.
    apply (run_tree_safe false false); [apply HT; left; reflexivity | apply HD; left; reflexivity | auto | exact Hc].
  - destruct (staged_cases o ic y r sw Hl) as [En|Knn]; fold st in En || fold st in Knn.
    { rewrite En. reflexivity. }
    assert (Hpol : body_neg st = true -> body_neg (shaken0 st) = true).
    { unfold body_neg, shaken0. cbn [fst]. intros Hn.
      destruct (HT (fst st) (or_introl eq_refl)) as (P & _ & _).
      rewrite <- Hn. exact (proj1 (cond_neg_kept _ (fst st) P Knn (HD _ (or_introl eq_refl)))). }
    apply C01.forallb_intro. intros b Hb'. apply C01.forallb_intro. intros x Hx. cbv zeta.
    assert (Hbt : In (snd b) (all_trees st)) by (right; apply in_map; exact Hb').
    apply (run_tree_safe (body_neg st) (body_neg (shaken0 st))).
    + exact (tree_f_entry _ _ (HT _ Hbt) Hx).
    + exact (nodneg_entry _ _ (HD _ Hbt) Hx).
    + exact Hpol.
    + assert (Hin : In (fst b, on_entries (fun x0 => ok_or (shake0 (shake_fuel x0) x0) x0) (snd b)) (snd (shaken0 st))).
      { unfold shaken0. cbn [snd]. apply in_map_iff. exists b. split; [reflexivity | exact Hb']. }
      specialize (Hb _ Hin). cbn [snd] in Hb.
      exact (entries_sub _ _ _ _ Hb x Hx).
Qed.

(* ---- the trees handed to matrix ---- *)
Lemma pm_safe_on o sw fu neg neg' x : sw_shake sw = true -> tree_f x -> CC.nodneg x ->
  (neg = true -> neg' = true) ->
  exists_sub (d16_here ord) neg' (ok_or (shake0 (shake_fuel x) x) x) = false ->
  Scope2.match_safe ord neg fu (CC.pm_f o ord sw x) = true.
Proof.
  intros Es Hx Hd Hn Hex. pose proof Hx as (P & [Kn|Kn] & Q).
  2:{ apply CC.match_safe_nn. apply CC.pm_f_nn. exact Kn. }
  pose proof (tree_f_inv2 x Hx Hd Kn) as Hi.
  assert (Hin : kn (if sw_shake sw then ok_or (shake ord x) x else x) = true /\
                sgp (if sw_shake sw then ok_or (shake ord x) x else x) = true /\
                Gd neg (if sw_shake sw then ok_or (shake ord x) x else x) = true).
  { rewrite Es. unfold shake. destruct (shake0 (shake_fuel x) x) as [e0| |] eqn:E; cbn [bind ok_or] in *.
    - destruct (D14.shake0_post2 C01.o0 _ x e0 Hi E) as (Hi' & _).
      pose proof (proj1 (sgp_shake0 _ x e0 Hi Q E)) as Hs0.
      pose proof (Gd_weaken neg' neg _ Hn (Gd_of_not_d16 ord Hperm _ neg' Hs0 Hex)) as Hg0.
      split; [exact (kn_shake1 ord Hk _ e0 (inv2_kn _ Hi'))|].
      split; [exact (sgp_shake1 ord Hperm _ e0 Hs0) | exact (Gd_shake1 ord Hperm _ neg e0 Hs0 Hg0)].
    - split; [exact (pinv_kn x P)|]. split; [exact Q|].
      exact (Gd_weaken neg' neg _ Hn (Gd_of_not_d16 ord Hperm _ neg' Q Hex)).
    - split; [exact (pinv_kn x P)|]. split; [exact Q|].
      exact (Gd_weaken neg' neg _ Hn (Gd_of_not_d16 ord Hperm _ neg' Q Hex)). }
  destruct Hin as (A1 & A2 & A3). unfold CC.pm_f. cbv zeta.
  destruct (sw_rewrite sw); apply (match_safe_Gd ord Hperm);
    rewrite ?kn_rewrite, ?sgp_rewrite, ?Gd_rewrite; assumption.
Qed.

Lemma pm_safe_off o sw fu neg x : sw_shake sw = false -> tree_f x -> Gd neg x = true ->
  Scope2.match_safe ord neg fu (CC.pm_f o ord sw x) = true.
Proof.
  intros Es (P & _ & Q) Hg. unfold CC.pm_f. cbv zeta. rewrite Es.
  destruct (sw_rewrite sw); apply (match_safe_Gd ord Hperm);
    rewrite ?kn_rewrite, ?sgp_rewrite, ?Gd_rewrite; try assumption; exact (pinv_kn x P).
Qed.

Lemma pm_safe_nomatch o sw fu neg x : sw_shake sw = false -> has_match x = false ->
  Scope2.match_safe ord neg fu (CC.pm_f o ord sw x) = true.
Proof.
  intros Es Hm. unfold CC.pm_f. cbv zeta. rewrite Es. rewrite has_match_eq in Hm.
  destruct (sw_rewrite sw); apply (nomatch_safe ord fu _ false); [rewrite pmatch_rewrite|]; exact Hm.
Qed.

Lemma hn_pm_f o sw x : sw_shake sw = true -> kn (ok_or (shake0 (shake_fuel x) x) x) = true ->
  hn (CC.pm_f o ord sw x) = true -> hn (ok_or (shake0 (shake_fuel x) x) x) = true.
Proof.
  intros Es Hkn H. destruct (hn (ok_or (shake0 (shake_fuel x) x) x)) eqn:E; [reflexivity|exfalso].
  pose proof (no_hneg_posb_kn _ false Hkn E) as Hp.
  assert (Hp' : posb (CC.pm_f o ord sw x) = true).
  { unfold CC.pm_f. cbv zeta. rewrite Es. unfold shake.
    assert (H1 : posb (ok_or (do e0 <- shake0 (shake_fuel x) x; Ok (shake1 ord (shake_fuel e0) e0)) x) = true).
    { destruct (shake0 (shake_fuel x) x) as [e0| |]; cbn [bind ok_or] in *; try exact Hp. apply posb_shake1. exact Hp. }
    destruct (sw_rewrite sw); [rewrite posb_rewrite|]; exact H1. }
  apply posb_has_negative in Hp'. unfold hn in H. rewrite has_negative_eq in Hp'. congruence.
Qed.

Lemma hn_pm_f_off o sw x : sw_shake sw = false -> hn (CC.pm_f o ord sw x) = hn x.
Proof.
  intros Es. unfold CC.pm_f. cbv zeta. rewrite Es. destruct (sw_rewrite sw); [|reflexivity].
  unfold hn. apply hneg_rewrite.
Qed.

(* entries of a body, each handed to pm_f *)
Lemma body_entries_safe o sw neg b :
  (forall x, In x (Scope2.entry_trees b) -> forall fu, Scope2.match_safe ord neg fu (CC.pm_f o ord sw x) = true) ->
  forallb (fun m => Scope2.match_safe ord neg (shake_fuel m) m)
          (Scope2.entry_trees (on_entries (CC.pm_f o ord sw) b)) = true.
Proof.
  intros H. apply C01.forallb_intro. intros x Hx.
  destruct b as [s0 g0| | | | | | | | | | | | |];
    try (cbn [on_entries] in Hx; refine (match_safe_entries ord neg _ _ x Hx); intros fu; apply H; left; reflexivity).
  cbn [on_entries Scope2.entry_trees] in Hx. apply in_map_iff in Hx. destruct Hx as (x0 & <- & Hx0).
  apply H. exact Hx0.
Qed.

Theorem dyn_match_general : forall o ic sw y r, load_rule o ic y = Ok r ->
  known_d13 sw (r_det r) = false -> known_d16 ord sw (r_det r) = false ->
  CC.dyn_match o ord sw (r_det r) = true.
Proof.
  intros o ic sw y r Hl H13 H16. unfold CC.dyn_match. cbv zeta. destruct (sw_matrix sw) eqn:Em; [|reflexivity]. cbn [negb orb].
  rewrite CC.pre_matrix_eq. cbn [fst snd].
  pose proof (staged_tree_f o ic y r sw Hl) as HT.
  set (st := staged sw (r_det r)) in *.
  unfold body_neg at 1. cbn [fst].
  change (has_negative (CC.pm_f o ord sw (fst st))) with (hn (CC.pm_f o ord sw (fst st))).
  unfold known_d16 in H16. rewrite Em in H16. apply orb_false_iff in H16. destruct H16 as [H16a H16b]. fold st in H16a, H16b.
  destruct (sw_shake sw) eqn:Es.
  - (* shake on: the classifier ran on the shaken_0 trees *)
    cbn [andb] in H16a. destruct (CC.any_tree_false _ _ H16a) as [Hc Hb].
    pose proof (staged_nodneg o ic y r sw Hl Es H13) as HD. fold st in HD.
    unfold shaken0 in Hc. cbn [fst] in Hc.
    apply andb_true_intro. split.
    + apply (pm_safe_on o sw _ false false); [exact Es | apply HT; left; reflexivity | apply HD; left; reflexivity | auto | exact Hc].
    + destruct (staged_cases o ic y r sw Hl) as [En|Knn]; fold st in En || fold st in Knn.
      { rewrite En. reflexivity. }
      destruct (HT (fst st) (or_introl eq_refl)) as (P & _ & _).
      destruct (cond_neg_kept (shake_fuel (fst st)) (fst st) P Knn (HD _ (or_introl eq_refl))) as [_ Hkn0].
      assert (Hpol : hn (CC.pm_f o ord sw (fst st)) = true -> body_neg (shaken0 st) = true).
      { unfold body_neg, shaken0. cbn [fst]. exact (hn_pm_f o sw (fst st) Es Hkn0). }
      apply C01.forallb_intro. intros b Hb'. apply in_map_iff in Hb'. destruct Hb' as (kv & <- & Hkv). cbn [snd].
      assert (Hbt : In (snd kv) (all_trees st)) by (right; apply in_map; exact Hkv).
      apply body_entries_safe. intros x Hx fu.
      apply (pm_safe_on o sw fu _ (body_neg (shaken0 st))); [exact Es | | | exact Hpol |].
      * exact (tree_f_entry _ _ (HT _ Hbt) Hx).
      * exact (nodneg_entry _ _ (HD _ Hbt) Hx).
      * assert (Hin : In (fst kv, on_entries (fun x0 => ok_or (shake0 (shake_fuel x0) x0) x0) (snd kv)) (snd (shaken0 st))).
        { unfold shaken0. cbn [snd]. apply in_map_iff. exists kv. split; [reflexivity | exact Hkv]. }
        specialize (Hb _ Hin). cbn [snd] in Hb. exact (entries_sub _ _ _ _ Hb x Hx).
  - (* shake off: the classifier ran on the staged trees (when they hold a quantifier) *)
    cbn [andb] in H16b. rewrite (hn_pm_f_off o sw (fst st) Es).
    destruct (existsb has_match (all_trees st)) eqn:Ehm; cbn [andb] in H16b.
    + destruct (CC.any_tree_false _ _ H16b) as [Hc Hb].
      apply andb_true_intro. split.
      * apply (pm_safe_off o sw _ false); [exact Es | apply HT; left; reflexivity|].
        destruct (HT (fst st) (or_introl eq_refl)) as (_ & _ & Q). exact (Gd_of_not_d16 ord Hperm _ false Q Hc).
      * apply C01.forallb_intro. intros b Hb'. apply in_map_iff in Hb'. destruct Hb' as (kv & <- & Hkv). cbn [snd].
        assert (Hbt : In (snd kv) (all_trees st)) by (right; apply in_map; exact Hkv).
        apply body_entries_safe. intros x Hx fu.
        pose proof (tree_f_entry _ _ (HT _ Hbt) Hx) as Hxf.
        apply (pm_safe_off o sw fu); [exact Es | exact Hxf |].
        apply (Gd_of_not_d16 ord Hperm); [exact (proj2 (proj2 Hxf))|].
        specialize (Hb kv Hkv). change (hn (fst st)) with (body_neg st).
        exact (entries_sub_id _ _ (snd kv) Hb x Hx).
    + assert (Hnm : forall t, In t (all_trees st) -> has_match t = false) by (intros t Ht; exact (C01.existsb_false_In _ _ _ Ehm Ht)).
      apply andb_true_intro. split.
      * apply pm_safe_nomatch; [exact Es | apply Hnm; left; reflexivity].
      * apply C01.forallb_intro. intros b Hb'. apply in_map_iff in Hb'. destruct Hb' as (kv & <- & Hkv). cbn [snd].
        assert (Hbt : In (snd kv) (all_trees st)) by (right; apply in_map; exact Hkv).
        apply body_entries_safe. intros x Hx fu. apply pm_safe_nomatch; [exact Es|].
        specialize (Hnm _ Hbt). rewrite has_match_eq in *.
        destruct (snd kv); cbn [Scope2.entry_trees] in Hx; try (destruct Hx as [<-|[]]; exact Hnm).
        cbn [exists_sub pmatch orb] in Hnm. exact (C01.existsb_false_In _ _ _ Hnm Hx).
Qed.

(* ====================================================================================== *)
(* 17. the statement of Properties/C01_outside.v                                     *)
(* ====================================================================================== *)
Theorem scope_complete_ord : forall o ic sw y r,
  load_rule o ic y = Ok r ->
  known_d13 sw (r_det r) = false ->
  known_d16 ord sw (r_det r) = false ->
  known_d17 o ord sw (r_det r) = false ->
  Scope6.c01_scope_quant_all_f o ord sw (r_det r) = true.
Proof.
  intros o ic sw y r Hl H13 H16 H17.
  apply (CC.scope_complete_alt2 o ic ord sw y r Hl H13 H16 H17).
  - exact (dyn_run_general o ic sw y r Hl H13 H16).
  - exact (dyn_match_general o ic sw y r Hl H13 H16).
Qed.
End Final.

Theorem scope_complete : forall o ic ord sw y r,
  (forall l, Permutation (ord l) l) ->
  C01.H_strip o ->
  load_rule o ic y = Ok r -> r_optimised r = false ->
  known_d13 sw (r_det r) = false ->
  known_d16 ord sw (r_det r) = false ->
  known_d17 o ord sw (r_det r) = false ->
  Scope6.c01_scope_quant_all_f o ord sw (r_det r) = true.
Proof.
  intros o ic ord sw y r Hperm _ Hl _ H13 H16 H17.
  exact (scope_complete_ord ord Hperm o ic sw y r Hl H13 H16 H17).
Qed.

Print Assumptions head_allor_shake1.
Print Assumptions kn_shake1.
Print Assumptions safe_is_d16_run.
Print Assumptions T_shake1.
Print Assumptions Gd_shake1.
Print Assumptions d16_run_Gd.
Print Assumptions T_complete.
Print Assumptions Gd_of_not_d16.
Print Assumptions parse_identifier_sgp.
Print Assumptions dyn_run_general.
Print Assumptions dyn_match_general.
Print Assumptions scope_complete.

(* ====================================================================================== *)
(* with the soundness theorem: the property itself outside the listed classes             *)
(* ====================================================================================== *)
From TauProofs Require C01_final C12_order.

Theorem outside_listed_classes_sound : forall o ic ord sw y r (d : doc),
  (forall l, Permutation (ord l) l) ->
  C01.H_strip o ->
  load_rule o ic y = Ok r -> r_optimised r = false ->
  known_d13 sw (r_det r) = false ->
  known_d16 ord sw (r_det r) = false ->
  known_d17 o ord sw (r_det r) = false ->
  exists r', optimise o ord sw r = Ok r' /\ matches o r' d = matches o r d.
Proof.
  intros o ic ord sw y r d Hord Hs Hl Hopt H13 H16 H17.
  apply (C01_final.scope_quant_all_sound_f o ic ord sw y r d Hord Hs Hl Hopt).
  exact (scope_complete o ic ord sw y r Hord Hs Hl Hopt H13 H16 H17).
Qed.

(* at the crate's own map order *)
Theorem crate_order_outside_listed_classes_sound : forall o ic sw y r (d : doc),
  C01.H_strip o ->
  load_rule o ic y = Ok r -> r_optimised r = false ->
  known_d13 sw (r_det r) = false ->
  known_d16 Order.rust_ord sw (r_det r) = false ->
  known_d17 o Order.rust_ord sw (r_det r) = false ->
  exists r', optimise o Order.rust_ord sw r = Ok r' /\ matches o r' d = matches o r d.
Proof.
  intros o ic sw y r d. apply outside_listed_classes_sound. exact C12_order.rust_ord_perm.
Qed.
