(* C09: the numeric pattern arms regenerated from both copies in src/parser.rs
   (Model/GeneratedNumArms.v) are ParseMap.numeric_expr. *)
From Coq Require Import List Bool.
From TauModel Require Import Base Num Oracles Syntax Ident IdentTable NumArmTable GeneratedNumArms ParseMap.

Lemma scalar_arms_are_numeric_expr : forall e p, numeric_expr_gen scalar_num_arms e p = numeric_expr e p.
Proof. intros e p. destruct p; reflexivity. Qed.

Lemma list_arms_are_numeric_expr : forall e p, numeric_expr_gen list_num_arms e p = numeric_expr e p.
Proof. intros e p. destruct p; reflexivity. Qed.
