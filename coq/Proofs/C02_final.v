(* C02 (fifth proof file): the statements of Properties/C02_all.v and the list-entry theorem of
   Properties/C02_lists.v WITHOUT the exclusions D27 and D30, which are repaired in the crate
   (statements: Properties/C02_final.v).

   Contents
     (0) the helper definitions of Properties/C02_final.v, restated identically
     (1) a list of scalars: the two member kinds C02_lists.step leaves out
     (2) ints_ok: fuel, entries, members
     (3) entries and mappings (any nesting depth)
     (4) identifiers
     (5) whole rules *)
From TauModel Require Import Base Num Oracles Syntax Value Yaml Token Pratt Ident ParseMap PatSpec
     Solver Rule Keys Known Spec.
From TauProofs Require Import C07 C08 C02_entry C02_lift.
From TauProofs Require C03 C02_lists C02_cond C02_full C02_all C01_matrix.
From Coq Require Import Lia ZArith NArith ZifyBool List Bool Arith.
Import ListNotations.

(* ====================================================================================== *)
(* (0) the helper definitions of Properties/C02_final.v, restated identically              *)
(* ====================================================================================== *)
Definition is_ymap (v : yaml) : bool := match v with YMap _ => true | _ => false end.

Fixpoint any_mapping (fuel : nat) (y : yaml) : bool :=
  match fuel with
  | O => false
  | S fu =>
      match y with
      | YMap kv => forallb (fun p : yaml * yaml =>
                              match fst p with YStr _ => true | _ => false end &&
                              (scalar_yaml (snd p) ||
                               match snd p with
                               | YSeq vs => forallb scalar_yaml vs || forallb (any_mapping fu) vs
                               | _ => false
                               end ||
                               any_mapping fu (snd p))) kv
      | _ => false
      end
  end.
Definition any_identifier (y : yaml) : bool :=
  match y with
  | YMap _ => any_mapping (S (yaml_depth y)) y
  | YSeq l => forallb (fun m => any_mapping (S (yaml_depth m)) m) l
  | _ => false
  end.

Definition excluded_entry3 (o : oracles) (k v : yaml) : bool :=
  d32_entry o k v || d28_entry o k v || d28_member_entry o k v.
Definition excl_free3 (o : oracles) (y : yaml) : Prop :=
  entry_exists (S (yaml_depth y)) (excluded_entry3 o) y = false.

Fixpoint ints_ok (fuel : nat) (y : yaml) : bool :=
  match fuel with
  | O => true
  | S fu =>
      match y with
      | YInt z => (i64_min <=? z)%Z && (z <=? u64_max)%Z
      | YSeq l => forallb (ints_ok fu) l
      | YMap kv => forallb (fun p : yaml * yaml => ints_ok fu (fst p) && ints_ok fu (snd p)) kv
      | YTagged _ v => ints_ok fu v
      | _ => true
      end
  end.

Definition is_ystr' (v : yaml) : bool := match v with YStr _ => true | _ => false end.
Definition quant_strings (m : keymod) (vs : list yaml) : bool :=
  match m with KAll | KOf _ => (2 <=? length (filter is_ystr' vs))%nat | _ => false end.
Fixpoint arrays_ok (o : oracles) (fuel : nat) (y : yaml) (d : doc) : bool :=
  match fuel with
  | O => true
  | S fu =>
      match y with
      | YMap kv =>
          forallb (fun p : yaml * yaml =>
                     match fst p with
                     | YStr k =>
                         match read_key o k with
                         | Some (m, f) =>
                             let sub (v : yaml) : bool :=
                               match d f with
                               | Some (VObj kv') => arrays_ok o fu v (obj_find kv')
                               | Some (VArr l) => forallb (fun e => match e with VObj kv' => arrays_ok o fu v (obj_find kv') | _ => true end) l
                               | _ => true
                               end in
                             match snd p with
                             | YSeq vs =>
                                 negb (quant_strings m vs && match d f with Some (VArr _) => true | _ => false end) &&
                                 forallb (fun v => if is_ymap v then sub v else true) vs
                             | YMap _ => sub (snd p)
                             | _ => true
                             end
                         | None => true
                         end
                     | _ => true
                     end) kv
      | YSeq l => forallb (fun m => arrays_ok o fu m d) l
      | _ => true
      end
  end.

Fixpoint counted (i : str) (e : expr) : bool :=
  match e with
  | EMatch _ (EIdent j) => str_eqb i j
  | EMatch _ e' | ENegate e' | ENested _ e' => counted i e'
  | EBexp l _ r => counted i l || counted i r
  | EGroup _ l => existsb (counted i) l
  | _ => false
  end.

Definition sem_entry_list (o : oracles) (ic : bool) (m : keymod) (f : str) (vs : list yaml) (d : doc) : res3 :=
  let base :=
    match d f with
    | None => M
    | Some x =>
        match m with
        | KAll => first_non_true (map (fun v => sem_scalar o ic KPlain v x) vs)
        | KOf c => of3 c (map (fun v => sem_scalar o ic KPlain v x) vs)
        | KNot => max3 (map (fun v => sem_scalar o ic KPlain v x) vs)
        | _ => max3 (map (fun v => sem_scalar o ic m v x) vs)
        end
    end in
  match m with KNot => not3 base | _ => base end.
Definition array_ok (m : keymod) (vs : list yaml) (x : option value) : Prop :=
  match m with
  | KAll | KOf _ =>
      (2 <= length (filter is_ystr' vs))%nat -> match x with Some (VArr _) => False | _ => True end
  | _ => True
  end.

(* ====================================================================================== *)
(* (1) a list of scalars: the members `null` and `N above i64` under a str() key            *)
(* ====================================================================================== *)

Lemma ints_ok_1 : forall v, ints_ok 1 v = true ->
  match v with YInt z => (i64_min <=? z)%Z && (z <=? u64_max)%Z | _ => true end = true.
Proof. intros v H. destruct v; try reflexivity. exact H. Qed.

(* one member: C02_lists.step without the exclusion *)
Lemma step_final : forall o ic m f d a a' v,
  base_mod m = true -> scalar_yaml v = true -> ints_ok 1 v = true ->
  seq_member o ic (ki_of m f) (key_expr m f) a v None = Ok a' ->
  C02_lists.ainv o m d a ->
  C02_lists.ainv o m d a' /\
  forall r, C02_lists.accc o m f d r a' =
            C02_lists.accc o m f d r a + C02_lists.bitr r (C02_lists.mres o ic m f d v).
Proof.
  intros o ic m f d a a' v Hm Hv Hi H Hinv.
  destruct (excluded m v) eqn:Hx.
  2:{ exact (C02_lists.step o ic m f d a a' v Hm Hv Hx H Hinv). }
  destruct m; try (destruct v; discriminate Hx).
  destruct v as [|b|z|y|s|l|kv|tg v']; try discriminate Hx.
  - (* null under str(): a comparison of the cast operand with null (fix D27) *)
    cbn [seq_member] in H. inversion H; subst a'; clear H.
    assert (Hs : solve_body o (cmp_expr (ECast f MStr) BEqual ENull) (pure_doc d) =
                 Ok (C02_lists.mres o ic KStr f d YNull)).
    { apply (C02_full.inner_str_rest o ic f YNull _ eq_refl eq_refl); [|reflexivity].
      intros z E. discriminate E. }
    destruct (C02_lists.solvable_intro o d _ _ Hs) as [Hsol Hev].
    apply (C02_lists.rest_step0 o ic KStr f d a YNull (cmp_expr (ECast f MStr) BEqual ENull));
      try assumption; try reflexivity; try exact I.
  - (* an integer above the i64 range under str(): its own decimal text (fix D30) *)
    cbn [excluded] in Hx. apply negb_true_iff in Hx.
    assert (Hr : (0 <=? z)%Z && (z <=? u64_max)%Z = true).
    { cbn [ints_ok] in Hi. unfold in_i64 in Hx. unfold i64_min, i64_max, u64_max in *. lia. }
    unfold seq_member, number_of, yint_as_i64 in H. rewrite Hx in H.
    cbn [ki_of k_misc misc_of misc_is modsym_eqb] in H. unfold big_int_text in H. rewrite Hr in H.
    inversion H; subst a'; clear H.
    apply (C02_lists.id_step o ic KStr f d _ _ (YInt z)
             (fun r => C02_lists.exw o KStr f d r (exact_id (show_Z z)))
             (fun h => str_eqb (show_Z z) h)).
    + exact Hinv.
    + apply C02_lists.mres_literal; reflexivity.
    + intros r. apply C02_lists.exw_literal.
    + destruct Hinv as [Hc _].
      cbn [push_exact flag_string set_flags a_cast]. rewrite ?orb_false_r. exact Hc.
    + reflexivity.
    + intros r. unfold C02_lists.accc.
      cbn [push_exact flag_string set_flags a_exact a_starts a_ends a_contains a_regex a_rest].
      rewrite sumf_app. cbn [sumf]. lia.
Qed.

Lemma steps_final : forall o ic m f d vs a a',
  base_mod m = true -> forallb scalar_yaml vs = true -> forallb (ints_ok 1) vs = true ->
  seq_members o ic (ki_of m f) (key_expr m f) a vs (map (fun _ => None) vs) = Ok a' ->
  C02_lists.ainv o m d a ->
  C02_lists.ainv o m d a' /\
  forall r, C02_lists.accc o m f d r a' =
            C02_lists.accc o m f d r a + C02_lists.cn r (map (C02_lists.mres o ic m f d) vs).
Proof.
  intros o ic m f d. induction vs as [|v vs IH]; intros a a' Hm Hvs Hi H Hinv.
  - cbn [map seq_members] in H. inversion H; subst a'. split; [exact Hinv|].
    intros r. unfold C02_lists.cn. cbn [map sumf]. lia.
  - cbn [map seq_members tl] in H. cbn [forallb] in Hvs, Hi.
    apply andb_prop in Hvs. destruct Hvs as [Hv Hvs].
    apply andb_prop in Hi. destruct Hi as [Hiv Hi].
    destruct (seq_member o ic (ki_of m f) (key_expr m f) a v None) as [a1|k|n] eqn:Hs;
      cbn [bind] in H; try discriminate H.
    destruct (step_final o ic m f d a a1 v Hm Hv Hiv Hs Hinv) as [Hinv1 Hacc1].
    destruct (IH a1 a' Hm Hvs Hi H Hinv1) as [Hinv' Hacc'].
    split; [exact Hinv'|]. intros r. rewrite Hacc', Hacc1. cbn [map]. rewrite C02_lists.cn_cons. lia.
Qed.

(* the list under a plain / int() / flt() / str() key: some member holds *)
Lemma plain_list_final : forall o ic m f d vs a e,
  base_mod m = true -> forallb scalar_yaml vs = true -> forallb (ints_ok 1) vs = true ->
  seq_members o ic (ki_of m f) (key_expr m f) (C02_lists.acc_init m) vs (map (fun _ => None) vs) = Ok a ->
  finish_seq (ki_of m f) a = Ok e ->
  solve_body o e (pure_doc d) = Ok (max3 (map (C02_lists.mres o ic m f d) vs)).
Proof.
  intros o ic m f d vs a e Hm Hvs Hi Hseq Hfin.
  destruct (C02_lists.acc_init_inv o m f d Hm) as [Hinv0 Hacc0].
  destruct (steps_final o ic m f d vs _ a Hm Hvs Hi Hseq Hinv0) as [Hinv Hacc].
  assert (Hmax : max3 (map (C02_lists.ev o d) (group_of f a)) = max3 (map (C02_lists.mres o ic m f d) vs)).
  { rewrite (C02_lists.group_max o m f d a Hinv), (C02_lists.max3_cn (map (C02_lists.mres o ic m f d) vs)),
      !Hacc, !Hacc0. reflexivity. }
  pose proof (C02_lists.group_solvable o m f d a Hinv) as Hsol.
  destruct (C02_lists.finish_plain_shape m f a e Hm Hfin) as [->|Hg].
  - change (solve_body o (EGroup BOr (group_of f a)) (pure_doc d))
      with (or_fold M (map (fun x (_ : unit) => solve_body o x (pure_doc d)) (group_of f a))).
    rewrite (C02_lists.or_fold_ev o d _ M Hsol) by discriminate. rewrite Hmax.
    destruct (max3 (map (C02_lists.mres o ic m f d) vs)); reflexivity.
  - rewrite Hg in *. inversion Hsol as [|? ? He _]; subst. rewrite He. rewrite <- Hmax.
    cbn [map]. destruct (C02_lists.ev o d e); reflexivity.
Qed.

Lemma plain_entry_final : forall o ic m f vs a e (d : doc),
  base_mod m = true -> forallb scalar_yaml vs = true -> forallb (ints_ok 1) vs = true ->
  seq_members o ic (ki_of m f) (key_expr m f) (C02_lists.acc_init m) vs (map (fun _ => None) vs) = Ok a ->
  finish_seq (ki_of m f) a = Ok e ->
  solve_body o e (pure_doc d)
  = Ok (match d f with None => M | Some x => max3 (map (fun v => sem_scalar o ic m v x) vs) end).
Proof.
  intros o ic m f vs a e d Hm Hvs Hi Hseq Hfin.
  rewrite (plain_list_final o ic m f d vs a e Hm Hvs Hi Hseq Hfin). unfold C02_lists.mres.
  destruct (d f) as [x|]; [reflexivity|]. rewrite C02_lists.max3_allM. reflexivity.
Qed.

(* statement 4 of Properties/C02_final.v, with the definitions of C02_lists *)
Lemma list_entry_final_l : forall o ic k vs e,
  forallb scalar_yaml vs = true ->
  forallb (ints_ok 1) vs = true ->
  d32_entry o (YStr k) (YSeq vs) = false ->
  parse_entry o ic (YStr k) (YSeq vs) None (map (fun _ => None) vs) = Ok e ->
  exists_sub d10_here false e = false ->
  exists m f, read_key o k = Some (m, f) /\
    forall d : doc, C02_lists.array_ok m vs (d f) ->
      solve_body o e (pure_doc d) = Ok (C02_lists.sem_entry_list o ic m f vs d).
Proof.
  intros o ic k vs e Hvs Hi H32 Hpe Hd10.
  unfold parse_entry in Hpe.
  destruct (parse_key o (YStr k) (YSeq vs)) as [ki|ek|n] eqn:Hk; cbn [bind] in Hpe;
    try discriminate Hpe.
  destruct (C02_lists.key_cases_seq o k vs ki Hk) as [[m [f [Hr [Hs ->]]]]|[mm [f [Hr [-> Hth]]]]].
  - (* plain, not(), int(), flt(), str() *)
    exists m, f. split; [exact Hr|]. intros d _.
    unfold C02_lists.sem_entry_list.
    destruct m; try discriminate Hs;
      cbn [ki_of k_e k_f k_misc key_expr misc_of misc_is modsym_eqb] in Hpe.
    + destruct (seq_members o ic (ki_of KPlain f) (EField f) acc0 vs (map (fun _ => None) vs))
        as [a|ek|n] eqn:Hseq; cbn [bind] in Hpe; try discriminate Hpe.
      destruct (finish_seq (ki_of KPlain f) a) as [ex|ek|n] eqn:Hfin; cbn [bind] in Hpe;
        try discriminate Hpe.
      inversion Hpe; subst e.
      apply (plain_entry_final o ic KPlain f vs a ex d eq_refl Hvs Hi Hseq Hfin).
    + destruct (seq_members o ic (ki_of KNot f) (EField f) acc0 vs (map (fun _ => None) vs))
        as [a|ek|n] eqn:Hseq; cbn [bind] in Hpe; try discriminate Hpe.
      destruct (finish_seq (ki_of KNot f) a) as [ex|ek|n] eqn:Hfin; cbn [bind] in Hpe;
        try discriminate Hpe.
      inversion Hpe; subst e.
      rewrite C02_lists.seq_members_not in Hseq by exact Hvs. rewrite C02_lists.finish_seq_not in Hfin.
      change (solve_body o (ENegate ex) (pure_doc d))
        with (do r <- solve_body o ex (pure_doc d); Ok (neg3 r)).
      rewrite (plain_entry_final o ic KPlain f vs a ex d eq_refl Hvs Hi Hseq Hfin).
      cbn [bind]. rewrite C02_lists.neg3_not3. reflexivity.
    + destruct (seq_members o ic (ki_of KInt f) (ECast f MInt) acc0 vs (map (fun _ => None) vs))
        as [a|ek|n] eqn:Hseq; cbn [bind] in Hpe; try discriminate Hpe.
      destruct (finish_seq (ki_of KInt f) a) as [ex|ek|n] eqn:Hfin; cbn [bind] in Hpe;
        try discriminate Hpe.
      inversion Hpe; subst e.
      apply (plain_entry_final o ic KInt f vs a ex d eq_refl Hvs Hi Hseq Hfin).
    + destruct (seq_members o ic (ki_of KFlt f) (ECast f MFlt) acc0 vs (map (fun _ => None) vs))
        as [a|ek|n] eqn:Hseq; cbn [bind] in Hpe; try discriminate Hpe.
      destruct (finish_seq (ki_of KFlt f) a) as [ex|ek|n] eqn:Hfin; cbn [bind] in Hpe;
        try discriminate Hpe.
      inversion Hpe; subst e.
      apply (plain_entry_final o ic KFlt f vs a ex d eq_refl Hvs Hi Hseq Hfin).
    + destruct (seq_members o ic (ki_of KStr f) (ECast f MStr) (flag_cast acc0) vs (map (fun _ => None) vs))
        as [a|ek|n] eqn:Hseq; cbn [bind] in Hpe; try discriminate Hpe.
      destruct (finish_seq (ki_of KStr f) a) as [ex|ek|n] eqn:Hfin; cbn [bind] in Hpe;
        try discriminate Hpe.
      inversion Hpe; subst e.
      apply (plain_entry_final o ic KStr f vs a ex d eq_refl Hvs Hi Hseq Hfin).
  - (* all(), of(): the members are read under the plain key, nothing was excluded there *)
    exists (match mm with MAll => KAll | MOf c => KOf c end), f. split; [exact Hr|].
    intros d Harr.
    cbn [quant_key k_e k_f k_misc misc_is] in Hpe.
    destruct (seq_members o ic (quant_key mm f) (EField f) acc0 vs (map (fun _ => None) vs))
      as [a|ek|n] eqn:Hseq; cbn [bind] in Hpe; try discriminate Hpe.
    destruct (finish_seq (quant_key mm f) a) as [ex|ek|n] eqn:Hfin; cbn [bind] in Hpe;
      try discriminate Hpe.
    inversion Hpe; subst e.
    assert (Hne : vs <> []).
    { intros ->. cbn [map seq_members] in Hseq. inversion Hseq; subst a.
      rewrite finish_seq_q_acc0 in Hfin. discriminate Hfin. }
    assert (H32' : match mm with
                   | MAll => existsb is_ynull vs && existsb is_ystr vs = false
                   | MOf _ => True
                   end).
    { destruct mm; [|exact I]. unfold d32_entry, key_mod in H32. rewrite Hr in H32. exact H32. }
    assert (Harr' : (2 <= length (filter C02_lists.is_ystr' vs))%nat ->
                    match d f with Some (VArr _) => False | _ => True end).
    { destruct mm; exact Harr. }
    rewrite (C02_lists.quant_list o ic KPlain f d mm vs a ex eq_refl Hth Hvs Hseq Hfin Hd10 H32' Harr').
    unfold C02_lists.sem_entry_list, C02_lists.mres. f_equal.
    destruct (d f) as [x|].
    + destruct mm; reflexivity.
    + rewrite (C02_lists.Qm_allM mm vs Hth Hne). destruct mm; reflexivity.
Qed.

(* statement 4 of Properties/C02_final.v *)
Lemma list_entry_refines_final : forall o ic k vs e,
  forallb scalar_yaml vs = true ->
  forallb (ints_ok 1) vs = true ->
  d32_entry o (YStr k) (YSeq vs) = false ->
  parse_entry o ic (YStr k) (YSeq vs) None (map (fun _ => None) vs) = Ok e ->
  exists_sub d10_here false e = false ->
  exists m f, read_key o k = Some (m, f) /\
    forall d : doc, array_ok m vs (d f) ->
      solve_body o e (pure_doc d) = Ok (sem_entry_list o ic m f vs d).
Proof. exact list_entry_final_l. Qed.

(* ====================================================================================== *)
(* (2) ints_ok: fuel, entries, members                                                     *)
(* ====================================================================================== *)

Lemma depth_map_key : forall kv p, In p kv -> yaml_depth (fst p) < yaml_depth (YMap kv).
Proof.
  intros kv p. cbn [yaml_depth].
  induction kv as [|q kv IH]; intros Hin; [contradiction|].
  cbn [fold_right]. destruct Hin as [->|Hin]; [lia|].
  specialize (IH Hin). lia.
Qed.

Lemma forallb_ext_In : forall {A} (p q : A -> bool) l,
  (forall x, In x l -> p x = q x) -> forallb p l = forallb q l.
Proof.
  intros A p q l. induction l as [|x l IH]; intros H; [reflexivity|].
  cbn [forallb]. rewrite (H x (or_introl eq_refl)), IH; [reflexivity|].
  intros y Hy. apply H. right. exact Hy.
Qed.

(* above the depth of the value the fuel of ints_ok does not matter *)
Lemma ints_ok_enough : forall n n' y, yaml_depth y < n -> n <= n' -> ints_ok n' y = ints_ok n y.
Proof.
  induction n as [|n IH]; intros n' y Hd Hle; [lia|].
  destruct n' as [|n']; [lia|].
  destruct y as [| | | | |l|kv|tg v]; try reflexivity; cbn [ints_ok].
  - apply forallb_ext_In. intros m Hm. apply IH; [|lia].
    pose proof (depth_seq_member l m Hm). lia.
  - apply forallb_ext_In. intros p Hp.
    pose proof (depth_map_value kv p Hp). pose proof (depth_map_key kv p Hp).
    rewrite (IH n' (fst p)), (IH n' (snd p)) by lia. reflexivity.
  - apply IH; [|lia]. cbn [yaml_depth] in Hd. lia.
Qed.

Lemma ints_ok_scalar : forall n v, scalar_yaml v = true -> ints_ok (S n) v = true ->
  ints_ok 1 v = true.
Proof. intros n v Hv H. destruct v; try discriminate Hv; try reflexivity. exact H. Qed.

(* the members of a list that is the value of an entry *)
Lemma ints_ok_members : forall fu vs, yaml_depth (YSeq vs) < fu -> ints_ok fu (YSeq vs) = true ->
  forall v, In v vs -> ints_ok fu v = true.
Proof.
  intros fu vs Hd H v Hv. destruct fu as [|fu']; [lia|]. cbn [ints_ok] in H.
  rewrite forallb_forall in H. pose proof (depth_seq_member vs v Hv) as Hdv.
  rewrite (ints_ok_enough fu' (S fu') v) by lia. exact (H v Hv).
Qed.

(* ====================================================================================== *)
(* (3) entries and mappings                                                                *)
(* ====================================================================================== *)
Section SemF.
Variable o : oracles.
Variable ic : bool.

Definition excl3_in_entry (fu : nat) (e : yaml * yaml) : bool :=
  excluded_entry3 o (fst e) (snd e) || entry_exists fu (excluded_entry3 o) (snd e).
Definition ints_entry (fu : nat) (p : yaml * yaml) : bool := ints_ok fu (fst p) && ints_ok fu (snd p).

Lemma entry_exists_S3 fu kv :
  entry_exists (S fu) (excluded_entry3 o) (YMap kv) = existsb (excl3_in_entry fu) kv.
Proof. reflexivity. Qed.
Lemma ints_ok_S fu kv : ints_ok (S fu) (YMap kv) = forallb (ints_entry fu) kv.
Proof. reflexivity. Qed.

(* what is proved, at any fuel above the depth *)
Definition mapping_ok3 (n : nat) : Prop :=
  forall y e,
    yaml_depth y < n -> C02_all.any_mapping n y = true ->
    entry_exists n (excluded_entry3 o) y = false -> ints_ok n y = true ->
    parse_mapping o ic y = Ok e -> exists_sub d10_here false e = false ->
    (forall d : doc, C02_all.arrays_ok o n y d = true ->
                     solve_body o e (pure_doc d) = Ok (sem_mapping o ic n y d)) /\
    (is_allor e = true -> d28_entry o YNull y = true).

(* the members of the list, each under the nested block the loader wraps it in *)
Lemma members_solve3 fu f (d : doc) vs es :
  mapping_ok3 fu ->
  (forall v, In v vs -> yaml_depth v < fu) ->
  forallb (C02_all.any_mapping fu) vs = true ->
  (forall v, In v vs -> entry_exists fu (excluded_entry3 o) v = false) ->
  (forall v, In v vs -> ints_ok fu v = true) ->
  (forall v, In v vs -> d28_entry o YNull v = false) ->
  Forall2 (fun v e => parse_mapping o ic v = Ok e) vs es ->
  (forall e, In e es -> exists_sub d10_here false e = false) ->
  forallb (fun v => if C02_all.is_ymap v then C02_all.sub_ok o fu d f v else true) vs = true ->
  Forall2 (fun v e => solve_body o (ENested f e) (pure_doc d) = Ok (C02_all.mres o ic fu d f v)) vs es.
Proof.
  intros IH Hdep Hany Hx Hi H28 HF Hd10 Ha.
  apply (C02_full.F2_impl_in2 (fun v e => parse_mapping o ic v = Ok e)); [|exact HF].
  intros v e Hv He Hp.
  rewrite forallb_forall in Hany. pose proof (Hany v Hv) as Hav.
  destruct (IH v e (Hdep v Hv) Hav (Hx v Hv) (Hi v Hv) Hp (Hd10 e He)) as [Hsolve Hallor].
  assert (Hna : is_allor e = false).
  { destruct (is_allor e) eqn:E; [|reflexivity].
    pose proof (H28 v Hv) as G. rewrite (Hallor eq_refl) in G. discriminate G. }
  pose proof (C02_all.any_mapping_is_map _ _ Hav) as Hm.
  rewrite forallb_forall in Ha. pose proof (Ha v Hv) as Hsv. rewrite Hm in Hsv.
  unfold C02_all.mres. exact (C02_all.nested_ok o ic fu f v e d Hsolve Hna Hm Hsv).
Qed.

Lemma maplist_entry_ok3 fu k vs e :
  mapping_ok3 fu ->
  yaml_depth (YSeq vs) < fu ->
  vs <> [] -> forallb (C02_all.any_mapping fu) vs = true ->
  excl3_in_entry fu (YStr k, YSeq vs) = false ->
  ints_ok fu (YSeq vs) = true ->
  parse_entry o ic (YStr k) (YSeq vs) None (map (C02_all.subf o ic) vs) = Ok e ->
  exists_sub d10_here false e = false ->
  C02_all.entry_ok o ic fu (YStr k, YSeq vs) e.
Proof.
  intros IH Hdep Hne Hany Hx Hints Hpe Hd10.
  (* the exclusions *)
  unfold excl3_in_entry in Hx. cbn [fst snd] in Hx. apply orb_false_iff in Hx.
  destruct Hx as [Hx Hxv]. unfold excluded_entry3 in Hx.
  apply orb_false_iff in Hx. destruct Hx as [Hx H28m]. clear Hx.
  unfold d28_member_entry in H28m.
  assert (H28 : forall v, In v vs -> d28_entry o YNull v = false).
  { intros v Hv. exact (C02_full.existsb_false_in _ _ v H28m Hv). }
  assert (Hxm : forall v, In v vs -> entry_exists fu (excluded_entry3 o) v = false).
  { intros v Hv. destruct fu as [|fu']; [lia|]. cbn [entry_exists] in Hxv.
    pose proof (depth_seq_member vs v Hv) as Hdv.
    rewrite (C02_all.entry_exists_enough (excluded_entry3 o) fu' (S fu') v) by lia.
    exact (C02_full.existsb_false_in _ _ v Hxv Hv). }
  pose proof (ints_ok_members fu vs Hdep Hints) as Him.
  assert (Hdm : forall v, In v vs -> yaml_depth v < fu).
  { intros v Hv. pose proof (depth_seq_member vs v Hv). lia. }
  assert (Hmaps : forall v, In v vs -> C02_all.is_ymap v = true).
  { intros v Hv. rewrite forallb_forall in Hany. exact (C02_all.any_mapping_is_map _ _ (Hany v Hv)). }
  (* the loader *)
  unfold parse_entry in Hpe.
  destruct (parse_key o (YStr k) (YSeq vs)) as [ki|ek|n] eqn:Hk; cbn [bind] in Hpe;
    try discriminate Hpe.
  cbv zeta in Hpe.
  destruct (seq_members o ic ki (match k_e ki with EMatch _ inner => inner | _ => k_e ki end)
              (if misc_is MStr (k_misc ki) then flag_cast acc0 else acc0) vs (map (C02_all.subf o ic) vs))
    as [a|ek|n] eqn:Hseq; cbn [bind] in Hpe; try discriminate Hpe.
  destruct (finish_seq ki a) as [ex|ek|n] eqn:Hfin; cbn [bind] in Hpe; try discriminate Hpe.
  assert (Hmisc : k_misc ki = None).
  { destruct vs as [|v vs']; [congruence|].
    pose proof (Hmaps v (or_introl eq_refl)) as Hv. destruct v; try discriminate Hv.
    cbn [map] in Hseq. exact (C02_all.members_misc _ _ _ _ _ _ _ _ _ Hseq). }
  rewrite Hmisc in Hseq, Hpe. cbn [misc_is] in Hseq, Hpe. inversion Hpe; subst ex; clear Hpe.
  change acc0 with (C02_all.macc false []) in Hseq.
  destruct (C02_all.members_maps o ic ki _ Hmisc vs false [] a Hmaps Hseq) as (es & HF & ->).
  cbn [app orb] in Hfin.
  assert (Hnil : negb (is_nil vs) = true) by (destruct vs; [congruence|reflexivity]).
  rewrite Hnil in Hfin.
  pose proof (C02_all.F2_length _ _ _ HF) as Hlen.
  destruct (C02_lists.key_cases_seq o k vs ki Hk) as [[m [f [Hr [Hs ->]]]]|[mm [f [Hr [-> Hth]]]]].
  - (* a plain key *)
    destruct m; try discriminate Hs; try discriminate Hmisc. cbn [ki_of k_f] in Hfin.
    assert (Hkm : key_mod o (YStr k) = Some KPlain) by (unfold key_mod; rewrite Hr; reflexivity).
    destruct (C02_all.finish_maps_plain f _ e Hfin) as [(x & Ees & ->)|(Hl2 & ->)].
    + (* one member: the nested block itself *)
      destruct es as [|e1 [|e2 es']]; try discriminate Ees. cbn [map] in Ees. inversion Ees; subst x.
      destruct vs as [|v1 [|v2 vs']]; try discriminate Hlen.
      split; [|split; [intros _; reflexivity|intros _; exact I]].
      intros d Ha. unfold C02_all.aok_entry in Ha. cbn [fst snd] in Ha. rewrite Hr in Ha.
      apply andb_true_iff in Ha. destruct Ha as [_ Ha].
      assert (Hd10' : forall e, In e [e1] -> exists_sub d10_here false e = false).
      { intros e0 [<-|[]]. exact (C02_all.d10_under_nested f e1 false Hd10). }
      pose proof (members_solve3 fu f d [v1] [e1] IH Hdm Hany Hxm Him H28 HF Hd10' Ha) as HS.
      inversion HS as [|? ? ? ? HS1 _]; subst. rewrite HS1. f_equal.
      unfold entry_sem, C02_all.mres. cbn [fst snd]. rewrite Hr. cbv zeta.
      destruct (d f) as [x|]; [|reflexivity]. cbn [map]. rewrite max3_single. reflexivity.
    + (* two or more: their disjunction *)
      rewrite map_length in Hl2.
      split; [|split; [intros _; reflexivity|intros Hl; lia]].
      intros d Ha. unfold C02_all.aok_entry in Ha. cbn [fst snd] in Ha. rewrite Hr in Ha.
      apply andb_true_iff in Ha. destruct Ha as [_ Ha].
      assert (Hd10' : forall e, In e es -> exists_sub d10_here false e = false).
      { destruct (C02_full.exists_sub_parts _ _ _ Hd10) as [_ G]. exact (C02_all.d10_nested_list f es false G). }
      pose proof (members_solve3 fu f d vs es IH Hdm Hany Hxm Him H28 HF Hd10' Ha) as HS.
      rewrite solve_or_group.
      rewrite (or_fold_F2 o (C02_all.mres o ic fu d f) (pure_doc d) vs (map (ENested f) es)
                 (C02_all.F2_map_r _ _ _ _ HS) M) by discriminate.
      rewrite C02_all.or3_M_l. f_equal.
      unfold entry_sem. cbn [fst snd]. rewrite Hr. cbv zeta.
      destruct (d f) as [x|] eqn:Edf.
      * rewrite (C02_all.mres_some o ic fu d f x vs Edf). reflexivity.
      * rewrite (C02_all.mres_none o ic fu d f vs Edf). apply C02_lists.max3_allM.
  - (* all() / of() *)
    cbn [quant_key k_f] in Hfin.
    assert (Hkm : key_mod o (YStr k) = Some (match mm with MAll => KAll | MOf c => KOf c end))
      by (unfold key_mod; rewrite Hr; reflexivity).
    assert (Hsem : forall d : doc,
              entry_sem o ic (sem_mapping o ic fu) d (YStr k, YSeq vs) =
              C02_lists.Qm mm (map (C02_all.mres o ic fu d f) vs)).
    { intros d. unfold entry_sem. cbn [fst snd]. rewrite Hr. cbv zeta.
      destruct (d f) as [x|] eqn:Edf.
      - rewrite (C02_all.mres_some o ic fu d f x vs Edf). destruct mm; reflexivity.
      - rewrite (C02_all.mres_none o ic fu d f vs Edf), (C02_lists.Qm_allM mm vs Hth Hne).
        destruct mm; reflexivity. }
    destruct (C02_all.finish_maps_quant mm f _ e Hfin)
      as [(x & Ees & Hkeep & ->)|[(x & Ees & Hkeep & ->)|(Hl2 & ->)]].
    + (* one member, all() or of(k, 1): the nested block itself *)
      destruct es as [|e1 [|e2 es']]; try discriminate Ees. cbn [map] in Ees. inversion Ees; subst x.
      destruct vs as [|v1 [|v2 vs']]; try discriminate Hlen.
      split; [|split; [intros _; reflexivity|intros _; exact I]].
      intros d Ha. unfold C02_all.aok_entry in Ha. cbn [fst snd] in Ha. rewrite Hr in Ha.
      apply andb_true_iff in Ha. destruct Ha as [_ Ha].
      assert (Hd10' : forall e, In e [e1] -> exists_sub d10_here false e = false).
      { intros e0 [<-|[]]. exact (C02_all.d10_under_nested f e1 false Hd10). }
      pose proof (members_solve3 fu f d [v1] [e1] IH Hdm Hany Hxm Him H28 HF Hd10' Ha) as HS.
      inversion HS as [|? ? ? ? HS1 _]; subst. rewrite HS1, Hsem. f_equal. cbn [map].
      destruct mm as [|c]; cbn [C02_lists.Qm].
      * symmetry. apply C02_cond.first_non_true_single.
      * cbn [keep_of] in Hkeep. apply negb_false_iff in Hkeep. apply Z.eqb_eq in Hkeep. subst c.
        rewrite C02_cond.of3_single by lia. cbn [Z.eqb Z.ltb Z.compare Pos.compare Pos.compare_cont].
        destruct (C02_all.mres o ic fu d f v1); reflexivity.
    + (* one member under of(k, c), c <> 1 *)
      destruct es as [|e1 [|e2 es']]; try discriminate Ees. cbn [map] in Ees. inversion Ees; subst x.
      destruct vs as [|v1 [|v2 vs']]; try discriminate Hlen.
      destruct mm as [|c]; [discriminate Hkeep|].
      split; [|split; [intros _; reflexivity|intros _; exact I]].
      intros d Ha. unfold C02_all.aok_entry in Ha. cbn [fst snd] in Ha. rewrite Hr in Ha.
      apply andb_true_iff in Ha. destruct Ha as [_ Ha].
      assert (Hd10' : forall e, In e [e1] -> exists_sub d10_here false e = false).
      { intros e0 [<-|[]]. apply (C02_all.d10_under_nested f e1 false).
        exact (C02_all.d10_under_match _ _ _ Hd10). }
      pose proof (members_solve3 fu f d [v1] [e1] IH Hdm Hany Hxm Him H28 HF Hd10' Ha) as HS.
      inversion HS as [|? ? ? ? HS1 _]; subst. rewrite Hsem. cbn [map C02_lists.Qm].
      cbn [threshold_ok] in Hth. rewrite C02_cond.of3_single by exact Hth.
      change (solve_body o (EMatch (MOf c) (ENested f e1)) (pure_doc d))
        with (if (c =? 0)%Z
              then do r <- solve_body o (ENested f e1) (pure_doc d);
                   Ok (match r with T => F | F => T | M => M end)
              else do r <- solve_body o (ENested f e1) (pure_doc d);
                   Ok (match r with T => if (1 <? c)%Z then F else T | x => x end)).
      rewrite HS1. cbn [bind]. destruct (c =? 0)%Z; reflexivity.
    + (* two or more members under the quantifier *)
      rewrite map_length in Hl2.
      split.
      2:{ split; [|intros Hl; lia]. intros Hnk. cbn [fst] in Hnk.
          destruct mm; [exfalso; apply Hnk; exact Hkm|reflexivity]. }
      intros d Ha. unfold C02_all.aok_entry in Ha. cbn [fst snd] in Ha. rewrite Hr in Ha.
      apply andb_true_iff in Ha. destruct Ha as [_ Ha].
      assert (Hd10' : forall e, In e es -> exists_sub d10_here false e = false).
      { pose proof (C02_all.d10_under_match _ _ _ Hd10) as G.
        destruct (C02_full.exists_sub_parts _ _ _ G) as [_ G']. exact (C02_all.d10_nested_list f es false G'). }
      pose proof (members_solve3 fu f d vs es IH Hdm Hany Hxm Him H28 HF Hd10' Ha) as HS.
      pose proof (F2_flip_map _ (fun x r => solve_body o x (pure_doc d) = Ok r) (C02_all.mres o ic fu d f)
                    (fun v x Hvx => Hvx) vs (map (ENested f) es) (C02_all.F2_map_r _ _ _ _ HS)) as HS'.
      rewrite Hsem. unfold solve_body. rewrite C08.solve_match_group. fold (solve_body o).
      destruct mm as [|c]; cbn [C02_lists.Qm].
      * rewrite (C02_cond.and_fold_F2 (fun x => solve_body o x (pure_doc d)) _ _ HS').
        apply C02_cond.and_fold_fnt.
      * rewrite (C02_cond.of_fold_F2 (fun x => solve_body o x (pure_doc d)) _ _ c HS').
        apply C02_cond.of_fold_of3. exact Hth.
Qed.

Lemma one_entry_ok3 fu k v e :
  mapping_ok3 fu ->
  yaml_depth v < fu ->
  C02_all.aentry fu (k, v) = true -> excl3_in_entry fu (k, v) = false ->
  ints_ok fu v = true ->
  parse_entry o ic k v
    (match v with YMap _ => Some (parse_mapping o ic v) | _ => None end)
    (match v with
     | YSeq l => map (fun m => match m with
                               | YMap _ => Some (parse_mapping o ic m)
                               | _ => None
                               end) l
     | _ => []
     end) = Ok e ->
  exists_sub d10_here false e = false ->
  C02_all.entry_ok o ic fu (k, v) e.
Proof.
  intros IH Hdep Hs Hx0 Hints Hp Hd10. pose proof Hx0 as Hx.
  unfold C02_all.aentry in Hs. cbn [fst snd] in Hs. apply andb_true_iff in Hs.
  destruct Hs as [Hk Hs]. destruct k as [| | | |k| | |]; try discriminate Hk. clear Hk.
  unfold excl3_in_entry in Hx. cbn [fst snd] in Hx. apply orb_false_iff in Hx.
  destruct Hx as [Hx Hxv]. unfold excluded_entry3 in Hx.
  apply orb_false_iff in Hx. destruct Hx as [Hx H28m].
  apply orb_false_iff in Hx. destruct Hx as [H32 H28].
  destruct fu as [|fu']; [lia|].
  destruct (scalar_yaml v) eqn:Hsc.
  - (* a scalar entry: no exclusion *)
    assert (Hp' : parse_entry o ic (YStr k) v None [] = Ok e).
    { rewrite <- Hp. symmetry. apply parse_entry_scalar_subs. exact Hsc. }
    assert (Hrange : match v with YInt z => (i64_min <=? z)%Z && (z <=? u64_max)%Z | _ => true end = true).
    { apply ints_ok_1. exact (ints_ok_scalar fu' v Hsc Hints). }
    destruct (C02_full.entry_refines_unrestricted o ic k v e Hsc Hrange Hp') as (m & f & Hrk & Hm & Hsolve).
    split.
    + intros d _. rewrite Hsolve. f_equal. symmetry. apply entry_sem_scalar; assumption.
    + assert (Hsh : eshape e = true).
      { apply (parse_entry_shape o ic _ _ _ _ _ Hp'). destruct v; try discriminate Hsc; reflexivity. }
      unfold C02_all.entry_shape. cbn [snd]. destruct v; try discriminate Hsc; exact Hsh.
  - cbn [orb] in Hs. destruct v as [| | | | |vs|kv'|]; try discriminate Hsc;
      try discriminate Hs.
    + destruct (forallb scalar_yaml vs) eqn:Hvs.
      * (* a list of scalars: no exclusion but D32 *)
        rewrite (C02_full.scalar_subs o ic vs Hvs) in Hp.
        assert (Hi1 : forallb (ints_ok 1) vs = true).
        { apply forallb_forall. intros v Hv. rewrite forallb_forall in Hvs.
          pose proof (ints_ok_members (S fu') vs Hdep Hints v Hv) as G.
          exact (ints_ok_scalar fu' v (Hvs v Hv) G). }
        destruct (list_entry_final_l o ic k vs e Hvs Hi1 H32 Hp Hd10)
          as (m & f & Hrk & Hsolve).
        split.
        -- intros d Hd. unfold C02_all.aok_entry in Hd. cbn [fst snd] in Hd. rewrite Hrk in Hd.
           apply andb_true_iff in Hd. destruct Hd as [Hd _].
           rewrite (C02_full.entry_sem_list o ic _ d k vs m f Hvs Hrk). apply Hsolve.
           apply negb_true_iff in Hd.
           unfold C02_lists.array_ok. unfold C02_all.quant_strings in Hd.
           destruct m; try exact I; intros Hlen;
             (destruct (d f) as [[]|]; try exact I;
              replace (2 <=? length (filter C02_all.is_ystr' vs)) with true in Hd
                by (symmetry; apply Nat.leb_le; exact Hlen);
              discriminate Hd).
        -- unfold C02_all.entry_shape. cbn [fst snd].
           destruct (C02_full.list_entry_shape o ic k vs e m f Hvs Hp Hrk) as [HA HB].
           split; [|exact HB].
           intros Hkm. apply HA. intros ->. apply Hkm. unfold key_mod. rewrite Hrk. reflexivity.
      * (* a list of mappings *)
        cbn [orb] in Hs.
        assert (Hany : forallb (C02_all.any_mapping (S fu')) vs = true).
        { apply orb_true_iff in Hs. destruct Hs as [Hs|Hs]; [exact Hs|discriminate Hs]. }
        assert (Hne : vs <> []) by (intros ->; discriminate Hvs).
        exact (maplist_entry_ok3 (S fu') k vs e IH Hdep Hne Hany Hx0 Hints Hp Hd10).
    + (* a nested block *)
      assert (Hlm : C02_all.any_mapping (S fu') (YMap kv') = true) by exact Hs.
      destruct (parse_entry_nested o ic _ _ _ _ _ Hp) as (f & e' & Hrk & Hsub & ->).
      destruct (C02_full.exists_sub_parts _ _ _ Hd10) as [_ Hd10'].
      destruct (IH _ _ Hdep Hlm Hxv Hints Hsub Hd10') as [Hsolve Hallor].
      assert (Hna : is_allor e' = false).
      { destruct (is_allor e') eqn:E; [|reflexivity].
        specialize (Hallor eq_refl).
        change (d28_entry o (YStr k) (YMap kv') = true) in Hallor.
        rewrite Hallor in H28. discriminate H28. }
      split; [|reflexivity].
      intros d Hd. unfold C02_all.aok_entry in Hd. cbn [fst snd] in Hd. rewrite Hrk in Hd.
      rewrite (C02_all.nested_ok o ic (S fu') f (YMap kv') e' d Hsolve Hna eq_refl Hd).
      rewrite (entry_sem_nested o ic _ _ _ _ _ Hrk). reflexivity.
Qed.

Lemma entries_ok3 fu : mapping_ok3 fu ->
  forall kv es,
    (forall p, In p kv -> yaml_depth (snd p) < fu) ->
    forallb (C02_all.aentry fu) kv = true ->
    existsb (excl3_in_entry fu) kv = false ->
    forallb (ints_entry fu) kv = true ->
    entries_of o ic kv = Ok es ->
    existsb (exists_sub d10_here false) es = false ->
    Forall2 (C02_all.entry_ok o ic fu) kv es.
Proof.
  intros IH. induction kv as [|[k v] kv' IHkv]; intros es Hdep Hs Hx Hi Hes Hd10.
  - inversion Hes; subst. constructor.
  - cbn [forallb] in Hs. apply andb_true_iff in Hs. destruct Hs as [Hs Hs'].
    cbn [existsb] in Hx. apply orb_false_iff in Hx. destruct Hx as [Hx Hx'].
    cbn [forallb] in Hi. apply andb_true_iff in Hi. destruct Hi as [Hi Hi'].
    unfold ints_entry in Hi. cbn [fst snd] in Hi. apply andb_true_iff in Hi. destruct Hi as [_ Hi].
    change (entries_of o ic ((k, v) :: kv')) with
      (do e <- parse_entry o ic k v
                 (match v with YMap _ => Some (parse_mapping o ic v) | _ => None end)
                 (match v with
                  | YSeq l => map (fun m => match m with
                                            | YMap _ => Some (parse_mapping o ic m)
                                            | _ => None
                                            end) l
                  | _ => []
                  end);
       do es <- entries_of o ic kv'; Ok (e :: es)) in Hes.
    apply bind_ok_inv in Hes. destruct Hes as (e & He & Hes).
    apply bind_ok_inv in Hes. destruct Hes as (es' & Hes' & Hes).
    inversion Hes; subst. cbn [existsb] in Hd10. apply orb_false_iff in Hd10.
    destruct Hd10 as [Hd1 Hd2]. constructor.
    + apply one_entry_ok3; try assumption. apply (Hdep (k, v)). left; reflexivity.
    + apply IHkv; try assumption. intros p Hin. apply Hdep. right; exact Hin.
Qed.

Lemma mapping_entries3 fu kv e :
  mapping_ok3 fu ->
  yaml_depth (YMap kv) < S fu ->
  C02_all.any_mapping (S fu) (YMap kv) = true ->
  entry_exists (S fu) (excluded_entry3 o) (YMap kv) = false ->
  ints_ok (S fu) (YMap kv) = true ->
  parse_mapping o ic (YMap kv) = Ok e -> exists_sub d10_here false e = false ->
  exists es, finish_mapping es = Ok e /\ Forall2 (C02_all.entry_ok o ic fu) kv es.
Proof.
  intros IH Hdep Hs Hx Hi Hp Hd10. rewrite parse_mapping_YMap in Hp.
  apply bind_ok_inv in Hp. destruct Hp as (es & Hes & Hfin).
  exists es. split; [exact Hfin|].
  apply (entries_ok3 fu IH kv es); try assumption.
  - intros p Hin. pose proof (depth_map_value kv p Hin). lia.
  - exact (C02_full.finish_d10 es e Hfin Hd10).
Qed.

Lemma mapping_ok3_all : forall n, mapping_ok3 n.
Proof.
  induction n as [|fu IH]; intros y e Hdep Hs Hx Hi Hp Hd10; [discriminate Hs|].
  destruct y as [| | | | | |kv|]; try discriminate Hs.
  destruct (mapping_entries3 fu kv e IH Hdep Hs Hx Hi Hp Hd10) as (es & Hfin & HF).
  destruct (C02_all.finish_ok o ic fu kv es e HF Hfin) as [Hsolve Hnm].
  split; [|exact Hnm].
  intros d Ha. rewrite sem_mapping_S. apply Hsolve. rewrite <- C02_all.arrays_ok_S. exact Ha.
Qed.

Lemma mapping_refines_final_sec : forall y e,
  C02_all.any_mapping (S (yaml_depth y)) y = true -> excl_free3 o y ->
  ints_ok (S (yaml_depth y)) y = true ->
  parse_mapping o ic y = Ok e -> exists_sub d10_here false e = false ->
  forall d : doc, C02_all.arrays_ok o (S (yaml_depth y)) y d = true ->
    solve_body o e (pure_doc d) = Ok (sem_mapping o ic (S (yaml_depth y)) y d).
Proof.
  intros y e Hs Hx Hi Hp Hd10.
  exact (proj1 (mapping_ok3_all (S (yaml_depth y)) y e (Nat.lt_succ_diag_r _) Hs Hx Hi Hp Hd10)).
Qed.

(* ====================================================================================== *)
(* (4) identifiers                                                                         *)
(* ====================================================================================== *)

Lemma identifier_map_d3 kv b (d : doc) :
  C02_all.any_mapping (S (yaml_depth (YMap kv))) (YMap kv) = true -> excl_free3 o (YMap kv) ->
  ints_ok (S (yaml_depth (YMap kv))) (YMap kv) = true ->
  parse_mapping o ic (YMap kv) = Ok b -> exists_sub d10_here false b = false ->
  C02_all.arrays_ok o (S (yaml_depth (YMap kv))) (YMap kv) d = true ->
  solve_body o b (pure_doc d) = Ok (sem_identifier o ic (YMap kv) d) /\
  (single_entry_list (YMap kv) = false -> C02_full.ident_entries_d o ic (YMap kv) b d).
Proof.
  intros Hs Hx Hi Hp Hd10 Ha. unfold excl_free3 in Hx.
  remember (yaml_depth (YMap kv)) as fu eqn:Efu.
  assert (Hdep : yaml_depth (YMap kv) < S fu) by lia.
  destruct (mapping_entries3 fu kv b (mapping_ok3_all fu) Hdep Hs Hx Hi Hp Hd10) as (es & Hfin & HF).
  destruct (C02_all.finish_ok o ic fu kv es b HF Hfin) as [Hsolve _].
  rewrite C02_all.arrays_ok_S in Ha.
  assert (Hwhole : solve_body o b (pure_doc d) = Ok (sem_identifier o ic (YMap kv) d)).
  { unfold sem_identifier, sem_identifier_members. rewrite max3_single.
    rewrite <- Efu. rewrite sem_mapping_S. apply Hsolve. exact Ha. }
  split; [exact Hwhole|]. intros Hsel.
  pose proof (C02_all.entry_ok_solve o ic fu d kv es HF Ha) as HFd.
  clear Hsolve Hs Hx Hi Hp Hd10 Hdep.
  unfold finish_mapping in Hfin.
  destruct HF as [|p x kv1 es1 [Hx Hsh] HF]; [discriminate Hfin|].
  destruct HF as [|p2 x2 kv2 es2 Hx2 HF].
  - (* one entry: the identifier is that entry *)
    inversion Hfin; subst b.
    assert (Hent : sem_entries o ic (YMap [p]) d = [sem_identifier o ic (YMap [p]) d]).
    { unfold sem_entries, sem_identifier, sem_identifier_members. cbn [map].
      rewrite max3_single. reflexivity. }
    destruct p as [k v]. unfold C02_all.entry_shape in Hsh. cbn [fst snd] in Hsh.
    assert (Hcases : C02_full.one_shape x \/ eshape x = true).
    { destruct v as [| | | | |vs| |]; try (right; exact Hsh). left.
      destruct Hsh as [_ HB]. apply HB.
      destruct vs as [|v1 [|v2 vs]]; cbn [length]; try lia. discriminate Hsel. }
    destruct Hcases as [Hone|Hesh].
    + destruct x as [op g| | | | | | | | | | | | |s f0 c]; cbn [C02_full.one_shape] in Hone;
        cbn [C02_full.ident_entries_d]; try exact Hent; try contradiction.
      * destruct Hone as [-> [x' ->]]. split; [right; reflexivity|].
        rewrite Hent. constructor; [|constructor]. apply C02_full.or_single. exact Hwhole.
      * destruct s; try exact Hent; (split; [exact Hone|exact Hent]).
    + destruct x; cbn [eshape] in Hesh; try discriminate Hesh; cbn [C02_full.ident_entries_d];
        try exact Hent.
      destruct s; try discriminate Hesh; try exact Hent.
      split; [|exact Hent]. apply Nat.eqb_eq. exact Hesh.
  - (* two or more entries: their conjunction *)
    inversion Hfin; subst b. cbn [C02_full.ident_entries_d].
    split; [left; reflexivity|].
    unfold sem_entries. rewrite <- Efu.
    apply (F2_flip_map
             (fun p e => solve_body o e (pure_doc d)
                         = Ok (entry_sem o ic (sem_mapping o ic fu) d p))
             (fun x r => solve_body o x (pure_doc d) = Ok r)
             (fun p => sem_mapping o ic (S fu) (YMap [p]) d)).
    + intros q z Hz. rewrite sem_mapping_single. exact Hz.
    + exact HFd.
Qed.

Lemma identifier_final_d : forall y b (d : doc),
  C02_all.any_identifier y = true -> excl_free3 o y ->
  ints_ok (S (S (yaml_depth y))) y = true ->
  parse_identifier o ic y = Ok b -> exists_sub d10_here false b = false ->
  C02_all.arrays_ok o (S (S (yaml_depth y))) y d = true ->
  solve_body o b (pure_doc d) = Ok (sem_identifier o ic y d) /\
  (single_entry_list y = false -> C02_full.ident_entries_d o ic y b d).
Proof.
  intros y b d Hs Hx Hi Hp Hd10 Ha.
  destruct y as [| | | | |l|kv|]; try discriminate Hs.
  - (* a sequence of mappings: their disjunction *)
    cbn [C02_all.any_identifier] in Hs. cbn [parse_identifier] in Hp.
    destruct l as [|first others]; [discriminate Hp|].
    assert (Hmem : forall m e, In m (first :: others) -> parse_mapping o ic m = Ok e ->
                   exists_sub d10_here false e = false ->
                   solve_body o e (pure_doc d) = Ok (sem_mapping o ic (S (yaml_depth m)) m d)).
    { intros m e Hin Hpm Hde. pose proof (depth_seq_member _ _ Hin) as Hdep.
      apply mapping_refines_final_sec; [| | |exact Hpm|exact Hde|].
      - rewrite forallb_forall in Hs. exact (Hs m Hin).
      - unfold excl_free3 in Hx |- *. cbn [entry_exists] in Hx.
        apply (entry_exists_anti _ (S (yaml_depth m)) (yaml_depth (YSeq (first :: others))));
          [lia|].
        exact (C02_full.existsb_false_in _ _ m Hx Hin).
      - cbn [ints_ok] in Hi. rewrite forallb_forall in Hi.
        rewrite <- (ints_ok_enough (S (yaml_depth m)) (S (yaml_depth (YSeq (first :: others)))) m)
          by lia.
        exact (Hi m Hin).
      - rewrite C02_all.arrays_ok_S_seq in Ha.
        apply (C02_all.arrays_ok_anti o (S (yaml_depth m)) (S (yaml_depth (YSeq (first :: others)))));
          [lia|].
        rewrite forallb_forall in Ha. exact (Ha m Hin). }
    destruct (ParseMap.is_ymap first) eqn:Hf; [|discriminate Hp].
    apply bind_ok_inv in Hp. destruct Hp as (e0 & H0 & Hp).
    apply bind_ok_inv in Hp. destruct Hp as (es & Hes & Hp). inversion Hp; subst b.
    apply mapM_F2 in Hes.
    destruct (C02_full.exists_sub_parts _ _ _ Hd10) as [_ Hd10'].
    assert (HF : Forall2 (fun m e => solve_body o e (pure_doc d) =
                                     Ok (sem_mapping o ic (S (yaml_depth m)) m d))
                         (first :: others) (e0 :: es)).
    { apply (C02_full.F2_impl_in2 (fun v e => parse_mapping o ic v = Ok e)).
      - intros m e Hin Hin' Hme. apply Hmem; [exact Hin|exact Hme|].
        exact (C02_full.existsb_false_in _ _ e Hd10' Hin').
      - constructor; [exact H0|].
        apply (F2_impl (fun v e => (if ParseMap.is_ymap v then parse_mapping o ic v
                                    else Err EInvalidIdent) = Ok e)); [|exact Hes].
        intros m e Hme. destruct (ParseMap.is_ymap m); [exact Hme|discriminate Hme]. }
    split.
    + rewrite solve_or_group.
      rewrite (or_fold_F2 o (fun m => sem_mapping o ic (S (yaml_depth m)) m d) (pure_doc d)
                 (first :: others) (e0 :: es) HF M) by discriminate.
      unfold sem_identifier, sem_identifier_members.
      destruct (max3 (map (fun m => sem_mapping o ic (S (yaml_depth m)) m d) (first :: others)));
        reflexivity.
    + intros _. cbn [C02_full.ident_entries_d]. split; [right; reflexivity|].
      unfold sem_entries, sem_identifier_members.
      apply (F2_flip_map
               (fun m e => solve_body o e (pure_doc d) =
                           Ok (sem_mapping o ic (S (yaml_depth m)) m d))
               (fun x r => solve_body o x (pure_doc d) = Ok r)
               (fun m => sem_mapping o ic (S (yaml_depth m)) m d)).
      * intros m e Hme. exact Hme.
      * exact HF.
  - (* a mapping *)
    cbn [C02_all.any_identifier] in Hs. cbn [parse_identifier] in Hp.
    apply identifier_map_d3; try assumption.
    + rewrite <- (ints_ok_enough (S (yaml_depth (YMap kv))) (S (S (yaml_depth (YMap kv)))) (YMap kv))
        by lia.
      exact Hi.
    + apply (C02_all.arrays_ok_anti o _ (S (S (yaml_depth (YMap kv))))); [lia|exact Ha].
Qed.

End SemF.

(* the definitions restated in (0) are those of Proofs/C02_all.v *)
Lemma any_mapping_same : forall n y, C02_all.any_mapping n y = any_mapping n y.
Proof. reflexivity. Qed.
Lemma any_identifier_same : forall y, C02_all.any_identifier y = any_identifier y.
Proof. reflexivity. Qed.
Lemma arrays_ok_same : forall o n y d, C02_all.arrays_ok o n y d = arrays_ok o n y d.
Proof. reflexivity. Qed.
Lemma counted_same : forall i e, C02_full.counted i e = counted i e.
Proof. reflexivity. Qed.

(* statement 1 of Properties/C02_final.v *)
Lemma mapping_refines_final : forall o ic y e,
  any_mapping (S (yaml_depth y)) y = true -> excl_free3 o y -> ints_ok (S (yaml_depth y)) y = true ->
  parse_mapping o ic y = Ok e -> exists_sub d10_here false e = false ->
  forall d : doc, arrays_ok o (S (yaml_depth y)) y d = true ->
    solve_body o e (pure_doc d) = Ok (sem_mapping o ic (S (yaml_depth y)) y d).
Proof. exact mapping_refines_final_sec. Qed.

(* statement 2 of Properties/C02_final.v *)
Lemma identifier_refines_final : forall o ic y b,
  any_identifier y = true -> excl_free3 o y -> ints_ok (S (S (yaml_depth y))) y = true ->
  parse_identifier o ic y = Ok b -> exists_sub d10_here false b = false ->
  forall d : doc, arrays_ok o (S (S (yaml_depth y))) y d = true ->
    solve_body o b (pure_doc d) = Ok (sem_identifier o ic y d).
Proof.
  intros o ic y b Hs Hx Hi Hp Hd10 d Ha.
  exact (proj1 (identifier_final_d o ic y b d Hs Hx Hi Hp Hd10 Ha)).
Qed.

(* ====================================================================================== *)
(* (5) whole rules                                                                         *)
(* ====================================================================================== *)

(* statement 3 of Properties/C02_final.v *)
Lemma rule_refines_final : forall o ic kv dkv r (d : doc),
  ylookup key_detection kv = Some (YMap dkv) ->
  forallb (fun p : yaml * yaml => match fst p with YStr _ => true | _ => false end) dkv = true ->
  NoDup (map fst (raw_identifiers dkv)) ->
  (forall i y, In (i, y) (raw_identifiers dkv) ->
     any_identifier y = true /\ excl_free3 o y /\ ints_ok (S (S (yaml_depth y))) y = true /\
     arrays_ok o (S (S (yaml_depth y))) y d = true /\
     (counted i (d_expr (r_det r)) = true -> single_entry_list y = false)) ->
  load_rule o ic (YMap kv) = Ok r ->
  known_d10 (r_det r) = false ->
  exists r3, solve_rule3 o (r_det r) (pure_doc d) = Ok r3 /\
             sem_rule o ic (YMap kv) d = Some r3 /\
             (matches o r d = Ok true <-> r3 = T).
Proof.
  intros o ic kv dkv r d Hdet Hkeys _ Hsimple Hload Hk10.
  (* the detection the rule was loaded with *)
  assert (Hdt : load_detection o ic (YMap dkv) = Ok (r_det r)).
  { unfold load_rule in Hload. cbn [untag] in Hload.
    apply C03.bind_ok_inv in Hload. destruct Hload as (opt & _ & Hload).
    apply C03.bind_ok_inv in Hload. destruct Hload as (det & Hd & Hload).
    apply C03.bind_ok_inv in Hload. destruct Hload as (tp & _ & Hload).
    apply C03.bind_ok_inv in Hload. destruct Hload as (tn & _ & Hload).
    inversion Hload; subst. cbn [r_det]. rewrite Hdet in Hd. exact Hd. }
  pose proof (C03.load_detection_wf _ _ _ _ Hdt) as Hwf.
  unfold wf_det in Hwf. apply andb_prop in Hwf. destruct Hwf as [Hwf _].
  set (dt := r_det r) in *.
  (* the pieces of load_detection *)
  pose proof Hdt as H. unfold load_detection in H. cbn [untag] in H.
  apply C03.bind_ok_inv in H. destruct H as ([cond ids] & Hent & H).
  destruct cond as [rawc|]; [|discriminate H].
  apply C03.bind_ok_inv in H. destruct H as (ts & _ & H).
  destruct (idents_known ids None None ts); [|discriminate H]. cbn [negb] in H.
  apply C03.bind_ok_inv in H. destruct H as (e & He & H). apply C03.as_rule_err_ok in He.
  destruct (is_solvable e) eqn:Es; [|discriminate H].
  assert (Edt : dt = {| d_expr := e; d_ids := ids |}) by (inversion H; reflexivity).
  rewrite Edt in Hwf. cbn [d_expr d_ids] in Hwf.
  unfold known_d10 in Hk10. rewrite Edt in Hk10. cbn [d_expr d_ids] in Hk10.
  apply orb_false_elim in Hk10. destruct Hk10 as [_ Hk10].
  destruct (C02_cond.load_entries_rel o ic dkv None [] _ _ Hkeys Hent) as (l & Hl & HF).
  cbn [app] in Hl. subst l.
  assert (Hids : C02_full.ids_ok o ic (raw_identifiers dkv) ids d e).
  { intros i. pose proof (C02_cond.lookup_rel o ic _ _ HF i) as Hi.
    destruct (lookup i (raw_identifiers dkv)) as [y|], (lookup i ids) as [b|] eqn:Elb; try exact Hi.
    destruct Hi as [Hin Hp]. destruct (Hsimple i y Hin) as (Hs & Hx & Hio & Ha & Hc).
    rewrite Edt in Hc. cbn [d_expr] in Hc.
    assert (Hd10 : exists_sub d10_here false b = false).
    { destruct (C02_full.lookup_in i ids b Elb) as [k Hk].
      exact (C02_full.existsb_false_in _ _ (k, b) Hk10 Hk). }
    destruct (identifier_final_d o ic y b d Hs Hx Hio Hp Hd10 Ha) as [G1 G2].
    split; [exact G1|]. intros G. rewrite counted_same in G. exact (G2 (Hc G)). }
  pose proof (C02_full.cond_refines_counted o ic ids (raw_identifiers dkv) d e Hids
                (C02_cond.loaded_condition_thresholds _ _ He)
                (C02_cond.loaded_condition_shape _ _ He Es) Hwf) as Hsolve.
  exists (sem_cond o ic (raw_identifiers dkv) e d). split; [|split].
  - unfold solve_rule3. rewrite Edt. cbn [d_expr d_ids]. exact Hsolve.
  - unfold sem_rule. cbn [untag]. rewrite Hdet. cbn [option_map untag]. rewrite Hdt.
    rewrite Edt. reflexivity.
  - unfold matches, solve_rule3. fold dt. rewrite Edt. cbn [d_expr d_ids]. rewrite Hsolve. cbn [bind].
    destruct (sem_cond o ic (raw_identifiers dkv) e d); split; intros G; try reflexivity; discriminate G.
Qed.

(* ====================================================================================== *)
(* non-vacuity: the formerly excluded entries (D27, D30), alone and as list members        *)
(* ====================================================================================== *)
Lemma mapping_final_example :
  let o0 := C02_all.cx_o in
  let kstr (c : N) : str := [115; 116; 114; 40; c; 41]%N in            (* str(c) *)
  let big := 18446744073709551615%Z in                                  (* u64::MAX *)
  (* str(f): [null, 'x', 18446744073709551615]   str(g): null   str(h): 18446744073709551615 *)
  let y := YMap [(YStr (kstr 102%N), YSeq [YNull; YStr [120%N]; YInt big]);
                 (YStr (kstr 103%N), YNull); (YStr (kstr 104%N), YInt big)] in
  (* {f: 18446744073709551615, g: 1, h: 18446744073709551615} *)
  let d1 : doc := fun k => if str_eqb k [102%N] then Some (VUInt big)
                           else if str_eqb k [103%N] then Some (VInt 1)
                           else if str_eqb k [104%N] then Some (VUInt big) else None in
  (* {f: "x", h: 18446744073709551615}: g is absent *)
  let d2 : doc := fun k => if str_eqb k [102%N] then Some (VStr [120%N])
                           else if str_eqb k [104%N] then Some (VUInt big) else None in
  (* {f: "x", g: null, h: 18446744073709551615}: `str(g): null` is false on a present field *)
  let d3 : doc := fun k => if str_eqb k [102%N] then Some (VStr [120%N])
                           else if str_eqb k [103%N] then Some VNull
                           else if str_eqb k [104%N] then Some (VUInt big) else None in
  exists e, parse_mapping o0 false y = Ok e /\
            any_mapping (S (yaml_depth y)) y = true /\ excl_free3 o0 y /\
            ints_ok (S (yaml_depth y)) y = true /\
            exists_sub d10_here false e = false /\
            arrays_ok o0 (S (yaml_depth y)) y d1 = true /\ arrays_ok o0 (S (yaml_depth y)) y d2 = true /\
            arrays_ok o0 (S (yaml_depth y)) y d3 = true /\
            solve_body o0 e (pure_doc d1) = Ok F /\ solve_body o0 e (pure_doc d2) = Ok M /\
            solve_body o0 e (pure_doc d3) = Ok F.
Proof. cbv zeta. eexists. repeat split; vm_compute; reflexivity. Qed.

Check mapping_refines_final.
Check identifier_refines_final.
Check rule_refines_final.
Check list_entry_refines_final.
Print Assumptions mapping_refines_final.
Print Assumptions identifier_refines_final.
Print Assumptions rule_refines_final.
Print Assumptions list_entry_refines_final.
