(* C02 (entry level): one scalar entry `k: v` of a mapping evaluates as the reference
   semantics Model/Spec.v says.

   entry_refines_stmt (Model/Spec.v) is FALSE as written: see [entry_refines_refuted_D30]
   and [entry_refines_false] at the end of this file (`str(f): <integer outside i64>`, known
   finding D30).  Proved here: [entry_refines_excl : entry_refines_excl_stmt], the same
   statement with `excluded_entry` (D27 or D30) instead of `d27_entry` in the hypothesis;
   [entry_refines_alt] is the same fact with the two exclusions as separate hypotheses. *)
From TauModel Require Import Base Num Oracles Syntax Value Yaml Token Pratt Ident ParseMap PatSpec Solver Spec.
From TauProofs Require Import C07.
From Coq Require Import Lia ZArith NArith ZifyBool List Bool.
Import ListNotations.

(* entry_refines_stmt plus the one extra hypothesis (Spec.bigint_str_entry: `str(k): n` with
   n an integer that does not fit an i64: the loader reads n as a double and compares with
   the text of that double; the reference compares with the decimal text of n) *)
Definition entry_refines_alt_stmt : Prop :=
  forall o ic k v e,
    scalar_yaml v = true -> d27_entry o (YStr k) v = false ->
    bigint_str_entry o (YStr k) v = false ->
    parse_entry o ic (YStr k) v None [] = Ok e ->
    exists m f, read_key o k = Some (m, f) /\
                match m with KAll | KOf _ => False | _ => True end /\
                forall d : doc, solve_body o e (pure_doc d) = Ok (sem_entry_scalar o ic m f v d).

(* ================= (1) the key ================= *)

Definition key_expr (m : keymod) (f : str) : expr :=
  match m with
  | KInt => ECast f MInt | KFlt => ECast f MFlt | KStr => ECast f MStr | _ => EField f
  end.
Definition misc_of (m : keymod) : option modsym :=
  match m with
  | KNot => Some MNot | KInt => Some MInt | KFlt => Some MFlt | KStr => Some MStr | _ => None
  end.
Definition ki_of (m : keymod) (f : str) : keyinfo :=
  {| k_e := key_expr m f; k_f := f; k_misc := misc_of m |}.
Definition simple_mod (m : keymod) : bool :=
  match m with KAll | KOf _ => false | _ => true end.

Lemma key_cases : forall o k v ki,
  scalar_yaml v = true -> parse_key o (YStr k) v = Ok ki ->
  exists m f, read_key o k = Some (m, f) /\ simple_mod m = true /\ ki = ki_of m f.
Proof.
  intros o k v ki Hv. unfold parse_key, read_key.
  destruct (tokenise o k) as [ts|e|n]; cbn [bind]; try discriminate.
  destruct (parse (merge_idents [] ts)) as [ex|e|n]; cbn [bind]; try discriminate.
  destruct ex; try discriminate.
  - destruct m; intros H; inversion H; subst; eexists; eexists;
      (split; [reflexivity|split; reflexivity]).
  - intros H; inversion H; subst. eexists; eexists. split; [reflexivity|split; reflexivity].
  - destruct v; try discriminate Hv; cbn [is_yseq]; discriminate.
Qed.

(* ================= the value branch of parse_entry on scalars ================= *)

Definition value_expr (o : oracles) (ic : bool) (ki : keyinfo) (v : yaml) : out expr :=
  let e := k_e ki in
  let f := k_f ki in
  let misc := k_misc ki in
  match v with
  | YBool b =>
      if misc_is MInt misc then Ok (cmp_expr e BEqual (EInt (if b then 1 else 0)%Z))
      else if misc_is MStr misc then Ok (ESearch (SExact (show_bool b)) f true)
      else Ok (cmp_expr e BEqual (EBool b))
  | YInt z =>
      match number_of z with
      | inl i =>
          if misc_is MStr misc then Ok (ESearch (SExact (show_Z i)) f true)
          else Ok (cmp_expr e BEqual (EInt i))
      | inr x =>
          if misc_is MInt misc then Err EInvalidIdent
          else if misc_is MStr misc then Ok (ESearch (SExact (big_int_text o z x)) f true)
          else Ok (cmp_expr e BEqual (EFloat x))
      end
  | YFloat x =>
      if misc_is MInt misc then Err EInvalidIdent
      else if misc_is MStr misc then Ok (ESearch (SExact (f64_show o x)) f true)
      else Ok (cmp_expr e BEqual (EFloat x))
  | YNull => Ok (cmp_expr e BEqual ENull)
  | YStr s => scalar_string_expr o ic ki s
  | _ => Err EInvalidIdent
  end.

Lemma parse_entry_scalar : forall o ic k v,
  scalar_yaml v = true ->
  parse_entry o ic k v None [] =
  do ki <- parse_key o k v;
  do ex <- value_expr o ic ki v;
  Ok (if misc_is MNot (k_misc ki) then ENegate ex else ex).
Proof. intros o ic k v Hv. destruct v; try discriminate Hv; reflexivity. Qed.

Lemma value_expr_not : forall o ic f v,
  value_expr o ic (ki_of KNot f) v = value_expr o ic (ki_of KPlain f) v.
Proof. intros o ic f v. destruct v; reflexivity. Qed.

(* ================= (2) solving comparisons ================= *)

Definition cexpr (c : num) : expr := match c with NInt z => EInt z | NFlt x => EFloat x end.
Definition cmp_op (op : boolsym) : bool := match op with BAnd | BOr => false | _ => true end.
Definition num_ok (c : num) : Prop :=
  match c with NInt z => in_i64 z = true | NFlt _ => True end.
Definition num_mod (m : keymod) : bool :=
  match m with KPlain | KInt | KFlt => true | _ => false end.

Ltac no_inner b :=
  lazymatch b with
  | context [if _ then _ else _] => fail
  | context [match _ with Some _ => _ | None => _ end] => fail
  | _ => idtac
  end.
Ltac split_ifs :=
  repeat match goal with
         | |- context [match ?b with Some _ => _ | None => _ end] => no_inner b; destruct b eqn:?
         | |- context [if ?b then _ else _] => no_inner b; destruct b eqn:?
         end.

Lemma solve_cmp_num : forall o m f op c (d : doc),
  num_mod m = true -> cmp_op op = true -> num_ok c ->
  solve_body o (EBexp (key_expr m f) op (cexpr c)) (pure_doc d) =
  Ok (match d f with None => M | Some x => sem_number o m op c x end).
Proof.
  intros o m f op c d Hm Hop Hc. unfold solve_body.
  destruct m; try discriminate Hm; destruct op; try discriminate Hop; destruct c as [z|y];
    cbv [solve key_expr cexpr solve_compare operand_of pure_doc bind];
    (destruct (d f) as [x|]; [|reflexivity]);
    destruct x;
    cbv [numeric_or_false cast_int cast_flt sem_number num_of_value option_map compare_values
         rel_int rel_flt res_of_bool];
    try reflexivity;
    cbv [num_ok in_i64 i64_min i64_max] in Hc;
    split_ifs; try reflexivity; try discriminate; exfalso; unfold i64_max in *; lia.
Qed.

Lemma solve_bool_plain : forall o f b (d : doc),
  solve_body o (EBexp (EField f) BEqual (EBool b)) (pure_doc d) =
  Ok (match d f with
      | None => M
      | Some (VBool y) => if Bool.eqb y b then T else F
      | Some _ => F
      end).
Proof.
  intros o f b d. unfold solve_body. cbv [solve solve_compare pure_doc bind res_of_bool].
  destruct (d f) as [[]|]; reflexivity.
Qed.

Lemma solve_null_plain : forall o f (d : doc),
  solve_body o (EBexp (EField f) BEqual ENull) (pure_doc d) =
  Ok (match d f with None => M | Some VNull => T | Some _ => F end).
Proof.
  intros o f d. unfold solve_body. cbv [solve solve_compare pure_doc bind].
  destruct (d f) as [[]|]; reflexivity.
Qed.

(* a cast operand compared with a constant that is not a number of its family: missing when
   the field is absent, false otherwise *)
Lemma solve_cast_false : forall o f mm r (d : doc),
  (mm = MInt \/ mm = MFlt) -> (exists b, r = EBool b) \/ r = ENull ->
  solve_body o (EBexp (ECast f mm) BEqual r) (pure_doc d) =
  Ok (match d f with None => M | Some _ => F end).
Proof.
  intros o f mm r d Hmm Hr. unfold solve_body.
  destruct Hmm as [-> | ->]; destruct Hr as [[b ->] | ->];
    cbv [solve solve_compare operand_of pure_doc bind];
    (destruct (d f) as [x|]; [|reflexivity]);
    destruct x; cbv [cast_int cast_flt compare_values res_of_bool]; split_ifs; reflexivity.
Qed.

(* ================= searches ================= *)

Lemma existsb_ext_ : forall {A} (p q : A -> bool) l,
  (forall x, p x = q x) -> existsb p l = existsb q l.
Proof.
  intros A p q l H. induction l as [|x l IH]; [reflexivity|].
  cbn [existsb]. rewrite H, IH. reflexivity.
Qed.

Lemma search_value_texts : forall o p cast x,
  res_of_search (search_value o p cast x) =
  match texts_of o cast x with
  | None => M
  | Some ts => if existsb p ts then T else F
  end.
Proof.
  intros o p cast x. destruct x; cbn [search_value texts_of];
    try (destruct cast; cbn [cast_text scalar_text existsb res_of_search];
         rewrite ?orb_false_r; reflexivity).
Qed.

Lemma solve_search : forall o sr f cast (d : doc),
  solve_body o (ESearch sr f cast) (pure_doc d) =
  Ok (match d f with
      | None => M
      | Some x => match texts_of o cast x with
                  | None => M
                  | Some ts => if existsb (search o sr) ts then T else F
                  end
      end).
Proof.
  intros o sr f cast d. unfold solve_body. cbv [solve field_search pure_doc bind].
  destruct (d f) as [x|]; [|reflexivity]. rewrite search_value_texts. reflexivity.
Qed.

Lemma solve_literal : forall o t f (d : doc),
  solve_body o (ESearch (SExact t) f true) (pure_doc d) =
  Ok (match d f with None => M | Some x => sem_literal o t x end).
Proof.
  intros o t f d. rewrite solve_search. destruct (d f) as [x|]; [|reflexivity].
  unfold sem_literal. reflexivity.
Qed.

Lemma solve_string : forall o ic sr s f cast (d : doc),
  (forall h, search o sr h = documented o ic s h) ->
  solve_body o (ESearch sr f cast) (pure_doc d) =
  Ok (match d f with None => M | Some x => sem_string o ic cast s x end).
Proof.
  intros o ic sr s f cast d H. rewrite solve_search. destruct (d f) as [x|]; [|reflexivity].
  unfold sem_string. destruct (texts_of o cast x) as [ts|]; [|reflexivity].
  rewrite (existsb_ext_ _ _ ts H). reflexivity.
Qed.

(* ================= (3) numeric pattern texts ================= *)

Definition num_try (o : oracles) (op : boolsym) (rest : str) : option (boolsym * num) :=
  if str_contains_char ch_dot rest
  then option_map (fun f => (op, NFlt f)) (f64_parse o rest)
  else option_map (fun z => (op, NInt z)) (parse_i64 rest).

Definition num_chain (o : oracles) (p : str) : option (boolsym * num) :=
  match strip_prefix [ch_gt; ch_eq] p with Some r => num_try o BGreaterThanOrEqual r | None =>
  match strip_prefix [ch_gt] p with Some r => num_try o BGreaterThan r | None =>
  match strip_prefix [ch_lt; ch_eq] p with Some r => num_try o BLessThanOrEqual r | None =>
  match strip_prefix [ch_lt] p with Some r => num_try o BLessThan r | None =>
  match strip_prefix [ch_eq] p with Some r => num_try o BEqual r | None => None
  end end end end end.

Lemma read_numeric_eq : forall o ic s,
  read_numeric o ic s = num_chain o (snd (split_case ic s)).
Proof. intros o ic s. unfold read_numeric. destruct (split_case ic s); reflexivity. Qed.

Lemma parse_i64_in : forall r z, parse_i64 r = Some z -> in_i64 z = true.
Proof.
  intros r z. unfold parse_i64. destruct r as [|x r]; [discriminate|]. cbv zeta.
  match goal with |- match ?X with _ => _ end = _ -> _ => destruct X as [z'|] end;
    [|discriminate].
  destruct (in_i64 z') eqn:E; intros H; inversion H; subst; exact E.
Qed.

Definition num_pat (op : boolsym) (c : num) : pattern :=
  match c with
  | NInt z =>
      match op with
      | BEqual => PEqual z | BGreaterThan => PGreaterThan z
      | BGreaterThanOrEqual => PGreaterThanOrEqual z
      | BLessThan => PLessThan z | BLessThanOrEqual => PLessThanOrEqual z
      | _ => PAny
      end
  | NFlt x =>
      match op with
      | BEqual => PFEqual x | BGreaterThan => PFGreaterThan x
      | BGreaterThanOrEqual => PFGreaterThanOrEqual x
      | BLessThan => PFLessThan x | BLessThanOrEqual => PFLessThanOrEqual x
      | _ => PAny
      end
  end.

Lemma num_step : forall o mk_i mk_f op r,
  cmp_op op = true ->
  (forall z, mk_i z = num_pat op (NInt z)) -> (forall x, mk_f x = num_pat op (NFlt x)) ->
  match num_try o op r with
  | Some (op', c) => num_pattern o mk_i mk_f r = Ok (num_pat op' c) /\ cmp_op op' = true /\ num_ok c
  | None => num_pattern o mk_i mk_f r = Err EInvalidIdent
  end.
Proof.
  intros o mk_i mk_f op r Hop Hi Hf. unfold num_try, num_pattern.
  destruct (str_contains_char ch_dot r).
  - destruct (f64_parse o r) as [x|]; cbn [option_map]; [|reflexivity].
    rewrite Hf. repeat split; assumption.
  - destruct (parse_i64 r) as [z|] eqn:E; cbn [option_map]; [|reflexivity].
    rewrite Hi. repeat split; [assumption|]. exact (parse_i64_in r z E).
Qed.

Lemma id_body_num : forall o ci s,
  match num_chain o s with
  | Some (op, c) => id_body o ci s = Ok (num_pat op c) /\ cmp_op op = true /\ num_ok c
  | None => classify s = KNumeric -> id_body o ci s = Err EInvalidIdent
  end.
Proof.
  intros o ci s. destruct s as [|x rest]; [cbn; discriminate|].
  unfold num_chain, id_body, classify.
  rewrite (N.eqb_sym x ch_qmark), (N.eqb_sym x ch_gt), (N.eqb_sym x ch_lt), (N.eqb_sym x ch_eq).
  rewrite !sp2, !sp1.
  destruct (N.eqb_spec ch_gt x) as [<-|Ngt].
  { change (N.eqb ch_qmark ch_gt) with false. cbv iota.
    destruct (strip_prefix [ch_eq] rest) as [r|].
    - pose proof (num_step o PGreaterThanOrEqual PFGreaterThanOrEqual BGreaterThanOrEqual r
                    eq_refl (fun _ => eq_refl) (fun _ => eq_refl)) as H.
      destruct (num_try o BGreaterThanOrEqual r) as [[op' c]|]; [exact H|intros _; exact H].
    - pose proof (num_step o PGreaterThan PFGreaterThan BGreaterThan rest
                    eq_refl (fun _ => eq_refl) (fun _ => eq_refl)) as H.
      destruct (num_try o BGreaterThan rest) as [[op' c]|]; [exact H|intros _; exact H]. }
  destruct (N.eqb_spec ch_lt x) as [<-|Nlt].
  { change (N.eqb ch_qmark ch_lt) with false. cbv iota.
    destruct (strip_prefix [ch_eq] rest) as [r|].
    - pose proof (num_step o PLessThanOrEqual PFLessThanOrEqual BLessThanOrEqual r
                    eq_refl (fun _ => eq_refl) (fun _ => eq_refl)) as H.
      destruct (num_try o BLessThanOrEqual r) as [[op' c]|]; [exact H|intros _; exact H].
    - pose proof (num_step o PLessThan PFLessThan BLessThan rest
                    eq_refl (fun _ => eq_refl) (fun _ => eq_refl)) as H.
      destruct (num_try o BLessThan rest) as [[op' c]|]; [exact H|intros _; exact H]. }
  destruct (N.eqb_spec ch_eq x) as [<-|Neq].
  { change (N.eqb ch_qmark ch_eq) with false. cbv iota.
    pose proof (num_step o PEqual PFEqual BEqual rest
                  eq_refl (fun _ => eq_refl) (fun _ => eq_refl)) as H.
    destruct (num_try o BEqual rest) as [[op' c]|]; [exact H|intros _; exact H]. }
  cbv iota. cbn [orb]. intros H. exfalso. revert H.
  repeat match goal with |- context [if ?b then _ else _] => destruct b end; discriminate.
Qed.

Lemma into_id_numeric : forall o ic s op c,
  read_numeric o ic s = Some (op, c) ->
  into_identifier o ic s = Ok {| id_ci := fst (split_case ic s); id_pat := num_pat op c |}
  /\ cmp_op op = true /\ num_ok c.
Proof.
  intros o ic s op c H. rewrite read_numeric_eq in H. rewrite into_identifier_eq.
  pose proof (id_body_num o (fst (split_case ic s)) (snd (split_case ic s))) as Hb.
  rewrite H in Hb. destruct Hb as [-> [Hop Hc]]. cbn [bind]. repeat split; assumption.
Qed.

Lemma into_id_nonstring : forall o ic s,
  read_numeric o ic s = None -> is_string_predicate o ic s = false ->
  into_identifier o ic s = Err EInvalidIdent.
Proof.
  intros o ic s Hn Hs. rewrite read_numeric_eq in Hn. rewrite isp_eq in Hs.
  rewrite into_identifier_eq.
  pose proof (id_body_spec o (fst (split_case ic s)) (snd (split_case ic s))) as Hb.
  pose proof (id_body_num o (fst (split_case ic s)) (snd (split_case ic s))) as Hc.
  rewrite Hn in Hc.
  destruct (classify (snd (split_case ic s))); cbn [isp_k] in Hs; try discriminate.
  - rewrite Hb, Hs. reflexivity.
  - rewrite (Hc eq_refl). reflexivity.
Qed.

Lemma numeric_expr_num : forall e op c,
  cmp_op op = true ->
  numeric_expr e (num_pat op c) = Some (EBexp e op (cexpr c)) /\
  is_string_pattern (num_pat op c) = false.
Proof. intros e op c Hop. destruct c, op; try discriminate Hop; split; reflexivity. Qed.

(* the expression built for a numeric pattern text *)
Lemma sse_numeric : forall o ic ki s op c,
  read_numeric o ic s = Some (op, c) ->
  cmp_op op = true /\ num_ok c /\
  scalar_string_expr o ic ki s =
  match k_misc ki with
  | Some MStr => Err EInvalidIdent
  | _ => Ok (EBexp (k_e ki) op (cexpr c))
  end.
Proof.
  intros o ic ki s op c H. destruct (into_id_numeric o ic s op c H) as [Hid [Hop Hc]].
  split; [exact Hop|]. split; [exact Hc|].
  unfold scalar_string_expr. rewrite Hid. cbn [bind id_pat id_ci].
  destruct (numeric_expr_num (k_e ki) op c Hop) as [Hn Hsp].
  unfold misc_pattern_check. rewrite Hsp, Hn.
  destruct (k_misc ki) as [[]|]; reflexivity.
Qed.

(* the expression built for a string predicate (C07.single_pattern_exact for any key) *)
Lemma sse_string : forall o ic ki s,
  is_string_predicate o ic s = true ->
  match k_misc ki with
  | Some MInt => scalar_string_expr o ic ki s = Err EInvalidIdent
  | _ => exists sr,
      scalar_string_expr o ic ki s = Ok (ESearch sr (k_f ki) (misc_is MStr (k_misc ki))) /\
      forall h, search o sr h = documented o ic s h
  end.
Proof.
  intros o ic ki s Hs. pose proof (into_id_string o ic s Hs) as Hid.
  rewrite isp_eq in Hs.
  assert (Hd : forall h, documented o ic s h =
                         doc_k o (fst (split_case ic s)) (classify (snd (split_case ic s))) h)
    by (intros h; apply documented_eq).
  unfold scalar_string_expr. rewrite Hid. cbn [bind id_pat id_ci].
  set (ci := fst (split_case ic s)) in *.
  destruct (k_misc ki) as [[]|];
    destruct (classify (snd (split_case ic s))) as [re| | |t|t|t|t];
    cbn [spec_pat numeric_expr doc_k isp_k misc_pattern_check is_string_pattern bind misc_is
         modsym_eqb] in *;
    try discriminate; try reflexivity;
    (eexists; split; [reflexivity|]; intros h; rewrite Hd).
  all: try reflexivity.
  all: try (rewrite <- mt_contains; destruct ci; cbn [search existsb];
            [apply orb_false_r|reflexivity]).
  all: try (rewrite <- mt_ends; destruct ci; cbn [search existsb];
            [apply orb_false_r|reflexivity]).
  all: try (rewrite <- mt_starts; destruct ci; cbn [search existsb];
            [apply orb_false_r|reflexivity]).
  all: rewrite <- exact_meaning;
    (destruct (fold_case ci t) as [|y t']; cbn [is_nil andb]; [reflexivity|]);
    destruct ci; cbn [search existsb]; [apply orb_false_r|reflexivity].
Qed.

(* ================= (2)+(3) one scalar value under a plain / int / flt / str key ========= *)

Definition excluded (m : keymod) (v : yaml) : bool :=
  match m, v with
  | KStr, YNull => true                       (* D27 *)
  | KStr, YInt z => negb (in_i64 z)           (* bigint_str_entry *)
  | _, _ => false
  end.

Definition base_mod (m : keymod) : bool :=
  match m with KPlain | KInt | KFlt | KStr => true | _ => false end.

Lemma in_i64_bool : forall b : bool, in_i64 (if b then 1 else 0) = true.
Proof. intros [|]; reflexivity. Qed.

Lemma inner : forall o ic m f v ex,
  base_mod m = true -> scalar_yaml v = true -> excluded m v = false ->
  value_expr o ic (ki_of m f) v = Ok ex ->
  forall d : doc,
    solve_body o ex (pure_doc d) =
    Ok (match d f with None => M | Some x => sem_scalar o ic m v x end).
Proof.
  intros o ic m f v ex Hm Hv Hx Hex d.
  destruct v as [|b|z|y|s|l|kv|tg v']; try discriminate Hv.
  - (* null *)
    destruct m; try discriminate Hm; try discriminate Hx;
      cbn [value_expr ki_of k_e k_f k_misc key_expr cmp_expr] in Hex; inversion Hex; subst ex;
      cbn [sem_scalar].
    + rewrite solve_null_plain. destruct (d f) as [[]|]; reflexivity.
    + apply solve_cast_false; [left; reflexivity|right; reflexivity].
    + apply solve_cast_false; [right; reflexivity|right; reflexivity].
  - (* boolean *)
    destruct m; try discriminate Hm;
      cbn [value_expr ki_of k_e k_f k_misc key_expr misc_of misc_is modsym_eqb cmp_expr] in Hex;
      inversion Hex; subst ex; cbn [sem_scalar].
    + rewrite solve_bool_plain. destruct (d f) as [[]|]; reflexivity.
    + apply (solve_cmp_num o KInt f BEqual (NInt (if b then 1 else 0)) d eq_refl eq_refl).
      apply in_i64_bool.
    + apply solve_cast_false; [right; reflexivity|left; eexists; reflexivity].
    + apply solve_literal.
  - (* integer *)
    unfold value_expr, number_of, yint_as_i64 in Hex.
    destruct (in_i64 z) eqn:Ez.
    + destruct m; try discriminate Hm;
        cbn [ki_of k_e k_f k_misc key_expr misc_of misc_is modsym_eqb cmp_expr] in Hex;
        inversion Hex; subst ex; cbn [sem_scalar]; unfold yaml_num; rewrite ?Ez.
      * apply (solve_cmp_num o KPlain f BEqual (NInt z) d eq_refl eq_refl Ez).
      * apply (solve_cmp_num o KInt f BEqual (NInt z) d eq_refl eq_refl Ez).
      * apply (solve_cmp_num o KFlt f BEqual (NInt z) d eq_refl eq_refl Ez).
      * apply solve_literal.
    + destruct m; try discriminate Hm;
        cbn [ki_of k_e k_f k_misc key_expr misc_of misc_is modsym_eqb cmp_expr] in Hex;
        try discriminate Hex;
        [| |cbn [excluded] in Hx; rewrite Ez in Hx; discriminate Hx];
        inversion Hex; subst ex; cbn [sem_scalar]; unfold yaml_num; rewrite Ez.
      * apply (solve_cmp_num o KPlain f BEqual (NFlt (f64_of_Z z)) d eq_refl eq_refl I).
      * apply (solve_cmp_num o KFlt f BEqual (NFlt (f64_of_Z z)) d eq_refl eq_refl I).
  - (* float *)
    destruct m; try discriminate Hm;
      cbn [value_expr ki_of k_e k_f k_misc key_expr misc_of misc_is modsym_eqb cmp_expr] in Hex;
      try discriminate Hex; inversion Hex; subst ex; cbn [sem_scalar].
    + apply (solve_cmp_num o KPlain f BEqual (NFlt y) d eq_refl eq_refl I).
    + apply (solve_cmp_num o KFlt f BEqual (NFlt y) d eq_refl eq_refl I).
    + apply solve_literal.
  - (* string *)
    cbn [value_expr] in Hex. cbn [sem_scalar].
    destruct (read_numeric o ic s) as [[op c]|] eqn:En.
    + destruct (sse_numeric o ic (ki_of m f) s op c En) as [Hop [Hc He]].
      rewrite He in Hex.
      destruct m; try discriminate Hm; cbn [ki_of k_misc k_e misc_of key_expr] in Hex;
        try discriminate Hex; inversion Hex; subst ex.
      * apply (solve_cmp_num o KPlain f op c d eq_refl Hop Hc).
      * apply (solve_cmp_num o KInt f op c d eq_refl Hop Hc).
      * apply (solve_cmp_num o KFlt f op c d eq_refl Hop Hc).
    + destruct (is_string_predicate o ic s) eqn:Es.
      * pose proof (sse_string o ic (ki_of m f) s Es) as Hss.
        destruct m; try discriminate Hm; cbn [ki_of k_misc k_f misc_of misc_is modsym_eqb] in Hss;
          try (rewrite Hss in Hex; discriminate Hex);
          destruct Hss as [sr [He Hsr]]; rewrite He in Hex; inversion Hex; subst ex;
          apply (solve_string o ic sr s f _ d Hsr).
      * unfold scalar_string_expr in Hex. rewrite (into_id_nonstring o ic s En Es) in Hex.
        discriminate Hex.
Qed.

(* ================= the entry ================= *)

Lemma entry_refines_alt : entry_refines_alt_stmt.
Proof.
  intros o ic k v e Hv Hd27 Hbig H.
  rewrite (parse_entry_scalar o ic (YStr k) v Hv) in H.
  destruct (parse_key o (YStr k) v) as [ki|ek|n] eqn:Hk; cbn [bind] in H; try discriminate H.
  destruct (key_cases o k v ki Hv Hk) as [m [f [Hr [Hs ->]]]].
  destruct (value_expr o ic (ki_of m f) v) as [ex|ek|n] eqn:Hex; cbn [bind] in H;
    try discriminate H.
  inversion H; subst e; clear H.
  exists m, f. split; [exact Hr|]. split; [destruct m; try exact I; discriminate Hs|].
  assert (Hx : excluded m v = false).
  { unfold d27_entry, bigint_str_entry, key_mod in Hd27, Hbig. rewrite Hr in Hd27, Hbig.
    cbn [option_map fst] in Hd27, Hbig.
    destruct m; try reflexivity. destruct v; try reflexivity; try discriminate Hd27.
    exact Hbig. }
  intros d. unfold sem_entry_scalar.
  destruct m; try discriminate Hs; cbn [ki_of k_misc misc_of misc_is modsym_eqb].
  - apply (inner o ic KPlain f v ex eq_refl Hv Hx Hex).
  - rewrite value_expr_not in Hex.
    unfold solve_body. cbn [solve]. fold (solve_body o).
    rewrite (inner o ic KPlain f v ex eq_refl Hv eq_refl Hex d). cbn [bind].
    destruct (d f) as [x|]; [|reflexivity]. destruct (sem_scalar o ic KPlain v x); reflexivity.
  - apply (inner o ic KInt f v ex eq_refl Hv Hx Hex).
  - apply (inner o ic KFlt f v ex eq_refl Hv Hx Hex).
  - apply (inner o ic KStr f v ex eq_refl Hv Hx Hex).
Qed.

Lemma entry_refines_excl : entry_refines_excl_stmt.
Proof.
  intros o ic k v e Hv Hx H. unfold excluded_entry in Hx.
  apply orb_false_iff in Hx. destruct Hx as [Hd27 Hbig].
  exact (entry_refines_alt o ic k v e Hv Hd27 Hbig H).
Qed.

(* ================= D30 as repaired ================= *)

Definition cx_o : oracles :=
  {| re_valid := fun _ _ => true; re_match := fun _ _ _ => false; f64_parse := fun _ => None;
     (* f64::to_string of 2^64: "18446744073709552000" *)
     f64_show := fun _ => [49;56;52;52;54;55;52;52;48;55;51;55;48;57;53;53;50;48;48;48]%N;
     uni_alnum := fun _ => false; uni_num := fun _ => false |}.
Definition cx_k : str := [115; 116; 114; 40; 102; 41]%N.     (* str(f) *)
Definition cx_z : Z := 18446744073709551615%Z.                (* u64::MAX *)
Definition cx_d : doc := fun _ => Some (VUInt cx_z).
Definition cx_e : expr :=
  ESearch (SExact [49;56;52;52;54;55;52;52;48;55;51;55;48;57;53;53;49;54;49;53]%N) [102%N] true.

(* `str(f): 18446744073709551615` on the document {f: 18446744073709551615}: since fix D30 the
   constant keeps its own decimal text (before, the text of the double 2^64 was compared and the
   engine said false where the reference says true) *)
Example entry_fixed_D30 :
  scalar_yaml (YInt cx_z) = true /\
  parse_entry cx_o false (YStr cx_k) (YInt cx_z) None [] = Ok cx_e /\
  read_key cx_o cx_k = Some (KStr, [102%N]) /\
  solve_body cx_o cx_e (pure_doc cx_d) = Ok T /\
  sem_entry_scalar cx_o false KStr [102%N] (YInt cx_z) cx_d = T.
Proof. repeat split; vm_compute; reflexivity. Qed.

Print Assumptions entry_refines_excl.
