(* C02 (fourth proof file): the whole identifier language -- values may also be non-empty LISTS OF
   MAPPINGS, nested to any depth (statements: Properties/C02_all.v).  Generalises Proofs/C02_full.v.

   Contents
     (0) the helper definitions of Properties/C02_all.v, restated identically
     (1) fuel / depth lemmas
     (2) a list whose members are mappings: what the loader builds, what it evaluates to
     (3) entries and mappings (any nesting depth)
     (4) identifiers: whole value, and entry by entry for one document
     (5) whole rules
     (6) the statement WITHOUT the exclusion of D28 in list members is false (counterexample)
     (7) non-vacuity *)
From TauModel Require Import Base Num Oracles Syntax Value Yaml Token Pratt Ident ParseMap PatSpec
     Solver Rule Keys Known Spec.
From TauProofs Require Import C07 C08 C02_entry C02_lift.
From TauProofs Require C03 C02_lists C02_cond C02_full C01_matrix.
From Coq Require Import Lia ZArith NArith ZifyBool List Bool Arith.
Import ListNotations.

(* ====================================================================================== *)
(* (0) the helper definitions of Properties/C02_all.v, restated identically                *)
(* ====================================================================================== *)
Definition is_ymap (v : yaml) : bool := match v with YMap _ => true | _ => false end.

Fixpoint any_mapping (fuel : nat) (y : yaml) : bool :=
  match fuel with
  | O => false
  | S fu =>
      match y with
      | YMap kv => forallb (fun p : yaml * yaml =>
                              match fst p with YStr _ => true | _ => false end &&
                              (scalar_yaml (snd p) ||
                               match snd p with
                               | YSeq vs => forallb scalar_yaml vs || forallb (any_mapping fu) vs
                               | _ => false
                               end ||
                               any_mapping fu (snd p))) kv
      | _ => false
      end
  end.
Definition any_identifier (y : yaml) : bool :=
  match y with
  | YMap _ => any_mapping (S (yaml_depth y)) y
  | YSeq l => forallb (fun m => any_mapping (S (yaml_depth m)) m) l
  | _ => false
  end.

Definition excluded_entry2 (o : oracles) (k v : yaml) : bool :=
  excluded_entry o k v || d32_entry o k v || d28_entry o k v || d28_member_entry o k v.
Definition excl_free2 (o : oracles) (y : yaml) : Prop :=
  entry_exists (S (yaml_depth y)) (excluded_entry2 o) y = false.

Definition is_ystr' (v : yaml) : bool := match v with YStr _ => true | _ => false end.
Definition quant_strings (m : keymod) (vs : list yaml) : bool :=
  match m with KAll | KOf _ => (2 <=? length (filter is_ystr' vs))%nat | _ => false end.
Fixpoint arrays_ok (o : oracles) (fuel : nat) (y : yaml) (d : doc) : bool :=
  match fuel with
  | O => true
  | S fu =>
      match y with
      | YMap kv =>
          forallb (fun p : yaml * yaml =>
                     match fst p with
                     | YStr k =>
                         match read_key o k with
                         | Some (m, f) =>
                             let sub (v : yaml) : bool :=
                               match d f with
                               | Some (VObj kv') => arrays_ok o fu v (obj_find kv')
                               | Some (VArr l) => forallb (fun e => match e with VObj kv' => arrays_ok o fu v (obj_find kv') | _ => true end) l
                               | _ => true
                               end in
                             match snd p with
                             | YSeq vs =>
                                 negb (quant_strings m vs && match d f with Some (VArr _) => true | _ => false end) &&
                                 forallb (fun v => if is_ymap v then sub v else true) vs
                             | YMap _ => sub (snd p)
                             | _ => true
                             end
                         | None => true
                         end
                     | _ => true
                     end) kv
      | YSeq l => forallb (fun m => arrays_ok o fu m d) l
      | _ => true
      end
  end.

Fixpoint counted (i : str) (e : expr) : bool :=
  match e with
  | EMatch _ (EIdent j) => str_eqb i j
  | EMatch _ e' | ENegate e' | ENested _ e' => counted i e'
  | EBexp l _ r => counted i l || counted i r
  | EGroup _ l => existsb (counted i) l
  | _ => false
  end.

(* ====================================================================================== *)
(* (1) fuel and depth                                                                      *)
(* ====================================================================================== *)

(* above the depth of the value the fuel of entry_exists does not matter *)
Lemma entry_exists_enough p : forall n n' y, yaml_depth y < n -> n <= n' ->
  entry_exists n' p y = entry_exists n p y.
Proof.
  induction n as [|n IH]; intros n' y Hd Hle; [lia|].
  destruct n' as [|n']; [lia|].
  destruct y as [| | | | |l|kv|]; try reflexivity; cbn [entry_exists].
  - apply C01_matrix.existsb_ext_In. intros m Hm. apply IH; [|lia].
    pose proof (depth_seq_member l m Hm). lia.
  - apply C01_matrix.existsb_ext_In. intros e He. f_equal. apply IH; [|lia].
    pose proof (depth_map_value kv e He). lia.
Qed.

Lemma any_mapping_is_map n v : any_mapping n v = true -> is_ymap v = true.
Proof.
  intros H. destruct n as [|n]; [discriminate H|]. destruct v; try discriminate H. reflexivity.
Qed.

(* the D10 classifier does not look at the polarity *)
Lemma d10_irrel e n n' : exists_sub d10_here n e = exists_sub d10_here n' e.
Proof.
  rewrite (C01_matrix.exists_sub_neg_irrel d10_here d10_here (fun _ _ => eq_refl) e n).
  rewrite (C01_matrix.exists_sub_neg_irrel d10_here d10_here (fun _ _ => eq_refl) e n').
  reflexivity.
Qed.

Lemma d10_under_match mm x n :
  exists_sub d10_here n (EMatch mm x) = false -> exists_sub d10_here false x = false.
Proof.
  intros H. cbn [exists_sub] in H. apply orb_false_elim in H. destruct H as [_ H].
  destruct mm as [|c];
    [rewrite (d10_irrel x false n)|rewrite (d10_irrel x false (n || (c =? 0)%Z))]; exact H.
Qed.

Lemma d10_under_nested f x n :
  exists_sub d10_here n (ENested f x) = false -> exists_sub d10_here false x = false.
Proof.
  intros H. cbn [exists_sub] in H. apply orb_false_elim in H. destruct H as [_ H].
  rewrite (d10_irrel x false n). exact H.
Qed.

Lemma d10_nested_list f es n :
  existsb (exists_sub d10_here n) (map (ENested f) es) = false ->
  forall e, In e es -> exists_sub d10_here false e = false.
Proof.
  intros H e He.
  apply (d10_under_nested f e n).
  exact (C02_full.existsb_false_in _ _ (ENested f e) H (in_map (ENested f) es e He)).
Qed.

Lemma F2_map_r {A B C} (Q : A -> C -> Prop) (h : B -> C) : forall l l',
  Forall2 (fun a b => Q a (h b)) l l' -> Forall2 Q l (map h l').
Proof. induction 1; cbn [map]; constructor; assumption. Qed.

Lemma or3_M_l r : or3 M r = r.
Proof. destruct r; reflexivity. Qed.

Lemma F2_length {A B} (Q : A -> B -> Prop) l l' : Forall2 Q l l' -> length l = length l'.
Proof. induction 1; cbn [length]; congruence. Qed.

(* ====================================================================================== *)
(* (2) a list whose members are mappings                                                   *)
(* ====================================================================================== *)
Section SemA.
Variable o : oracles.
Variable ic : bool.

(* the sub-result handed to seq_member for a list member *)
Definition subf (m : yaml) : option (out expr) :=
  match m with YMap _ => Some (parse_mapping o ic m) | _ => None end.

(* the accumulator while only mapping members have been read *)
Definition macc (b : bool) (es : list expr) : seqacc :=
  {| a_exact := []; a_starts := []; a_ends := []; a_contains := []; a_regex := []; a_rest := es;
     a_boolean := false; a_mapping := b; a_number := false; a_string := false; a_cast := false |}.

Lemma group_macc f b es : group_of f (macc b es) = es.
Proof. reflexivity. Qed.
Lemma multiple_macc b es : multiple_of (macc b es) = false.
Proof. reflexivity. Qed.

Lemma members_maps ki ue : k_misc ki = None -> forall vs b es0 a,
  (forall v, In v vs -> is_ymap v = true) ->
  seq_members o ic ki ue (macc b es0) vs (map subf vs) = Ok a ->
  exists es, Forall2 (fun v e => parse_mapping o ic v = Ok e) vs es /\
             a = macc (b || negb (is_nil vs)) (es0 ++ map (ENested (k_f ki)) es).
Proof.
  intros Hm. induction vs as [|v vs IH]; intros b es0 a Hall H.
  - cbn [seq_members map] in H. inversion H; subst a. exists []. split; [constructor|].
    cbn [is_nil negb map]. rewrite orb_false_r, app_nil_r. reflexivity.
  - cbn [map seq_members tl] in H.
    assert (Hv : is_ymap v = true) by (apply Hall; left; reflexivity).
    destruct v as [| | | | | |kv|]; try discriminate Hv.
    cbn [seq_member subf] in H. rewrite Hm in H.
    destruct (parse_mapping o ic (YMap kv)) as [e1|ek|n] eqn:Hp; cbn [bind] in H; try discriminate H.
    change (push_rest (flag_mapping (macc b es0)) (ENested (k_f ki) e1))
      with (macc (b || true) (es0 ++ [ENested (k_f ki) e1])) in H.
    destruct (IH _ _ _ (fun v' Hin => Hall v' (or_intror Hin)) H) as (es & HF & ->).
    exists (e1 :: es). split; [constructor; assumption|].
    cbn [is_nil negb map]. rewrite !orb_true_r. rewrite <- app_assoc. reflexivity.
Qed.

(* a mapping member under not() / int() / flt() / str() is rejected *)
Lemma members_misc ki ue a kv vs subs a' :
  seq_members o ic ki ue a (YMap kv :: vs) subs = Ok a' -> k_misc ki = None.
Proof.
  cbn [seq_members seq_member]. destruct (k_misc ki); [discriminate|reflexivity].
Qed.

Lemma finish_maps_plain f es ex :
  finish_seq (ki_of KPlain f) (macc true es) = Ok ex ->
  (exists x, es = [x] /\ ex = x) \/ ((2 <= length es)%nat /\ ex = EGroup BOr es).
Proof.
  rewrite C02_lists.finish_seq_gen. rewrite group_macc, multiple_macc.
  cbn [ki_of k_e k_f k_misc key_expr misc_of is_match_key misc_is andb negb].
  destruct es as [|x [|y l]]; intros H; [discriminate H| |]; inversion H; subst ex.
  - left. eauto.
  - right. split; [cbn [length]; lia|reflexivity].
Qed.

Lemma finish_maps_quant mm f es ex :
  finish_seq (quant_key mm f) (macc true es) = Ok ex ->
  (exists x, es = [x] /\ keep_of mm = false /\ ex = x) \/
  (exists x, es = [x] /\ keep_of mm = true /\ ex = EMatch mm x) \/
  ((2 <= length es)%nat /\ ex = EMatch mm (EGroup BOr es)).
Proof.
  rewrite C08.finish_seq_q_eq. rewrite group_macc, multiple_macc.
  cbn [macc a_boolean a_mapping a_number a_string b2n Nat.add Nat.ltb Nat.leb negb andb].
  destruct es as [|x [|y l]]; intros H; [discriminate H| |].
  - destruct (keep_of mm) eqn:Ek; cbn [negb] in H; inversion H; subst ex.
    + right. left. eauto.
    + left. eauto.
  - inversion H; subst ex. right. right. split; [cbn [length]; lia|reflexivity].
Qed.

(* ---- the condition D26 of Properties/C02_all.v, one level ---- *)
Definition sub_ok (fu : nat) (d : doc) (f : str) (v : yaml) : bool :=
  match d f with
  | Some (VObj kv') => arrays_ok o fu v (obj_find kv')
  | Some (VArr l) => forallb (fun e => match e with VObj kv' => arrays_ok o fu v (obj_find kv') | _ => true end) l
  | _ => true
  end.

Definition aok_entry (fu : nat) (d : doc) (p : yaml * yaml) : bool :=
  match fst p with
  | YStr k =>
      match read_key o k with
      | Some (m, f) =>
          match snd p with
          | YSeq vs =>
              negb (quant_strings m vs && match d f with Some (VArr _) => true | _ => false end) &&
              forallb (fun v => if is_ymap v then sub_ok fu d f v else true) vs
          | YMap _ => sub_ok fu d f (snd p)
          | _ => true
          end
      | None => true
      end
  | _ => true
  end.

Lemma arrays_ok_S fu kv d : arrays_ok o (S fu) (YMap kv) d = forallb (aok_entry fu d) kv.
Proof. reflexivity. Qed.
Lemma arrays_ok_S_seq fu l d : arrays_ok o (S fu) (YSeq l) d = forallb (fun m => arrays_ok o fu m d) l.
Proof. reflexivity. Qed.

(* less fuel asks for less *)
Lemma arrays_ok_anti : forall n n' y d, n <= n' ->
  arrays_ok o n' y d = true -> arrays_ok o n y d = true.
Proof.
  induction n as [|n IH]; intros n' y d Hle H; [reflexivity|].
  destruct n' as [|n']; [lia|]. assert (Hle' : n <= n') by lia.
  assert (Hsub : forall d' f v, sub_ok n' d' f v = true -> sub_ok n d' f v = true).
  { intros d' f v G. unfold sub_ok in G |- *. destruct (d' f) as [[]|]; try reflexivity.
    - rewrite forallb_forall in G |- *. intros e He. specialize (G e He).
      destruct e; try reflexivity. exact (IH _ _ _ Hle' G).
    - exact (IH _ _ _ Hle' G). }
  destruct y as [| | | | |l|kv|]; try reflexivity.
  - rewrite arrays_ok_S_seq in H |- *.
    rewrite forallb_forall in H |- *. intros m Hm. exact (IH _ _ _ Hle' (H m Hm)).
  - rewrite arrays_ok_S in H |- *.
    rewrite forallb_forall in H |- *. intros p Hp. specialize (H p Hp).
    unfold aok_entry in H |- *.
    destruct (fst p); try reflexivity. destruct (read_key o s) as [[m f]|]; try reflexivity.
    destruct (snd p) as [| | | | |vs|kv'|]; try reflexivity.
    + apply andb_true_iff in H. destruct H as [H1 H2]. rewrite H1. cbn [andb].
      rewrite forallb_forall in H2 |- *. intros v Hv. specialize (H2 v Hv).
      destruct (is_ymap v); [exact (Hsub _ _ _ H2)|reflexivity].
    + exact (Hsub _ _ _ H).
Qed.

(* ---- a nested block (as an entry or as a list member) ---- *)
Lemma nested_ok fu f v e' (d : doc) :
  (forall d' : doc, arrays_ok o fu v d' = true ->
     solve_body o e' (pure_doc d') = Ok (sem_mapping o ic fu v d')) ->
  is_allor e' = false -> is_ymap v = true -> sub_ok fu d f v = true ->
  solve_body o (ENested f e') (pure_doc d) =
  Ok (match d f with None => M | Some x => member o ic (sem_mapping o ic fu) x KPlain v end).
Proof.
  intros Hsolve Hna Hv Hd. destruct v as [| | | | | |kv'|]; try discriminate Hv.
  rewrite (C02_full.solve_nested_gen _ _ _ _ Hna).
  unfold sub_ok in Hd. unfold pure_doc at 1. cbn [bind].
  destruct (d f) as [x|]; [|reflexivity].
  destruct x; try reflexivity.
  - cbn [member].
    apply (C02_full.any_true_spec_in (solve_body o e')
             (fun kv => sem_mapping o ic fu (YMap kv') (obj_find kv))).
    intros kv Hin. apply (Hsolve (obj_find kv)).
    rewrite forallb_forall in Hd. exact (Hd _ Hin).
  - cbn [member]. exact (Hsolve (obj_find kv) Hd).
Qed.

(* the result of one mapping member on document d *)
Definition mres (fu : nat) (d : doc) (f : str) (v : yaml) : res3 :=
  match d f with None => M | Some x => member o ic (sem_mapping o ic fu) x KPlain v end.

Lemma mres_some fu d f x vs : d f = Some x ->
  map (mres fu d f) vs = map (member o ic (sem_mapping o ic fu) x KPlain) vs.
Proof. intros E. apply map_ext. intros v. unfold mres. rewrite E. reflexivity. Qed.

Lemma mres_none fu d f vs : d f = None -> map (mres fu d f) vs = map (fun _ => M) vs.
Proof. intros E. apply map_ext. intros v. unfold mres. rewrite E. reflexivity. Qed.

(* ====================================================================================== *)
(* (3) entries and mappings                                                                *)
(* ====================================================================================== *)

Definition aentry (fu : nat) (p : yaml * yaml) : bool :=
  match fst p with YStr _ => true | _ => false end &&
  (scalar_yaml (snd p) ||
   match snd p with
   | YSeq vs => forallb scalar_yaml vs || forallb (any_mapping fu) vs
   | _ => false
   end ||
   any_mapping fu (snd p)).

Definition excl2_in_entry (fu : nat) (e : yaml * yaml) : bool :=
  excluded_entry2 o (fst e) (snd e) || entry_exists fu (excluded_entry2 o) (snd e).

Lemma any_mapping_S fu kv : any_mapping (S fu) (YMap kv) = forallb (aentry fu) kv.
Proof. reflexivity. Qed.
Lemma entry_exists_S fu kv :
  entry_exists (S fu) (excluded_entry2 o) (YMap kv) = existsb (excl2_in_entry fu) kv.
Proof. reflexivity. Qed.

(* what is proved, at any fuel above the depth *)
Definition mapping_ok (n : nat) : Prop :=
  forall y e,
    yaml_depth y < n -> any_mapping n y = true ->
    entry_exists n (excluded_entry2 o) y = false ->
    parse_mapping o ic y = Ok e -> exists_sub d10_here false e = false ->
    (forall d : doc, arrays_ok o n y d = true ->
                     solve_body o e (pure_doc d) = Ok (sem_mapping o ic n y d)) /\
    (is_allor e = true -> d28_entry o YNull y = true).

(* the shape of the expression of one entry *)
Definition entry_shape (p : yaml * yaml) (e : expr) : Prop :=
  match snd p with
  | YSeq vs => (key_mod o (fst p) <> Some KAll -> is_allor e = false) /\
               (length vs <= 1 -> C02_full.one_shape e)
  | _ => eshape e = true
  end.

Definition entry_ok (fu : nat) (p : yaml * yaml) (e : expr) : Prop :=
  (forall d : doc, aok_entry fu d p = true ->
     solve_body o e (pure_doc d) = Ok (entry_sem o ic (sem_mapping o ic fu) d p)) /\
  entry_shape p e.

(* the members of the list, each under the nested block the loader wraps it in *)
Lemma members_solve fu f (d : doc) vs es :
  mapping_ok fu ->
  (forall v, In v vs -> yaml_depth v < fu) ->
  forallb (any_mapping fu) vs = true ->
  (forall v, In v vs -> entry_exists fu (excluded_entry2 o) v = false) ->
  (forall v, In v vs -> d28_entry o YNull v = false) ->
  Forall2 (fun v e => parse_mapping o ic v = Ok e) vs es ->
  (forall e, In e es -> exists_sub d10_here false e = false) ->
  forallb (fun v => if is_ymap v then sub_ok fu d f v else true) vs = true ->
  Forall2 (fun v e => solve_body o (ENested f e) (pure_doc d) = Ok (mres fu d f v)) vs es.
Proof.
  intros IH Hdep Hany Hx H28 HF Hd10 Ha.
  apply (C02_full.F2_impl_in2 (fun v e => parse_mapping o ic v = Ok e)); [|exact HF].
  intros v e Hv He Hp.
  rewrite forallb_forall in Hany. pose proof (Hany v Hv) as Hav.
  destruct (IH v e (Hdep v Hv) Hav (Hx v Hv) Hp (Hd10 e He)) as [Hsolve Hallor].
  assert (Hna : is_allor e = false).
  { destruct (is_allor e) eqn:E; [|reflexivity].
    pose proof (H28 v Hv) as G. rewrite (Hallor eq_refl) in G. discriminate G. }
  pose proof (any_mapping_is_map _ _ Hav) as Hm.
  rewrite forallb_forall in Ha. pose proof (Ha v Hv) as Hsv. rewrite Hm in Hsv.
  unfold mres. exact (nested_ok fu f v e d Hsolve Hna Hm Hsv).
Qed.

Lemma maplist_entry_ok fu k vs e :
  mapping_ok fu ->
  yaml_depth (YSeq vs) < fu ->
  vs <> [] -> forallb (any_mapping fu) vs = true ->
  excl2_in_entry fu (YStr k, YSeq vs) = false ->
  parse_entry o ic (YStr k) (YSeq vs) None (map subf vs) = Ok e ->
  exists_sub d10_here false e = false ->
  entry_ok fu (YStr k, YSeq vs) e.
Proof.
  intros IH Hdep Hne Hany Hx Hpe Hd10.
  (* the exclusions *)
  unfold excl2_in_entry in Hx. cbn [fst snd] in Hx. apply orb_false_iff in Hx.
  destruct Hx as [Hx Hxv]. unfold excluded_entry2 in Hx.
  apply orb_false_iff in Hx. destruct Hx as [Hx H28m]. clear Hx.
  unfold d28_member_entry in H28m.
  assert (H28 : forall v, In v vs -> d28_entry o YNull v = false).
  { intros v Hv. exact (C02_full.existsb_false_in _ _ v H28m Hv). }
  assert (Hxm : forall v, In v vs -> entry_exists fu (excluded_entry2 o) v = false).
  { intros v Hv. destruct fu as [|fu']; [lia|]. cbn [entry_exists] in Hxv.
    pose proof (depth_seq_member vs v Hv) as Hdv.
    rewrite (entry_exists_enough (excluded_entry2 o) fu' (S fu') v) by lia.
    exact (C02_full.existsb_false_in _ _ v Hxv Hv). }
  assert (Hdm : forall v, In v vs -> yaml_depth v < fu).
  { intros v Hv. pose proof (depth_seq_member vs v Hv). lia. }
  assert (Hmaps : forall v, In v vs -> is_ymap v = true).
  { intros v Hv. rewrite forallb_forall in Hany. exact (any_mapping_is_map _ _ (Hany v Hv)). }
  (* the loader *)
  unfold parse_entry in Hpe.
  destruct (parse_key o (YStr k) (YSeq vs)) as [ki|ek|n] eqn:Hk; cbn [bind] in Hpe;
    try discriminate Hpe.
  cbv zeta in Hpe.
  destruct (seq_members o ic ki (match k_e ki with EMatch _ inner => inner | _ => k_e ki end)
              (if misc_is MStr (k_misc ki) then flag_cast acc0 else acc0) vs (map subf vs))
    as [a|ek|n] eqn:Hseq; cbn [bind] in Hpe; try discriminate Hpe.
  destruct (finish_seq ki a) as [ex|ek|n] eqn:Hfin; cbn [bind] in Hpe; try discriminate Hpe.
  assert (Hmisc : k_misc ki = None).
  { destruct vs as [|v vs']; [congruence|].
    pose proof (Hmaps v (or_introl eq_refl)) as Hv. destruct v; try discriminate Hv.
    cbn [map] in Hseq. exact (members_misc _ _ _ _ _ _ _ Hseq). }
  rewrite Hmisc in Hseq, Hpe. cbn [misc_is] in Hseq, Hpe. inversion Hpe; subst ex; clear Hpe.
  change acc0 with (macc false []) in Hseq.
  destruct (members_maps ki _ Hmisc vs false [] a Hmaps Hseq) as (es & HF & ->).
  cbn [app orb] in Hfin.
  assert (Hnil : negb (is_nil vs) = true) by (destruct vs; [congruence|reflexivity]).
  rewrite Hnil in Hfin.
  pose proof (F2_length _ _ _ HF) as Hlen.
  destruct (C02_lists.key_cases_seq o k vs ki Hk) as [[m [f [Hr [Hs ->]]]]|[mm [f [Hr [-> Hth]]]]].
  - (* a plain key *)
    destruct m; try discriminate Hs; try discriminate Hmisc. cbn [ki_of k_f] in Hfin.
    assert (Hkm : key_mod o (YStr k) = Some KPlain) by (unfold key_mod; rewrite Hr; reflexivity).
    destruct (finish_maps_plain f _ e Hfin) as [(x & Ees & ->)|(Hl2 & ->)].
    + (* one member: the nested block itself *)
      destruct es as [|e1 [|e2 es']]; try discriminate Ees. cbn [map] in Ees. inversion Ees; subst x.
      destruct vs as [|v1 [|v2 vs']]; try discriminate Hlen.
      split; [|split; [intros _; reflexivity|intros _; exact I]].
      intros d Ha. unfold aok_entry in Ha. cbn [fst snd] in Ha. rewrite Hr in Ha.
      apply andb_true_iff in Ha. destruct Ha as [_ Ha].
      assert (Hd10' : forall e, In e [e1] -> exists_sub d10_here false e = false).
      { intros e0 [<-|[]]. exact (d10_under_nested f e1 false Hd10). }
      pose proof (members_solve fu f d [v1] [e1] IH Hdm Hany Hxm H28 HF Hd10' Ha) as HS.
      inversion HS as [|? ? ? ? HS1 _]; subst. rewrite HS1. f_equal.
      unfold entry_sem, mres. cbn [fst snd]. rewrite Hr. cbv zeta.
      destruct (d f) as [x|]; [|reflexivity]. cbn [map]. rewrite max3_single. reflexivity.
    + (* two or more: their disjunction *)
      rewrite map_length in Hl2.
      split; [|split; [intros _; reflexivity|intros Hl; lia]].
      intros d Ha. unfold aok_entry in Ha. cbn [fst snd] in Ha. rewrite Hr in Ha.
      apply andb_true_iff in Ha. destruct Ha as [_ Ha].
      assert (Hd10' : forall e, In e es -> exists_sub d10_here false e = false).
      { destruct (C02_full.exists_sub_parts _ _ _ Hd10) as [_ G]. exact (d10_nested_list f es false G). }
      pose proof (members_solve fu f d vs es IH Hdm Hany Hxm H28 HF Hd10' Ha) as HS.
      rewrite solve_or_group.
      rewrite (or_fold_F2 o (mres fu d f) (pure_doc d) vs (map (ENested f) es)
                 (F2_map_r _ _ _ _ HS) M) by discriminate.
      rewrite or3_M_l. f_equal.
      unfold entry_sem. cbn [fst snd]. rewrite Hr. cbv zeta.
      destruct (d f) as [x|] eqn:Edf.
      * rewrite (mres_some fu d f x vs Edf). reflexivity.
      * rewrite (mres_none fu d f vs Edf). apply C02_lists.max3_allM.
  - (* all() / of() *)
    cbn [quant_key k_f] in Hfin.
    assert (Hkm : key_mod o (YStr k) = Some (match mm with MAll => KAll | MOf c => KOf c end))
      by (unfold key_mod; rewrite Hr; reflexivity).
    assert (Hsem : forall d : doc,
              entry_sem o ic (sem_mapping o ic fu) d (YStr k, YSeq vs) =
              C02_lists.Qm mm (map (mres fu d f) vs)).
    { intros d. unfold entry_sem. cbn [fst snd]. rewrite Hr. cbv zeta.
      destruct (d f) as [x|] eqn:Edf.
      - rewrite (mres_some fu d f x vs Edf). destruct mm; reflexivity.
      - rewrite (mres_none fu d f vs Edf), (C02_lists.Qm_allM mm vs Hth Hne).
        destruct mm; reflexivity. }
    destruct (finish_maps_quant mm f _ e Hfin)
      as [(x & Ees & Hkeep & ->)|[(x & Ees & Hkeep & ->)|(Hl2 & ->)]].
    + (* one member, all() or of(k, 1): the nested block itself *)
      destruct es as [|e1 [|e2 es']]; try discriminate Ees. cbn [map] in Ees. inversion Ees; subst x.
      destruct vs as [|v1 [|v2 vs']]; try discriminate Hlen.
      split; [|split; [intros _; reflexivity|intros _; exact I]].
      intros d Ha. unfold aok_entry in Ha. cbn [fst snd] in Ha. rewrite Hr in Ha.
      apply andb_true_iff in Ha. destruct Ha as [_ Ha].
      assert (Hd10' : forall e, In e [e1] -> exists_sub d10_here false e = false).
      { intros e0 [<-|[]]. exact (d10_under_nested f e1 false Hd10). }
      pose proof (members_solve fu f d [v1] [e1] IH Hdm Hany Hxm H28 HF Hd10' Ha) as HS.
      inversion HS as [|? ? ? ? HS1 _]; subst. rewrite HS1, Hsem. f_equal. cbn [map].
      destruct mm as [|c]; cbn [C02_lists.Qm].
      * symmetry. apply C02_cond.first_non_true_single.
      * cbn [keep_of] in Hkeep. apply negb_false_iff in Hkeep. apply Z.eqb_eq in Hkeep. subst c.
        rewrite C02_cond.of3_single by lia. cbn [Z.eqb Z.ltb Z.compare Pos.compare Pos.compare_cont].
        destruct (mres fu d f v1); reflexivity.
    + (* one member under of(k, c), c <> 1 *)
      destruct es as [|e1 [|e2 es']]; try discriminate Ees. cbn [map] in Ees. inversion Ees; subst x.
      destruct vs as [|v1 [|v2 vs']]; try discriminate Hlen.
      destruct mm as [|c]; [discriminate Hkeep|].
      split; [|split; [intros _; reflexivity|intros _; exact I]].
      intros d Ha. unfold aok_entry in Ha. cbn [fst snd] in Ha. rewrite Hr in Ha.
      apply andb_true_iff in Ha. destruct Ha as [_ Ha].
      assert (Hd10' : forall e, In e [e1] -> exists_sub d10_here false e = false).
      { intros e0 [<-|[]]. apply (d10_under_nested f e1 false).
        exact (d10_under_match _ _ _ Hd10). }
      pose proof (members_solve fu f d [v1] [e1] IH Hdm Hany Hxm H28 HF Hd10' Ha) as HS.
      inversion HS as [|? ? ? ? HS1 _]; subst. rewrite Hsem. cbn [map C02_lists.Qm].
      cbn [threshold_ok] in Hth. rewrite C02_cond.of3_single by exact Hth.
      change (solve_body o (EMatch (MOf c) (ENested f e1)) (pure_doc d))
        with (if (c =? 0)%Z
              then do r <- solve_body o (ENested f e1) (pure_doc d);
                   Ok (match r with T => F | F => T | M => M end)
              else do r <- solve_body o (ENested f e1) (pure_doc d);
                   Ok (match r with T => if (1 <? c)%Z then F else T | x => x end)).
      rewrite HS1. cbn [bind]. destruct (c =? 0)%Z; reflexivity.
    + (* two or more members under the quantifier *)
      rewrite map_length in Hl2.
      split.
      2:{ split; [|intros Hl; lia]. intros Hnk. cbn [fst] in Hnk.
          destruct mm; [exfalso; apply Hnk; exact Hkm|reflexivity]. }
      intros d Ha. unfold aok_entry in Ha. cbn [fst snd] in Ha. rewrite Hr in Ha.
      apply andb_true_iff in Ha. destruct Ha as [_ Ha].
      assert (Hd10' : forall e, In e es -> exists_sub d10_here false e = false).
      { pose proof (d10_under_match _ _ _ Hd10) as G.
        destruct (C02_full.exists_sub_parts _ _ _ G) as [_ G']. exact (d10_nested_list f es false G'). }
      pose proof (members_solve fu f d vs es IH Hdm Hany Hxm H28 HF Hd10' Ha) as HS.
      pose proof (F2_flip_map _ (fun x r => solve_body o x (pure_doc d) = Ok r) (mres fu d f)
                    (fun v x Hvx => Hvx) vs (map (ENested f) es) (F2_map_r _ _ _ _ HS)) as HS'.
      rewrite Hsem. unfold solve_body. rewrite C08.solve_match_group. fold (solve_body o).
      destruct mm as [|c]; cbn [C02_lists.Qm].
      * rewrite (C02_cond.and_fold_F2 (fun x => solve_body o x (pure_doc d)) _ _ HS').
        apply C02_cond.and_fold_fnt.
      * rewrite (C02_cond.of_fold_F2 (fun x => solve_body o x (pure_doc d)) _ _ c HS').
        apply C02_cond.of_fold_of3. exact Hth.
Qed.

Lemma eshape_not_allor e : eshape e = true -> is_allor e = false.
Proof. destruct e; cbn [eshape is_allor]; intros H; try reflexivity; discriminate H. Qed.

Lemma one_entry_ok fu k v e :
  mapping_ok fu ->
  yaml_depth v < fu ->
  aentry fu (k, v) = true -> excl2_in_entry fu (k, v) = false ->
  parse_entry o ic k v
    (match v with YMap _ => Some (parse_mapping o ic v) | _ => None end)
    (match v with
     | YSeq l => map (fun m => match m with
                               | YMap _ => Some (parse_mapping o ic m)
                               | _ => None
                               end) l
     | _ => []
     end) = Ok e ->
  exists_sub d10_here false e = false ->
  entry_ok fu (k, v) e.
Proof.
  intros IH Hdep Hs Hx0 Hp Hd10. pose proof Hx0 as Hx.
  unfold aentry in Hs. cbn [fst snd] in Hs. apply andb_true_iff in Hs.
  destruct Hs as [Hk Hs]. destruct k as [| | | |k| | |]; try discriminate Hk. clear Hk.
  unfold excl2_in_entry in Hx. cbn [fst snd] in Hx. apply orb_false_iff in Hx.
  destruct Hx as [Hx Hxv]. unfold excluded_entry2 in Hx.
  apply orb_false_iff in Hx. destruct Hx as [Hx H28m].
  apply orb_false_iff in Hx. destruct Hx as [Hx H28].
  apply orb_false_iff in Hx. destruct Hx as [Hx H32].
  destruct (scalar_yaml v) eqn:Hsc.
  - (* a scalar entry *)
    assert (Hp' : parse_entry o ic (YStr k) v None [] = Ok e).
    { rewrite <- Hp. symmetry. apply parse_entry_scalar_subs. exact Hsc. }
    assert (Hbig : bigint_str_entry o (YStr k) v = false).
    { unfold excluded_entry in Hx. apply orb_false_iff in Hx. exact (proj2 Hx). }
    destruct (C02_full.entry_refines_d27_fixed o ic k v e Hsc Hbig Hp') as (m & f & Hrk & Hm & Hsolve).
    split.
    + intros d _. rewrite Hsolve. f_equal. symmetry. apply entry_sem_scalar; assumption.
    + assert (Hsh : eshape e = true).
      { apply (parse_entry_shape o ic _ _ _ _ _ Hp'). destruct v; try discriminate Hsc; reflexivity. }
      unfold entry_shape. cbn [snd]. destruct v; try discriminate Hsc; exact Hsh.
  - cbn [orb] in Hs. destruct v as [| | | | |vs|kv'|]; try discriminate Hsc;
      try (destruct fu; discriminate Hs).
    + destruct (forallb scalar_yaml vs) eqn:Hvs.
      * (* a list of scalars *)
        rewrite (C02_full.scalar_subs o ic vs Hvs) in Hp.
        destruct (C02_lists.list_entry_refines o ic k vs e Hvs Hx H32 Hp Hd10)
          as (m & f & Hrk & Hsolve).
        split.
        -- intros d Hd. unfold aok_entry in Hd. cbn [fst snd] in Hd. rewrite Hrk in Hd.
           apply andb_true_iff in Hd. destruct Hd as [Hd _].
           rewrite (C02_full.entry_sem_list o ic _ d k vs m f Hvs Hrk). apply Hsolve.
           apply negb_true_iff in Hd.
           unfold C02_lists.array_ok. unfold quant_strings in Hd.
           destruct m; try exact I; intros Hlen;
             (destruct (d f) as [[]|]; try exact I;
              replace (2 <=? length (filter is_ystr' vs)) with true in Hd
                by (symmetry; apply Nat.leb_le; exact Hlen);
              discriminate Hd).
        -- unfold entry_shape. cbn [fst snd].
           destruct (C02_full.list_entry_shape o ic k vs e m f Hvs Hp Hrk) as [HA HB].
           split; [|exact HB].
           intros Hkm. apply HA. intros ->. apply Hkm. unfold key_mod. rewrite Hrk. reflexivity.
      * (* a list of mappings *)
        cbn [orb] in Hs.
        assert (Hany : forallb (any_mapping fu) vs = true).
        { apply orb_true_iff in Hs. destruct Hs as [Hs|Hs]; [exact Hs|destruct fu; discriminate Hs]. }
        assert (Hne : vs <> []) by (intros ->; discriminate Hvs).
        exact (maplist_entry_ok fu k vs e IH Hdep Hne Hany Hx0 Hp Hd10).
    + (* a nested block *)
      assert (Hlm : any_mapping fu (YMap kv') = true) by exact Hs.
      destruct (parse_entry_nested o ic _ _ _ _ _ Hp) as (f & e' & Hrk & Hsub & ->).
      destruct (C02_full.exists_sub_parts _ _ _ Hd10) as [_ Hd10'].
      destruct (IH _ _ Hdep Hlm Hxv Hsub Hd10') as [Hsolve Hallor].
      assert (Hna : is_allor e' = false).
      { destruct (is_allor e') eqn:E; [|reflexivity].
        specialize (Hallor eq_refl).
        change (d28_entry o (YStr k) (YMap kv') = true) in Hallor.
        rewrite Hallor in H28. discriminate H28. }
      split; [|reflexivity].
      intros d Hd. unfold aok_entry in Hd. cbn [fst snd] in Hd. rewrite Hrk in Hd.
      rewrite (nested_ok fu f (YMap kv') e' d Hsolve Hna eq_refl Hd).
      rewrite (entry_sem_nested o ic _ _ _ _ _ Hrk). reflexivity.
Qed.

Lemma entries_ok fu : mapping_ok fu ->
  forall kv es,
    (forall p, In p kv -> yaml_depth (snd p) < fu) ->
    forallb (aentry fu) kv = true ->
    existsb (excl2_in_entry fu) kv = false ->
    entries_of o ic kv = Ok es ->
    existsb (exists_sub d10_here false) es = false ->
    Forall2 (entry_ok fu) kv es.
Proof.
  intros IH. induction kv as [|[k v] kv' IHkv]; intros es Hdep Hs Hx Hes Hd10.
  - inversion Hes; subst. constructor.
  - cbn [forallb] in Hs. apply andb_true_iff in Hs. destruct Hs as [Hs Hs'].
    cbn [existsb] in Hx. apply orb_false_iff in Hx. destruct Hx as [Hx Hx'].
    change (entries_of o ic ((k, v) :: kv')) with
      (do e <- parse_entry o ic k v
                 (match v with YMap _ => Some (parse_mapping o ic v) | _ => None end)
                 (match v with
                  | YSeq l => map (fun m => match m with
                                            | YMap _ => Some (parse_mapping o ic m)
                                            | _ => None
                                            end) l
                  | _ => []
                  end);
       do es <- entries_of o ic kv'; Ok (e :: es)) in Hes.
    apply bind_ok_inv in Hes. destruct Hes as (e & He & Hes).
    apply bind_ok_inv in Hes. destruct Hes as (es' & Hes' & Hes).
    inversion Hes; subst. cbn [existsb] in Hd10. apply orb_false_iff in Hd10.
    destruct Hd10 as [Hd1 Hd2]. constructor.
    + apply one_entry_ok; try assumption. apply (Hdep (k, v)). left; reflexivity.
    + apply IHkv; try assumption. intros p Hin. apply Hdep. right; exact Hin.
Qed.

Lemma mapping_entries fu kv e :
  mapping_ok fu ->
  yaml_depth (YMap kv) < S fu ->
  any_mapping (S fu) (YMap kv) = true ->
  entry_exists (S fu) (excluded_entry2 o) (YMap kv) = false ->
  parse_mapping o ic (YMap kv) = Ok e -> exists_sub d10_here false e = false ->
  exists es, finish_mapping es = Ok e /\ Forall2 (entry_ok fu) kv es.
Proof.
  intros IH Hdep Hs Hx Hp Hd10. rewrite parse_mapping_YMap in Hp.
  apply bind_ok_inv in Hp. destruct Hp as (es & Hes & Hfin).
  exists es. split; [exact Hfin|].
  apply (entries_ok fu IH kv es); try assumption.
  - intros p Hin. pose proof (depth_map_value kv p Hin). lia.
  - exact (C02_full.finish_d10 es e Hfin Hd10).
Qed.

Lemma entry_ok_solve fu d kv es :
  Forall2 (entry_ok fu) kv es -> forallb (aok_entry fu d) kv = true ->
  Forall2 (fun p e => solve_body o e (pure_doc d)
                      = Ok (entry_sem o ic (sem_mapping o ic fu) d p)) kv es.
Proof.
  induction 1 as [|p e kv es [Hpe _] _ IH]; intros Ha; [constructor|].
  cbn [forallb] in Ha. apply andb_true_iff in Ha. destruct Ha as [Ha Ha'].
  constructor; [exact (Hpe d Ha)|exact (IH Ha')].
Qed.

(* finish_mapping: the conjunction in written order *)
Lemma finish_ok fu kv es e :
  Forall2 (entry_ok fu) kv es -> finish_mapping es = Ok e ->
  (forall d : doc, forallb (aok_entry fu d) kv = true ->
     solve_body o e (pure_doc d) =
     Ok (first_non_true (map (entry_sem o ic (sem_mapping o ic fu) d) kv))) /\
  (is_allor e = true -> d28_entry o YNull (YMap kv) = true).
Proof.
  intros HF Hfin.
  assert (Hgroup : forall d : doc, forallb (aok_entry fu d) kv = true ->
             solve_body o (EGroup BAnd es) (pure_doc d) =
             Ok (first_non_true (map (entry_sem o ic (sem_mapping o ic fu) d) kv))).
  { intros d Ha. rewrite solve_and_group. apply (and_fold_F2 o).
    exact (entry_ok_solve fu d kv es HF Ha). }
  unfold finish_mapping in Hfin.
  destruct HF as [|p x kv es [Hx Hsh] HF]; [discriminate Hfin|].
  destruct HF as [|p2 x2 kv es Hx2 HF].
  - inversion Hfin; subst. split.
    + intros d Ha. cbn [map]. rewrite fnt_single. apply Hx.
      cbn [forallb] in Ha. apply andb_true_iff in Ha. exact (proj1 Ha).
    + intros Hall. destruct p as [k v]. unfold entry_shape in Hsh. cbn [fst snd] in Hsh.
      destruct v as [| | | | |vs| |];
        try (rewrite (eshape_not_allor _ Hsh) in Hall; discriminate Hall).
      destruct Hsh as [HA _]. cbn [d28_entry].
      destruct (key_mod o k) as [[]|] eqn:Ek; try reflexivity;
        rewrite HA in Hall by discriminate; discriminate Hall.
  - inversion Hfin; subst. split; [exact Hgroup|intros H; discriminate H].
Qed.

Lemma mapping_ok_all : forall n, mapping_ok n.
Proof.
  induction n as [|fu IH]; intros y e Hdep Hs Hx Hp Hd10; [discriminate Hs|].
  destruct y as [| | | | | |kv|]; try discriminate Hs.
  destruct (mapping_entries fu kv e IH Hdep Hs Hx Hp Hd10) as (es & Hfin & HF).
  destruct (finish_ok fu kv es e HF Hfin) as [Hsolve Hnm].
  split; [|exact Hnm].
  intros d Ha. rewrite sem_mapping_S. apply Hsolve. rewrite <- arrays_ok_S. exact Ha.
Qed.

Lemma mapping_refines_all_sec : forall y e,
  any_mapping (S (yaml_depth y)) y = true -> excl_free2 o y ->
  parse_mapping o ic y = Ok e -> exists_sub d10_here false e = false ->
  forall d : doc, arrays_ok o (S (yaml_depth y)) y d = true ->
    solve_body o e (pure_doc d) = Ok (sem_mapping o ic (S (yaml_depth y)) y d).
Proof.
  intros y e Hs Hx Hp Hd10.
  exact (proj1 (mapping_ok_all (S (yaml_depth y)) y e (Nat.lt_succ_diag_r _) Hs Hx Hp Hd10)).
Qed.

(* ====================================================================================== *)
(* (4) identifiers                                                                         *)
(* ====================================================================================== *)

Lemma identifier_map_d kv b (d : doc) :
  any_mapping (S (yaml_depth (YMap kv))) (YMap kv) = true -> excl_free2 o (YMap kv) ->
  parse_mapping o ic (YMap kv) = Ok b -> exists_sub d10_here false b = false ->
  arrays_ok o (S (yaml_depth (YMap kv))) (YMap kv) d = true ->
  solve_body o b (pure_doc d) = Ok (sem_identifier o ic (YMap kv) d) /\
  (single_entry_list (YMap kv) = false -> C02_full.ident_entries_d o ic (YMap kv) b d).
Proof.
  intros Hs Hx Hp Hd10 Ha. unfold excl_free2 in Hx.
  remember (yaml_depth (YMap kv)) as fu eqn:Efu.
  assert (Hdep : yaml_depth (YMap kv) < S fu) by lia.
  destruct (mapping_entries fu kv b (mapping_ok_all fu) Hdep Hs Hx Hp Hd10) as (es & Hfin & HF).
  destruct (finish_ok fu kv es b HF Hfin) as [Hsolve _].
  rewrite arrays_ok_S in Ha.
  assert (Hwhole : solve_body o b (pure_doc d) = Ok (sem_identifier o ic (YMap kv) d)).
  { unfold sem_identifier, sem_identifier_members. rewrite max3_single.
    rewrite <- Efu. rewrite sem_mapping_S. apply Hsolve. exact Ha. }
  split; [exact Hwhole|]. intros Hsel.
  pose proof (entry_ok_solve fu d kv es HF Ha) as HFd.
  clear Hsolve Hs Hx Hp Hd10 Hdep.
  unfold finish_mapping in Hfin.
  destruct HF as [|p x kv1 es1 [Hx Hsh] HF]; [discriminate Hfin|].
  destruct HF as [|p2 x2 kv2 es2 Hx2 HF].
  - (* one entry: the identifier is that entry *)
    inversion Hfin; subst b.
    assert (Hent : sem_entries o ic (YMap [p]) d = [sem_identifier o ic (YMap [p]) d]).
    { unfold sem_entries, sem_identifier, sem_identifier_members. cbn [map].
      rewrite max3_single. reflexivity. }
    destruct p as [k v]. unfold entry_shape in Hsh. cbn [fst snd] in Hsh.
    assert (Hcases : C02_full.one_shape x \/ eshape x = true).
    { destruct v as [| | | | |vs| |]; try (right; exact Hsh). left.
      destruct Hsh as [_ HB]. apply HB.
      destruct vs as [|v1 [|v2 vs]]; cbn [length]; try lia. discriminate Hsel. }
    destruct Hcases as [Hone|Hesh].
    + destruct x as [op g| | | | | | | | | | | | |s f0 c]; cbn [C02_full.one_shape] in Hone;
        cbn [C02_full.ident_entries_d]; try exact Hent; try contradiction.
      * destruct Hone as [-> [x' ->]]. split; [right; reflexivity|].
        rewrite Hent. constructor; [|constructor]. apply C02_full.or_single. exact Hwhole.
      * destruct s; try exact Hent; (split; [exact Hone|exact Hent]).
    + destruct x; cbn [eshape] in Hesh; try discriminate Hesh; cbn [C02_full.ident_entries_d];
        try exact Hent.
      destruct s; try discriminate Hesh; try exact Hent.
      split; [|exact Hent]. apply Nat.eqb_eq. exact Hesh.
  - (* two or more entries: their conjunction *)
    inversion Hfin; subst b. cbn [C02_full.ident_entries_d].
    split; [left; reflexivity|].
    unfold sem_entries. rewrite <- Efu.
    apply (F2_flip_map
             (fun p e => solve_body o e (pure_doc d)
                         = Ok (entry_sem o ic (sem_mapping o ic fu) d p))
             (fun x r => solve_body o x (pure_doc d) = Ok r)
             (fun p => sem_mapping o ic (S fu) (YMap [p]) d)).
    + intros q z Hz. rewrite sem_mapping_single. exact Hz.
    + exact HFd.
Qed.

Lemma identifier_all_d : forall y b (d : doc),
  any_identifier y = true -> excl_free2 o y ->
  parse_identifier o ic y = Ok b -> exists_sub d10_here false b = false ->
  arrays_ok o (S (S (yaml_depth y))) y d = true ->
  solve_body o b (pure_doc d) = Ok (sem_identifier o ic y d) /\
  (single_entry_list y = false -> C02_full.ident_entries_d o ic y b d).
Proof.
  intros y b d Hs Hx Hp Hd10 Ha.
  destruct y as [| | | | |l|kv|]; try discriminate Hs.
  - (* a sequence of mappings: their disjunction *)
    cbn [any_identifier] in Hs. cbn [parse_identifier] in Hp.
    destruct l as [|first others]; [discriminate Hp|].
    assert (Hmem : forall m e, In m (first :: others) -> parse_mapping o ic m = Ok e ->
                   exists_sub d10_here false e = false ->
                   solve_body o e (pure_doc d) = Ok (sem_mapping o ic (S (yaml_depth m)) m d)).
    { intros m e Hin Hpm Hde. pose proof (depth_seq_member _ _ Hin) as Hdep.
      apply mapping_refines_all_sec; [| |exact Hpm|exact Hde|].
      - rewrite forallb_forall in Hs. exact (Hs m Hin).
      - unfold excl_free2 in Hx |- *. cbn [entry_exists] in Hx.
        apply (entry_exists_anti _ (S (yaml_depth m)) (yaml_depth (YSeq (first :: others))));
          [lia|].
        exact (C02_full.existsb_false_in _ _ m Hx Hin).
      - rewrite arrays_ok_S_seq in Ha.
        apply (arrays_ok_anti (S (yaml_depth m)) (S (yaml_depth (YSeq (first :: others)))));
          [lia|].
        rewrite forallb_forall in Ha. exact (Ha m Hin). }
    destruct (ParseMap.is_ymap first) eqn:Hf; [|discriminate Hp].
    apply bind_ok_inv in Hp. destruct Hp as (e0 & H0 & Hp).
    apply bind_ok_inv in Hp. destruct Hp as (es & Hes & Hp). inversion Hp; subst b.
    apply mapM_F2 in Hes.
    destruct (C02_full.exists_sub_parts _ _ _ Hd10) as [_ Hd10'].
    assert (HF : Forall2 (fun m e => solve_body o e (pure_doc d) =
                                     Ok (sem_mapping o ic (S (yaml_depth m)) m d))
                         (first :: others) (e0 :: es)).
    { apply (C02_full.F2_impl_in2 (fun v e => parse_mapping o ic v = Ok e)).
      - intros m e Hin Hin' Hme. apply Hmem; [exact Hin|exact Hme|].
        exact (C02_full.existsb_false_in _ _ e Hd10' Hin').
      - constructor; [exact H0|].
        apply (F2_impl (fun v e => (if ParseMap.is_ymap v then parse_mapping o ic v
                                    else Err EInvalidIdent) = Ok e)); [|exact Hes].
        intros m e Hme. destruct (ParseMap.is_ymap m); [exact Hme|discriminate Hme]. }
    split.
    + rewrite solve_or_group.
      rewrite (or_fold_F2 o (fun m => sem_mapping o ic (S (yaml_depth m)) m d) (pure_doc d)
                 (first :: others) (e0 :: es) HF M) by discriminate.
      unfold sem_identifier, sem_identifier_members.
      destruct (max3 (map (fun m => sem_mapping o ic (S (yaml_depth m)) m d) (first :: others)));
        reflexivity.
    + intros _. cbn [C02_full.ident_entries_d]. split; [right; reflexivity|].
      unfold sem_entries, sem_identifier_members.
      apply (F2_flip_map
               (fun m e => solve_body o e (pure_doc d) =
                           Ok (sem_mapping o ic (S (yaml_depth m)) m d))
               (fun x r => solve_body o x (pure_doc d) = Ok r)
               (fun m => sem_mapping o ic (S (yaml_depth m)) m d)).
      * intros m e Hme. exact Hme.
      * exact HF.
  - (* a mapping *)
    cbn [any_identifier] in Hs. cbn [parse_identifier] in Hp.
    apply identifier_map_d; try assumption.
    apply (arrays_ok_anti _ (S (S (yaml_depth (YMap kv))))); [lia|exact Ha].
Qed.

End SemA.

(* statement 1 of Properties/C02_all.v *)
Lemma mapping_refines_all : forall o ic y e,
  any_mapping (S (yaml_depth y)) y = true -> excl_free2 o y ->
  parse_mapping o ic y = Ok e -> exists_sub d10_here false e = false ->
  forall d : doc, arrays_ok o (S (yaml_depth y)) y d = true ->
    solve_body o e (pure_doc d) = Ok (sem_mapping o ic (S (yaml_depth y)) y d).
Proof. exact mapping_refines_all_sec. Qed.

(* statement 2 of Properties/C02_all.v *)
Lemma identifier_refines_all : forall o ic y b,
  any_identifier y = true -> excl_free2 o y ->
  parse_identifier o ic y = Ok b -> exists_sub d10_here false b = false ->
  forall d : doc, arrays_ok o (S (S (yaml_depth y))) y d = true ->
    solve_body o b (pure_doc d) = Ok (sem_identifier o ic y d).
Proof.
  intros o ic y b Hs Hx Hp Hd10 d Ha.
  exact (proj1 (identifier_all_d o ic y b d Hs Hx Hp Hd10 Ha)).
Qed.

(* ====================================================================================== *)
(* (5) whole rules                                                                         *)
(* ====================================================================================== *)

Lemma counted_same : forall i e, C02_full.counted i e = counted i e.
Proof. reflexivity. Qed.

(* statement 3 of Properties/C02_all.v *)
Lemma rule_refines_all : forall o ic kv dkv r (d : doc),
  ylookup key_detection kv = Some (YMap dkv) ->
  forallb (fun p : yaml * yaml => match fst p with YStr _ => true | _ => false end) dkv = true ->
  NoDup (map fst (raw_identifiers dkv)) ->
  (forall i y, In (i, y) (raw_identifiers dkv) ->
     any_identifier y = true /\ excl_free2 o y /\
     arrays_ok o (S (S (yaml_depth y))) y d = true /\
     (counted i (d_expr (r_det r)) = true -> single_entry_list y = false)) ->
  load_rule o ic (YMap kv) = Ok r ->
  known_d10 (r_det r) = false ->
  exists r3, solve_rule3 o (r_det r) (pure_doc d) = Ok r3 /\
             sem_rule o ic (YMap kv) d = Some r3 /\
             (matches o r d = Ok true <-> r3 = T).
Proof.
  intros o ic kv dkv r d Hdet Hkeys _ Hsimple Hload Hk10.
  (* the detection the rule was loaded with *)
  assert (Hdt : load_detection o ic (YMap dkv) = Ok (r_det r)).
  { unfold load_rule in Hload. cbn [untag] in Hload.
    apply C03.bind_ok_inv in Hload. destruct Hload as (opt & _ & Hload).
    apply C03.bind_ok_inv in Hload. destruct Hload as (det & Hd & Hload).
    apply C03.bind_ok_inv in Hload. destruct Hload as (tp & _ & Hload).
    apply C03.bind_ok_inv in Hload. destruct Hload as (tn & _ & Hload).
    inversion Hload; subst. cbn [r_det]. rewrite Hdet in Hd. exact Hd. }
  pose proof (C03.load_detection_wf _ _ _ _ Hdt) as Hwf.
  unfold wf_det in Hwf. apply andb_prop in Hwf. destruct Hwf as [Hwf _].
  set (dt := r_det r) in *.
  (* the pieces of load_detection *)
  pose proof Hdt as H. unfold load_detection in H. cbn [untag] in H.
  apply C03.bind_ok_inv in H. destruct H as ([cond ids] & Hent & H).
  destruct cond as [rawc|]; [|discriminate H].
  apply C03.bind_ok_inv in H. destruct H as (ts & _ & H).
  destruct (idents_known ids None None ts); [|discriminate H]. cbn [negb] in H.
  apply C03.bind_ok_inv in H. destruct H as (e & He & H). apply C03.as_rule_err_ok in He.
  destruct (is_solvable e) eqn:Es; [|discriminate H].
  assert (Edt : dt = {| d_expr := e; d_ids := ids |}) by (inversion H; reflexivity).
  rewrite Edt in Hwf. cbn [d_expr d_ids] in Hwf.
  unfold known_d10 in Hk10. rewrite Edt in Hk10. cbn [d_expr d_ids] in Hk10.
  apply orb_false_elim in Hk10. destruct Hk10 as [_ Hk10].
  destruct (C02_cond.load_entries_rel o ic dkv None [] _ _ Hkeys Hent) as (l & Hl & HF).
  cbn [app] in Hl. subst l.
  assert (Hids : C02_full.ids_ok o ic (raw_identifiers dkv) ids d e).
  { intros i. pose proof (C02_cond.lookup_rel o ic _ _ HF i) as Hi.
    destruct (lookup i (raw_identifiers dkv)) as [y|], (lookup i ids) as [b|] eqn:Elb; try exact Hi.
    destruct Hi as [Hin Hp]. destruct (Hsimple i y Hin) as (Hs & Hx & Ha & Hc).
    rewrite Edt in Hc. cbn [d_expr] in Hc.
    assert (Hd10 : exists_sub d10_here false b = false).
    { destruct (C02_full.lookup_in i ids b Elb) as [k Hk].
      exact (C02_full.existsb_false_in _ _ (k, b) Hk10 Hk). }
    destruct (identifier_all_d o ic y b d Hs Hx Hp Hd10 Ha) as [G1 G2].
    split; [exact G1|]. intros G. rewrite counted_same in G. exact (G2 (Hc G)). }
  pose proof (C02_full.cond_refines_counted o ic ids (raw_identifiers dkv) d e Hids
                (C02_cond.loaded_condition_thresholds _ _ He)
                (C02_cond.loaded_condition_shape _ _ He Es) Hwf) as Hsolve.
  exists (sem_cond o ic (raw_identifiers dkv) e d). split; [|split].
  - unfold solve_rule3. rewrite Edt. cbn [d_expr d_ids]. exact Hsolve.
  - unfold sem_rule. cbn [untag]. rewrite Hdet. cbn [option_map untag]. rewrite Hdt.
    rewrite Edt. reflexivity.
  - unfold matches, solve_rule3. fold dt. rewrite Edt. cbn [d_expr d_ids]. rewrite Hsolve. cbn [bind].
    destruct (sem_cond o ic (raw_identifiers dkv) e d); split; intros G; try reflexivity; discriminate G.
Qed.

Check mapping_refines_all.
Check identifier_refines_all.
Check rule_refines_all.
Print Assumptions mapping_refines_all.
Print Assumptions identifier_refines_all.
Print Assumptions rule_refines_all.

(* ====================================================================================== *)
(* (6) without the exclusion of D28 in LIST MEMBERS (d28_member_entry) the statement is     *)
(*     false: `f: [{all(k): [1, 2]}]` on {f: [{k: 1}, {k: 2}]} -- the one-member list is    *)
(*     unwrapped to Nested(f, all-of-or), whose array path asks each member to be satisfied *)
(*     by SOME element; the reference asks some element to satisfy the block                *)
(* ====================================================================================== *)
Definition cx_o : oracles :=
  {| re_valid := fun _ _ => true; re_match := fun _ _ _ => false; f64_parse := fun _ => None;
     f64_show := fun _ => []; uni_alnum := fun _ => false; uni_num := fun _ => false |}.
(* f: [{all(k): [1, 2]}] *)
Definition cx_y : yaml :=
  YMap [(YStr [102%N], YSeq [YMap [(YStr [97;108;108;40;107;41]%N, YSeq [YInt 1; YInt 2])]])].
Definition cx_e : expr :=
  ENested [102%N] (EMatch MAll (EGroup BOr [EBexp (EField [107%N]) BEqual (EInt 1);
                                            EBexp (EField [107%N]) BEqual (EInt 2)])).
(* {f: [{k: 1}, {k: 2}]} *)
Definition cx_d : doc :=
  fun k => if str_eqb k [102%N] then Some (VArr [VObj [([107%N], VInt 1)]; VObj [([107%N], VInt 2)]])
           else None.

Lemma cx_facts :
  parse_mapping cx_o false cx_y = Ok cx_e /\
  any_mapping (S (yaml_depth cx_y)) cx_y = true /\
  entry_exists (S (yaml_depth cx_y))
    (fun k v => excluded_entry cx_o k v || d32_entry cx_o k v || d28_entry cx_o k v) cx_y = false /\
  exists_sub d10_here false cx_e = false /\
  arrays_ok cx_o (S (yaml_depth cx_y)) cx_y cx_d = true /\
  solve_body cx_o cx_e (pure_doc cx_d) = Ok T /\
  sem_mapping cx_o false (S (yaml_depth cx_y)) cx_y cx_d = F /\
  (* the new disjunct is what flags it *)
  entry_exists (S (yaml_depth cx_y)) (excluded_entry2 cx_o) cx_y = true.
Proof. repeat split; vm_compute; reflexivity. Qed.

(* the statement with the exclusions of C02_full.v only (excluded_entry2 without its last disjunct) *)
Lemma mapping_refines_all_refuted :
  ~ (forall o ic y e,
       any_mapping (S (yaml_depth y)) y = true ->
       entry_exists (S (yaml_depth y))
         (fun k v => excluded_entry o k v || d32_entry o k v || d28_entry o k v) y = false ->
       parse_mapping o ic y = Ok e -> exists_sub d10_here false e = false ->
       forall d : doc, arrays_ok o (S (yaml_depth y)) y d = true ->
         solve_body o e (pure_doc d) = Ok (sem_mapping o ic (S (yaml_depth y)) y d)).
Proof.
  intros H.
  destruct cx_facts as (Hp & Hs & Hx & Hd10 & Ha & Hsolve & Hsem & _).
  specialize (H cx_o false cx_y cx_e Hs Hx Hp Hd10 cx_d Ha).
  rewrite Hsolve, Hsem in H. discriminate H.
Qed.

Lemma identifier_refines_all_refuted :
  ~ (forall o ic y b,
       any_identifier y = true ->
       entry_exists (S (yaml_depth y))
         (fun k v => excluded_entry o k v || d32_entry o k v || d28_entry o k v) y = false ->
       parse_identifier o ic y = Ok b -> exists_sub d10_here false b = false ->
       forall d : doc, arrays_ok o (S (S (yaml_depth y))) y d = true ->
         solve_body o b (pure_doc d) = Ok (sem_identifier o ic y d)).
Proof.
  intros H.
  destruct cx_facts as (Hp & Hs & Hx & Hd10 & _ & Hsolve & _).
  assert (Ha : arrays_ok cx_o (S (S (yaml_depth cx_y))) cx_y cx_d = true) by (vm_compute; reflexivity).
  assert (Hsem : sem_identifier cx_o false cx_y cx_d = F) by (vm_compute; reflexivity).
  specialize (H cx_o false cx_y cx_e Hs Hx Hp Hd10 cx_d Ha).
  rewrite Hsolve, Hsem in H. discriminate H.
Qed.

(* the same block as the identifier `a` of a rule with `condition: a` *)
Definition cx_dkv : list (yaml * yaml) := [(YStr [97%N], cx_y); (YStr cond_key, YStr [97%N])].
Definition cx_kv : list (yaml * yaml) :=
  [(YStr key_detection, YMap cx_dkv); (YStr key_tp, YSeq []); (YStr key_tn, YSeq [])].
Definition cx_r : rule :=
  {| r_optimised := false; r_det := {| d_expr := EIdent [97%N]; d_ids := [([97%N], cx_e)] |};
     r_tp := []; r_tn := [] |}.

Lemma rule_refines_all_refuted :
  ~ (forall o ic kv dkv r (d : doc),
       ylookup key_detection kv = Some (YMap dkv) ->
       forallb (fun p : yaml * yaml => match fst p with YStr _ => true | _ => false end) dkv = true ->
       NoDup (map fst (raw_identifiers dkv)) ->
       (forall i y, In (i, y) (raw_identifiers dkv) ->
          any_identifier y = true /\
          entry_exists (S (yaml_depth y))
            (fun k v => excluded_entry o k v || d32_entry o k v || d28_entry o k v) y = false /\
          arrays_ok o (S (S (yaml_depth y))) y d = true /\
          (counted i (d_expr (r_det r)) = true -> single_entry_list y = false)) ->
       load_rule o ic (YMap kv) = Ok r ->
       known_d10 (r_det r) = false ->
       exists r3, solve_rule3 o (r_det r) (pure_doc d) = Ok r3 /\
                  sem_rule o ic (YMap kv) d = Some r3 /\
                  (matches o r d = Ok true <-> r3 = T)).
Proof.
  intros H.
  assert (Hload : load_rule cx_o false (YMap cx_kv) = Ok cx_r) by (vm_compute; reflexivity).
  assert (Hnd : NoDup (map fst (raw_identifiers cx_dkv))).
  { change (NoDup [[97%N]]). constructor; [intros []|constructor]. }
  assert (Hids : forall i y, In (i, y) (raw_identifiers cx_dkv) ->
            any_identifier y = true /\
            entry_exists (S (yaml_depth y))
              (fun k v => excluded_entry cx_o k v || d32_entry cx_o k v || d28_entry cx_o k v) y = false /\
            arrays_ok cx_o (S (S (yaml_depth y))) y cx_d = true /\
            (counted i (d_expr (r_det cx_r)) = true -> single_entry_list y = false)).
  { intros i y Hin. change (In (i, y) [([97%N], cx_y)]) in Hin.
    destruct Hin as [E|[]]. inversion E; subst i y.
    split; [vm_compute; reflexivity|]. split; [vm_compute; reflexivity|].
    split; [vm_compute; reflexivity|]. intros _. vm_compute. reflexivity. }
  destruct (H cx_o false cx_kv cx_dkv cx_r cx_d eq_refl eq_refl Hnd Hids Hload eq_refl)
    as (r3 & H1 & H2 & _).
  assert (E1 : solve_rule3 cx_o (r_det cx_r) (pure_doc cx_d) = Ok T) by (vm_compute; reflexivity).
  assert (E2 : sem_rule cx_o false (YMap cx_kv) cx_d = Some F) by (vm_compute; reflexivity).
  rewrite E1 in H1. rewrite E2 in H2. inversion H1. inversion H2. congruence.
Qed.

(* ====================================================================================== *)
(* (7) non-vacuity: lists of blocks under a plain key, all() and of(), a nested list of     *)
(*     blocks, over an array of objects and over an object                                  *)
(* ====================================================================================== *)
Lemma mapping_all_example :
  (* g: [ {f: 'a*', all(h): [ {p: 1}, {q: 2} ]}, {of(h, 2): [ {p: 1}, {q: 3}, {q: 2} ]} ] *)
  let y := YMap [(YStr [103%N],
                  YSeq [YMap [(YStr [102%N], YStr [97;42]%N);
                              (YStr [97;108;108;40;104;41]%N,
                               YSeq [YMap [(YStr [112%N], YInt 1)]; YMap [(YStr [113%N], YInt 2)]])];
                        YMap [(YStr [111;102;40;104;44;32;50;41]%N,
                               YSeq [YMap [(YStr [112%N], YInt 1)]; YMap [(YStr [113%N], YInt 3)];
                                     YMap [(YStr [113%N], YInt 2)]])]])] in
  let h1 := VObj [([112%N], VInt 1); ([113%N], VInt 2)] in
  (* {g: [null, {f: "ab", h: {p: 1, q: 2}}]} *)
  let d1 : doc := fun k => if str_eqb k [103%N]
                           then Some (VArr [VNull; VObj [([102%N], VStr [97;98]%N); ([104%N], h1)]])
                           else None in
  (* {g: {f: "b", h: [{p: 1}, {q: 2}]}} *)
  let d2 : doc := fun k => if str_eqb k [103%N]
                           then Some (VObj [([102%N], VStr [98]%N);
                                            ([104%N], VArr [VObj [([112%N], VInt 1)]; VObj [([113%N], VInt 2)]])])
                           else None in
  (* {g: {h: {p: 2}}} *)
  let d3 : doc := fun k => if str_eqb k [103%N]
                           then Some (VObj [([104%N], VObj [([112%N], VInt 2)])])
                           else None in
  exists e, parse_mapping cx_o false y = Ok e /\
            any_mapping (S (yaml_depth y)) y = true /\ excl_free2 cx_o y /\
            exists_sub d10_here false e = false /\
            arrays_ok cx_o (S (yaml_depth y)) y d1 = true /\ arrays_ok cx_o (S (yaml_depth y)) y d2 = true /\
            arrays_ok cx_o (S (yaml_depth y)) y d3 = true /\
            solve_body cx_o e (pure_doc d1) = Ok T /\ solve_body cx_o e (pure_doc d2) = Ok T /\
            solve_body cx_o e (pure_doc d3) = Ok F.
Proof. cbv zeta. eexists. repeat split; vm_compute; reflexivity. Qed.
