(* C01  Optimisation never changes a verdict: proofs.

   Proved as stated in Properties/C01.v: rewrite_exact, exact_implies_verdict, refuted_D13,
   refuted_D16.  refuted_D14 is FALSE since crate fix D14 (shake_0 keeps the group a quantifier
   holds); fixed_D14 states what the same witness does now.
   False as stated (witnesses below, evaluated with vm_compute), proved with extra shape
   hypotheses under the name <name>_alt:
     coalesce_exact                  -> coalesce_exact_alt   (+ no_nested, cmp_leaves)
       witnesses: coalesce_exact_refuted, coalesce_exact_refuted_cmp
     shake0_exact                    -> shake0_exact_alt     (+ shx)
       witnesses: shake0_exact_refuted_nested, shake0_exact_refuted_empty_group,
                  shake0_exact_refuted_cmp_operand
     optimise_coalesce_rewrite_exact -> optimise_coalesce_rewrite_exact_alt
                                                            (+ no_nested, cmp_leaves on the condition)
       witness: optimise_coalesce_rewrite_exact_refuted *)
From TauModel Require Import Base Num Oracles Syntax Value Solver Rule Keys Optimiser Known.
From Coq Require Import Lia ZArith ZifyBool List Bool.
Import ListNotations.
From TauProofs Require Import C06.

(* ---- the helper definitions of Properties/C01.v, restated identically ---- *)
Definition H_strip (o : oracles) : Prop :=
  forall p ci h, re_valid o (strip_dotstar p) ci = true ->
                 re_match o (strip_dotstar p) ci h = re_match o p ci h.

Definition ids_wf (ids : list (str * expr)) : Prop :=
  forall i b, lookup i ids = Some b -> wf_body b = true.

Fixpoint head_neg (e : expr) : bool :=
  match e with
  | ENegate _ => true
  | EGroup _ [y] => head_neg y
  | _ => false
  end.

Definition quant_operand_ok (e : expr) : bool :=
  match e with
  | EGroup _ [_] => false
  | EBexp _ BAnd _ | EBexp _ BOr _ => false
  | _ => true
  end.

Fixpoint sh0 (e : expr) : bool :=
  match e with
  | EGroup _ l => forallb sh0 l
  | EBexp l _ r => sh0 l && sh0 r
  | EMatch _ e' => quant_operand_ok e' && sh0 e'
  | ENegate e' | ENested _ e' => sh0 e'
  | _ => true
  end.

Definition no_dneg (e : expr) : bool :=
  negb (exists_sub (fun _ x => match x with ENegate y => head_neg y | _ => false end) false e).

Definition o0 : oracles :=
  {| re_valid := fun _ _ => true; re_match := fun _ _ _ => false; f64_parse := fun _ => None;
     f64_show := fun _ => []; uni_alnum := fun _ => false; uni_num := fun _ => false |}.
Definition sw_only_shake : switches :=
  {| sw_coalesce := false; sw_shake := true; sw_rewrite := false; sw_matrix := false |}.
Definition sw_coalesce_shake : switches :=
  {| sw_coalesce := true; sw_shake := true; sw_rewrite := false; sw_matrix := false |}.
Definition mk_rule (e : expr) (ids : list (str * expr)) : rule :=
  {| r_optimised := false; r_det := {| d_expr := e; d_ids := ids |}; r_tp := []; r_tn := [] |}.


(* ---- extra shape predicates of the _alt statements ---- *)
(* the condition contains no nested block (the Pratt parser cannot build one) *)
Fixpoint no_nested (e : expr) : bool :=
  match e with
  | EGroup _ l => forallb no_nested l
  | EBexp l _ r => no_nested l && no_nested r
  | EMatch _ e' | ENegate e' => no_nested e'
  | ENested _ _ => false
  | _ => true
  end.

(* the operands of a comparison are leaves: constants, fields, casts (Pratt.led_check and
   ParseMap.cmp_expr build nothing else) *)
Fixpoint cmp_leaves (e : expr) : bool :=
  match e with
  | EGroup _ l => forallb cmp_leaves l
  | EBexp l s r => if is_and_or s then cmp_leaves l && cmp_leaves r
                   else negb (is_solvable l) && negb (is_solvable r)
  | EMatch _ e' | ENegate e' | ENested _ e' => cmp_leaves e'
  | _ => true
  end.

(* the extra shape conditions under which shake_0 is exact:
   - no empty group (an and/or chain over an empty group collapses to its other operand, which
     hides a double negation or a one-member list from head_neg / quant_operand_ok);
   - the operands of a comparison are leaves (shake_0 would unwrap a one-member group there);
   - the body of a nested block is not a chain of one-member groups around `all(<or-group>)`
     (unwrapping it would switch the solver to its per-member array path). *)
Fixpoint head_allor (e : expr) : bool :=
  match e with
  | EMatch MAll (EGroup BOr _) => true
  | EGroup _ [y] => head_allor y
  | _ => false
  end.

Definition nested_ok (e : expr) : bool :=
  match e with EGroup _ _ => negb (head_allor e) | _ => true end.

Fixpoint shx (e : expr) : bool :=
  match e with
  | EGroup _ l => match l with [] => false | _ => forallb shx l end
  | EBexp l s r => if is_and_or s then shx l && shx r
                   else negb (is_solvable l) && negb (is_solvable r)
  | EMatch _ e' | ENegate e' => shx e'
  | ENested _ e' => nested_ok e' && shx e'
  | _ => true
  end.

(* ================= infrastructure ================= *)

(* ---- induction on the size of an expression (expr is a nested type) ---- *)
Lemma size_ind (P : expr -> Prop) :
  (forall e, (forall e', (expr_size e' < expr_size e)%nat -> P e') -> P e) -> forall e, P e.
Proof.
  intros H e.
  assert (Hn : forall n e, (expr_size e < n)%nat -> P e).
  { induction n as [|n IH]; intros e0 Hlt; [lia|].
    apply H. intros e' Hlt'. apply IH. lia. }
  apply (Hn (S (expr_size e))). lia.
Qed.

Lemma size_sum_In : forall (l : list expr) x, In x l ->
  (expr_size x <= fold_right (fun y n => (expr_size y + n)%nat) 0%nat l)%nat.
Proof.
  induction l as [|y l IH]; intros x Hin; [destruct Hin|].
  cbn [fold_right]. destruct Hin as [->|Hin]; [lia|]. specialize (IH x Hin). lia.
Qed.

Lemma size_member : forall s l x, In x l -> (expr_size x < expr_size (EGroup s l))%nat.
Proof. intros s l x Hin. cbn [expr_size]. pose proof (size_sum_In l x Hin). lia. Qed.

Lemma size_pos : forall e, (1 <= expr_size e)%nat.
Proof. destruct e; cbn [expr_size]; lia. Qed.

(* ---- out / bind ---- *)
Lemma bind_ok_inv : forall {A B} (x : out A) (f : A -> out B) b,
  bind x f = Ok b -> exists a, x = Ok a /\ f a = Ok b.
Proof. intros A B [a|k|s] f b H; cbn [bind] in H; try discriminate. eauto. Qed.

Lemma bind_res_id : forall (x : out res3),
  bind x (fun r => match r with T => Ok T | F => Ok F | M => Ok M end) = x.
Proof. intros [[| |]|k|s]; reflexivity. Qed.

(* ---- mapM ---- *)
Lemma mapM_Forall2 : forall {A B} (f : A -> out B) l l',
  mapM f l = Ok l' -> Forall2 (fun x y => f x = Ok y) l l'.
Proof.
  intros A B f. induction l as [|x l IH]; intros l' H.
  - cbn in H. injection H as <-. constructor.
  - cbn in H. destruct (f x) as [y|k|s] eqn:Hx; try discriminate.
    fold (mapM f l) in H. destruct (mapM f l) as [ys|k|s] eqn:Hl; try discriminate.
    injection H as <-. constructor; [exact Hx|apply IH; reflexivity].
Qed.

Lemma mapM_ok : forall {A B} (f : A -> out B) l,
  (forall x, In x l -> exists y, f x = Ok y) -> exists l', mapM f l = Ok l'.
Proof.
  intros A B f. induction l as [|x l IH]; intros H.
  - exists []. reflexivity.
  - destruct (H x (or_introl eq_refl)) as [y Hy].
    destruct IH as [ys Hys]. { intros z Hz. apply H. right. exact Hz. }
    exists (y :: ys). cbn. rewrite Hy. fold (mapM f l). rewrite Hys. reflexivity.
Qed.

Lemma Forall2_In_impl : forall {A B} (R R' : A -> B -> Prop) l l',
  Forall2 R l l' -> (forall x y, In x l -> In y l' -> R x y -> R' x y) -> Forall2 R' l l'.
Proof.
  intros A B R R' l l' H. induction H as [|x y l l' Hxy Hl IH]; intros Himp; constructor.
  - apply Himp; [left; reflexivity|left; reflexivity|exact Hxy].
  - apply IH. intros a b Ha Hb. apply Himp; right; assumption.
Qed.

Lemma Forall2_map_r : forall {A B} (R : A -> B -> Prop) (f : A -> B) l,
  (forall x, In x l -> R x (f x)) -> Forall2 R l (map f l).
Proof.
  intros A B R f. induction l as [|x l IH]; intros H; cbn [map]; constructor.
  - apply H. left. reflexivity.
  - apply IH. intros y Hy. apply H. right. exact Hy.
Qed.

Lemma Forall2_length : forall {A B} (R : A -> B -> Prop) l l', Forall2 R l l' -> length l = length l'.
Proof. intros A B R l l' H. induction H; cbn [length]; congruence. Qed.

Lemma Forall2_forallb : forall {A B} (R : A -> B -> Prop) (p : B -> bool) l l',
  Forall2 R l l' -> (forall x y, In x l -> R x y -> p y = true) -> forallb p l' = true.
Proof.
  intros A B R p l l' H. induction H as [|x y l l' Hxy Hl IH]; intros Hp; [reflexivity|].
  cbn [forallb]. rewrite (Hp x y (or_introl eq_refl) Hxy). cbn [andb].
  apply IH. intros a b Ha. apply Hp. right. exact Ha.
Qed.

(* ---- the folds on two pointwise-equal member lists ---- *)
Section FoldF2.
Context {A B : Type} (f : A -> lazy3) (g : B -> lazy3).

Lemma and_fold_F2 : forall l l', Forall2 (fun x y => f x tt = g y tt) l l' ->
  and_fold (map f l) = and_fold (map g l').
Proof.
  intros l l' H. induction H as [|x y l l' Hxy Hl IH]; [reflexivity|].
  cbn [map and_fold]. rewrite Hxy, IH. reflexivity.
Qed.

Lemma or_fold_F2 : forall l l', Forall2 (fun x y => f x tt = g y tt) l l' ->
  forall acc, or_fold acc (map f l) = or_fold acc (map g l').
Proof.
  intros l l' H. induction H as [|x y l l' Hxy Hl IH]; intros acc; [reflexivity|].
  cbn [map or_fold]. rewrite Hxy.
  destruct (g y tt) as [r| |]; cbn [bind]; try reflexivity.
  destruct r; try reflexivity; apply IH.
Qed.

Lemma of0_fold_F2 : forall l l', Forall2 (fun x y => f x tt = g y tt) l l' ->
  forall acc, of0_fold acc (map f l) = of0_fold acc (map g l').
Proof.
  intros l l' H. induction H as [|x y l l' Hxy Hl IH]; intros acc; [reflexivity|].
  cbn [map of0_fold]. rewrite Hxy.
  destruct (g y tt) as [r| |]; cbn [bind]; try reflexivity.
  destruct r; try reflexivity; apply IH.
Qed.

Lemma ofn_fold_F2 : forall l l', Forall2 (fun x y => f x tt = g y tt) l l' ->
  forall c count acc, ofn_fold c count acc (map f l) = ofn_fold c count acc (map g l').
Proof.
  intros l l' H. induction H as [|x y l l' Hxy Hl IH]; intros c count acc; [reflexivity|].
  cbn [map ofn_fold]. rewrite Hxy.
  destruct (g y tt) as [r| |]; cbn [bind]; try reflexivity.
  destruct r; try apply IH.
  destruct (c <=? count + 1)%Z; [reflexivity|apply IH].
Qed.

Lemma of_fold_F2 : forall l l', Forall2 (fun x y => f x tt = g y tt) l l' ->
  forall c, of_fold c (map f l) = of_fold c (map g l').
Proof.
  intros l l' H c. unfold of_fold.
  destruct (c =? 0)%Z; [apply of0_fold_F2|apply ofn_fold_F2]; exact H.
Qed.
End FoldF2.

(* ---- searches on a field ---- *)
Lemma existsb_ext_all : forall {A} (p q : A -> bool) l, (forall x, p x = q x) -> existsb p l = existsb q l.
Proof. intros A p q l H. induction l as [|x l IH]; [reflexivity|]. cbn [existsb]. rewrite H, IH. reflexivity. Qed.

Lemma field_search_ext : forall o d f cast p q, (forall h, p h = q h) ->
  field_search o d f cast p = field_search o d f cast q.
Proof.
  intros o d f cast p q H. unfold field_search.
  destruct (d f) as [[v|]| |]; cbn [bind]; try reflexivity.
  f_equal. f_equal. unfold search_value.
  destruct v; try reflexivity; try (destruct cast; [|reflexivity]; destruct (cast_text _ _); [rewrite H|]; reflexivity).
  - rewrite H. reflexivity.
  - f_equal. apply existsb_ext_all. exact H.
Qed.

(* ---- the generic array path of Nested and its member / row paths ---- *)
Definition any_true (slv : docq -> out res3) : list (list (str * value)) -> out res3 :=
  fix any_true (objs : list (list (str * value))) : out res3 :=
    match objs with
    | [] => Ok F
    | kv :: rest =>
        do r <- slv (obj_doc kv);
        match r with T => Ok T | _ => any_true rest end
    end.

Lemma any_true_ext : forall s1 s2, (forall d, s1 d = s2 d) -> forall objs, any_true s1 objs = any_true s2 objs.
Proof.
  intros s1 s2 H. induction objs as [|kv rest IH]; [reflexivity|].
  cbn [any_true]. rewrite H, IH. reflexivity.
Qed.

Lemma some_object_ext : forall s1 s2 : cellfn, (forall d, s1 d = s2 d) ->
  forall objs acc, some_object s1 objs acc = some_object s2 objs acc.
Proof.
  intros s1 s2 H. induction objs as [|kv rest IH]; intros acc; [reflexivity|].
  cbn [some_object]. rewrite H.
  destruct (s2 (obj_doc kv)) as [r| |]; cbn [bind]; try reflexivity.
  destruct r; try reflexivity; apply IH.
Qed.

Lemma solve_nested_eq : forall o ids body f e d,
  solve o ids body (ENested f e) d =
  (do x <- d f;
   match x with
   | None => Ok M
   | Some (VObj kv) => solve o ids body e (obj_doc kv)
   | Some (VArr a) =>
       match e with
       | EMatch MAll (EGroup BOr members) =>
           and_fold (map (fun m (_ : unit) => some_object (fun d' => solve o ids body m d') (objects_of a) M) members)
       | EMatch MAll (EMatrix cols rows) =>
           and_fold (map (fun row (_ : unit) =>
                            pass_row_any cols (map (option_map (fun cell d' => solve o ids body cell d')) row) a) rows)
       | _ => any_true (solve o ids body e) (objects_of a)
       end
   | Some _ => Ok F
   end).
Proof. intros. reflexivity. Qed.

(* ---- matrix rows: extensionality in the cell functions ---- *)
Definition cell_rel (c1 c2 : option cellfn) : Prop :=
  match c1, c2 with
  | Some a, Some b => forall d, a d = b d
  | None, None => True
  | _, _ => False
  end.

Lemma row_cells_ext : forall d cols row1 row2, Forall2 cell_rel row1 row2 ->
  forall i cache, row_cells d cols i row1 cache = row_cells d cols i row2 cache.
Proof.
  intros d cols row1 row2 H. induction H as [|c1 c2 r1 r2 Hc Hr IH]; intros i cache; [reflexivity|].
  destruct c1 as [a|], c2 as [b|]; cbn [cell_rel] in Hc; try contradiction; cbn [row_cells].
  - destruct (nth_error cache i) as [slot|]; [|reflexivity].
    destruct (match slot with Some _ => _ | None => _ end) as [[cache'|]| |]; cbn [bind]; try reflexivity.
    rewrite Hc. destruct (b (cache_doc cache')) as [x| |]; cbn [bind]; try reflexivity.
    destruct x; try reflexivity. apply IH.
  - apply IH.
Qed.

Lemma matrix_or_ext : forall d cols rows1 rows2, Forall2 (Forall2 cell_rel) rows1 rows2 ->
  forall cache acc, matrix_or d cols rows1 cache acc = matrix_or d cols rows2 cache acc.
Proof.
  intros d cols rows1 rows2 H. induction H as [|r1 r2 l1 l2 Hr Hl IH]; intros cache acc; [reflexivity|].
  cbn [matrix_or]. rewrite (row_cells_ext d cols r1 r2 Hr).
  destruct (row_cells d cols 0 r2 cache) as [[hit cache']| |]; cbn [bind]; try reflexivity.
  destruct hit; try reflexivity; apply IH.
Qed.

Lemma matrix_all_ext : forall d cols rows1 rows2, Forall2 (Forall2 cell_rel) rows1 rows2 ->
  forall cache, matrix_all d cols rows1 cache = matrix_all d cols rows2 cache.
Proof.
  intros d cols rows1 rows2 H. induction H as [|r1 r2 l1 l2 Hr Hl IH]; intros cache; [reflexivity|].
  cbn [matrix_all]. rewrite (row_cells_ext d cols r1 r2 Hr).
  destruct (row_cells d cols 0 r2 cache) as [[hit cache']| |]; cbn [bind]; try reflexivity.
  destruct hit; try reflexivity; apply IH.
Qed.

Lemma matrix_of_ext : forall d cols rows1 rows2, Forall2 (Forall2 cell_rel) rows1 rows2 ->
  forall cache c hits acc, matrix_of d cols rows1 cache c hits acc = matrix_of d cols rows2 cache c hits acc.
Proof.
  intros d cols rows1 rows2 H. induction H as [|r1 r2 l1 l2 Hr Hl IH]; intros cache c hits acc; [reflexivity|].
  cbn [matrix_of]. rewrite (row_cells_ext d cols r1 r2 Hr).
  destruct (row_cells d cols 0 r2 cache) as [[hit cache']| |]; cbn [bind]; try reflexivity.
  destruct hit; try apply IH. destruct (c <=? hits + 1)%Z; [reflexivity|apply IH].
Qed.

Lemma pass_cells_ext : forall cols v row1 row2, Forall2 cell_rel row1 row2 ->
  forall i, pass_cells cols v i row1 = pass_cells cols v i row2.
Proof.
  intros cols v row1 row2 H. induction H as [|c1 c2 r1 r2 Hc Hr IH]; intros i; [reflexivity|].
  destruct c1 as [a|], c2 as [b|]; cbn [cell_rel] in Hc; try contradiction; cbn [pass_cells].
  - destruct v; try apply IH.
    destruct (nth_error cols i) as [col|]; [|reflexivity].
    rewrite Hc. destruct (b _) as [x| |]; cbn [bind]; try reflexivity.
    destruct x; try reflexivity. apply IH.
  - apply IH.
Qed.

Lemma pass_row_any_ext : forall cols row1 row2, Forall2 cell_rel row1 row2 ->
  forall elems, pass_row_any cols row1 elems = pass_row_any cols row2 elems.
Proof.
  intros cols row1 row2 H. induction elems as [|v rest IH]; [reflexivity|].
  cbn [pass_row_any]. rewrite (pass_cells_ext cols v row1 row2 H), IH. reflexivity.
Qed.

Lemma size_cell : forall cols rows row x, In row rows -> In (Some x) row ->
  (expr_size x < expr_size (EMatrix cols rows))%nat.
Proof.
  intros cols rows row x Hrow Hx. cbn [expr_size].
  enough (expr_size x <= fold_right (fun row n =>
                       (fold_right (fun c m => (match c with Some x => expr_size x | None => 1%nat end + m)%nat)
                                   0%nat row + n)%nat) 0%nat rows)%nat by lia.
  induction rows as [|r rows IH]; [destruct Hrow|].
  cbn [fold_right]. destruct Hrow as [->|Hrow].
  - clear IH. induction row as [|c row IH]; [destruct Hx|].
    cbn [fold_right]. destruct Hx as [->|Hx]; [lia|]. specialize (IH Hx). lia.
  - specialize (IH Hrow). lia.
Qed.

Lemma cells_rel_of : forall (F1 F2 : expr -> cellfn) rows,
  (forall row x, In row rows -> In (Some x) row -> forall d, F1 x d = F2 x d) ->
  Forall2 (Forall2 cell_rel) (map (map (option_map F1)) rows) (map (map (option_map F2)) rows).
Proof.
  intros F1 F2. induction rows as [|row rows IH]; intros H; cbn [map]; constructor.
  - assert (Hr : forall x, In (Some x) row -> forall d, F1 x d = F2 x d)
      by (intros x Hx; apply (H row x); [left; reflexivity|exact Hx]).
    clear - Hr. induction row as [|c row IHr]; cbn [map]; constructor.
    + destruct c as [x|]; cbn [option_map cell_rel]; [|exact I].
      apply Hr. left. reflexivity.
    + apply IHr. intros x Hx. apply Hr. right. exact Hx.
  - apply IH. intros row' x Hrow Hx. apply (H row' x); [right; exact Hrow|exact Hx].
Qed.

Lemma mapM_exists_F2 : forall {A B} (f : A -> out B) (Q : A -> B -> Prop) l,
  (forall x, In x l -> exists y, f x = Ok y /\ Q x y) ->
  exists l', mapM f l = Ok l' /\ Forall2 Q l l'.
Proof.
  intros A B f Q. induction l as [|x l IH]; intros H.
  - exists []. split; [reflexivity|constructor].
  - destruct (H x (or_introl eq_refl)) as [y [Hy HQ]].
    destruct IH as [ys [Hys HF]]. { intros z Hz. apply H. right. exact Hz. }
    exists (y :: ys). split; [|constructor; assumption].
    cbn. rewrite Hy. fold (mapM f l). rewrite Hys. reflexivity.
Qed.

(* ---- Optimiser.entries (fix D15/D20): an identifier body is optimised entry by entry ---- *)
Lemma entries_inv : forall (f : expr -> out expr) e e', entries f e = Ok e' ->
  match e with
  | EGroup s l => exists l', e' = EGroup s l' /\ Forall2 (fun x y => f x = Ok y) l l'
  | _ => f e = Ok e'
  end.
Proof.
  intros f e e' H. destruct e as [b l| | | | | | | | | | | | |]; cbn [entries] in H; try exact H.
  apply bind_ok_inv in H. destruct H as [l' [Hl H]]. injection H as <-.
  exists l'. split; [reflexivity|]. apply mapM_Forall2. exact Hl.
Qed.

Lemma entries_rel : forall (f : expr -> out expr) (P : expr -> Prop) (Q : expr -> expr -> Prop) e,
  (forall x, P x -> exists y, f x = Ok y /\ Q x y) ->
  match e with EGroup _ l => forall x, In x l -> P x | _ => P e end ->
  exists e', entries f e = Ok e' /\
    match e with
    | EGroup s l => exists l', e' = EGroup s l' /\ Forall2 Q l l'
    | _ => Q e e'
    end.
Proof.
  intros f P Q e Hf He. destruct e as [b l| | | | | | | | | | | | |]; try exact (Hf _ He).
  destruct (mapM_exists_F2 f Q l) as [l' [Hl HF]].
  { intros x Hx. apply Hf. apply He. exact Hx. }
  exists (EGroup b l'). cbn [entries]. rewrite Hl. cbn [bind]. split; [reflexivity|].
  exists l'. split; [reflexivity|exact HF].
Qed.

Lemma Forall2_flip' : forall {A B} (R : A -> B -> Prop) l l',
  Forall2 R l l' -> Forall2 (fun y x => R x y) l' l.
Proof. intros A B R l l' H. induction H; constructor; assumption. Qed.

Lemma forallb_In : forall {A} (p : A -> bool) l x, forallb p l = true -> In x l -> p x = true.
Proof. intros A p l x H Hin. rewrite forallb_forall in H. apply H. exact Hin. Qed.

(* ================= coalesce ================= *)

(* coalesce_exact as stated is false: inlining an or-group under all() under a nested block
   switches the solver to its per-member array path *)
Example coalesce_exact_refuted :
  let ids := [([88%N], EGroup BOr [ESearch (SExact [49%N]) [97%N] false;
                                   ESearch (SExact [50%N]) [98%N] false])] in
  let e := ENested [102%N] (EMatch MAll (EIdent [88%N])) in
  let d := pure_doc (fun k => if str_eqb k [102%N]
                     then Some (VArr [VObj [([97%N], VStr [49%N])]; VObj [([98%N], VStr [50%N])]])
                     else None) in
  ids_wf ids /\ wf_cond ids e = true /\
  exists e', coalesce ids e = Ok e' /\ solve_cond o0 ids e d = Ok F /\ solve_body o0 e' d = Ok T.
Proof.
  cbv zeta. split; [|split; [reflexivity|]].
  - intros i b H. cbn [lookup] in H. destruct (str_eqb i [88%N]); [|discriminate].
    injection H as <-. reflexivity.
  - eexists. split; [vm_compute; reflexivity|]. split; vm_compute; reflexivity.
Qed.

(* ... and wf_cond does not look into the operands of a comparison *)
Example coalesce_exact_refuted_cmp :
  ids_wf [] /\ wf_cond [] (EBexp (EIdent [88%N]) BEqual (EInt 1)) = true /\
  coalesce [] (EBexp (EIdent [88%N]) BEqual (EInt 1)) = Panic 48.
Proof. split; [intros i b H; discriminate|split; reflexivity]. Qed.

Lemma wf_body_all : forall o b d, wf_body b = true ->
  solve_body o (EMatch MAll b) d =
  match b with
  | EGroup _ g => and_fold (map (fun x (_ : unit) => solve_body o x d) g)
  | _ => match_all o (solve_body o) b d
  end.
Proof.
  intros o b d H. destruct b as [s l|l s r|b|f m|f|x|i|z|k e|cols rows|e|f e| |s f c];
    try discriminate; reflexivity.
Qed.

Lemma wf_body_of : forall o b d n, wf_body b = true ->
  solve_body o (EMatch (MOf n) b) d =
  match b with
  | EGroup _ g => of_fold n (map (fun x (_ : unit) => solve_body o x d) g)
  | _ => match_of o (solve_body o) b d n
  end.
Proof.
  intros o b d n H. destruct b as [s l|l s r|b|f m|f|x|i|z|k e|cols rows|e|f e| |s f c];
    try discriminate; reflexivity.
Qed.

Section Coalesce.
Variable o : oracles.
Variable ids : list (str * expr).
Hypothesis Hids : ids_wf ids.

Lemma coalesce_sem : forall e,
  wf_cond ids e = true -> no_nested e = true -> cmp_leaves e = true ->
  exists e', coalesce ids e = Ok e' /\ wf_body e' = true /\
             forall d, solve_body o e' d = solve_cond o ids e d.
Proof.
  induction e as [e IH] using size_ind. intros Hwf Hnn Hcl.
  (* members of a group *)
  assert (Hmem : forall s l, (expr_size (EGroup s l) <= expr_size e)%nat ->
            forallb (wf_cond ids) l = true -> forallb no_nested l = true ->
            forallb cmp_leaves l = true ->
            exists l', mapM (fun x => coalesce ids x) l = Ok l' /\
                       Forall2 (fun x y => wf_body y = true /\
                                           forall d, solve_body o y d = solve_cond o ids x d) l l').
  { intros s l Hsz H1 H2 H3. apply mapM_exists_F2. intros x Hx.
    destruct (IH x) as [y [Hy [Hwy Hsy]]].
    - pose proof (size_member s l x Hx). lia.
    - apply (forallb_In _ l x H1 Hx).
    - apply (forallb_In _ l x H2 Hx).
    - apply (forallb_In _ l x H3 Hx).
    - exists y. auto. }
  assert (Hfold : forall (l l' : list expr) d,
            Forall2 (fun x y => wf_body y = true /\
                                forall d, solve_body o y d = solve_cond o ids x d) l l' ->
            Forall2 (fun y x => (fun (y : expr) (_ : unit) => solve o [] (fun _ _ => Panic 591) y d) y tt =
                                (fun (x : expr) (_ : unit) => solve o ids (solve_body o) x d) x tt) l' l).
  { intros l l' d H. apply Forall2_flip'. eapply Forall2_In_impl; [exact H|].
    intros x y _ _ [_ Hs]. apply Hs. }
  assert (Hwfl : forall (l l' : list expr),
            Forall2 (fun x y => wf_body y = true /\
                                forall d, solve_body o y d = solve_cond o ids x d) l l' ->
            forallb wf_body l' = true).
  { intros l l' H. eapply Forall2_forallb; [exact H|]. intros x y _ [Hw _]. exact Hw. }
  destruct e as [s l|l s r|b|f m|f|x|i|z|k e|cols rows|e|f e| |s f c]; try discriminate.
  - (* EGroup *)
    cbn [wf_cond no_nested cmp_leaves] in Hwf, Hnn, Hcl.
    apply andb_true_iff in Hwf. destruct Hwf as [Hs Hwf].
    destruct (Hmem s l (le_n _) Hwf Hnn Hcl) as [l' [Hl' HF]].
    exists (EGroup s l'). cbn [coalesce]. rewrite Hl'. cbn [bind]. split; [reflexivity|]. split.
    + cbn [wf_body]. rewrite Hs, (Hwfl l l' HF). reflexivity.
    + intros d. unfold solve_body, solve_cond. destruct s; try discriminate; cbn [solve].
      * apply and_fold_F2. apply Hfold. exact HF.
      * apply or_fold_F2. apply Hfold. exact HF.
  - (* EBexp *)
    cbn [wf_cond no_nested cmp_leaves] in Hwf, Hnn, Hcl.
    destruct (is_and_or_op s) eqn:Hs.
    + replace (is_and_or s) with true in Hcl by (destruct s; try discriminate; reflexivity).
      apply andb_true_iff in Hwf. destruct Hwf as [Hwl Hwr].
      apply andb_true_iff in Hnn. destruct Hnn as [Hnl Hnr].
      apply andb_true_iff in Hcl. destruct Hcl as [Hcl Hcr].
      destruct (IH l) as [l' [Hl' [Hwl' Hsl]]]; try assumption; [cbn [expr_size]; lia|].
      destruct (IH r) as [r' [Hr' [Hwr' Hsr]]]; try assumption; [cbn [expr_size]; lia|].
      exists (EBexp l' s r'). cbn [coalesce]. rewrite Hl', Hr'. cbn [bind]. split; [reflexivity|]. split.
      * cbn [wf_body]. rewrite Hs, Hwl', Hwr'. reflexivity.
      * intros d. unfold solve_body, solve_cond in *.
        destruct s; try discriminate; cbn [solve].
        -- unfold and2. rewrite Hsl, Hsr. reflexivity.
        -- unfold or2. rewrite Hsl, Hsr. reflexivity.
    + replace (is_and_or s) with false in Hcl by (destruct s; try discriminate; reflexivity).
      apply andb_true_iff in Hcl. destruct Hcl as [Hcl Hcr].
      assert (El : coalesce ids l = Ok l) by (destruct l; try discriminate; reflexivity).
      assert (Er : coalesce ids r = Ok r) by (destruct r; try discriminate; reflexivity).
      exists (EBexp l s r). cbn [coalesce]. rewrite El, Er. cbn [bind]. split; [reflexivity|]. split.
      * cbn [wf_body]. rewrite Hs. reflexivity.
      * intros d. destruct s; try discriminate; reflexivity.
  - (* EIdent *)
    cbn [wf_cond] in Hwf. unfold has_key in Hwf.
    destruct (lookup i ids) as [b|] eqn:Hl; [|discriminate].
    exists b. cbn [coalesce]. rewrite Hl. split; [reflexivity|]. split; [apply (Hids i b Hl)|].
    intros d. unfold solve_cond. cbn [solve]. rewrite Hl. reflexivity.
  - (* EMatch *)
    cbn [wf_cond no_nested cmp_leaves] in Hwf, Hnn, Hcl.
    destruct (IH e) as [x [Hx [Hwx Hsx]]]; try assumption; [cbn [expr_size]; lia|].
    exists (EMatch k x). cbn [coalesce]. rewrite Hx. cbn [bind]. split; [reflexivity|].
    split; [exact Hwx|]. intros d.
    destruct e as [s l|l s r|b|f m|f|y|i|z|k0 e|cols rows|e|f e| |s f c]; try discriminate.
    + (* group operand *)
      cbn [wf_cond no_nested cmp_leaves] in Hwf, Hnn, Hcl.
      apply andb_true_iff in Hwf. destruct Hwf as [Hs Hwf].
      destruct (Hmem s l) as [l' [Hl' HF]]; try assumption; [cbn [expr_size]; lia|].
      cbn [coalesce] in Hx. rewrite Hl' in Hx. cbn [bind] in Hx. injection Hx as <-.
      unfold solve_body, solve_cond. destruct k as [|n]; cbn [solve].
      * apply and_fold_F2. apply Hfold. exact HF.
      * apply of_fold_F2. apply Hfold. exact HF.
    + (* and/or/comparison operand *)
      cbn [coalesce] in Hx.
      apply bind_ok_inv in Hx. destruct Hx as [l' [_ Hx]].
      apply bind_ok_inv in Hx. destruct Hx as [r' [_ Hx]]. injection Hx as <-.
      specialize (Hsx d). unfold solve_body, solve_cond in *.
      destruct k as [|n]; cbn [solve] in *; rewrite Hsx; reflexivity.
    + (* identifier operand *)
      cbn [wf_cond] in Hwf. unfold has_key in Hwf.
      destruct (lookup i ids) as [b|] eqn:Hl; [|discriminate].
      cbn [coalesce] in Hx. rewrite Hl in Hx. injection Hx as <-.
      destruct k as [|n].
      * rewrite wf_body_all by exact Hwx. unfold solve_cond. cbn [solve]. rewrite Hl.
        destruct b; reflexivity.
      * rewrite wf_body_of by exact Hwx. unfold solve_cond. cbn [solve]. rewrite Hl.
        destruct b; reflexivity.
    + (* quantifier operand *)
      cbn [coalesce] in Hx.
      apply bind_ok_inv in Hx. destruct Hx as [x' [_ Hx]]. injection Hx as <-.
      specialize (Hsx d). unfold solve_body, solve_cond in *.
      destruct k as [|n]; cbn [solve] in *; rewrite Hsx; reflexivity.
    + (* negation operand *)
      cbn [coalesce] in Hx.
      apply bind_ok_inv in Hx. destruct Hx as [x' [_ Hx]]. injection Hx as <-.
      specialize (Hsx d). unfold solve_body, solve_cond in *.
      destruct k as [|n]; cbn [solve] in *; rewrite Hsx; reflexivity.
    + (* search operand *)
      cbn [coalesce] in Hx. injection Hx as <-.
      destruct k as [|n]; destruct s; reflexivity.
  - (* ENegate *)
    cbn [wf_cond no_nested cmp_leaves] in Hwf, Hnn, Hcl.
    destruct (IH e) as [x [Hx [Hwx Hsx]]]; try assumption; [cbn [expr_size]; lia|].
    exists (ENegate x). cbn [coalesce]. rewrite Hx. cbn [bind]. split; [reflexivity|].
    split; [exact Hwx|]. intros d. specialize (Hsx d). unfold solve_body, solve_cond in *.
    cbn [solve]. rewrite Hsx. reflexivity.
  - (* ESearch *)
    exists (ESearch s f c). split; [reflexivity|]. split; [reflexivity|]. intros d. reflexivity.
Qed.
End Coalesce.

Lemma coalesce_exact_alt : forall o ids e d,
  ids_wf ids -> wf_cond ids e = true -> no_nested e = true -> cmp_leaves e = true ->
  exists e', coalesce ids e = Ok e' /\ wf_body e' = true /\
             solve_body o e' d = solve_cond o ids e d.
Proof.
  intros o ids e d Hids Hwf Hnn Hcl.
  destruct (coalesce_sem o ids Hids e Hwf Hnn Hcl) as [e' [H1 [H2 H3]]].
  exists e'. auto.
Qed.

(* ================= rewrite ================= *)
Section Rewrite.
Variable o : oracles.
Hypothesis Hs : H_strip o.

Lemma lookup_map_rw : forall i (ids : list (str * expr)),
  lookup i (map (fun kv => (fst kv, rewrite o (snd kv))) ids) = option_map (rewrite o) (lookup i ids).
Proof.
  intros i. induction ids as [|[k v] ids IH]; [reflexivity|].
  cbn [map lookup fst snd]. destruct (str_eqb i k); [reflexivity|exact IH].
Qed.

Lemma existsb_strip : forall ci h ps,
  forallb (fun p => re_valid o p ci) (map strip_dotstar ps) = true ->
  existsb (fun p => re_match o p ci h) (map strip_dotstar ps) = existsb (fun p => re_match o p ci h) ps.
Proof.
  intros ci h. induction ps as [|p ps IH]; intros Hv; [reflexivity|].
  cbn [map forallb] in Hv. apply andb_true_iff in Hv. destruct Hv as [Hp Hv].
  cbn [map existsb]. rewrite (Hs p ci h Hp), (IH Hv). reflexivity.
Qed.

Lemma hits_strip : forall ci h ps,
  forallb (fun p => re_valid o p ci) (map strip_dotstar ps) = true ->
  regexset_hits o (map strip_dotstar ps) ci h = regexset_hits o ps ci h.
Proof.
  intros ci h. unfold regexset_hits, count_true. induction ps as [|p ps IH]; intros Hv; [reflexivity|].
  cbn [map forallb] in Hv. apply andb_true_iff in Hv. destruct Hv as [Hp Hv].
  cbn [map filter]. rewrite (Hs p ci h Hp). specialize (IH Hv).
  destruct (re_match o p ci h); cbn [length]; lia.
Qed.

Lemma len_Z_map : forall {A B} (f : A -> B) l, len_Z (map f l) = len_Z l.
Proof. intros. unfold len_Z. rewrite map_length. reflexivity. Qed.

Lemma search_rw : forall s h, search o (rewrite_search o s) h = search o s h.
Proof.
  intros s h. destruct s; try reflexivity; cbn [rewrite_search].
  - destruct (re_valid o (strip_dotstar pat) ci) eqn:Hv; [|reflexivity].
    cbn [search]. apply Hs. exact Hv.
  - destruct (forallb _ _) eqn:Hv; [|reflexivity].
    cbn [search]. apply existsb_strip. exact Hv.
Qed.

Lemma rw_all_search : forall ids ids' body s f c d,
  solve o ids' body (EMatch MAll (ESearch (rewrite_search o s) f c)) d =
  solve o ids body (EMatch MAll (ESearch s f c)) d.
Proof.
  intros ids ids' body s f c d.
  destruct s; try reflexivity; cbn [rewrite_search].
  - destruct (re_valid o (strip_dotstar pat) ci) eqn:Hv; [|reflexivity].
    cbn [solve]. apply field_search_ext. intros h. cbn [search]. apply Hs. exact Hv.
  - destruct (forallb _ _) eqn:Hv; [|reflexivity].
    cbn [solve]. apply field_search_ext. intros h.
    rewrite hits_strip by exact Hv. rewrite len_Z_map. reflexivity.
Qed.

Lemma rw_of_search : forall ids ids' body n s f c d,
  solve o ids' body (EMatch (MOf n) (ESearch (rewrite_search o s) f c)) d =
  solve o ids body (EMatch (MOf n) (ESearch s f c)) d.
Proof.
  intros ids ids' body n s f c d.
  destruct s; try reflexivity; cbn [rewrite_search].
  - destruct (re_valid o (strip_dotstar pat) ci) eqn:Hv; [|reflexivity].
    cbn [solve].
    assert (E : field_search o d f c (search o (SRegex (strip_dotstar pat) ci)) =
                field_search o d f c (search o (SRegex pat ci))).
    { apply field_search_ext. intros h. cbn [search]. apply Hs. exact Hv. }
    rewrite E. reflexivity.
  - destruct (forallb _ _) eqn:Hv; [|reflexivity].
    cbn [solve]. destruct (n =? 0)%Z.
    + assert (E : field_search o d f c (search o (SRegexSet (map strip_dotstar pats) ci)) =
                  field_search o d f c (search o (SRegexSet pats ci))).
      { apply field_search_ext. intros h. cbn [search]. apply existsb_strip. exact Hv. }
      rewrite E. reflexivity.
    + apply field_search_ext. intros h. rewrite hits_strip by exact Hv. reflexivity.
Qed.

Lemma rw_match_all : forall body b d,
  (forall x d', body (rewrite o x) d' = body x d') ->
  match_all o body (rewrite o b) d = match_all o body b d.
Proof.
  intros body b d Hb.
  destruct b as [s l|l s r|b|f m|f|x|i|z|k e|cols rows|e|f e| |s f c];
    try (match goal with |- match_all _ _ (rewrite _ ?x) _ = _ => exact (Hb x d) end);
    try reflexivity.
  destruct s as [ctx ci| |n|n|n|p ci|ps ci|n];
    try (match goal with |- match_all _ _ (rewrite _ ?x) _ = _ => exact (Hb x d) end);
    try reflexivity.
  - assert (E := Hb (ESearch (SRegex p ci) f c) d). cbn [rewrite rewrite_search] in *.
    destruct (re_valid o (strip_dotstar p) ci); exact E.
  - cbn [rewrite rewrite_search].
    destruct (forallb _ _) eqn:Hv; [|reflexivity].
    cbn [match_all]. apply field_search_ext. intros h.
    rewrite hits_strip by exact Hv. rewrite len_Z_map. reflexivity.
Qed.

Lemma rw_match_of : forall body b d n,
  (forall x d', body (rewrite o x) d' = body x d') ->
  match_of o body (rewrite o b) d n = match_of o body b d n.
Proof.
  intros body b d n Hb. unfold match_of. rewrite Hb.
  destruct (n =? 0)%Z; [reflexivity|].
  destruct b as [s l|l s r|b|f m|f|x|i|z|k e|cols rows|e|f e| |s f c];
    try (match goal with |- context [rewrite _ ?x] => rewrite <- (Hb x d); reflexivity end);
    try reflexivity.
  destruct s as [ctx ci| |n0|n0|n0|p ci|ps ci|n0];
    try (match goal with |- context [rewrite _ ?x] => rewrite <- (Hb x d); reflexivity end);
    try reflexivity.
  - rewrite <- (Hb (ESearch (SRegex p ci) f c) d). cbn [rewrite rewrite_search].
    destruct (re_valid o (strip_dotstar p) ci); reflexivity.
  - cbn [rewrite rewrite_search].
    destruct (forallb _ _) eqn:Hv; [|reflexivity].
    apply field_search_ext. intros h. rewrite hits_strip by exact Hv. reflexivity.
Qed.

(* rewriting or not (matrix cells are never rewritten, but are solved with the rewritten
   identifier table) *)
Definition rwb (w : bool) (e : expr) : expr := if w then rewrite o e else e.
Definition rwsb (w : bool) (s : Syntax.search) : Syntax.search := if w then rewrite_search o s else s.

Lemma rwb_group : forall w s l, rwb w (EGroup s l) = EGroup s (map (rwb w) l).
Proof. intros [|] s l; cbn [rwb rewrite]; [reflexivity|]. rewrite map_id. reflexivity. Qed.
Lemma rwb_bexp : forall w l s r, rwb w (EBexp l s r) = EBexp (rwb w l) s (rwb w r).
Proof. intros [|]; reflexivity. Qed.
Lemma rwb_match : forall w k e, rwb w (EMatch k e) = EMatch k (rwb w e).
Proof. intros [|]; reflexivity. Qed.
Lemma rwb_negate : forall w e, rwb w (ENegate e) = ENegate (rwb w e).
Proof. intros [|]; reflexivity. Qed.
Lemma rwb_nested : forall w f e, rwb w (ENested f e) = ENested f (rwb w e).
Proof. intros [|]; reflexivity. Qed.
Lemma rwb_search : forall w s f c, rwb w (ESearch s f c) = ESearch (rwsb w s) f c.
Proof. intros [|]; reflexivity. Qed.
Lemma rwb_bool : forall w b, rwb w (EBool b) = EBool b. Proof. intros [|]; reflexivity. Qed.
Lemma rwb_cast : forall w f m, rwb w (ECast f m) = ECast f m. Proof. intros [|]; reflexivity. Qed.
Lemma rwb_field : forall w f, rwb w (EField f) = EField f. Proof. intros [|]; reflexivity. Qed.
Lemma rwb_float : forall w f, rwb w (EFloat f) = EFloat f. Proof. intros [|]; reflexivity. Qed.
Lemma rwb_ident : forall w f, rwb w (EIdent f) = EIdent f. Proof. intros [|]; reflexivity. Qed.
Lemma rwb_int : forall w f, rwb w (EInt f) = EInt f. Proof. intros [|]; reflexivity. Qed.
Lemma rwb_matrix : forall w c r, rwb w (EMatrix c r) = EMatrix c r. Proof. intros [|]; reflexivity. Qed.
Lemma rwb_null : forall w, rwb w ENull = ENull. Proof. intros [|]; reflexivity. Qed.

Ltac rwn1 := first [rewrite rwb_group | rewrite rwb_bexp | rewrite rwb_match | rewrite rwb_negate
                   | rewrite rwb_nested | rewrite rwb_search | rewrite rwb_bool | rewrite rwb_cast
                   | rewrite rwb_field | rewrite rwb_float | rewrite rwb_ident | rewrite rwb_int
                   | rewrite rwb_matrix | rewrite rwb_null].
Ltac rwn := repeat rwn1.
Ltac rwnin H := repeat first [rewrite rwb_group in H | rewrite rwb_bexp in H | rewrite rwb_match in H
                   | rewrite rwb_negate in H
                   | rewrite rwb_nested in H | rewrite rwb_search in H | rewrite rwb_bool in H
                   | rewrite rwb_cast in H
                   | rewrite rwb_field in H | rewrite rwb_float in H | rewrite rwb_ident in H
                   | rewrite rwb_int in H
                   | rewrite rwb_matrix in H | rewrite rwb_null in H].

Lemma rwsb_all_search : forall w ids ids' body s f c d,
  solve o ids' body (EMatch MAll (ESearch (rwsb w s) f c)) d =
  solve o ids body (EMatch MAll (ESearch s f c)) d.
Proof.
  intros [|]; cbn [rwsb]; [apply rw_all_search|].
  intros ids ids' body s f c d. destruct s; reflexivity.
Qed.

Lemma rwsb_of_search : forall w ids ids' body n s f c d,
  solve o ids' body (EMatch (MOf n) (ESearch (rwsb w s) f c)) d =
  solve o ids body (EMatch (MOf n) (ESearch s f c)) d.
Proof.
  intros [|]; cbn [rwsb]; [apply rw_of_search|].
  intros ids ids' body n s f c d. destruct s; reflexivity.
Qed.

Lemma rwsb_search : forall w s h, search o (rwsb w s) h = search o s h.
Proof. intros [|] s h; [apply search_rw|reflexivity]. Qed.

Lemma rwb_compare : forall w d l op r,
  solve_compare o d (rwb w l) op (rwb w r) = solve_compare o d l op r.
Proof.
  intros [|] d l op r; [|reflexivity]. cbn [rwb].
  destruct l; cbn [rewrite]; destruct r; cbn [rewrite]; destruct op; reflexivity.
Qed.

Lemma rw_solve : forall ids body,
  (forall x d, body (rewrite o x) d = body x d) ->
  forall e w d,
  solve o (map (fun kv => (fst kv, rewrite o (snd kv))) ids) body (rwb w e) d =
  solve o ids body e d.
Proof.
  intros ids body Hb.
  set (ids' := map (fun kv => (fst kv, rewrite o (snd kv))) ids).
  assert (Hl : forall i, lookup i ids' = option_map (rewrite o) (lookup i ids))
    by (intros i; apply lookup_map_rw).
  assert (Hmem : forall w (l : list expr) d,
            (forall x, In x l -> forall d, solve o ids' body (rwb w x) d = solve o ids body x d) ->
            Forall2 (fun x y => (fun (x : expr) (_ : unit) => solve o ids' body x d) x tt =
                                (fun (x : expr) (_ : unit) => solve o ids body x d) y tt)
                    (map (rwb w) l) l).
  { intros w l d H. induction l as [|x l IH]; cbn [map]; constructor.
    - apply H. left. reflexivity.
    - apply IH. intros y Hy. apply H. right. exact Hy. }
  assert (Hbmem : forall (l : list expr) d,
            Forall2 (fun x y => (fun (x : expr) (_ : unit) => body x d) x tt =
                                (fun (x : expr) (_ : unit) => body x d) y tt)
                    (map (rewrite o) l) l).
  { intros l d. induction l as [|x l IH]; cbn [map]; constructor; [apply Hb|exact IH]. }
  intros e. induction e as [e IH] using size_ind. intros w d.
  assert (Hcells : forall cols rows, (expr_size (EMatrix cols rows) <= expr_size e)%nat ->
            Forall2 (Forall2 cell_rel)
              (map (map (option_map (fun cell d' => solve o ids' body cell d'))) rows)
              (map (map (option_map (fun cell d' => solve o ids body cell d'))) rows)).
  { intros cols rows Hsz. apply cells_rel_of. intros row x Hrow Hx d'.
    apply (IH x) with (w := false). pose proof (size_cell cols rows row x Hrow Hx). lia. }
  destruct e as [s l|l s r|b|f m|f|x|i|z|k e|cols rows|e|f e| |s f c]; rwn.
  - (* EGroup *)
    assert (Hm := Hmem w l d (fun x Hx => IH x (size_member s l x Hx) w)).
    cbn [solve]. destruct s; try reflexivity.
    + apply and_fold_F2. exact Hm.
    + apply or_fold_F2. exact Hm.
  - (* EBexp *)
    assert (H1 : forall d, solve o ids' body (rwb w l) d = solve o ids body l d)
      by (intros d'; apply IH; cbn [expr_size]; lia).
    assert (H2 : forall d, solve o ids' body (rwb w r) d = solve o ids body r d)
      by (intros d'; apply IH; cbn [expr_size]; lia).
    destruct s; cbn [solve]; try apply rwb_compare.
    + unfold and2. rewrite H1, H2. reflexivity.
    + unfold or2. rewrite H1, H2. reflexivity.
  - reflexivity.
  - reflexivity.
  - reflexivity.
  - reflexivity.
  - (* EIdent *)
    cbn [solve]. rewrite Hl. destruct (lookup i ids); cbn [option_map]; [apply Hb|reflexivity].
  - reflexivity.
  - (* EMatch *)
    assert (He : forall d, solve o ids' body (rwb w e) d = solve o ids body e d)
      by (intros d'; apply IH; cbn [expr_size]; lia).
    destruct k as [|n].
    + destruct e as [s l|l s r|b|f m|f|x|i|z|k e|cols rows|e|f e| |s f c]; rwn; rwnin He;
        try exact (He d); try reflexivity.
      * (* group *)
        cbn [solve]. apply and_fold_F2. apply Hmem. intros x Hx d'. apply IH.
        pose proof (size_member s l x Hx). cbn [expr_size] in *. lia.
      * (* ident *)
        cbn [solve]. rewrite Hl. destruct (lookup i ids) as [b|]; cbn [option_map]; [|reflexivity].
        destruct b as [s l|l s r|b|f m|f|x|i0|z|k e|cols rows|e|f e| |s f c];
          try apply (rw_match_all body _ d Hb).
        cbn [rewrite]. apply and_fold_F2. apply Hbmem.
      * (* matrix *)
        cbn [solve]. apply matrix_all_ext. apply (Hcells cols rows). cbn [expr_size]. lia.
      * apply rwsb_all_search.
    + destruct e as [s l|l s r|b|f m|f|x|i|z|k e|cols rows|e|f e| |s f c]; rwn; rwnin He;
        try (cbn [solve]; cbn [solve] in He; rewrite (He d); reflexivity); try reflexivity.
      * cbn [solve]. apply of_fold_F2. apply Hmem. intros x Hx d'. apply IH.
        pose proof (size_member s l x Hx). cbn [expr_size] in *. lia.
      * cbn [solve]. rewrite Hl. destruct (lookup i ids) as [b|]; cbn [option_map]; [|reflexivity].
        destruct b as [s l|l s r|b|f m|f|x|i0|z|k e|cols rows|e|f e| |s f c];
          try apply (rw_match_of body _ d n Hb).
        cbn [rewrite]. apply of_fold_F2. apply Hbmem.
      * cbn [solve]. cbn [solve] in He. rewrite (He d).
        destruct (n =? 0)%Z; [reflexivity|].
        apply matrix_of_ext. apply (Hcells cols rows). cbn [expr_size]. lia.
      * apply rwsb_of_search.
  - (* EMatrix *)
    cbn [solve]. apply matrix_or_ext. apply (Hcells cols rows). lia.
  - (* ENegate *)
    cbn [solve]. rewrite IH by (cbn [expr_size]; lia). reflexivity.
  - (* ENested *)
    assert (He : forall d, solve o ids' body (rwb w e) d = solve o ids body e d)
      by (intros d'; apply IH; cbn [expr_size]; lia).
    rewrite !solve_nested_eq.
    destruct (d f) as [[v|]| |]; cbn [bind]; try reflexivity.
    destruct v as [| | | | |h|a|kv]; try reflexivity; [|apply He].
    assert (Hgen : any_true (solve o ids' body (rwb w e)) (objects_of a) =
                   any_true (solve o ids body e) (objects_of a))
      by (apply any_true_ext; exact He).
    destruct e as [s l|l s r|b|f0 m|f0|x|i|z|k e|cols rows|e|f0 e| |s f0 c]; rwn; rwnin Hgen; try exact Hgen.
    destruct k as [|n]; [|exact Hgen].
    destruct e as [s l|l s r|b|f0 m|f0|x|i|z|k e|cols rows|e|f0 e| |s f0 c]; rwn; rwnin Hgen; try exact Hgen.
    + destruct s; try exact Hgen.
      apply and_fold_F2.
      assert (Hm : forall m, In m l -> forall d', solve o ids' body (rwb w m) d' = solve o ids body m d').
      { intros m Hin d'. apply IH. pose proof (size_member BOr l m Hin). cbn [expr_size] in *. lia. }
      clear - Hm. induction l as [|m l IHl]; cbn [map]; constructor.
      * apply some_object_ext. intros d'. apply Hm. left. reflexivity.
      * apply IHl. intros m' Hin. apply Hm. right. exact Hin.
    + assert (Hc := Hcells cols rows ltac:(cbn [expr_size]; lia)).
      apply and_fold_F2. clear - Hc. revert Hc.
      induction rows as [|row rows IHr]; intros Hc; [constructor|].
      cbn [map] in Hc. inversion Hc as [|r1 r2 l1 l2 Hr Hl]; subst.
      constructor; [apply pass_row_any_ext; exact Hr|apply IHr; exact Hl].
  - reflexivity.
  - (* ESearch *)
    cbn [solve]. apply field_search_ext. apply rwsb_search.
Qed.

Lemma rw_body : forall e d, solve_body o (rewrite o e) d = solve_body o e d.
Proof.
  intros e d. unfold solve_body.
  apply (rw_solve [] (fun _ _ => Panic 591) (fun _ _ => eq_refl) e true).
Qed.

Lemma rewrite_exact_s : forall ids e d,
  solve_cond o (map (fun kv => (fst kv, rewrite o (snd kv))) ids) (rewrite o e) d =
  solve_cond o ids e d.
Proof. intros ids e d. unfold solve_cond. apply (rw_solve ids (solve_body o) rw_body e true). Qed.
End Rewrite.

Lemma rewrite_exact : forall o ids e d,
  H_strip o ->
  solve_cond o (map (fun kv => (fst kv, rewrite o (snd kv))) ids) (rewrite o e) d =
  solve_cond o ids e d.
Proof. intros o ids e d H. apply rewrite_exact_s. exact H. Qed.

(* ================= shake_0 ================= *)

(* ---- semantic facts about the folds ---- *)
Lemma and_app : forall A B,
  and_fold (A ++ B) = do x <- and_fold A; match x with T => and_fold B | F => Ok F | M => Ok M end.
Proof.
  induction A as [|a A IH]; intros B; cbn [app and_fold bind]; [reflexivity|].
  destruct (a tt) as [[| |]| |]; cbn [bind]; try reflexivity. apply IH.
Qed.

Lemma and_inline : forall A (X : lazy3) B C, X tt = and_fold B ->
  and_fold (A ++ X :: C) = and_fold (A ++ B ++ C).
Proof.
  intros A X B C H. rewrite !and_app. cbn [and_fold]. rewrite H.
  destruct (and_fold A) as [[| |]| |]; cbn [bind]; reflexivity.
Qed.

Lemma and_single : forall X : lazy3, and_fold [X] = X tt.
Proof. intros X. cbn [and_fold]. apply bind_res_id. Qed.

Lemma and2_fold : forall l r : lazy3, and2 l r = and_fold [l; r].
Proof.
  intros l r. unfold and2. cbn [and_fold].
  destruct (l tt) as [[| |]| |]; cbn [bind]; try reflexivity.
  symmetry. apply bind_res_id.
Qed.

Lemma or_app : forall A B acc, acc <> T ->
  or_fold acc (A ++ B) = do x <- or_fold acc A; match x with T => Ok T | _ => or_fold x B end.
Proof.
  induction A as [|a A IH]; intros B acc Hacc; cbn [app or_fold bind].
  - destruct acc; [congruence|reflexivity|reflexivity].
  - destruct (a tt) as [[| |]| |]; cbn [bind]; try reflexivity.
    + apply IH. discriminate.
    + apply IH. exact Hacc.
Qed.

Lemma or_fold_F_noM : forall B,
  (do y <- or_fold F B; Ok (match y with T => T | F => F | M => F end)) = or_fold F B.
Proof.
  induction B as [|b B IH]; cbn [or_fold bind]; [reflexivity|].
  destruct (b tt) as [[| |]| |]; cbn [bind]; try reflexivity; exact IH.
Qed.

Lemma or_fold_F : forall B,
  or_fold F B = do y <- or_fold M B; Ok (match y with T => T | F => F | M => F end).
Proof.
  induction B as [|b B IH]; cbn [or_fold bind]; [reflexivity|].
  destruct (b tt) as [[| |]| |]; cbn [bind]; try reflexivity.
  - symmetry. apply or_fold_F_noM.
  - exact IH.
Qed.

Lemma or_inline : forall A (X : lazy3) B C acc, acc <> T -> X tt = or_fold M B ->
  or_fold acc (A ++ X :: C) = or_fold acc (A ++ B ++ C).
Proof.
  intros A X B C acc Hacc H. rewrite !or_app by exact Hacc.
  destruct (or_fold acc A) as [[| |]| |] eqn:HA; cbn [bind]; try reflexivity.
  - cbn [or_fold]. rewrite H. rewrite (or_app B C F) by discriminate. rewrite (or_fold_F B).
    destruct (or_fold M B) as [[| |]| |]; cbn [bind]; reflexivity.
  - cbn [or_fold]. rewrite H. rewrite (or_app B C M) by discriminate.
    destruct (or_fold M B) as [[| |]| |]; cbn [bind]; reflexivity.
Qed.

Lemma or_single : forall X : lazy3, or_fold M [X] = X tt.
Proof. intros X. cbn [or_fold]. apply bind_res_id. Qed.

Lemma or2_fold : forall l r : lazy3, or2 l r = or_fold M [l; r].
Proof.
  intros l r. unfold or2. cbn [or_fold].
  destruct (l tt) as [[| |]| |]; cbn [bind]; try reflexivity;
    destruct (r tt) as [[| |]| |]; reflexivity.
Qed.

(* ---- the single invariant the proof works with ---- *)
Definition leaf (e : expr) : bool := negb (is_solvable e).

Fixpoint inv (e : expr) : bool :=
  match e with
  | EGroup s l => is_and_or s && match l with [] => false | _ => forallb inv l end
  | EBexp l s r => if is_and_or s then inv l && inv r else leaf l && leaf r
  | EMatch _ e' => quant_operand_ok e' && inv e'
  | ENegate e' => negb (head_neg e') && inv e'
  | ENested _ e' => nested_ok e' && inv e'
  | ESearch _ _ _ => true
  | _ => false
  end.

Definition dneg_here (_ : bool) (x : expr) : bool :=
  match x with ENegate y => head_neg y | _ => false end.

Lemma existsb_false_In : forall {A} (p : A -> bool) l x, existsb p l = false -> In x l -> p x = false.
Proof.
  intros A p l x H Hin. destruct (p x) eqn:Hp; [|reflexivity].
  assert (existsb p l = true) by (apply existsb_exists; exists x; auto). congruence.
Qed.

Lemma forallb_intro : forall {A} (p : A -> bool) l, (forall x, In x l -> p x = true) -> forallb p l = true.
Proof. intros A p l H. apply forallb_forall. exact H. Qed.

Lemma inv_of : forall e n,
  wf_body e = true -> sh0 e = true -> exists_sub dneg_here n e = false -> shx e = true ->
  inv e = true.
Proof.
  induction e as [e IH] using size_ind. intros n Hwf Hsh Hdn Hx.
  destruct e as [s l|l s r|b|f m|f|x|i|z|k e|cols rows|e|f e| |s f c]; try discriminate.
  - cbn [wf_body sh0 exists_sub shx inv dneg_here orb] in *.
    apply andb_true_iff in Hwf. destruct Hwf as [Hs Hwf].
    replace (is_and_or s) with true by (destruct s; try discriminate; reflexivity).
    cbn [andb]. destruct l as [|a l']; [discriminate|].
    apply forallb_intro. intros x Hin. apply (IH x) with (n := n).
    + apply (size_member s _ x Hin).
    + apply (forallb_In _ _ _ Hwf Hin).
    + apply (forallb_In _ _ _ Hsh Hin).
    + apply (existsb_false_In _ _ _ Hdn Hin).
    + apply (forallb_In _ _ _ Hx Hin).
  - cbn [wf_body sh0 exists_sub shx inv dneg_here orb] in *.
    replace (is_and_or_op s) with (is_and_or s) in Hwf by (destruct s; reflexivity).
    destruct (is_and_or s); [|exact Hx].
    apply andb_true_iff in Hwf. destruct Hwf as [H1 H2].
    apply andb_true_iff in Hsh. destruct Hsh as [H3 H4].
    apply orb_false_iff in Hdn. destruct Hdn as [H5 H6].
    apply andb_true_iff in Hx. destruct Hx as [H7 H8].
    rewrite (IH l) with (n := n), (IH r) with (n := n); try assumption; try (cbn [expr_size]; lia).
  - cbn [wf_body sh0 shx inv] in *.
    apply andb_true_iff in Hsh. destruct Hsh as [H3 H4]. rewrite H3. cbn [andb].
    destruct k as [|c]; cbn [exists_sub dneg_here orb] in Hdn.
    + apply (IH e) with (n := n); try assumption. cbn [expr_size]. lia.
    + apply (IH e) with (n := (n || (c =? 0)%Z)); try assumption. cbn [expr_size]. lia.
  - cbn [wf_body sh0 exists_sub shx inv dneg_here] in *.
    apply orb_false_iff in Hdn. destruct Hdn as [H5 H6]. rewrite H5. cbn [negb andb].
    apply (IH e) with (n := true); try assumption. cbn [expr_size]. lia.
  - cbn [wf_body sh0 exists_sub shx inv dneg_here orb] in *.
    apply andb_true_iff in Hx. destruct Hx as [H7 H8]. rewrite H7. cbn [andb].
    apply (IH e) with (n := n); try assumption. cbn [expr_size]. lia.
  - reflexivity.
Qed.

(* ---- shape of one step of shake_0 ---- *)
Lemma shake0_leaf : forall fu e, leaf e = true -> shake0 fu e = Ok e.
Proof. intros [|fu] e H; destruct e; try discriminate; reflexivity. Qed.

Lemma shake0_bexp_cmp : forall fu l s r, is_and_or s = false ->
  shake0 (S fu) (EBexp l s r) =
  (do l' <- shake0 fu l; do r' <- shake0 fu r; Ok (EBexp l' s r')).
Proof.
  intros fu l s r Hs. cbn [shake0].
  destruct (shake0 fu l) as [l'| |]; cbn [bind]; try reflexivity.
  destruct (shake0 fu r) as [r'| |]; cbn [bind]; try reflexivity.
  destruct s; try discriminate;
    (destruct l' as [[] ?|? [] ?| | | | | | | | | | | |]; try reflexivity).
Qed.

Definition grp (s : boolsym) (x : expr) : option (list expr) :=
  match x with EGroup s' a => if boolsym_eqb s s' then Some a else None | _ => None end.
Definition bx (s : boolsym) (x : expr) : option (expr * expr) :=
  match x with EBexp a s' b => if boolsym_eqb s s' then Some (a, b) else None | _ => None end.
Definition flat (s : boolsym) (l' r' : expr) : option (list expr) :=
  match grp s l', grp s r' with
  | Some a, Some b => Some (a ++ b)
  | Some a, None => Some (a ++ [r'])
  | None, Some b => Some (l' :: b)
  | None, None =>
      match bx s l' with
      | Some (x, y) => Some [x; y; r']
      | None => match bx s r' with
                | Some (y, z) => Some [l'; y; z]
                | None => None
                end
      end
  end.

Lemma shake0_bexp_andor : forall fu l s r, is_and_or s = true ->
  shake0 (S fu) (EBexp l s r) =
  (do l' <- shake0 fu l; do r' <- shake0 fu r;
   match flat s l' r' with
   | Some L => shake0 fu (EGroup s L)
   | None => Ok (EBexp l' s r')
   end).
Proof.
  intros fu l s r Hs. cbn [shake0].
  destruct (shake0 fu l) as [l'| |]; cbn [bind]; try reflexivity.
  destruct (shake0 fu r) as [r'| |]; cbn [bind]; try reflexivity.
  destruct s; try discriminate;
    (destruct l' as [[] ?|? [] ?| | | | | | | | | | | |];
     destruct r' as [[] ?|? [] ?| | | | | | | | | | | |]; reflexivity).
Qed.


Lemma and_inline0 : forall (X : lazy3) B C, X tt = and_fold B -> and_fold (X :: C) = and_fold (B ++ C).
Proof. intros X B C H. apply (and_inline [] X B C H). Qed.
Lemma and_inline1 : forall (Z X : lazy3) B C, X tt = and_fold B -> and_fold (Z :: X :: C) = and_fold (Z :: B ++ C).
Proof. intros Z X B C H. apply (and_inline [Z] X B C H). Qed.
Lemma or_inline0 : forall (X : lazy3) B C, X tt = or_fold M B -> or_fold M (X :: C) = or_fold M (B ++ C).
Proof. intros X B C H. apply (or_inline [] X B C M); [discriminate|exact H]. Qed.
Lemma or_inline1 : forall (Z X : lazy3) B C, X tt = or_fold M B -> or_fold M (Z :: X :: C) = or_fold M (Z :: B ++ C).
Proof. intros Z X B C H. apply (or_inline [Z] X B C M); [discriminate|exact H]. Qed.
Lemma or_inlineM : forall A (X : lazy3) B C, X tt = or_fold M B -> or_fold M (A ++ X :: C) = or_fold M (A ++ B ++ C).
Proof. intros A X B C H. apply or_inline; [discriminate|exact H]. Qed.

(* ---- unfolding equations of the solver on identifier-free trees ---- *)
Section Shake.
Variable o : oracles.

Definition nested_arr (slv : expr -> docq -> out res3) (e : expr) (a : list value) : out res3 :=
  match e with
  | EMatch MAll (EGroup BOr ms) =>
      and_fold (map (fun m (_ : unit) => some_object (fun d' => slv m d') (objects_of a) M) ms)
  | EMatch MAll (EMatrix cols rows) =>
      and_fold (map (fun row (_ : unit) =>
                       pass_row_any cols (map (option_map (fun cell d' => slv cell d')) row) a) rows)
  | _ => any_true (slv e) (objects_of a)
  end.

Lemma sb_group_and : forall g d,
  solve_body o (EGroup BAnd g) d = and_fold (map (fun x (_ : unit) => solve_body o x d) g).
Proof. reflexivity. Qed.
Lemma sb_group_or : forall g d,
  solve_body o (EGroup BOr g) d = or_fold M (map (fun x (_ : unit) => solve_body o x d) g).
Proof. reflexivity. Qed.
Lemma sb_bexp_and : forall l r d,
  solve_body o (EBexp l BAnd r) d = and2 (fun _ => solve_body o l d) (fun _ => solve_body o r d).
Proof. reflexivity. Qed.
Lemma sb_bexp_or : forall l r d,
  solve_body o (EBexp l BOr r) d = or2 (fun _ => solve_body o l d) (fun _ => solve_body o r d).
Proof. reflexivity. Qed.
Lemma sb_negate : forall e d,
  solve_body o (ENegate e) d = (do r <- solve_body o e d; Ok (neg3 r)).
Proof. reflexivity. Qed.
Lemma sb_all_group : forall s g d,
  solve_body o (EMatch MAll (EGroup s g)) d = and_fold (map (fun x (_ : unit) => solve_body o x d) g).
Proof. reflexivity. Qed.
Lemma sb_of_group : forall n s g d,
  solve_body o (EMatch (MOf n) (EGroup s g)) d = of_fold n (map (fun x (_ : unit) => solve_body o x d) g).
Proof. reflexivity. Qed.
Lemma sb_nested : forall f e d,
  solve_body o (ENested f e) d =
  (do x <- d f;
   match x with
   | None => Ok M
   | Some (VObj kv) => solve_body o e (obj_doc kv)
   | Some (VArr a) => nested_arr (solve_body o) e a
   | Some _ => Ok F
   end).
Proof. reflexivity. Qed.

Definition other_q (e : expr) : bool :=
  match e with EBexp _ _ _ | EMatch _ _ | ENegate _ | ENested _ _ => true | _ => false end.

Lemma sb_all_other : forall e d, other_q e = true ->
  solve_body o (EMatch MAll e) d = solve_body o e d.
Proof. intros e d H. destruct e; try discriminate; reflexivity. Qed.

Lemma sb_of_other : forall n e d, other_q e = true ->
  solve_body o (EMatch (MOf n) e) d =
  if (n =? 0)%Z then (do r <- solve_body o e d; Ok (match r with T => F | F => T | M => M end))
  else (do r <- solve_body o e d; Ok (match r with T => if (1 <? n)%Z then F else T | x => x end)).
Proof. intros n e d H. destruct e; try discriminate; reflexivity. Qed.

Lemma h7_other : forall e e', other_q e = true -> other_q e' = true ->
  (forall d, solve_body o e' d = solve_body o e d) ->
  forall k d, solve_body o (EMatch k e') d = solve_body o (EMatch k e) d.
Proof.
  intros e e' He He' H [|n] d.
  - rewrite !sb_all_other by assumption. apply H.
  - rewrite !sb_of_other by assumption. rewrite H. reflexivity.
Qed.

Lemma nested_arr_generic : forall slv e a, inv e = true -> head_allor e = false ->
  nested_arr slv e a = any_true (slv e) (objects_of a).
Proof.
  intros slv e a Hi Hh.
  destruct e as [s l|l s r|b|f m|f|x|i|z|k e|cols rows|e|f e| |s f c]; try reflexivity.
  destruct k as [|n]; [|reflexivity].
  destruct e as [s l|l s r|b|f m|f|x|i|z|k e|cols rows|e|f e| |s f c]; try reflexivity.
  - destruct s; try reflexivity. discriminate.
  - discriminate.
Qed.

Lemma h8_generic : forall e e', inv e = true -> inv e' = true ->
  head_allor e = false -> head_allor e' = false ->
  (forall d, solve_body o e' d = solve_body o e d) ->
  forall f d, solve_body o (ENested f e') d = solve_body o (ENested f e) d.
Proof.
  intros e e' Hi Hi' Hh Hh' H f d. rewrite !sb_nested.
  destruct (d f) as [[v|]| |]; cbn [bind]; try reflexivity.
  destruct v; try reflexivity; [|apply H].
  rewrite !nested_arr_generic by assumption. apply any_true_ext. exact H.
Qed.

Lemma sem_group_single : forall s y d, is_and_or s = true ->
  solve_body o (EGroup s [y]) d = solve_body o y d.
Proof.
  intros s y d Hs. destruct s; try discriminate.
  - rewrite sb_group_and. cbn [map]. apply and_single.
  - rewrite sb_group_or. cbn [map]. apply or_single.
Qed.

Lemma sem_bexp_cong : forall l l' s r r', is_and_or s = true ->
  (forall d, solve_body o l' d = solve_body o l d) ->
  (forall d, solve_body o r' d = solve_body o r d) ->
  forall d, solve_body o (EBexp l' s r') d = solve_body o (EBexp l s r) d.
Proof.
  intros l l' s r r' Hs Hl Hr d. destruct s; try discriminate.
  - rewrite !sb_bexp_and. unfold and2. rewrite Hl, Hr. reflexivity.
  - rewrite !sb_bexp_or. unfold or2. rewrite Hl, Hr. reflexivity.
Qed.

Definition sem_members (l l' : list expr) : Prop :=
  Forall2 (fun m m' => forall d, solve_body o m' d = solve_body o m d) l l'.

Lemma sem_members_F2 : forall l l' d, sem_members l l' ->
  Forall2 (fun y x => (fun (y : expr) (_ : unit) => solve_body o y d) y tt =
                      (fun (x : expr) (_ : unit) => solve_body o x d) x tt) l' l.
Proof.
  intros l l' d H. apply Forall2_flip'. eapply Forall2_In_impl; [exact H|].
  intros x y _ _ Hxy. apply Hxy.
Qed.

Lemma sem_group_cong : forall s l l' d, is_and_or s = true -> sem_members l l' ->
  solve_body o (EGroup s l') d = solve_body o (EGroup s l) d.
Proof.
  intros s l l' d Hs H. destruct s; try discriminate.
  - rewrite !sb_group_and. apply and_fold_F2. apply sem_members_F2. exact H.
  - rewrite !sb_group_or. apply or_fold_F2. apply sem_members_F2. exact H.
Qed.

Lemma sem_match_group_cong : forall k s l l' d, sem_members l l' ->
  solve_body o (EMatch k (EGroup s l')) d = solve_body o (EMatch k (EGroup s l)) d.
Proof.
  intros [|n] s l l' d H.
  - rewrite !sb_all_group. apply and_fold_F2. apply sem_members_F2. exact H.
  - rewrite !sb_of_group. apply of_fold_F2. apply sem_members_F2. exact H.
Qed.

Lemma sem_members_refl : forall l, sem_members l l.
Proof. induction l; constructor; auto. Qed.

(* ---- what the flattening step of an and/or chain builds ---- *)
Lemma grp_some : forall s x a, grp s x = Some a -> x = EGroup s a.
Proof.
  intros s x a H. destruct x as [s' l'| | | | | | | | | | | | |]; try discriminate. cbn [grp] in H.
  destruct (boolsym_eqb s s') eqn:E; [|discriminate]. injection H as <-.
  destruct s, s'; try discriminate; reflexivity.
Qed.

Lemma bx_some : forall s x a b, bx s x = Some (a, b) -> x = EBexp a s b.
Proof.
  intros s x a b H. destruct x as [|x1 s' x2| | | | | | | | | | | |]; try discriminate. cbn [bx] in H.
  destruct (boolsym_eqb s s') eqn:E; [|discriminate]. injection H as <- <-.
  destruct s, s'; try discriminate; reflexivity.
Qed.

Lemma inv_group : forall s a, inv (EGroup s a) = true ->
  is_and_or s = true /\ forallb inv a = true /\ exists a1 a', a = a1 :: a'.
Proof.
  intros s a H. cbn [inv] in H. apply andb_true_iff in H. destruct H as [Hs H].
  destruct a as [|a1 a']; [discriminate|]. eauto.
Qed.

Lemma inv_group_intro : forall s a, is_and_or s = true -> forallb inv a = true -> a <> [] ->
  inv (EGroup s a) = true.
Proof.
  intros s a Hs Ha Hne. cbn [inv]. rewrite Hs. destruct a; [congruence|exact Ha].
Qed.

Definition long (L : list expr) : Prop := exists a b L0, L = a :: b :: L0.

Lemma long_heads : forall s L, long L ->
  head_neg (EGroup s L) = false /\ head_allor (EGroup s L) = false /\
  quant_operand_ok (EGroup s L) = true /\ length L <> 1%nat.
Proof. intros s L [a [b [L0 ->]]]. cbn. repeat split; lia. Qed.

Lemma flat_spec : forall s l' r' L, is_and_or s = true -> inv l' = true -> inv r' = true ->
  flat s l' r' = Some L ->
  inv (EGroup s L) = true /\ long L /\
  forall d, solve_body o (EGroup s L) d = solve_body o (EBexp l' s r') d.
Proof.
  intros s l' r' L Hs Hl Hr Hf. unfold flat in Hf.
  destruct (grp s l') as [a|] eqn:G1; destruct (grp s r') as [b|] eqn:G2.
  - injection Hf as <-. apply grp_some in G1. apply grp_some in G2. subst l' r'.
    destruct (inv_group s a Hl) as [_ [Ha [a1 [a' ->]]]].
    destruct (inv_group s b Hr) as [_ [Hb [b1 [b' ->]]]].
    split; [|split].
    + apply inv_group_intro; [exact Hs| |discriminate]. rewrite forallb_app, Ha, Hb. reflexivity.
    + destruct a' as [|a2 a']; cbn [app]; unfold long; eauto.
    + intros d. destruct s; try discriminate.
      * rewrite sb_bexp_and, and2_fold.
        rewrite (and_inline0 _ (map (fun x (_ : unit) => solve_body o x d) (a1 :: a')) _ (sb_group_and _ d)).
        cbn [app].
        rewrite (and_inline _ _ (map (fun x (_ : unit) => solve_body o x d) (b1 :: b')) [] (sb_group_and _ d)).
        rewrite app_nil_r, <- map_app. apply sb_group_and.
      * rewrite sb_bexp_or, or2_fold.
        rewrite (or_inline0 _ (map (fun x (_ : unit) => solve_body o x d) (a1 :: a')) _ (sb_group_or _ d)).
        cbn [app].
        rewrite (or_inlineM _ _ (map (fun x (_ : unit) => solve_body o x d) (b1 :: b')) [] (sb_group_or _ d)).
        rewrite app_nil_r, <- map_app. apply sb_group_or.
  - injection Hf as <-. apply grp_some in G1. subst l'.
    destruct (inv_group s a Hl) as [_ [Ha [a1 [a' ->]]]].
    split; [|split].
    + apply inv_group_intro; [exact Hs| |discriminate].
      rewrite forallb_app, Ha. cbn [forallb]. rewrite Hr. reflexivity.
    + destruct a' as [|a2 a']; cbn [app]; unfold long; eauto.
    + intros d. destruct s; try discriminate.
      * rewrite sb_bexp_and, and2_fold.
        rewrite (and_inline0 _ (map (fun x (_ : unit) => solve_body o x d) (a1 :: a')) _ (sb_group_and _ d)).
        rewrite sb_group_and, map_app. reflexivity.
      * rewrite sb_bexp_or, or2_fold.
        rewrite (or_inline0 _ (map (fun x (_ : unit) => solve_body o x d) (a1 :: a')) _ (sb_group_or _ d)).
        rewrite sb_group_or, map_app. reflexivity.
  - injection Hf as <-. apply grp_some in G2. subst r'.
    destruct (inv_group s b Hr) as [_ [Hb [b1 [b' ->]]]].
    split; [|split].
    + apply inv_group_intro; [exact Hs| |discriminate]. cbn [forallb]. rewrite Hl. exact Hb.
    + unfold long; eauto.
    + intros d. destruct s; try discriminate.
      * rewrite sb_bexp_and, and2_fold.
        rewrite (and_inline1 _ _ (map (fun x (_ : unit) => solve_body o x d) (b1 :: b')) [] (sb_group_and _ d)).
        rewrite app_nil_r. apply sb_group_and.
      * rewrite sb_bexp_or, or2_fold.
        rewrite (or_inline1 _ _ (map (fun x (_ : unit) => solve_body o x d) (b1 :: b')) [] (sb_group_or _ d)).
        rewrite app_nil_r. apply sb_group_or.
  - destruct (bx s l') as [[x y]|] eqn:B1.
    + injection Hf as <-. apply bx_some in B1. subst l'.
      cbn [inv] in Hl. rewrite Hs in Hl. apply andb_true_iff in Hl. destruct Hl as [Hx Hy].
      split; [|split].
      * apply inv_group_intro; [exact Hs| |discriminate]. cbn [forallb]. rewrite Hx, Hy, Hr. reflexivity.
      * unfold long; eauto.
      * intros d. destruct s; try discriminate.
        -- rewrite sb_bexp_and, and2_fold.
           rewrite (and_inline0 _ [fun _ => solve_body o x d; fun _ => solve_body o y d] _
                      (eq_trans (sb_bexp_and x y d) (and2_fold _ _))).
           apply sb_group_and.
        -- rewrite sb_bexp_or, or2_fold.
           rewrite (or_inline0 _ [fun _ => solve_body o x d; fun _ => solve_body o y d] _
                      (eq_trans (sb_bexp_or x y d) (or2_fold _ _))).
           apply sb_group_or.
    + destruct (bx s r') as [[y z]|] eqn:B2; [|discriminate].
      injection Hf as <-. apply bx_some in B2. subst r'.
      cbn [inv] in Hr. rewrite Hs in Hr. apply andb_true_iff in Hr. destruct Hr as [Hy Hz].
      split; [|split].
      * apply inv_group_intro; [exact Hs| |discriminate]. cbn [forallb]. rewrite Hl, Hy, Hz. reflexivity.
      * unfold long; eauto.
      * intros d. destruct s; try discriminate.
        -- rewrite sb_bexp_and, and2_fold.
           rewrite (and_inline1 _ _ [fun _ => solve_body o y d; fun _ => solve_body o z d] []
                      (eq_trans (sb_bexp_and y z d) (and2_fold _ _))).
           apply sb_group_and.
        -- rewrite sb_bexp_or, or2_fold.
           rewrite (or_inline1 _ _ [fun _ => solve_body o y d; fun _ => solve_body o z d] []
                      (eq_trans (sb_bexp_or y z d) (or2_fold _ _))).
           apply sb_group_or.
Qed.

(* ---- what one run of shake_0 guarantees ---- *)
Definition post (e e' : expr) : Prop :=
  inv e' = true /\
  (head_neg e' = true -> head_neg e = true) /\
  (head_allor e' = true -> head_allor e = true) /\
  (quant_operand_ok e = true -> quant_operand_ok e' = true) /\
  (quant_operand_ok e = true -> forall s l', e' = EGroup s l' -> exists l, e = EGroup s l) /\
  (forall d, solve_body o e' d = solve_body o e d) /\
  (forall s l, e = EGroup s l -> length l <> 1%nat ->
               exists l', e' = EGroup s l' /\ sem_members l l') /\
  (forall k d, quant_operand_ok e = true ->
               solve_body o (EMatch k e') d = solve_body o (EMatch k e) d) /\
  (forall f d, nested_ok e = true ->
               solve_body o (ENested f e') d = solve_body o (ENested f e) d).

Ltac split_post :=
  unfold post; (split; [|split; [|split; [|split; [|split; [|split; [|split; [|split]]]]]]]).

Lemma post_refl : forall e, inv e = true -> post e e.
Proof.
  intros e Hi. split_post; auto.
  - intros _ s l' ->. eauto.
  - intros s l -> _. exists l. split; [reflexivity|apply sem_members_refl].
Qed.

Lemma head_allor_false_nested_ok : forall e, head_allor e = false -> nested_ok e = true.
Proof. intros e H. destruct e; try reflexivity. cbn [nested_ok]. rewrite H. reflexivity. Qed.

Lemma qok_andor_false : forall l s r, is_and_or s = true -> quant_operand_ok (EBexp l s r) = false.
Proof. intros l s r H. destruct s; try discriminate; reflexivity. Qed.

Lemma qok_group_len : forall s l, quant_operand_ok (EGroup s l) = true -> length l <> 1%nat.
Proof. intros s [|a [|b l]] H; cbn in *; try discriminate; lia. Qed.

Lemma shake0_match_head : forall fuel k e x, shake0 fuel (EMatch k e) = Ok x -> exists x0, x = EMatch k x0.
Proof.
  intros [|fu] k e x H.
  - injection H as <-. eauto.
  - destruct e; cbn [shake0] in H; apply bind_ok_inv in H; destruct H as [x0 [_ H]];
      injection H as <-; eauto.
Qed.

(* the two arms of shake_0 on a quantifier (fix D14: a group operand stays a group) *)
Lemma shake0_match_group : forall fu k s l,
  shake0 (S fu) (EMatch k (EGroup s l)) =
  (do l' <- mapM (fun x => shake0 fu x) l; Ok (EMatch k (EGroup s l'))).
Proof. reflexivity. Qed.

Lemma shake0_match_other : forall fu k e, (forall s l, e <> EGroup s l) ->
  shake0 (S fu) (EMatch k e) = (do x <- shake0 fu e; Ok (EMatch k x)).
Proof. intros fu k e H. destruct e; try reflexivity. exfalso. eapply H. reflexivity. Qed.

Lemma is_group_dec : forall e, (exists s l, e = EGroup s l) \/ (forall s l, e <> EGroup s l).
Proof. intros e. destruct e; try (right; discriminate). left. eauto. Qed.

Lemma shake0_match_inv : forall fu k e e', shake0 (S fu) (EMatch k e) = Ok e' ->
  (exists s l l', e = EGroup s l /\ mapM (fun x => shake0 fu x) l = Ok l' /\
                  e' = EMatch k (EGroup s l')) \/
  ((forall s l, e <> EGroup s l) /\ exists x, shake0 fu e = Ok x /\ e' = EMatch k x).
Proof.
  intros fu k e e' H. destruct (is_group_dec e) as [[s [l ->]]|Hng].
  - left. rewrite shake0_match_group in H. apply bind_ok_inv in H. destruct H as [l' [Hl' H]].
    injection H as <-. eauto 6.
  - right. rewrite (shake0_match_other fu k e Hng) in H. apply bind_ok_inv in H.
    destruct H as [x [Hx H]]. injection H as <-. eauto.
Qed.

Lemma qok_group_len_intro : forall s l, length l <> 1%nat -> quant_operand_ok (EGroup s l) = true.
Proof. intros s [|a [|b l]] H; cbn in *; try reflexivity. lia. Qed.

Lemma shake0_post : forall fuel e e', inv e = true -> shake0 fuel e = Ok e' -> post e e'.
Proof.
  induction fuel as [|fu IH]; intros e e' Hi H.
  { injection H as <-. apply post_refl. exact Hi. }
  destruct e as [s l|l s r|b|f m|f|x|i|z|k e|cols rows|e|f e| |s f c]; try discriminate.
  - (* ---------------- EGroup ---------------- *)
    destruct (inv_group s l Hi) as [Hs [Hl [y1 [l0 El]]]].
    cbn [shake0] in H. rewrite Hs in H. cbn [negb] in H.
    apply bind_ok_inv in H. destruct H as [l' [Hl' H]].
    pose proof (mapM_Forall2 _ _ _ Hl') as HF.
    assert (HP : Forall2 post l l').
    { eapply Forall2_In_impl; [exact HF|]. intros x y Hx _ Hxy. cbn beta in Hxy.
      apply IH; [|exact Hxy]. apply (forallb_In _ _ _ Hl Hx). }
    assert (Hil' : forallb inv l' = true).
    { eapply Forall2_forallb; [exact HP|]. intros x y _ Hp. apply Hp. }
    assert (Hsm : sem_members l l').
    { eapply Forall2_In_impl; [exact HP|]. intros x y _ _ Hp. apply Hp. }
    subst l. destruct l0 as [|y2 l0].
    + (* one member: unwrapped *)
      inversion HP as [|a b la lb Hp1 Hrest]; subst. inversion Hrest; subst.
      injection H as <-. clear HP Hrest HF.
      destruct Hp1 as [P1 [P2 [P3 [P4 [P5 [P6 [P7 [P8 P9]]]]]]]].
      split_post.
      * exact P1.
      * exact P2.
      * exact P3.
      * intros Hq. discriminate Hq.
      * intros Hq. discriminate Hq.
      * intros d. rewrite P6. symmetry. apply sem_group_single. exact Hs.
      * intros s0 l1 E Hlen. injection E as <- <-. cbn in Hlen. lia.
      * intros k d Hq. discriminate Hq.
      * intros f d Hn. cbn [nested_ok head_allor] in Hn. apply negb_true_iff in Hn.
        apply h8_generic.
        -- exact Hi.
        -- exact P1.
        -- exact Hn.
        -- destruct (head_allor b) eqn:Hb; [|reflexivity]. rewrite (P3 eq_refl) in Hn. discriminate.
        -- intros d'. rewrite P6. symmetry. apply sem_group_single. exact Hs.
    + (* two or more members *)
      inversion HP as [|a b la lb Hp1 Hrest]; subst.
      inversion Hrest as [|a2 b2 la2 lb2 Hp2 Hrest2]; subst.
      injection H as <-.
      assert (Hi' : inv (EGroup s (b :: b2 :: lb2)) = true)
        by (apply inv_group_intro; [exact Hs|exact Hil'|discriminate]).
      split_post.
      * exact Hi'.
      * intros Hc. discriminate Hc.
      * intros Hc. discriminate Hc.
      * intros _. reflexivity.
      * intros _ s0 l1 E. injection E as <- <-. eauto.
      * intros d. apply sem_group_cong; assumption.
      * intros s0 l1 E _. injection E as <- <-. eexists. split; [reflexivity|exact Hsm].
      * intros k d _. apply sem_match_group_cong. exact Hsm.
      * intros f d _. apply h8_generic; try assumption; try reflexivity.
        intros d'. apply sem_group_cong; assumption.
  - (* ---------------- EBexp ---------------- *)
    assert (Hi0 := Hi). cbn [inv] in Hi. destruct (is_and_or s) eqn:Hs.
    + apply andb_true_iff in Hi. destruct Hi as [Hil Hir].
      rewrite shake0_bexp_andor in H by exact Hs.
      apply bind_ok_inv in H. destruct H as [l' [Hl' H]].
      apply bind_ok_inv in H. destruct H as [r' [Hr' H]].
      pose proof (IH l l' Hil Hl') as Pl. pose proof (IH r r' Hir Hr') as Pr.
      assert (Hil' : inv l' = true) by apply Pl.
      assert (Hir' : inv r' = true) by apply Pr.
      assert (Hsl : forall d, solve_body o l' d = solve_body o l d) by apply Pl.
      assert (Hsr : forall d, solve_body o r' d = solve_body o r d) by apply Pr.
      pose proof (sem_bexp_cong l l' s r r' Hs Hsl Hsr) as Hcong.
      pose proof (qok_andor_false l s r Hs) as Hq.
      destruct (flat s l' r') as [L|] eqn:Hflat.
      * destruct (flat_spec s l' r' L Hs Hil' Hir' Hflat) as [HiL [Hlong HsL]].
        destruct (long_heads s L Hlong) as [Hn1 [Hn2 [Hn3 Hn4]]].
        destruct (IH _ _ HiL H) as [P1 [P2 [P3 [P4 [P5 [P6 [P7 [P8 P9]]]]]]]].
        assert (Hsem : forall d, solve_body o e' d = solve_body o (EBexp l s r) d).
        { intros d. rewrite P6, HsL. apply Hcong. }
        split_post.
        -- exact P1.
        -- intros Hc. rewrite (P2 Hc) in Hn1. discriminate.
        -- intros Hc. rewrite (P3 Hc) in Hn2. discriminate.
        -- intros Hc. rewrite Hc in Hq. discriminate.
        -- intros Hc. rewrite Hc in Hq. discriminate.
        -- exact Hsem.
        -- intros s0 l0 E. discriminate E.
        -- intros k d Hc. rewrite Hc in Hq. discriminate.
        -- intros f d _. apply h8_generic; try assumption; try reflexivity.
           destruct (head_allor e') eqn:Hb; [|reflexivity]. rewrite (P3 eq_refl) in Hn2. discriminate.
      * injection H as <-.
        assert (Hi' : inv (EBexp l' s r') = true) by (cbn [inv]; rewrite Hs, Hil', Hir'; reflexivity).
        split_post.
        -- exact Hi'.
        -- intros Hc. discriminate Hc.
        -- intros Hc. discriminate Hc.
        -- intros Hc. rewrite Hc in Hq. discriminate.
        -- intros Hc. rewrite Hc in Hq. discriminate.
        -- exact Hcong.
        -- intros s0 l0 E. discriminate E.
        -- intros k d Hc. rewrite Hc in Hq. discriminate.
        -- intros f d _. apply h8_generic; try assumption; reflexivity.
    + apply andb_true_iff in Hi. destruct Hi as [Hll Hlr].
      rewrite shake0_bexp_cmp in H by exact Hs.
      rewrite (shake0_leaf fu l Hll), (shake0_leaf fu r Hlr) in H. cbn [bind] in H.
      injection H as <-. apply post_refl. exact Hi0.
  - (* ---------------- EMatch ---------------- *)
    assert (Hi0 := Hi). cbn [inv] in Hi. apply andb_true_iff in Hi. destruct Hi as [Hq Hie].
    assert (Hpk : exists x, e' = EMatch k x /\ inv (EMatch k x) = true /\
              (forall d, solve_body o (EMatch k x) d = solve_body o (EMatch k e) d) /\
              (forall s l', x = EGroup s l' -> exists l, e = EGroup s l) /\
              (forall s l, e = EGroup s l -> exists l', x = EGroup s l' /\ sem_members l l')).
    { destruct (shake0_match_inv _ _ _ _ H) as [[s [l [l' [-> [Hl' ->]]]]]|[Hng [x [Hx ->]]]].
      - (* fix D14: a group stays a group; its members are shaken *)
        destruct (inv_group s l Hie) as [Hs [Hl [y1 [l0 El]]]].
        pose proof (mapM_Forall2 _ _ _ Hl') as HF.
        assert (HP : Forall2 post l l').
        { eapply Forall2_In_impl; [exact HF|]. intros x y Hx _ Hxy. cbn beta in Hxy.
          apply IH; [|exact Hxy]. apply (forallb_In _ _ _ Hl Hx). }
        assert (Hil' : forallb inv l' = true).
        { eapply Forall2_forallb; [exact HP|]. intros x y _ Hp. apply Hp. }
        assert (Hsm : sem_members l l').
        { eapply Forall2_In_impl; [exact HP|]. intros x y _ _ Hp. apply Hp. }
        pose proof (Forall2_length _ _ _ HP) as Hlen.
        exists (EGroup s l'). split; [reflexivity|]. split; [|split; [|split]].
        + cbn [inv]. rewrite Hs. apply andb_true_iff. split.
          * apply qok_group_len_intro. rewrite <- Hlen. apply (qok_group_len _ _ Hq).
          * cbn [andb]. destruct l' as [|b1 l'0]; [subst l; discriminate Hlen|exact Hil'].
        + intros d. apply sem_match_group_cong. exact Hsm.
        + intros s0 l1 E. injection E as <- <-. eauto.
        + intros s0 l1 E. injection E as <- <-. eauto.
      - destruct (IH _ x Hie Hx) as [P1 [P2 [P3 [P4 [P5 [P6 [P7 [P8 P9]]]]]]]].
        exists x. split; [reflexivity|]. split; [|split; [|split]].
        + cbn [inv]. rewrite (P4 Hq), P1. reflexivity.
        + intros d. apply P8. exact Hq.
        + apply P5. exact Hq.
        + intros s0 l0 E. exfalso. exact (Hng _ _ E). }
    destruct Hpk as [x [-> [Hi' [Hsem [HP5 HP7]]]]].
    assert (Hall : head_allor (EMatch k x) = true -> head_allor (EMatch k e) = true).
    { intros Hc. destruct k as [|n]; [|discriminate Hc].
      destruct x as [s l'| | | | | | | | | | | | |]; try discriminate Hc.
      destruct s; try discriminate Hc.
      destruct (HP5 BOr l' eq_refl) as [l ->]. reflexivity. }
    split_post.
    + exact Hi'.
    + intros Hc. discriminate Hc.
    + exact Hall.
    + intros _. reflexivity.
    + intros _ s l' E. discriminate E.
    + exact Hsem.
    + intros s l E. discriminate E.
    + intros k2 d _. apply h7_other; try reflexivity. exact Hsem.
    + intros f d _.
      destruct (head_allor (EMatch k e)) eqn:Hh; [clear Hall|rewrite <- Hh in Hall].
      * (* all(<or-group>) directly under the nested block: member by member *)
        destruct k as [|n]; [|discriminate Hh].
        destruct e as [s l| | | | | | | | | | | | |]; try discriminate Hh.
        destruct s; try discriminate Hh.
        destruct (HP7 BOr l eq_refl) as [l' [-> Hsm]].
        rewrite !sb_nested.
        destruct (d f) as [[v|]| |]; cbn [bind]; try reflexivity.
        destruct v; try reflexivity; [|apply Hsem].
        cbn [nested_arr]. apply and_fold_F2. apply Forall2_flip'.
        eapply Forall2_In_impl; [exact Hsm|]. intros m m' _ _ Hm.
        apply some_object_ext. exact Hm.
      * apply h8_generic; try assumption.
        apply not_true_is_false. intros Hb. apply Hall in Hb. congruence.
  - (* ---------------- ENegate ---------------- *)
    assert (Hi0 := Hi). cbn [inv] in Hi. apply andb_true_iff in Hi. destruct Hi as [Hhn Hie].
    apply negb_true_iff in Hhn.
    cbn [shake0] in H. apply bind_ok_inv in H. destruct H as [x [Hx H]].
    destruct (IH e x Hie Hx) as [P1 [P2 [P3 [P4 [P5 [P6 [P7 [P8 P9]]]]]]]].
    assert (Hhx : head_neg x = false).
    { destruct (head_neg x) eqn:Hb; [|reflexivity]. rewrite (P2 eq_refl) in Hhn. discriminate. }
    assert (E : e' = ENegate x).
    { destruct x; try (injection H as <-; reflexivity). discriminate Hhx. }
    subst e'. clear H.
    assert (Hi' : inv (ENegate x) = true) by (cbn [inv]; rewrite Hhx, P1; reflexivity).
    assert (Hsem : forall d, solve_body o (ENegate x) d = solve_body o (ENegate e) d)
      by (intros d; rewrite !sb_negate, P6; reflexivity).
    split_post.
    + exact Hi'.
    + intros _. reflexivity.
    + intros Hc. discriminate Hc.
    + intros _. reflexivity.
    + intros _ s l' E. discriminate E.
    + exact Hsem.
    + intros s l E. discriminate E.
    + intros k d _. apply h7_other; try reflexivity. exact Hsem.
    + intros f d _. apply h8_generic; try assumption; reflexivity.
  - (* ---------------- ENested ---------------- *)
    assert (Hi0 := Hi). cbn [inv] in Hi. apply andb_true_iff in Hi. destruct Hi as [Hno Hie].
    cbn [shake0] in H. apply bind_ok_inv in H. destruct H as [x [Hx H]]. injection H as <-.
    destruct (IH e x Hie Hx) as [P1 [P2 [P3 [P4 [P5 [P6 [P7 [P8 P9]]]]]]]].
    assert (Hno' : nested_ok x = true).
    { destruct (head_allor x) eqn:Hb; [|apply head_allor_false_nested_ok; exact Hb].
      pose proof (P3 eq_refl) as He.
      destruct e as [s l| | | | | | | |k e0| | | | |]; try discriminate He.
      - cbn [nested_ok] in Hno. rewrite He in Hno. discriminate.
      - destruct (shake0_match_head _ _ _ _ Hx) as [x0 ->]. reflexivity. }
    assert (Hi' : inv (ENested f x) = true) by (cbn [inv]; rewrite Hno', P1; reflexivity).
    assert (Hsem : forall d, solve_body o (ENested f x) d = solve_body o (ENested f e) d)
      by (intros d; apply P9; exact Hno).
    split_post.
    + exact Hi'.
    + intros Hc. discriminate Hc.
    + intros Hc. discriminate Hc.
    + intros _. reflexivity.
    + intros _ s l' E. discriminate E.
    + exact Hsem.
    + intros s l E. discriminate E.
    + intros k d _. apply h7_other; try reflexivity. exact Hsem.
    + intros f2 d _. apply h8_generic; try assumption; reflexivity.
  - (* ---------------- ESearch ---------------- *)
    injection H as <-. apply post_refl. exact Hi.
Qed.
End Shake.

(* shake0_exact as stated is false, in three independent ways *)
Definition s1_ex : expr := ESearch (SExact [49%N]) [97%N] false.
Definition s2_ex : expr := ESearch (SExact [50%N]) [98%N] false.

(* a: a one-member group around all(<or-group>) under a nested block over an array *)
Example shake0_exact_refuted_nested :
  let e := ENested [102%N] (EGroup BAnd [EMatch MAll (EGroup BOr [s1_ex; s2_ex])]) in
  let d := pure_doc (fun k => if str_eqb k [102%N]
                     then Some (VArr [VObj [([97%N], VStr [49%N])]; VObj [([98%N], VStr [50%N])]])
                     else None) in
  wf_body e = true /\ sh0 e = true /\ no_dneg e = true /\
  exists e', shake0 10 e = Ok e' /\ solve_body o0 e d = Ok F /\ solve_body o0 e' d = Ok T.
Proof.
  cbv zeta. repeat split; try reflexivity.
  eexists. split; [vm_compute; reflexivity|]. split; vm_compute; reflexivity.
Qed.

(* b: an and-chain over an empty group collapses to its other operand; the double negation
   that appears is not seen by head_neg *)
Example shake0_exact_refuted_empty_group :
  let e := ENegate (EBexp (EGroup BAnd []) BAnd (ENegate s1_ex)) in
  let d := pure_doc (fun _ => None) in
  wf_body e = true /\ sh0 e = true /\ no_dneg e = true /\
  exists e', shake0 10 e = Ok e' /\ solve_body o0 e d = Ok T /\ solve_body o0 e' d = Ok M.
Proof.
  cbv zeta. repeat split; try reflexivity.
  eexists. split; [vm_compute; reflexivity|]. split; vm_compute; reflexivity.
Qed.

(* c: wf_body does not constrain the operands of a comparison *)
Example shake0_exact_refuted_cmp_operand :
  let e := EBexp (EGroup BAnd [EField [97%N]]) BEqual (EInt 1) in
  let d := pure_doc (fun k => if str_eqb k [97%N] then Some (VInt 1) else None) in
  wf_body e = true /\ sh0 e = true /\ no_dneg e = true /\
  exists e', shake0 10 e = Ok e' /\ solve_body o0 e d = Ok F /\ solve_body o0 e' d = Ok T.
Proof.
  cbv zeta. repeat split; try reflexivity.
  eexists. split; [vm_compute; reflexivity|]. split; vm_compute; reflexivity.
Qed.

Lemma no_dneg_here : forall e, no_dneg e = true -> exists_sub dneg_here false e = false.
Proof. intros e H. unfold no_dneg in H. apply negb_true_iff in H. exact H. Qed.

Lemma shake0_exact_alt : forall o fuel e e' d,
  wf_body e = true -> sh0 e = true -> no_dneg e = true -> shx e = true ->
  shake0 fuel e = Ok e' ->
  solve_body o e' d = solve_body o e d.
Proof.
  intros o fuel e e' d Hwf Hsh Hdn Hx H.
  assert (Hi : inv e = true) by (apply (inv_of e false); auto using no_dneg_here).
  apply (shake0_post o fuel e e' Hi H).
Qed.

(* the shape predicates pass from a group to its members (the entries of an identifier body) *)
Lemma exists_sub_member : forall p n s l x, exists_sub p n (EGroup s l) = false -> In x l ->
  exists_sub p n x = false.
Proof.
  intros p n s l x H Hx. cbn [exists_sub] in H. apply orb_false_iff in H. destruct H as [_ H].
  destruct (exists_sub p n x) eqn:E; [|reflexivity].
  rewrite <- H. symmetry. apply existsb_exists. exists x. split; assumption.
Qed.
Lemma no_dneg_member : forall s l x, no_dneg (EGroup s l) = true -> In x l -> no_dneg x = true.
Proof.
  intros s l x H Hx. unfold no_dneg in *. apply negb_true_iff in H. apply negb_true_iff.
  exact (exists_sub_member _ _ _ _ _ H Hx).
Qed.
Lemma shx_member : forall s l x, shx (EGroup s l) = true -> In x l -> shx x = true.
Proof.
  intros s l x H Hx. cbn [shx] in H. destruct l as [|y l']; [destruct Hx|].
  exact (forallb_In _ _ _ H Hx).
Qed.
Lemma wf_body_member : forall s l x, wf_body (EGroup s l) = true -> In x l -> wf_body x = true.
Proof.
  intros s l x H Hx. cbn [wf_body] in H. apply andb_true_iff in H. destruct H as [_ H].
  exact (forallb_In _ _ _ H Hx).
Qed.
Lemma wf_body_group : forall s l, wf_body (EGroup s l) = true -> is_and_or s = true.
Proof. intros s l H. cbn [wf_body] in H. apply andb_true_iff in H. destruct H as [H _]. exact H. Qed.

(* shake_0 also keeps the shape: the result can be shaken again *)
Lemma shake0_keeps_inv : forall fuel e e',
  wf_body e = true -> sh0 e = true -> no_dneg e = true -> shx e = true ->
  shake0 fuel e = Ok e' -> inv e' = true.
Proof.
  intros fuel e e' Hwf Hsh Hdn Hx H.
  assert (Hi : inv e = true) by (apply (inv_of e false); auto using no_dneg_here).
  apply (shake0_post o0 fuel e e' Hi H).
Qed.

(* ================= whole rules: coalesce and rewrite only ================= *)
Lemma lookup_In : forall {A} i (l : list (str * A)) b, lookup i l = Some b -> exists k, In (k, b) l.
Proof.
  intros A i. induction l as [|[k v] l IH]; intros b H; [discriminate|].
  cbn [lookup] in H. destruct (str_eqb i k).
  - injection H as <-. exists k. left. reflexivity.
  - destruct (IH b H) as [k' Hk]. exists k'. right. exact Hk.
Qed.

Lemma wf_det_ids : forall dt, wf_det dt = true -> ids_wf (d_ids dt).
Proof.
  intros dt H. unfold wf_det in H. apply andb_true_iff in H. destruct H as [_ H].
  intros i b Hl. destruct (lookup_In i _ b Hl) as [k Hk].
  apply (forallb_In _ _ _ H Hk).
Qed.

(* the statement without the extra shape hypotheses is false (same witness as coalesce) *)
Example optimise_coalesce_rewrite_exact_refuted :
  let ids := [([88%N], EGroup BOr [ESearch (SExact [49%N]) [97%N] false;
                                   ESearch (SExact [50%N]) [98%N] false])] in
  let r := mk_rule (ENested [102%N] (EMatch MAll (EIdent [88%N]))) ids in
  let d := pure_doc (fun k => if str_eqb k [102%N]
                     then Some (VArr [VObj [([97%N], VStr [49%N])]; VObj [([98%N], VStr [50%N])]])
                     else None) in
  let sw := {| sw_coalesce := true; sw_shake := false; sw_rewrite := false; sw_matrix := false |} in
  wf_det (r_det r) = true /\
  exists r', optimise o0 (fun k => k) sw r = Ok r' /\
             solve_rule3 o0 (r_det r) d = Ok F /\ solve_rule3 o0 (r_det r') d = Ok T.
Proof.
  cbv zeta. split; [reflexivity|].
  eexists. split; [vm_compute; reflexivity|]. split; vm_compute; reflexivity.
Qed.

Lemma optimise_coalesce_rewrite_exact_alt : forall o ord sw r d,
  H_strip o ->
  sw_shake sw = false -> sw_matrix sw = false ->
  wf_det (r_det r) = true -> r_optimised r = false ->
  no_nested (d_expr (r_det r)) = true -> cmp_leaves (d_expr (r_det r)) = true ->
  exists r', optimise o ord sw r = Ok r' /\
             solve_rule3 o (r_det r') d = solve_rule3 o (r_det r) d.
Proof.
  intros o ord sw r d Hs Hsh Hmx Hwf Hopt Hnn Hcl.
  pose proof (wf_det_ids _ Hwf) as Hids.
  assert (Hwc : wf_cond (d_ids (r_det r)) (d_expr (r_det r)) = true).
  { unfold wf_det in Hwf. apply andb_true_iff in Hwf. apply Hwf. }
  unfold optimise. rewrite Hopt. unfold optimise_detection. rewrite Hsh, Hmx.
  destruct (sw_coalesce sw).
  - destruct (coalesce_sem o _ Hids _ Hwc Hnn Hcl) as [e' [He' [_ Hsem]]].
    rewrite He'. cbn [bind d_expr d_ids].
    eexists. split; [reflexivity|]. cbn [r_det]. unfold solve_rule3.
    destruct (sw_rewrite sw); cbn [d_expr d_ids map].
    + rewrite <- Hsem. change (solve_cond o [] (rewrite o e') d) with (solve_body o (rewrite o e') d).
      apply rw_body. exact Hs.
    + rewrite <- Hsem. reflexivity.
  - cbn [bind]. eexists. split; [reflexivity|]. cbn [r_det]. unfold solve_rule3.
    destruct (sw_rewrite sw); cbn [d_expr d_ids]; [|reflexivity].
    apply rewrite_exact. exact Hs.
Qed.
Lemma exact_implies_verdict : forall o dt dt' (d : doc),
  solve_rule3 o dt' (pure_doc d) = solve_rule3 o dt (pure_doc d) ->
  forall r r', r_det r = dt -> r_det r' = dt' -> matches o r' d = matches o r d.
Proof.
  intros o dt dt' d H r r' Hr Hr'. unfold matches. rewrite Hr, Hr', H. reflexivity.
Qed.

Example refuted_D13 :
  let r := mk_rule (ENegate (ENegate (EIdent [65%N]))) [([65%N], ESearch (SExact [120%N]) [102%N] false)] in
  let d : doc := fun _ => None in
  matches o0 r d = Ok true /\
  exists r', optimise o0 (fun k => k) sw_only_shake r = Ok r' /\ matches o0 r' d = Ok false.
Proof.
  cbv zeta. split; [vm_compute; reflexivity|].
  eexists; split; [vm_compute; reflexivity|vm_compute; reflexivity].
Qed.

(* class D14 is fixed in the crate (shake_0 keeps the group a quantifier holds): the former
   witness `refuted_D14` (verdict false before, true after optimise) now keeps its verdict, and
   the optimised condition still holds the one-member group *)
Example fixed_D14 :
  let body := EGroup BOr [ESearch (SAho [MTContains [97%N]; MTContains [98%N]] false) [102%N] false] in
  let r := mk_rule (EMatch (MOf 2) (EIdent [88%N])) [([88%N], body)] in
  let d : doc := fun k => if str_eqb k [102%N] then Some (VStr [97%N; 98%N]) else None in
  matches o0 r d = Ok false /\
  exists r', optimise o0 (fun k => k) sw_coalesce_shake r = Ok r' /\
             d_expr (r_det r') = EMatch (MOf 2) body /\ matches o0 r' d = Ok false.
Proof.
  cbv zeta. split; [vm_compute; reflexivity|].
  eexists; split; [vm_compute; reflexivity|]. split; vm_compute; reflexivity.
Qed.

(* (since fix D15/D20 an identifier body that is not inlined keeps its top-level group, so the
   witness needs the coalesce switch: the and-group is merged as part of the condition) *)
Example refuted_D16 :
  let body := EGroup BAnd [ENested [120%N] (EBexp (EField [97%N]) BEqual (EInt 1));
                           ENested [121%N] (EBexp (EField [98%N]) BEqual (EInt 2))] in
  let r := mk_rule (ENegate (EIdent [65%N])) [([65%N], body)] in
  let d : doc := fun k => if str_eqb k [120%N] then Some (VObj [([97%N], VInt 5)]) else None in
  matches o0 r d = Ok true /\
  (exists r', optimise o0 (fun k => k) sw_coalesce_shake r = Ok r' /\ matches o0 r' d = Ok true) /\
  (exists r', optimise o0 (@rev key) sw_coalesce_shake r = Ok r' /\ matches o0 r' d = Ok false).
Proof.
  cbv zeta. split; [vm_compute; reflexivity|]. split.
  - eexists; split; [vm_compute; reflexivity|vm_compute; reflexivity].
  - eexists; split; [vm_compute; reflexivity|vm_compute; reflexivity].
Qed.
