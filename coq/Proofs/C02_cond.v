(* C02 (conditions and whole rules): the condition tree over identifiers refines the
   reference semantics of Model/Spec.v; what the loader accepts has the shape cond_shape;
   whole rules, given the refinement of identifiers. *)
From TauModel Require Import Base Num Oracles Syntax Generated Token Pratt Value Yaml ParseMap
     Solver Rule Keys Spec.
From TauProofs Require C03 C06.
From Coq Require Import Lia ZArith ZifyBool List Bool.
Import ListNotations.

(* ====================================================================================== *)
(* generic helpers                                                                         *)
(* ====================================================================================== *)

Lemma str_eqb_true_eq : forall a b, str_eqb a b = true -> a = b.
Proof.
  induction a as [|x a IH]; intros [|y b] H; cbn [str_eqb] in H; try discriminate.
  - reflexivity.
  - apply andb_true_iff in H. destruct H as [Hx Hs].
    apply N.eqb_eq in Hx. rewrite Hx, (IH b Hs). reflexivity.
Qed.

(* thresholds of of(.., c): the parser only builds 0 <= c *)
Fixpoint thresholds_ok (e : expr) : bool :=
  match e with
  | ENegate e' => thresholds_ok e'
  | EMatch (MOf c) _ => (0 <=? c)%Z
  | EBexp l _ r => thresholds_ok l && thresholds_ok r
  | _ => true
  end.

(* ====================================================================================== *)
(* three-valued tables: the solver's folds on evaluated members and the reference tables   *)
(* ====================================================================================== *)

Lemma first_non_true_same : forall rs, C06.first_non_true rs = first_non_true rs.
Proof. induction rs as [|r rs IH]; [reflexivity|]. destruct r; cbn; [exact IH | reflexivity | reflexivity]. Qed.

Lemma count_T_same : forall rs, C06.count_T rs = count3 T rs.
Proof.
  intros rs. unfold C06.count_T, count3.
  assert (E : filter C06.is_T rs = filter (res3_eqb T) rs).
  { induction rs as [|r rs IH]; [reflexivity|]. cbn [filter]. rewrite IH. destruct r; reflexivity. }
  rewrite E. reflexivity.
Qed.

Lemma all_missing_same : forall rs, forallb (fun r => res3_eqb r M) rs = all_missing rs.
Proof.
  unfold all_missing. induction rs as [|r rs IH]; [reflexivity|]. cbn [forallb]. rewrite IH.
  destruct r; reflexivity.
Qed.

Lemma existsb_T_count : forall rs, existsb C06.is_T rs = (0 <? count3 T rs)%Z.
Proof.
  intros rs. unfold count3. induction rs as [|r rs IH]; [reflexivity|].
  cbn [existsb filter]. destruct r; cbn [C06.is_T res3_eqb orb].
  - cbn [length]. symmetry. apply Z.ltb_lt. lia.
  - exact IH.
  - exact IH.
Qed.

Lemma existsb_F_count : forall rs, existsb C06.is_F rs = (0 <? count3 F rs)%Z.
Proof.
  intros rs. unfold count3. induction rs as [|r rs IH]; [reflexivity|].
  cbn [existsb filter]. destruct r; cbn [C06.is_F res3_eqb orb].
  - exact IH.
  - cbn [length]. symmetry. apply Z.ltb_lt. lia.
  - exact IH.
Qed.

(* of_fold on evaluated members is the reference table of3 (for 0 <= c) *)
Lemma of_fold_of3 : forall c rs, (0 <= c)%Z -> of_fold c (C06.lz rs) = Ok (of3 c rs).
Proof.
  intros c rs Hc. unfold of3. destruct (Z.eqb_spec c 0) as [->|Hne].
  - rewrite C06.of_zero_spec. rewrite existsb_T_count, existsb_F_count. reflexivity.
  - rewrite C06.of_pos_spec by lia. rewrite count_T_same, all_missing_same. reflexivity.
Qed.

Lemma and_fold_fnt : forall rs, and_fold (C06.lz rs) = Ok (first_non_true rs).
Proof. intros rs. rewrite C06.and_group_spec, first_non_true_same. reflexivity. Qed.

(* members that evaluate to given results: the folds only see the results *)
Section FoldsForall2.
Variable f : expr -> out res3.

Lemma and_fold_F2 : forall g rs, Forall2 (fun x r => f x = Ok r) g rs ->
  and_fold (map (fun x (_ : unit) => f x) g) = and_fold (C06.lz rs).
Proof.
  intros g rs H. induction H as [|x r g rs Hx H IH]; [reflexivity|].
  rewrite C06.lz_cons. cbn [map and_fold]. rewrite Hx. cbn [bind]. rewrite IH. reflexivity.
Qed.

Lemma of0_fold_F2 : forall g rs, Forall2 (fun x r => f x = Ok r) g rs ->
  forall acc, of0_fold acc (map (fun x (_ : unit) => f x) g) = of0_fold acc (C06.lz rs).
Proof.
  intros g rs H. induction H as [|x r g rs Hx H IH]; intros acc; [reflexivity|].
  rewrite C06.lz_cons. cbn [map of0_fold]. rewrite Hx. cbn [bind]. rewrite !IH. reflexivity.
Qed.

Lemma ofn_fold_F2 : forall g rs, Forall2 (fun x r => f x = Ok r) g rs ->
  forall c count acc, ofn_fold c count acc (map (fun x (_ : unit) => f x) g) = ofn_fold c count acc (C06.lz rs).
Proof.
  intros g rs H. induction H as [|x r g rs Hx H IH]; intros c count acc; [reflexivity|].
  rewrite C06.lz_cons. cbn [map ofn_fold]. rewrite Hx. cbn [bind]. rewrite !IH. reflexivity.
Qed.

Lemma of_fold_F2 : forall g rs c, Forall2 (fun x r => f x = Ok r) g rs ->
  of_fold c (map (fun x (_ : unit) => f x) g) = of_fold c (C06.lz rs).
Proof.
  intros g rs c H. unfold of_fold. destruct (c =? 0)%Z.
  - apply of0_fold_F2. exact H.
  - apply ofn_fold_F2. exact H.
Qed.
End FoldsForall2.

(* of3 on a single entry *)
Lemma of3_single : forall c x, (0 <= c)%Z ->
  of3 c [x] = if (c =? 0)%Z then match x with T => F | F => T | M => M end
              else match x with T => if (1 <? c)%Z then F else T | y => y end.
Proof.
  intros c x Hc. unfold of3, count3, all_missing.
  destruct (Z.eqb_spec c 0) as [->|Hne].
  - destruct x; reflexivity.
  - destruct x; cbn [filter res3_eqb length forallb andb Z.of_nat].
    + change (Z.pos (Pos.of_succ_nat 0)) with 1%Z.
      destruct (Z.ltb_spec 1 c), (Z.leb_spec c 1); try reflexivity; lia.
    + destruct (Z.leb_spec c 0); [lia | reflexivity].
    + destruct (Z.leb_spec c 0); [lia | reflexivity].
Qed.

Lemma first_non_true_single : forall x, first_non_true [x] = x.
Proof. destruct x; reflexivity. Qed.

(* ====================================================================================== *)
(* string searches under all() / of() with a single needle                                 *)
(* ====================================================================================== *)

Lemma existsb_ext' {A} (p q : A -> bool) : (forall x, p x = q x) -> forall l, existsb p l = existsb q l.
Proof. intros H. induction l as [|x l IH]; [reflexivity|]. cbn [existsb]. rewrite H, IH. reflexivity. Qed.

Lemma search_value_ext : forall o p q cast v, (forall h, p h = q h) ->
  search_value o p cast v = search_value o q cast v.
Proof.
  intros o p q cast v H. destruct v; cbn [search_value]; try reflexivity;
    try (destruct cast; [|reflexivity]; destruct (cast_text o _); [rewrite H|]; reflexivity).
  - rewrite H. reflexivity.
  - rewrite (existsb_ext' p q H). reflexivity.
Qed.

Lemma field_search_ext : forall o d f cast p q, (forall h, p h = q h) ->
  field_search o d f cast p = field_search o d f cast q.
Proof.
  intros o d f cast p q H. unfold field_search. destruct (d f) as [[v|]|k|s]; cbn [bind]; try reflexivity.
  rewrite (search_value_ext o p q cast v H). reflexivity.
Qed.

Lemma existsb_false {A} (l : list A) : existsb (fun _ => false) l = false.
Proof. induction l as [|x l IH]; [reflexivity|]. cbn [existsb]. exact IH. Qed.

(* a test that never holds: true becomes false, missing stays missing *)
Lemma field_search_never : forall o (d : doc) f cast p,
  field_search o (pure_doc d) f cast (fun _ => false) =
  bind (field_search o (pure_doc d) f cast p) (fun r => Ok (match r with T => F | y => y end)).
Proof.
  intros o d f cast p. unfold field_search, pure_doc. cbn [bind].
  destruct (d f) as [v|]; [|reflexivity].
  destruct v; cbn [search_value res_of_search]; try reflexivity.
  - destruct cast; [|reflexivity]. cbn [cast_text]. destruct (p _); reflexivity.
  - destruct cast; [|reflexivity]. cbn [cast_text]. destruct (p _); reflexivity.
  - destruct cast; [|reflexivity]. cbn [cast_text]. destruct (p _); reflexivity.
  - destruct cast; [|reflexivity]. cbn [cast_text]. destruct (p _); reflexivity.
  - destruct (p s); reflexivity.
  - rewrite existsb_false. destruct (existsb p _); reflexivity.
Qed.

Lemma slow_aho_one : forall m ci h, slow_aho [m] ci h = if mtype_holds ci m h then 1%Z else 0%Z.
Proof. intros. unfold slow_aho, count_true. cbn [filter]. destruct (mtype_holds ci m h); reflexivity. Qed.

Lemma regexset_one : forall o p ci h, regexset_hits o [p] ci h = if re_match o p ci h then 1%Z else 0%Z.
Proof. intros. unfold regexset_hits, count_true. cbn [filter]. destruct (re_match o p ci h); reflexivity. Qed.

(* the three per-needle tests, for a hit count k in {0, 1} given by a boolean *)
Lemma all_test_one : forall (b : bool), ((if b then 1 else 0) =? 1)%Z = b.
Proof. destruct b; reflexivity. Qed.

Lemma of_test_one : forall c (b : bool), (1 <= c)%Z ->
  (c <=? (if b then 1 else 0))%Z = if (1 <? c)%Z then false else b.
Proof.
  intros c b Hc. destruct b.
  - destruct (Z.ltb_spec 1 c), (Z.leb_spec c 1); try reflexivity; lia.
  - destruct (Z.leb_spec c 0); [lia|]. destruct (1 <? c)%Z; reflexivity.
Qed.

(* ====================================================================================== *)
(* all(X) / of(X, c) over an identifier                                                    *)
(* ====================================================================================== *)

Lemma match_refines : forall o ic ids i k y b (d : doc),
  ident_ok o ic y b -> lookup i ids = Some b ->
  thresholds_ok (EMatch k (EIdent i)) = true ->
  solve_cond o ids (EMatch k (EIdent i)) (pure_doc d) =
  Ok (match k with
      | MAll => first_non_true (sem_entries o ic y d)
      | MOf c => of3 c (sem_entries o ic y d)
      end).
Proof.
  intros o ic ids i k y b d [H1 H2] Hl Ht. unfold solve_cond.
  destruct k as [|c]; cbn [solve]; rewrite Hl.
  - (* all *)
    destruct b as [ s g | l1 op r1 | bb | f m | f | x | j | z | k e | cols rows | e | f e | | s f cst ];
      try (cbn [match_all]; rewrite H2, first_non_true_single; apply H1).
    + destruct H2 as [_ H2].
      rewrite (and_fold_F2 (fun x => solve_body o x (pure_doc d)) g _ (H2 d)).
      apply and_fold_fnt.
    + destruct H2.
    + destruct s as [ctx ci| | | | | |ps ci| ];
        try (cbn [match_all]; rewrite H2, first_non_true_single; apply H1).
      * destruct H2 as [Hlen H2]. rewrite H2, first_non_true_single. rewrite <- H1.
        destruct ctx as [|m [|m' ctx]]; try discriminate Hlen.
        cbn [match_all]. unfold solve_body. cbn [solve].
        apply field_search_ext. intros h. rewrite slow_aho_one.
        change (len_Z [m]) with 1%Z. rewrite all_test_one.
        cbn [search existsb]. rewrite orb_false_r. reflexivity.
      * destruct H2 as [Hlen H2]. rewrite H2, first_non_true_single. rewrite <- H1.
        destruct ps as [|p [|p' ps]]; try discriminate Hlen.
        cbn [match_all]. unfold solve_body. cbn [solve].
        apply field_search_ext. intros h. rewrite regexset_one.
        change (len_Z [p]) with 1%Z. rewrite all_test_one.
        cbn [search existsb]. rewrite orb_false_r. reflexivity.
  - (* of *)
    cbn [thresholds_ok] in Ht. apply Z.leb_le in Ht.
    assert (Hgen : forall b', (forall d, solve_body o b' (pure_doc d) = Ok (sem_identifier o ic y d)) ->
              (forall d, sem_entries o ic y d = [sem_identifier o ic y d]) ->
              (if (c =? 0)%Z
               then do r <- solve_body o b' (pure_doc d); Ok (match r with T => F | F => T | M => M end)
               else do r <- solve_body o b' (pure_doc d);
                    Ok (match r with T => if (1 <? c)%Z then F else T | x => x end))
              = Ok (of3 c (sem_entries o ic y d))).
    { intros b' G1 G2. rewrite G2, of3_single by exact Ht. rewrite G1. cbn [bind].
      destruct (c =? 0)%Z; reflexivity. }
    destruct b as [ s g | l1 op r1 | bb | f m | f | x | j | z | k e | cols rows | e | f e | | s f cst ];
      try (exact (Hgen _ H1 H2)).
    + destruct H2 as [_ H2].
      rewrite (of_fold_F2 (fun x => solve_body o x (pure_doc d)) g _ c (H2 d)).
      apply of_fold_of3. exact Ht.
    + destruct H2.
    + destruct s as [ctx ci| | | | | |ps ci| ]; try (exact (Hgen _ H1 H2)).
      * destruct H2 as [Hlen H2]. 
        destruct ctx as [|m [|m' ctx]]; try discriminate Hlen.
        unfold match_of. destruct (Z.eqb_spec c 0) as [Ec|Ec].
        { pose proof (Hgen _ H1 H2) as G. rewrite Ec in G. cbn [Z.eqb] in G. rewrite Ec. exact G. }
        rewrite H2, of3_single by exact Ht.
        destruct (Z.eqb_spec c 0) as [Ec'|_]; [contradiction|].
        pose proof (H1 d) as Hx. unfold solve_body in Hx. cbn [solve] in Hx.
        destruct (1 <? c)%Z eqn:E1.
        -- rewrite (field_search_ext o _ f cst _ (fun _ => false)).
           ++ rewrite (field_search_never o d f cst (search o (SAho [m] ci))), Hx. cbn [bind].
              destruct (sem_identifier o ic y d); reflexivity.
           ++ intros h. rewrite slow_aho_one, of_test_one by lia. rewrite E1. reflexivity.
        -- rewrite (field_search_ext o _ f cst _ (search o (SAho [m] ci))).
           ++ rewrite Hx. destruct (sem_identifier o ic y d); reflexivity.
           ++ intros h. rewrite slow_aho_one, of_test_one by lia. rewrite E1.
              cbn [search existsb]. rewrite orb_false_r. reflexivity.
      * destruct H2 as [Hlen H2]. 
        destruct ps as [|p [|p' ps]]; try discriminate Hlen.
        unfold match_of. destruct (Z.eqb_spec c 0) as [Ec|Ec].
        { pose proof (Hgen _ H1 H2) as G. rewrite Ec in G. cbn [Z.eqb] in G. rewrite Ec. exact G. }
        rewrite H2, of3_single by exact Ht.
        destruct (Z.eqb_spec c 0) as [Ec'|_]; [contradiction|].
        pose proof (H1 d) as Hx. unfold solve_body in Hx. cbn [solve] in Hx.
        destruct (1 <? c)%Z eqn:E1.
        -- rewrite (field_search_ext o _ f cst _ (fun _ => false)).
           ++ rewrite (field_search_never o d f cst (search o (SRegexSet [p] ci))), Hx. cbn [bind].
              destruct (sem_identifier o ic y d); reflexivity.
           ++ intros h. rewrite regexset_one, of_test_one by lia. rewrite E1. reflexivity.
        -- rewrite (field_search_ext o _ f cst _ (search o (SRegexSet [p] ci))).
           ++ rewrite Hx. destruct (sem_identifier o ic y d); reflexivity.
           ++ intros h. rewrite regexset_one, of_test_one by lia. rewrite E1.
              cbn [search existsb]. rewrite orb_false_r. reflexivity.
Qed.

(* ====================================================================================== *)
(* comparisons of casts and constants                                                      *)
(* ====================================================================================== *)

Definition opnd (a : option (option num)) : operand :=
  match a with
  | None => OMissing
  | Some None => OFalse
  | Some (Some (NInt z)) => OVal (VInt z)
  | Some (Some (NFlt x)) => OVal (VFloat x)
  end.

Lemma cast_int_num : forall o x, cast_int x = opnd (Some (num_of_value o KInt x)).
Proof.
  intros o x. destruct x; cbn [cast_int num_of_value opnd option_map]; try reflexivity.
  - destruct (f64_to_i64 f); reflexivity.
  - destruct (z <=? i64_max)%Z; reflexivity.
  - destruct (parse_i64 s); reflexivity.
Qed.

Lemma cast_flt_num : forall o x, cast_flt o x = opnd (Some (num_of_value o KFlt x)).
Proof.
  intros o x. destruct x; cbn [cast_flt num_of_value opnd option_map]; try reflexivity.
  destruct (f64_parse o s); reflexivity.
Qed.

Lemma cmp_int : forall op a b, compare_values (VInt a) op (VInt b) = rel_int op a b.
Proof. destruct op; reflexivity. Qed.
Lemma cmp_flt : forall op a b, compare_values (VFloat a) op (VFloat b) = rel_flt op a b.
Proof. destruct op; reflexivity. Qed.


Lemma side_flt : forall o (d : doc) f,
  match d f with Some v => cast_flt o v | None => OMissing end = opnd (field_num o KFlt d f).
Proof. intros. unfold field_num. destruct (d f); [apply cast_flt_num | reflexivity]. Qed.

Lemma side_int : forall o (d : doc) f,
  match d f with Some v => cast_int v | None => OMissing end = opnd (field_num o KInt d f).
Proof. intros. unfold field_num. destruct (d f); [apply cast_int_num | reflexivity]. Qed.

Lemma cmp_generic : forall op a b,
  match opnd a with
  | OVal x => match opnd b with
              | OVal y => Ok (res_of_bool (compare_values x op y))
              | OMissing => Ok M
              | OFalse => Ok F
              end
  | OMissing => Ok M
  | OFalse => Ok F
  end =
  Ok match a with
     | Some (Some a) =>
         match b with
         | Some (Some b) =>
             match a with
             | NInt x => match b with NInt y => if rel_int op x y then T else F | NFlt _ => F end
             | NFlt x => match b with NInt _ => F | NFlt y => if rel_flt op x y then T else F end
             end
         | Some None => F
         | None => M
         end
     | Some None => F
     | None => M
     end.
Proof.
  intros op a b. destruct a as [[[x|x]|]|]; cbn [opnd]; try reflexivity;
    destruct b as [[[y|y]|]|]; cbn [opnd]; try reflexivity.
  all: destruct op; reflexivity.
Qed.

Lemma value_to_string_text : forall o x,
  value_to_string o x = match x with VStr s => Some s | _ => scalar_text o x end.
Proof. destruct x; reflexivity. Qed.

Lemma cmp_refines : forall o ic raw l op r (d : doc),
  match op with BAnd | BOr => False | _ => True end ->
  types_ok (match op with BEqual => true | _ => false end) l r = true ->
  solve_compare o (pure_doc d) l op r = Ok (sem_cond o ic raw (EBexp l op r) d).
Proof.
  intros o ic raw l op r d Hop Ht.
  unfold types_ok in Ht.
  repeat match type of Ht with
         | context [match ?x with _ => _ end] => is_var x; destruct x; try discriminate Ht
         end;
  try (destruct op; try contradiction; try discriminate Ht).
  all: unfold solve_compare.
  all: cbn [sem_cond operand_of pure_doc bind].
  all: rewrite ?side_flt, ?(side_int o).
  all: try exact (cmp_generic _ (field_num o _ d _) (field_num o _ d _)).
  all: try match goal with
       | |- context [compare_values _ _ (VFloat ?x)] =>
           exact (cmp_generic _ (field_num o KFlt d _) (Some (Some (NFlt x))))
       | |- context [compare_values (VFloat ?x) _ _] =>
           exact (cmp_generic _ (Some (Some (NFlt x))) (field_num o KFlt d _))
       | |- context [compare_values _ _ (VInt ?x)] =>
           exact (cmp_generic _ (field_num o KInt d _) (Some (Some (NInt x))))
       | |- context [compare_values (VInt ?x) _ _] =>
           exact (cmp_generic _ (Some (Some (NInt x))) (field_num o KInt d _))
       end.
  destruct (d f) as [x|]; [|reflexivity]. rewrite value_to_string_text.
  destruct (match x with VStr s => Some s | _ => scalar_text o x end) as [xs|]; [|reflexivity].
  destruct (d f0) as [y|]; [|reflexivity]. rewrite value_to_string_text.
  destruct (match y with VStr s => Some s | _ => scalar_text o y end) as [ys|]; [|reflexivity].
  reflexivity.
Qed.

(* ====================================================================================== *)
(* conditions                                                                              *)
(* ====================================================================================== *)

Lemma sem_cond_and : forall o ic raw l r d,
  sem_cond o ic raw (EBexp l BAnd r) d = first_non_true [sem_cond o ic raw l d; sem_cond o ic raw r d].
Proof. intros. destruct l; try reflexivity. destruct m; reflexivity. Qed.

Lemma sem_cond_or : forall o ic raw l r d,
  sem_cond o ic raw (EBexp l BOr r) d = or3 (sem_cond o ic raw l d) (sem_cond o ic raw r d).
Proof. intros. destruct l; try reflexivity. destruct m; reflexivity. Qed.

Lemma cond_refines_alt : forall o ic ids raw e (d : doc),
  (forall i, match lookup i raw, lookup i ids with
             | Some y, Some b => ident_ok o ic y b
             | None, None => True
             | _, _ => False
             end) ->
  thresholds_ok e = true ->
  cond_shape e = true -> wf_cond ids e = true ->
  solve_cond o ids e (pure_doc d) = Ok (sem_cond o ic raw e d).
Proof.
  intros o ic ids raw e d Hids.
  induction e as [ s g | l IHl op r IHr | bb | f m | f | x | i | z | k e IHe | cols rows | e IHe | f e IHe | | s f cst ];
    intros Ht Hs Hw; try discriminate Hs.
  - (* EBexp *)
    cbn [cond_shape] in Hs. cbn [thresholds_ok] in Ht. apply andb_prop in Ht. destruct Ht as [Htl Htr].
    destruct op.
    + apply andb_prop in Hs. destruct Hs as [Hsl Hsr].
      cbn [wf_cond is_and_or_op] in Hw. apply andb_prop in Hw. destruct Hw as [Hwl Hwr].
      rewrite sem_cond_and. unfold solve_cond in *. cbn [solve]. unfold and2.
      rewrite (IHl Htl Hsl Hwl), (IHr Htr Hsr Hwr). cbn [bind].
      destruct (sem_cond o ic raw l d), (sem_cond o ic raw r d); reflexivity.
    + unfold solve_cond. cbn [solve]. apply cmp_refines; [exact I | exact Hs].
    + unfold solve_cond. cbn [solve]. apply cmp_refines; [exact I | exact Hs].
    + unfold solve_cond. cbn [solve]. apply cmp_refines; [exact I | exact Hs].
    + unfold solve_cond. cbn [solve]. apply cmp_refines; [exact I | exact Hs].
    + unfold solve_cond. cbn [solve]. apply cmp_refines; [exact I | exact Hs].
    + apply andb_prop in Hs. destruct Hs as [Hsl Hsr].
      cbn [wf_cond is_and_or_op] in Hw. apply andb_prop in Hw. destruct Hw as [Hwl Hwr].
      rewrite sem_cond_or. unfold solve_cond in *. cbn [solve]. unfold or2.
      rewrite (IHl Htl Hsl Hwl), (IHr Htr Hsr Hwr). cbn [bind].
      destruct (sem_cond o ic raw l d), (sem_cond o ic raw r d); reflexivity.
  - (* EIdent *)
    cbn [wf_cond] in Hw. unfold has_key in Hw. specialize (Hids i).
    unfold solve_cond. cbn [solve sem_cond].
    destruct (lookup i ids) as [b|]; [|discriminate Hw].
    destruct (lookup i raw) as [y|]; [|contradiction].
    apply (proj1 Hids).
  - (* EMatch *)
    cbn [cond_shape] in Hs. destruct e; try discriminate Hs.
    cbn [wf_cond] in Hw. unfold has_key in Hw. pose proof (Hids s) as Hi.
    destruct (lookup s ids) as [b|] eqn:El; [|discriminate Hw].
    destruct (lookup s raw) as [y|] eqn:Er; [|contradiction].
    rewrite (match_refines o ic ids s k y b d Hi El Ht).
    destruct k; cbn [sem_cond]; rewrite Er; reflexivity.
  - (* ENegate *)
    cbn [cond_shape] in Hs. cbn [thresholds_ok] in Ht. cbn [wf_cond] in Hw.
    unfold solve_cond in *. cbn [solve sem_cond]. rewrite (IHe Ht Hs Hw). cbn [bind].
    destruct (sem_cond o ic raw e d); reflexivity.
Qed.

(* ====================================================================================== *)
(* what the Pratt parser returns                                                           *)
(* ====================================================================================== *)

Definition is_opnd (e : expr) : bool :=
  match e with EFloat _ | EInt _ | ECast _ _ => true | _ => false end.

(* the parser's results: a condition of the accepted shape or a comparison operand, with
   thresholds 0 <= c *)
Definition qshape (e : expr) : bool := thresholds_ok e && (cond_shape e || is_opnd e).

Lemma qshape_inv e : qshape e = true -> thresholds_ok e = true /\ (cond_shape e = true \/ is_opnd e = true).
Proof.
  unfold qshape. intros H. apply andb_prop in H. destruct H as [H1 H2].
  apply orb_prop in H2. split; assumption.
Qed.

Lemma qshape_solvable e : qshape e = true -> is_solvable e = true -> cond_shape e = true.
Proof.
  intros H Hs. apply qshape_inv in H. destruct H as [_ [H|H]]; [exact H|].
  destruct e; discriminate.
Qed.

Lemma qshape_negatable e : qshape e = true -> negatable e = true -> cond_shape e = true.
Proof.
  intros H Hs. apply qshape_inv in H. destruct H as [_ [H|H]]; [exact H|].
  destruct e; discriminate.
Qed.

Lemma qshape_thr e : qshape e = true -> thresholds_ok e = true.
Proof. intros H. apply qshape_inv in H. exact (proj1 H). Qed.

Definition Qrec (rec : parser) : Prop :=
  forall rbp ts e rest, rec rbp ts = Ok (e, rest) -> qshape e = true.

Lemma parse_all_Q rec ts e : Qrec rec -> parse_all rec ts = Ok e -> qshape e = true.
Proof.
  intros HQ H. unfold parse_all in H.
  apply C03.bind_ok_inv in H. destruct H as ([e' rest] & Hr & H).
  destruct rest; [|discriminate H]. inversion H; subst. exact (HQ _ _ _ _ Hr).
Qed.

Lemma parse_nud_Q rec ts e rest : Qrec rec -> parse_nud rec ts = Ok (e, rest) -> qshape e = true.
Proof.
  intros HQ H. unfold parse_nud in H. destruct ts as [|t rest0]; [discriminate H|].
  destruct t as [dl|f|s|z|b|m| |m]; try discriminate H.
  - destruct dl; try discriminate H.
    destruct (collect_paren 0 rest0) as [inner after].
    apply C03.bind_ok_inv in H. destruct H as (e' & Hall & H). inversion H; subst.
    exact (parse_all_Q _ _ _ HQ Hall).
  - inversion H; subst. reflexivity.
  - inversion H; subst. reflexivity.
  - inversion H; subst. reflexivity.
  - apply C03.bind_ok_inv in H. destruct H as ([s r] & _ & H). inversion H; subst. reflexivity.
  - apply C03.bind_ok_inv in H. destruct H as ([rgt rest'] & Hr & H).
    destruct (negatable rgt) eqn:En; [|discriminate H]. inversion H; subst.
    pose proof (HQ _ _ _ _ Hr) as Hq. unfold qshape. cbn [thresholds_ok cond_shape].
    rewrite (qshape_thr _ Hq), (qshape_negatable _ Hq En). reflexivity.
  - destruct m.
    + apply C03.bind_ok_inv in H. destruct H as ([s r] & _ & H). inversion H; subst. reflexivity.
    + repeat match goal with
             | H : match ?x with _ => _ end = Ok _ |- _ => destruct x eqn:?; try discriminate H
             | H : (if ?x then _ else _) = Ok _ |- _ => destruct x eqn:?; try discriminate H
             end.
      inversion H; subst. unfold qshape. cbn [thresholds_ok cond_shape orb andb].
      rewrite andb_true_r. apply Z.leb_le. 
      match goal with E : (_ <? 0)%Z = false |- _ => apply Z.ltb_ge in E; exact E end.
Qed.

Lemma led_check_Q l s r e :
  qshape l = true -> qshape r = true -> led_check l s r = Ok e -> qshape e = true.
Proof.
  intros Hl Hr. unfold led_check.
  destruct s;
    repeat match goal with
           | |- (if ?x then _ else _) = Ok _ -> _ => destruct x eqn:?; try (intros H; discriminate H)
           end;
    intros H; inversion H; subst; unfold qshape; cbn [thresholds_ok cond_shape];
    rewrite (qshape_thr _ Hl), (qshape_thr _ Hr); cbn [andb];
    try (match goal with E : negb (types_ok _ _ _) = false |- _ =>
           apply negb_false_iff in E; rewrite E; reflexivity end).
  - rewrite (qshape_solvable l), (qshape_solvable r); try assumption; try reflexivity;
      apply negb_false_iff; assumption.
  - rewrite (qshape_solvable l), (qshape_solvable r); try assumption; try reflexivity;
      apply negb_false_iff; assumption.
Qed.

Lemma parse_led_Q rec lft ts e rest :
  Qrec rec -> qshape lft = true -> parse_led rec lft ts = Ok (e, rest) -> qshape e = true.
Proof.
  intros HQ Hl H. unfold parse_led in H. destruct ts as [|t rest0]; [discriminate H|].
  destruct t as [dl|f|s|z|b|m| |m]; try discriminate H.
  apply C03.bind_ok_inv in H. destruct H as ([rgt rest'] & Hr & H).
  apply C03.bind_ok_inv in H. destruct H as (e' & Hc & H). inversion H; subst.
  exact (led_check_Q _ _ _ _ Hl (HQ _ _ _ _ Hr) Hc).
Qed.

Lemma parse_loop_Q rec : Qrec rec ->
  forall n rbp lft ts e rest, qshape lft = true ->
    parse_loop rec n rbp lft ts = Ok (e, rest) -> qshape e = true.
Proof.
  intros HQ. induction n as [|n IH]; intros rbp lft ts e rest Hl H.
  - cbn [parse_loop] in H. destruct ts as [|next ts'].
    + inversion H; subst. exact Hl.
    + destruct (binding_power next <=? rbp)%N; [|discriminate H]. inversion H; subst. exact Hl.
  - cbn [parse_loop] in H. destruct ts as [|next ts'].
    + inversion H; subst. exact Hl.
    + destruct (binding_power next <=? rbp)%N.
      { inversion H; subst. exact Hl. }
      apply C03.bind_ok_inv in H. destruct H as ([lft' rest1] & Hled & H).
      exact (IH _ _ _ _ _ (parse_led_Q _ _ _ _ _ HQ Hl Hled) H).
Qed.

Lemma parse_expr_Q : forall n, Qrec (parse_expr n).
Proof.
  induction n as [|n IH]; intros rbp ts e rest H; [discriminate H|].
  cbn [parse_expr] in H.
  apply C03.bind_ok_inv in H. destruct H as ([lft rest1] & Hnud & H).
  exact (parse_loop_Q _ IH _ _ _ _ _ _ (parse_nud_Q _ _ _ _ IH Hnud) H).
Qed.

Lemma parse_qshape ts e : parse ts = Ok e -> qshape e = true.
Proof. intros H. unfold parse in H. exact (parse_all_Q _ _ _ (parse_expr_Q _) H). Qed.

Lemma loaded_condition_shape : forall ts e,
  parse ts = Ok e -> is_solvable e = true -> cond_shape e = true.
Proof. intros ts e H Hs. exact (qshape_solvable _ (parse_qshape _ _ H) Hs). Qed.

Lemma loaded_condition_thresholds : forall ts e, parse ts = Ok e -> thresholds_ok e = true.
Proof. intros ts e H. exact (qshape_thr _ (parse_qshape _ _ H)). Qed.

(* ====================================================================================== *)
(* whole rules                                                                             *)
(* ====================================================================================== *)

Section Entries.
Variable o : oracles.
Variable ic : bool.

Definition entry_rel (p : str * yaml) (q : str * expr) : Prop :=
  fst p = fst q /\ parse_identifier o ic (snd p) = Ok (snd q).

(* on a detection mapping with plain string keys the identifier table is, entry by entry,
   the parsed raw identifiers *)
Lemma load_entries_rel : forall kv cond ids cond' ids',
  forallb (fun p : yaml * yaml => match fst p with YStr _ => true | _ => false end) kv = true ->
  load_entries o ic kv cond ids = Ok (cond', ids') ->
  exists l, ids' = ids ++ l /\ Forall2 entry_rel (raw_identifiers kv) l.
Proof.
  induction kv as [|[k v] kv IH]; intros cond ids cond' ids' Hk H; cbn [load_entries] in H.
  - inversion H; subst. exists []. split; [rewrite app_nil_r; reflexivity | constructor].
  - cbn [forallb fst] in Hk. apply andb_prop in Hk. destruct Hk as [Hk1 Hk].
    destruct k as [| | | |key| | |]; try discriminate Hk1.
    cbn [untag] in H. unfold raw_identifiers. cbn [flat_map fst snd untag].
    fold (raw_identifiers kv).
    destruct (str_eqb key cond_key).
    + destruct (untag v); try discriminate H. cbn [app]. exact (IH _ _ _ _ Hk H).
    + apply C03.bind_ok_inv in H. destruct H as (e & He & H).
      apply C03.as_rule_err_ok in He.
      destruct (IH _ _ _ _ Hk H) as (l & Hl & HF).
      exists ((key, e) :: l). split.
      * rewrite Hl. rewrite <- app_assoc. reflexivity.
      * cbn [app]. constructor; [split; [reflexivity | exact He] | exact HF].
Qed.

Lemma lookup_rel : forall raw l, Forall2 entry_rel raw l ->
  forall i, match lookup i raw, lookup i l with
            | Some y, Some b => In (i, y) raw /\ parse_identifier o ic y = Ok b
            | None, None => True
            | _, _ => False
            end.
Proof.
  intros raw l H. induction H as [|[k y] [k' b] raw l [Hk Hp] H IH]; intros i; [exact I|].
  cbn [fst snd] in Hk, Hp. subst k'. cbn [lookup].
  destruct (str_eqb i k) eqn:E.
  - apply str_eqb_true_eq in E. subst k. split; [left; reflexivity | exact Hp].
  - specialize (IH i). destruct (lookup i raw), (lookup i l); try exact IH.
    destruct IH as [IH1 IH2]. split; [right; exact IH1 | exact IH2].
Qed.
End Entries.

Lemma rule_refines_simple_from :
  (forall o ic y b, simple_identifier y = true -> excl_free o y ->
                    parse_identifier o ic y = Ok b -> ident_ok o ic y b) ->
  forall o ic kv dkv r (d : doc),
  ylookup key_detection kv = Some (YMap dkv) ->
  forallb (fun p : yaml * yaml => match fst p with YStr _ => true | _ => false end) dkv = true ->
  NoDup (map fst (raw_identifiers dkv)) ->
  (forall i y, In (i, y) (raw_identifiers dkv) -> simple_identifier y = true /\ excl_free o y) ->
  load_rule o ic (YMap kv) = Ok r ->
  exists r3, solve_rule3 o (r_det r) (pure_doc d) = Ok r3 /\
             sem_rule o ic (YMap kv) d = Some r3 /\
             (matches o r d = Ok true <-> r3 = T).
Proof.
  intros Hident o ic kv dkv r d Hdet Hkeys _ Hsimple Hload.
  (* the detection the rule was loaded with *)
  assert (Hdt : load_detection o ic (YMap dkv) = Ok (r_det r)).
  { unfold load_rule in Hload. cbn [untag] in Hload.
    apply C03.bind_ok_inv in Hload. destruct Hload as (opt & _ & Hload).
    apply C03.bind_ok_inv in Hload. destruct Hload as (det & Hd & Hload).
    apply C03.bind_ok_inv in Hload. destruct Hload as (tp & _ & Hload).
    apply C03.bind_ok_inv in Hload. destruct Hload as (tn & _ & Hload).
    inversion Hload; subst. cbn [r_det]. rewrite Hdet in Hd. exact Hd. }
  pose proof (C03.load_detection_wf _ _ _ _ Hdt) as Hwf.
  unfold wf_det in Hwf. apply andb_prop in Hwf. destruct Hwf as [Hwf _].
  set (dt := r_det r) in *.
  (* the pieces of load_detection *)
  pose proof Hdt as H. unfold load_detection in H. cbn [untag] in H.
  apply C03.bind_ok_inv in H. destruct H as ([cond ids] & Hent & H).
  destruct cond as [rawc|]; [|discriminate H].
  apply C03.bind_ok_inv in H. destruct H as (ts & _ & H).
  destruct (idents_known ids None None ts); [|discriminate H]. cbn [negb] in H.
  apply C03.bind_ok_inv in H. destruct H as (e & He & H). apply C03.as_rule_err_ok in He.
  destruct (is_solvable e) eqn:Es; [|discriminate H].
  assert (Edt : dt = {| d_expr := e; d_ids := ids |}) by (inversion H; reflexivity).
  rewrite Edt in Hwf. cbn [d_expr d_ids] in Hwf.
  destruct (load_entries_rel o ic dkv None [] _ _ Hkeys Hent) as (l & Hl & HF).
  cbn [app] in Hl. subst l.
  assert (Hids : forall i, match lookup i (raw_identifiers dkv), lookup i ids with
                           | Some y, Some b => ident_ok o ic y b
                           | None, None => True
                           | _, _ => False
                           end).
  { intros i. pose proof (lookup_rel o ic _ _ HF i) as Hi.
    destruct (lookup i (raw_identifiers dkv)) as [y|], (lookup i ids) as [b|]; try exact Hi.
    destruct Hi as [Hin Hp]. destruct (Hsimple i y Hin) as [Hs Hx].
    exact (Hident o ic y b Hs Hx Hp). }
  pose proof (cond_refines_alt o ic ids (raw_identifiers dkv) e d Hids
                (loaded_condition_thresholds _ _ He) (loaded_condition_shape _ _ He Es) Hwf) as Hsolve.
  exists (sem_cond o ic (raw_identifiers dkv) e d). split; [|split].
  - unfold solve_rule3. rewrite Edt. cbn [d_expr d_ids]. exact Hsolve.
  - unfold sem_rule. cbn [untag]. rewrite Hdet. cbn [option_map untag]. rewrite Hdt.
    rewrite Edt. reflexivity.
  - unfold matches, solve_rule3. fold dt. rewrite Edt. cbn [d_expr d_ids]. rewrite Hsolve. cbn [bind].
    destruct (sem_cond o ic (raw_identifiers dkv) e d); split; intros G; try reflexivity; discriminate G.
Qed.

(* ====================================================================================== *)
(* cond_refines as stated in Properties/C02.v is FALSE for negative thresholds              *)
(* ====================================================================================== *)

(* `cond_shape` accepts EMatch (MOf c) (EIdent i) for every c, also c < 0 (which the parser
   never builds: see loaded_condition_thresholds).  For c < 0 the reference table of3 answers
   T on every entry list (c <= count of true entries), the solver answers T only if an entry is
   true.  Concrete instance: identifier `a: {f: null}`, condition of(a, -1), document {f: true}. *)
Definition cx_o : oracles :=
  {| re_valid := fun _ _ => true; re_match := fun _ _ _ => false; f64_parse := fun _ => None;
     f64_show := fun _ => []; uni_alnum := fun _ => false; uni_num := fun _ => false |}.
Definition cx_y : yaml := YMap [(YStr [102%N], YNull)].                       (* f: null *)
Definition cx_b : expr := EBexp (EField [102%N]) BEqual ENull.
Definition cx_e : expr := EMatch (MOf (-1)) (EIdent [97%N]).                  (* of(a, -1) *)
Definition cx_d : doc := fun _ => Some (VBool true).

Lemma cx_parse : parse_identifier cx_o false cx_y = Ok cx_b.
Proof. vm_compute. reflexivity. Qed.

Lemma cx_ident_ok : ident_ok cx_o false cx_y cx_b.
Proof.
  assert (H : forall d : doc, sem_identifier cx_o false cx_y d =
                              match d [102%N] with None => M | Some VNull => T | Some _ => F end).
  { intros d. unfold sem_identifier, sem_identifier_members, cx_y. cbn [yaml_depth fold_right fst snd Nat.max].
    cbn [sem_mapping map fst snd].
    replace (read_key cx_o [102%N]) with (Some (KPlain, [102%N])) by (vm_compute; reflexivity).
    cbn [sem_scalar max3 fold_right first_non_true].
    destruct (d [102%N]) as [[]|]; reflexivity. }
  split.
  - intros d. rewrite H. unfold cx_b, solve_body. cbn [solve solve_compare pure_doc bind].
    destruct (d [102%N]) as [[]|]; reflexivity.
  - cbn [cx_b]. intros d. unfold sem_entries, cx_y. cbn [map].
    fold cx_y. f_equal.
    unfold sem_identifier, sem_identifier_members, cx_y.
    cbn [max3 fold_right].
    match goal with |- ?a = or3 ?b M => change b with a; destruct a; reflexivity end.
Qed.

Lemma cond_refines_refuted :
  ~ (forall o ic ids raw e (d : doc),
       (forall i, match lookup i raw, lookup i ids with
                  | Some y, Some b => ident_ok o ic y b
                  | None, None => True
                  | _, _ => False
                  end) ->
       cond_shape e = true -> wf_cond ids e = true ->
       solve_cond o ids e (pure_doc d) = Ok (sem_cond o ic raw e d)).
Proof.
  intros H.
  specialize (H cx_o false [([97%N], cx_b)] [([97%N], cx_y)] cx_e cx_d).
  assert (G : solve_cond cx_o [([97%N], cx_b)] cx_e (pure_doc cx_d) = Ok F /\
              sem_cond cx_o false [([97%N], cx_y)] cx_e cx_d = T) by (split; vm_compute; reflexivity).
  destruct G as [G1 G2]. rewrite G1, G2 in H.
  assert (Hc : Ok F = Ok T); [|discriminate Hc].
  apply H; try reflexivity.
  intros i. cbn [lookup]. destruct (str_eqb i [97%N]); [exact cx_ident_ok | exact I].
Qed.

(* the same refinement stated without thresholds_ok, for conditions that come from the parser
   (all the loader ever evaluates) *)
Lemma cond_refines_parsed : forall o ic ids raw ts e (d : doc),
  (forall i, match lookup i raw, lookup i ids with
             | Some y, Some b => ident_ok o ic y b
             | None, None => True
             | _, _ => False
             end) ->
  parse ts = Ok e -> is_solvable e = true -> wf_cond ids e = true ->
  solve_cond o ids e (pure_doc d) = Ok (sem_cond o ic raw e d).
Proof.
  intros o ic ids raw ts e d Hids Hp Hs Hw.
  exact (cond_refines_alt o ic ids raw e d Hids (loaded_condition_thresholds _ _ Hp)
           (loaded_condition_shape _ _ Hp Hs) Hw).
Qed.
