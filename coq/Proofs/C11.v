(* C11  Verdict is independent of how the document is represented: proofs. *)
From TauModel Require Import Base Num Oracles Syntax Value Yaml Solver Rule Repr.
From TauProofs Require Import C16.
From Coq Require Import Lia ZArith List Bool ZifyBool.
Import ListNotations.

(* ====================================================================== *)
(*                         Generic helper lemmas                           *)
(* ====================================================================== *)

Definition kv_rel (p q : str * value) : Prop := fst p = fst q /\ veq (snd p) (snd q).

Lemma veq_obj_inv : forall kv kv', veq (VObj kv) (VObj kv') -> Forall2 kv_rel kv kv'.
Proof. intros kv kv' H. inversion H; subst. assumption. Qed.

Lemma Forall2_nth_error : forall A (R : A -> A -> Prop) l l',
  Forall2 R l l' -> forall n,
  match nth_error l n, nth_error l' n with
  | Some a, Some b => R a b
  | None, None => True
  | _, _ => False
  end.
Proof.
  intros A R l l' H. induction H as [|x y l l' Hxy _ IH]; intros n.
  - destruct n; exact I.
  - destruct n as [|n]; cbn [nth_error]; [exact Hxy | apply IH].
Qed.

Lemma Forall2_firstn : forall A (R : A -> A -> Prop) l l',
  Forall2 R l l' -> forall n, Forall2 R (firstn n l) (firstn n l').
Proof.
  intros A R l l' H. induction H as [|x y l l' Hxy _ IH]; intros n.
  - destruct n; constructor.
  - destruct n as [|n]; cbn [firstn]; constructor; [exact Hxy | apply IH].
Qed.

Lemma Forall2_skipn : forall A (R : A -> A -> Prop) l l',
  Forall2 R l l' -> forall n, Forall2 R (skipn n l) (skipn n l').
Proof.
  intros A R l l' H. induction H as [|x y l l' Hxy H' IH]; intros n.
  - destruct n; constructor.
  - destruct n as [|n]; cbn [skipn]; [constructor; assumption | apply IH].
Qed.

Lemma Forall2_len : forall A (R : A -> A -> Prop) l l',
  Forall2 R l l' -> length l = length l'.
Proof. intros A R l l' H. induction H; cbn [length]; congruence. Qed.

(* outcomes related by a relation on their values *)
Definition out_rel {A} (R : A -> A -> Prop) (x y : out A) : Prop :=
  match x, y with
  | Ok a, Ok b => R a b
  | Err e, Err e' => e = e'
  | Panic s, Panic s' => s = s'
  | _, _ => False
  end.

Lemma out_rel_bind_eq : forall A B (R : A -> A -> Prop) (x y : out A) (f g : A -> out B),
  out_rel R x y -> (forall a b, R a b -> f a = g b) -> bind x f = bind y g.
Proof.
  intros A B R x y f g H Hf. destruct x, y; cbn in *; try contradiction; auto; congruence.
Qed.

Lemma out_rel_bind : forall A B (R : A -> A -> Prop) (S : B -> B -> Prop)
  (x y : out A) (f g : A -> out B),
  out_rel R x y -> (forall a b, R a b -> out_rel S (f a) (g b)) ->
  out_rel S (bind x f) (bind y g).
Proof.
  intros A B R S x y f g H Hf. destruct x, y; cbn in *; try contradiction; auto.
Qed.

(* the solver's documents *)
Definition dq_rel (d d' : docq) : Prop := forall k, out_rel opt_veq (d k) (d' k).

(* ====================================================================== *)
(*                        compare_values / casts                           *)
(* ====================================================================== *)

Lemma compare_values_respects : forall x x' y y' op,
  veq x x' -> veq y y' -> compare_values x op y = compare_values x' op y'.
Proof.
  intros x x' y y' op Hx Hy.
  inversion Hx; subst; inversion Hy; subst; try reflexivity;
    destruct op; cbn [compare_values]; try reflexivity;
    unfold i64_max in *;
    repeat match goal with
           | |- context [if ?c then _ else _] => destruct c eqn:?
           end; lia.
Qed.

Definition operand_rel (a b : operand) : Prop :=
  match a, b with
  | OVal a, OVal b => veq a b
  | OMissing, OMissing => True
  | OFalse, OFalse => True
  | _, _ => False
  end.

Lemma cast_text_rel : forall o v v', veq v v' -> cast_text o v = cast_text o v'.
Proof. intros o v v' H. inversion H; subst; reflexivity. Qed.

Lemma value_to_string_rel : forall o v v',
  veq v v' -> value_to_string o v = value_to_string o v'.
Proof. intros o v v' H. inversion H; subst; reflexivity. Qed.

Lemma cast_int_rel : forall v v', veq v v' -> operand_rel (cast_int v) (cast_int v').
Proof.
  intros v v' H. inversion H; subst; cbn [cast_int operand_rel].
  - exact I.
  - constructor.
  - destruct (f64_to_i64 f); [constructor | exact I].
  - destruct (parse_i64 s); [constructor | exact I].
  - constructor.
  - destruct (z <=? i64_max)%Z; [constructor | exact I].
  - replace (z <=? i64_max)%Z with true by lia. constructor.
  - replace (z <=? i64_max)%Z with true by lia. constructor.
  - exact I.
  - exact I.
Qed.

Lemma cast_flt_rel : forall o v v', veq v v' -> operand_rel (cast_flt o v) (cast_flt o v').
Proof.
  intros o v v' H. inversion H; subst; cbn [cast_flt operand_rel];
    try exact I; try constructor.
  destruct (f64_parse o s); [constructor | exact I].
Qed.

Lemma casts_respect : forall o v v',
  veq v v' ->
  cast_text o v = cast_text o v' /\ value_to_string o v = value_to_string o v' /\
  (match cast_int v, cast_int v' with
   | OVal a, OVal b => veq a b | OMissing, OMissing => True | OFalse, OFalse => True | _, _ => False end) /\
  (match cast_flt o v, cast_flt o v' with
   | OVal a, OVal b => veq a b | OMissing, OMissing => True | OFalse, OFalse => True | _, _ => False end).
Proof.
  intros o v v' H. split; [|split; [|split]].
  - apply cast_text_rel; exact H.
  - apply value_to_string_rel; exact H.
  - exact (cast_int_rel v v' H).
  - exact (cast_flt_rel o v v' H).
Qed.

Lemma numeric_or_false_rel : forall v v',
  veq v v' -> operand_rel (numeric_or_false v) (numeric_or_false v').
Proof.
  intros v v' H. inversion H; subst; cbn [numeric_or_false operand_rel];
    try exact I; constructor; assumption.
Qed.

(* ====================================================================== *)
(*                               find                                      *)
(* ====================================================================== *)

Lemma lookup_rel : forall kv kv' k,
  Forall2 kv_rel kv kv' -> opt_veq (lookup k kv) (lookup k kv').
Proof.
  intros kv kv' k H. induction H as [|[k1 v1] [k2 v2] l l' [Hk Hv] _ IH]; cbn [lookup].
  - exact I.
  - cbn [fst snd] in Hk, Hv. subst k2. destruct (str_eqb k k1); [exact Hv | exact IH].
Qed.

Lemma nth_value_rel : forall a a' i,
  Forall2 veq a a' -> opt_veq (nth_value a i) (nth_value a' i).
Proof.
  intros a a' i H. unfold nth_value. rewrite (Forall2_len _ _ _ _ H).
  destruct (i <? Z.of_nat (length a'))%Z; [|exact I].
  pose proof (Forall2_nth_error _ _ _ _ H (Z.to_nat i)) as Hn.
  destruct (nth_error a (Z.to_nat i)), (nth_error a' (Z.to_nat i)); exact Hn.
Qed.

Lemma idx_rel : forall kv kv' name i,
  Forall2 kv_rel kv kv' ->
  opt_veq (match obj_get kv name with Some (VArr a) => nth_value a i | _ => None end)
          (match obj_get kv' name with Some (VArr a) => nth_value a i | _ => None end).
Proof.
  intros kv kv' name i H. unfold obj_get.
  pose proof (lookup_rel _ _ name H) as Hl.
  destruct (lookup name kv) as [v|], (lookup name kv') as [v'|];
    cbn in Hl; try contradiction; [|exact I].
  inversion Hl; subst; try exact I. apply nth_value_rel; assumption.
Qed.

Lemma find_step_rel : forall root root' cur cur' seg,
  Forall2 kv_rel root root' -> opt_veq cur cur' ->
  opt_veq (find_step root cur seg) (find_step root' cur' seg).
Proof.
  intros root root' cur cur' seg Hr Hc. unfold find_step.
  destruct (parse_segment seg) as [[name [i|]]|]; [| |exact I].
  - destruct cur as [v|], cur' as [v'|]; cbn in Hc; try contradiction.
    + inversion Hc; subst; try exact I. apply idx_rel. assumption.
    + apply idx_rel. exact Hr.
  - destruct cur as [v|], cur' as [v'|]; cbn in Hc; try contradiction.
    + inversion Hc; subst; try exact I. apply lookup_rel. assumption.
    + apply lookup_rel. exact Hr.
Qed.

Lemma find_segs_rel : forall root root' segs cur cur',
  Forall2 kv_rel root root' -> opt_veq cur cur' ->
  opt_veq (find_segs root cur segs) (find_segs root' cur' segs).
Proof.
  intros root root' segs. induction segs as [|s segs IH]; intros cur cur' Hr Hc;
    cbn [find_segs]; [exact Hc|].
  pose proof (find_step_rel _ _ _ _ s Hr Hc) as Hs.
  destruct (find_step root cur s) as [v|], (find_step root' cur' s) as [v'|];
    cbn in Hs; try contradiction; [|exact I].
  apply IH; [exact Hr | exact Hs].
Qed.

Lemma obj_find_rel : forall kv kv' k,
  Forall2 kv_rel kv kv' -> opt_veq (obj_find kv k) (obj_find kv' k).
Proof. intros kv kv' k H. unfold obj_find. apply find_segs_rel; [exact H | exact I]. Qed.

Lemma find_respects : forall kv kv' k,
  veq (VObj kv) (VObj kv') -> opt_veq (obj_find kv k) (obj_find kv' k).
Proof. intros kv kv' k H. apply obj_find_rel. apply veq_obj_inv. exact H. Qed.

(* ====================================================================== *)
(*                    related documents of the solver                      *)
(* ====================================================================== *)

Lemma pure_doc_rel : forall d d', doc_veq d d' -> dq_rel (pure_doc d) (pure_doc d').
Proof. intros d d' H k. exact (H k). Qed.

Lemma obj_doc_rel : forall kv kv', Forall2 kv_rel kv kv' -> dq_rel (obj_doc kv) (obj_doc kv').
Proof. intros kv kv' H k. exact (obj_find_rel kv kv' k H). Qed.

Lemma passthrough_doc_rel : forall v v',
  opt_veq v v' -> dq_rel (passthrough_doc v) (passthrough_doc v').
Proof. intros v v' H k. exact H. Qed.

Lemma cache_doc_rel : forall c c',
  Forall2 opt_veq c c' -> dq_rel (cache_doc c) (cache_doc c').
Proof.
  intros c c' H k. unfold cache_doc. destruct k as [|x k]; [reflexivity|].
  pose proof (Forall2_nth_error _ _ _ _ H (N.to_nat x)) as Hn.
  destruct (nth_error c (N.to_nat x)), (nth_error c' (N.to_nat x));
    cbn; try contradiction; [exact Hn | reflexivity].
Qed.

Lemma empty_cache_rel : forall cols, Forall2 opt_veq (empty_cache cols) (empty_cache cols).
Proof.
  intros cols. unfold empty_cache. induction cols; cbn [map]; constructor; [exact I | assumption].
Qed.

(* ====================================================================== *)
(*                       searches and comparisons                          *)
(* ====================================================================== *)

Lemma array_texts_rel : forall o cast l l',
  Forall2 veq l l' -> array_texts o cast l = array_texts o cast l'.
Proof.
  intros o cast l l' H. unfold array_texts.
  induction H as [|x y l l' Hxy _ IH]; cbn [flat_map]; [reflexivity|].
  f_equal; [|exact IH]. inversion Hxy; subst; reflexivity.
Qed.

Lemma search_value_rel : forall o p cast v v',
  veq v v' -> search_value o p cast v = search_value o p cast v'.
Proof.
  intros o p cast v v' H. inversion H; subst; try reflexivity.
  cbn [search_value]. rewrite (array_texts_rel o cast l l'); [reflexivity | assumption].
Qed.

Lemma field_search_rel : forall o (d d' : docq) f cast p,
  dq_rel d d' -> field_search o d f cast p = field_search o d' f cast p.
Proof.
  intros o d d' f cast p H. unfold field_search.
  apply out_rel_bind_eq with (R := opt_veq); [apply H|].
  intros a b Hab. destruct a, b; cbn in Hab; try contradiction; [|reflexivity].
  rewrite (search_value_rel o p cast _ _ Hab). reflexivity.
Qed.

Lemma operand_of_rel : forall o (d d' : docq) e,
  dq_rel d d' -> out_rel operand_rel (operand_of o d e) (operand_of o d' e).
Proof.
  intros o d d' e H.
  destruct e; cbn [operand_of out_rel operand_rel]; try exact I; try constructor.
  - destruct m; cbn [out_rel operand_rel]; try exact I;
      (apply out_rel_bind with (R := opt_veq); [apply H|]);
      intros a b Hab; destruct a, b; cbn in Hab; try contradiction; cbn [out_rel]; try exact I.
    + apply cast_flt_rel; exact Hab.
    + apply cast_int_rel; exact Hab.
  - apply out_rel_bind with (R := opt_veq); [apply H|].
    intros a b Hab; destruct a, b; cbn in Hab; try contradiction; cbn [out_rel]; try exact I.
    apply numeric_or_false_rel; exact Hab.
Qed.

Definition generic_compare (o : oracles) (d : docq) (l : expr) (op : boolsym) (r : expr)
  : out res3 :=
  do a <- operand_of o d l;
  match a with
  | OMissing => Ok M
  | OFalse => Ok F
  | OVal x =>
      do b <- operand_of o d r;
      match b with
      | OMissing => Ok M
      | OFalse => Ok F
      | OVal y => Ok (res_of_bool (compare_values x op y))
      end
  end.

Lemma generic_compare_rel : forall o (d d' : docq) l op r,
  dq_rel d d' -> generic_compare o d l op r = generic_compare o d' l op r.
Proof.
  intros o d d' l op r H. unfold generic_compare.
  apply out_rel_bind_eq with (R := operand_rel); [apply operand_of_rel; exact H|].
  intros a b Hab. destruct a, b; cbn in Hab; try contradiction; try reflexivity.
  apply out_rel_bind_eq with (R := operand_rel); [apply operand_of_rel; exact H|].
  intros a2 b2 Hab2. destruct a2, b2; cbn in Hab2; try contradiction; try reflexivity.
  rewrite (compare_values_respects _ _ _ _ op Hab Hab2). reflexivity.
Qed.

Lemma solve_compare_rel : forall o (d d' : docq) l op r,
  dq_rel d d' -> solve_compare o d l op r = solve_compare o d' l op r.
Proof.
  intros o d d' l op r H.
  pose proof (generic_compare_rel o d d' l op r H) as G. unfold generic_compare in G.
  destruct l; try exact G.
  - (* ECast *)
    destruct m; try exact G. destruct op; try exact G. destruct r; try exact G.
    + destruct m; try exact G. clear G. cbn [solve_compare].
      apply out_rel_bind_eq with (R := opt_veq); [apply H|].
      intros a b Hab. destruct a as [x|], b as [x'|]; cbn in Hab; try contradiction; [|reflexivity].
      rewrite (value_to_string_rel o _ _ Hab).
      destruct (value_to_string o x'); [|reflexivity].
      apply out_rel_bind_eq with (R := opt_veq); [apply H|].
      intros a b Hab2. destruct a as [y|], b as [y'|]; cbn in Hab2; try contradiction; [|reflexivity].
      rewrite (value_to_string_rel o _ _ Hab2). reflexivity.
    + (* str(f) == null, fix D27 *)
      clear G. cbn [solve_compare].
      apply out_rel_bind_eq with (R := opt_veq); [apply H|].
      intros a b Hab. destruct a as [x|], b as [x'|]; cbn in Hab; try contradiction; reflexivity.
  - (* EField *)
    destruct op; try exact G. destruct r; try exact G; clear G; cbn [solve_compare].
    + apply out_rel_bind_eq with (R := opt_veq); [apply H|].
      intros a b0 Hab. destruct a, b0; cbn in Hab; try contradiction; [|reflexivity].
      inversion Hab; subst; reflexivity.
    + apply out_rel_bind_eq with (R := opt_veq); [apply H|].
      intros a b0 Hab. destruct a, b0; cbn in Hab; try contradiction; [|reflexivity].
      inversion Hab; subst; reflexivity.
Qed.

(* ====================================================================== *)
(*                               matrices                                  *)
(* ====================================================================== *)

Definition cell_ok (c : option cellfn) : Prop :=
  match c with
  | Some cell => forall d d', dq_rel d d' -> cell d = cell d'
  | None => True
  end.

Definition rc_rel (p q : res3 * list (option value)) : Prop :=
  fst p = fst q /\ Forall2 opt_veq (snd p) (snd q).

Definition load_rel (a b : option (list (option value))) : Prop :=
  match a, b with
  | Some x, Some y => Forall2 opt_veq x y
  | None, None => True
  | _, _ => False
  end.

Lemma row_cells_rel : forall (d d' : docq) cols, dq_rel d d' ->
  forall cells, Forall cell_ok cells -> forall i cache cache',
  Forall2 opt_veq cache cache' ->
  out_rel rc_rel (row_cells d cols i cells cache) (row_cells d' cols i cells cache').
Proof.
  intros d d' cols Hd. induction cells as [|c cells IH]; intros Hok i cache cache' Hc;
    cbn [row_cells].
  - cbn [out_rel]. split; [reflexivity | exact Hc].
  - inversion Hok as [|? ? Hc0 Hrest]; subst.
    destruct c as [cell|]; [|apply IH; assumption].
    pose proof (Forall2_nth_error _ _ _ _ Hc i) as Hn.
    destruct (nth_error cache i) as [slot|], (nth_error cache' i) as [slot'|];
      try contradiction; [|reflexivity].
    apply out_rel_bind with (R := load_rel).
    + destruct slot, slot'; cbn in Hn; try contradiction.
      * cbn [out_rel load_rel]. exact Hc.
      * destruct (nth_error cols i) as [col|]; [|reflexivity].
        apply out_rel_bind with (R := opt_veq); [apply Hd|].
        intros x x' Hx. destruct x, x'; cbn in Hx; try contradiction;
          cbn [out_rel load_rel]; [|exact I].
        apply Forall2_app; [apply Forall2_firstn; exact Hc|].
        apply Forall2_app; [constructor; [exact Hx | constructor]|].
        apply Forall2_skipn; exact Hc.
    + intros l1 l2 Hl. destruct l1 as [c1|], l2 as [c2|]; cbn in Hl; try contradiction.
      * cbn in Hc0. rewrite (Hc0 _ _ (cache_doc_rel _ _ Hl)).
        destruct (cell (cache_doc c2)) as [r| |]; cbn [bind out_rel]; try reflexivity.
        destruct r; [apply IH; assumption | split; [reflexivity | exact Hl]
                     | split; [reflexivity | exact Hl]].
      * cbn [out_rel]. split; [reflexivity | exact Hc].
Qed.

Section MatrixRel.
Variables d d' : docq.
Variable cols : list str.
Hypothesis Hd : dq_rel d d'.

Lemma matrix_or_rel : forall rows, Forall (Forall cell_ok) rows ->
  forall cache cache' acc, Forall2 opt_veq cache cache' ->
  matrix_or d cols rows cache acc = matrix_or d' cols rows cache' acc.
Proof.
  induction rows as [|row rows IH]; intros Hok cache cache' acc Hc; cbn [matrix_or];
    [reflexivity|].
  inversion Hok as [|? ? Hrow Hrest]; subst.
  apply out_rel_bind_eq with (R := rc_rel); [apply row_cells_rel; assumption|].
  intros [h c1] [h' c2] [Hh Hcc]. cbn [fst snd] in Hh, Hcc. subst h'.
  destruct h; auto.
Qed.

Lemma matrix_all_rel : forall rows, Forall (Forall cell_ok) rows ->
  forall cache cache', Forall2 opt_veq cache cache' ->
  matrix_all d cols rows cache = matrix_all d' cols rows cache'.
Proof.
  induction rows as [|row rows IH]; intros Hok cache cache' Hc; cbn [matrix_all];
    [reflexivity|].
  inversion Hok as [|? ? Hrow Hrest]; subst.
  apply out_rel_bind_eq with (R := rc_rel); [apply row_cells_rel; assumption|].
  intros [h c1] [h' c2] [Hh Hcc]. cbn [fst snd] in Hh, Hcc. subst h'.
  destruct h; auto.
Qed.

Lemma matrix_of_rel : forall rows, Forall (Forall cell_ok) rows ->
  forall cache cache' c hits acc, Forall2 opt_veq cache cache' ->
  matrix_of d cols rows cache c hits acc = matrix_of d' cols rows cache' c hits acc.
Proof.
  induction rows as [|row rows IH]; intros Hok cache cache' c hits acc Hc; cbn [matrix_of];
    [reflexivity|].
  inversion Hok as [|? ? Hrow Hrest]; subst.
  apply out_rel_bind_eq with (R := rc_rel); [apply row_cells_rel; assumption|].
  intros [h c1] [h' c2] [Hh Hcc]. cbn [fst snd] in Hh, Hcc. subst h'.
  destruct h; auto. destruct (c <=? hits + 1)%Z; auto.
Qed.
End MatrixRel.

Lemma row_ok_of : forall (slv : expr -> docq -> out res3) (row : list (option expr)),
  (forall cell, In (Some cell) row ->
     forall d d', dq_rel d d' -> slv cell d = slv cell d') ->
  Forall cell_ok (map (option_map (fun cell d' => slv cell d')) row).
Proof.
  intros slv row H. apply Forall_forall. intros c Hc.
  apply in_map_iff in Hc. destruct Hc as [ce [<- Hce]].
  destruct ce as [cell|]; cbn [option_map cell_ok]; [|exact I].
  intros d d' Hd. apply (H cell Hce); exact Hd.
Qed.

Lemma cells_ok_of : forall (slv : expr -> docq -> out res3) rows,
  (forall row cell, In row rows -> In (Some cell) row ->
     forall d d', dq_rel d d' -> slv cell d = slv cell d') ->
  Forall (Forall cell_ok) (map (map (option_map (fun cell d' => slv cell d'))) rows).
Proof.
  intros slv rows H. apply Forall_forall. intros r Hr.
  apply in_map_iff in Hr. destruct Hr as [row [<- Hrow]].
  apply row_ok_of. intros cell Hce. apply (H row cell Hrow Hce).
Qed.

(* ---- nested arrays ---- *)
Lemma objects_of_rel : forall l l',
  Forall2 veq l l' -> Forall2 (Forall2 kv_rel) (objects_of l) (objects_of l').
Proof.
  intros l l' H. unfold objects_of.
  induction H as [|x y l l' Hxy _ IH]; cbn [flat_map]; [constructor|].
  inversion Hxy; subst; cbn [app]; try exact IH.
  constructor; [assumption | exact IH].
Qed.

Lemma some_object_rel : forall (cell : cellfn),
  (forall d d', dq_rel d d' -> cell d = cell d') ->
  forall objs objs', Forall2 (Forall2 kv_rel) objs objs' ->
  forall acc, some_object cell objs acc = some_object cell objs' acc.
Proof.
  intros cell Hcell objs objs' H.
  induction H as [|kv kv' objs objs' Hkv _ IH]; intros acc; cbn [some_object]; [reflexivity|].
  rewrite (Hcell _ _ (obj_doc_rel _ _ Hkv)).
  apply bind_ext. intros []; auto.
Qed.

Lemma any_true_rel : forall (cell : cellfn),
  (forall d d', dq_rel d d' -> cell d = cell d') ->
  forall objs objs', Forall2 (Forall2 kv_rel) objs objs' ->
  (fix any_true (objs : list (list (str * value))) : out res3 :=
     match objs with
     | [] => Ok F
     | kv :: rest =>
         do r <- cell (obj_doc kv);
         match r with T => Ok T | _ => any_true rest end
     end) objs
  = (fix any_true (objs : list (list (str * value))) : out res3 :=
     match objs with
     | [] => Ok F
     | kv :: rest =>
         do r <- cell (obj_doc kv);
         match r with T => Ok T | _ => any_true rest end
     end) objs'.
Proof.
  intros cell Hcell objs objs' H.
  induction H as [|kv kv' objs objs' Hkv _ IH]; [reflexivity|].
  rewrite (Hcell _ _ (obj_doc_rel _ _ Hkv)).
  apply bind_ext. intros []; auto.
Qed.

Definition is_obj (v : value) : bool := match v with VObj _ => true | _ => false end.

Lemma pass_cells_nonobj : forall cols v v' cells i,
  is_obj v = false -> is_obj v' = false ->
  pass_cells cols v i cells = pass_cells cols v' i cells.
Proof.
  intros cols v v' cells. induction cells as [|c cells IH]; intros i Hv Hv';
    cbn [pass_cells]; [reflexivity|].
  destruct c as [cell|]; [|apply IH; assumption].
  destruct v; try discriminate Hv; destruct v'; try discriminate Hv'; apply IH; assumption.
Qed.

Lemma pass_cells_obj : forall cols kv kv' cells, Forall2 kv_rel kv kv' ->
  Forall cell_ok cells -> forall i,
  pass_cells cols (VObj kv) i cells = pass_cells cols (VObj kv') i cells.
Proof.
  intros cols kv kv' cells Hkv. induction cells as [|c cells IH]; intros Hok i;
    cbn [pass_cells]; [reflexivity|].
  inversion Hok as [|? ? Hc0 Hrest]; subst.
  destruct c as [cell|]; [|apply IH; assumption].
  destruct (nth_error cols i) as [col|]; [|reflexivity].
  cbn in Hc0.
  rewrite (Hc0 _ _ (passthrough_doc_rel _ _ (obj_find_rel kv kv' col Hkv))).
  apply bind_ext. intros []; auto.
Qed.

Lemma pass_cells_rel : forall cols v v' cells, veq v v' -> Forall cell_ok cells ->
  forall i, pass_cells cols v i cells = pass_cells cols v' i cells.
Proof.
  intros cols v v' cells H Hok i.
  inversion H; subst; try reflexivity;
    try (apply pass_cells_nonobj; reflexivity).
  apply pass_cells_obj; assumption.
Qed.

Lemma pass_row_any_rel : forall cols row, Forall cell_ok row ->
  forall a a', Forall2 veq a a' ->
  pass_row_any cols row a = pass_row_any cols row a'.
Proof.
  intros cols row Hok a a' H.
  induction H as [|x y a a' Hxy _ IH]; cbn [pass_row_any]; [reflexivity|].
  rewrite (pass_cells_rel cols x y row Hxy Hok 0).
  apply bind_ext. intros []; auto.
Qed.

(* ---- match_all / match_of of an identifier body ---- *)
Lemma match_all_rel : forall o (slv : expr -> docq -> out res3),
  (forall e d d', dq_rel d d' -> slv e d = slv e d') ->
  forall e d d', dq_rel d d' -> match_all o slv e d = match_all o slv e d'.
Proof.
  intros o slv Hs e d d' Hd. destruct e; try exact (Hs _ d d' Hd).
  - unfold match_all, cells_of. apply matrix_all_rel; [exact Hd| |apply empty_cache_rel].
    apply cells_ok_of. intros row cell _ _ x y Hxy. apply Hs; exact Hxy.
  - destruct s; try exact (Hs _ d d' Hd); unfold match_all; apply field_search_rel; exact Hd.
Qed.

Lemma match_of_rel : forall o (slv : expr -> docq -> out res3),
  (forall e d d', dq_rel d d' -> slv e d = slv e d') ->
  forall e d d' c, dq_rel d d' -> match_of o slv e d c = match_of o slv e d' c.
Proof.
  intros o slv Hs e d d' c Hd. unfold match_of. rewrite (Hs e d d' Hd).
  destruct (c =? 0)%Z; [reflexivity|].
  destruct e; try reflexivity.
  - unfold cells_of. apply matrix_of_rel; [exact Hd| |apply empty_cache_rel].
    apply cells_ok_of. intros row cell _ _ x y Hxy. apply Hs; exact Hxy.
  - destruct s; try reflexivity; apply field_search_rel; exact Hd.
Qed.

(* ====================================================================== *)
(*                     size of expressions (for induction)                 *)
(* ====================================================================== *)

Definition cell_size (sz : expr -> nat) (c : option expr) : nat :=
  match c with Some x => sz x | None => 0 end.

Fixpoint esize (e : expr) : nat :=
  match e with
  | EGroup _ l => S (list_sum (map esize l))
  | EBexp l _ r => S (esize l + esize r)
  | EMatch _ e' => S (esize e')
  | EMatrix _ rows =>
      S (list_sum (map (fun row => list_sum (map (cell_size esize) row)) rows))
  | ENegate e' => S (esize e')
  | ENested _ e' => S (esize e')
  | _ => 1
  end.

Lemma list_sum_in : forall A (f : A -> nat) l x, In x l -> f x <= list_sum (map f l).
Proof.
  intros A f l x. induction l as [|a l IH]; intros H; [contradiction|].
  cbn [map list_sum fold_right]. fold (list_sum (map f l)). destruct H as [->|H]; [lia | specialize (IH H); lia].
Qed.

Lemma esize_group : forall s l x, In x l -> esize x < esize (EGroup s l).
Proof.
  intros s l x H.
  change (esize (EGroup s l)) with (S (list_sum (map esize l))).
  pose proof (list_sum_in _ esize l x H). lia.
Qed.

Lemma esize_matrix : forall cols rows row cell,
  In row rows -> In (Some cell) row -> esize cell < esize (EMatrix cols rows).
Proof.
  intros cols rows row cell Hr Hc.
  change (esize (EMatrix cols rows))
    with (S (list_sum (map (fun row => list_sum (map (cell_size esize) row)) rows))).
  pose proof (list_sum_in _ (fun row => list_sum (map (cell_size esize) row)) rows row Hr) as H1.
  pose proof (list_sum_in _ (cell_size esize) row (Some cell) Hc) as H2.
  cbn [cell_size] in H2. cbn beta in H1. lia.
Qed.

Lemma esize_match : forall k e, esize e < esize (EMatch k e).
Proof. intros. cbn [esize]. lia. Qed.

Lemma esize_nested : forall f e, esize e < esize (ENested f e).
Proof. intros. cbn [esize]. lia. Qed.

(* ====================================================================== *)
(*                       the solver respects dq_rel                        *)
(* ====================================================================== *)

Section Main.
Variable o : oracles.
Variable ids : list (str * expr).
Variable body : expr -> docq -> out res3.
Hypothesis Hbody : forall b d d', dq_rel d d' -> body b d = body b d'.

Definition respects (e : expr) : Prop :=
  forall d d', dq_rel d d' -> solve o ids body e d = solve o ids body e d'.

Lemma solve_rel_size : forall n e, esize e < n -> respects e.
Proof.
  induction n as [|n IHn]; intros e Hn; [lia|].
  assert (IH : forall x, esize x < esize e -> respects x)
    by (intros x Hx; apply IHn; lia).
  clear IHn Hn. intros d d' Hd.
  destruct e.
  - (* EGroup *)
    assert (Hm : forall x, In x l -> solve o ids body x d = solve o ids body x d').
    { intros x Hx. apply (IH x (esize_group _ _ _ Hx)). exact Hd. }
    destruct o0; try reflexivity.
    + exact (and_fold_map_ext _ (fun x => solve o ids body x d)
                              (fun x => solve o ids body x d') l Hm).
    + exact (or_fold_map_ext _ (fun x => solve o ids body x d)
                             (fun x => solve o ids body x d') l M Hm).
  - (* EBexp *)
    assert (IHl : solve o ids body e1 d = solve o ids body e1 d')
      by (apply IH; [cbn [esize]; lia | exact Hd]).
    assert (IHr : solve o ids body e2 d = solve o ids body e2 d')
      by (apply IH; [cbn [esize]; lia | exact Hd]).
    destruct o0; try exact (solve_compare_rel o d d' e1 _ e2 Hd).
    + change (and2 (fun _ => solve o ids body e1 d) (fun _ => solve o ids body e2 d)
              = and2 (fun _ => solve o ids body e1 d') (fun _ => solve o ids body e2 d')).
      rewrite IHl, IHr. reflexivity.
    + change (or2 (fun _ => solve o ids body e1 d) (fun _ => solve o ids body e2 d)
              = or2 (fun _ => solve o ids body e1 d') (fun _ => solve o ids body e2 d')).
      rewrite IHl, IHr. reflexivity.
  - reflexivity.
  - reflexivity.
  - reflexivity.
  - reflexivity.
  - (* EIdent *)
    cbn [solve]. destruct (lookup s ids) as [b|]; [|reflexivity].
    apply Hbody; exact Hd.
  - reflexivity.
  - (* EMatch *)
    assert (IHe : solve o ids body e d = solve o ids body e d')
      by (apply IH; [apply esize_match | exact Hd]).
    assert (Hmem : forall s l, e = EGroup s l ->
                   forall x, In x l -> solve o ids body x d = solve o ids body x d').
    { intros s l -> x Hx. apply IH; [|exact Hd].
      pose proof (esize_group s l x Hx). pose proof (esize_match k (EGroup s l)). lia. }
    assert (Hcells : forall cols rows, e = EMatrix cols rows ->
              Forall (Forall cell_ok)
                (map (map (option_map (fun cell d' => solve o ids body cell d'))) rows)).
    { intros cols rows ->. apply cells_ok_of. intros row cell Hr Hc. apply IH.
      pose proof (esize_matrix cols rows row cell Hr Hc).
      pose proof (esize_match k (EMatrix cols rows)). lia. }
    assert (Hidm : forall (g : list expr) x, In x g -> body x d = body x d').
    { intros g x _. apply Hbody; exact Hd. }
    clear IH.
    destruct k as [|c].
    + (* all *)
      destruct e; try exact IHe.
      * exact (and_fold_map_ext _ (fun x => solve o ids body x d)
                 (fun x => solve o ids body x d') l (Hmem _ _ eq_refl)).
      * cbn [solve]. destruct (lookup s ids) as [b|]; [|reflexivity].
        destruct b; try exact (match_all_rel o body Hbody _ d d' Hd).
        exact (and_fold_map_ext _ (fun x => body x d) (fun x => body x d') l (Hidm l)).
      * cbn [solve]. apply matrix_all_rel;
          [exact Hd | exact (Hcells _ _ eq_refl) | apply empty_cache_rel].
      * destruct s; try exact IHe; cbn [solve]; apply field_search_rel; exact Hd.
    + (* of *)
      cbn [solve]. rewrite IHe. destruct e; try reflexivity.
      * exact (of_fold_map_ext _ (fun x => solve o ids body x d)
                 (fun x => solve o ids body x d') l c (Hmem _ _ eq_refl)).
      * cbn [solve]. destruct (lookup s ids) as [b|]; [|reflexivity].
        destruct b; try exact (match_of_rel o body Hbody _ d d' c Hd).
        exact (of_fold_map_ext _ (fun x => body x d) (fun x => body x d') l c (Hidm l)).
      * cbn [solve]. destruct (c =? 0)%Z; [reflexivity|].
        apply matrix_of_rel; [exact Hd | exact (Hcells _ _ eq_refl) | apply empty_cache_rel].
      * cbn [solve]. destruct (c =? 0)%Z; [reflexivity|].
        destruct s; try reflexivity; apply field_search_rel; exact Hd.
  - (* EMatrix *)
    cbn [solve]. apply matrix_or_rel; [exact Hd | | apply empty_cache_rel].
    apply cells_ok_of. intros row cell Hr Hc. apply IH.
    exact (esize_matrix cols rows row cell Hr Hc).
  - (* ENegate *)
    cbn [solve]. rewrite (IH e (ltac:(cbn [esize]; lia)) d d' Hd). reflexivity.
  - (* ENested *)
    cbn [solve].
    apply out_rel_bind_eq with (R := opt_veq); [apply Hd|].
    intros x x' Hx. destruct x as [v|], x' as [v'|]; cbn in Hx; try contradiction;
      [|reflexivity].
    inversion Hx as [ | | | | | | | | a a' Ha | kv kv' Hkv ]; subst; try reflexivity.
    + (* array *)
      pose proof (objects_of_rel a a' Ha) as Hobjs.
      assert (Hcell : forall x, esize x <= esize e ->
                forall y y', dq_rel y y' -> solve o ids body x y = solve o ids body x y').
      { intros x Hsz. apply IH. pose proof (esize_nested f e). lia. }
      pose proof (any_true_rel (fun y => solve o ids body e y) (Hcell e (le_n _))
                               _ _ Hobjs) as Hgen.
      cbv zeta. clear IH.
      destruct e; try exact Hgen.
      destruct k; try exact Hgen.
      destruct e; try exact Hgen.
      * (* all(or-group) *)
        destruct o0; try exact Hgen. clear Hgen.
        refine (and_fold_map_ext _
                  (fun m => some_object (fun y => solve o ids body m y) (objects_of a) M)
                  (fun m => some_object (fun y => solve o ids body m y) (objects_of a') M)
                  l _).
        intros m Hm. apply some_object_rel; [|exact Hobjs].
        apply Hcell.
        pose proof (esize_group BOr l m Hm). pose proof (esize_match MAll (EGroup BOr l)). lia.
      * (* all(matrix) *)
        clear Hgen.
        refine (and_fold_map_ext _
                  (fun row => pass_row_any cols
                     (map (option_map (fun cell y => solve o ids body cell y)) row) a)
                  (fun row => pass_row_any cols
                     (map (option_map (fun cell y => solve o ids body cell y)) row) a')
                  rows _).
        intros row Hrow. apply pass_row_any_rel; [|exact Ha].
        apply row_ok_of. intros cell Hce. apply Hcell.
        pose proof (esize_matrix cols rows row cell Hrow Hce).
        pose proof (esize_match MAll (EMatrix cols rows)). lia.
    + (* object *)
      apply IH; [apply esize_nested | apply obj_doc_rel; exact Hkv].
  - reflexivity.
  - (* ESearch *)
    cbn [solve]. apply field_search_rel; exact Hd.
Qed.

Lemma solve_rel : forall e d d', dq_rel d d' ->
  solve o ids body e d = solve o ids body e d'.
Proof. intros e. exact (solve_rel_size (S (esize e)) e (Nat.lt_succ_diag_r _)). Qed.

End Main.

Lemma solve_body_rel : forall o b d d', dq_rel d d' -> solve_body o b d = solve_body o b d'.
Proof.
  intros o b d d' H. unfold solve_body. apply solve_rel; [|exact H].
  intros; reflexivity.
Qed.

Lemma solve_cond_rel : forall o ids e d d', dq_rel d d' ->
  solve_cond o ids e d = solve_cond o ids e d'.
Proof.
  intros o ids e d d' H. unfold solve_cond. apply solve_rel; [|exact H].
  apply solve_body_rel.
Qed.

Lemma solve_respects_representation : forall o ids e (d d' : doc),
  doc_veq d d' ->
  solve_cond o ids e (pure_doc d) = solve_cond o ids e (pure_doc d').
Proof.
  intros o ids e d d' H. apply solve_cond_rel. apply pure_doc_rel. exact H.
Qed.

Lemma verdict_respects_representation : forall o r kv kv',
  veq (VObj kv) (VObj kv') ->
  matches o r (obj_find kv) = matches o r (obj_find kv').
Proof.
  intros o r kv kv' H. unfold matches, solve_rule3.
  rewrite (solve_respects_representation o (d_ids (r_det r)) (d_expr (r_det r))
             (obj_find kv) (obj_find kv')); [reflexivity|].
  intros k. apply find_respects. exact H.
Qed.

Lemma adapters_agree : forall z,
  in_i64 z = true ->
  veq (yaml_as_value (YInt z)) (prim_signed z) /\
  ((0 <= z)%Z -> veq (yaml_as_value (YInt z)) (prim_unsigned z)).
Proof.
  intros z Hz. unfold in_i64 in Hz. apply andb_true_iff in Hz. destruct Hz as [_ Hmax].
  cbn [yaml_as_value]. unfold prim_signed, prim_unsigned.
  destruct (0 <=? z)%Z eqn:E.
  - split; [|intros _; constructor]. apply veq_uint_int. lia.
  - split; [constructor|]. intros H0. lia.
Qed.

Lemma veq_example :
  veq (VObj [([102%N], VArr [VInt 5; VUInt 18446744073709551615])])
      (VObj [([102%N], VArr [VUInt 5; VUInt 18446744073709551615])]) /\
  ~ veq (VInt (-1)) (VUInt 18446744073709551615).
Proof.
  split.
  - apply veq_obj. constructor; [|constructor]. split; [reflexivity|]. cbn [snd].
    apply veq_arr. constructor; [|constructor; [|constructor]].
    + apply veq_int_uint. unfold i64_max. lia.
    + apply veq_uint.
  - intros H. inversion H.
Qed.
