(* C17 (rule text level): the reference semantics' combinations are invariant under
   permutation of members / entries: proofs for Properties/C17_yaml.v. *)
From TauModel Require Import Base Num Oracles Syntax Value Yaml Pratt ParseMap Solver Rule Keys Known Spec.
From Coq Require Import Lia ZArith ZifyBool List Bool Permutation.
Import ListNotations.

(* ---- helpers ---- *)

Lemma or3_swap : forall a b x, or3 a (or3 b x) = or3 b (or3 a x).
Proof. intros a b x; destruct a, b, x; reflexivity. Qed.

Lemma filter_perm : forall (A : Type) (f : A -> bool) l l',
  Permutation l l' -> Permutation (filter f l) (filter f l').
Proof.
  intros A f l l' HP; induction HP as [|x l l' HP IH|x y l|l l' l'' HP1 IH1 HP2 IH2].
  - constructor.
  - cbn [filter]. destruct (f x) eqn:Efx; [constructor; exact IH|exact IH].
  - cbn [filter]. destruct (f x) eqn:Efx; destruct (f y) eqn:Efy;
      try apply Permutation_refl. apply perm_swap.
  - eapply Permutation_trans; eassumption.
Qed.

Lemma count3_perm : forall x rs rs', Permutation rs rs' -> count3 x rs = count3 x rs'.
Proof.
  intros x rs rs' HP; unfold count3.
  rewrite (Permutation_length (filter_perm _ (res3_eqb x) _ _ HP)); reflexivity.
Qed.

Lemma forallb_perm : forall (A : Type) (f : A -> bool) l l',
  Permutation l l' -> forallb f l = forallb f l'.
Proof.
  intros A f l l' HP; induction HP as [|x l l' HP IH|x y l|l l' l'' HP1 IH1 HP2 IH2].
  - reflexivity.
  - cbn [forallb]. rewrite IH; reflexivity.
  - cbn [forallb]. destruct (f x), (f y); reflexivity.
  - rewrite IH1; exact IH2.
Qed.

Lemma first_non_true_T_iff : forall rs,
  first_non_true rs = T <-> (forall x, In x rs -> x = T).
Proof.
  induction rs as [|r rs IH].
  - split; [intros _ x HIn; destruct HIn | reflexivity].
  - cbn [first_non_true]; destruct r.
    + rewrite IH; split.
      * intros Hall x HIn; destruct HIn as [Heq|HIn]; [symmetry; exact Heq|apply Hall; exact HIn].
      * intros Hall x HIn; apply Hall; right; exact HIn.
    + split; [intro Hd; discriminate Hd|].
      intros Hall; apply Hall; left; reflexivity.
    + split; [intro Hd; discriminate Hd|].
      intros Hall; apply Hall; left; reflexivity.
Qed.

Lemma fold_max_perm : forall (A : Type) (f : A -> nat) l l',
  Permutation l l' ->
  fold_right (fun p n => Nat.max (f p) n) 0%nat l = fold_right (fun p n => Nat.max (f p) n) 0%nat l'.
Proof.
  intros A f l l' HP; induction HP as [|x l l' HP IH|x y l|l l' l'' HP1 IH1 HP2 IH2].
  - reflexivity.
  - cbn [fold_right]. rewrite IH; reflexivity.
  - cbn [fold_right]. lia.
  - rewrite IH1; exact IH2.
Qed.

Lemma yaml_depth_map_perm : forall kv kv',
  Permutation kv kv' -> yaml_depth (YMap kv) = yaml_depth (YMap kv').
Proof.
  intros kv kv' HP.
  change (S (fold_right (fun p n => Nat.max ((fun p => Nat.max (yaml_depth (fst p)) (yaml_depth (snd p))) p) n) 0%nat kv)
          = S (fold_right (fun p n => Nat.max ((fun p => Nat.max (yaml_depth (fst p)) (yaml_depth (snd p))) p) n) 0%nat kv')).
  f_equal. apply fold_max_perm; exact HP.
Qed.

Lemma ok_T_iff : forall r r' : res3,
  (r = T <-> r' = T) -> ((Ok r : out res3) = Ok T <-> (Ok r' : out res3) = Ok T).
Proof.
  intros r r' [Hlr Hrl]; split; intro Heq; injection Heq as Heq; f_equal.
  - apply Hlr; exact Heq.
  - apply Hrl; exact Heq.
Qed.

(* ---- the reference itself ---- *)

Lemma max3_perm : forall rs rs', Permutation rs rs' -> max3 rs = max3 rs'.
Proof.
  intros rs rs' HP; unfold max3.
  induction HP as [|x l l' HP IH|x y l|l l' l'' HP1 IH1 HP2 IH2].
  - reflexivity.
  - cbn [fold_right]. rewrite IH; reflexivity.
  - cbn [fold_right]. apply or3_swap.
  - rewrite IH1; exact IH2.
Qed.

Lemma of3_perm : forall c rs rs', Permutation rs rs' -> of3 c rs = of3 c rs'.
Proof.
  intros c rs rs' HP; unfold of3, all_missing.
  rewrite (count3_perm T _ _ HP), (count3_perm F _ _ HP),
          (forallb_perm _ (res3_eqb M) _ _ HP).
  reflexivity.
Qed.

Lemma first_non_true_perm_truth : forall rs rs', Permutation rs rs' ->
  (first_non_true rs = T <-> first_non_true rs' = T).
Proof.
  intros rs rs' HP. rewrite !first_non_true_T_iff. split.
  - intros Hall x HIn. apply Hall. eapply Permutation_in; [apply Permutation_sym; exact HP|exact HIn].
  - intros Hall x HIn. apply Hall. eapply Permutation_in; [exact HP|exact HIn].
Qed.

Lemma sem_mapping_perm_truth : forall o ic n kv kv' (d : doc),
  Permutation kv kv' ->
  (sem_mapping o ic (S n) (YMap kv) d = T <-> sem_mapping o ic (S n) (YMap kv') d = T).
Proof.
  intros o ic n kv kv' d HP.
  cbn [sem_mapping].
  apply first_non_true_perm_truth.
  apply Permutation_map; exact HP.
Qed.

Lemma sem_identifier_seq_perm : forall o ic l l' (d : doc),
  Permutation l l' -> sem_identifier o ic (YSeq l) d = sem_identifier o ic (YSeq l') d.
Proof.
  intros o ic l l' d HP.
  unfold sem_identifier, sem_identifier_members.
  apply max3_perm. apply Permutation_map; exact HP.
Qed.

(* ---- the engine, through the refinement ---- *)

Lemma engine_seq_perm : forall o b b' l l' (ic : bool) (d : doc),
  Permutation l l' ->
  solve_body o b (pure_doc d) = Ok (sem_identifier o ic (YSeq l) d) ->
  solve_body o b' (pure_doc d) = Ok (sem_identifier o ic (YSeq l') d) ->
  solve_body o b (pure_doc d) = solve_body o b' (pure_doc d).
Proof.
  intros o b b' l l' ic d HP Hb Hb'.
  rewrite Hb, Hb'. f_equal. apply sem_identifier_seq_perm; exact HP.
Qed.

Lemma engine_mapping_perm_truth : forall o ic kv kv' e e' (d : doc),
  Permutation kv kv' ->
  solve_body o e (pure_doc d) = Ok (sem_mapping o ic (S (yaml_depth (YMap kv))) (YMap kv) d) ->
  solve_body o e' (pure_doc d) = Ok (sem_mapping o ic (S (yaml_depth (YMap kv'))) (YMap kv') d) ->
  (solve_body o e (pure_doc d) = Ok T <-> solve_body o e' (pure_doc d) = Ok T).
Proof.
  intros o ic kv kv' e e' d HP.
  rewrite <- (yaml_depth_map_perm kv kv' HP).
  generalize (yaml_depth (YMap kv)) as n.
  intros n He He'.
  rewrite He, He'.
  apply ok_T_iff.
  apply sem_mapping_perm_truth; exact HP.
Qed.

Lemma sem_list_perm : forall o ic (m : keymod) vs vs' (x : value),
  Permutation vs vs' ->
  let rs := map (fun v => sem_scalar o ic m v x) vs in
  let rs' := map (fun v => sem_scalar o ic m v x) vs' in
  max3 rs = max3 rs' /\ (forall c, of3 c rs = of3 c rs') /\ (first_non_true rs = T <-> first_non_true rs' = T).
Proof.
  intros o ic m vs vs' x HP rs rs'.
  assert (HPm : Permutation rs rs') by (apply Permutation_map; exact HP).
  split; [apply max3_perm; exact HPm|].
  split; [intro c; apply of3_perm; exact HPm|].
  apply first_non_true_perm_truth; exact HPm.
Qed.
