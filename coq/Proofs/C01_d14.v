(* C01 / class D14: with the crate fix (shake_0 keeps the group a quantifier holds and shakes
   its members one by one) the hypothesis `sh0` of C01.shake0_exact_alt -- which excluded a
   one-member group under a quantifier -- is no longer needed for groups.

   shake0_exact_no_sh0 (no hypothesis at all on quantifier operands) is still FALSE: an and/or
   CHAIN (EBexp) directly under a quantifier is flattened into a group, which the quantifier then
   counts member by member (witness shake0_exact_no_sh0_refuted; the loader never builds such a
   tree: a quantifier holds an identifier, whose body is a group / search / nested block).
   shake0_exact_no_sh0_alt: exactness with the weaker hypothesis sh0w = "no quantifier operand
   is an and/or chain"; groups of any length are allowed there. *)
From TauModel Require Import Base Num Oracles Syntax Value Solver Rule Keys Optimiser Known.
From Coq Require Import Lia ZArith ZifyBool List Bool.
Import ListNotations.
From TauProofs Require Import C01.

(* the operand of a quantifier is not an and/or chain *)
Definition qop_ok (e : expr) : bool :=
  match e with EBexp _ BAnd _ | EBexp _ BOr _ => false | _ => true end.

Fixpoint sh0w (e : expr) : bool :=
  match e with
  | EGroup _ l => forallb sh0w l
  | EBexp l _ r => sh0w l && sh0w r
  | EMatch _ e' => qop_ok e' && sh0w e'
  | ENegate e' | ENested _ e' => sh0w e'
  | _ => true
  end.

(* sh0 (what C01.shake0_exact_alt asks) is stronger *)
Lemma qok_qop : forall e, quant_operand_ok e = true -> qop_ok e = true.
Proof. intros e H. destruct e as [| ? [] ?| | | | | | | | | | | |]; try reflexivity; discriminate H. Qed.

(* neither a group nor an and/or chain: such an operand keeps that shape *)
Definition qng (e : expr) : bool :=
  match e with EGroup _ _ => false | _ => qop_ok e end.

(* ---- the counterexample: an or-chain of three under all() ---- *)
Definition d14_a : expr := ESearch (SExact [49%N]) [97%N] false.
Definition d14_b : expr := ESearch (SExact [50%N]) [98%N] false.
Definition d14_c : expr := ESearch (SExact [51%N]) [99%N] false.

Example shake0_exact_no_sh0_refuted :
  let e := EMatch MAll (EBexp (EBexp d14_a BOr d14_b) BOr d14_c) in
  let d := pure_doc (fun k => if str_eqb k [97%N] then Some (VStr [49%N]) else None) in
  wf_body e = true /\ no_dneg e = true /\ shx e = true /\
  exists e', shake0 10 e = Ok e' /\ e' = EMatch MAll (EGroup BOr [d14_a; d14_b; d14_c]) /\
             solve_body o0 e d = Ok T /\ solve_body o0 e' d = Ok M.
Proof.
  cbv zeta. repeat split; try reflexivity.
  eexists. split; [vm_compute; reflexivity|]. split; [reflexivity|]. split; vm_compute; reflexivity.
Qed.

(* ---- the invariant: C01.inv without the condition on groups under quantifiers ---- *)
Fixpoint inv2 (e : expr) : bool :=
  match e with
  | EGroup s l => is_and_or s && match l with [] => false | _ => forallb inv2 l end
  | EBexp l s r => if is_and_or s then inv2 l && inv2 r else leaf l && leaf r
  | EMatch _ e' => qop_ok e' && inv2 e'
  | ENegate e' => negb (head_neg e') && inv2 e'
  | ENested _ e' => nested_ok e' && inv2 e'
  | ESearch _ _ _ => true
  | _ => false
  end.

Lemma inv2_of : forall e n,
  wf_body e = true -> sh0w e = true -> exists_sub dneg_here n e = false -> shx e = true ->
  inv2 e = true.
Proof.
  induction e as [e IH] using size_ind. intros n Hwf Hsh Hdn Hx.
  destruct e as [s l|l s r|b|f m|f|x|i|z|k e|cols rows|e|f e| |s f c]; try discriminate.
  - cbn [wf_body sh0w exists_sub shx inv2 dneg_here orb] in *.
    apply andb_true_iff in Hwf. destruct Hwf as [Hs Hwf].
    replace (is_and_or s) with true by (destruct s; try discriminate; reflexivity).
    cbn [andb]. destruct l as [|a l']; [discriminate|].
    apply forallb_intro. intros x Hin. apply (IH x) with (n := n).
    + apply (size_member s _ x Hin).
    + apply (forallb_In _ _ _ Hwf Hin).
    + apply (forallb_In _ _ _ Hsh Hin).
    + apply (existsb_false_In _ _ _ Hdn Hin).
    + apply (forallb_In _ _ _ Hx Hin).
  - cbn [wf_body sh0w exists_sub shx inv2 dneg_here orb] in *.
    replace (is_and_or_op s) with (is_and_or s) in Hwf by (destruct s; reflexivity).
    destruct (is_and_or s); [|exact Hx].
    apply andb_true_iff in Hwf. destruct Hwf as [H1 H2].
    apply andb_true_iff in Hsh. destruct Hsh as [H3 H4].
    apply orb_false_iff in Hdn. destruct Hdn as [H5 H6].
    apply andb_true_iff in Hx. destruct Hx as [H7 H8].
    rewrite (IH l) with (n := n), (IH r) with (n := n); try assumption; try (cbn [expr_size]; lia).
  - cbn [wf_body sh0w shx inv2] in *.
    apply andb_true_iff in Hsh. destruct Hsh as [H3 H4]. rewrite H3. cbn [andb].
    destruct k as [|c]; cbn [exists_sub dneg_here orb] in Hdn.
    + apply (IH e) with (n := n); try assumption. cbn [expr_size]. lia.
    + apply (IH e) with (n := (n || (c =? 0)%Z)); try assumption. cbn [expr_size]. lia.
  - cbn [wf_body sh0w exists_sub shx inv2 dneg_here] in *.
    apply orb_false_iff in Hdn. destruct Hdn as [H5 H6]. rewrite H5. cbn [negb andb].
    apply (IH e) with (n := true); try assumption. cbn [expr_size]. lia.
  - cbn [wf_body sh0w exists_sub shx inv2 dneg_here orb] in *.
    apply andb_true_iff in Hx. destruct Hx as [H7 H8]. rewrite H7. cbn [andb].
    apply (IH e) with (n := n); try assumption. cbn [expr_size]. lia.
  - reflexivity.
Qed.

Lemma inv2_group : forall s a, inv2 (EGroup s a) = true ->
  is_and_or s = true /\ forallb inv2 a = true /\ exists a1 a', a = a1 :: a'.
Proof.
  intros s a H. cbn [inv2] in H. apply andb_true_iff in H. destruct H as [Hs H].
  destruct a as [|a1 a']; [discriminate|]. eauto.
Qed.

Lemma inv2_group_intro : forall s a, is_and_or s = true -> forallb inv2 a = true -> a <> [] ->
  inv2 (EGroup s a) = true.
Proof.
  intros s a Hs Ha Hne. cbn [inv2]. rewrite Hs. destruct a; [congruence|exact Ha].
Qed.

Section D14.
Variable o : oracles.

Lemma nested_arr_generic2 : forall slv e a, inv2 e = true -> head_allor e = false ->
  nested_arr slv e a = any_true (slv e) (objects_of a).
Proof.
  intros slv e a Hi Hh.
  destruct e as [s l|l s r|b|f m|f|x|i|z|k e|cols rows|e|f e| |s f c]; try reflexivity.
  destruct k as [|n]; [|reflexivity].
  destruct e as [s l|l s r|b|f m|f|x|i|z|k e|cols rows|e|f e| |s f c]; try reflexivity.
  - destruct s; try reflexivity. discriminate.
  - discriminate.
Qed.

Lemma h8_generic2 : forall e e', inv2 e = true -> inv2 e' = true ->
  head_allor e = false -> head_allor e' = false ->
  (forall d, solve_body o e' d = solve_body o e d) ->
  forall f d, solve_body o (ENested f e') d = solve_body o (ENested f e) d.
Proof.
  intros e e' Hi Hi' Hh Hh' H f d. rewrite !sb_nested.
  destruct (d f) as [[v|]| |]; cbn [bind]; try reflexivity.
  destruct v; try reflexivity; [|apply H].
  rewrite !nested_arr_generic2 by assumption. apply any_true_ext. exact H.
Qed.

Lemma flat_spec2 : forall s l' r' L, is_and_or s = true -> inv2 l' = true -> inv2 r' = true ->
  flat s l' r' = Some L ->
  inv2 (EGroup s L) = true /\ long L /\
  forall d, solve_body o (EGroup s L) d = solve_body o (EBexp l' s r') d.
Proof.
  intros s l' r' L Hs Hl Hr Hf. unfold flat in Hf.
  destruct (grp s l') as [a|] eqn:G1; destruct (grp s r') as [b|] eqn:G2.
  - injection Hf as <-. apply grp_some in G1. apply grp_some in G2. subst l' r'.
    destruct (inv2_group s a Hl) as [_ [Ha [a1 [a' ->]]]].
    destruct (inv2_group s b Hr) as [_ [Hb [b1 [b' ->]]]].
    split; [|split].
    + apply inv2_group_intro; [exact Hs| |discriminate]. rewrite forallb_app, Ha, Hb. reflexivity.
    + destruct a' as [|a2 a']; cbn [app]; unfold long; eauto.
    + intros d. destruct s; try discriminate.
      * rewrite sb_bexp_and, and2_fold.
        rewrite (and_inline0 _ (map (fun x (_ : unit) => solve_body o x d) (a1 :: a')) _ (sb_group_and o _ d)).
        cbn [app].
        rewrite (and_inline _ _ (map (fun x (_ : unit) => solve_body o x d) (b1 :: b')) [] (sb_group_and o _ d)).
        rewrite app_nil_r, <- map_app. apply sb_group_and.
      * rewrite sb_bexp_or, or2_fold.
        rewrite (or_inline0 _ (map (fun x (_ : unit) => solve_body o x d) (a1 :: a')) _ (sb_group_or o _ d)).
        cbn [app].
        rewrite (or_inlineM _ _ (map (fun x (_ : unit) => solve_body o x d) (b1 :: b')) [] (sb_group_or o _ d)).
        rewrite app_nil_r, <- map_app. apply sb_group_or.
  - injection Hf as <-. apply grp_some in G1. subst l'.
    destruct (inv2_group s a Hl) as [_ [Ha [a1 [a' ->]]]].
    split; [|split].
    + apply inv2_group_intro; [exact Hs| |discriminate].
      rewrite forallb_app, Ha. cbn [forallb]. rewrite Hr. reflexivity.
    + destruct a' as [|a2 a']; cbn [app]; unfold long; eauto.
    + intros d. destruct s; try discriminate.
      * rewrite sb_bexp_and, and2_fold.
        rewrite (and_inline0 _ (map (fun x (_ : unit) => solve_body o x d) (a1 :: a')) _ (sb_group_and o _ d)).
        rewrite sb_group_and, map_app. reflexivity.
      * rewrite sb_bexp_or, or2_fold.
        rewrite (or_inline0 _ (map (fun x (_ : unit) => solve_body o x d) (a1 :: a')) _ (sb_group_or o _ d)).
        rewrite sb_group_or, map_app. reflexivity.
  - injection Hf as <-. apply grp_some in G2. subst r'.
    destruct (inv2_group s b Hr) as [_ [Hb [b1 [b' ->]]]].
    split; [|split].
    + apply inv2_group_intro; [exact Hs| |discriminate]. cbn [forallb]. rewrite Hl. exact Hb.
    + unfold long; eauto.
    + intros d. destruct s; try discriminate.
      * rewrite sb_bexp_and, and2_fold.
        rewrite (and_inline1 _ _ (map (fun x (_ : unit) => solve_body o x d) (b1 :: b')) [] (sb_group_and o _ d)).
        rewrite app_nil_r. apply sb_group_and.
      * rewrite sb_bexp_or, or2_fold.
        rewrite (or_inline1 _ _ (map (fun x (_ : unit) => solve_body o x d) (b1 :: b')) [] (sb_group_or o _ d)).
        rewrite app_nil_r. apply sb_group_or.
  - destruct (bx s l') as [[x y]|] eqn:B1.
    + injection Hf as <-. apply bx_some in B1. subst l'.
      cbn [inv2] in Hl. rewrite Hs in Hl. apply andb_true_iff in Hl. destruct Hl as [Hx Hy].
      split; [|split].
      * apply inv2_group_intro; [exact Hs| |discriminate]. cbn [forallb]. rewrite Hx, Hy, Hr. reflexivity.
      * unfold long; eauto.
      * intros d. destruct s; try discriminate.
        -- rewrite sb_bexp_and, and2_fold.
           rewrite (and_inline0 _ [fun _ => solve_body o x d; fun _ => solve_body o y d] _
                      (eq_trans (sb_bexp_and o x y d) (and2_fold _ _))).
           apply sb_group_and.
        -- rewrite sb_bexp_or, or2_fold.
           rewrite (or_inline0 _ [fun _ => solve_body o x d; fun _ => solve_body o y d] _
                      (eq_trans (sb_bexp_or o x y d) (or2_fold _ _))).
           apply sb_group_or.
    + destruct (bx s r') as [[y z]|] eqn:B2; [|discriminate].
      injection Hf as <-. apply bx_some in B2. subst r'.
      cbn [inv2] in Hr. rewrite Hs in Hr. apply andb_true_iff in Hr. destruct Hr as [Hy Hz].
      split; [|split].
      * apply inv2_group_intro; [exact Hs| |discriminate]. cbn [forallb]. rewrite Hl, Hy, Hz. reflexivity.
      * unfold long; eauto.
      * intros d. destruct s; try discriminate.
        -- rewrite sb_bexp_and, and2_fold.
           rewrite (and_inline1 _ _ [fun _ => solve_body o y d; fun _ => solve_body o z d] []
                      (eq_trans (sb_bexp_and o y z d) (and2_fold _ _))).
           apply sb_group_and.
        -- rewrite sb_bexp_or, or2_fold.
           rewrite (or_inline1 _ _ [fun _ => solve_body o y d; fun _ => solve_body o z d] []
                      (eq_trans (sb_bexp_or o y z d) (or2_fold _ _))).
           apply sb_group_or.
Qed.

(* ---- what one run of shake_0 guarantees (no condition on groups under quantifiers) ---- *)
Definition post2 (e e' : expr) : Prop :=
  inv2 e' = true /\
  (head_neg e' = true -> head_neg e = true) /\
  (head_allor e' = true -> head_allor e = true) /\
  (qng e = true -> qng e' = true) /\
  (forall d, solve_body o e' d = solve_body o e d) /\
  (forall k d, qng e = true ->
               solve_body o (EMatch k e') d = solve_body o (EMatch k e) d) /\
  (forall f d, nested_ok e = true ->
               solve_body o (ENested f e') d = solve_body o (ENested f e) d).

Ltac split_post2 :=
  unfold post2; (split; [|split; [|split; [|split; [|split; [|split]]]]]).

Lemma post2_refl : forall e, inv2 e = true -> post2 e e.
Proof. intros e Hi. split_post2; auto. Qed.

Lemma qng_andor_false : forall l s r, is_and_or s = true -> qng (EBexp l s r) = false.
Proof. intros l s r H. destruct s; try discriminate; reflexivity. Qed.

Lemma qng_not_group : forall e s l, qng e = true -> e <> EGroup s l.
Proof. intros e s l H ->. discriminate H. Qed.

Lemma qng_qop : forall e, qng e = true -> qop_ok e = true.
Proof. intros e H. destruct e as [| ? [] ?| | | | | | | | | | | |]; try discriminate H; reflexivity. Qed.

Lemma shake0_post2 : forall fuel e e', inv2 e = true -> shake0 fuel e = Ok e' -> post2 e e'.
Proof.
  induction fuel as [|fu IH]; intros e e' Hi H.
  { injection H as <-. apply post2_refl. exact Hi. }
  destruct e as [s l|l s r|b|f m|f|x|i|z|k e|cols rows|e|f e| |s f c]; try discriminate.
  - (* ---------------- EGroup ---------------- *)
    destruct (inv2_group s l Hi) as [Hs [Hl [y1 [l0 El]]]].
    cbn [shake0] in H. rewrite Hs in H. cbn [negb] in H.
    apply bind_ok_inv in H. destruct H as [l' [Hl' H]].
    pose proof (mapM_Forall2 _ _ _ Hl') as HF.
    assert (HP : Forall2 post2 l l').
    { eapply Forall2_In_impl; [exact HF|]. intros x y Hx _ Hxy. cbn beta in Hxy.
      apply IH; [|exact Hxy]. apply (forallb_In _ _ _ Hl Hx). }
    assert (Hil' : forallb inv2 l' = true).
    { eapply Forall2_forallb; [exact HP|]. intros x y _ Hp. apply Hp. }
    assert (Hsm : sem_members o l l').
    { eapply Forall2_In_impl; [exact HP|]. intros x y _ _ Hp. apply Hp. }
    subst l. destruct l0 as [|y2 l0].
    + (* one member: unwrapped *)
      inversion HP as [|a b la lb Hp1 Hrest]; subst. inversion Hrest; subst.
      injection H as <-. clear HP Hrest HF.
      destruct Hp1 as [P1 [P2 [P3 [P4 [P6 [P8 P9]]]]]].
      split_post2.
      * exact P1.
      * exact P2.
      * exact P3.
      * intros Hq. discriminate Hq.
      * intros d. rewrite P6. symmetry. apply sem_group_single. exact Hs.
      * intros k d Hq. discriminate Hq.
      * intros f d Hn. cbn [nested_ok head_allor] in Hn. apply negb_true_iff in Hn.
        apply h8_generic2.
        -- exact Hi.
        -- exact P1.
        -- exact Hn.
        -- destruct (head_allor b) eqn:Hb; [|reflexivity]. rewrite (P3 eq_refl) in Hn. discriminate.
        -- intros d'. rewrite P6. symmetry. apply sem_group_single. exact Hs.
    + (* two or more members *)
      inversion HP as [|a b la lb Hp1 Hrest]; subst.
      inversion Hrest as [|a2 b2 la2 lb2 Hp2 Hrest2]; subst.
      injection H as <-.
      assert (Hi' : inv2 (EGroup s (b :: b2 :: lb2)) = true)
        by (apply inv2_group_intro; [exact Hs|exact Hil'|discriminate]).
      split_post2.
      * exact Hi'.
      * intros Hc. discriminate Hc.
      * intros Hc. discriminate Hc.
      * intros Hc. discriminate Hc.
      * intros d. apply sem_group_cong; assumption.
      * intros k d Hc. discriminate Hc.
      * intros f d _. apply h8_generic2; try assumption; try reflexivity.
        intros d'. apply sem_group_cong; assumption.
  - (* ---------------- EBexp ---------------- *)
    assert (Hi0 := Hi). cbn [inv2] in Hi. destruct (is_and_or s) eqn:Hs.
    + apply andb_true_iff in Hi. destruct Hi as [Hil Hir].
      rewrite shake0_bexp_andor in H by exact Hs.
      apply bind_ok_inv in H. destruct H as [l' [Hl' H]].
      apply bind_ok_inv in H. destruct H as [r' [Hr' H]].
      pose proof (IH l l' Hil Hl') as Pl. pose proof (IH r r' Hir Hr') as Pr.
      assert (Hil' : inv2 l' = true) by apply Pl.
      assert (Hir' : inv2 r' = true) by apply Pr.
      assert (Hsl : forall d, solve_body o l' d = solve_body o l d) by apply Pl.
      assert (Hsr : forall d, solve_body o r' d = solve_body o r d) by apply Pr.
      pose proof (sem_bexp_cong o l l' s r r' Hs Hsl Hsr) as Hcong.
      pose proof (qng_andor_false l s r Hs) as Hq.
      destruct (flat s l' r') as [L|] eqn:Hflat.
      * destruct (flat_spec2 s l' r' L Hs Hil' Hir' Hflat) as [HiL [Hlong HsL]].
        destruct (long_heads s L Hlong) as [Hn1 [Hn2 [Hn3 Hn4]]].
        destruct (IH _ _ HiL H) as [P1 [P2 [P3 [P4 [P6 [P8 P9]]]]]].
        assert (Hsem : forall d, solve_body o e' d = solve_body o (EBexp l s r) d).
        { intros d. rewrite P6, HsL. apply Hcong. }
        split_post2.
        -- exact P1.
        -- intros Hc. rewrite (P2 Hc) in Hn1. discriminate.
        -- intros Hc. rewrite (P3 Hc) in Hn2. discriminate.
        -- intros Hc. rewrite Hc in Hq. discriminate.
        -- exact Hsem.
        -- intros k d Hc. rewrite Hc in Hq. discriminate.
        -- intros f d _. apply h8_generic2; try assumption; try reflexivity.
           destruct (head_allor e') eqn:Hb; [|reflexivity]. rewrite (P3 eq_refl) in Hn2. discriminate.
      * injection H as <-.
        assert (Hi' : inv2 (EBexp l' s r') = true) by (cbn [inv2]; rewrite Hs, Hil', Hir'; reflexivity).
        split_post2.
        -- exact Hi'.
        -- intros Hc. discriminate Hc.
        -- intros Hc. discriminate Hc.
        -- intros Hc. rewrite Hc in Hq. discriminate.
        -- exact Hcong.
        -- intros k d Hc. rewrite Hc in Hq. discriminate.
        -- intros f d _. apply h8_generic2; try assumption; reflexivity.
    + apply andb_true_iff in Hi. destruct Hi as [Hll Hlr].
      rewrite shake0_bexp_cmp in H by exact Hs.
      rewrite (shake0_leaf fu l Hll), (shake0_leaf fu r Hlr) in H. cbn [bind] in H.
      injection H as <-. apply post2_refl. exact Hi0.
  - (* ---------------- EMatch ---------------- *)
    assert (Hi0 := Hi). cbn [inv2] in Hi. apply andb_true_iff in Hi. destruct Hi as [Hq Hie].
    assert (Hpk : exists x, e' = EMatch k x /\ inv2 (EMatch k x) = true /\
              (forall d, solve_body o (EMatch k x) d = solve_body o (EMatch k e) d) /\
              (forall s l', x = EGroup s l' -> exists l, e = EGroup s l) /\
              (forall s l, e = EGroup s l -> exists l', x = EGroup s l' /\ sem_members o l l')).
    { destruct (shake0_match_inv _ _ _ _ H) as [[s [l [l' [-> [Hl' ->]]]]]|[Hng [x [Hx ->]]]].
      - (* a group stays a group, whatever its length; its members are shaken *)
        destruct (inv2_group s l Hie) as [Hs [Hl [y1 [l0 El]]]].
        pose proof (mapM_Forall2 _ _ _ Hl') as HF.
        assert (HP : Forall2 post2 l l').
        { eapply Forall2_In_impl; [exact HF|]. intros x y Hx _ Hxy. cbn beta in Hxy.
          apply IH; [|exact Hxy]. apply (forallb_In _ _ _ Hl Hx). }
        assert (Hil' : forallb inv2 l' = true).
        { eapply Forall2_forallb; [exact HP|]. intros x y _ Hp. apply Hp. }
        assert (Hsm : sem_members o l l').
        { eapply Forall2_In_impl; [exact HP|]. intros x y _ _ Hp. apply Hp. }
        pose proof (Forall2_length _ _ _ HP) as Hlen.
        exists (EGroup s l'). split; [reflexivity|]. split; [|split; [|split]].
        + cbn [inv2 qop_ok]. rewrite Hs. cbn [andb].
          destruct l' as [|b1 l'0]; [subst l; discriminate Hlen|exact Hil'].
        + intros d. apply sem_match_group_cong. exact Hsm.
        + intros s0 l1 E. injection E as <- <-. eauto.
        + intros s0 l1 E. injection E as <- <-. eauto.
      - assert (Hqn : qng e = true).
        { destruct e as [s0 l0|? [] ?| | | | | | | | | | | |]; try discriminate Hq; try reflexivity.
          exfalso. eapply Hng. reflexivity. }
        destruct (IH e x Hie Hx) as [P1 [P2 [P3 [P4 [P6 [P8 P9]]]]]].
        exists x. split; [reflexivity|]. split; [|split; [|split]].
        + cbn [inv2]. rewrite (qng_qop _ (P4 Hqn)), P1. reflexivity.
        + intros d. apply P8. exact Hqn.
        + intros s0 l' E. exfalso. exact (qng_not_group _ _ _ (P4 Hqn) E).
        + intros s0 l0 E. exfalso. exact (Hng _ _ E). }
    destruct Hpk as [x [-> [Hi' [Hsem [HP5 HP7]]]]].
    assert (Hall : head_allor (EMatch k x) = true -> head_allor (EMatch k e) = true).
    { intros Hc. destruct k as [|n]; [|discriminate Hc].
      destruct x as [s l'| | | | | | | | | | | | |]; try discriminate Hc.
      destruct s; try discriminate Hc.
      destruct (HP5 BOr l' eq_refl) as [l ->]. reflexivity. }
    split_post2.
    + exact Hi'.
    + intros Hc. discriminate Hc.
    + exact Hall.
    + intros _. reflexivity.
    + exact Hsem.
    + intros k2 d _. apply h7_other; try reflexivity. exact Hsem.
    + intros f d _.
      destruct (head_allor (EMatch k e)) eqn:Hh; [clear Hall|rewrite <- Hh in Hall].
      * (* all(<or-group>) directly under the nested block: member by member *)
        destruct k as [|n]; [|discriminate Hh].
        destruct e as [s l| | | | | | | | | | | | |]; try discriminate Hh.
        destruct s; try discriminate Hh.
        destruct (HP7 BOr l eq_refl) as [l' [-> Hsm]].
        rewrite !sb_nested.
        destruct (d f) as [[v|]| |]; cbn [bind]; try reflexivity.
        destruct v; try reflexivity; [|apply Hsem].
        cbn [nested_arr]. apply and_fold_F2. apply Forall2_flip'.
        eapply Forall2_In_impl; [exact Hsm|]. intros m m' _ _ Hm.
        apply some_object_ext. exact Hm.
      * apply h8_generic2; try assumption.
        apply not_true_is_false. intros Hb. apply Hall in Hb. congruence.
  - (* ---------------- ENegate ---------------- *)
    assert (Hi0 := Hi). cbn [inv2] in Hi. apply andb_true_iff in Hi. destruct Hi as [Hhn Hie].
    apply negb_true_iff in Hhn.
    cbn [shake0] in H. apply bind_ok_inv in H. destruct H as [x [Hx H]].
    destruct (IH e x Hie Hx) as [P1 [P2 [P3 [P4 [P6 [P8 P9]]]]]].
    assert (Hhx : head_neg x = false).
    { destruct (head_neg x) eqn:Hb; [|reflexivity]. rewrite (P2 eq_refl) in Hhn. discriminate. }
    assert (E : e' = ENegate x).
    { destruct x; try (injection H as <-; reflexivity). discriminate Hhx. }
    subst e'. clear H.
    assert (Hi' : inv2 (ENegate x) = true) by (cbn [inv2]; rewrite Hhx, P1; reflexivity).
    assert (Hsem : forall d, solve_body o (ENegate x) d = solve_body o (ENegate e) d)
      by (intros d; rewrite !sb_negate, P6; reflexivity).
    split_post2.
    + exact Hi'.
    + intros _. reflexivity.
    + intros Hc. discriminate Hc.
    + intros _. reflexivity.
    + exact Hsem.
    + intros k d _. apply h7_other; try reflexivity. exact Hsem.
    + intros f d _. apply h8_generic2; try assumption; reflexivity.
  - (* ---------------- ENested ---------------- *)
    assert (Hi0 := Hi). cbn [inv2] in Hi. apply andb_true_iff in Hi. destruct Hi as [Hno Hie].
    cbn [shake0] in H. apply bind_ok_inv in H. destruct H as [x [Hx H]]. injection H as <-.
    destruct (IH e x Hie Hx) as [P1 [P2 [P3 [P4 [P6 [P8 P9]]]]]].
    assert (Hno' : nested_ok x = true).
    { destruct (head_allor x) eqn:Hb; [|apply head_allor_false_nested_ok; exact Hb].
      pose proof (P3 eq_refl) as He.
      destruct e as [s l| | | | | | | |k e0| | | | |]; try discriminate He.
      - cbn [nested_ok] in Hno. rewrite He in Hno. discriminate.
      - destruct (shake0_match_head _ _ _ _ Hx) as [x0 ->]. reflexivity. }
    assert (Hi' : inv2 (ENested f x) = true) by (cbn [inv2]; rewrite Hno', P1; reflexivity).
    assert (Hsem : forall d, solve_body o (ENested f x) d = solve_body o (ENested f e) d)
      by (intros d; apply P9; exact Hno).
    split_post2.
    + exact Hi'.
    + intros Hc. discriminate Hc.
    + intros Hc. discriminate Hc.
    + intros _. reflexivity.
    + exact Hsem.
    + intros k d _. apply h7_other; try reflexivity. exact Hsem.
    + intros f2 d _. apply h8_generic2; try assumption; reflexivity.
  - (* ---------------- ESearch ---------------- *)
    injection H as <-. apply post2_refl. exact Hi.
Qed.
End D14.

Lemma shake0_exact_no_sh0_alt : forall o fuel e e' d,
  wf_body e = true -> sh0w e = true -> no_dneg e = true -> shx e = true ->
  shake0 fuel e = Ok e' ->
  solve_body o e' d = solve_body o e d.
Proof.
  intros o fuel e e' d Hwf Hsh Hdn Hx H.
  assert (Hi : inv2 e = true) by (apply (inv2_of e false); auto using no_dneg_here).
  apply (shake0_post2 o fuel e e' Hi H).
Qed.

(* the hypothesis of C01.shake0_exact_alt implies the new one *)
Lemma sh0_sh0w : forall e, sh0 e = true -> sh0w e = true.
Proof.
  induction e as [e IH] using size_ind. intros H.
  destruct e as [s l|l s r|b|f m|f|x|i|z|k e|cols rows|e|f e| |s f c]; try reflexivity;
    cbn [sh0 sh0w] in *.
  - apply forallb_intro. intros x Hx. apply IH; [apply (size_member s _ x Hx)|apply (forallb_In _ _ _ H Hx)].
  - apply andb_true_iff in H. destruct H as [H1 H2].
    rewrite (IH l), (IH r); try assumption; try reflexivity; cbn [expr_size]; lia.
  - apply andb_true_iff in H. destruct H as [H1 H2].
    rewrite (qok_qop _ H1). cbn [andb]. apply IH; [cbn [expr_size]; lia|exact H2].
  - apply IH; [cbn [expr_size]; lia|exact H].
  - apply IH; [cbn [expr_size]; lia|exact H].
Qed.

(* the former D14 shape (a one-member group under a quantifier) is inside the proved scope *)
Example d14_shape_in_scope :
  let e := EMatch (MOf 2) (EGroup BOr [ESearch (SAho [MTContains [97%N]; MTContains [98%N]] false) [102%N] false]) in
  wf_body e = true /\ sh0 e = false /\ sh0w e = true /\ no_dneg e = true /\ shx e = true.
Proof. cbv zeta. repeat split; reflexivity. Qed.

Print Assumptions shake0_exact_no_sh0_alt.
Print Assumptions shake0_exact_no_sh0_refuted.
