(* C16  Matching reads only the fields the rule names: proofs. *)
From TauModel Require Import Base Num Oracles Syntax Value Solver Rule Keys.
From Coq Require Import Lia ZArith List Bool.
Import ListNotations.

(* ====================================================================== *)
(*                 Induction principle for the nested type                 *)
(* ====================================================================== *)

(* what is additionally known about the members of a group *)
Definition sub_Forall (P : expr -> Prop) (e : expr) : Prop :=
  match e with EGroup _ l => Forall P l | _ => True end.

Definition is_leafish (e : expr) : Prop :=
  match e with
  | EGroup _ _ | EBexp _ _ _ | EMatch _ _ | ENegate _ => False
  | _ => True
  end.

Section ExprInd.
Variable P : expr -> Prop.
Hypothesis HGroup : forall s l, Forall P l -> P (EGroup s l).
Hypothesis HBexp : forall l s r, P l -> P r -> P (EBexp l s r).
Hypothesis HMatch : forall k e, P e -> sub_Forall P e -> P (EMatch k e).
Hypothesis HNeg : forall e, P e -> P (ENegate e).
Hypothesis HOther : forall e, is_leafish e -> P e.

Fixpoint expr_ind' (e : expr) : P e :=
  let go := fix go (l : list expr) : Forall P l :=
              match l with
              | [] => Forall_nil P
              | x :: t => Forall_cons x (expr_ind' x) (go t)
              end in
  match e as e0 return P e0 with
  | EGroup s l => HGroup s l (go l)
  | EBexp l s r => HBexp l s r (expr_ind' l) (expr_ind' r)
  | EMatch k e' =>
      HMatch k e' (expr_ind' e')
             (match e' as e0 return sub_Forall P e0 with
              | EGroup _ l => go l
              | _ => I
              end)
  | ENegate e' => HNeg e' (expr_ind' e')
  | EBool b => HOther (EBool b) I
  | ECast f m => HOther (ECast f m) I
  | EField f => HOther (EField f) I
  | EFloat f => HOther (EFloat f) I
  | EIdent s => HOther (EIdent s) I
  | EInt z => HOther (EInt z) I
  | EMatrix cols rows => HOther (EMatrix cols rows) I
  | ENested f e' => HOther (ENested f e') I
  | ENull => HOther ENull I
  | ESearch s f cast => HOther (ESearch s f cast) I
  end.
End ExprInd.

(* ====================================================================== *)
(*                         Congruence helper lemmas                        *)
(* ====================================================================== *)

Lemma bind_ext : forall A B (x : out A) (f g : A -> out B),
  (forall a, f a = g a) -> bind x f = bind x g.
Proof. intros A B x f g H. destruct x; simpl; auto. Qed.

Section Folds.
Variable A : Type.
Variables f g : A -> out res3.

Lemma and_fold_map_ext : forall l, (forall x, In x l -> f x = g x) ->
  and_fold (map (fun x (_ : unit) => f x) l) = and_fold (map (fun x (_ : unit) => g x) l).
Proof.
  induction l as [|a l IH]; intros H; cbn [map and_fold]; [reflexivity|].
  rewrite (H a (or_introl eq_refl)). apply bind_ext. intros [].
  - apply IH. intros x Hx. apply H. right; exact Hx.
  - reflexivity.
  - reflexivity.
Qed.

Lemma or_fold_map_ext : forall l acc, (forall x, In x l -> f x = g x) ->
  or_fold acc (map (fun x (_ : unit) => f x) l) = or_fold acc (map (fun x (_ : unit) => g x) l).
Proof.
  induction l as [|a l IH]; intros acc H; cbn [map or_fold]; [reflexivity|].
  assert (Hl : forall x, In x l -> f x = g x) by (intros x Hx; apply H; right; exact Hx).
  rewrite (H a (or_introl eq_refl)). apply bind_ext. intros []; auto.
Qed.

Lemma of0_fold_map_ext : forall l acc, (forall x, In x l -> f x = g x) ->
  of0_fold acc (map (fun x (_ : unit) => f x) l) = of0_fold acc (map (fun x (_ : unit) => g x) l).
Proof.
  induction l as [|a l IH]; intros acc H; cbn [map of0_fold]; [reflexivity|].
  assert (Hl : forall x, In x l -> f x = g x) by (intros x Hx; apply H; right; exact Hx).
  rewrite (H a (or_introl eq_refl)). apply bind_ext. intros []; auto.
Qed.

Lemma ofn_fold_map_ext : forall l c count acc, (forall x, In x l -> f x = g x) ->
  ofn_fold c count acc (map (fun x (_ : unit) => f x) l)
  = ofn_fold c count acc (map (fun x (_ : unit) => g x) l).
Proof.
  induction l as [|a l IH]; intros c count acc H; cbn [map ofn_fold]; [reflexivity|].
  assert (Hl : forall x, In x l -> f x = g x) by (intros x Hx; apply H; right; exact Hx).
  rewrite (H a (or_introl eq_refl)). apply bind_ext. intros []; auto.
  destruct (c <=? count + 1)%Z; auto.
Qed.

Lemma of_fold_map_ext : forall l c, (forall x, In x l -> f x = g x) ->
  of_fold c (map (fun x (_ : unit) => f x) l) = of_fold c (map (fun x (_ : unit) => g x) l).
Proof.
  intros l c H. unfold of_fold. destruct (c =? 0)%Z.
  - apply of0_fold_map_ext; exact H.
  - apply ofn_fold_map_ext; exact H.
Qed.
End Folds.

Lemma field_search_ext : forall o (d d' : docq) f cast p,
  d f = d' f -> field_search o d f cast p = field_search o d' f cast p.
Proof. intros o d d' f cast p H. unfold field_search. rewrite H. reflexivity. Qed.

Lemma operand_of_ext : forall o (d d' : docq) e,
  (forall k, In k (expr_keys e) -> d k = d' k) -> operand_of o d e = operand_of o d' e.
Proof.
  intros o d d' e H. destruct e; try reflexivity.
  - assert (E : d f = d' f) by (apply H; left; reflexivity).
    destruct m; unfold operand_of; try rewrite E; reflexivity.
  - assert (E : d f = d' f) by (apply H; left; reflexivity).
    unfold operand_of; rewrite E; reflexivity.
Qed.

Lemma solve_compare_ext : forall o (d d' : docq) l op r,
  (forall k, In k (expr_keys l ++ expr_keys r) -> d k = d' k) ->
  solve_compare o d l op r = solve_compare o d' l op r.
Proof.
  intros o d d' l op r H.
  assert (Hl : forall k, In k (expr_keys l) -> d k = d' k)
    by (intros k Hk; apply H; apply in_or_app; left; exact Hk).
  assert (Hr : forall k, In k (expr_keys r) -> d k = d' k)
    by (intros k Hk; apply H; apply in_or_app; right; exact Hk).
  clear H.
  pose proof (operand_of_ext o d d' l Hl) as Ol.
  pose proof (operand_of_ext o d d' r Hr) as Or.
  destruct l;
    try (unfold solve_compare; rewrite Ol, ?Or; reflexivity).
  - (* ECast *)
    assert (E : d f = d' f) by (apply Hl; left; reflexivity).
    destruct m; try (unfold solve_compare; rewrite Ol, ?Or; reflexivity).
    destruct op; try (unfold solve_compare; rewrite Ol, ?Or; reflexivity).
    destruct r; try (unfold solve_compare; rewrite Ol, ?Or; reflexivity).
    + assert (E0 : d f0 = d' f0) by (apply Hr; left; reflexivity).
      destruct m; try (unfold solve_compare; rewrite Ol, ?Or; reflexivity).
      unfold solve_compare. rewrite E, ?E0. reflexivity.
    + (* str(f) == null, fix D27 *)
      unfold solve_compare. rewrite E. reflexivity.
  - (* EField *)
    assert (E : d f = d' f) by (apply Hl; left; reflexivity).
    destruct op; try (unfold solve_compare; rewrite Ol, ?Or; reflexivity).
    destruct r; try (unfold solve_compare; rewrite Ol, ?Or; reflexivity);
      unfold solve_compare; rewrite E; reflexivity.
Qed.

(* ---- matrix ---- *)
Section Matrix.
Variables d d' : docq.
Variable cols : list str.
Hypothesis Hcols : forall k, In k cols -> d k = d' k.

Lemma row_cells_ext : forall cells i cache,
  row_cells d cols i cells cache = row_cells d' cols i cells cache.
Proof.
  induction cells as [|c cells IH]; intros i cache; cbn [row_cells]; [reflexivity|].
  destruct c as [cell|]; [|apply IH].
  destruct (nth_error cache i) as [slot|]; [|reflexivity].
  assert (E : match slot with
              | Some _ => Ok (Some cache)
              | None =>
                  match nth_error cols i with
                  | None => Panic 667
                  | Some col =>
                      do x <- d col;
                      Ok (match x with
                          | None => None
                          | Some v => Some (firstn i cache ++ [Some v] ++ skipn (S i) cache)
                          end)
                  end
              end
              = match slot with
                | Some _ => Ok (Some cache)
                | None =>
                    match nth_error cols i with
                    | None => Panic 667
                    | Some col =>
                        do x <- d' col;
                        Ok (match x with
                            | None => None
                            | Some v => Some (firstn i cache ++ [Some v] ++ skipn (S i) cache)
                            end)
                    end
                end).
  { destruct slot; [reflexivity|].
    destruct (nth_error cols i) as [col|] eqn:N; [|reflexivity].
    rewrite (Hcols col (nth_error_In _ _ N)). reflexivity. }
  rewrite E. apply bind_ext. intros [cache'|]; [|reflexivity].
  apply bind_ext. intros []; auto.
Qed.

Lemma matrix_or_ext : forall rows cache acc,
  matrix_or d cols rows cache acc = matrix_or d' cols rows cache acc.
Proof.
  induction rows as [|row rows IH]; intros cache acc; cbn [matrix_or]; [reflexivity|].
  rewrite row_cells_ext. apply bind_ext. intros [hit cache']. destruct hit; auto.
Qed.

Lemma matrix_all_ext : forall rows cache,
  matrix_all d cols rows cache = matrix_all d' cols rows cache.
Proof.
  induction rows as [|row rows IH]; intros cache; cbn [matrix_all]; [reflexivity|].
  rewrite row_cells_ext. apply bind_ext. intros [hit cache']. destruct hit; auto.
Qed.

Lemma matrix_of_ext : forall rows cache c hits acc,
  matrix_of d cols rows cache c hits acc = matrix_of d' cols rows cache c hits acc.
Proof.
  induction rows as [|row rows IH]; intros cache c hits acc; cbn [matrix_of]; [reflexivity|].
  rewrite row_cells_ext. apply bind_ext. intros [hit cache']. destruct hit; auto.
  destruct (c <=? hits + 1)%Z; auto.
Qed.
End Matrix.

(* match_all / match_of of an identifier body *)
Lemma match_all_ext : forall o (slv : expr -> docq -> out res3) b (d d' : docq),
  (forall k, In k (expr_keys b) -> d k = d' k) ->
  slv b d = slv b d' ->
  match_all o slv b d = match_all o slv b d'.
Proof.
  intros o slv b d d' H Hs. destruct b; try exact Hs.
  - unfold match_all. apply matrix_all_ext. exact H.
  - assert (E : d f = d' f) by (apply H; left; reflexivity).
    destruct s; try exact Hs; unfold match_all; apply field_search_ext; exact E.
Qed.

Lemma match_of_ext : forall o (slv : expr -> docq -> out res3) b (d d' : docq) c,
  (forall k, In k (expr_keys b) -> d k = d' k) ->
  slv b d = slv b d' ->
  match_of o slv b d c = match_of o slv b d' c.
Proof.
  intros o slv b d d' c H Hs. unfold match_of. rewrite Hs.
  destruct (c =? 0)%Z; [reflexivity|].
  destruct b; try reflexivity.
  - apply matrix_of_ext. exact H.
  - assert (E : d f = d' f) by (apply H; left; reflexivity).
    destruct s; try reflexivity; apply field_search_ext; exact E.
Qed.

(* ====================================================================== *)
(*                              agree_on_keys                              *)
(* ====================================================================== *)

Lemma agree_on_keys : forall o ids body e (d d' : docq),
  (forall b x y, (forall k, In k (expr_keys b) -> x k = y k) -> body b x = body b y) ->
  (forall k, In k (expr_keys e) -> d k = d' k) ->
  (forall i b, lookup i ids = Some b -> forall k, In k (expr_keys b) -> d k = d' k) ->
  solve o ids body e d = solve o ids body e d'.
Proof.
  intros o ids body e d d' Hbody He Hids. revert He.
  induction e as [s l IHl | l s r IHl IHr | mk e IHe IHsub | e IHe | e Hleaf] using expr_ind';
    intros He.
  - (* EGroup *)
    assert (Hm : forall x, In x l -> solve o ids body x d = solve o ids body x d').
    { intros x Hx. rewrite Forall_forall in IHl. apply (IHl x Hx).
      intros k Hk. apply He. cbn [expr_keys]. apply in_flat_map. exists x. split; assumption. }
    destruct s; try reflexivity.
    + exact (and_fold_map_ext _ (fun x => solve o ids body x d)
                              (fun x => solve o ids body x d') l Hm).
    + exact (or_fold_map_ext _ (fun x => solve o ids body x d)
                             (fun x => solve o ids body x d') l M Hm).
  - (* EBexp *)
    cbn [expr_keys] in He.
    assert (Hl : forall k, In k (expr_keys l) -> d k = d' k)
      by (intros k Hk; apply He; apply in_or_app; left; exact Hk).
    assert (Hr : forall k, In k (expr_keys r) -> d k = d' k)
      by (intros k Hk; apply He; apply in_or_app; right; exact Hk).
    specialize (IHl Hl). specialize (IHr Hr).
    destruct s; try exact (solve_compare_ext o d d' l _ r He).
    + change (and2 (fun _ => solve o ids body l d) (fun _ => solve o ids body r d)
              = and2 (fun _ => solve o ids body l d') (fun _ => solve o ids body r d')).
      rewrite IHl, IHr. reflexivity.
    + change (or2 (fun _ => solve o ids body l d) (fun _ => solve o ids body r d)
              = or2 (fun _ => solve o ids body l d') (fun _ => solve o ids body r d')).
      rewrite IHl, IHr. reflexivity.
  - (* EMatch *)
    cbn [expr_keys] in He. specialize (IHe He).
    assert (Hmem : forall s l, e = EGroup s l ->
                   forall x, In x l -> solve o ids body x d = solve o ids body x d').
    { intros s l -> x Hx. cbn [sub_Forall] in IHsub. rewrite Forall_forall in IHsub.
      apply (IHsub x Hx). intros k Hk. apply He. cbn [expr_keys].
      apply in_flat_map. exists x. split; assumption. }
    clear IHsub.
    assert (Hidm : forall i s g, lookup i ids = Some (EGroup s g) ->
                   forall x, In x g -> body x d = body x d').
    { intros i s g L x Hx. apply Hbody. intros k Hk. apply (Hids i _ L).
      cbn [expr_keys]. apply in_flat_map. exists x. split; assumption. }
    destruct mk as [|c].
    + (* all *)
      destruct e; try exact IHe.
      * (* EGroup *)
        exact (and_fold_map_ext _ (fun x => solve o ids body x d)
                 (fun x => solve o ids body x d') l (Hmem _ _ eq_refl)).
      * (* EIdent *)
        cbn [solve]. destruct (lookup s ids) as [b|] eqn:L; [|reflexivity].
        assert (Hb : forall k, In k (expr_keys b) -> d k = d' k) by (apply (Hids s b L)).
        assert (Hs : body b d = body b d') by (apply Hbody; exact Hb).
        destruct b; try exact (match_all_ext o body _ d d' Hb Hs).
        exact (and_fold_map_ext _ (fun x => body x d) (fun x => body x d') l
                 (Hidm s _ _ L)).
      * (* EMatrix *)
        cbn [solve]. apply matrix_all_ext. exact He.
      * (* ESearch *)
        assert (E : d f = d' f) by (apply He; left; reflexivity).
        destruct s; try exact IHe; cbn [solve]; apply field_search_ext; exact E.
    + (* of *)
      cbn [solve]. rewrite IHe. destruct e; try reflexivity.
      * (* EGroup *)
        exact (of_fold_map_ext _ (fun x => solve o ids body x d)
                 (fun x => solve o ids body x d') l c (Hmem _ _ eq_refl)).
      * (* EIdent *)
        cbn [solve]. destruct (lookup s ids) as [b|] eqn:L; [|reflexivity].
        assert (Hb : forall k, In k (expr_keys b) -> d k = d' k) by (apply (Hids s b L)).
        assert (Hs : body b d = body b d') by (apply Hbody; exact Hb).
        destruct b; try exact (match_of_ext o body _ d d' c Hb Hs).
        exact (of_fold_map_ext _ (fun x => body x d) (fun x => body x d') l c
                 (Hidm s _ _ L)).
      * (* EMatrix *)
        cbn [solve]. destruct (c =? 0)%Z; [reflexivity|].
        apply matrix_of_ext. exact He.
      * (* ESearch *)
        assert (E : d f = d' f) by (apply He; left; reflexivity).
        cbn [solve]. destruct (c =? 0)%Z; [reflexivity|].
        destruct s; try reflexivity; apply field_search_ext; exact E.
  - (* ENegate *)
    cbn [expr_keys] in He. cbn [solve]. rewrite (IHe He). reflexivity.
  - (* the rest *)
    destruct e; try contradiction; try reflexivity.
    + (* EIdent *)
      cbn [solve]. destruct (lookup s ids) as [b|] eqn:L; [|reflexivity].
      apply Hbody. exact (Hids s b L).
    + (* EMatrix *)
      cbn [solve]. apply matrix_or_ext. exact He.
    + (* ENested *)
      cbn [solve]. rewrite (He f (or_introl eq_refl)). reflexivity.
    + (* ESearch *)
      cbn [solve]. apply field_search_ext. apply He. left; reflexivity.
Qed.

(* ====================================================================== *)
(*                               whole rules                               *)
(* ====================================================================== *)

Lemma lookup_In : forall A i (l : list (str * A)) b,
  lookup i l = Some b -> exists i', In (i', b) l.
Proof.
  intros A i l b. induction l as [|[k v] l IH]; cbn [lookup]; intros H; [discriminate|].
  destruct (str_eqb i k).
  - inversion H; subst. exists k. left; reflexivity.
  - destruct (IH H) as [i' Hi]. exists i'. right; exact Hi.
Qed.

Lemma solve_body_agree : forall o b (x y : docq),
  (forall k, In k (expr_keys b) -> x k = y k) -> solve_body o b x = solve_body o b y.
Proof.
  intros o b x y H. unfold solve_body. apply agree_on_keys.
  - intros; reflexivity.
  - exact H.
  - intros i b' L. discriminate L.
Qed.

Lemma solve_rule3_agree : forall o dt (x y : docq),
  (forall k, In k (rule_keys dt) -> x k = y k) ->
  solve_rule3 o dt x = solve_rule3 o dt y.
Proof.
  intros o dt x y H. unfold solve_rule3, solve_cond. apply agree_on_keys.
  - apply solve_body_agree.
  - intros k Hk. apply H. unfold rule_keys. apply in_or_app. left; exact Hk.
  - intros i b L k Hk. apply H. unfold rule_keys. apply in_or_app. right.
    destruct (lookup_In _ _ _ _ L) as [i' Hi].
    apply in_flat_map. exists (i', b). split; [exact Hi|exact Hk].
Qed.

Lemma unaddressed_fields_irrelevant : forall o dt (d d' : doc),
  (forall k, In k (rule_keys dt) -> d k = d' k) ->
  solve_rule3 o dt (pure_doc d) = solve_rule3 o dt (pure_doc d').
Proof.
  intros o dt d d' H. apply solve_rule3_agree. intros k Hk. unfold pure_doc.
  rewrite (H k Hk). reflexivity.
Qed.

Lemma str_eqb_refl : forall s, str_eqb s s = true.
Proof.
  induction s as [|x s IH]; cbn [str_eqb]; [reflexivity|].
  rewrite N.eqb_refl, IH. reflexivity.
Qed.

Lemma key_in_In : forall k ks, In k ks -> key_in k ks = true.
Proof.
  intros k ks H. unfold key_in. apply existsb_exists. exists k. split; [exact H|].
  apply str_eqb_refl.
Qed.

Lemma reads_only_rule_keys : forall o dt (d : doc),
  solve_rule3 o dt (guard_doc (rule_keys dt) d) = solve_rule3 o dt (pure_doc d).
Proof.
  intros o dt d. apply solve_rule3_agree. intros k Hk. unfold guard_doc, pure_doc.
  rewrite (key_in_In k _ Hk). reflexivity.
Qed.

Lemma nested_keys_are_local : forall f e, expr_keys (ENested f e) = [f].
Proof. intros; reflexivity. Qed.

Lemma matrix_keys_example :
  expr_keys (EMatrix [[102%N]; [103%N]]
               [[Some (ESearch (SExact [120%N]) [0%N] false); Some (ESearch SAny [1%N] false)]])
  = [[102%N]; [103%N]].
Proof. reflexivity. Qed.
