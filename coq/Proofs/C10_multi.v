(* C10: a key segment with more than one index is missing (fix D37). *)
From Coq Require Import List Bool ZArith.
From TauModel Require Import Base Num Syntax Value.
From TauProofs Require C10.

Lemma split_two_brackets : forall name a b,
  C10.no_chr ch_lb name -> C10.no_chr ch_lb a ->
  split_on ch_lb (name ++ ch_lb :: a ++ ch_lb :: b) = name :: a :: split_on ch_lb b.
Proof.
  intros name a b Hn Ha.
  transitivity (name :: split_on ch_lb (a ++ ch_lb :: b)).
  - exact (C10.split_on_app ch_lb name (a ++ ch_lb :: b) Hn).
  - f_equal. exact (C10.split_on_app ch_lb a b Ha).
Qed.

Lemma contains_lb : forall name rest, str_contains_char ch_lb (name ++ ch_lb :: rest) = true.
Proof.
  intros name rest. unfold str_contains_char. rewrite existsb_app. cbn [existsb].
  rewrite N.eqb_refl. cbn [orb]. apply orb_true_r.
Qed.

(* `name[a][b..` ending in `]`: the segment does not parse, so the lookup fails at this step
   whatever the document holds -- never the value of `name[a]` *)
Lemma parse_segment_multi_index : forall name a b,
  C10.no_chr ch_lb name -> C10.no_chr ch_lb a ->
  (match last_opt (name ++ ch_lb :: a ++ ch_lb :: b) with Some x => N.eqb x ch_rb | None => false end) = true ->
  parse_segment (name ++ ch_lb :: a ++ ch_lb :: b) = None.
Proof.
  intros name a b Hn Ha Hl. unfold parse_segment. rewrite Hl, contains_lb. cbn [andb].
  rewrite (split_two_brackets name a b Hn Ha).
  pose proof (C10.split_on_nonempty ch_lb b) as Hne.
  destruct (split_on ch_lb b) as [|x xs]; [exfalso; apply Hne; reflexivity|]. reflexivity.
Qed.

Lemma find_step_multi_index : forall root cur name a b,
  C10.no_chr ch_lb name -> C10.no_chr ch_lb a ->
  (match last_opt (name ++ ch_lb :: a ++ ch_lb :: b) with Some x => N.eqb x ch_rb | None => false end) = true ->
  find_step root cur (name ++ ch_lb :: a ++ ch_lb :: b) = None.
Proof.
  intros root cur name a b Hn Ha Hl. unfold find_step.
  rewrite (parse_segment_multi_index name a b Hn Ha Hl). reflexivity.
Qed.

(* the witness of D37 *)
Example a_0_1 :
  obj_find [([97%N], VArr [VArr [VStr [120%N]; VStr [121%N]]])] [97; 91; 48; 93; 91; 49; 93]%N = None.
Proof. reflexivity. Qed.
