(* C02 assembly: the named theorems of Properties/C02.v from the three proof files. *)
From TauModel Require Import Base Num Oracles Syntax Value Yaml Pratt ParseMap Solver Rule Keys Spec.
From TauProofs Require C02_entry C02_lift C02_cond.

Definition entry_refines : entry_refines_excl_stmt := C02_entry.entry_refines_excl.

Definition entry_fixed_D30 := C02_entry.entry_fixed_D30.

Definition mapping_refines_simple :=
  C02_lift.mapping_refines_simple C02_entry.entry_refines_excl.

Definition identifier_refines_simple :=
  C02_lift.identifier_refines_simple C02_entry.entry_refines_excl.

Definition cond_refines_parsed := C02_cond.cond_refines_parsed.
Definition cond_refines_refuted := C02_cond.cond_refines_refuted.
Definition loaded_condition_shape := C02_cond.loaded_condition_shape.

Definition rule_refines_simple :=
  C02_cond.rule_refines_simple_from
    (fun o ic y b => identifier_refines_simple o ic y b).

Lemma fixed_D27 :
  let o0 := {| re_valid := fun _ _ => true; re_match := fun _ _ _ => false; f64_parse := fun _ => None;
               f64_show := fun _ => []; uni_alnum := fun _ => false; uni_num := fun _ => false |} in
  let k := [115; 116; 114; 40; 102; 41]%N in
  exists e, parse_entry o0 false (YStr k) YNull None [] = Ok e /\
            solve_body o0 e (pure_doc (fun _ => None)) = Ok M /\
            sem_entry_scalar o0 false KStr [102%N] YNull (fun _ => None) = M.
Proof. cbv zeta. eexists. repeat split; vm_compute; reflexivity. Qed.
