(* Scope2.c01_scope_nested_all at the crate's map order *)
From Coq Require Import Permutation.
From TauModel Require Import Base Num Oracles Syntax Value Yaml Pratt ParseMap Solver Rule Keys Optimiser Known Order.
From TauModel Require Scope Scope2.
From TauProofs Require C01 C01_matrix_nested C01_matrix_quant C01_d15 C12_order.

Lemma crate_order_scope_nested_all_sound : forall o ic sw y r (d : doc),
  C01.H_strip o ->
  load_rule o ic y = Ok r -> r_optimised r = false ->
  Scope2.c01_scope_nested_all o rust_ord sw (r_det r) = true ->
  exists r', optimise o rust_ord sw r = Ok r' /\ matches o r' d = matches o r d.
Proof.
  intros o ic sw y r d Hs Hl Hopt Hsc.
  exact (C01_matrix_nested.scope_nested_all_sound o ic rust_ord sw y r d C12_order.rust_ord_perm Hs Hl Hopt Hsc).
Qed.

Lemma crate_order_scope_quant_all_sound : forall o ic sw y r (d : doc),
  C01.H_strip o ->
  load_rule o ic y = Ok r -> r_optimised r = false ->
  Scope2.c01_scope_quant_all o rust_ord sw (r_det r) = true ->
  exists r', optimise o rust_ord sw r = Ok r' /\ matches o r' d = matches o r d.
Proof.
  intros o ic sw y r d Hs Hl Hopt Hsc.
  exact (C01_matrix_quant.scope_quant_all_sound o ic rust_ord sw y r d C12_order.rust_ord_perm Hs Hl Hopt Hsc).
Qed.

Lemma crate_order_scope_quant_all_noq_sound : forall o ic sw y r (d : doc),
  C01.H_strip o ->
  load_rule o ic y = Ok r -> r_optimised r = false ->
  Scope2.c01_scope_quant_all_noq o rust_ord sw (r_det r) = true ->
  exists r', optimise o rust_ord sw r = Ok r' /\ matches o r' d = matches o r d.
Proof.
  intros o ic sw y r d Hs Hl Hopt Hsc.
  exact (C01_d15.scope_quant_all_sound_noq o ic rust_ord sw y r d C12_order.rust_ord_perm Hs Hl Hopt Hsc).
Qed.
