(* C09: the range guard of int() on a float, regenerated from both copies of the cast in
   src/solver.rs (Model/GeneratedCasts.v), is the model's. *)
From Coq Require Import ZArith Bool Lia.
From TauModel Require Import Base Num GeneratedCasts.

Lemma int_cast_guard_is_in_i64 : forall z, in_i64 z = ((int_cast_lo <=? z)%Z && (z <? int_cast_hi)%Z).
Proof.
  intros z. unfold in_i64, i64_min, i64_max, int_cast_lo, int_cast_hi.
  destruct (Z.leb_spec (-9223372036854775808) z); cbn [andb]; [|reflexivity].
  destruct (Z.leb_spec z 9223372036854775807); destruct (Z.ltb_spec z 9223372036854775808); try reflexivity; lia.
Qed.

Lemma f64_to_i64_guard : forall a,
  f64_to_i64 a = match f64_round_Z a with
                 | Some z => if ((int_cast_lo <=? z)%Z && (z <? int_cast_hi)%Z) then Some z else None
                 | None => None
                 end.
Proof.
  intros a. unfold f64_to_i64. destruct (f64_round_Z a) as [z|]; [|reflexivity].
  rewrite int_cast_guard_is_in_i64. reflexivity.
Qed.
