(* C15  ignore_case build equals default build with every pattern i-prefixed: proofs. *)
From TauModel Require Import Base Num Oracles Syntax Value Yaml Ident ParseMap Solver Rule PatSpec CaseSpec.
From TauProofs Require C04.

(* ------------------------------------------------------------------------------------ *)
(* pattern level                                                                         *)
(* ------------------------------------------------------------------------------------ *)

Lemma ignore_case_eq_prefix : forall o s,
  into_identifier o true s = into_identifier o false (ch_i :: s).
Proof. intros o s. unfold into_identifier. reflexivity. Qed.

(* ------------------------------------------------------------------------------------ *)
(* identifier blocks                                                                     *)
(* ------------------------------------------------------------------------------------ *)

Lemma is_yseq_pv v : is_yseq (prefix_vals v) = is_yseq v.
Proof. destruct v; reflexivity. Qed.

Lemma is_ymap_pv v : is_ymap (prefix_vals v) = is_ymap v.
Proof. destruct v; reflexivity. Qed.

Lemma parse_key_pv o k v : parse_key o k (prefix_vals v) = parse_key o k v.
Proof. unfold parse_key. rewrite is_yseq_pv. reflexivity. Qed.

Lemma seq_member_pv o ki ue a v sub :
  seq_member o true ki ue a v sub = seq_member o false ki ue a (prefix_vals v) sub.
Proof.
  destruct v; reflexivity.
Qed.

Lemma seq_members_pv o ki ue : forall vs a subs,
  seq_members o true ki ue a vs subs = seq_members o false ki ue a (map prefix_vals vs) subs.
Proof.
  induction vs as [|v vs IH]; intros a subs; cbn [map seq_members].
  - reflexivity.
  - rewrite <- seq_member_pv.
    destruct (seq_member o true ki ue a v _); cbn [bind]; try reflexivity.
    apply IH.
Qed.

Lemma parse_entry_pv o k v sub subs :
  parse_entry o true k v sub subs = parse_entry o false k (prefix_vals v) sub subs.
Proof.
  unfold parse_entry. rewrite parse_key_pv.
  destruct (parse_key o k v) as [ki|e|site]; cbn [bind]; try reflexivity.
  destruct v; cbn [prefix_vals]; try reflexivity.
  rewrite <- seq_members_pv. reflexivity.
Qed.

(* the inner loop of parse_mapping, named *)
Definition entries (o : oracles) (ic : bool) : list (yaml * yaml) -> out (list expr) :=
  fix entries (kv : list (yaml * yaml)) : out (list expr) :=
    match kv with
    | [] => Ok []
    | (k, v) :: kv' =>
        let sub := match v with YMap _ => Some (parse_mapping o ic v) | _ => None end in
        let subs :=
          match v with
          | YSeq l => map (fun m => match m with
                                    | YMap _ => Some (parse_mapping o ic m)
                                    | _ => None
                                    end) l
          | _ => []
          end in
        do e <- parse_entry o ic k v sub subs;
        do es <- entries kv';
        Ok (e :: es)
    end.

Definition sub_of (o : oracles) (ic : bool) (v : yaml) : option (out expr) :=
  match v with YMap _ => Some (parse_mapping o ic v) | _ => None end.

Definition subs_of (o : oracles) (ic : bool) (v : yaml) : list (option (out expr)) :=
  match v with
  | YSeq l => map (sub_of o ic) l
  | _ => []
  end.

Lemma parse_mapping_map o ic kv :
  parse_mapping o ic (YMap kv) = (do es <- entries o ic kv; finish_mapping es).
Proof. reflexivity. Qed.

Lemma entries_cons o ic k v kv' :
  entries o ic ((k, v) :: kv') =
  (do e <- parse_entry o ic k v (sub_of o ic v) (subs_of o ic v);
   do es <- entries o ic kv';
   Ok (e :: es)).
Proof. reflexivity. Qed.

Fixpoint parse_mapping_pv (o : oracles) (y : yaml) {struct y} :
  parse_mapping o true y = parse_mapping o false (prefix_vals y).
Proof.
  destruct y as [| | | | |l|kv|tag w]; try reflexivity.
  cbn [prefix_vals]. rewrite !parse_mapping_map. f_equal.
  induction kv as [|[k v] kv' IH].
  - reflexivity.
  - cbn [map fst snd]. rewrite !entries_cons. rewrite <- IH.
    rewrite parse_entry_pv.
    assert (Hsub : sub_of o true v = sub_of o false (prefix_vals v)).
    { pose proof (parse_mapping_pv o v) as Hv.
      destruct v as [| | | | |l|kv0|tag w]; try reflexivity.
      unfold sub_of. cbn [prefix_vals]. f_equal. exact Hv. }
    assert (Hsubs : subs_of o true v = subs_of o false (prefix_vals v)).
    { clear Hsub. destruct v as [| | | | |l|kv0|tag w]; try reflexivity.
      unfold subs_of. cbn [prefix_vals]. rewrite map_map.
      induction l as [|m l IHl]; cbn [map]; [reflexivity|].
      f_equal; [|exact IHl].
      pose proof (parse_mapping_pv o m) as Hm.
      destruct m as [| | | | |l0|kv0|tag w]; try reflexivity.
      unfold sub_of. cbn [prefix_vals]. f_equal. exact Hm. }
    rewrite Hsub, Hsubs. reflexivity.
Qed.

Lemma mapM_map {A B C} (f : B -> out C) (g : A -> B) (l : list A) :
  mapM f (map g l) = mapM (fun x => f (g x)) l.
Proof.
  induction l as [|x l IH]; [reflexivity|].
  cbn [map mapM]. destruct (f (g x)); try reflexivity.
  cbn [mapM] in IH. rewrite IH. reflexivity.
Qed.

Lemma mapM_ext {A B} (f g : A -> out B) (l : list A) :
  (forall x, f x = g x) -> mapM f l = mapM g l.
Proof.
  intros H. induction l as [|x l IH]; [reflexivity|].
  cbn [mapM]. rewrite H. destruct (g x); try reflexivity.
  cbn [mapM] in IH. rewrite IH. reflexivity.
Qed.

Lemma parse_identifier_ignore_case : forall o y,
  parse_identifier o true y = parse_identifier o false (prefix_vals y).
Proof.
  intros o y. destruct y as [| | | | |l|kv|tag w]; try reflexivity.
  - destruct l as [|first others]; [reflexivity|].
    cbn [prefix_vals map]. unfold parse_identifier.
    rewrite is_ymap_pv. destruct (is_ymap first); [|reflexivity].
    rewrite <- parse_mapping_pv.
    assert (HM : mapM (fun v => if is_ymap v then parse_mapping o true v else Err EInvalidIdent)
                   others
                 = mapM (fun v => if is_ymap v then parse_mapping o false v else Err EInvalidIdent)
                     (map prefix_vals others)).
    { rewrite mapM_map. apply mapM_ext. intros x.
      rewrite is_ymap_pv, <- parse_mapping_pv. reflexivity. }
    rewrite HM. reflexivity.
  - exact (parse_mapping_pv o (YMap kv)).
Qed.

(* ------------------------------------------------------------------------------------ *)
(* whole rules                                                                           *)
(* ------------------------------------------------------------------------------------ *)

Lemma str_eqb_eq : forall a b, str_eqb a b = true -> a = b.
Proof.
  induction a as [|x a IH]; intros [|y b] H; cbn [str_eqb] in H; try discriminate.
  - reflexivity.
  - apply andb_true_iff in H. destruct H as [H1 H2].
    apply N.eqb_eq in H1. apply IH in H2. subst. reflexivity.
Qed.

Definition rule_f (p : yaml * yaml) : yaml * yaml :=
  if is_detection_key (fst p) then (fst p, prefix_detection (snd p)) else p.

Definition det_g (p : yaml * yaml) : yaml * yaml :=
  if is_condition_key (fst p) then p else (fst p, prefix_vals (snd p)).

Lemma ylookup_other k kv :
  str_eqb k key_detection = false -> ylookup k (map rule_f kv) = ylookup k kv.
Proof.
  intros Hk. induction kv as [|[k' v] kv IH]; [reflexivity|].
  cbn [map]. unfold rule_f at 1. cbn [fst snd].
  destruct k'; cbn [is_detection_key ylookup]; try exact IH.
  destruct (str_eqb s key_detection) eqn:Hs; cbn [ylookup].
  - apply str_eqb_eq in Hs. subst s. rewrite Hk. exact IH.
  - rewrite IH. reflexivity.
Qed.

Lemma ylookup_det kv :
  ylookup key_detection (map rule_f kv)
  = option_map prefix_detection (ylookup key_detection kv).
Proof.
  induction kv as [|[k' v] kv IH]; [reflexivity|].
  cbn [map]. unfold rule_f at 1. cbn [fst snd].
  destruct k'; cbn [is_detection_key ylookup]; try exact IH.
  destruct (str_eqb s key_detection) eqn:Hs; cbn [ylookup].
  - apply str_eqb_eq in Hs. subst s.
    replace (str_eqb key_detection key_detection) with true by reflexivity.
    reflexivity.
  - destruct (str_eqb key_detection s) eqn:Hs'.
    + apply str_eqb_eq in Hs'. subst s. discriminate Hs.
    + exact IH.
Qed.

Lemma load_entries_pv o : forall dkv cond ids,
  load_entries o true dkv cond ids = load_entries o false (map det_g dkv) cond ids.
Proof.
  induction dkv as [|[k v] dkv IH]; intros cond ids; [reflexivity|].
  cbn [map]. unfold det_g at 1. cbn [fst snd]. unfold is_condition_key.
  destruct (untag k) eqn:Hk; cbn [load_entries]; rewrite ?Hk; try reflexivity.
  destruct (str_eqb s cond_key) eqn:Hc; cbn [load_entries]; rewrite Hk, Hc.
  - destruct (untag v); try reflexivity. apply IH.
  - rewrite <- parse_identifier_ignore_case.
    destruct (as_rule_err (parse_identifier o true v)); cbn [bind]; try reflexivity.
    apply IH.
Qed.

Lemma load_detection_pv o dkv :
  load_detection o true (YMap dkv) = load_detection o false (prefix_detection (YMap dkv)).
Proof.
  unfold load_detection. cbn [prefix_detection untag].
  change (fun p : yaml * yaml =>
            if is_condition_key (fst p) then p else (fst p, prefix_vals (snd p))) with det_g.
  rewrite <- load_entries_pv. reflexivity.
Qed.

Lemma load_rule_eq o kv dkv :
  ylookup key_detection kv = Some (YMap dkv) ->
  load_rule o true (YMap kv) = load_rule o false (prefix_rule (YMap kv)).
Proof.
  intros Hd. unfold load_rule. cbn [prefix_rule untag].
  change (fun p : yaml * yaml =>
            if is_detection_key (fst p) then (fst p, prefix_detection (snd p)) else p)
    with rule_f.
  rewrite ylookup_det, !ylookup_other by reflexivity.
  rewrite Hd. cbn [option_map]. rewrite <- load_detection_pv. reflexivity.
Qed.

Lemma load_rule_ignore_case : forall o y kv dkv,
  y = YMap kv -> ylookup key_detection kv = Some (YMap dkv) ->
  match load_rule o true y, load_rule o false (prefix_rule y) with
  | Ok r, Ok r' => r_det r = r_det r' /\ r_optimised r = r_optimised r'
  | Err _, Err _ => True
  | _, _ => False
  end.
Proof.
  intros o y kv dkv Hy Hd. subst y.
  rewrite <- (load_rule_eq o kv dkv Hd).
  destruct (load_rule o true (YMap kv)) as [r|e|site] eqn:H.
  - split; reflexivity.
  - exact I.
  - exact (C04.load_rule_total o true (YMap kv) site H).
Qed.

(* ------------------------------------------------------------------------------------ *)
(* documented meaning, example                                                           *)
(* ------------------------------------------------------------------------------------ *)

Lemma documented_ignore_case : forall o s h,
  documented o true s h = documented o false (ch_i :: s) h.
Proof. intros o s h. unfold documented, split_case. reflexivity. Qed.

Lemma ignore_case_example :
  forall o, into_identifier o true [70; 111; 111; 42]%N
            = Ok {| id_ci := true; id_pat := PStartsWith [102; 111; 111]%N |} /\
            into_identifier o false [105; 70; 111; 111; 42]%N
            = Ok {| id_ci := true; id_pat := PStartsWith [102; 111; 111]%N |}.
Proof. intros o. split; vm_compute; reflexivity. Qed.
