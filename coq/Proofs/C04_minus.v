(* C04 / C05: the tokeniser's number arm is entered on `-` but never consumes it (tokeniser.rs:
   the arm is chosen by `c == '-'`, the characters are then collected by `is_numeric() || '.'`):
   a `-` at the start of a token is a load error, and no integer token is ever negative. *)
From Coq Require Import List Bool ZArith Lia.
From TauModel Require Import Base Num Oracles Syntax Generated Token.
Import ListNotations.

Lemma minus_not_number_char o : is_number_char o ch_minus = false.
Proof. reflexivity. Qed.

Lemma lex_step_minus : forall o s, lex_step o ch_minus (ch_minus :: s) = Err EInvalidNum.
Proof.
  intros o s. unfold lex_step.
  replace (is_number_start ch_minus) with true by reflexivity.
  cbn [consume_while]. rewrite minus_not_number_char. reflexivity.
Qed.

Theorem leading_minus_rejected : forall o s, tokenise o (ch_minus :: s) = Err EInvalidNum.
Proof.
  intros o s. unfold tokenise. cbn [length lex]. rewrite lex_step_minus. reflexivity.
Qed.

(* the characters the number arm collects *)
Lemma consume_while_all p : forall s a b, consume_while p s = (a, b) -> forallb p a = true.
Proof.
  induction s as [|x s IH]; intros a b H; cbn [consume_while] in H.
  - inversion H. reflexivity.
  - destruct (p x) eqn:Hp.
    + destruct (consume_while p s) as [a' b'] eqn:Hc. inversion H; subst.
      cbn [forallb]. rewrite Hp. exact (IH _ _ eq_refl).
    + inversion H. reflexivity.
Qed.

Lemma digits_val_nonneg : forall s acc z, (0 <= acc)%Z -> digits_val acc s = Some z -> (0 <= z)%Z.
Proof.
  induction s as [|x s IH]; intros acc z Ha H; cbn [digits_val] in H.
  - inversion H; subst; exact Ha.
  - destruct (is_ascii_digit x) eqn:Hd; [|discriminate].
    revert H. apply IH.
    unfold is_ascii_digit in Hd. apply andb_true_iff in Hd. destruct Hd as [H1 _].
    apply N.leb_le in H1. lia.
Qed.

Lemma parse_digits_nonneg s z : parse_digits s = Some z -> (0 <= z)%Z.
Proof.
  unfold parse_digits. destruct s as [|x s]; [discriminate|].
  apply digits_val_nonneg. lia.
Qed.

Lemma parse_i64_no_minus : forall s z,
  match s with x :: _ => N.eqb x ch_minus = false | [] => True end ->
  parse_i64 s = Some z -> (0 <= z)%Z.
Proof.
  intros s z Hs H. unfold parse_i64 in H. destruct s as [|x s']; [discriminate|].
  rewrite Hs in H.
  destruct (N.eqb x ch_plus).
  - destruct (parse_digits s') as [r|] eqn:Hr; [|discriminate].
    destruct (in_i64 r); [|discriminate]. inversion H; subst. exact (parse_digits_nonneg _ _ Hr).
  - destruct (parse_digits (x :: s')) as [r|] eqn:Hr; [|discriminate].
    destruct (in_i64 r); [|discriminate]. inversion H; subst. exact (parse_digits_nonneg _ _ Hr).
Qed.

Lemma number_chars_no_leading_minus o : forall a,
  forallb (is_number_char o) a = true ->
  match a with x :: _ => N.eqb x ch_minus = false | [] => True end.
Proof.
  intros [|x a] H; [exact I|]. cbn [forallb] in H. apply andb_true_iff in H. destruct H as [H _].
  destruct (N.eqb x ch_minus) eqn:E; [|reflexivity].
  apply N.eqb_eq in E. subst x. rewrite minus_not_number_char in H. discriminate.
Qed.

Definition tok_nonneg (t : token) : Prop :=
  match t with TInt z => (0 <= z)%Z | _ => True end.

Lemma match_keyword_not_int : forall kws s t n,
  Forall (fun e => tok_nonneg (snd (fst e))) kws ->
  match_keyword kws s = Some (t, n) -> tok_nonneg t.
Proof.
  induction kws as [|[[kw t0] n0] kws IH]; intros s t n Hk H; cbn [match_keyword] in H; [discriminate|].
  inversion Hk as [|? ? H0 Hk']; subst.
  destruct (match_ahead kw s).
  - inversion H; subst. exact H0.
  - exact (IH _ _ _ Hk' H).
Qed.

Lemma keywords_nonneg : Forall (fun e => tok_nonneg (snd (fst e))) keywords.
Proof. unfold keywords. repeat constructor. Qed.

Lemma lex_step_nonneg : forall o x s t rest,
  lex_step o x s = Ok (Some t, rest) -> tok_nonneg t.
Proof.
  intros o x s t rest H. unfold lex_step in H.
  destruct (is_number_start x).
  { destruct (consume_while (is_number_char o) s) as [number r] eqn:Hc.
    destruct (str_contains_char ch_dot number).
    - destruct (f64_parse o number); inversion H; subst; exact I.
    - destruct (parse_i64 number) as [z|] eqn:Hz; inversion H; subst. cbn.
      apply (parse_i64_no_minus number z); [|exact Hz].
      apply (number_chars_no_leading_minus o). exact (consume_while_all _ _ _ _ Hc). }
  destruct (is_word_start x).
  { destruct (match_keyword keywords s) as [[t0 n0]|] eqn:Hk.
    - inversion H; subst. exact (match_keyword_not_int _ _ _ _ keywords_nonneg Hk).
    - destruct (consume_while (is_ident_char o) s). inversion H; subst. exact I. }
  destruct (is_space x); [inversion H|].
  destruct (N.eqb x ch_eq). { destruct (second_is_eq s); inversion H; subst; exact I. }
  destruct (N.eqb x ch_lt). { destruct (second_is_eq s); inversion H; subst; exact I. }
  destruct (N.eqb x ch_gt). { destruct (second_is_eq s); inversion H; subst; exact I. }
  destruct (N.eqb x ch_comma). { inversion H; subst; exact I. }
  destruct (N.eqb x ch_lp). { inversion H; subst; exact I. }
  destruct (N.eqb x ch_rp). { inversion H; subst; exact I. }
  discriminate.
Qed.

Lemma lex_nonneg o : forall n s ts, lex o n s = Ok ts -> Forall tok_nonneg ts.
Proof.
  induction n as [|n IH]; intros s ts H; destruct s as [|x s']; cbn [lex] in H.
  - inversion H. constructor.
  - discriminate.
  - inversion H. constructor.
  - destruct (lex_step o x (x :: s')) as [[t rest]| |] eqn:Hs; cbn in H; try discriminate.
    destruct (lex o n rest) as [ts'| |] eqn:Hl; cbn in H; try discriminate.
    inversion H; subst. specialize (IH _ _ Hl).
    destruct t as [t|]; [|exact IH]. constructor; [|exact IH].
    exact (lex_step_nonneg _ _ _ _ _ Hs).
Qed.

(* no condition text produces a negative integer token: `int(x) > -5` cannot be written *)
Theorem integer_tokens_nonneg : forall o s ts z,
  tokenise o s = Ok ts -> In (TInt z) ts -> (0 <= z)%Z.
Proof.
  intros o s ts z H Hin. unfold tokenise in H.
  pose proof (lex_nonneg o _ _ _ H) as Hf. rewrite Forall_forall in Hf.
  exact (Hf _ Hin).
Qed.

(* `x > -5` *)
Example x_gt_minus5 o : tokenise o [120; 32; 62; 32; 45; 53]%N = Err EInvalidNum.
Proof. reflexivity. Qed.
(* non-vacuity: `x > 5` lexes, to a non-negative integer token *)
Example x_gt_5 o : tokenise o [120; 32; 62; 32; 53]%N = Ok [TIdent [120%N]; TOp BGreaterThan; TInt 5].
Proof. reflexivity. Qed.
