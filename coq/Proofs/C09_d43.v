(* C09 / listed finding D43: a bare integer constant above i64::MAX is read as a double. *)
From Coq Require Import ZArith List.
From TauModel Require Import Base Num Oracles Syntax Value Yaml Ident ParseMap Solver.

Definition o43 : oracles :=
  {| re_valid := fun _ _ => true; re_match := fun _ _ _ => false;
     f64_parse := fun _ => None; f64_show := fun _ => [];
     uni_alnum := fun _ => false; uni_num := fun _ => false |}.
Definition k43 : str := [102%N].                         (* f *)
Definition z43 : Z := 18446744073709551615%Z.            (* u64::MAX *)
Definition d_same : doc := fun _ => Some (VUInt z43).                       (* the integer itself *)
Definition d_next : doc := fun _ => Some (VFloat 4895412794951729152%Z).    (* the double 2^64 *)

(* `f: 18446744073709551615`: the loader builds a comparison with the DOUBLE 2^64; the rule is false on
   the integer it names and true on the neighbouring double *)
Lemma refuted_D43 :
  exists e, parse_entry o43 false (YStr k43) (YInt z43) None [] = Ok e /\
            solve_body o43 e (pure_doc d_same) = Ok F /\
            solve_body o43 e (pure_doc d_next) = Ok T.
Proof. eexists. repeat split; vm_compute; reflexivity. Qed.
