(* C09  Numeric comparisons and casts are order-correct and overflow-safe: proofs. *)
From TauModel Require Import Base Num Oracles Syntax Value Solver.
From Coq Require Import Reals Lia Lra Psatz ZArith ZifyBool DecimalN DecimalPos.
From Flocq Require Import Core.Zaux Core.Raux Core.Defs Core.Float_prop IEEE754.Binary IEEE754.Bits.

(* ---- the helper definitions of Properties/C09.v, with identical bodies ---- *)
Definition rel (op : boolsym) (a b : Z) : bool :=
  match op with
  | BEqual => (a =? b)%Z
  | BGreaterThan => (b <? a)%Z
  | BGreaterThanOrEqual => (b <=? a)%Z
  | BLessThan => (a <? b)%Z
  | BLessThanOrEqual => (a <=? b)%Z
  | BAnd | BOr => false
  end.

Definition is_cmp (op : boolsym) : bool :=
  match op with BAnd | BOr => false | _ => true end.

Definition int_of (v : value) : option Z :=
  match v with
  | VInt z => if in_i64 z then Some z else None
  | VUInt z => if in_u64 z then Some z else None
  | _ => None
  end.

Definition is_numeric_value (v : value) : bool :=
  match v with VInt _ | VUInt _ | VFloat _ => true | _ => false end.

Definition value_wf (v : value) : Prop :=
  match v with
  | VInt z => in_i64 z = true
  | VUInt z => in_u64 z = true
  | _ => True
  end.

(* ================================================================== *)
(* helpers: integers                                                   *)
(* ================================================================== *)

Lemma int_of_cases : forall x a,
  int_of x = Some a ->
  (x = VInt a /\ in_i64 a = true) \/ (x = VUInt a /\ in_u64 a = true).
Proof.
  intros x a H.
  destruct x as [ | b | f | z | z | s | l | kv ]; cbn [int_of] in H; try discriminate.
  - destruct (in_i64 z) eqn:Hr; [ | discriminate ].
    injection H as H; subst z. left; split; [ reflexivity | assumption ].
  - destruct (in_u64 z) eqn:Hr; [ | discriminate ].
    injection H as H; subst z. right; split; [ reflexivity | assumption ].
Qed.

Ltac range_unfold :=
  unfold in_i64, in_u64, i64_min, i64_max, u64_max in *.

Ltac kill_ifs :=
  repeat match goal with
         | |- context [if ?b then _ else _] => destruct b eqn:?
         end.

(* ================================================================== *)
(* helpers: decimal text                                               *)
(* ================================================================== *)

Lemma digits_val_pos : forall d p,
  digits_val (Zpos p) (uint_digits d) = Some (Zpos (Pos.of_uint_acc d p)).
Proof.
  induction d as [ | d IH | d IH | d IH | d IH | d IH | d IH | d IH | d IH | d IH | d IH ];
    intro p; cbn [uint_digits digits_val Pos.of_uint_acc];
    [ reflexivity | .. ];
    match goal with
    | |- (if is_ascii_digit ?x then _ else _) = _ =>
        change (is_ascii_digit x) with true; cbv iota
    end;
    match goal with
    | |- digits_val ?a _ = Some (Zpos (Pos.of_uint_acc _ ?q)) =>
        replace a with (Zpos q) by lia
    end;
    apply IH.
Qed.

Lemma digits_val_zero : forall d,
  digits_val 0 (uint_digits d) = Some (Z.of_N (Pos.of_uint d)).
Proof.
  induction d as [ | d IH | d IH | d IH | d IH | d IH | d IH | d IH | d IH | d IH | d IH ];
    cbn [uint_digits digits_val Pos.of_uint];
    [ reflexivity | .. ];
    match goal with
    | |- (if is_ascii_digit ?x then _ else _) = _ =>
        change (is_ascii_digit x) with true; cbv iota
    end.
  - exact IH.
  - change (0 * 10 + (Z.of_N 49 - 48))%Z with 1%Z. apply digits_val_pos.
  - change (0 * 10 + (Z.of_N 50 - 48))%Z with 2%Z. apply digits_val_pos.
  - change (0 * 10 + (Z.of_N 51 - 48))%Z with 3%Z. apply digits_val_pos.
  - change (0 * 10 + (Z.of_N 52 - 48))%Z with 4%Z. apply digits_val_pos.
  - change (0 * 10 + (Z.of_N 53 - 48))%Z with 5%Z. apply digits_val_pos.
  - change (0 * 10 + (Z.of_N 54 - 48))%Z with 6%Z. apply digits_val_pos.
  - change (0 * 10 + (Z.of_N 55 - 48))%Z with 7%Z. apply digits_val_pos.
  - change (0 * 10 + (Z.of_N 56 - 48))%Z with 8%Z. apply digits_val_pos.
  - change (0 * 10 + (Z.of_N 57 - 48))%Z with 9%Z. apply digits_val_pos.
Qed.

Lemma digits_val_show_N : forall n, digits_val 0 (show_N n) = Some (Z.of_N n).
Proof.
  intro n. unfold show_N. rewrite digits_val_zero.
  change (Pos.of_uint (N.to_uint n)) with (N.of_uint (N.to_uint n)).
  rewrite DecimalN.Unsigned.of_to. reflexivity.
Qed.

Lemma show_N_nonempty : forall n, show_N n <> [].
Proof.
  intros n E.
  pose proof (digits_val_show_N n) as H. rewrite E in H. cbn [digits_val] in H.
  injection H as H.
  assert (n = 0%N) as -> by lia.
  discriminate E.
Qed.

Lemma parse_digits_show_N : forall n, parse_digits (show_N n) = Some (Z.of_N n).
Proof.
  intro n. unfold parse_digits.
  pose proof (show_N_nonempty n) as Hne. pose proof (digits_val_show_N n) as Hv.
  destruct (show_N n) as [ | x s ]; [ contradiction | exact Hv ].
Qed.

(* the first character of a run of decimal digits is neither '-' nor '+' *)
Lemma uint_digits_head : forall d x s,
  uint_digits d = x :: s -> N.eqb x ch_minus = false /\ N.eqb x ch_plus = false.
Proof.
  intros d x s H.
  destruct d; cbn [uint_digits] in H; try discriminate;
    injection H as Hx _; subst x; split; reflexivity.
Qed.

Lemma uint_digits_inj : forall d d', uint_digits d = uint_digits d' -> d = d'.
Proof.
  induction d as [ | d IH | d IH | d IH | d IH | d IH | d IH | d IH | d IH | d IH | d IH ];
    intros d' H; destruct d'; cbn [uint_digits] in H; try discriminate;
    try reflexivity;
    injection H as H; f_equal; apply IH; exact H.
Qed.

Lemma show_N_inj : forall n n', show_N n = show_N n' -> n = n'.
Proof.
  intros n n' H. unfold show_N in H. apply uint_digits_inj in H.
  rewrite <- (DecimalN.Unsigned.of_to n), <- (DecimalN.Unsigned.of_to n').
  rewrite H. reflexivity.
Qed.

(* ================================================================== *)
(* helpers: solve_compare                                              *)
(* ================================================================== *)

Lemma operand_of_pure : forall o d e, exists x, operand_of o (pure_doc d) e = Ok x.
Proof.
  intros o d e.
  destruct e as [ g l | l op r | b | f m | f | x | s | z | k e | cols rows | e | f e | | s f cst ];
    try (destruct m); cbn [operand_of pure_doc bind]; eexists; reflexivity.
Qed.

Lemma generic_compare_ok : forall o d l op r,
  exists x,
    (do a <- operand_of o (pure_doc d) l;
     match a with
     | OMissing => Ok M
     | OFalse => Ok F
     | OVal x =>
         do b <- operand_of o (pure_doc d) r;
         match b with
         | OMissing => Ok M
         | OFalse => Ok F
         | OVal y => Ok (res_of_bool (compare_values x op y))
         end
     end) = Ok x.
Proof.
  intros o d l op r.
  destruct (operand_of_pure o d l) as [a Ha]. rewrite Ha. cbn [bind].
  destruct a as [ x | | ]; try (eexists; reflexivity).
  destruct (operand_of_pure o d r) as [b Hb]. rewrite Hb. cbn [bind].
  destruct b as [ y | | ]; eexists; reflexivity.
Qed.

(* ================================================================== *)
(* helpers: parse_i64 range, f64::round()                              *)
(* ================================================================== *)

Lemma parse_i64_range_aux : forall s z, parse_i64 s = Some z -> in_i64 z = true.
Proof.
  intros s z H. unfold parse_i64 in H.
  destruct s as [ | x s' ]; [ discriminate H | ].
  cbv zeta in H.
  destruct (if N.eqb x ch_minus then option_map Z.opp (parse_digits s')
            else if N.eqb x ch_plus then parse_digits s' else parse_digits (x :: s'))
    as [ r | ]; [ | discriminate H ].
  destruct (in_i64 r) eqn:Hr; [ | discriminate H ].
  injection H as H. subst r. exact Hr.
Qed.

(* ---- f64::round() as an exact integer: nearest, ties away from zero ---- *)
Definition round_mag (m : positive) (e : Z) : Z :=
  if (0 <=? e)%Z then (Zpos m * 2 ^ e)%Z
  else if (2 ^ (- e) <=? 2 * (Zpos m mod 2 ^ (- e)))%Z
       then (Zpos m / 2 ^ (- e) + 1)%Z
       else (Zpos m / 2 ^ (- e))%Z.

Lemma round_mag_spec : forall (m : positive) (e : Z),
  (0 <= round_mag m e)%Z /\
  (0 < F2R (Float radix2 (Zpos m) e))%R /\
  (Rabs (F2R (Float radix2 (Zpos m) e) - IZR (round_mag m e)) <= / 2)%R /\
  ((Rabs (F2R (Float radix2 (Zpos m) e) - IZR (round_mag m e)) = / 2)%R ->
   (IZR (round_mag m e) > F2R (Float radix2 (Zpos m) e))%R).
Proof.
  intros m e.
  assert (Hpos : (0 < F2R (Float radix2 (Zpos m) e))%R).
  { apply F2R_gt_0. cbn [Fnum]. lia. }
  unfold round_mag.
  destruct (0 <=? e)%Z eqn:He.
  - (* an integer already *)
    assert (He' : (0 <= e)%Z) by lia.
    assert (Hr : F2R (Float radix2 (Zpos m) e) = IZR (Zpos m * 2 ^ e)).
    { unfold F2R. cbn [Fnum Fexp]. rewrite mult_IZR.
      rewrite <- (IZR_Zpower radix2 e He'). reflexivity. }
    split; [ | split; [ exact Hpos | ] ].
    + assert (0 < 2 ^ e)%Z by (apply Z.pow_pos_nonneg; lia). lia.
    + rewrite Hr.
      replace (IZR (Zpos m * 2 ^ e) - IZR (Zpos m * 2 ^ e))%R with 0%R by ring.
      rewrite Rabs_R0. split; [ lra | intro Habs; lra ].
  - (* a fraction with denominator d = 2^(-e) *)
    assert (He' : (0 <= - e)%Z) by lia.
    set (d := (2 ^ (- e))%Z).
    assert (Hd : (0 < d)%Z) by (apply Z.pow_pos_nonneg; lia).
    pose proof (Z.div_mod (Zpos m) d ltac:(lia)) as Hdm.
    pose proof (Z.mod_pos_bound (Zpos m) d Hd) as Hrem.
    set (q := (Zpos m / d)%Z) in *.
    set (rm := (Zpos m mod d)%Z) in *.
    assert (Hq : (0 <= q)%Z) by (apply Z.div_pos; lia).
    set (r := F2R (Float radix2 (Zpos m) e)) in *.
    set (D := IZR d).
    assert (HD : (0 < D)%R) by (apply IZR_lt; exact Hd).
    assert (Hr : (r * D = D * IZR q + IZR rm)%R).
    { unfold r, F2R. cbn [Fnum Fexp].
      replace e with (- - e)%Z at 1 by lia.
      rewrite bpow_opp. rewrite <- (IZR_Zpower radix2 (- e) He').
      change (IZR (radix2 ^ - e)) with D.
      rewrite Hdm at 1. rewrite plus_IZR, mult_IZR. fold D.
      field. lra. }
    assert (Hrm0 : (0 <= IZR rm)%R) by (apply IZR_le; lia).
    assert (Hrm1 : (IZR rm < D)%R) by (apply IZR_lt; lia).
    destruct (d <=? 2 * rm)%Z eqn:Hhalf.
    + assert (Hh : (D <= 2 * IZR rm)%R).
      { unfold D. rewrite <- mult_IZR. apply IZR_le. lia. }
      rewrite plus_IZR.
      assert (Hlo : (- / 2 <= r - (IZR q + 1))%R) by nra.
      assert (Hhi : (r - (IZR q + 1) < 0)%R) by nra.
      split; [ lia | split; [ exact Hpos | split ] ].
      * apply Rabs_le. lra.
      * intros _. lra.
    + assert (Hh : (2 * IZR rm < D)%R).
      { unfold D. rewrite <- mult_IZR. apply IZR_lt. lia. }
      assert (Hlo : (0 <= r - IZR q)%R) by nra.
      assert (Hhi : (r - IZR q < / 2)%R) by nra.
      split; [ lia | split; [ exact Hpos | split ] ].
      * apply Rabs_le. lra.
      * intro Habs. rewrite Rabs_pos_eq in Habs by exact Hlo. lra.
Qed.

(* ================================================================== *)
(* the theorems of Properties/C09.v                                    *)
(* ================================================================== *)

Lemma cmp_int_complete : forall x y op a b,
  is_cmp op = true -> int_of x = Some a -> int_of y = Some b ->
  compare_values x op y = rel op a b.
Proof.
  intros x y op a b Hop Hx Hy.
  apply int_of_cases in Hx. apply int_of_cases in Hy.
  destruct Hx as [[-> Ha] | [-> Ha]]; destruct Hy as [[-> Hb] | [-> Hb]];
    destruct op; try discriminate Hop;
    cbn [compare_values rel]; kill_ifs; range_unfold; lia.
Qed.

Lemma int_trichotomy : forall x y a b,
  int_of x = Some a -> int_of y = Some b ->
  (compare_values x BLessThan y = true /\ compare_values x BEqual y = false /\ compare_values x BGreaterThan y = false) \/
  (compare_values x BLessThan y = false /\ compare_values x BEqual y = true /\ compare_values x BGreaterThan y = false) \/
  (compare_values x BLessThan y = false /\ compare_values x BEqual y = false /\ compare_values x BGreaterThan y = true).
Proof.
  intros x y a b Hx Hy.
  rewrite (cmp_int_complete x y BLessThan a b eq_refl Hx Hy).
  rewrite (cmp_int_complete x y BEqual a b eq_refl Hx Hy).
  rewrite (cmp_int_complete x y BGreaterThan a b eq_refl Hx Hy).
  cbn [rel]. lia.
Qed.

Lemma ge_le_unions : forall x y,
  is_numeric_value x = true -> is_numeric_value y = true ->
  compare_values x BGreaterThanOrEqual y = (compare_values x BGreaterThan y || compare_values x BEqual y) /\
  compare_values x BLessThanOrEqual y = (compare_values x BLessThan y || compare_values x BEqual y).
Proof.
  intros x y Hx Hy.
  destruct x as [ | bx | fx | zx | zx | sx | lx | kx ]; try discriminate Hx;
    destruct y as [ | by' | fy | zy | zy | sy | ly | ky ]; try discriminate Hy;
    cbn [compare_values]; try (split; reflexivity).
  - unfold f_ge, f_gt, f_eq, f_le, f_lt.
    destruct (fcmp fx fy) as [ [ | | ] | ]; split; reflexivity.
  - split; lia.
  - split; kill_ifs; range_unfold; lia.
  - split; kill_ifs; range_unfold; lia.
  - split; lia.
Qed.

Lemma float_trichotomy : forall a b,
  match fcmp a b with
  | None => f_lt a b = false /\ f_eq a b = false /\ f_gt a b = false /\ f_le a b = false /\ f_ge a b = false
  | Some Lt => f_lt a b = true /\ f_eq a b = false /\ f_gt a b = false
  | Some Eq => f_lt a b = false /\ f_eq a b = true /\ f_gt a b = false
  | Some Gt => f_lt a b = false /\ f_eq a b = false /\ f_gt a b = true
  end.
Proof.
  intros a b. unfold f_lt, f_eq, f_gt, f_le, f_ge.
  destruct (fcmp a b) as [ [ | | ] | ]; repeat split; reflexivity.
Qed.

Lemma float_nan_unrelated : forall a b,
  is_nan 53 1024 (b64_of_bits a) = true \/ is_nan 53 1024 (b64_of_bits b) = true ->
  fcmp a b = None.
Proof.
  intros a b H. unfold fcmp, b64_compare.
  destruct (b64_of_bits a) as [ sa | sa | sa pa Ha | sa ma ea Ha ];
    destruct (b64_of_bits b) as [ sb | sb | sb pb Hb | sb mb eb Hb ];
    cbn [is_nan] in H; destruct H as [H | H]; try discriminate H; reflexivity.
Qed.

Lemma float_order_is_real_order : forall a b,
  is_finite 53 1024 (b64_of_bits a) = true -> is_finite 53 1024 (b64_of_bits b) = true ->
  (f_lt a b = true <-> (B2R 53 1024 (b64_of_bits a) < B2R 53 1024 (b64_of_bits b))%R) /\
  (f_eq a b = true <-> (B2R 53 1024 (b64_of_bits a) = B2R 53 1024 (b64_of_bits b))%R) /\
  (f_gt a b = true <-> (B2R 53 1024 (b64_of_bits a) > B2R 53 1024 (b64_of_bits b))%R).
Proof.
  intros a b Fa Fb.
  unfold f_lt, f_eq, f_gt, fcmp, b64_compare.
  rewrite (Bcompare_correct 53 1024 _ _ Fa Fb).
  destruct (Rcompare_spec (B2R 53 1024 (b64_of_bits a)) (B2R 53 1024 (b64_of_bits b)))
    as [ Hlt | Heq | Hgt ].
  - repeat split; intro H; try discriminate H; try assumption; try reflexivity; lra.
  - repeat split; intro H; try discriminate H; try assumption; try reflexivity; lra.
  - repeat split; intro H; try discriminate H; try assumption; try reflexivity; lra.
Qed.

Lemma cast_int_in_range : forall v w,
  value_wf v -> cast_int v = OVal w -> exists z, w = VInt z /\ in_i64 z = true.
Proof.
  intros v w Hwf H.
  destruct v as [ | b | f | z | z | s | l | kv ]; cbn [cast_int value_wf] in *;
    try discriminate H.
  - injection H as H. subst w. destruct b; eexists; split; reflexivity.
  - unfold f64_to_i64 in H.
    destruct (f64_round_Z f) as [ r | ]; [ | discriminate H ].
    destruct (in_i64 r) eqn:Hr; [ | discriminate H ].
    injection H as H. subst w. exists r. split; [ reflexivity | exact Hr ].
  - injection H as H. subst w. exists z. split; [ reflexivity | exact Hwf ].
  - destruct (z <=? i64_max)%Z eqn:Hle; [ | discriminate H ].
    injection H as H. subst w. exists z. split; [ reflexivity | ].
    range_unfold. lia.
  - destruct (parse_i64 s) as [ r | ] eqn:Hp; [ | discriminate H ].
    injection H as H. subst w. exists r. split; [ reflexivity | ].
    exact (parse_i64_range_aux s r Hp).
Qed.

Lemma cast_int_spec :
  (forall b, cast_int (VBool b) = OVal (VInt (if b then 1 else 0))) /\
  (forall z, cast_int (VInt z) = OVal (VInt z)) /\
  (forall z, cast_int (VUInt z) = if (z <=? i64_max)%Z then OVal (VInt z) else OFalse) /\
  (forall s, cast_int (VStr s) = match parse_i64 s with Some z => OVal (VInt z) | None => OFalse end) /\
  (forall f, cast_int (VFloat f) = match f64_round_Z f with
                                      | Some z => if in_i64 z then OVal (VInt z) else OFalse
                                      | None => OFalse
                                      end) /\
  cast_int VNull = OFalse /\ (forall l, cast_int (VArr l) = OFalse) /\
  (forall kv, cast_int (VObj kv) = OFalse).
Proof.
  repeat split; try reflexivity.
  intro f. cbn [cast_int]. unfold f64_to_i64.
  destruct (f64_round_Z f) as [ r | ]; [ | reflexivity ].
  destruct (in_i64 r); reflexivity.
Qed.

Lemma f64_round_Z_nearest : forall f z,
  f64_round_Z f = Some z ->
  is_finite 53 1024 (b64_of_bits f) = true /\
  (Rabs (B2R 53 1024 (b64_of_bits f) - IZR z) <= / 2)%R /\
  ((Rabs (B2R 53 1024 (b64_of_bits f) - IZR z) = / 2)%R ->
   (Rabs (IZR z) > Rabs (B2R 53 1024 (b64_of_bits f)))%R).
Proof.
  intros f z H. unfold f64_round_Z in H.
  destruct (b64_of_bits f) as [ s | s | s pl Hpl | s m e Hme ]; try discriminate H.
  - injection H as H. subst z. cbn [is_finite B2R].
    replace (0 - 0)%R with 0%R by ring. rewrite Rabs_R0.
    split; [ reflexivity | split; [ lra | intro Habs; lra ] ].
  - change (Some (if s then (- round_mag m e)%Z else round_mag m e) = Some z) in H.
    injection H as H. subst z.
    destruct (round_mag_spec m e) as [Hmag [Hpos [Hle Htie]]].
    assert (HM : (0 <= IZR (round_mag m e))%R) by (apply IZR_le; exact Hmag).
    cbn [is_finite B2R].
    set (M := IZR (round_mag m e)) in *.
    split; [ reflexivity | ].
    destruct s; cbv beta iota delta [SpecFloat.cond_Zopp].
    + rewrite F2R_Zopp, opp_IZR. fold M.
      set (r := F2R (Float radix2 (Zpos m) e)) in *.
      replace (- r - - M)%R with (- (r - M))%R by ring.
      rewrite !Rabs_Ropp.
      rewrite (Rabs_pos_eq M) by exact HM.
      rewrite (Rabs_pos_eq r) by lra.
      split; [ exact Hle | exact Htie ].
    + fold M.
      set (r := F2R (Float radix2 (Zpos m) e)) in *.
      rewrite (Rabs_pos_eq M) by exact HM.
      rewrite (Rabs_pos_eq r) by lra.
      split; [ exact Hle | exact Htie ].
Qed.

Lemma parse_i64_show : forall z, in_i64 z = true -> parse_i64 (show_Z z) = Some z.
Proof.
  intros z Hz. unfold show_Z.
  destruct (z <? 0)%Z eqn:Hneg.
  - unfold parse_i64. change (N.eqb ch_minus ch_minus) with true. cbv iota zeta.
    rewrite parse_digits_show_N. cbn [option_map].
    replace (- Z.of_N (Z.abs_N z))%Z with z by lia.
    rewrite Hz. reflexivity.
  - pose proof (parse_digits_show_N (Z.abs_N z)) as Hp.
    pose proof (show_N_nonempty (Z.abs_N z)) as Hne.
    unfold parse_i64.
    destruct (show_N (Z.abs_N z)) as [ | x s ] eqn:Hs; [ contradiction | ].
    unfold show_N in Hs. apply uint_digits_head in Hs. destruct Hs as [Hm Hpl].
    cbv zeta. rewrite Hm, Hpl, Hp.
    replace (Z.of_N (Z.abs_N z)) with z by lia.
    rewrite Hz. reflexivity.
Qed.

Lemma parse_i64_in_range : forall s z, parse_i64 s = Some z -> in_i64 z = true.
Proof. exact parse_i64_range_aux. Qed.

Lemma show_Z_injective : forall a b, show_Z a = show_Z b -> a = b.
Proof.
  intros a b H. unfold show_Z in H.
  destruct (a <? 0)%Z eqn:Ha; destruct (b <? 0)%Z eqn:Hb.
  - injection H as H. apply show_N_inj in H. lia.
  - symmetry in H. unfold show_N at 1 in H. apply uint_digits_head in H.
    destruct H as [H _]. discriminate H.
  - unfold show_N at 1 in H. apply uint_digits_head in H.
    destruct H as [H _]. discriminate H.
  - apply show_N_inj in H. lia.
Qed.

Lemma compare_never_panics : forall o d l op r,
  exists x, solve_compare o (pure_doc d) l op r = Ok x.
Proof.
  intros o d l op r.
  destruct l as [ g l' | l1 op' r1 | b | f m | f | x | s | z | k e | cols rows | e | f e | | s f cst ];
    try exact (generic_compare_ok o d _ op r).
  - (* ECast *)
    destruct m; try exact (generic_compare_ok o d _ op r).
    destruct op; try exact (generic_compare_ok o d _ _ r).
    destruct r as [ g l' | l1 op' r1 | b | f' m' | f' | x | s | z | k e | cols rows | e | f' e | | s f' cst ];
      try exact (generic_compare_ok o d _ _ _).
    + destruct m'; try exact (generic_compare_ok o d _ _ _).
      cbn [solve_compare pure_doc bind].
      destruct (d f) as [ vx | ]; [ | eexists; reflexivity ].
      destruct (value_to_string o vx) as [ xs | ]; [ | eexists; reflexivity ].
      destruct (d f') as [ vy | ]; [ | eexists; reflexivity ].
      destruct (value_to_string o vy) as [ ys | ]; eexists; reflexivity.
    + (* str(f) == null, fix D27 *)
      cbn [solve_compare pure_doc bind]. destruct (d f); eexists; reflexivity.
  - (* EField *)
    destruct op; try exact (generic_compare_ok o d _ _ r).
    destruct r as [ g l' | l1 op' r1 | b | f' m' | f' | x | s | z | k e | cols rows | e | f' e | | s f' cst ];
      try exact (generic_compare_ok o d _ _ _).
    + cbn [solve_compare pure_doc bind]. eexists; reflexivity.
    + cbn [solve_compare pure_doc bind]. eexists; reflexivity.
Qed.

Lemma cast_unconvertible_false : forall o d f m op c v,
  (m = MInt \/ m = MFlt) -> is_cmp op = true ->
  (c = EInt 0%Z \/ c = EFloat 0%Z) ->
  d f = Some v ->
  (match m with MInt => cast_int v | _ => cast_flt o v end) = OFalse ->
  solve_compare o (pure_doc d) (ECast f m) op c = Ok F.
Proof.
  intros o d f m op c v Hm Hop Hc Hd Hcast.
  destruct Hm as [-> | ->]; destruct Hc as [-> | ->]; destruct op; try discriminate Hop;
    cbn [solve_compare operand_of pure_doc bind]; rewrite Hd, Hcast; reflexivity.
Qed.

Lemma cmp_boundary_example :
  compare_values (VUInt 18446744073709551615%Z) BGreaterThan (VInt 5%Z) = true /\
  compare_values (VInt (-1)%Z) BLessThan (VUInt 9223372036854775808%Z) = true /\
  compare_values (VUInt 9223372036854775807%Z) BEqual (VInt 9223372036854775807%Z) = true /\
  cast_int (VFloat 5055640609639927018%Z) = OFalse.
Proof.
  repeat split; vm_compute; reflexivity.
Qed.
