(* C02 (third proof file): whole rules whose identifier blocks may contain LISTS of scalars.
   Lifts C02_lists.list_entry_refines and the scalar entry theorem through mappings, nested
   blocks, sequences of mappings and conditions (statements: Properties/C02_full.v).

   Contents
     (0) the scalar entry, without the D27 / D30 exclusions
     (1) shapes of the expression built for a list entry
     (2) entries, mappings (any nesting depth)
     (3) identifiers: whole value, and entry by entry for one document
     (4) conditions where only COUNTED identifiers need entry-wise agreement; whole rules *)
From TauModel Require Import Base Num Oracles Syntax Value Yaml Token Pratt Ident ParseMap PatSpec
     Solver Rule Keys Known Spec.
From TauProofs Require Import C07 C08 C02_entry C02_lift.
From TauProofs Require C03 C02_lists C02_cond.
From Coq Require Import Lia ZArith NArith ZifyBool List Bool Arith.
Import ListNotations.

(* ====================================================================================== *)
(* (0) one scalar entry                                                                    *)
(* ====================================================================================== *)

(* the two cases C02_entry.inner leaves out: `str(k): null` (fix D27) and `str(k): N` with N an
   integer above the i64 range that is a u64 (fix D30) *)
Lemma inner_str_rest : forall o ic f v ex,
  scalar_yaml v = true -> excluded KStr v = true ->
  (forall z, v = YInt z -> (0 <=? z)%Z && (z <=? u64_max)%Z = true) ->
  value_expr o ic (ki_of KStr f) v = Ok ex ->
  forall d : doc,
    solve_body o ex (pure_doc d) =
    Ok (match d f with None => M | Some x => sem_scalar o ic KStr v x end).
Proof.
  intros o ic f v ex Hv Hx Hz Hex d.
  destruct v as [|b|z|y|s|l|kv|tg v']; try discriminate Hv; try discriminate Hx.
  - (* null *)
    cbn [value_expr ki_of k_e k_f k_misc key_expr cmp_expr] in Hex. inversion Hex; subst ex.
    cbn [sem_scalar]. unfold solve_body, cmp_expr. cbv [solve solve_compare pure_doc bind].
    destruct (d f) as [x|]; reflexivity.
  - (* an integer outside the i64 range *)
    cbn [excluded] in Hx. apply negb_true_iff in Hx.
    unfold value_expr, number_of, yint_as_i64 in Hex. rewrite Hx in Hex.
    cbn [ki_of k_e k_f k_misc key_expr misc_of misc_is modsym_eqb] in Hex.
    inversion Hex; subst ex. unfold big_int_text. rewrite (Hz z eq_refl).
    cbn [sem_scalar]. apply solve_literal.
Qed.

Lemma entry_core : forall o ic k v e,
  scalar_yaml v = true ->
  (forall z, v = YInt z -> in_i64 z = false -> key_mod o (YStr k) = Some KStr ->
             (0 <=? z)%Z && (z <=? u64_max)%Z = true) ->
  parse_entry o ic (YStr k) v None [] = Ok e ->
  exists m f, read_key o k = Some (m, f) /\
              match m with KAll | KOf _ => False | _ => True end /\
              forall d : doc, solve_body o e (pure_doc d) = Ok (sem_entry_scalar o ic m f v d).
Proof.
  intros o ic k v e Hv Hz H.
  rewrite (parse_entry_scalar o ic (YStr k) v Hv) in H.
  destruct (parse_key o (YStr k) v) as [ki|ek|n] eqn:Hk; cbn [bind] in H; try discriminate H.
  destruct (key_cases o k v ki Hv Hk) as [m [f [Hr [Hs ->]]]].
  destruct (value_expr o ic (ki_of m f) v) as [ex|ek|n] eqn:Hex; cbn [bind] in H;
    try discriminate H.
  inversion H; subst e; clear H.
  exists m, f. split; [exact Hr|]. split; [destruct m; try exact I; discriminate Hs|].
  intros d. unfold sem_entry_scalar.
  destruct m; try discriminate Hs; cbn [ki_of k_misc misc_of misc_is modsym_eqb].
  - apply (inner o ic KPlain f v ex eq_refl Hv); [destruct v; reflexivity|exact Hex].
  - rewrite value_expr_not in Hex.
    unfold solve_body. cbn [solve]. fold (solve_body o).
    rewrite (inner o ic KPlain f v ex eq_refl Hv eq_refl Hex d). cbn [bind].
    destruct (d f) as [x|]; [|reflexivity]. destruct (sem_scalar o ic KPlain v x); reflexivity.
  - apply (inner o ic KInt f v ex eq_refl Hv); [destruct v; reflexivity|exact Hex].
  - apply (inner o ic KFlt f v ex eq_refl Hv); [destruct v; reflexivity|exact Hex].
  - destruct (excluded KStr v) eqn:Hx.
    + apply (inner_str_rest o ic f v ex Hv Hx); [|exact Hex].
      intros z ->. cbn [excluded] in Hx. apply negb_true_iff in Hx.
      apply (Hz z eq_refl Hx). unfold key_mod. rewrite Hr. reflexivity.
    + apply (inner o ic KStr f v ex eq_refl Hv Hx Hex).
Qed.

(* statement 0 of Properties/C02_full.v *)
Lemma entry_refines_d27_fixed : forall o ic k v e,
  scalar_yaml v = true -> bigint_str_entry o (YStr k) v = false ->
  parse_entry o ic (YStr k) v None [] = Ok e ->
  exists m f, read_key o k = Some (m, f) /\
              match m with KAll | KOf _ => False | _ => True end /\
              forall d : doc, solve_body o e (pure_doc d) = Ok (sem_entry_scalar o ic m f v d).
Proof.
  intros o ic k v e Hv Hbig H. apply (entry_core o ic k v e Hv); [|exact H].
  intros z -> Hi Hkm. unfold bigint_str_entry in Hbig. rewrite Hkm, Hi in Hbig. discriminate Hbig.
Qed.

(* no exclusion at all: every integer a YAML document can hold is an i64 or a u64 *)
Lemma entry_refines_unrestricted : forall o ic k v e,
  scalar_yaml v = true ->
  match v with YInt z => (i64_min <=? z)%Z && (z <=? u64_max)%Z | _ => true end = true ->
  parse_entry o ic (YStr k) v None [] = Ok e ->
  exists m f, read_key o k = Some (m, f) /\ match m with KAll | KOf _ => False | _ => True end /\
              forall d : doc, solve_body o e (pure_doc d) = Ok (sem_entry_scalar o ic m f v d).
Proof.
  intros o ic k v e Hv Hrange H. apply (entry_core o ic k v e Hv); [|exact H].
  intros z -> Hi _. unfold in_i64 in Hi. unfold i64_min, i64_max, u64_max in *. lia.
Qed.

(* ====================================================================================== *)
(* (1) shapes of the expression built for a list of scalars                                *)
(* ====================================================================================== *)

Ltac acc_simpl :=
  cbn [push_exact push_starts push_ends push_contains push_regex push_rest
       flag_string flag_number flag_boolean flag_cast flag_mapping set_flags
       a_exact a_starts a_ends a_contains a_regex a_rest a_cast a_boolean a_number a_string
       a_mapping].

(* identifiers and kept-aside expressions held by the accumulator *)
Definition tot (a : seqacc) : nat := C02_lists.nids a + length (a_rest a).

Ltac shape_fin H Hr :=
  inversion H; subst; clear H; unfold tot, C02_lists.nids; acc_simpl;
  split;
  [ first [ exact Hr
          | apply Forall_app; split; [exact Hr | constructor; [exact I | constructor]] ]
  | rewrite ?app_length; cbn [length]; lia ].

Lemma member_shape : forall o ic ki ue a v a',
  scalar_yaml v = true -> seq_member o ic ki ue a v None = Ok a' ->
  Forall C02_lists.rshape (a_rest a) ->
  Forall C02_lists.rshape (a_rest a') /\ tot a' <= tot a + 1.
Proof.
  intros o ic ki ue a v a' Hv H Hr.
  destruct v as [|b|z|y|s|l|kv|tg v']; try discriminate Hv.
  - cbn [seq_member] in H. shape_fin H Hr.
  - cbn [seq_member] in H.
    destruct (misc_is MInt (k_misc ki)); [|destruct (misc_is MStr (k_misc ki))]; shape_fin H Hr.
  - cbn [seq_member] in H.
    destruct (number_of z);
      [ destruct (misc_is MStr (k_misc ki))
      | destruct (misc_is MInt (k_misc ki)); [discriminate H|destruct (misc_is MStr (k_misc ki))] ];
      shape_fin H Hr.
  - cbn [seq_member] in H.
    destruct (misc_is MInt (k_misc ki)); [discriminate H|destruct (misc_is MStr (k_misc ki))];
      shape_fin H Hr.
  - unfold seq_member in H.
    destruct (into_identifier o ic s) as [id|ek|n]; cbn [bind] in H; try discriminate H.
    cbv zeta in H.
    destruct (misc_pattern_check (k_misc ki) (id_pat id)) as [u|ek|n]; cbn [bind] in H;
      try discriminate H.
    destruct (misc_is MStr (k_misc ki));
      destruct (id_pat id); cbn [numeric_expr] in H; try discriminate H; shape_fin H Hr.
Qed.

Lemma members_shape : forall o ic ki ue vs a a',
  forallb scalar_yaml vs = true ->
  seq_members o ic ki ue a vs (map (fun _ => None) vs) = Ok a' ->
  Forall C02_lists.rshape (a_rest a) ->
  Forall C02_lists.rshape (a_rest a') /\ tot a' <= tot a + length vs.
Proof.
  intros o ic ki ue. induction vs as [|v vs IH]; intros a a' Hvs H Hr.
  - cbn [map seq_members] in H. inversion H; subst a'. split; [exact Hr|cbn [length]; lia].
  - cbn [map seq_members tl] in H. cbn [forallb] in Hvs. apply andb_prop in Hvs.
    destruct Hvs as [Hv Hvs].
    destruct (seq_member o ic ki ue a v None) as [a1|ek|n] eqn:Hs; cbn [bind] in H;
      try discriminate H.
    destruct (member_shape o ic ki ue a v a1 Hv Hs Hr) as [Hr1 Ht1].
    destruct (IH a1 a' Hvs H Hr1) as [Hr' Ht']. split; [exact Hr'|]. cbn [length]. lia.
Qed.

(* the elements of the group *)
Lemma elem_form : forall f a x,
  Forall C02_lists.rshape (a_rest a) -> In x (group_of f a) ->
  (exists sr c, x = ESearch sr f c) \/ C02_lists.rshape x.
Proof.
  intros f a x Hr Hx. rewrite C02_lists.group_split in Hx. apply in_app_or in Hx.
  destruct Hx as [Hx|Hx].
  - left. pose proof (C02_lists.gpre_shape f a) as H. rewrite Forall_forall in H.
    destruct (H x Hx) as [sr ->]. eauto.
  - right. rewrite Forall_forall in Hr. exact (Hr x Hx).
Qed.

Lemma elem_okb : forall f a x,
  Forall C02_lists.rshape (a_rest a) -> In x (group_of f a) -> okb x = true.
Proof.
  intros f a x Hr Hx. rewrite C02_lists.group_split in Hx. apply in_app_or in Hx.
  destruct Hx as [Hx|Hx].
  - pose proof (group_okb f (C02_lists.norest a) (C02_lists.rest_inv_norest f a)) as H.
    rewrite Forall_forall in H. exact (H x Hx).
  - rewrite Forall_forall in Hr. specialize (Hr x Hx).
    destruct x; try contradiction; [reflexivity|]. destruct s; try contradiction. reflexivity.
Qed.

Lemma filter_partition_len : forall {A} (q : A -> bool) l,
  length (filter (fun x => q x) l) + length (filter (fun x => negb (q x)) l) = length l.
Proof.
  intros A q l. induction l as [|x l IH]; [reflexivity|]. cbn [filter].
  destruct (q x); cbn [negb length]; lia.
Qed.

Lemma group_len : forall f a, length (group_of f a) <= tot a.
Proof.
  intros f a. unfold group_of, tot, C02_lists.nids. rewrite !app_length, map_length.
  pose proof (C02_lists.needles_w (fun _ _ => 1) a) as Hn. unfold C02_lists.ctxw in Hn.
  rewrite !C02_lists.sumf_one in Hn.
  pose proof (C02_lists.idw_one_le MTStartsWith (a_starts a)) as H1.
  pose proof (C02_lists.idw_one_le MTContains (a_contains a)) as H2.
  pose proof (C02_lists.idw_one_le MTEndsWith (a_ends a)) as H3.
  pose proof (C02_lists.idw_one_le MTExact
                (filter (fun i => negb (is_nil (pat_str i))) (a_exact a))) as H4.
  pose proof (filter_partition_len (fun i => is_nil (pat_str i)) (a_exact a)) as H5.
  pose proof (filter_partition_len (fun i => id_ci i) (a_regex a)) as H6.
  cbv beta in H5, H6.
  assert (G1 : length (g1_of f (a_cast a) (fst (needles_of a))) <= length (fst (needles_of a))).
  { destruct (fst (needles_of a)) as [|m [|m' l]]; cbn [g1_of length]; lia. }
  assert (G2 : length (g2_of f (a_cast a) (snd (needles_of a))) <= length (snd (needles_of a))).
  { destruct (snd (needles_of a)) as [|m l]; cbn [g2_of length]; lia. }
  assert (G3 : forall ci rs, length (g3_of f (a_cast a) ci rs) <= length rs).
  { intros ci rs. destruct rs as [|m [|m' l]]; cbn [g3_of length]; lia. }
  pose proof (G3 false (map pat_str (filter (fun i => negb (id_ci i)) (a_regex a)))) as G3a.
  pose proof (G3 true (map pat_str (filter (fun i => id_ci i) (a_regex a)))) as G3b.
  rewrite map_length in G3a, G3b.
  lia.
Qed.

(* the shapes that matter above an entry *)
Definition one_shape (e : expr) : Prop :=
  match e with
  | EGroup op g => op = BOr /\ exists x, g = [x]
  | EMatrix _ _ => False
  | ESearch (SAho ctx _) _ _ => length ctx = 1
  | ESearch (SRegexSet ps _) _ _ => length ps = 1
  | _ => True
  end.

Lemma elem_not_allor : forall f a x,
  Forall C02_lists.rshape (a_rest a) -> In x (group_of f a) -> is_allor x = false.
Proof.
  intros f a x Hr Hx. destruct (elem_form f a x Hr Hx) as [[sr [c ->]]|H]; [reflexivity|].
  destruct x; try contradiction; reflexivity.
Qed.

Lemma elem_one_shape : forall f a x,
  Forall C02_lists.rshape (a_rest a) -> In x (group_of f a) -> tot a <= 1 -> one_shape x.
Proof.
  intros f a x Hr Hx Ht.
  pose proof (elem_okb f a x Hr Hx) as Hok.
  assert (Hl : is_listlike x = false).
  { destruct (is_listlike x) eqn:E; [|reflexivity].
    pose proof (C02_lists.listlike_nids f a x Hr Hx E). unfold tot in Ht. lia. }
  destruct (elem_form f a x Hr Hx) as [[sr [c ->]]|H].
  - destruct sr; try exact I; cbn [one_shape is_listlike okb] in *.
    + destruct ctx as [|m [|m' l]]; [discriminate Hok|reflexivity|discriminate Hl].
    + destruct pats as [|m [|m' l]]; [discriminate Hok|reflexivity|discriminate Hl].
  - destruct x; try contradiction; [exact I|]. destruct s; try contradiction. exact I.
Qed.

Lemma finish_shape : forall ki a ex,
  finish_seq ki a = Ok ex -> Forall C02_lists.rshape (a_rest a) ->
  ((forall u, k_e ki <> EMatch MAll u) -> is_allor ex = false) /\
  (tot a <= 1 -> one_shape ex).
Proof.
  intros ki a ex H Hr. rewrite C02_lists.finish_seq_gen in H.
  destruct (is_match_key (k_e ki) && _); [discriminate H|].
  destruct (misc_is MInt (k_misc ki) && _); [discriminate H|].
  destruct (misc_is MStr (k_misc ki) && _); [discriminate H|].
  pose proof (group_len (k_f ki) a) as Hlen.
  destruct (group_of (k_f ki) a) as [|x [|y l]] eqn:Eg; [discriminate H| |].
  - assert (Hx : In x (group_of (k_f ki) a)) by (rewrite Eg; left; reflexivity).
    destruct (negb (multiple_of a) && _).
    + inversion H; subst ex. split.
      * intros _. exact (elem_not_allor _ _ _ Hr Hx).
      * intros Ht. exact (elem_one_shape _ _ _ Hr Hx Ht).
    + destruct (k_e ki) as [ | | | | | | | |mm u| | | | | ] eqn:Ek; inversion H; subst ex;
        try (split; [intros _; reflexivity|intros _; split; [reflexivity|eauto]]).
      split; [|intros _; exact I].
      intros Hk. destruct mm; [exfalso; exact (Hk u eq_refl)|reflexivity].
  - cbn [length] in Hlen.
    destruct (k_e ki) as [ | | | | | | | |mm u| | | | | ] eqn:Ek; inversion H; subst ex;
      try (split; [intros _; reflexivity|intros Ht; lia]).
    split; [|intros Ht; lia].
    intros Hk. destruct mm; [exfalso; exact (Hk u eq_refl)|reflexivity].
Qed.

(* the list members of an entry are not mappings: the sub-results handed to parse_entry *)
Lemma scalar_subs : forall o ic vs, forallb scalar_yaml vs = true ->
  map (fun m => match m with YMap _ => Some (parse_mapping o ic m) | _ => None end) vs
  = map (fun _ => None) vs.
Proof.
  intros o ic vs H. apply map_ext_in. intros v Hv. rewrite forallb_forall in H.
  specialize (H v Hv). destruct v; try reflexivity. discriminate H.
Qed.

Lemma list_entry_shape : forall o ic k vs e m f,
  forallb scalar_yaml vs = true ->
  parse_entry o ic (YStr k) (YSeq vs) None (map (fun _ => None) vs) = Ok e ->
  read_key o k = Some (m, f) ->
  (m <> KAll -> is_allor e = false) /\ (length vs <= 1 -> one_shape e).
Proof.
  intros o ic k vs e m f Hvs Hpe Hr.
  unfold parse_entry in Hpe.
  destruct (parse_key o (YStr k) (YSeq vs)) as [ki|ek|n] eqn:Hk; cbn [bind] in Hpe;
    try discriminate Hpe.
  cbv zeta in Hpe.
  destruct (seq_members o ic ki (match k_e ki with EMatch _ inner => inner | _ => k_e ki end)
              (if misc_is MStr (k_misc ki) then flag_cast acc0 else acc0) vs
              (map (fun _ => None) vs)) as [a|ek|n] eqn:Hseq; cbn [bind] in Hpe;
    try discriminate Hpe.
  destruct (finish_seq ki a) as [ex|ek|n] eqn:Hfin; cbn [bind] in Hpe; try discriminate Hpe.
  assert (Ha : Forall C02_lists.rshape (a_rest a) /\ tot a <= length vs).
  { destruct (misc_is MStr (k_misc ki));
      apply (members_shape _ _ _ _ _ _ _ Hvs) in Hseq; try (constructor; fail);
      destruct Hseq as [G1 G2]; (split; [exact G1|]); unfold tot, C02_lists.nids in *;
      cbn [flag_cast set_flags acc0 a_exact a_starts a_ends a_contains a_regex a_rest length] in G2;
      lia. }
  destruct Ha as [Har Hat].
  destruct (finish_shape ki a ex Hfin Har) as [HA HB].
  destruct (misc_is MNot (k_misc ki)); inversion Hpe; subst e.
  { split; [intros _; reflexivity|intros _; exact I]. }
  split; [|intros Hl; apply HB; lia].
  intros Hm. apply HA. intros u Eu.
  destruct (C02_lists.key_cases_seq o k vs ki Hk) as [[m' [f' [Hr' [Hs ->]]]]|[mm [f' [Hr' [-> _]]]]].
  - destruct m'; discriminate Eu.
  - rewrite Hr in Hr'. cbn [quant_key k_e] in Eu. inversion Eu; subst mm.
    inversion Hr'; subst. apply Hm. reflexivity.
Qed.

(* ====================================================================================== *)
(* the helper definitions of Properties/C02_full.v, restated identically                   *)
(* ====================================================================================== *)
Fixpoint list_mapping (fuel : nat) (y : yaml) : bool :=
  match fuel with
  | O => false
  | S fu =>
      match y with
      | YMap kv => forallb (fun p : yaml * yaml =>
                              match fst p with YStr _ => true | _ => false end &&
                              (scalar_yaml (snd p) ||
                               match snd p with YSeq vs => forallb scalar_yaml vs | _ => false end ||
                               list_mapping fu (snd p))) kv
      | _ => false
      end
  end.
Definition list_identifier (y : yaml) : bool :=
  match y with
  | YMap _ => list_mapping (S (yaml_depth y)) y
  | YSeq l => forallb (fun m => list_mapping (S (yaml_depth m)) m) l
  | _ => false
  end.

Definition excluded_entry2 (o : oracles) (k v : yaml) : bool :=
  excluded_entry o k v || d32_entry o k v || d28_entry o k v.
Definition excl_free2 (o : oracles) (y : yaml) : Prop :=
  entry_exists (S (yaml_depth y)) (excluded_entry2 o) y = false.

Definition is_ystr' (v : yaml) : bool := match v with YStr _ => true | _ => false end.
Definition quant_strings (m : keymod) (vs : list yaml) : bool :=
  match m with KAll | KOf _ => (2 <=? length (filter is_ystr' vs))%nat | _ => false end.
Fixpoint arrays_ok (o : oracles) (fuel : nat) (y : yaml) (d : doc) : bool :=
  match fuel with
  | O => true
  | S fu =>
      match y with
      | YMap kv =>
          forallb (fun p : yaml * yaml =>
                     match fst p with
                     | YStr k =>
                         match read_key o k with
                         | Some (m, f) =>
                             match snd p with
                             | YSeq vs => negb (quant_strings m vs && match d f with Some (VArr _) => true | _ => false end)
                             | YMap _ =>
                                 match d f with
                                 | Some (VObj kv') => arrays_ok o fu (snd p) (obj_find kv')
                                 | Some (VArr l) => forallb (fun e => match e with VObj kv' => arrays_ok o fu (snd p) (obj_find kv') | _ => true end) l
                                 | _ => true
                                 end
                             | _ => true
                             end
                         | None => true
                         end
                     | _ => true
                     end) kv
      | YSeq l => forallb (fun m => arrays_ok o fu m d) l
      | _ => true
      end
  end.

Fixpoint counted (i : str) (e : expr) : bool :=
  match e with
  | EMatch _ (EIdent j) => str_eqb i j
  | EMatch _ e' | ENegate e' | ENested _ e' => counted i e'
  | EBexp l _ r => counted i l || counted i r
  | EGroup _ l => existsb (counted i) l
  | _ => false
  end.

(* ====================================================================================== *)
(* (2) entries and mappings                                                                *)
(* ====================================================================================== *)

(* a nested block whose body is not an all()-list: some element satisfies the block *)
Lemma solve_nested_gen o f e' d : is_allor e' = false ->
  solve_body o (ENested f e') d =
  do x <- d f;
  match x with
  | None => Ok M
  | Some (VObj kv) => solve_body o e' (obj_doc kv)
  | Some (VArr a) => any_true_list (solve_body o e') (objects_of a)
  | Some _ => Ok F
  end.
Proof.
  intros H. destruct e' as [ | | | | | | | |mm u| | | | | ]; try reflexivity.
  destruct mm; [|reflexivity].
  destruct u as [op g| | | | | | | | | | | | | ]; try reflexivity; [|discriminate H].
  destruct op; try reflexivity. discriminate H.
Qed.

Lemma any_true_spec_in (slv : docq -> out res3) (r : list (str * value) -> res3) : forall l,
  (forall kv, In (VObj kv) l -> slv (obj_doc kv) = Ok (r kv)) ->
  any_true_list slv (objects_of l) =
  Ok (if existsb (fun e => match e with
                           | VObj kv' => res3_eqb (r kv') T
                           | _ => false
                           end) l then T else F).
Proof.
  induction l as [|v l IH]; intros Hs; [reflexivity|].
  assert (IH' := IH (fun kv Hin => Hs kv (or_intror Hin))).
  unfold objects_of. cbn [flat_map existsb]. fold (objects_of l).
  destruct v; cbn [app orb]; try exact IH'.
  cbn [any_true_list]. rewrite (Hs kv (or_introl eq_refl)). cbn [bind].
  destruct (r kv); cbn [res3_eqb orb]; [reflexivity|exact IH'|exact IH'].
Qed.

Lemma exists_sub_parts : forall p neg e,
  exists_sub p neg e = false ->
  p neg e = false /\
  match e with
  | EGroup _ l => existsb (exists_sub p neg) l = false
  | ENested _ e' => exists_sub p neg e' = false
  | _ => True
  end.
Proof.
  intros p neg e H. destruct e; cbn [exists_sub] in H; apply orb_false_elim in H;
    destruct H as [H1 H2]; (split; [exact H1|]); try exact I; exact H2.
Qed.

Lemma existsb_false_in : forall {A} (q : A -> bool) l x,
  existsb q l = false -> In x l -> q x = false.
Proof.
  intros A q l x H Hin. destruct (q x) eqn:E; [|reflexivity].
  rewrite <- H. symmetry. apply existsb_exists. exists x. split; assumption.
Qed.

Section SemL.
Variable o : oracles.
Variable ic : bool.

Lemma member_scalars : forall rec x m' vs, forallb scalar_yaml vs = true ->
  map (member o ic rec x m') vs = map (fun v => sem_scalar o ic m' v x) vs.
Proof.
  intros rec x m' vs H. apply map_ext_in. intros v Hv. rewrite forallb_forall in H.
  specialize (H v Hv). destruct v; try reflexivity. discriminate H.
Qed.

Lemma entry_sem_list : forall rec d k vs m f,
  forallb scalar_yaml vs = true -> read_key o k = Some (m, f) ->
  entry_sem o ic rec d (YStr k, YSeq vs) = C02_lists.sem_entry_list o ic m f vs d.
Proof.
  intros rec d k vs m f Hvs Hr. unfold entry_sem, C02_lists.sem_entry_list. cbn [fst snd].
  rewrite Hr. cbv zeta.
  destruct (d f) as [x|]; [|reflexivity].
  destruct m; rewrite (member_scalars rec x _ vs Hvs); reflexivity.
Qed.

(* one entry of the mapping: fragment, exclusions, the D26 condition on a document *)
Definition lentry (fu : nat) (p : yaml * yaml) : bool :=
  match fst p with YStr _ => true | _ => false end &&
  (scalar_yaml (snd p) ||
   match snd p with YSeq vs => forallb scalar_yaml vs | _ => false end ||
   list_mapping fu (snd p)).

Definition excl2_in_entry (fu : nat) (e : yaml * yaml) : bool :=
  excluded_entry2 o (fst e) (snd e) || entry_exists fu (excluded_entry2 o) (snd e).

Definition aok_entry (fu : nat) (d : doc) (p : yaml * yaml) : bool :=
  match fst p with
  | YStr k =>
      match read_key o k with
      | Some (m, f) =>
          match snd p with
          | YSeq vs => negb (quant_strings m vs && match d f with Some (VArr _) => true | _ => false end)
          | YMap _ =>
              match d f with
              | Some (VObj kv') => arrays_ok o fu (snd p) (obj_find kv')
              | Some (VArr l) => forallb (fun e => match e with VObj kv' => arrays_ok o fu (snd p) (obj_find kv') | _ => true end) l
              | _ => true
              end
          | _ => true
          end
      | None => true
      end
  | _ => true
  end.

Lemma list_mapping_S fu kv : list_mapping (S fu) (YMap kv) = forallb (lentry fu) kv.
Proof. reflexivity. Qed.
Lemma entry_exists_S fu kv :
  entry_exists (S fu) (excluded_entry2 o) (YMap kv) = existsb (excl2_in_entry fu) kv.
Proof. reflexivity. Qed.
Lemma arrays_ok_S fu kv d : arrays_ok o (S fu) (YMap kv) d = forallb (aok_entry fu d) kv.
Proof. reflexivity. Qed.

(* what is proved, at any fuel *)
Definition mapping_ok (n : nat) : Prop :=
  forall y e,
    list_mapping n y = true ->
    entry_exists n (excluded_entry2 o) y = false ->
    parse_mapping o ic y = Ok e -> exists_sub d10_here false e = false ->
    (forall d : doc, arrays_ok o n y d = true ->
                     solve_body o e (pure_doc d) = Ok (sem_mapping o ic n y d)) /\
    (is_allor e = true -> d28_entry o YNull y = true).

(* the shape of the expression of one entry *)
Definition entry_shape (p : yaml * yaml) (e : expr) : Prop :=
  match snd p with
  | YSeq vs => (key_mod o (fst p) <> Some KAll -> is_allor e = false) /\
               (length vs <= 1 -> one_shape e)
  | _ => eshape e = true
  end.

Definition entry_ok (fu : nat) (p : yaml * yaml) (e : expr) : Prop :=
  (forall d : doc, aok_entry fu d p = true ->
     solve_body o e (pure_doc d) = Ok (entry_sem o ic (sem_mapping o ic fu) d p)) /\
  entry_shape p e.

Lemma eshape_not_allor e : eshape e = true -> is_allor e = false.
Proof. destruct e; cbn [eshape is_allor]; intros H; try reflexivity; discriminate H. Qed.

Lemma one_entry_ok fu k v e :
  mapping_ok fu ->
  lentry fu (k, v) = true -> excl2_in_entry fu (k, v) = false ->
  parse_entry o ic k v
    (match v with YMap _ => Some (parse_mapping o ic v) | _ => None end)
    (match v with
     | YSeq l => map (fun m => match m with
                               | YMap _ => Some (parse_mapping o ic m)
                               | _ => None
                               end) l
     | _ => []
     end) = Ok e ->
  exists_sub d10_here false e = false ->
  entry_ok fu (k, v) e.
Proof.
  intros IH Hs Hx Hp Hd10.
  unfold lentry in Hs. cbn [fst snd] in Hs. apply andb_true_iff in Hs.
  destruct Hs as [Hk Hs]. destruct k as [| | | |k| | |]; try discriminate Hk. clear Hk.
  unfold excl2_in_entry in Hx. cbn [fst snd] in Hx. apply orb_false_iff in Hx.
  destruct Hx as [Hx Hxv]. unfold excluded_entry2 in Hx.
  apply orb_false_iff in Hx. destruct Hx as [Hx H28].
  apply orb_false_iff in Hx. destruct Hx as [Hx H32].
  destruct (scalar_yaml v) eqn:Hsc.
  - (* a scalar entry *)
    assert (Hp' : parse_entry o ic (YStr k) v None [] = Ok e).
    { rewrite <- Hp. symmetry. apply parse_entry_scalar_subs. exact Hsc. }
    assert (Hbig : bigint_str_entry o (YStr k) v = false).
    { unfold excluded_entry in Hx. apply orb_false_iff in Hx. exact (proj2 Hx). }
    destruct (entry_refines_d27_fixed o ic k v e Hsc Hbig Hp') as (m & f & Hrk & Hm & Hsolve).
    split.
    + intros d _. rewrite Hsolve. f_equal. symmetry. apply entry_sem_scalar; assumption.
    + assert (Hsh : eshape e = true).
      { apply (parse_entry_shape o ic _ _ _ _ _ Hp'). destruct v; try discriminate Hsc; reflexivity. }
      unfold entry_shape. cbn [snd]. destruct v; try discriminate Hsc; exact Hsh.
  - cbn [orb] in Hs. destruct v as [| | | | |vs|kv'|]; try discriminate Hsc;
      try (destruct fu; discriminate Hs).
    + (* a list of scalars *)
      assert (Hvs : forallb scalar_yaml vs = true).
      { apply orb_true_iff in Hs. destruct Hs as [Hs|Hs]; [exact Hs|destruct fu; discriminate Hs]. }
      rewrite (scalar_subs o ic vs Hvs) in Hp.
      destruct (C02_lists.list_entry_refines o ic k vs e Hvs Hx H32 Hp Hd10)
        as (m & f & Hrk & Hsolve).
      split.
      * intros d Hd. unfold aok_entry in Hd. cbn [fst snd] in Hd. rewrite Hrk in Hd.
        rewrite (entry_sem_list _ d k vs m f Hvs Hrk). apply Hsolve.
        apply negb_true_iff in Hd.
        unfold C02_lists.array_ok. unfold quant_strings in Hd.
        destruct m; try exact I; intros Hlen;
          (destruct (d f) as [[]|]; try exact I;
           replace (2 <=? length (filter is_ystr' vs)) with true in Hd
             by (symmetry; apply Nat.leb_le; exact Hlen);
           discriminate Hd).
      * unfold entry_shape. cbn [fst snd].
        destruct (list_entry_shape o ic k vs e m f Hvs Hp Hrk) as [HA HB].
        split; [|exact HB].
        intros Hkm. apply HA. intros ->. apply Hkm. unfold key_mod. rewrite Hrk. reflexivity.
    + (* a nested block *)
      assert (Hlm : list_mapping fu (YMap kv') = true) by exact Hs.
      destruct (parse_entry_nested o ic _ _ _ _ _ Hp) as (f & e' & Hrk & Hsub & ->).
      destruct (exists_sub_parts _ _ _ Hd10) as [_ Hd10'].
      destruct (IH _ _ Hlm Hxv Hsub Hd10') as [Hsolve Hallor].
      assert (Hna : is_allor e' = false).
      { destruct (is_allor e') eqn:E; [|reflexivity].
        specialize (Hallor eq_refl).
        change (d28_entry o (YStr k) (YMap kv') = true) in Hallor.
        rewrite Hallor in H28. discriminate H28. }
      split; [|reflexivity].
      intros d Hd. rewrite (solve_nested_gen _ _ _ _ Hna).
      rewrite (entry_sem_nested o ic _ _ _ _ _ Hrk).
      unfold aok_entry in Hd. cbn [fst snd] in Hd. rewrite Hrk in Hd.
      unfold pure_doc at 1. cbn [bind].
      destruct (d f) as [x|]; [|reflexivity].
      destruct x; try reflexivity.
      * (* array *)
        cbn [member].
        apply (any_true_spec_in (solve_body o e')
                 (fun kv => sem_mapping o ic fu (YMap kv') (obj_find kv))).
        intros kv Hin. apply (Hsolve (obj_find kv)).
        rewrite forallb_forall in Hd. exact (Hd _ Hin).
      * (* object *)
        cbn [member]. exact (Hsolve (obj_find kv) Hd).
Qed.

Lemma entries_ok fu : mapping_ok fu ->
  forall kv es,
    forallb (lentry fu) kv = true ->
    existsb (excl2_in_entry fu) kv = false ->
    entries_of o ic kv = Ok es ->
    existsb (exists_sub d10_here false) es = false ->
    Forall2 (entry_ok fu) kv es.
Proof.
  intros IH. induction kv as [|[k v] kv' IHkv]; intros es Hs Hx Hes Hd10.
  - inversion Hes; subst. constructor.
  - cbn [forallb] in Hs. apply andb_true_iff in Hs. destruct Hs as [Hs Hs'].
    cbn [existsb] in Hx. apply orb_false_iff in Hx. destruct Hx as [Hx Hx'].
    change (entries_of o ic ((k, v) :: kv')) with
      (do e <- parse_entry o ic k v
                 (match v with YMap _ => Some (parse_mapping o ic v) | _ => None end)
                 (match v with
                  | YSeq l => map (fun m => match m with
                                            | YMap _ => Some (parse_mapping o ic m)
                                            | _ => None
                                            end) l
                  | _ => []
                  end);
       do es <- entries_of o ic kv'; Ok (e :: es)) in Hes.
    apply bind_ok_inv in Hes. destruct Hes as (e & He & Hes).
    apply bind_ok_inv in Hes. destruct Hes as (es' & Hes' & Hes).
    inversion Hes; subst. cbn [existsb] in Hd10. apply orb_false_iff in Hd10.
    destruct Hd10 as [Hd1 Hd2]. constructor.
    + apply one_entry_ok; assumption.
    + apply IHkv; assumption.
Qed.

(* the d10 condition on the whole mapping expression, pushed down to the entries *)
Lemma finish_d10 es e :
  finish_mapping es = Ok e -> exists_sub d10_here false e = false ->
  existsb (exists_sub d10_here false) es = false.
Proof.
  intros Hfin Hd. unfold finish_mapping in Hfin.
  destruct es as [|x [|x2 es]]; [discriminate Hfin| |]; inversion Hfin; subst e.
  - cbn [existsb]. rewrite Hd. reflexivity.
  - destruct (exists_sub_parts _ _ _ Hd) as [_ H]. exact H.
Qed.

Lemma mapping_entries fu kv e :
  mapping_ok fu ->
  list_mapping (S fu) (YMap kv) = true ->
  entry_exists (S fu) (excluded_entry2 o) (YMap kv) = false ->
  parse_mapping o ic (YMap kv) = Ok e -> exists_sub d10_here false e = false ->
  exists es, finish_mapping es = Ok e /\ Forall2 (entry_ok fu) kv es.
Proof.
  intros IH Hs Hx Hp Hd10. rewrite parse_mapping_YMap in Hp.
  apply bind_ok_inv in Hp. destruct Hp as (es & Hes & Hfin).
  exists es. split; [exact Hfin|].
  apply (entries_ok fu IH kv es); try assumption.
  exact (finish_d10 es e Hfin Hd10).
Qed.

Lemma and_fold_F2_at {A} (r : A -> res3) d : forall kv es,
  Forall2 (fun p e => solve_body o e d = Ok (r p)) kv es ->
  and_fold (map (fun x (_ : unit) => solve_body o x d) es) = Ok (first_non_true (map r kv)).
Proof. exact (and_fold_F2 o r d). Qed.

Lemma entry_ok_solve fu d kv es :
  Forall2 (entry_ok fu) kv es -> forallb (aok_entry fu d) kv = true ->
  Forall2 (fun p e => solve_body o e (pure_doc d)
                      = Ok (entry_sem o ic (sem_mapping o ic fu) d p)) kv es.
Proof.
  induction 1 as [|p e kv es [Hpe _] _ IH]; intros Ha; [constructor|].
  cbn [forallb] in Ha. apply andb_true_iff in Ha. destruct Ha as [Ha Ha'].
  constructor; [exact (Hpe d Ha)|exact (IH Ha')].
Qed.

(* finish_mapping: the conjunction in written order *)
Lemma finish_ok fu kv es e :
  Forall2 (entry_ok fu) kv es -> finish_mapping es = Ok e ->
  (forall d : doc, forallb (aok_entry fu d) kv = true ->
     solve_body o e (pure_doc d) =
     Ok (first_non_true (map (entry_sem o ic (sem_mapping o ic fu) d) kv))) /\
  (is_allor e = true -> d28_entry o YNull (YMap kv) = true).
Proof.
  intros HF Hfin.
  assert (Hgroup : forall d : doc, forallb (aok_entry fu d) kv = true ->
             solve_body o (EGroup BAnd es) (pure_doc d) =
             Ok (first_non_true (map (entry_sem o ic (sem_mapping o ic fu) d) kv))).
  { intros d Ha. rewrite solve_and_group. apply and_fold_F2_at.
    exact (entry_ok_solve fu d kv es HF Ha). }
  unfold finish_mapping in Hfin.
  destruct HF as [|p x kv es [Hx Hsh] HF]; [discriminate Hfin|].
  destruct HF as [|p2 x2 kv es Hx2 HF].
  - inversion Hfin; subst. split.
    + intros d Ha. cbn [map]. rewrite fnt_single. apply Hx.
      cbn [forallb] in Ha. apply andb_true_iff in Ha. exact (proj1 Ha).
    + intros Hall. destruct p as [k v]. unfold entry_shape in Hsh. cbn [fst snd] in Hsh.
      destruct v as [| | | | |vs| |];
        try (rewrite (eshape_not_allor _ Hsh) in Hall; discriminate Hall).
      destruct Hsh as [HA _]. cbn [d28_entry].
      destruct (key_mod o k) as [[]|] eqn:Ek; try reflexivity;
        rewrite HA in Hall by discriminate; discriminate Hall.
  - inversion Hfin; subst. split; [exact Hgroup|intros H; discriminate H].
Qed.

Lemma mapping_ok_all : forall n, mapping_ok n.
Proof.
  induction n as [|fu IH]; intros y e Hs Hx Hp Hd10; [discriminate Hs|].
  destruct y as [| | | | | |kv|]; try discriminate Hs.
  destruct (mapping_entries fu kv e IH Hs Hx Hp Hd10) as (es & Hfin & HF).
  destruct (finish_ok fu kv es e HF Hfin) as [Hsolve Hnm].
  split; [|exact Hnm].
  intros d Ha. rewrite sem_mapping_S. apply Hsolve. rewrite <- arrays_ok_S. exact Ha.
Qed.

Lemma mapping_refines_lists_sec : forall y e,
  list_mapping (S (yaml_depth y)) y = true -> excl_free2 o y ->
  parse_mapping o ic y = Ok e -> exists_sub d10_here false e = false ->
  forall d : doc, arrays_ok o (S (yaml_depth y)) y d = true ->
    solve_body o e (pure_doc d) = Ok (sem_mapping o ic (S (yaml_depth y)) y d).
Proof.
  intros y e Hs Hx Hp Hd10.
  exact (proj1 (mapping_ok_all (S (yaml_depth y)) y e Hs Hx Hp Hd10)).
Qed.

End SemL.

(* statement 1 of Properties/C02_full.v *)
Lemma mapping_refines_lists : forall o ic y e,
  list_mapping (S (yaml_depth y)) y = true -> excl_free2 o y ->
  parse_mapping o ic y = Ok e -> exists_sub d10_here false e = false ->
  forall d : doc, arrays_ok o (S (yaml_depth y)) y d = true ->
    solve_body o e (pure_doc d) = Ok (sem_mapping o ic (S (yaml_depth y)) y d).
Proof. exact mapping_refines_lists_sec. Qed.

(* ====================================================================================== *)
(* (3) identifiers                                                                         *)
(* ====================================================================================== *)

(* less fuel asks for less *)
Lemma arrays_ok_anti o : forall n n' y d, n <= n' ->
  arrays_ok o n' y d = true -> arrays_ok o n y d = true.
Proof.
  induction n as [|n IH]; intros n' y d Hle H; [reflexivity|].
  destruct n' as [|n']; [lia|]. assert (Hle' : n <= n') by lia.
  destruct y; try reflexivity; cbn [arrays_ok] in H |- *.
  - rewrite forallb_forall in H |- *. intros m Hm. exact (IH _ _ _ Hle' (H m Hm)).
  - rewrite forallb_forall in H |- *. intros p Hp. specialize (H p Hp).
    destruct (fst p); try reflexivity. destruct (read_key o s) as [[m f]|]; try reflexivity.
    destruct (snd p); try reflexivity; try exact H.
    destruct (d f) as [[]|]; try reflexivity.
    + rewrite forallb_forall in H |- *. intros e He. specialize (H e He).
      destruct e; try reflexivity. exact (IH _ _ _ Hle' H).
    + exact (IH _ _ _ Hle' H).
Qed.

Lemma F2_impl_in2 {A B} (Q Q' : A -> B -> Prop) : forall l l',
  (forall a b, In a l -> In b l' -> Q a b -> Q' a b) -> Forall2 Q l l' -> Forall2 Q' l l'.
Proof.
  intros l l' HQ HF. induction HF as [|a b l l' Hab _ IH]; constructor.
  - apply HQ; [left; reflexivity|left; reflexivity|exact Hab].
  - apply IH. intros a' b' Hin Hin'. apply HQ; right; assumption.
Qed.

Lemma or_single o x d r : solve_body o (EGroup BOr [x]) d = Ok r -> solve_body o x d = Ok r.
Proof.
  rewrite solve_or_group. cbn [map or_fold].
  destruct (solve_body o x d) as [[]| |]; cbn [bind or_fold]; intros H; inversion H; reflexivity.
Qed.

(* entry-wise agreement on ONE document (the second component of Spec.ident_ok at d) *)
Definition ident_entries_d (o : oracles) (ic : bool) (y : yaml) (b : expr) (d : doc) : Prop :=
  match b with
  | EGroup op g =>
      (op = BAnd \/ op = BOr) /\
      Forall2 (fun x r => solve_body o x (pure_doc d) = Ok r) g (sem_entries o ic y d)
  | EMatrix _ _ => False
  | ESearch (SAho ctx _) _ _ => length ctx = 1%nat /\ sem_entries o ic y d = [sem_identifier o ic y d]
  | ESearch (SRegexSet ps _) _ _ => length ps = 1%nat /\ sem_entries o ic y d = [sem_identifier o ic y d]
  | _ => sem_entries o ic y d = [sem_identifier o ic y d]
  end.

Section IdentL.
Variable o : oracles.
Variable ic : bool.

Lemma identifier_map_d kv b (d : doc) :
  list_mapping (S (yaml_depth (YMap kv))) (YMap kv) = true -> excl_free2 o (YMap kv) ->
  parse_mapping o ic (YMap kv) = Ok b -> exists_sub d10_here false b = false ->
  arrays_ok o (S (yaml_depth (YMap kv))) (YMap kv) d = true ->
  solve_body o b (pure_doc d) = Ok (sem_identifier o ic (YMap kv) d) /\
  (single_entry_list (YMap kv) = false -> ident_entries_d o ic (YMap kv) b d).
Proof.
  intros Hs Hx Hp Hd10 Ha. unfold excl_free2 in Hx.
  remember (yaml_depth (YMap kv)) as fu eqn:Efu.
  destruct (mapping_entries o ic fu kv b (mapping_ok_all o ic fu) Hs Hx Hp Hd10) as (es & Hfin & HF).
  destruct (finish_ok o ic fu kv es b HF Hfin) as [Hsolve _].
  rewrite arrays_ok_S in Ha.
  assert (Hwhole : solve_body o b (pure_doc d) = Ok (sem_identifier o ic (YMap kv) d)).
  { unfold sem_identifier, sem_identifier_members. rewrite max3_single.
    rewrite <- Efu. rewrite sem_mapping_S. apply Hsolve. exact Ha. }
  split; [exact Hwhole|]. intros Hsel.
  pose proof (entry_ok_solve o ic fu d kv es HF Ha) as HFd.
  clear Hsolve Hs Hx Hp Hd10.
  unfold finish_mapping in Hfin.
  destruct HF as [|p x kv1 es1 [Hx Hsh] HF]; [discriminate Hfin|].
  destruct HF as [|p2 x2 kv2 es2 Hx2 HF].
  - (* one entry: the identifier is that entry *)
    inversion Hfin; subst b.
    assert (Hent : sem_entries o ic (YMap [p]) d = [sem_identifier o ic (YMap [p]) d]).
    { unfold sem_entries, sem_identifier, sem_identifier_members. cbn [map].
      rewrite max3_single. reflexivity. }
    destruct p as [k v]. unfold entry_shape in Hsh. cbn [fst snd] in Hsh.
    assert (Hcases : one_shape x \/ eshape x = true).
    { destruct v as [| | | | |vs| |]; try (right; exact Hsh). left.
      destruct Hsh as [_ HB]. apply HB.
      destruct vs as [|v1 [|v2 vs]]; cbn [length]; try lia. discriminate Hsel. }
    destruct Hcases as [Hone|Hesh].
    + destruct x as [op g| | | | | | | | | | | | |s f0 c]; cbn [one_shape] in Hone;
        cbn [ident_entries_d]; try exact Hent; try contradiction.
      * destruct Hone as [-> [x' ->]]. split; [right; reflexivity|].
        rewrite Hent. constructor; [|constructor]. apply or_single. exact Hwhole.
      * destruct s; try exact Hent; (split; [exact Hone|exact Hent]).
    + destruct x; cbn [eshape] in Hesh; try discriminate Hesh; cbn [ident_entries_d];
        try exact Hent.
      destruct s; try discriminate Hesh; try exact Hent.
      split; [|exact Hent]. apply Nat.eqb_eq. exact Hesh.
  - (* two or more entries: their conjunction *)
    inversion Hfin; subst b. cbn [ident_entries_d].
    split; [left; reflexivity|].
    unfold sem_entries. rewrite <- Efu.
    apply (F2_flip_map
             (fun p e => solve_body o e (pure_doc d)
                         = Ok (entry_sem o ic (sem_mapping o ic fu) d p))
             (fun x r => solve_body o x (pure_doc d) = Ok r)
             (fun p => sem_mapping o ic (S fu) (YMap [p]) d)).
    + intros q z Hz. rewrite sem_mapping_single. exact Hz.
    + exact HFd.
Qed.

Lemma identifier_lists_d : forall y b (d : doc),
  list_identifier y = true -> excl_free2 o y ->
  parse_identifier o ic y = Ok b -> exists_sub d10_here false b = false ->
  arrays_ok o (S (S (yaml_depth y))) y d = true ->
  solve_body o b (pure_doc d) = Ok (sem_identifier o ic y d) /\
  (single_entry_list y = false -> ident_entries_d o ic y b d).
Proof.
  intros y b d Hs Hx Hp Hd10 Ha.
  destruct y as [| | | | |l|kv|]; try discriminate Hs.
  - (* a sequence of mappings: their disjunction *)
    cbn [list_identifier] in Hs. cbn [parse_identifier] in Hp.
    destruct l as [|first others]; [discriminate Hp|].
    assert (Hmem : forall m e, In m (first :: others) -> parse_mapping o ic m = Ok e ->
                   exists_sub d10_here false e = false ->
                   solve_body o e (pure_doc d) = Ok (sem_mapping o ic (S (yaml_depth m)) m d)).
    { intros m e Hin Hpm Hde. pose proof (depth_seq_member _ _ Hin) as Hdep.
      apply mapping_refines_lists_sec; [| |exact Hpm|exact Hde|].
      - rewrite forallb_forall in Hs. exact (Hs m Hin).
      - unfold excl_free2 in Hx |- *. cbn [entry_exists] in Hx.
        apply (entry_exists_anti _ (S (yaml_depth m)) (yaml_depth (YSeq (first :: others))));
          [lia|].
        exact (existsb_false_in _ _ m Hx Hin).
      - cbn [arrays_ok] in Ha.
        apply (arrays_ok_anti o (S (yaml_depth m)) (S (yaml_depth (YSeq (first :: others)))));
          [lia|].
        rewrite forallb_forall in Ha. exact (Ha m Hin). }
    destruct (is_ymap first) eqn:Hf; [|discriminate Hp].
    apply bind_ok_inv in Hp. destruct Hp as (e0 & H0 & Hp).
    apply bind_ok_inv in Hp. destruct Hp as (es & Hes & Hp). inversion Hp; subst b.
    apply mapM_F2 in Hes.
    destruct (exists_sub_parts _ _ _ Hd10) as [_ Hd10'].
    assert (HF : Forall2 (fun m e => solve_body o e (pure_doc d) =
                                     Ok (sem_mapping o ic (S (yaml_depth m)) m d))
                         (first :: others) (e0 :: es)).
    { apply (F2_impl_in2 (fun v e => parse_mapping o ic v = Ok e)).
      - intros m e Hin Hin' Hme. apply Hmem; [exact Hin|exact Hme|].
        exact (existsb_false_in _ _ e Hd10' Hin').
      - constructor; [exact H0|].
        apply (F2_impl (fun v e => (if is_ymap v then parse_mapping o ic v
                                    else Err EInvalidIdent) = Ok e)); [|exact Hes].
        intros m e Hme. destruct (is_ymap m); [exact Hme|discriminate Hme]. }
    split.
    + rewrite solve_or_group.
      rewrite (or_fold_F2 o (fun m => sem_mapping o ic (S (yaml_depth m)) m d) (pure_doc d)
                 (first :: others) (e0 :: es) HF M) by discriminate.
      unfold sem_identifier, sem_identifier_members.
      destruct (max3 (map (fun m => sem_mapping o ic (S (yaml_depth m)) m d) (first :: others)));
        reflexivity.
    + intros _. cbn [ident_entries_d]. split; [right; reflexivity|].
      unfold sem_entries, sem_identifier_members.
      apply (F2_flip_map
               (fun m e => solve_body o e (pure_doc d) =
                           Ok (sem_mapping o ic (S (yaml_depth m)) m d))
               (fun x r => solve_body o x (pure_doc d) = Ok r)
               (fun m => sem_mapping o ic (S (yaml_depth m)) m d)).
      * intros m e Hme. exact Hme.
      * exact HF.
  - (* a mapping *)
    cbn [list_identifier] in Hs. cbn [parse_identifier] in Hp.
    apply identifier_map_d; try assumption.
    apply (arrays_ok_anti o _ (S (S (yaml_depth (YMap kv))))); [lia|exact Ha].
Qed.

End IdentL.

(* statement 2 of Properties/C02_full.v *)
Lemma identifier_refines_lists : forall o ic y b,
  list_identifier y = true -> excl_free2 o y ->
  parse_identifier o ic y = Ok b -> exists_sub d10_here false b = false ->
  forall d : doc, arrays_ok o (S (S (yaml_depth y))) y d = true ->
    solve_body o b (pure_doc d) = Ok (sem_identifier o ic y d).
Proof.
  intros o ic y b Hs Hx Hp Hd10 d Ha.
  exact (proj1 (identifier_lists_d o ic y b d Hs Hx Hp Hd10 Ha)).
Qed.

(* ====================================================================================== *)
(* (4) conditions and whole rules                                                          *)
(* ====================================================================================== *)

Lemma str_eqb_refl : forall s, str_eqb s s = true.
Proof. induction s as [|x s IH]; [reflexivity|]. cbn [str_eqb]. rewrite N.eqb_refl, IH. reflexivity. Qed.

(* C02_cond.match_refines on ONE document *)
Lemma match_refines_d : forall o ic ids i k y b (d : doc),
  solve_body o b (pure_doc d) = Ok (sem_identifier o ic y d) ->
  ident_entries_d o ic y b d -> lookup i ids = Some b ->
  C02_cond.thresholds_ok (EMatch k (EIdent i)) = true ->
  solve_cond o ids (EMatch k (EIdent i)) (pure_doc d) =
  Ok (match k with
      | MAll => first_non_true (sem_entries o ic y d)
      | MOf c => of3 c (sem_entries o ic y d)
      end).
Proof.
  intros o ic ids i k y b d H1 H2 Hl Ht. unfold solve_cond.
  destruct k as [|c]; cbn [solve]; rewrite Hl.
  - (* all *)
    destruct b as [ s g | l1 op r1 | bb | f m | f | x | j | z | k e | cols rows | e | f e | | s f cst ];
      cbn [ident_entries_d] in H2;
      try (cbn [match_all]; rewrite H2, C02_cond.first_non_true_single; exact H1).
    + destruct H2 as [_ H2].
      rewrite (C02_cond.and_fold_F2 (fun x => solve_body o x (pure_doc d)) g _ H2).
      apply C02_cond.and_fold_fnt.
    + destruct H2.
    + destruct s as [ctx ci| | | | | |ps ci| ];
        try (cbn [match_all]; rewrite H2, C02_cond.first_non_true_single; exact H1).
      * destruct H2 as [Hlen H2]. rewrite H2, C02_cond.first_non_true_single. rewrite <- H1.
        destruct ctx as [|m [|m' ctx]]; try discriminate Hlen.
        cbn [match_all]. unfold solve_body. cbn [solve].
        apply C02_cond.field_search_ext. intros h. rewrite C02_cond.slow_aho_one.
        change (len_Z [m]) with 1%Z. rewrite C02_cond.all_test_one.
        cbn [search existsb]. rewrite orb_false_r. reflexivity.
      * destruct H2 as [Hlen H2]. rewrite H2, C02_cond.first_non_true_single. rewrite <- H1.
        destruct ps as [|p [|p' ps]]; try discriminate Hlen.
        cbn [match_all]. unfold solve_body. cbn [solve].
        apply C02_cond.field_search_ext. intros h. rewrite C02_cond.regexset_one.
        change (len_Z [p]) with 1%Z. rewrite C02_cond.all_test_one.
        cbn [search existsb]. rewrite orb_false_r. reflexivity.
  - (* of *)
    cbn [C02_cond.thresholds_ok] in Ht. apply Z.leb_le in Ht.
    assert (Hgen : forall b', solve_body o b' (pure_doc d) = Ok (sem_identifier o ic y d) ->
              sem_entries o ic y d = [sem_identifier o ic y d] ->
              (if (c =? 0)%Z
               then do r <- solve_body o b' (pure_doc d); Ok (match r with T => F | F => T | M => M end)
               else do r <- solve_body o b' (pure_doc d);
                    Ok (match r with T => if (1 <? c)%Z then F else T | x => x end))
              = Ok (of3 c (sem_entries o ic y d))).
    { intros b' G1 G2. rewrite G2, C02_cond.of3_single by exact Ht. rewrite G1. cbn [bind].
      destruct (c =? 0)%Z; reflexivity. }
    destruct b as [ s g | l1 op r1 | bb | f m | f | x | j | z | k e | cols rows | e | f e | | s f cst ];
      cbn [ident_entries_d] in H2;
      try (exact (Hgen _ H1 H2)).
    + destruct H2 as [_ H2].
      rewrite (C02_cond.of_fold_F2 (fun x => solve_body o x (pure_doc d)) g _ c H2).
      apply C02_cond.of_fold_of3. exact Ht.
    + destruct H2.
    + destruct s as [ctx ci| | | | | |ps ci| ]; try (exact (Hgen _ H1 H2)).
      * destruct H2 as [Hlen H2].
        destruct ctx as [|m [|m' ctx]]; try discriminate Hlen.
        unfold match_of. destruct (Z.eqb_spec c 0) as [Ec|Ec].
        { pose proof (Hgen _ H1 H2) as G. rewrite Ec in G. cbn [Z.eqb] in G. rewrite Ec. exact G. }
        rewrite H2, C02_cond.of3_single by exact Ht.
        destruct (Z.eqb_spec c 0) as [Ec'|_]; [contradiction|].
        pose proof H1 as Hx. unfold solve_body in Hx. cbn [solve] in Hx.
        destruct (1 <? c)%Z eqn:E1.
        -- rewrite (C02_cond.field_search_ext o _ f cst _ (fun _ => false)).
           ++ rewrite (C02_cond.field_search_never o d f cst (search o (SAho [m] ci))), Hx. cbn [bind].
              destruct (sem_identifier o ic y d); reflexivity.
           ++ intros h. rewrite C02_cond.slow_aho_one, C02_cond.of_test_one by lia. rewrite E1. reflexivity.
        -- rewrite (C02_cond.field_search_ext o _ f cst _ (search o (SAho [m] ci))).
           ++ rewrite Hx. destruct (sem_identifier o ic y d); reflexivity.
           ++ intros h. rewrite C02_cond.slow_aho_one, C02_cond.of_test_one by lia. rewrite E1.
              cbn [search existsb]. rewrite orb_false_r. reflexivity.
      * destruct H2 as [Hlen H2].
        destruct ps as [|p [|p' ps]]; try discriminate Hlen.
        unfold match_of. destruct (Z.eqb_spec c 0) as [Ec|Ec].
        { pose proof (Hgen _ H1 H2) as G. rewrite Ec in G. cbn [Z.eqb] in G. rewrite Ec. exact G. }
        rewrite H2, C02_cond.of3_single by exact Ht.
        destruct (Z.eqb_spec c 0) as [Ec'|_]; [contradiction|].
        pose proof H1 as Hx. unfold solve_body in Hx. cbn [solve] in Hx.
        destruct (1 <? c)%Z eqn:E1.
        -- rewrite (C02_cond.field_search_ext o _ f cst _ (fun _ => false)).
           ++ rewrite (C02_cond.field_search_never o d f cst (search o (SRegexSet [p] ci))), Hx. cbn [bind].
              destruct (sem_identifier o ic y d); reflexivity.
           ++ intros h. rewrite C02_cond.regexset_one, C02_cond.of_test_one by lia. rewrite E1. reflexivity.
        -- rewrite (C02_cond.field_search_ext o _ f cst _ (search o (SRegexSet [p] ci))).
           ++ rewrite Hx. destruct (sem_identifier o ic y d); reflexivity.
           ++ intros h. rewrite C02_cond.regexset_one, C02_cond.of_test_one by lia. rewrite E1.
              cbn [search existsb]. rewrite orb_false_r. reflexivity.
Qed.

(* what the condition needs of the identifiers on document d: the value of each, and
   entry-wise agreement of those it counts *)
Definition ids_ok (o : oracles) (ic : bool) (raw : list (str * yaml)) (ids : list (str * expr))
           (d : doc) (e : expr) : Prop :=
  forall i, match lookup i raw, lookup i ids with
            | Some y, Some b =>
                solve_body o b (pure_doc d) = Ok (sem_identifier o ic y d) /\
                (counted i e = true -> ident_entries_d o ic y b d)
            | None, None => True
            | _, _ => False
            end.

Lemma ids_ok_sub o ic raw ids d e e' :
  (forall i, counted i e' = true -> counted i e = true) ->
  ids_ok o ic raw ids d e -> ids_ok o ic raw ids d e'.
Proof.
  intros Hc H i. specialize (H i).
  destruct (lookup i raw), (lookup i ids); try exact H.
  destruct H as [H1 H2]. split; [exact H1|]. intros G. exact (H2 (Hc i G)).
Qed.

(* C02_cond.cond_refines_alt with the weaker hypothesis on identifiers, on one document *)
Lemma cond_refines_counted : forall o ic ids raw (d : doc) e,
  ids_ok o ic raw ids d e ->
  C02_cond.thresholds_ok e = true ->
  cond_shape e = true -> wf_cond ids e = true ->
  solve_cond o ids e (pure_doc d) = Ok (sem_cond o ic raw e d).
Proof.
  intros o ic ids raw d e.
  induction e as [ s g | l IHl op r IHr | bb | f m | f | x | i | z | k e IHe | cols rows | e IHe | f e IHe | | s f cst ];
    intros Hids Ht Hs Hw; try discriminate Hs.
  - (* EBexp *)
    cbn [cond_shape] in Hs. cbn [C02_cond.thresholds_ok] in Ht. apply andb_prop in Ht.
    destruct Ht as [Htl Htr].
    assert (Hidl : ids_ok o ic raw ids d l).
    { apply (ids_ok_sub o ic raw ids d (EBexp l op r) l); [|exact Hids].
      intros i G. cbn [counted]. rewrite G. reflexivity. }
    assert (Hidr : ids_ok o ic raw ids d r).
    { apply (ids_ok_sub o ic raw ids d (EBexp l op r) r); [|exact Hids].
      intros i G. cbn [counted]. rewrite G. apply orb_true_r. }
    destruct op.
    + apply andb_prop in Hs. destruct Hs as [Hsl Hsr].
      cbn [wf_cond is_and_or_op] in Hw. apply andb_prop in Hw. destruct Hw as [Hwl Hwr].
      rewrite C02_cond.sem_cond_and. unfold solve_cond in *. cbn [solve]. unfold and2.
      rewrite (IHl Hidl Htl Hsl Hwl), (IHr Hidr Htr Hsr Hwr). cbn [bind].
      destruct (sem_cond o ic raw l d), (sem_cond o ic raw r d); reflexivity.
    + unfold solve_cond. cbn [solve]. apply C02_cond.cmp_refines; [exact I | exact Hs].
    + unfold solve_cond. cbn [solve]. apply C02_cond.cmp_refines; [exact I | exact Hs].
    + unfold solve_cond. cbn [solve]. apply C02_cond.cmp_refines; [exact I | exact Hs].
    + unfold solve_cond. cbn [solve]. apply C02_cond.cmp_refines; [exact I | exact Hs].
    + unfold solve_cond. cbn [solve]. apply C02_cond.cmp_refines; [exact I | exact Hs].
    + apply andb_prop in Hs. destruct Hs as [Hsl Hsr].
      cbn [wf_cond is_and_or_op] in Hw. apply andb_prop in Hw. destruct Hw as [Hwl Hwr].
      rewrite C02_cond.sem_cond_or. unfold solve_cond in *. cbn [solve]. unfold or2.
      rewrite (IHl Hidl Htl Hsl Hwl), (IHr Hidr Htr Hsr Hwr). cbn [bind].
      destruct (sem_cond o ic raw l d), (sem_cond o ic raw r d); reflexivity.
  - (* EIdent *)
    cbn [wf_cond] in Hw. unfold has_key in Hw. specialize (Hids i).
    unfold solve_cond. cbn [solve sem_cond].
    destruct (lookup i ids) as [b|]; [|discriminate Hw].
    destruct (lookup i raw) as [y|]; [|contradiction].
    exact (proj1 Hids).
  - (* EMatch *)
    cbn [cond_shape] in Hs. destruct e; try discriminate Hs.
    cbn [wf_cond] in Hw. unfold has_key in Hw. pose proof (Hids s) as Hi.
    destruct (lookup s ids) as [b|] eqn:El; [|discriminate Hw].
    destruct (lookup s raw) as [y|] eqn:Er; [|contradiction].
    destruct Hi as [Hi1 Hi2].
    assert (Hc : counted s (EMatch k (EIdent s)) = true) by (cbn [counted]; apply str_eqb_refl).
    rewrite (match_refines_d o ic ids s k y b d Hi1 (Hi2 Hc) El Ht).
    destruct k; cbn [sem_cond]; rewrite Er; reflexivity.
  - (* ENegate *)
    cbn [cond_shape] in Hs. cbn [C02_cond.thresholds_ok] in Ht. cbn [wf_cond] in Hw.
    assert (Hide : ids_ok o ic raw ids d e).
    { apply (ids_ok_sub o ic raw ids d (ENegate e) e); [|exact Hids].
      intros i G. cbn [counted]. exact G. }
    unfold solve_cond in *. cbn [solve sem_cond]. rewrite (IHe Hide Ht Hs Hw). cbn [bind].
    destruct (sem_cond o ic raw e d); reflexivity.
Qed.

Lemma lookup_in {A} : forall i (l : list (str * A)) b,
  lookup i l = Some b -> exists k, In (k, b) l.
Proof.
  intros i l b. induction l as [|[k v] l IH]; cbn [lookup]; intros H; [discriminate H|].
  destruct (str_eqb i k).
  - inversion H; subst. exists k. left. reflexivity.
  - destruct (IH H) as [k' Hk]. exists k'. right. exact Hk.
Qed.

(* statement 3 of Properties/C02_full.v *)
Lemma rule_refines_lists : forall o ic kv dkv r (d : doc),
  ylookup key_detection kv = Some (YMap dkv) ->
  forallb (fun p : yaml * yaml => match fst p with YStr _ => true | _ => false end) dkv = true ->
  NoDup (map fst (raw_identifiers dkv)) ->
  (forall i y, In (i, y) (raw_identifiers dkv) ->
     list_identifier y = true /\ excl_free2 o y /\
     arrays_ok o (S (S (yaml_depth y))) y d = true /\
     (counted i (d_expr (r_det r)) = true -> single_entry_list y = false)) ->
  load_rule o ic (YMap kv) = Ok r ->
  known_d10 (r_det r) = false ->
  exists r3, solve_rule3 o (r_det r) (pure_doc d) = Ok r3 /\
             sem_rule o ic (YMap kv) d = Some r3 /\
             (matches o r d = Ok true <-> r3 = T).
Proof.
  intros o ic kv dkv r d Hdet Hkeys _ Hsimple Hload Hk10.
  (* the detection the rule was loaded with *)
  assert (Hdt : load_detection o ic (YMap dkv) = Ok (r_det r)).
  { unfold load_rule in Hload. cbn [untag] in Hload.
    apply C03.bind_ok_inv in Hload. destruct Hload as (opt & _ & Hload).
    apply C03.bind_ok_inv in Hload. destruct Hload as (det & Hd & Hload).
    apply C03.bind_ok_inv in Hload. destruct Hload as (tp & _ & Hload).
    apply C03.bind_ok_inv in Hload. destruct Hload as (tn & _ & Hload).
    inversion Hload; subst. cbn [r_det]. rewrite Hdet in Hd. exact Hd. }
  pose proof (C03.load_detection_wf _ _ _ _ Hdt) as Hwf.
  unfold wf_det in Hwf. apply andb_prop in Hwf. destruct Hwf as [Hwf _].
  set (dt := r_det r) in *.
  (* the pieces of load_detection *)
  pose proof Hdt as H. unfold load_detection in H. cbn [untag] in H.
  apply C03.bind_ok_inv in H. destruct H as ([cond ids] & Hent & H).
  destruct cond as [rawc|]; [|discriminate H].
  apply C03.bind_ok_inv in H. destruct H as (ts & _ & H).
  destruct (idents_known ids None None ts); [|discriminate H]. cbn [negb] in H.
  apply C03.bind_ok_inv in H. destruct H as (e & He & H). apply C03.as_rule_err_ok in He.
  destruct (is_solvable e) eqn:Es; [|discriminate H].
  assert (Edt : dt = {| d_expr := e; d_ids := ids |}) by (inversion H; reflexivity).
  rewrite Edt in Hwf. cbn [d_expr d_ids] in Hwf.
  unfold known_d10 in Hk10. rewrite Edt in Hk10. cbn [d_expr d_ids] in Hk10.
  apply orb_false_elim in Hk10. destruct Hk10 as [_ Hk10].
  destruct (C02_cond.load_entries_rel o ic dkv None [] _ _ Hkeys Hent) as (l & Hl & HF).
  cbn [app] in Hl. subst l.
  assert (Hids : ids_ok o ic (raw_identifiers dkv) ids d e).
  { intros i. pose proof (C02_cond.lookup_rel o ic _ _ HF i) as Hi.
    destruct (lookup i (raw_identifiers dkv)) as [y|], (lookup i ids) as [b|] eqn:Elb; try exact Hi.
    destruct Hi as [Hin Hp]. destruct (Hsimple i y Hin) as (Hs & Hx & Ha & Hc).
    rewrite Edt in Hc. cbn [d_expr] in Hc.
    assert (Hd10 : exists_sub d10_here false b = false).
    { destruct (lookup_in i ids b Elb) as [k Hk].
      exact (existsb_false_in _ _ (k, b) Hk10 Hk). }
    destruct (identifier_lists_d o ic y b d Hs Hx Hp Hd10 Ha) as [G1 G2].
    split; [exact G1|]. intros G. exact (G2 (Hc G)). }
  pose proof (cond_refines_counted o ic ids (raw_identifiers dkv) d e Hids
                (C02_cond.loaded_condition_thresholds _ _ He)
                (C02_cond.loaded_condition_shape _ _ He Es) Hwf) as Hsolve.
  exists (sem_cond o ic (raw_identifiers dkv) e d). split; [|split].
  - unfold solve_rule3. rewrite Edt. cbn [d_expr d_ids]. exact Hsolve.
  - unfold sem_rule. cbn [untag]. rewrite Hdet. cbn [option_map untag]. rewrite Hdt.
    rewrite Edt. reflexivity.
  - unfold matches, solve_rule3. fold dt. rewrite Edt. cbn [d_expr d_ids]. rewrite Hsolve. cbn [bind].
    destruct (sem_cond o ic (raw_identifiers dkv) e d); split; intros G; try reflexivity; discriminate G.
Qed.

Check entry_refines_d27_fixed.
Check entry_refines_unrestricted.
Check mapping_refines_lists.
Check identifier_refines_lists.
Check rule_refines_lists.
Print Assumptions entry_refines_d27_fixed.
Print Assumptions entry_refines_unrestricted.
Print Assumptions mapping_refines_lists.
Print Assumptions identifier_refines_lists.
Print Assumptions rule_refines_lists.

(* ====================================================================================== *)
(* non-vacuity: a nested block with a plain list and an all()-list, over an array of       *)
(* objects and over an object                                                              *)
(* ====================================================================================== *)
Lemma mapping_lists_example :
  let o0 := {| re_valid := fun _ _ => true; re_match := fun _ _ _ => false; f64_parse := fun _ => None;
               f64_show := fun _ => []; uni_alnum := fun _ => false; uni_num := fun _ => false |} in
  (* g: { f: ['*a*', 'b*'], all(h): ['x*', '*y'] } *)
  let y := YMap [(YStr [103%N],
                  YMap [(YStr [102%N], YSeq [YStr [42;97;42]%N; YStr [98;42]%N]);
                        (YStr [97; 108; 108; 40; 104; 41]%N, YSeq [YStr [120;42]%N; YStr [42;121]%N])])] in
  (* {g: [null, {f: "xa", h: "xy"}]}  and  {g: {f: "xa", h: "y"}} *)
  let d1 : doc := fun k => if str_eqb k [103%N]
                           then Some (VArr [VNull; VObj [([102%N], VStr [120;97]%N); ([104%N], VStr [120;121]%N)]])
                           else None in
  let d2 : doc := fun k => if str_eqb k [103%N]
                           then Some (VObj [([102%N], VStr [120;97]%N); ([104%N], VStr [121]%N)])
                           else None in
  exists e, parse_mapping o0 false y = Ok e /\
            list_mapping (S (yaml_depth y)) y = true /\ excl_free2 o0 y /\
            exists_sub d10_here false e = false /\
            arrays_ok o0 (S (yaml_depth y)) y d1 = true /\ arrays_ok o0 (S (yaml_depth y)) y d2 = true /\
            solve_body o0 e (pure_doc d1) = Ok T /\ solve_body o0 e (pure_doc d2) = Ok F.
Proof. cbv zeta. eexists. repeat split; vm_compute; reflexivity. Qed.
