(* C03 (fourth file)  After the repairs D18/D19 (conj_lookup) and D21 (the guard on the number
   of counted fields in `matrix`) the statements of C03_matrix need no exclusion: proofs.

   The work is done in Proofs/C03_matrix.v:
     - matrix_table_small : when the table is built there are at most 55296 counted fields;
     - matrix_cols_length : the columns come from `ord (map fst fields)`, so (with the
       hypothesis on `ord`) there are at most as many columns as fields;
     - hence every column index is < 55296, column_key returns (column_key_ok), and so do
       row_single / row_of_lookup / place_all (place_all_ok): matrix_ok_all;
     - matrix_gm0 : the shape `gm` of the result needs only the (empty) class D18. *)
From TauModel Require Import Base Num Oracles Syntax Generated Token Pratt Ident Value Yaml
     ParseMap Solver Rule Keys Optimiser Known.
From Coq Require Import Lia ZArith ZifyBool List Bool.
Import ListNotations.
From TauProofs Require C01 C03.
From TauProofs Require Import C03_opt C03_matrix.

Lemma d18_sub_never ord neg e : exists_sub (d18_here ord) neg e = false.
Proof. apply exists_sub_never. intros n x. apply d18_here_never. Qed.

(* ---- theorem 1: optimise returns, for every accepted rule and every switch set ---- *)
Lemma optimise_total_all : forall o ic ord sw y r,
  (forall ks, (length (ord ks) <= length ks)%nat) ->
  load_rule o ic y = Ok r ->
  exists r', optimise o ord sw r = Ok r'.
Proof. exact C03_matrix.optimise_total_all. Qed.

(* matching the optimised rule never panics (any document) *)
Lemma optimised_matches_all : forall o ic ord sw y r r',
  (forall ks, (length (ord ks) <= length ks)%nat) ->
  load_rule o ic y = Ok r ->
  optimise o ord sw r = Ok r' ->
  forall d : doc, exists b, matches o r' d = Ok b.
Proof.
  intros o ic ord sw y r r' Hord Hl H d.
  destruct (sw_matrix sw) eqn:Em.
  2:{ exact (proj1 (optimised_no_matrix_evaluates o ic ord sw y r r' d Hl Em H)). }
  unfold optimise in H. destruct (r_optimised r).
  { inversion H; subst. exact (proj1 (C03.loaded_rule_evaluates o ic y r' d Hl)). }
  apply C03.bind_ok_inv in H. destruct H as (dt' & Hdt & H). inversion H; subst; clear H.
  cbn [r_det]. apply matches_of_solve. cbn [r_det].
  rewrite optimise_detection_stage in Hdt.
  destruct (no_matrix_stage_good o ord sw _ (load_good _ _ _ _ Hl)) as (s3 & Hs & [Gc Gi]).
  rewrite Hs, Em in Hdt. cbn [bind] in Hdt.
  apply C03.bind_ok_inv in Hdt. destruct Hdt as (e' & He' & Hdt).
  apply C03.bind_ok_inv in Hdt. destruct Hdt as (ids' & Hids' & Hdt). inversion Hdt; subst; clear Hdt.
  destruct (map_ids_inv _ _ _ Hids') as [Hfst HF2].
  unfold solve_rule3. cbn [d_expr d_ids]. apply solve_cond_m.
  - rewrite (gm_ext _ (keys_of (d_ids s3))).
    + exact (matrix_gm0 ord Hord _ _ false Gc (d18_sub_never ord false _) _ _ He').
    + intros i. unfold keys_of. apply has_key_fst. exact Hfst.
  - clear - HF2 Gi Hord. unfold gids in Gi.
    induction HF2 as [|kv kv' l l' Hkv _ IH]; constructor.
    + inversion Gi; subst.
      exact (entries_matrix_gm ord _ _ false Hord H1 (d18_sub_never ord false _) Hkv).
    + inversion Gi; subst. apply IH. assumption.
  - apply C03.npd_pure.
Qed.

(* ---- theorem 2: the optimised rule evaluates and validates ---- *)
Lemma optimised_evaluates_all : forall o ic ord sw y r r' (d : doc),
  (forall ks, (length (ord ks) <= length ks)%nat) ->
  load_rule o ic y = Ok r ->
  optimise o ord sw r = Ok r' ->
  (exists b, matches o r' d = Ok b) /\ (exists l, validate o r' = Ok l).
Proof.
  intros o ic ord sw y r r' d Hord Hl H.
  pose proof (optimised_matches_all o ic ord sw y r r' Hord Hl H) as Hm.
  split; [apply Hm|].
  unfold validate.
  destruct (C03.validate_list_ok o r' true Hm (r_tp r') 0%Z) as [a ->].
  destruct (C03.validate_list_ok o r' false Hm (r_tn r') 1000%Z) as [b ->].
  cbn [bind]. eexists; reflexivity.
Qed.

(* ---- theorem 3: the class D18/D19 is impossible since the repair ---- *)
Lemma known_d18_never : forall o ord sw dt, known_d18 o ord sw dt = false.
Proof. exact C03_matrix.known_d18_never. Qed.
