(* C13 / C12: validate() and map-order irrelevance of the optimised rule for every loadable rule
   outside the listed classes D13 / D16 / D17 (corollaries of C01_outside). *)
From Coq Require Import Permutation.
From TauModel Require Import Base Num Oracles Syntax Value Yaml Pratt ParseMap Solver Rule Keys Optimiser Known Order.
From TauProofs Require C01 C01_outside C13_opt C12_order.

Lemma validate_optimised_outside_classes : forall o ic ord sw y r,
  (forall l, Permutation (ord l) l) ->
  C01.H_strip o ->
  load_rule o ic y = Ok r -> r_optimised r = false ->
  known_d13 sw (r_det r) = false ->
  known_d16 ord sw (r_det r) = false ->
  known_d17 o ord sw (r_det r) = false ->
  exists r', optimise o ord sw r = Ok r' /\ validate o r' = validate o r.
Proof.
  intros o ic ord sw y r Hord Hs Hl Hopt H13 H16 H17.
  destruct (C01_outside.outside_listed_classes_sound o ic ord sw y r (fun _ => None) Hord Hs Hl Hopt H13 H16 H17) as [r' [Hr' _]].
  exists r'. split; [exact Hr'|].
  destruct (C13_opt.optimise_keeps_examples o ord sw r r' Hr') as [Hp Hn].
  apply C13_opt.validate_ext; [|exact Hp|exact Hn].
  intros d.
  destruct (C01_outside.outside_listed_classes_sound o ic ord sw y r d Hord Hs Hl Hopt H13 H16 H17) as [r2 [Hr2 Hm]].
  rewrite Hr' in Hr2. inversion Hr2; subst. exact Hm.
Qed.

Lemma crate_order_validate_optimised_outside_classes : forall o ic sw y r,
  C01.H_strip o ->
  load_rule o ic y = Ok r -> r_optimised r = false ->
  known_d13 sw (r_det r) = false ->
  known_d16 rust_ord sw (r_det r) = false ->
  known_d17 o rust_ord sw (r_det r) = false ->
  exists r', optimise o rust_ord sw r = Ok r' /\ validate o r' = validate o r.
Proof.
  intros o ic sw y r. apply validate_optimised_outside_classes. exact C12_order.rust_ord_perm.
Qed.

(* two map orders, the rule outside the classes for both: same verdicts, same validate() *)
Lemma optimise_order_irrelevant_outside_classes : forall o ic ord1 ord2 sw y r (d : doc),
  (forall l, Permutation (ord1 l) l) -> (forall l, Permutation (ord2 l) l) ->
  C01.H_strip o ->
  load_rule o ic y = Ok r -> r_optimised r = false ->
  known_d13 sw (r_det r) = false ->
  known_d16 ord1 sw (r_det r) = false -> known_d17 o ord1 sw (r_det r) = false ->
  known_d16 ord2 sw (r_det r) = false -> known_d17 o ord2 sw (r_det r) = false ->
  exists r1 r2, optimise o ord1 sw r = Ok r1 /\ optimise o ord2 sw r = Ok r2 /\
                matches o r1 d = matches o r2 d /\ validate o r1 = validate o r2.
Proof.
  intros o ic ord1 ord2 sw y r d H1 H2 Hs Hl Hopt H13 A16 A17 B16 B17.
  destruct (C01_outside.outside_listed_classes_sound o ic ord1 sw y r d H1 Hs Hl Hopt H13 A16 A17) as [r1 [E1 M1]].
  destruct (C01_outside.outside_listed_classes_sound o ic ord2 sw y r d H2 Hs Hl Hopt H13 B16 B17) as [r2 [E2 M2]].
  destruct (validate_optimised_outside_classes o ic ord1 sw y r H1 Hs Hl Hopt H13 A16 A17) as [r1' [E1' V1]].
  destruct (validate_optimised_outside_classes o ic ord2 sw y r H2 Hs Hl Hopt H13 B16 B17) as [r2' [E2' V2]].
  rewrite E1 in E1'. inversion E1'; subst r1'. rewrite E2 in E2'. inversion E2'; subst r2'.
  exists r1, r2. repeat split; try assumption.
  - rewrite M1, M2. reflexivity.
  - rewrite V1, V2. reflexivity.
Qed.
