(* C01 (third file): the merging pass shake_1 on nested-free trees: proofs.

   Proved exactly as stated in Properties/C01_shake1.v:
     shake1_keeps_flat, shake1_flat_example.

   FALSE as stated (witnesses evaluated with vm_compute), proved with extra hypotheses under
   the name <name>_alt:
     shake1_exact_flat  -> shake1_exact_flat_alt
         + (forall l, Permutation (ord l) l)   the hash order is a permutation (convention of
                                               C12.amap_iter_perm); `ord` ranges over ALL
                                               functions, one that drops keys drops the merged
                                               searches: shake1_exact_flat_refuted
         + C01.cmp_leaves e = true             wf_body says nothing about the operands of a
                                               comparison; shake_1 unwraps a one-member group
                                               there: shake1_exact_flat_refuted_cmp
     shake_exact_flat   -> shake_exact_flat_alt              + (forall l, Permutation (ord l) l)
         witness shake_exact_flat_refuted     (shx already makes comparison operands leaves)
     optimise_no_matrix_exact_flat -> optimise_no_matrix_exact_flat_alt
                                                             + (forall l, Permutation (ord l) l)
         witness optimise_no_matrix_exact_flat_refuted; every other hypothesis is kept as it is.
   Stronger forms (the hash order only has to KEEP every key: ord_keeps; any document that does
   not panic): shake1_exact_flat_keeps, shake_exact_flat_keeps,
   optimise_no_matrix_exact_flat_keeps.

   Method.  Part A: what the or-arm builds, as membership facts (the regrouped list contains
   exactly: the `any` searches, one search per needles key, one per patterns key, the rest).
   Part B: shape preservation.  Part C: on a document that does not panic an or-group is T iff
   some member is T, M iff all members are M; a merged search is T (defined) iff one of the
   searches merged into it is -- they share field and cast, hence the strings looked at.  All
   of Part C is done for conditions (solve_cond o ids, identifiers as leaves); bodies are the
   instance ids = [].  Part E ports C01.shake0_post to conditions (no nested blocks), which
   the whole-rule statement needs when coalesce is off. *)
From TauModel Require Import Base Num Oracles Syntax Value Solver Rule Keys Optimiser Known.
From Coq Require Import Lia ZArith ZifyBool List Bool Permutation.
Import ListNotations.
From TauProofs Require Import C01.
From TauProofs Require C03.

(* ====================================================================== *)
(*  Part 0: strings, insertion-ordered multimaps, hash order, sorting      *)
(* ====================================================================== *)

Lemma str_eqb_refl' : forall s, str_eqb s s = true.
Proof.
  induction s as [|x s IH]; cbn [str_eqb]; [reflexivity|].
  rewrite N.eqb_refl, IH. reflexivity.
Qed.

Lemma str_eqb_eq' : forall a b, str_eqb a b = true -> a = b.
Proof.
  induction a as [|x a IH]; intros [|y b] H; cbn [str_eqb] in H; try discriminate.
  - reflexivity.
  - apply andb_true_iff in H. destruct H as [Hx Hs].
    apply N.eqb_eq in Hx. rewrite Hx, (IH b Hs). reflexivity.
Qed.

(* the hash order never loses a key (every permutation does that) *)
Definition ord_keeps (ord : hord) : Prop := forall ks k, In k ks -> In k (ord ks).

Lemma perm_ord_keeps : forall ord, (forall l, Permutation (ord l) l) -> ord_keeps ord.
Proof.
  intros ord H ks k Hin. apply Permutation_in with (l := ks); [|exact Hin].
  apply Permutation_sym. apply H.
Qed.

Section AMap.
Context {V : Type}.

Definition push (m : list (key * list V)) (p : key * list V) : list (key * list V) :=
  amap_push (fst p) (snd p) m.

Lemma lookup_push : forall k k' (v : list V) m,
  lookup k (amap_push k' v m) =
  if str_eqb k k' then Some (match lookup k' m with Some vs => vs ++ v | None => v end)
  else lookup k m.
Proof.
  intros k k' v. induction m as [|[k0 vs] m IH].
  - cbn [amap_push lookup]. destruct (str_eqb k k'); reflexivity.
  - cbn [amap_push]. destruct (str_eqb k' k0) eqn:E0.
    + apply str_eqb_eq' in E0. subst k0. cbn [lookup]. rewrite str_eqb_refl'.
      destruct (str_eqb k k'); reflexivity.
    + cbn [lookup]. rewrite E0, IH.
      destruct (str_eqb k k0) eqn:E1; [|reflexivity].
      apply str_eqb_eq' in E1. subst k0.
      destruct (str_eqb k k') eqn:E2; [|reflexivity].
      apply str_eqb_eq' in E2. subst k'. rewrite str_eqb_refl' in E0. discriminate.
Qed.

Lemma amap_mono : forall ps m0 k vs0, lookup k m0 = Some vs0 ->
  exists vs', lookup k (fold_left push ps m0) = Some vs' /\ incl vs0 vs'.
Proof.
  induction ps as [|[k1 v1] ps IH]; intros m0 k vs0 H.
  - exists vs0. split; [exact H|apply incl_refl].
  - cbn [fold_left]. change (push m0 (k1, v1)) with (amap_push k1 v1 m0).
    destruct (str_eqb k k1) eqn:E.
    + apply str_eqb_eq' in E. subst k1.
      destruct (IH (amap_push k v1 m0) k (vs0 ++ v1)) as [vs' [H1 H2]].
      { rewrite lookup_push, str_eqb_refl', H. reflexivity. }
      exists vs'. split; [exact H1|]. intros x Hx. apply H2. apply in_or_app. left. exact Hx.
    + apply IH. rewrite lookup_push, E. exact H.
Qed.

Lemma amap_fwd : forall ps m0 k vs, In (k, vs) ps ->
  exists vs', lookup k (fold_left push ps m0) = Some vs' /\ incl vs vs'.
Proof.
  induction ps as [|[k1 v1] ps IH]; intros m0 k vs Hin; [destruct Hin|].
  cbn [fold_left]. change (push m0 (k1, v1)) with (amap_push k1 v1 m0).
  destruct Hin as [E|Hin].
  - injection E as -> ->.
    destruct (amap_mono ps (amap_push k vs m0) k
                (match lookup k m0 with Some vs0 => vs0 ++ vs | None => vs end)) as [vs' [H1 H2]].
    { rewrite lookup_push, str_eqb_refl'. reflexivity. }
    exists vs'. split; [exact H1|]. intros x Hx. apply H2.
    destruct (lookup k m0); [apply in_or_app; right|]; exact Hx.
  - apply IH. exact Hin.
Qed.

Lemma amap_bwd : forall ps m0 k vs', lookup k (fold_left push ps m0) = Some vs' ->
  ((exists vs0, lookup k m0 = Some vs0) \/ exists vs, In (k, vs) ps) /\
  forall v, In v vs' ->
    (exists vs0, lookup k m0 = Some vs0 /\ In v vs0) \/ exists vs, In (k, vs) ps /\ In v vs.
Proof.
  induction ps as [|[k1 v1] ps IH]; intros m0 k vs' H.
  - cbn [fold_left] in H. split; [left; eauto|]. intros v Hv. left. eauto.
  - cbn [fold_left] in H. change (push m0 (k1, v1)) with (amap_push k1 v1 m0) in H.
    destruct (IH _ _ _ H) as [H1 H2]. clear IH H. split.
    + destruct H1 as [[vs0 H1]|[vs H1]].
      * rewrite lookup_push in H1. destruct (str_eqb k k1) eqn:E.
        -- apply str_eqb_eq' in E. subst k1. right. exists v1. left. reflexivity.
        -- left. eauto.
      * right. exists vs. right. exact H1.
    + intros v Hv. destruct (H2 v Hv) as [[vs0 [H3 H4]]|[vs [H3 H4]]].
      * rewrite lookup_push in H3. destruct (str_eqb k k1) eqn:E.
        -- apply str_eqb_eq' in E. subst k1. injection H3 as <-.
           destruct (lookup k m0) as [vs1|] eqn:E1.
           ++ apply in_app_or in H4. destruct H4 as [H4|H4].
              ** left. eauto.
              ** right. exists v1. split; [left; reflexivity|exact H4].
           ++ right. exists v1. split; [left; reflexivity|exact H4].
        -- left. eauto.
      * right. exists vs. split; [right; exact H3|exact H4].
Qed.

Lemma amap_iter_In : forall ord (m : list (key * list V)) k vs,
  In (k, vs) (amap_iter ord m) -> lookup k m = Some vs.
Proof.
  intros ord m k vs H. unfold amap_iter in H. apply in_flat_map in H.
  destruct H as [k0 [_ H]]. destruct (lookup k0 m) as [vs0|] eqn:E; [|destruct H].
  destruct H as [H|[]]. injection H as <- <-. exact E.
Qed.

Lemma lookup_In_fst : forall (m : list (key * list V)) k vs,
  lookup k m = Some vs -> In k (map fst m).
Proof.
  induction m as [|[k0 v0] m IH]; intros k vs H; [discriminate|].
  cbn [lookup] in H. cbn [map fst]. destruct (str_eqb k k0) eqn:E.
  - left. symmetry. apply str_eqb_eq'. exact E.
  - right. eapply IH. exact H.
Qed.

Lemma amap_iter_keeps : forall ord (m : list (key * list V)) k vs,
  ord_keeps ord -> lookup k m = Some vs -> In (k, vs) (amap_iter ord m).
Proof.
  intros ord m k vs Hord H. unfold amap_iter. apply in_flat_map. exists k. split.
  - apply Hord. eapply lookup_In_fst. exact H.
  - rewrite H. left. reflexivity.
Qed.

Lemma amap_iter_nil : forall ord, amap_iter ord (@nil (key * list V)) = [].
Proof.
  intros ord. unfold amap_iter. cbn [map].
  induction (ord []) as [|k l IH]; [reflexivity|]. cbn [flat_map lookup app]. exact IH.
Qed.
End AMap.

(* sort_by only reorders *)
Lemma insert_by_In : forall {A} (lt : A -> A -> bool) x y l,
  In y (insert_by lt x l) <-> y = x \/ In y l.
Proof.
  intros A lt x y. induction l as [|z l IH]; cbn [insert_by].
  - cbn [In]. split; intros [H|H]; auto; try contradiction.
  - destruct (lt x z); cbn [In].
    + split; intros [H|H]; auto.
    + rewrite IH. split; intros H; decompose [or] H; auto.
Qed.

Lemma sort_by_In : forall {A} (lt : A -> A -> bool) y l,
  In y (sort_by lt l) <-> In y l.
Proof.
  intros A lt y l. unfold sort_by.
  enough (H : forall acc, In y (fold_left (fun acc x => insert_by lt x acc) l acc) <-> In y acc \/ In y l).
  { rewrite H. cbn [In]. tauto. }
  induction l as [|x l IH]; intros acc; cbn [fold_left].
  - cbn [In]. tauto.
  - rewrite IH, insert_by_In. cbn [In]. split; intros H; decompose [or] H; auto.
Qed.

(* ====================================================================== *)
(*  Part A: what the or-arm of shake_1 builds                              *)
(* ====================================================================== *)

Definition search_of_mt (m : mtype) : Syntax.search :=
  match m with
  | MTContains v => SContains v | MTEndsWith v => SEndsWith v
  | MTExact v => SExact v | MTStartsWith v => SStartsWith v
  end.

(* the search a needles entry is re-emitted as *)
Definition needle_expr (kv : key * list mtype) : expr :=
  match key3_ci (fst kv), snd kv with
  | false, [m] => ESearch (search_of_mt m) (key3_field (fst kv)) (key3_cast (fst kv))
  | _, _ => ESearch (SAho (snd kv) (key3_ci (fst kv))) (key3_field (fst kv)) (key3_cast (fst kv))
  end.

Definition in_buckets (y : expr) (b : buckets) : Prop :=
  In y (b_exact b) \/ In y (b_starts b) \/ In y (b_ends b) \/ In y (b_contains b) \/ In y (b_aho b).

Lemma needle_bucket_In : forall y b kv,
  in_buckets y (needle_bucket b kv) <-> in_buckets y b \/ y = needle_expr kv.
Proof.
  intros y b [k ms]. unfold needle_bucket, needle_expr, in_buckets. cbn [fst snd].
  destruct (key3_ci k); destruct ms as [|m [|m2 ms]]; try destruct m;
    cbn [b_exact b_starts b_ends b_contains b_aho search_of_mt];
    rewrite ?in_app_iff; cbn [In];
    (split; intros H; decompose [or] H; auto 10; try contradiction).
Qed.

Lemma buckets_In : forall y kvs b0,
  in_buckets y (fold_left needle_bucket kvs b0) <-> in_buckets y b0 \/ In y (map needle_expr kvs).
Proof.
  intros y. induction kvs as [|kv kvs IH]; intros b0; cbn [fold_left map In].
  - tauto.
  - rewrite IH, needle_bucket_In. split; intros H; decompose [or] H; auto.
Qed.

Lemma buckets0_In : forall y kvs,
  in_buckets y (fold_left needle_bucket kvs buckets0) <-> In y (map needle_expr kvs).
Proof.
  intros y kvs. rewrite buckets_In. unfold in_buckets. cbn [buckets0 b_exact b_starts b_ends b_contains b_aho In].
  tauto.
Qed.

(* the search a patterns entry is re-emitted as *)
Definition pat_expr (kv : key * list str) : expr :=
  match snd kv with
  | [p] => ESearch (SRegex p (key3_ci (fst kv))) (key3_field (fst kv)) (key3_cast (fst kv))
  | _ => ESearch (SRegexSet (snd kv) (key3_ci (fst kv))) (key3_field (fst kv)) (key3_cast (fst kv))
  end.

Lemma patterns_In : forall y kvs,
  In y (flat_map fst (map pattern_exprs kvs)) \/ In y (flat_map snd (map pattern_exprs kvs))
  <-> In y (map pat_expr kvs).
Proof.
  intros y. induction kvs as [|[k ps] kvs IH]; cbn [map flat_map In].
  - tauto.
  - rewrite !in_app_iff, <- IH. unfold pattern_exprs, pat_expr. cbn [fst snd].
    destruct ps as [|p [|p2 ps]]; cbn [fst snd In];
      (split; intros H; decompose [or] H; auto 10; try contradiction).
Qed.

(* the classes of the first loop *)
Definition cls_n (x : expr) : list (key * list mtype) :=
  match x with
  | ESearch (SAho ctx ci) f cast => [(key3 f cast ci, ctx)]
  | ESearch s f cast =>
      match mt_of_search s with Some m => [(key3 f cast false, [m])] | None => [] end
  | _ => []
  end.
Definition cls_p (x : expr) : list (key * list str) :=
  match x with
  | ESearch (SRegex r ci) f cast => [(key3 f cast ci, [r])]
  | ESearch (SRegexSet rs ci) f cast => [(key3 f cast ci, rs)]
  | _ => []
  end.
Definition is_any (x : expr) : bool := match x with ESearch SAny _ _ => true | _ => false end.
Definition is_rest (x : expr) : bool :=
  match x with ESearch _ _ _ => false | ENested _ inner => is_all_match inner | _ => true end.
(* a nested block that the pass merges (fix D29: not one whose body is an all() list) *)
Definition is_nest (x : expr) : bool :=
  match x with ENested _ inner => negb (is_all_match inner) | _ => false end.
Definition srch (x : expr) : bool := match x with ESearch _ _ _ => true | _ => false end.

Lemma classify_step : forall a0 x,
  oa_needles (or_classify a0 x) = fold_left push (cls_n x) (oa_needles a0) /\
  oa_patterns (or_classify a0 x) = fold_left push (cls_p x) (oa_patterns a0) /\
  oa_any (or_classify a0 x) = oa_any a0 ++ (if is_any x then [x] else []) /\
  oa_rest (or_classify a0 x) = oa_rest a0 ++ (if is_rest x then [x] else []) /\
  (is_nest x = false -> oa_nested (or_classify a0 x) = oa_nested a0).
Proof.
  intros a0 x. destruct x as [s l|l s r|b|f m|f|z|i|z|k e|cols rows|e|f e| |s f c];
    try destruct s; try destruct (is_all_match e) eqn:Eam;
    cbn [or_classify mt_of_search cls_n cls_p is_any is_rest is_nest fold_left push fst snd
         oa_needles oa_patterns oa_any oa_rest oa_nested];
    rewrite ?Eam; cbn [negb oa_needles oa_patterns oa_any oa_rest oa_nested];
    rewrite ?app_nil_r; repeat split; try reflexivity; try discriminate.
Qed.

Lemma classify_spec : forall L a0,
  oa_needles (fold_left or_classify L a0) = fold_left push (flat_map cls_n L) (oa_needles a0) /\
  oa_patterns (fold_left or_classify L a0) = fold_left push (flat_map cls_p L) (oa_patterns a0) /\
  oa_any (fold_left or_classify L a0) = oa_any a0 ++ filter is_any L /\
  oa_rest (fold_left or_classify L a0) = oa_rest a0 ++ filter is_rest L /\
  (existsb is_nest L = false -> oa_nested (fold_left or_classify L a0) = oa_nested a0).
Proof.
  induction L as [|x L IH]; intros a0; cbn [fold_left flat_map filter existsb].
  - rewrite !app_nil_r. repeat split; reflexivity.
  - destruct (IH (or_classify a0 x)) as [H1 [H2 [H3 [H4 H5]]]].
    destruct (classify_step a0 x) as [S1 [S2 [S3 [S4 S5]]]].
    rewrite H1, H2, H3, H4, S1, S2, S3, S4, !fold_left_app, <- !app_assoc.
    repeat split; try reflexivity.
    + destruct (is_any x); reflexivity.
    + destruct (is_rest x); reflexivity.
    + intros Hn. apply orb_false_iff in Hn. destruct Hn as [Hx HL].
      rewrite (H5 HL). apply S5. exact Hx.
Qed.

Definition needles_of (L : list expr) : list (key * list mtype) :=
  fold_left push (flat_map cls_n L) [].
Definition patterns_of (L : list expr) : list (key * list str) :=
  fold_left push (flat_map cls_p L) [].

(* the regrouped member list, without the nested part *)
Definition or_scratch (ord : hord) (shaken : list expr) : list expr :=
  let a := fold_left or_classify shaken oracc0 in
  let b := fold_left needle_bucket (amap_iter ord (oa_needles a)) buckets0 in
  let pats := map pattern_exprs (amap_iter ord (oa_patterns a)) in
  oa_any a ++ sort_by len_lt (b_exact b) ++ sort_by len_lt (b_starts b)
       ++ sort_by len_lt (b_ends b) ++ sort_by len_lt (b_contains b)
       ++ sort_by aho_lt (b_aho b) ++ sort_by regex_lt (flat_map fst pats)
       ++ sort_by regexset_lt (flat_map snd pats) ++ oa_rest a.

Lemma or_scratch_In : forall ord L y,
  In y (or_scratch ord L) <->
  (In y L /\ is_any y = true) \/
  In y (map needle_expr (amap_iter ord (needles_of L))) \/
  In y (map pat_expr (amap_iter ord (patterns_of L))) \/
  (In y L /\ is_rest y = true).
Proof.
  intros ord L y. unfold or_scratch.
  destruct (classify_spec L oracc0) as [H1 [H2 [H3 [H4 _]]]].
  cbn [oracc0 oa_needles oa_patterns oa_any oa_rest app] in H1, H2, H3, H4.
  rewrite H1, H2, H3, H4. fold (needles_of L). fold (patterns_of L).
  rewrite !in_app_iff, !sort_by_In, !filter_In.
  rewrite <- (buckets0_In y (amap_iter ord (needles_of L))).
  rewrite <- (patterns_In y (amap_iter ord (patterns_of L))).
  unfold in_buckets.
  split; intros H; decompose [or] H; clear H; auto 12.
Qed.

Lemma needle_expr_srch : forall kv, srch (needle_expr kv) = true.
Proof.
  intros [k ms]. unfold needle_expr. cbn [fst snd].
  destruct (key3_ci k); destruct ms as [|m [|m2 ms]]; reflexivity.
Qed.
Lemma pat_expr_srch : forall kv, srch (pat_expr kv) = true.
Proof. intros [k ps]. unfold pat_expr. cbn [fst snd]. destruct ps as [|p [|p2 ps]]; reflexivity. Qed.

Lemma or_scratch_members : forall ord L y, In y (or_scratch ord L) -> srch y = true \/ In y L.
Proof.
  intros ord L y H. apply or_scratch_In in H.
  destruct H as [[H _]|[H|[H|[H _]]]]; auto.
  - apply in_map_iff in H. destruct H as [kv [<- _]]. left. apply needle_expr_srch.
  - apply in_map_iff in H. destruct H as [kv [<- _]]. left. apply pat_expr_srch.
Qed.

(* ---- one step of shake_1 on nested-free members ---- *)
Lemma nn_not_nest : forall x, no_nested x = true -> is_nest x = false.
Proof. intros x H. destruct x; try reflexivity. discriminate. Qed.

Lemma existsb_nest_false : forall L, (forall x, In x L -> no_nested x = true) -> existsb is_nest L = false.
Proof.
  induction L as [|x L IH]; intros H; [reflexivity|]. cbn [existsb].
  rewrite (nn_not_nest x (H x (or_introl eq_refl))). cbn [orb].
  apply IH. intros y Hy. apply H. right. exact Hy.
Qed.

Lemma shake1_or_eq : forall ord fu l,
  (forall x, In x (map (shake1 ord fu) l) -> no_nested x = true) ->
  shake1 ord (S fu) (EGroup BOr l) =
  (let scratch := or_scratch ord (map (shake1 ord fu) l) in
   if negb (length scratch =? length l)%nat then shake1 ord fu (EGroup BOr scratch)
   else match scratch with [x] => x | _ => EGroup BOr scratch end).
Proof.
  intros ord fu l Hnn. cbn [shake1]. cbv zeta. unfold or_scratch.
  set (a := fold_left or_classify (map (shake1 ord fu) l) oracc0).
  assert (Hn : oa_nested a = []).
  { destruct (classify_spec (map (shake1 ord fu) l) oracc0) as [_ [_ [_ [_ H5]]]].
    apply H5. apply existsb_nest_false. exact Hnn. }
  rewrite Hn, amap_iter_nil. cbn [map]. rewrite !app_nil_r. reflexivity.
Qed.

Lemma fold_nested_none : forall L m0, existsb is_nest L = false ->
  fold_left (fun m x => match x with
                        | ENested f inner => if is_all_match inner then m else amap_push f [inner] m
                        | _ => m
                        end) L m0 = m0.
Proof.
  induction L as [|x L IH]; intros m0 H; [reflexivity|]. cbn [existsb] in H.
  apply orb_false_iff in H. destruct H as [Hx HL]. cbn [fold_left].
  destruct x; try (apply IH; exact HL).
  cbn [is_nest] in Hx. apply negb_false_iff in Hx. rewrite Hx. apply IH. exact HL.
Qed.

Lemma filter_plain_all : forall L, existsb is_nest L = false ->
  filter (fun x => match x with ENested _ inner => is_all_match inner | _ => true end) L = L.
Proof.
  induction L as [|x L IH]; intros H; [reflexivity|]. cbn [existsb] in H.
  apply orb_false_iff in H. destruct H as [Hx HL]. cbn [filter].
  destruct x; try (rewrite (IH HL); reflexivity).
  cbn [is_nest] in Hx. apply negb_false_iff in Hx. rewrite Hx, (IH HL). reflexivity.
Qed.

Lemma shake1_and_eq : forall ord fu l,
  (forall x, In x (map (shake1 ord fu) l) -> no_nested x = true) ->
  shake1 ord (S fu) (EGroup BAnd l) =
  (let L := map (shake1 ord fu) l in match L with [x] => x | _ => EGroup BAnd L end).
Proof.
  intros ord fu l Hnn. cbn [shake1]. cbv zeta.
  pose proof (existsb_nest_false _ Hnn) as Hn.
  rewrite (fold_nested_none _ [] Hn), (filter_plain_all _ Hn), amap_iter_nil.
  cbn [map]. rewrite app_nil_r, map_length, Nat.eqb_refl. cbn [negb].
  destruct (map (shake1 ord fu) l) as [|x [|x2 L]]; reflexivity.
Qed.

Lemma shake1_group_other : forall ord fu s l, is_and_or s = false ->
  shake1 ord (S fu) (EGroup s l) = EGroup s (map (shake1 ord fu) l).
Proof. intros ord fu s l H. destruct s; try discriminate; reflexivity. Qed.

Lemma shake1_leaf : forall ord fuel e, is_solvable e = false -> shake1 ord fuel e = e.
Proof. intros ord [|fu] e H; destruct e; try discriminate; reflexivity. Qed.

Lemma shake1_search : forall ord fuel s f c, shake1 ord fuel (ESearch s f c) = ESearch s f c.
Proof. intros ord [|fu] s f c; reflexivity. Qed.

(* ====================================================================== *)
(*  Part B: shake_1 keeps the shape (any hash order)                       *)
(* ====================================================================== *)

Lemma collapse_ok : forall (P : expr -> bool) s L,
  (forall x, In x L -> P x = true) -> P (EGroup s L) = true ->
  P (match L with [x] => x | _ => EGroup s L end) = true.
Proof.
  intros P s L H HG. destruct L as [|x [|x2 L]]; try exact HG.
  apply H. left. reflexivity.
Qed.

Lemma forallb_map_intro : forall (P : expr -> bool) (f : expr -> expr) l,
  (forall x, In x l -> P (f x) = true) -> forallb P (map f l) = true.
Proof.
  intros P f l H. apply forallb_forall. intros y Hy. apply in_map_iff in Hy.
  destruct Hy as [x [<- Hx]]. apply H. exact Hx.
Qed.

Lemma srch_shape : forall y, srch y = true ->
  no_nested y = true /\ wf_body y = true /\ cmp_leaves y = true.
Proof. intros y H. destruct y; try discriminate. repeat split; reflexivity. Qed.

Lemma shake1_keeps3 : forall ord fuel e, no_nested e = true ->
  no_nested (shake1 ord fuel e) = true /\
  (wf_body e = true -> wf_body (shake1 ord fuel e) = true) /\
  (cmp_leaves e = true -> cmp_leaves (shake1 ord fuel e) = true).
Proof.
  intros ord. induction fuel as [|fu IH]; intros e Hnn; [cbn [shake1]; auto|].
  destruct e as [s l|l s r|b|f m|f|z|i|z|k e|cols rows|e|f e| |s f c];
    try (cbn [shake1]; auto; fail).
  - (* EGroup *)
    cbn [no_nested] in Hnn.
    assert (Hm : forall x, In x l -> no_nested (shake1 ord fu x) = true /\
                  (wf_body x = true -> wf_body (shake1 ord fu x) = true) /\
                  (cmp_leaves x = true -> cmp_leaves (shake1 ord fu x) = true)).
    { intros x Hx. apply IH. apply (forallb_In _ _ _ Hnn Hx). }
    set (L := map (shake1 ord fu) l).
    assert (HLnn : forall y, In y L -> no_nested y = true).
    { intros y Hy. apply in_map_iff in Hy. destruct Hy as [x [<- Hx]]. apply (Hm x Hx). }
    assert (HLwf : wf_body (EGroup s l) = true -> forall y, In y L -> wf_body y = true).
    { intros Hw y Hy. apply in_map_iff in Hy. destruct Hy as [x [<- Hx]].
      cbn [wf_body] in Hw. apply andb_true_iff in Hw. destruct Hw as [_ Hw].
      apply (Hm x Hx). apply (forallb_In _ _ _ Hw Hx). }
    assert (HLcl : cmp_leaves (EGroup s l) = true -> forall y, In y L -> cmp_leaves y = true).
    { intros Hw y Hy. apply in_map_iff in Hy. destruct Hy as [x [<- Hx]].
      cbn [cmp_leaves] in Hw. apply (Hm x Hx). apply (forallb_In _ _ _ Hw Hx). }
    assert (Hgrp : forall L', (forall y, In y L' -> srch y = true \/ In y L) ->
              no_nested (EGroup s L') = true /\
              (wf_body (EGroup s l) = true -> wf_body (EGroup s L') = true) /\
              (cmp_leaves (EGroup s l) = true -> cmp_leaves (EGroup s L') = true)).
    { intros L' HL'. split; [|split].
      - cbn [no_nested]. apply forallb_forall. intros y Hy.
        destruct (HL' y Hy) as [Hs|Hin]; [apply (srch_shape y Hs)|apply HLnn; exact Hin].
      - intros Hw. pose proof (HLwf Hw) as HLw. cbn [wf_body] in *.
        apply andb_true_iff in Hw. destruct Hw as [Hs _]. rewrite Hs. cbn [andb].
        apply forallb_forall. intros y Hy.
        destruct (HL' y Hy) as [Hs'|Hin]; [apply (srch_shape y Hs')|apply HLw; exact Hin].
      - intros Hw. pose proof (HLcl Hw) as HLc. cbn [cmp_leaves].
        apply forallb_forall. intros y Hy.
        destruct (HL' y Hy) as [Hs'|Hin]; [apply (srch_shape y Hs')|apply HLc; exact Hin]. }
    assert (Hmem : forall L', (forall y, In y L' -> srch y = true \/ In y L) ->
              forall y, In y L' -> no_nested y = true /\
                 (wf_body (EGroup s l) = true -> wf_body y = true) /\
                 (cmp_leaves (EGroup s l) = true -> cmp_leaves y = true)).
    { intros L' HL' y Hy. destruct (HL' y Hy) as [Hs|Hin].
      - destruct (srch_shape y Hs) as [A [B C]]. auto.
      - split; [apply HLnn; exact Hin|]. split; intros Hw; [apply (HLwf Hw)|apply (HLcl Hw)]; exact Hin. }
    assert (Hcollapse : forall L', (forall y, In y L' -> srch y = true \/ In y L) ->
              no_nested (match L' with [x] => x | _ => EGroup s L' end) = true /\
              (wf_body (EGroup s l) = true -> wf_body (match L' with [x] => x | _ => EGroup s L' end) = true) /\
              (cmp_leaves (EGroup s l) = true -> cmp_leaves (match L' with [x] => x | _ => EGroup s L' end) = true)).
    { intros L' HL'. destruct (Hgrp L' HL') as [G1 [G2 G3]]. pose proof (Hmem L' HL') as HM.
      split; [|split].
      - apply collapse_ok; [|exact G1]. intros y Hy. apply (HM y Hy).
      - intros Hw. apply collapse_ok; [|exact (G2 Hw)]. intros y Hy. apply (HM y Hy). exact Hw.
      - intros Hw. apply collapse_ok; [|exact (G3 Hw)]. intros y Hy. apply (HM y Hy). exact Hw. }
    destruct (is_and_or s) eqn:Hs.
    + destruct s; try discriminate.
      * (* and *)
        rewrite shake1_and_eq by exact HLnn. fold L. cbv zeta.
        apply Hcollapse. intros y Hy. right. exact Hy.
      * (* or *)
        rewrite shake1_or_eq by exact HLnn. fold L. cbv zeta.
        pose proof (or_scratch_members ord L) as HS.
        destruct (negb (length (or_scratch ord L) =? length l)%nat).
        -- destruct (Hgrp _ HS) as [G1 [G2 G3]].
           destruct (IH (EGroup BOr (or_scratch ord L)) G1) as [I1 [I2 I3]].
           split; [exact I1|]. split; intros Hw; [apply I2, G2|apply I3, G3]; exact Hw.
        -- apply Hcollapse. exact HS.
    + rewrite shake1_group_other by exact Hs. fold L.
      apply Hgrp. intros y Hy. right. exact Hy.
  - (* EBexp *)
    cbn [shake1]. cbn [no_nested] in Hnn. apply andb_true_iff in Hnn. destruct Hnn as [Hl Hr].
    destruct (IH l Hl) as [L1 [L2 L3]]. destruct (IH r Hr) as [R1 [R2 R3]].
    split; [|split].
    + cbn [no_nested]. rewrite L1, R1. reflexivity.
    + cbn [wf_body]. destruct (is_and_or_op s); [|reflexivity].
      intros Hw. apply andb_true_iff in Hw. destruct Hw as [Hwl Hwr].
      rewrite (L2 Hwl), (R2 Hwr). reflexivity.
    + cbn [cmp_leaves]. destruct (is_and_or s).
      * intros Hw. apply andb_true_iff in Hw. destruct Hw as [Hwl Hwr].
        rewrite (L3 Hwl), (R3 Hwr). reflexivity.
      * intros Hw. apply andb_true_iff in Hw. destruct Hw as [Hwl Hwr].
        apply negb_true_iff in Hwl. apply negb_true_iff in Hwr.
        rewrite (shake1_leaf ord fu l Hwl), (shake1_leaf ord fu r Hwr), Hwl, Hwr. reflexivity.
  - (* EMatch *)
    cbn [no_nested] in Hnn.
    destruct e as [s l|l s r|b|f m|f|z|i|z|k0 e|cols rows|e|f e| |s f c];
      try (cbn [shake1]; exact (IH _ Hnn)).
    cbn [shake1]. cbn [no_nested wf_body cmp_leaves] in *.
    assert (Hm : forall x, In x l -> no_nested (shake1 ord fu x) = true /\
                  (wf_body x = true -> wf_body (shake1 ord fu x) = true) /\
                  (cmp_leaves x = true -> cmp_leaves (shake1 ord fu x) = true)).
    { intros x Hx. apply IH. apply (forallb_In _ _ _ Hnn Hx). }
    split; [|split].
    + apply forallb_map_intro. intros x Hx. apply (Hm x Hx).
    + intros Hw. apply andb_true_iff in Hw. destruct Hw as [Hs Hw]. rewrite Hs. cbn [andb].
      apply forallb_map_intro. intros x Hx. apply (Hm x Hx). apply (forallb_In _ _ _ Hw Hx).
    + intros Hw. apply forallb_map_intro. intros x Hx. apply (Hm x Hx). apply (forallb_In _ _ _ Hw Hx).
  - (* ENegate *)
    cbn [shake1]. cbn [no_nested wf_body cmp_leaves] in *. apply IH. exact Hnn.
  - (* ENested *)
    discriminate Hnn.
Qed.

Lemma shake1_keeps_flat : forall ord fuel e,
  wf_body e = true -> C01.no_nested e = true ->
  wf_body (shake1 ord fuel e) = true /\ C01.no_nested (shake1 ord fuel e) = true.
Proof.
  intros ord fuel e Hw Hn. destruct (shake1_keeps3 ord fuel e Hn) as [H1 [H2 _]]. auto.
Qed.

Lemma shake1_ident : forall ord fuel i, shake1 ord fuel (EIdent i) = EIdent i.
Proof. intros ord [|fu] i; reflexivity. Qed.

Lemma srch_wfc : forall ids y, srch y = true -> wf_cond ids y = true.
Proof. intros ids y H. destruct y; try discriminate. reflexivity. Qed.

(* ... and, on conditions, the known identifiers *)
Lemma shake1_keeps_wfc : forall ord ids fuel e,
  no_nested e = true -> wf_cond ids e = true -> wf_cond ids (shake1 ord fuel e) = true.
Proof.
  intros ord ids. induction fuel as [|fu IH]; intros e Hnn Hw; [exact Hw|].
  destruct e as [s l|l s r|b|f m|f|z|i|z|k e|cols rows|e|f e| |s f c];
    try (cbn [shake1]; exact Hw).
  - (* EGroup *)
    cbn [no_nested] in Hnn. cbn [wf_cond] in Hw. apply andb_true_iff in Hw. destruct Hw as [Hs Hw].
    set (L := map (shake1 ord fu) l).
    assert (HLnn : forall y, In y L -> no_nested y = true).
    { intros y Hy. apply in_map_iff in Hy. destruct Hy as [x [<- Hx]].
      apply (shake1_keeps3 ord fu x). apply (forallb_In _ _ _ Hnn Hx). }
    assert (HLw : forall y, In y L -> wf_cond ids y = true).
    { intros y Hy. apply in_map_iff in Hy. destruct Hy as [x [<- Hx]].
      apply IH; [apply (forallb_In _ _ _ Hnn Hx)|apply (forallb_In _ _ _ Hw Hx)]. }
    assert (Hgrp : forall L', (forall y, In y L' -> srch y = true \/ In y L) ->
              no_nested (EGroup s L') = true /\ wf_cond ids (EGroup s L') = true).
    { intros L' HL'. split.
      - cbn [no_nested]. apply forallb_forall. intros y Hy.
        destruct (HL' y Hy) as [H|H]; [apply (srch_shape y H)|apply HLnn; exact H].
      - cbn [wf_cond]. rewrite Hs. cbn [andb]. apply forallb_forall. intros y Hy.
        destruct (HL' y Hy) as [H|H]; [apply srch_wfc; exact H|apply HLw; exact H]. }
    assert (Hcollapse : forall L', (forall y, In y L' -> srch y = true \/ In y L) ->
              wf_cond ids (match L' with [x] => x | _ => EGroup s L' end) = true).
    { intros L' HL'. apply collapse_ok; [|apply Hgrp; exact HL']. intros y Hy.
      destruct (HL' y Hy) as [H|H]; [apply srch_wfc; exact H|apply HLw; exact H]. }
    destruct s; try discriminate Hs.
    + rewrite shake1_and_eq by exact HLnn. fold L. cbv zeta.
      apply Hcollapse. intros y Hy. right. exact Hy.
    + rewrite shake1_or_eq by exact HLnn. fold L. cbv zeta.
      pose proof (or_scratch_members ord L) as HS.
      destruct (negb (length (or_scratch ord L) =? length l)%nat).
      * destruct (Hgrp _ HS) as [G1 G2]. apply IH; assumption.
      * apply Hcollapse. exact HS.
  - (* EBexp *)
    cbn [shake1]. cbn [no_nested] in Hnn. apply andb_true_iff in Hnn. destruct Hnn as [Hl Hr].
    cbn [wf_cond] in *. destruct (is_and_or_op s); [|reflexivity].
    apply andb_true_iff in Hw. destruct Hw as [Hwl Hwr].
    rewrite (IH l Hl Hwl), (IH r Hr Hwr). reflexivity.
  - (* EMatch *)
    cbn [no_nested] in Hnn. cbn [wf_cond] in Hw.
    destruct e as [s l|l s r|b|f m|f|z|i|z|k0 e|cols rows|e|f e| |s f c];
      try (cbn [shake1]; exact (IH _ Hnn Hw)).
    cbn [shake1]. cbn [no_nested wf_cond] in *.
    apply andb_true_iff in Hw. destruct Hw as [Hs Hw]. rewrite Hs. cbn [andb].
    apply forallb_map_intro. intros x Hx.
    apply IH; [apply (forallb_In _ _ _ Hnn Hx)|apply (forallb_In _ _ _ Hw Hx)].
  - (* ENegate *)
    cbn [shake1]. cbn [no_nested wf_cond] in *. apply IH; assumption.
  - (* ENested *)
    discriminate Hnn.
Qed.

(* ====================================================================== *)
(*  Part C: three-valued exactness                                         *)
(* ====================================================================== *)

Lemma key3_field_eq : forall f cast ci, key3_field (key3 f cast ci) = f.
Proof. reflexivity. Qed.
Lemma key3_cast_eq : forall f cast ci, key3_cast (key3 f cast ci) = cast.
Proof. intros f [|] ci; reflexivity. Qed.
Lemma key3_ci_eq : forall f cast ci, key3_ci (key3 f cast ci) = ci.
Proof. intros f cast [|]; reflexivity. Qed.

Lemma existsb_eq_iff : forall {A} (p : A -> bool) l l',
  ((exists x, In x l /\ p x = true) <-> (exists x, In x l' /\ p x = true)) ->
  existsb p l = existsb p l'.
Proof.
  intros A p l l' H. destruct (existsb p l) eqn:E1; destruct (existsb p l') eqn:E2; try reflexivity.
  - apply existsb_exists in E1. apply H in E1. apply existsb_exists in E1. congruence.
  - apply existsb_exists in E2. apply H in E2. apply existsb_exists in E2. congruence.
Qed.

Lemma Forall2_map_l : forall {A B} (R : B -> A -> Prop) (f : A -> B) l,
  (forall x, In x l -> R (f x) x) -> Forall2 R (map f l) l.
Proof.
  intros A B R f. induction l as [|x l IH]; intros H; cbn [map]; constructor.
  - apply H. left. reflexivity.
  - apply IH. intros y Hy. apply H. right. exact Hy.
Qed.

Lemma cls_total : forall x,
  is_nest x = true \/ is_any x = true \/ is_rest x = true \/
  (exists kv, In kv (cls_n x)) \/ (exists kv, In kv (cls_p x)).
Proof.
  intros x. destruct x as [s l|l s r|b|f m|f|z|i|z|k e|cols rows|e|f e| |s f c]; cbn; auto.
  - destruct (is_all_match e); cbn; auto.
  - destruct s; cbn; eauto 8.
Qed.

Lemma shake1_other_q : forall ord fuel e, other_q e = true -> other_q (shake1 ord fuel e) = true.
Proof.
  intros ord [|fu] e H; [exact H|].
  destruct e as [s l|l s r|b|f m|f|z|i|z|k e|cols rows|e|f e| |s f c]; try discriminate;
    cbn [shake1]; try reflexivity.
  destruct e; reflexivity.
Qed.

(* ---- unfolding equations of the solver, any identifier table ---- *)
Section CondEq.
Variable o : oracles.
Variable ids : list (str * expr).
Local Notation slv := (solve_cond o ids).

Lemma cs_group_and : forall g d,
  slv (EGroup BAnd g) d = and_fold (map (fun x (_ : unit) => slv x d) g).
Proof. reflexivity. Qed.
Lemma cs_group_or : forall g d,
  slv (EGroup BOr g) d = or_fold M (map (fun x (_ : unit) => slv x d) g).
Proof. reflexivity. Qed.
Lemma cs_bexp_and : forall l r d,
  slv (EBexp l BAnd r) d = and2 (fun _ => slv l d) (fun _ => slv r d).
Proof. reflexivity. Qed.
Lemma cs_bexp_or : forall l r d,
  slv (EBexp l BOr r) d = or2 (fun _ => slv l d) (fun _ => slv r d).
Proof. reflexivity. Qed.
Lemma cs_negate : forall e d, slv (ENegate e) d = (do r <- slv e d; Ok (neg3 r)).
Proof. reflexivity. Qed.
Lemma cs_all_group : forall s g d,
  slv (EMatch MAll (EGroup s g)) d = and_fold (map (fun x (_ : unit) => slv x d) g).
Proof. reflexivity. Qed.
Lemma cs_of_group : forall n s g d,
  slv (EMatch (MOf n) (EGroup s g)) d = of_fold n (map (fun x (_ : unit) => slv x d) g).
Proof. reflexivity. Qed.
Lemma cs_all_other : forall e d, other_q e = true -> slv (EMatch MAll e) d = slv e d.
Proof. intros e d H. destruct e; try discriminate; reflexivity. Qed.
Lemma cs_of_other : forall n e d, other_q e = true ->
  slv (EMatch (MOf n) e) d =
  if (n =? 0)%Z then (do r <- slv e d; Ok (match r with T => F | F => T | M => M end))
  else (do r <- slv e d; Ok (match r with T => if (1 <? n)%Z then F else T | x => x end)).
Proof. intros n e d H. destruct e; try discriminate; reflexivity. Qed.

Lemma cs_group_single : forall s y d, is_and_or s = true -> slv (EGroup s [y]) d = slv y d.
Proof.
  intros s y d Hs. destruct s; try discriminate.
  - rewrite cs_group_and. cbn [map]. apply and_single.
  - rewrite cs_group_or. cbn [map]. apply or_single.
Qed.

Lemma h7c : forall e e', other_q e = true -> other_q e' = true ->
  (forall d, slv e' d = slv e d) ->
  forall k d, slv (EMatch k e') d = slv (EMatch k e) d.
Proof.
  intros e e' He He' H [|n] d.
  - rewrite !cs_all_other by assumption. apply H.
  - rewrite !cs_of_other by assumption. rewrite H. reflexivity.
Qed.
End CondEq.

Section Sem.
Variable o : oracles.
Variable ids : list (str * expr).
Hypothesis Hids : forallb (fun kv => wf_body (snd kv)) ids = true.
Variable dq : docq.
Hypothesis Hdq : C03.npd dq.

(* the value of a member (members of well-formed trees do not panic on such a document) *)
Definition rv (x : expr) : res3 := match solve_cond o ids x dq with Ok v => v | _ => M end.

Lemma rv_ok : forall x, wf_cond ids x = true -> solve_cond o ids x dq = Ok (rv x).
Proof.
  intros x H. destruct (C03.solve_cond_ok o ids x dq H Hids Hdq) as [r Hr].
  unfold rv. rewrite Hr. reflexivity.
Qed.

Definition tb (x : expr) : bool := res3_eqb (rv x) T.
Definition db (x : expr) : bool := negb (res3_eqb (rv x) M).

(* an or-group: true if some member is, else false if some member is defined, else missing *)
Lemma or_fold_rv : forall l, (forall x, In x l -> wf_cond ids x = true) -> forall acc, acc <> T ->
  or_fold acc (map (fun x (_ : unit) => solve_cond o ids x dq) l) =
  Ok (if existsb tb l then T else if existsb db l then F else acc).
Proof.
  induction l as [|x l IH]; intros Hw acc Hacc; cbn [map or_fold existsb].
  - reflexivity.
  - rewrite (rv_ok x (Hw x (or_introl eq_refl))). cbn [bind].
    assert (Etb : tb x = res3_eqb (rv x) T) by reflexivity.
    assert (Edb : db x = negb (res3_eqb (rv x) M)) by reflexivity.
    rewrite Etb, Edb.
    assert (Hw' : forall y, In y l -> wf_cond ids y = true) by (intros y Hy; apply Hw; right; exact Hy).
    destruct (rv x); cbn [res3_eqb negb orb].
    + reflexivity.
    + rewrite (IH Hw' F) by discriminate.
      destruct (existsb tb l); [reflexivity|]. destruct (existsb db l); reflexivity.
    + apply IH; assumption.
Qed.

Lemma or_fold_equiv : forall l l',
  (forall x, In x l -> wf_cond ids x = true) -> (forall x, In x l' -> wf_cond ids x = true) ->
  existsb tb l = existsb tb l' -> existsb db l = existsb db l' ->
  or_fold M (map (fun x (_ : unit) => solve_cond o ids x dq) l) =
  or_fold M (map (fun x (_ : unit) => solve_cond o ids x dq) l').
Proof.
  intros l l' H1 H2 H3 H4. rewrite (or_fold_rv l H1 M), (or_fold_rv l' H2 M) by discriminate.
  rewrite H3, H4. reflexivity.
Qed.

(* ---- a search on a field: the strings it looks at ---- *)
Definition sv_texts (cast : bool) (v : value) : option (list str) :=
  match v with
  | VStr s => Some [s]
  | VArr l => Some (array_texts o cast l)
  | VBool _ | VFloat _ | VInt _ | VUInt _ =>
      if cast then match cast_text o v with Some s => Some [s] | None => None end else None
  | _ => None
  end.

Lemma search_value_texts : forall p cast v,
  search_value o p cast v = option_map (existsb p) (sv_texts cast v).
Proof.
  intros p cast v.
  destruct v; cbn [search_value sv_texts option_map existsb]; try reflexivity;
    try (destruct cast; [|reflexivity]; destruct (cast_text o _);
         cbn [option_map existsb]; rewrite ?orb_false_r; reflexivity).
  rewrite orb_false_r. reflexivity.
Qed.

Definition ftexts (f : str) (cast : bool) : option (list str) :=
  match dq f with Ok (Some v) => sv_texts cast v | _ => None end.

Lemma rv_search : forall s f cast,
  rv (ESearch s f cast) = res_of_search (option_map (existsb (search o s)) (ftexts f cast)).
Proof.
  intros s f cast. unfold rv, solve_cond. cbn [solve]. unfold field_search, ftexts.
  destruct (Hdq f) as [v Hv]. rewrite Hv. cbn [bind].
  destruct v as [v|]; [rewrite search_value_texts|]; reflexivity.
Qed.

Lemma tb_search : forall s f cast,
  tb (ESearch s f cast) = true <->
  exists hs, ftexts f cast = Some hs /\ existsb (search o s) hs = true.
Proof.
  intros s f cast. unfold tb. rewrite rv_search.
  destruct (ftexts f cast) as [hs|]; cbn [option_map res_of_search].
  - destruct (existsb (search o s) hs) eqn:E; cbn [res3_eqb]; split; intros H; try discriminate; eauto.
    destruct H as [hs' [H1 H2]]. injection H1 as <-. congruence.
  - cbn [res3_eqb]. split; [discriminate|]. intros [hs [H _]]. discriminate.
Qed.

Lemma db_search : forall s f cast, db (ESearch s f cast) = true <-> ftexts f cast <> None.
Proof.
  intros s f cast. unfold db. rewrite rv_search.
  destruct (ftexts f cast) as [hs|]; cbn [option_map res_of_search].
  - destruct (existsb (search o s) hs); cbn [res3_eqb negb]; split; intros; try reflexivity; discriminate.
  - cbn [res3_eqb negb]. split; [discriminate|]. intros H. congruence.
Qed.

(* ---- one class of mergeable searches (needles, or patterns) ---- *)
Section Class.
Context {V : Type}.
Variable holds : bool -> V -> str -> bool.
Variable cls : expr -> list (key * list V).
Variable emit : key * list V -> expr.
Hypothesis cls_ok : forall x k vs, In (k, vs) (cls x) ->
  exists s f cast ci, x = ESearch s f cast /\ k = key3 f cast ci /\
    forall h, search o s h = existsb (fun v => holds ci v h) vs.
Hypothesis emit_ok : forall k vs,
  exists s, emit (k, vs) = ESearch s (key3_field k) (key3_cast k) /\
    forall h, search o s h = existsb (fun v => holds (key3_ci k) v h) vs.
Variable ord : hord.
Hypothesis Hord : ord_keeps ord.
Variable L : list expr.

Definition Mp : list (key * list V) := fold_left push (flat_map cls L) [].
Definition Em : list expr := map emit (amap_iter ord Mp).

Lemma class_fwd_t : forall x kv, In x L -> In kv (cls x) -> tb x = true ->
  exists y, In y Em /\ tb y = true.
Proof.
  intros x [k vs] Hx Hkv Ht.
  destruct (cls_ok x k vs Hkv) as [s [f [cast [ci [-> [-> Hs]]]]]].
  apply tb_search in Ht. destruct Ht as [hs [Hf He]].
  apply existsb_exists in He. destruct He as [h [Hh Hsh]].
  rewrite Hs in Hsh. apply existsb_exists in Hsh. destruct Hsh as [v [Hv Hhold]].
  destruct (amap_fwd (flat_map cls L) [] (key3 f cast ci) vs) as [vs' [Hl Hincl]].
  { apply in_flat_map. exists (ESearch s f cast). split; assumption. }
  pose proof (amap_iter_keeps ord _ _ _ Hord Hl) as Hit.
  exists (emit (key3 f cast ci, vs')). split; [unfold Em; apply in_map; exact Hit|].
  destruct (emit_ok (key3 f cast ci) vs') as [s' [-> Hs']].
  rewrite key3_field_eq, key3_cast_eq. apply tb_search. exists hs. split; [exact Hf|].
  apply existsb_exists. exists h. split; [exact Hh|].
  rewrite Hs', key3_ci_eq. apply existsb_exists. exists v. split; [apply Hincl; exact Hv|exact Hhold].
Qed.

Lemma class_fwd_d : forall x kv, In x L -> In kv (cls x) -> db x = true ->
  exists y, In y Em /\ db y = true.
Proof.
  intros x [k vs] Hx Hkv Ht.
  destruct (cls_ok x k vs Hkv) as [s [f [cast [ci [-> [-> Hs]]]]]].
  apply db_search in Ht.
  destruct (amap_fwd (flat_map cls L) [] (key3 f cast ci) vs) as [vs' [Hl Hincl]].
  { apply in_flat_map. exists (ESearch s f cast). split; assumption. }
  pose proof (amap_iter_keeps ord _ _ _ Hord Hl) as Hit.
  exists (emit (key3 f cast ci, vs')). split; [unfold Em; apply in_map; exact Hit|].
  destruct (emit_ok (key3 f cast ci) vs') as [s' [-> Hs']].
  rewrite key3_field_eq, key3_cast_eq. apply db_search. exact Ht.
Qed.

Lemma class_bwd_t : forall y, In y Em -> tb y = true -> exists x, In x L /\ tb x = true.
Proof.
  intros y Hy Ht. unfold Em in Hy. apply in_map_iff in Hy. destruct Hy as [[k vs'] [<- Hit]].
  apply amap_iter_In in Hit.
  destruct (emit_ok k vs') as [s' [E Hs']]. rewrite E in Ht.
  apply tb_search in Ht. destruct Ht as [hs [Hf He]].
  apply existsb_exists in He. destruct He as [h [Hh Hsh]].
  rewrite Hs' in Hsh. apply existsb_exists in Hsh. destruct Hsh as [v [Hv Hhold]].
  destruct (amap_bwd (flat_map cls L) [] k vs' Hit) as [_ H2].
  destruct (H2 v Hv) as [[vs0 [H3 _]]|[vs [H3 H4]]]; [discriminate H3|].
  apply in_flat_map in H3. destruct H3 as [x [Hx Hkv]].
  destruct (cls_ok x k vs Hkv) as [s [f [cast [ci [-> [-> Hs]]]]]].
  rewrite key3_field_eq, key3_cast_eq in Hf. rewrite key3_ci_eq in Hhold.
  exists (ESearch s f cast). split; [exact Hx|]. apply tb_search. exists hs. split; [exact Hf|].
  apply existsb_exists. exists h. split; [exact Hh|]. rewrite Hs.
  apply existsb_exists. exists v. split; assumption.
Qed.

Lemma class_bwd_d : forall y, In y Em -> db y = true -> exists x, In x L /\ db x = true.
Proof.
  intros y Hy Ht. unfold Em in Hy. apply in_map_iff in Hy. destruct Hy as [[k vs'] [<- Hit]].
  apply amap_iter_In in Hit.
  destruct (emit_ok k vs') as [s' [E Hs']]. rewrite E in Ht.
  apply db_search in Ht.
  destruct (amap_bwd (flat_map cls L) [] k vs' Hit) as [H1 _].
  destruct H1 as [[vs0 H3]|[vs H3]]; [discriminate H3|].
  apply in_flat_map in H3. destruct H3 as [x [Hx Hkv]].
  destruct (cls_ok x k vs Hkv) as [s [f [cast [ci [-> [-> Hs]]]]]].
  rewrite key3_field_eq, key3_cast_eq in Ht.
  exists (ESearch s f cast). split; [exact Hx|]. apply db_search. exact Ht.
Qed.
End Class.

(* the two instances *)
Definition holds_n (ci : bool) (m : mtype) (h : str) : bool := mtype_holds ci m h.
Definition holds_p (ci : bool) (p : str) (h : str) : bool := re_match o p ci h.

Lemma cls_n_ok : forall x k vs, In (k, vs) (cls_n x) ->
  exists s f cast ci, x = ESearch s f cast /\ k = key3 f cast ci /\
    forall h, search o s h = existsb (fun v => holds_n ci v h) vs.
Proof.
  intros x k vs H.
  destruct x as [s l|l s r|b|f m|f|z|i|z|k0 e|cols rows|e|f e| |s f c]; try (destruct H; fail).
  destruct s; cbn [cls_n mt_of_search In] in H; try (destruct H; fail);
    (destruct H as [H|[]]; injection H as <- <-; eexists; exists f, c; eexists;
     split; [reflexivity|]; split; [reflexivity|]; intros h;
     cbn [search existsb holds_n mtype_holds fold_hay]; rewrite ?orb_false_r; reflexivity).
Qed.

Lemma needle_expr_ok : forall k vs,
  exists s, needle_expr (k, vs) = ESearch s (key3_field k) (key3_cast k) /\
    forall h, search o s h = existsb (fun v => holds_n (key3_ci k) v h) vs.
Proof.
  intros k vs. unfold needle_expr. cbn [fst snd].
  destruct (key3_ci k); destruct vs as [|m [|m2 ms]];
    try (eexists; split; [reflexivity|]; intros h; reflexivity).
  destruct m; (eexists; split; [reflexivity|]; intros h;
    cbn [search search_of_mt existsb holds_n mtype_holds fold_hay]; rewrite orb_false_r; reflexivity).
Qed.

Lemma cls_p_ok : forall x k vs, In (k, vs) (cls_p x) ->
  exists s f cast ci, x = ESearch s f cast /\ k = key3 f cast ci /\
    forall h, search o s h = existsb (fun v => holds_p ci v h) vs.
Proof.
  intros x k vs H.
  destruct x as [s l|l s r|b|f m|f|z|i|z|k0 e|cols rows|e|f e| |s f c]; try (destruct H; fail).
  destruct s; cbn [cls_p In] in H; try (destruct H; fail);
    (destruct H as [H|[]]; injection H as <- <-; eexists; exists f, c; eexists;
     split; [reflexivity|]; split; [reflexivity|]; intros h;
     cbn [search existsb holds_p]; rewrite ?orb_false_r; reflexivity).
Qed.

Lemma pat_expr_ok : forall k vs,
  exists s, pat_expr (k, vs) = ESearch s (key3_field k) (key3_cast k) /\
    forall h, search o s h = existsb (fun v => holds_p (key3_ci k) v h) vs.
Proof.
  intros k vs. unfold pat_expr. cbn [fst snd].
  destruct vs as [|p [|p2 ps]];
    (eexists; split; [reflexivity|]; intros h; cbn [search existsb holds_p]; rewrite ?orb_false_r; reflexivity).
Qed.

(* ---- the regrouped list has a true / a defined member exactly when the list has ---- *)
Lemma scratch_iff : forall (p : expr -> bool) ord L,
  (forall x, In x L -> is_nest x = false) ->
  (forall x kv, In x L -> In kv (cls_n x) -> p x = true ->
     exists y, In y (map needle_expr (amap_iter ord (needles_of L))) /\ p y = true) ->
  (forall y, In y (map needle_expr (amap_iter ord (needles_of L))) -> p y = true ->
     exists x, In x L /\ p x = true) ->
  (forall x kv, In x L -> In kv (cls_p x) -> p x = true ->
     exists y, In y (map pat_expr (amap_iter ord (patterns_of L))) /\ p y = true) ->
  (forall y, In y (map pat_expr (amap_iter ord (patterns_of L))) -> p y = true ->
     exists x, In x L /\ p x = true) ->
  ((exists x, In x L /\ p x = true) <-> (exists y, In y (or_scratch ord L) /\ p y = true)).
Proof.
  intros p ord L Hnn Fn Bn Fp Bp. split.
  - intros [x [Hx Hp]].
    destruct (cls_total x) as [H|[H|[H|[[kv H]|[kv H]]]]].
    + rewrite (Hnn x Hx) in H. discriminate.
    + exists x. split; [|exact Hp]. apply or_scratch_In. left. auto.
    + exists x. split; [|exact Hp]. apply or_scratch_In. right. right. right. auto.
    + destruct (Fn x kv Hx H Hp) as [y [Hy Hpy]]. exists y. split; [|exact Hpy].
      apply or_scratch_In. right. left. exact Hy.
    + destruct (Fp x kv Hx H Hp) as [y [Hy Hpy]]. exists y. split; [|exact Hpy].
      apply or_scratch_In. right. right. left. exact Hy.
  - intros [y [Hy Hp]]. apply or_scratch_In in Hy.
    destruct Hy as [[Hy _]|[Hy|[Hy|[Hy _]]]].
    + exists y. auto.
    + apply (Bn y Hy Hp).
    + apply (Bp y Hy Hp).
    + exists y. auto.
Qed.

Lemma or_scratch_exact : forall ord L, ord_keeps ord ->
  (forall x, In x L -> wf_cond ids x = true) -> (forall x, In x L -> no_nested x = true) ->
  or_fold M (map (fun x (_ : unit) => solve_cond o ids x dq) (or_scratch ord L)) =
  or_fold M (map (fun x (_ : unit) => solve_cond o ids x dq) L).
Proof.
  intros ord L Hord Hwf Hnn.
  assert (Hnest : forall x, In x L -> is_nest x = false)
    by (intros x Hx; apply nn_not_nest; apply Hnn; exact Hx).
  apply or_fold_equiv.
  - intros y Hy. destruct (or_scratch_members ord L y Hy) as [Hs|Hin].
    + apply srch_wfc. exact Hs.
    + apply Hwf. exact Hin.
  - exact Hwf.
  - apply existsb_eq_iff. symmetry. apply scratch_iff; try exact Hnest.
    + intros x kv. apply (class_fwd_t holds_n cls_n needle_expr cls_n_ok needle_expr_ok ord Hord L).
    + apply (class_bwd_t holds_n cls_n needle_expr cls_n_ok needle_expr_ok ord L).
    + intros x kv. apply (class_fwd_t holds_p cls_p pat_expr cls_p_ok pat_expr_ok ord Hord L).
    + apply (class_bwd_t holds_p cls_p pat_expr cls_p_ok pat_expr_ok ord L).
  - apply existsb_eq_iff. symmetry. apply scratch_iff; try exact Hnest.
    + intros x kv. apply (class_fwd_d holds_n cls_n needle_expr cls_n_ok needle_expr_ok ord Hord L).
    + apply (class_bwd_d holds_n cls_n needle_expr cls_n_ok needle_expr_ok ord L).
    + intros x kv. apply (class_fwd_d holds_p cls_p pat_expr cls_p_ok pat_expr_ok ord Hord L).
    + apply (class_bwd_d holds_p cls_p pat_expr cls_p_ok pat_expr_ok ord L).
Qed.

(* ---- the pass ---- *)
Lemma collapse_sem : forall s L, is_and_or s = true ->
  solve_cond o ids (match L with [x] => x | _ => EGroup s L end) dq = solve_cond o ids (EGroup s L) dq.
Proof.
  intros s L Hs. destruct L as [|x [|x2 L]]; try reflexivity.
  symmetry. apply cs_group_single. exact Hs.
Qed.

Lemma h7x : forall ord fu e k, other_q e = true ->
  solve_cond o ids (shake1 ord fu e) dq = solve_cond o ids e dq ->
  solve_cond o ids (EMatch k (shake1 ord fu e)) dq = solve_cond o ids (EMatch k e) dq.
Proof.
  intros ord fu e k He H. pose proof (shake1_other_q ord fu e He) as He'.
  destruct k as [|n].
  - rewrite !cs_all_other by assumption. exact H.
  - rewrite !cs_of_other by assumption. rewrite H. reflexivity.
Qed.

Lemma shake1_exact_gen : forall ord, ord_keeps ord -> forall fuel e,
  wf_cond ids e = true -> no_nested e = true -> cmp_leaves e = true ->
  solve_cond o ids (shake1 ord fuel e) dq = solve_cond o ids e dq.
Proof.
  intros ord Hord. induction fuel as [|fu IH]; intros e Hw Hn Hc; [reflexivity|].
  assert (Hmem : forall l, forallb (wf_cond ids) l = true -> forallb no_nested l = true ->
            forallb cmp_leaves l = true ->
            Forall2 (fun y x => (fun (y : expr) (_ : unit) => solve_cond o ids y dq) y tt =
                                (fun (x : expr) (_ : unit) => solve_cond o ids x dq) x tt)
                    (map (shake1 ord fu) l) l).
  { intros l H1 H2 H3. apply Forall2_map_l. intros x Hx. cbn beta.
    apply IH; [apply (forallb_In _ _ _ H1 Hx)|apply (forallb_In _ _ _ H2 Hx)|apply (forallb_In _ _ _ H3 Hx)]. }
  destruct e as [s l|l s r|b|f m|f|z|i|z|k e|cols rows|e|f e| |s f c]; try discriminate Hw.
  - (* EGroup *)
    cbn [wf_cond no_nested cmp_leaves] in Hw, Hn, Hc.
    apply andb_true_iff in Hw. destruct Hw as [Hs Hw].
    pose proof (Hmem l Hw Hn Hc) as HF2.
    set (L := map (shake1 ord fu) l) in *.
    assert (HK : forall y, In y L -> no_nested y = true /\ wf_cond ids y = true /\ cmp_leaves y = true).
    { intros y Hy. apply in_map_iff in Hy. destruct Hy as [x [<- Hx]].
      destruct (shake1_keeps3 ord fu x (forallb_In _ _ _ Hn Hx)) as [K1 [_ K3]].
      split; [exact K1|]. split; [|apply K3; apply (forallb_In _ _ _ Hc Hx)].
      apply shake1_keeps_wfc; [apply (forallb_In _ _ _ Hn Hx)|apply (forallb_In _ _ _ Hw Hx)]. }
    destruct s; try discriminate Hs.
    + (* and *)
      rewrite shake1_and_eq by (intros y Hy; apply (HK y Hy)). fold L. cbv zeta.
      rewrite collapse_sem by reflexivity. rewrite !cs_group_and. apply and_fold_F2. exact HF2.
    + (* or *)
      rewrite shake1_or_eq by (intros y Hy; apply (HK y Hy)). fold L. cbv zeta.
      set (Sc := or_scratch ord L).
      assert (HSc : forall y, In y Sc -> no_nested y = true /\ wf_cond ids y = true /\ cmp_leaves y = true).
      { intros y Hy. destruct (or_scratch_members ord L y Hy) as [Hy'|Hy'].
        - destruct (srch_shape y Hy') as [A [_ C]]. split; [exact A|]. split; [apply srch_wfc; exact Hy'|exact C].
        - apply HK. exact Hy'. }
      assert (E1 : solve_cond o ids (EGroup BOr Sc) dq = solve_cond o ids (EGroup BOr l) dq).
      { rewrite !cs_group_or. unfold Sc. rewrite or_scratch_exact.
        - apply or_fold_F2. exact HF2.
        - exact Hord.
        - intros y Hy. apply (HK y Hy).
        - intros y Hy. apply (HK y Hy). }
      destruct (negb (length Sc =? length l)%nat).
      * rewrite IH; [exact E1| | |].
        -- cbn [wf_cond is_and_or_op andb]. apply forallb_forall. intros y Hy. apply (HSc y Hy).
        -- cbn [no_nested]. apply forallb_forall. intros y Hy. apply (HSc y Hy).
        -- cbn [cmp_leaves]. apply forallb_forall. intros y Hy. apply (HSc y Hy).
      * rewrite collapse_sem by reflexivity. exact E1.
  - (* EBexp *)
    cbn [shake1].
    destruct s; cbn [wf_cond is_and_or_op no_nested cmp_leaves is_and_or] in Hw, Hn, Hc;
      try (apply andb_true_iff in Hc; destruct Hc as [Hl Hr];
           apply negb_true_iff in Hl; apply negb_true_iff in Hr;
           rewrite (shake1_leaf ord fu l Hl), (shake1_leaf ord fu r Hr); reflexivity).
    + apply andb_true_iff in Hw. destruct Hw as [Hw1 Hw2].
      apply andb_true_iff in Hn. destruct Hn as [Hn1 Hn2].
      apply andb_true_iff in Hc. destruct Hc as [Hc1 Hc2].
      rewrite !cs_bexp_and. unfold and2. rewrite (IH l Hw1 Hn1 Hc1), (IH r Hw2 Hn2 Hc2). reflexivity.
    + apply andb_true_iff in Hw. destruct Hw as [Hw1 Hw2].
      apply andb_true_iff in Hn. destruct Hn as [Hn1 Hn2].
      apply andb_true_iff in Hc. destruct Hc as [Hc1 Hc2].
      rewrite !cs_bexp_or. unfold or2. rewrite (IH l Hw1 Hn1 Hc1), (IH r Hw2 Hn2 Hc2). reflexivity.
  - (* EIdent *)
    reflexivity.
  - (* EMatch *)
    cbn [wf_cond no_nested cmp_leaves] in Hw, Hn, Hc.
    destruct e as [s l|l s r|b|f m|f|z|i|z|k0 e|cols rows|e|f e| |s f c]; try discriminate Hw.
    + cbn [shake1]. cbn [wf_cond no_nested cmp_leaves] in Hw, Hn, Hc.
      apply andb_true_iff in Hw. destruct Hw as [Hs Hw].
      pose proof (Hmem l Hw Hn Hc) as HF2.
      destruct k as [|n].
      * rewrite !cs_all_group. apply and_fold_F2. exact HF2.
      * rewrite !cs_of_group. apply of_fold_F2. exact HF2.
    + cbn [shake1]. apply h7x; [reflexivity|apply IH; assumption].
    + cbn [shake1]. rewrite shake1_ident. reflexivity.
    + cbn [shake1]. apply h7x; [reflexivity|apply IH; assumption].
    + cbn [shake1]. apply h7x; [reflexivity|apply IH; assumption].
    + discriminate Hn.
    + cbn [shake1]. rewrite shake1_search. reflexivity.
  - (* ENegate *)
    cbn [shake1]. cbn [wf_cond no_nested cmp_leaves] in Hw, Hn, Hc.
    rewrite !cs_negate, (IH e Hw Hn Hc). reflexivity.
  - (* ENested *)
    discriminate Hn.
  - (* ESearch *)
    reflexivity.
Qed.
End Sem.

(* ====================================================================== *)
(*  Part D: the statements of Properties/C01_shake1.v                      *)
(* ====================================================================== *)

(* ---- shake1_exact_flat is FALSE as stated, in two independent ways ---- *)

(* (a) `ord` ranges over all functions; one that loses keys loses the merged searches *)
Lemma shake1_exact_flat_refuted :
  let f := [102%N] in let g := [103%N] in
  let e := EGroup BOr [ESearch (SContains [97%N]) f false; ESearch (SContains [98%N]) g false] in
  let d : doc := fun k => if str_eqb k f then Some (VStr [97%N]) else None in
  wf_body e = true /\ C01.no_nested e = true /\ C01.cmp_leaves e = true /\
  shake1 (fun _ => []) 5 e = EGroup BOr [] /\
  solve_body C01.o0 e (pure_doc d) = Ok T /\
  solve_body C01.o0 (shake1 (fun _ => []) 5 e) (pure_doc d) = Ok M.
Proof. vm_compute. repeat split; reflexivity. Qed.

(* (b) wf_body does not constrain the operands of a comparison: a one-member group there is
   unwrapped, and the comparison starts to see a field *)
Lemma shake1_exact_flat_refuted_cmp :
  let f := [102%N] in
  let e := EBexp (EGroup BOr [EField f]) BEqual (EInt 1) in
  let d : doc := fun k => if str_eqb k f then Some (VInt 1) else None in
  wf_body e = true /\ C01.no_nested e = true /\
  shake1 (fun k => k) 5 e = EBexp (EField f) BEqual (EInt 1) /\
  solve_body C01.o0 e (pure_doc d) = Ok F /\
  solve_body C01.o0 (shake1 (fun k => k) 5 e) (pure_doc d) = Ok T.
Proof. vm_compute. repeat split; reflexivity. Qed.

(* the closest true statements: the hash order does not lose keys (every permutation), and
   the operands of comparisons are leaves (C01.cmp_leaves, as in coalesce_exact_alt) *)
Lemma shake1_exact_flat_keeps : forall o ord fuel e (d : docq),
  ord_keeps ord -> C03.npd d ->
  wf_body e = true -> C01.no_nested e = true -> C01.cmp_leaves e = true ->
  solve_body o (shake1 ord fuel e) d = solve_body o e d.
Proof.
  intros o ord fuel e d Hord Hd Hw Hn Hc.
  exact (shake1_exact_gen o [] eq_refl d Hd ord Hord fuel e (C03.wf_body_cond_nil e Hw) Hn Hc).
Qed.

Lemma shake1_exact_flat_alt : forall o ord fuel e (d : doc),
  (forall l, Permutation (ord l) l) ->
  wf_body e = true -> C01.no_nested e = true -> C01.cmp_leaves e = true ->
  solve_body o (shake1 ord fuel e) (pure_doc d) = solve_body o e (pure_doc d).
Proof.
  intros o ord fuel e d Hord. apply shake1_exact_flat_keeps.
  - apply perm_ord_keeps. exact Hord.
  - apply C03.npd_pure.
Qed.

(* it also keeps cmp_leaves *)
Lemma shake1_keeps_cmp_leaves : forall ord fuel e,
  C01.no_nested e = true -> C01.cmp_leaves e = true -> C01.cmp_leaves (shake1 ord fuel e) = true.
Proof. intros ord fuel e Hn Hc. apply (shake1_keeps3 ord fuel e Hn). exact Hc. Qed.

(* ---- the whole shake pass ---- *)
Lemma inv_wf : forall e, inv e = true -> wf_body e = true.
Proof.
  induction e as [e IH] using size_ind. intros Hi.
  destruct e as [s l|l s r|b|f m|f|z|i|z|k e|cols rows|e|f e| |s f c]; try discriminate Hi;
    cbn [inv wf_body] in *.
  - apply andb_true_iff in Hi. destruct Hi as [Hs Hl].
    replace (is_and_or_op s) with true by (destruct s; try discriminate; reflexivity).
    destruct l as [|a l']; [discriminate|]. cbn [andb].
    apply forallb_intro. intros x Hx. apply IH; [apply (size_member s _ x Hx)|apply (forallb_In _ _ _ Hl Hx)].
  - destruct s; cbn [is_and_or is_and_or_op] in *; try reflexivity;
      (apply andb_true_iff in Hi; destruct Hi as [H1 H2];
       rewrite (IH l), (IH r); try assumption; try reflexivity; cbn [expr_size]; lia).
  - apply andb_true_iff in Hi. destruct Hi as [_ Hi]. apply IH; [cbn [expr_size]; lia|exact Hi].
  - apply andb_true_iff in Hi. destruct Hi as [_ Hi]. apply IH; [cbn [expr_size]; lia|exact Hi].
  - apply andb_true_iff in Hi. destruct Hi as [_ Hi]. apply IH; [cbn [expr_size]; lia|exact Hi].
  - reflexivity.
Qed.

Lemma inv_cl : forall e, inv e = true -> cmp_leaves e = true.
Proof.
  induction e as [e IH] using size_ind. intros Hi.
  destruct e as [s l|l s r|b|f m|f|z|i|z|k e|cols rows|e|f e| |s f c]; try discriminate Hi;
    cbn [inv cmp_leaves] in *.
  - apply andb_true_iff in Hi. destruct Hi as [Hs Hl].
    destruct l as [|a l']; [discriminate|].
    apply forallb_intro. intros x Hx. apply IH; [apply (size_member s _ x Hx)|apply (forallb_In _ _ _ Hl Hx)].
  - destruct (is_and_or s); [|exact Hi].
    apply andb_true_iff in Hi. destruct Hi as [H1 H2].
    rewrite (IH l), (IH r); try assumption; try reflexivity; cbn [expr_size]; lia.
  - apply andb_true_iff in Hi. destruct Hi as [_ Hi]. apply IH; [cbn [expr_size]; lia|exact Hi].
  - apply andb_true_iff in Hi. destruct Hi as [_ Hi]. apply IH; [cbn [expr_size]; lia|exact Hi].
  - apply andb_true_iff in Hi. destruct Hi as [_ Hi]. apply IH; [cbn [expr_size]; lia|exact Hi].
  - reflexivity.
Qed.

Lemma flat_nn : forall s l' r' L, flat s l' r' = Some L ->
  no_nested l' = true -> no_nested r' = true -> forallb no_nested L = true.
Proof.
  intros s l' r' L Hf Hl Hr. unfold flat in Hf.
  destruct (grp s l') as [a|] eqn:G1; destruct (grp s r') as [b|] eqn:G2.
  - injection Hf as <-. apply grp_some in G1. apply grp_some in G2. subst l' r'.
    cbn [no_nested] in Hl, Hr. rewrite forallb_app, Hl, Hr. reflexivity.
  - injection Hf as <-. apply grp_some in G1. subst l'.
    cbn [no_nested] in Hl. rewrite forallb_app, Hl. cbn [forallb]. rewrite Hr. reflexivity.
  - injection Hf as <-. apply grp_some in G2. subst r'.
    cbn [no_nested] in Hr. cbn [forallb]. rewrite Hl, Hr. reflexivity.
  - destruct (bx s l') as [[x y]|] eqn:B1.
    + injection Hf as <-. apply bx_some in B1. subst l'. cbn [no_nested] in Hl.
      apply andb_true_iff in Hl. destruct Hl as [Hx Hy]. cbn [forallb]. rewrite Hx, Hy, Hr. reflexivity.
    + destruct (bx s r') as [[y z]|] eqn:B2; [|discriminate].
      injection Hf as <-. apply bx_some in B2. subst r'. cbn [no_nested] in Hr.
      apply andb_true_iff in Hr. destruct Hr as [Hy Hz]. cbn [forallb]. rewrite Hl, Hy, Hz. reflexivity.
Qed.

Lemma shake0_nn : forall fuel e e', no_nested e = true -> shake0 fuel e = Ok e' -> no_nested e' = true.
Proof.
  induction fuel as [|fu IH]; intros e e' Hn H; [injection H as <-; exact Hn|].
  destruct e as [s l|l s r|b|f m|f|z|i|z|k e|cols rows|e|f e| |s f c];
    try (injection H as <-; exact Hn).
  - cbn [shake0] in H. destruct (negb (is_and_or s)); [discriminate|].
    apply bind_ok_inv in H. destruct H as [l' [Hl' H]].
    pose proof (mapM_Forall2 _ _ _ Hl') as HF. cbn [no_nested] in Hn.
    assert (Hl'n : forallb no_nested l' = true).
    { eapply Forall2_forallb; [exact HF|]. intros x y Hx Hxy. cbn beta in Hxy.
      apply (IH x y); [apply (forallb_In _ _ _ Hn Hx)|exact Hxy]. }
    destruct l' as [|x [|x2 l'']]; injection H as <-; try exact Hl'n.
    cbn [forallb] in Hl'n. apply andb_true_iff in Hl'n. apply Hl'n.
  - cbn [no_nested] in Hn. apply andb_true_iff in Hn. destruct Hn as [Hl Hr].
    destruct (is_and_or s) eqn:Hs.
    + rewrite shake0_bexp_andor in H by exact Hs.
      apply bind_ok_inv in H. destruct H as [l' [Hl' H]].
      apply bind_ok_inv in H. destruct H as [r' [Hr' H]].
      pose proof (IH l l' Hl Hl') as Hl'n. pose proof (IH r r' Hr Hr') as Hr'n.
      destruct (flat s l' r') as [L|] eqn:Hflat.
      * apply (IH (EGroup s L) e' (flat_nn s l' r' L Hflat Hl'n Hr'n) H).
      * injection H as <-. cbn [no_nested]. rewrite Hl'n, Hr'n. reflexivity.
    + rewrite shake0_bexp_cmp in H by exact Hs.
      apply bind_ok_inv in H. destruct H as [l' [Hl' H]].
      apply bind_ok_inv in H. destruct H as [r' [Hr' H]]. injection H as <-.
      cbn [no_nested]. rewrite (IH l l' Hl Hl'), (IH r r' Hr Hr'). reflexivity.
  - destruct (shake0_match_inv _ _ _ _ H) as [[s [l [l' [-> [Hl' ->]]]]]|[_ [x [Hx ->]]]].
    + cbn [no_nested] in *. eapply Forall2_forallb; [exact (mapM_Forall2 _ _ _ Hl')|].
      intros x y Hx Hxy. cbn beta in Hxy. apply (IH x y); [apply (forallb_In _ _ _ Hn Hx)|exact Hxy].
    + cbn [no_nested] in *. apply (IH e x Hn Hx).
  - cbn [shake0] in H. apply bind_ok_inv in H. destruct H as [x [Hx H]].
    cbn [no_nested] in Hn. pose proof (IH e x Hn Hx) as Hxn.
    destruct x; try (injection H as <-; exact Hxn).
    apply (IH x e' Hxn H).
  - discriminate Hn.
Qed.

(* shake_exact_flat is false as stated for the same reason (a) *)
Lemma shake_exact_flat_refuted :
  let f := [102%N] in let g := [103%N] in
  let e := EGroup BOr [ESearch (SContains [97%N]) f false; ESearch (SContains [98%N]) g false] in
  let d : doc := fun k => if str_eqb k f then Some (VStr [97%N]) else None in
  wf_body e = true /\ C01.no_nested e = true /\
  C01.sh0 e = true /\ C01.no_dneg e = true /\ C01.shx e = true /\
  shake (fun _ => []) e = Ok (EGroup BOr []) /\
  solve_body C01.o0 e (pure_doc d) = Ok T /\
  solve_body C01.o0 (EGroup BOr []) (pure_doc d) = Ok M.
Proof. vm_compute. repeat split; reflexivity. Qed.

Lemma shake_exact_flat_keeps : forall o ord e e' (d : docq),
  ord_keeps ord -> C03.npd d ->
  wf_body e = true -> C01.no_nested e = true ->
  C01.sh0 e = true -> C01.no_dneg e = true -> C01.shx e = true ->
  shake ord e = Ok e' ->
  solve_body o e' d = solve_body o e d /\
  wf_body e' = true /\ C01.no_nested e' = true /\ C01.cmp_leaves e' = true.
Proof.
  intros o ord e e' d Hord Hd Hw Hn Hs Hdn Hx H. unfold shake in H.
  apply bind_ok_inv in H. destruct H as [e0 [H0 H]]. injection H as <-.
  pose proof (shake0_keeps_inv _ _ _ Hw Hs Hdn Hx H0) as Hi.
  pose proof (shake0_nn _ _ _ Hn H0) as Hn0.
  destruct (shake1_keeps3 ord (shake_fuel e0) e0 Hn0) as [K1 [K2 K3]].
  split; [|split; [apply K2; apply inv_wf; exact Hi|split; [exact K1|apply K3; apply inv_cl; exact Hi]]].
  rewrite (shake1_exact_flat_keeps o ord _ e0 d Hord Hd (inv_wf _ Hi) Hn0 (inv_cl _ Hi)).
  apply (shake0_exact_alt o _ e e0 d Hw Hs Hdn Hx H0).
Qed.

Lemma shake_exact_flat_alt : forall o ord e e' (d : doc),
  (forall l, Permutation (ord l) l) ->
  wf_body e = true -> C01.no_nested e = true ->
  C01.sh0 e = true -> C01.no_dneg e = true -> C01.shx e = true ->
  shake ord e = Ok e' ->
  solve_body o e' (pure_doc d) = solve_body o e (pure_doc d).
Proof.
  intros o ord e e' d Hord Hw Hn Hs Hdn Hx H.
  apply (shake_exact_flat_keeps o ord e e' (pure_doc d) (perm_ord_keeps ord Hord) (C03.npd_pure d)
           Hw Hn Hs Hdn Hx H).
Qed.


(* ====================================================================== *)
(*  Part E: shake on conditions (identifiers are leaves), whole rules      *)
(* ====================================================================== *)

(* the invariant of C01.shake0_post, with identifiers as leaves and without nested blocks *)
Fixpoint invc (e : expr) : bool :=
  match e with
  | EGroup s l => is_and_or s && match l with [] => false | _ => forallb invc l end
  | EBexp l s r => if is_and_or s then invc l && invc r else leaf l && leaf r
  | EMatch _ e' => quant_operand_ok e' && invc e'
  | ENegate e' => negb (head_neg e') && invc e'
  | ESearch _ _ _ | EIdent _ => true
  | _ => false
  end.

Lemma invc_of : forall ids e n,
  wf_cond ids e = true -> no_nested e = true -> sh0 e = true ->
  exists_sub dneg_here n e = false -> shx e = true ->
  invc e = true.
Proof.
  intros ids. induction e as [e IH] using size_ind. intros n Hwf Hnn Hsh Hdn Hx.
  destruct e as [s l|l s r|b|f m|f|x|i|z|k e|cols rows|e|f e| |s f c];
    try discriminate Hwf; try discriminate Hnn.
  - cbn [wf_cond no_nested sh0 exists_sub shx invc dneg_here orb] in *.
    apply andb_true_iff in Hwf. destruct Hwf as [Hs Hwf].
    replace (is_and_or s) with true by (destruct s; try discriminate; reflexivity).
    cbn [andb]. destruct l as [|a l']; [discriminate|].
    apply forallb_intro. intros x Hin. apply (IH x) with (n := n).
    + apply (size_member s _ x Hin).
    + apply (forallb_In _ _ _ Hwf Hin).
    + apply (forallb_In _ _ _ Hnn Hin).
    + apply (forallb_In _ _ _ Hsh Hin).
    + apply (existsb_false_In _ _ _ Hdn Hin).
    + apply (forallb_In _ _ _ Hx Hin).
  - cbn [wf_cond no_nested sh0 exists_sub shx invc dneg_here orb] in *.
    replace (is_and_or_op s) with (is_and_or s) in Hwf by (destruct s; reflexivity).
    destruct (is_and_or s); [|exact Hx].
    apply andb_true_iff in Hwf. destruct Hwf as [H1 H2].
    apply andb_true_iff in Hnn. destruct Hnn as [N1 N2].
    apply andb_true_iff in Hsh. destruct Hsh as [H3 H4].
    apply orb_false_iff in Hdn. destruct Hdn as [H5 H6].
    apply andb_true_iff in Hx. destruct Hx as [H7 H8].
    rewrite (IH l) with (n := n), (IH r) with (n := n); try assumption; try (cbn [expr_size]; lia).
  - reflexivity.
  - cbn [wf_cond no_nested sh0 shx invc] in *.
    apply andb_true_iff in Hsh. destruct Hsh as [H3 H4]. rewrite H3. cbn [andb].
    destruct k as [|c]; cbn [exists_sub dneg_here orb] in Hdn.
    + apply (IH e) with (n := n); try assumption. cbn [expr_size]. lia.
    + apply (IH e) with (n := (n || (c =? 0)%Z)); try assumption. cbn [expr_size]. lia.
  - cbn [wf_cond no_nested sh0 exists_sub shx invc dneg_here] in *.
    apply orb_false_iff in Hdn. destruct Hdn as [H5 H6]. rewrite H5. cbn [negb andb].
    apply (IH e) with (n := true); try assumption. cbn [expr_size]. lia.
  - reflexivity.
Qed.

Lemma invc_nn : forall e, invc e = true -> no_nested e = true.
Proof.
  induction e as [e IH] using size_ind. intros Hi.
  destruct e as [s l|l s r|b|f m|f|z|i|z|k e|cols rows|e|f e| |s f c]; try discriminate Hi;
    try reflexivity; cbn [invc no_nested] in *.
  - apply andb_true_iff in Hi. destruct Hi as [Hs Hl].
    destruct l as [|a l']; [discriminate|].
    apply forallb_intro. intros x Hx. apply IH; [apply (size_member s _ x Hx)|apply (forallb_In _ _ _ Hl Hx)].
  - destruct (is_and_or s).
    + apply andb_true_iff in Hi. destruct Hi as [H1 H2].
      rewrite (IH l), (IH r); try assumption; try reflexivity; cbn [expr_size]; lia.
    + apply andb_true_iff in Hi. destruct Hi as [H1 H2]. unfold leaf in *.
      apply negb_true_iff in H1. apply negb_true_iff in H2.
      destruct l; try discriminate H1; destruct r; try discriminate H2; reflexivity.
  - apply andb_true_iff in Hi. destruct Hi as [_ Hi]. apply IH; [cbn [expr_size]; lia|exact Hi].
  - apply andb_true_iff in Hi. destruct Hi as [_ Hi]. apply IH; [cbn [expr_size]; lia|exact Hi].
Qed.

Lemma invc_cl : forall e, invc e = true -> cmp_leaves e = true.
Proof.
  induction e as [e IH] using size_ind. intros Hi.
  destruct e as [s l|l s r|b|f m|f|z|i|z|k e|cols rows|e|f e| |s f c]; try discriminate Hi;
    try reflexivity; cbn [invc cmp_leaves] in *.
  - apply andb_true_iff in Hi. destruct Hi as [Hs Hl].
    destruct l as [|a l']; [discriminate|].
    apply forallb_intro. intros x Hx. apply IH; [apply (size_member s _ x Hx)|apply (forallb_In _ _ _ Hl Hx)].
  - destruct (is_and_or s); [|exact Hi].
    apply andb_true_iff in Hi. destruct Hi as [H1 H2].
    rewrite (IH l), (IH r); try assumption; try reflexivity; cbn [expr_size]; lia.
  - apply andb_true_iff in Hi. destruct Hi as [_ Hi]. apply IH; [cbn [expr_size]; lia|exact Hi].
  - apply andb_true_iff in Hi. destruct Hi as [_ Hi]. apply IH; [cbn [expr_size]; lia|exact Hi].
Qed.

Lemma invc_group : forall s a, invc (EGroup s a) = true ->
  is_and_or s = true /\ forallb invc a = true /\ exists a1 a', a = a1 :: a'.
Proof.
  intros s a H. cbn [invc] in H. apply andb_true_iff in H. destruct H as [Hs H].
  destruct a as [|a1 a']; [discriminate|]. eauto.
Qed.

Lemma invc_group_intro : forall s a, is_and_or s = true -> forallb invc a = true -> a <> [] ->
  invc (EGroup s a) = true.
Proof.
  intros s a Hs Ha Hne. cbn [invc]. rewrite Hs. destruct a; [congruence|exact Ha].
Qed.

(* shake_0 keeps the known identifiers *)
Lemma flat_wfc : forall ids s l' r' L, is_and_or s = true -> flat s l' r' = Some L ->
  wf_cond ids l' = true -> wf_cond ids r' = true -> wf_cond ids (EGroup s L) = true.
Proof.
  intros ids s l' r' L Hs Hf Hl Hr.
  assert (Hso : is_and_or_op s = true) by (destruct s; try discriminate; reflexivity).
  cbn [wf_cond]. rewrite Hso. cbn [andb]. unfold flat in Hf.
  destruct (grp s l') as [a|] eqn:G1; destruct (grp s r') as [b|] eqn:G2.
  - injection Hf as <-. apply grp_some in G1. apply grp_some in G2. subst l' r'.
    cbn [wf_cond] in Hl, Hr. rewrite Hso in Hl, Hr. cbn [andb] in Hl, Hr.
    rewrite forallb_app, Hl, Hr. reflexivity.
  - injection Hf as <-. apply grp_some in G1. subst l'.
    cbn [wf_cond] in Hl. rewrite Hso in Hl. cbn [andb] in Hl.
    rewrite forallb_app, Hl. cbn [forallb]. rewrite Hr. reflexivity.
  - injection Hf as <-. apply grp_some in G2. subst r'.
    cbn [wf_cond] in Hr. rewrite Hso in Hr. cbn [andb] in Hr.
    cbn [forallb]. rewrite Hl, Hr. reflexivity.
  - destruct (bx s l') as [[x y]|] eqn:B1.
    + injection Hf as <-. apply bx_some in B1. subst l'. cbn [wf_cond] in Hl. rewrite Hso in Hl.
      apply andb_true_iff in Hl. destruct Hl as [Hx Hy]. cbn [forallb]. rewrite Hx, Hy, Hr. reflexivity.
    + destruct (bx s r') as [[y z]|] eqn:B2; [|discriminate].
      injection Hf as <-. apply bx_some in B2. subst r'. cbn [wf_cond] in Hr. rewrite Hso in Hr.
      apply andb_true_iff in Hr. destruct Hr as [Hy Hz]. cbn [forallb]. rewrite Hl, Hy, Hz. reflexivity.
Qed.

Lemma shake0_wfc : forall ids fuel e e',
  wf_cond ids e = true -> shake0 fuel e = Ok e' -> wf_cond ids e' = true.
Proof.
  intros ids. induction fuel as [|fu IH]; intros e e' Hn H; [injection H as <-; exact Hn|].
  destruct e as [s l|l s r|b|f m|f|z|i|z|k e|cols rows|e|f e| |s f c];
    try (injection H as <-; exact Hn).
  - cbn [shake0] in H. destruct (negb (is_and_or s)); [discriminate|].
    apply bind_ok_inv in H. destruct H as [l' [Hl' H]].
    pose proof (mapM_Forall2 _ _ _ Hl') as HF. cbn [wf_cond] in Hn.
    apply andb_true_iff in Hn. destruct Hn as [Hs Hn].
    assert (Hl'n : forallb (wf_cond ids) l' = true).
    { eapply Forall2_forallb; [exact HF|]. intros x y Hx Hxy. cbn beta in Hxy.
      apply (IH x y); [apply (forallb_In _ _ _ Hn Hx)|exact Hxy]. }
    destruct l' as [|x [|x2 l'']]; injection H as <-; cbn [wf_cond]; try (rewrite Hs; exact Hl'n).
    cbn [forallb] in Hl'n. apply andb_true_iff in Hl'n. apply Hl'n.
  - destruct (is_and_or s) eqn:Hs.
    + assert (Hso : is_and_or_op s = true) by (destruct s; try discriminate; reflexivity).
      cbn [wf_cond] in Hn. rewrite Hso in Hn. apply andb_true_iff in Hn. destruct Hn as [Hl Hr].
      rewrite shake0_bexp_andor in H by exact Hs.
      apply bind_ok_inv in H. destruct H as [l' [Hl' H]].
      apply bind_ok_inv in H. destruct H as [r' [Hr' H]].
      pose proof (IH l l' Hl Hl') as Hl'n. pose proof (IH r r' Hr Hr') as Hr'n.
      destruct (flat s l' r') as [L|] eqn:Hflat.
      * apply (IH (EGroup s L) e' (flat_wfc ids s l' r' L Hs Hflat Hl'n Hr'n) H).
      * injection H as <-. cbn [wf_cond]. rewrite Hso, Hl'n, Hr'n. reflexivity.
    + assert (Hso : is_and_or_op s = false) by (destruct s; try discriminate; reflexivity).
      rewrite shake0_bexp_cmp in H by exact Hs.
      apply bind_ok_inv in H. destruct H as [l' [Hl' H]].
      apply bind_ok_inv in H. destruct H as [r' [Hr' H]]. injection H as <-.
      cbn [wf_cond]. rewrite Hso. reflexivity.
  - destruct (shake0_match_inv _ _ _ _ H) as [[s [l [l' [-> [Hl' ->]]]]]|[_ [x [Hx ->]]]].
    + cbn [wf_cond] in *. apply andb_true_iff in Hn. destruct Hn as [Hs Hn]. rewrite Hs. cbn [andb].
      eapply Forall2_forallb; [exact (mapM_Forall2 _ _ _ Hl')|].
      intros x y Hx Hxy. cbn beta in Hxy. apply (IH x y); [apply (forallb_In _ _ _ Hn Hx)|exact Hxy].
    + cbn [wf_cond] in *. apply (IH e x Hn Hx).
  - cbn [shake0] in H. apply bind_ok_inv in H. destruct H as [x [Hx H]].
    cbn [wf_cond] in Hn. pose proof (IH e x Hn Hx) as Hxn.
    destruct x; try (injection H as <-; exact Hxn).
    apply (IH x e' Hxn H).
  - cbn [shake0] in H. apply bind_ok_inv in H. destruct H as [x [Hx H]]. injection H as <-.
    cbn [wf_cond] in *. apply (IH e x Hn Hx).
Qed.

Section CondShake.
Variable o : oracles.
Variable ids : list (str * expr).
Local Notation slv := (solve_cond o ids).

Lemma semc_bexp_cong : forall l l' s r r', is_and_or s = true ->
  (forall d, slv l' d = slv l d) ->
  (forall d, slv r' d = slv r d) ->
  forall d, slv (EBexp l' s r') d = slv (EBexp l s r) d.
Proof.
  intros l l' s r r' Hs Hl Hr d. destruct s; try discriminate.
  - rewrite !cs_bexp_and. unfold and2. rewrite Hl, Hr. reflexivity.
  - rewrite !cs_bexp_or. unfold or2. rewrite Hl, Hr. reflexivity.
Qed.

Definition semc_members (l l' : list expr) : Prop :=
  Forall2 (fun m m' => forall d, slv m' d = slv m d) l l'.

Lemma semc_members_F2 : forall l l' d, semc_members l l' ->
  Forall2 (fun y x => (fun (y : expr) (_ : unit) => slv y d) y tt =
                      (fun (x : expr) (_ : unit) => slv x d) x tt) l' l.
Proof.
  intros l l' d H. apply Forall2_flip'. eapply Forall2_In_impl; [exact H|].
  intros x y _ _ Hxy. apply Hxy.
Qed.

Lemma semc_group_cong : forall s l l' d, is_and_or s = true -> semc_members l l' ->
  slv (EGroup s l') d = slv (EGroup s l) d.
Proof.
  intros s l l' d Hs H. destruct s; try discriminate.
  - rewrite !cs_group_and. apply and_fold_F2. apply semc_members_F2. exact H.
  - rewrite !cs_group_or. apply or_fold_F2. apply semc_members_F2. exact H.
Qed.

Lemma semc_match_group_cong : forall k s l l' d, semc_members l l' ->
  slv (EMatch k (EGroup s l')) d = slv (EMatch k (EGroup s l)) d.
Proof.
  intros [|n] s l l' d H.
  - rewrite !cs_all_group. apply and_fold_F2. apply semc_members_F2. exact H.
  - rewrite !cs_of_group. apply of_fold_F2. apply semc_members_F2. exact H.
Qed.

Lemma semc_members_refl : forall l, semc_members l l.
Proof. induction l; constructor; auto. Qed.

Lemma flatc_spec : forall s l' r' L, is_and_or s = true -> invc l' = true -> invc r' = true ->
  flat s l' r' = Some L ->
  invc (EGroup s L) = true /\ long L /\
  forall d, slv (EGroup s L) d = slv (EBexp l' s r') d.
Proof.
  intros s l' r' L Hs Hl Hr Hf. unfold flat in Hf.
  destruct (grp s l') as [a|] eqn:G1; destruct (grp s r') as [b|] eqn:G2.
  - injection Hf as <-. apply grp_some in G1. apply grp_some in G2. subst l' r'.
    destruct (invc_group s a Hl) as [_ [Ha [a1 [a' ->]]]].
    destruct (invc_group s b Hr) as [_ [Hb [b1 [b' ->]]]].
    split; [|split].
    + apply invc_group_intro; [exact Hs| |discriminate]. rewrite forallb_app, Ha, Hb. reflexivity.
    + destruct a' as [|a2 a']; cbn [app]; unfold long; eauto.
    + intros d. destruct s; try discriminate.
      * rewrite cs_bexp_and, and2_fold.
        rewrite (and_inline0 _ (map (fun x (_ : unit) => slv x d) (a1 :: a')) _ (cs_group_and o ids _ d)).
        cbn [app].
        rewrite (and_inline _ _ (map (fun x (_ : unit) => slv x d) (b1 :: b')) [] (cs_group_and o ids _ d)).
        rewrite app_nil_r, <- map_app. apply cs_group_and.
      * rewrite cs_bexp_or, or2_fold.
        rewrite (or_inline0 _ (map (fun x (_ : unit) => slv x d) (a1 :: a')) _ (cs_group_or o ids _ d)).
        cbn [app].
        rewrite (or_inlineM _ _ (map (fun x (_ : unit) => slv x d) (b1 :: b')) [] (cs_group_or o ids _ d)).
        rewrite app_nil_r, <- map_app. apply cs_group_or.
  - injection Hf as <-. apply grp_some in G1. subst l'.
    destruct (invc_group s a Hl) as [_ [Ha [a1 [a' ->]]]].
    split; [|split].
    + apply invc_group_intro; [exact Hs| |discriminate].
      rewrite forallb_app, Ha. cbn [forallb]. rewrite Hr. reflexivity.
    + destruct a' as [|a2 a']; cbn [app]; unfold long; eauto.
    + intros d. destruct s; try discriminate.
      * rewrite cs_bexp_and, and2_fold.
        rewrite (and_inline0 _ (map (fun x (_ : unit) => slv x d) (a1 :: a')) _ (cs_group_and o ids _ d)).
        rewrite cs_group_and, map_app. reflexivity.
      * rewrite cs_bexp_or, or2_fold.
        rewrite (or_inline0 _ (map (fun x (_ : unit) => slv x d) (a1 :: a')) _ (cs_group_or o ids _ d)).
        rewrite cs_group_or, map_app. reflexivity.
  - injection Hf as <-. apply grp_some in G2. subst r'.
    destruct (invc_group s b Hr) as [_ [Hb [b1 [b' ->]]]].
    split; [|split].
    + apply invc_group_intro; [exact Hs| |discriminate]. cbn [forallb]. rewrite Hl. exact Hb.
    + unfold long; eauto.
    + intros d. destruct s; try discriminate.
      * rewrite cs_bexp_and, and2_fold.
        rewrite (and_inline1 _ _ (map (fun x (_ : unit) => slv x d) (b1 :: b')) [] (cs_group_and o ids _ d)).
        rewrite app_nil_r. apply cs_group_and.
      * rewrite cs_bexp_or, or2_fold.
        rewrite (or_inline1 _ _ (map (fun x (_ : unit) => slv x d) (b1 :: b')) [] (cs_group_or o ids _ d)).
        rewrite app_nil_r. apply cs_group_or.
  - destruct (bx s l') as [[x y]|] eqn:B1.
    + injection Hf as <-. apply bx_some in B1. subst l'.
      cbn [invc] in Hl. rewrite Hs in Hl. apply andb_true_iff in Hl. destruct Hl as [Hx Hy].
      split; [|split].
      * apply invc_group_intro; [exact Hs| |discriminate]. cbn [forallb]. rewrite Hx, Hy, Hr. reflexivity.
      * unfold long; eauto.
      * intros d. destruct s; try discriminate.
        -- rewrite cs_bexp_and, and2_fold.
           rewrite (and_inline0 _ [fun _ => slv x d; fun _ => slv y d] _
                      (eq_trans (cs_bexp_and o ids x y d) (and2_fold _ _))).
           apply cs_group_and.
        -- rewrite cs_bexp_or, or2_fold.
           rewrite (or_inline0 _ [fun _ => slv x d; fun _ => slv y d] _
                      (eq_trans (cs_bexp_or o ids x y d) (or2_fold _ _))).
           apply cs_group_or.
    + destruct (bx s r') as [[y z]|] eqn:B2; [|discriminate].
      injection Hf as <-. apply bx_some in B2. subst r'.
      cbn [invc] in Hr. rewrite Hs in Hr. apply andb_true_iff in Hr. destruct Hr as [Hy Hz].
      split; [|split].
      * apply invc_group_intro; [exact Hs| |discriminate]. cbn [forallb]. rewrite Hl, Hy, Hz. reflexivity.
      * unfold long; eauto.
      * intros d. destruct s; try discriminate.
        -- rewrite cs_bexp_and, and2_fold.
           rewrite (and_inline1 _ _ [fun _ => slv y d; fun _ => slv z d] []
                      (eq_trans (cs_bexp_and o ids y z d) (and2_fold _ _))).
           apply cs_group_and.
        -- rewrite cs_bexp_or, or2_fold.
           rewrite (or_inline1 _ _ [fun _ => slv y d; fun _ => slv z d] []
                      (eq_trans (cs_bexp_or o ids y z d) (or2_fold _ _))).
           apply cs_group_or.
Qed.

(* what one run of shake_0 guarantees *)
Definition postc (e e' : expr) : Prop :=
  invc e' = true /\
  (head_neg e' = true -> head_neg e = true) /\
  (quant_operand_ok e = true -> quant_operand_ok e' = true) /\
  (forall d, slv e' d = slv e d) /\
  (forall s l, e = EGroup s l -> length l <> 1%nat ->
               exists l', e' = EGroup s l' /\ semc_members l l') /\
  (forall k d, quant_operand_ok e = true ->
               slv (EMatch k e') d = slv (EMatch k e) d).

Ltac split_postc :=
  unfold postc; (split; [|split; [|split; [|split; [|split]]]]).

Lemma postc_refl : forall e, invc e = true -> postc e e.
Proof.
  intros e Hi. split_postc; auto.
  intros s l -> _. exists l. split; [reflexivity|apply semc_members_refl].
Qed.

Lemma shake0_postc : forall fuel e e', invc e = true -> shake0 fuel e = Ok e' -> postc e e'.
Proof.
  induction fuel as [|fu IH]; intros e e' Hi H.
  { injection H as <-. apply postc_refl. exact Hi. }
  destruct e as [s l|l s r|b|f m|f|x|i|z|k e|cols rows|e|f e| |s f c]; try discriminate.
  - (* ---------------- EGroup ---------------- *)
    destruct (invc_group s l Hi) as [Hs [Hl [y1 [l0 El]]]].
    cbn [shake0] in H. rewrite Hs in H. cbn [negb] in H.
    apply bind_ok_inv in H. destruct H as [l' [Hl' H]].
    pose proof (mapM_Forall2 _ _ _ Hl') as HF.
    assert (HP : Forall2 postc l l').
    { eapply Forall2_In_impl; [exact HF|]. intros x y Hx _ Hxy. cbn beta in Hxy.
      apply IH; [|exact Hxy]. apply (forallb_In _ _ _ Hl Hx). }
    assert (Hil' : forallb invc l' = true).
    { eapply Forall2_forallb; [exact HP|]. intros x y _ Hp. apply Hp. }
    assert (Hsm : semc_members l l').
    { eapply Forall2_In_impl; [exact HP|]. intros x y _ _ Hp. apply Hp. }
    subst l. destruct l0 as [|y2 l0].
    + (* one member: unwrapped *)
      inversion HP as [|a b la lb Hp1 Hrest]; subst. inversion Hrest; subst.
      injection H as <-. clear HP Hrest HF.
      destruct Hp1 as [P1 [P2 [P4 [P6 [P7 P8]]]]].
      split_postc.
      * exact P1.
      * exact P2.
      * intros Hq. discriminate Hq.
      * intros d. rewrite P6. symmetry. apply cs_group_single. exact Hs.
      * intros s0 l1 E Hlen. injection E as <- <-. cbn in Hlen. lia.
      * intros k d Hq. discriminate Hq.
    + (* two or more members *)
      inversion HP as [|a b la lb Hp1 Hrest]; subst.
      inversion Hrest as [|a2 b2 la2 lb2 Hp2 Hrest2]; subst.
      injection H as <-.
      assert (Hi' : invc (EGroup s (b :: b2 :: lb2)) = true)
        by (apply invc_group_intro; [exact Hs|exact Hil'|discriminate]).
      split_postc.
      * exact Hi'.
      * intros Hc. discriminate Hc.
      * intros _. reflexivity.
      * intros d. apply semc_group_cong; assumption.
      * intros s0 l1 E _. injection E as <- <-. eexists. split; [reflexivity|exact Hsm].
      * intros k d _. apply semc_match_group_cong. exact Hsm.
  - (* ---------------- EBexp ---------------- *)
    assert (Hi0 := Hi). cbn [invc] in Hi. destruct (is_and_or s) eqn:Hs.
    + apply andb_true_iff in Hi. destruct Hi as [Hil Hir].
      rewrite shake0_bexp_andor in H by exact Hs.
      apply bind_ok_inv in H. destruct H as [l' [Hl' H]].
      apply bind_ok_inv in H. destruct H as [r' [Hr' H]].
      pose proof (IH l l' Hil Hl') as Pl. pose proof (IH r r' Hir Hr') as Pr.
      assert (Hil' : invc l' = true) by apply Pl.
      assert (Hir' : invc r' = true) by apply Pr.
      assert (Hsl : forall d, slv l' d = slv l d) by apply Pl.
      assert (Hsr : forall d, slv r' d = slv r d) by apply Pr.
      pose proof (semc_bexp_cong l l' s r r' Hs Hsl Hsr) as Hcong.
      pose proof (qok_andor_false l s r Hs) as Hq.
      destruct (flat s l' r') as [L|] eqn:Hflat.
      * destruct (flatc_spec s l' r' L Hs Hil' Hir' Hflat) as [HiL [Hlong HsL]].
        destruct (long_heads s L Hlong) as [Hn1 [Hn2 [Hn3 Hn4]]].
        destruct (IH _ _ HiL H) as [P1 [P2 [P4 [P6 [P7 P8]]]]].
        assert (Hsem : forall d, slv e' d = slv (EBexp l s r) d).
        { intros d. rewrite P6, HsL. apply Hcong. }
        split_postc.
        -- exact P1.
        -- intros Hc. rewrite (P2 Hc) in Hn1. discriminate.
        -- intros Hc. rewrite Hc in Hq. discriminate.
        -- exact Hsem.
        -- intros s0 l0 E. discriminate E.
        -- intros k d Hc. rewrite Hc in Hq. discriminate.
      * injection H as <-.
        assert (Hi' : invc (EBexp l' s r') = true) by (cbn [invc]; rewrite Hs, Hil', Hir'; reflexivity).
        split_postc.
        -- exact Hi'.
        -- intros Hc. discriminate Hc.
        -- intros Hc. rewrite Hc in Hq. discriminate.
        -- exact Hcong.
        -- intros s0 l0 E. discriminate E.
        -- intros k d Hc. rewrite Hc in Hq. discriminate.
    + apply andb_true_iff in Hi. destruct Hi as [Hll Hlr].
      rewrite shake0_bexp_cmp in H by exact Hs.
      rewrite (shake0_leaf fu l Hll), (shake0_leaf fu r Hlr) in H. cbn [bind] in H.
      injection H as <-. apply postc_refl. exact Hi0.
  - (* ---------------- EIdent ---------------- *)
    injection H as <-. apply postc_refl. exact Hi.
  - (* ---------------- EMatch ---------------- *)
    assert (Hi0 := Hi). cbn [invc] in Hi. apply andb_true_iff in Hi. destruct Hi as [Hq Hie].
    assert (Hpk : exists x, e' = EMatch k x /\ invc (EMatch k x) = true /\
                            forall d, slv (EMatch k x) d = slv (EMatch k e) d).
    { destruct (shake0_match_inv _ _ _ _ H) as [[s [l [l' [-> [Hl' ->]]]]]|[_ [x [Hx ->]]]].
      - (* fix D14: a group stays a group; its members are shaken *)
        destruct (invc_group s l Hie) as [Hs [Hl [y1 [l0 El]]]].
        pose proof (mapM_Forall2 _ _ _ Hl') as HF.
        assert (HP : Forall2 postc l l').
        { eapply Forall2_In_impl; [exact HF|]. intros x y Hx _ Hxy. cbn beta in Hxy.
          apply IH; [|exact Hxy]. apply (forallb_In _ _ _ Hl Hx). }
        assert (Hil' : forallb invc l' = true).
        { eapply Forall2_forallb; [exact HP|]. intros x y _ Hp. apply Hp. }
        assert (Hsm : semc_members l l').
        { eapply Forall2_In_impl; [exact HP|]. intros x y _ _ Hp. apply Hp. }
        pose proof (Forall2_length _ _ _ HP) as Hlen.
        exists (EGroup s l'). split; [reflexivity|]. split.
        + cbn [invc]. rewrite Hs. apply andb_true_iff. split.
          * apply qok_group_len_intro. rewrite <- Hlen. apply (qok_group_len _ _ Hq).
          * cbn [andb]. destruct l' as [|b1 l'0]; [subst l; discriminate Hlen|exact Hil'].
        + intros d. apply semc_match_group_cong. exact Hsm.
      - destruct (IH e x Hie Hx) as [P1 [P2 [P4 [P6 [P7 P8]]]]].
        exists x. split; [reflexivity|]. split.
        + cbn [invc]. rewrite (P4 Hq), P1. reflexivity.
        + intros d. apply P8. exact Hq. }
    destruct Hpk as [x [-> [Hi' Hsem]]].
    split_postc.
    + exact Hi'.
    + intros Hc. discriminate Hc.
    + intros _. reflexivity.
    + exact Hsem.
    + intros s l E. discriminate E.
    + intros k2 d _. apply (h7c o ids); try reflexivity. exact Hsem.
  - (* ---------------- ENegate ---------------- *)
    assert (Hi0 := Hi). cbn [invc] in Hi. apply andb_true_iff in Hi. destruct Hi as [Hhn Hie].
    apply negb_true_iff in Hhn.
    cbn [shake0] in H. apply bind_ok_inv in H. destruct H as [x [Hx H]].
    destruct (IH e x Hie Hx) as [P1 [P2 [P4 [P6 [P7 P8]]]]].
    assert (Hhx : head_neg x = false).
    { destruct (head_neg x) eqn:Hb; [|reflexivity]. rewrite (P2 eq_refl) in Hhn. discriminate. }
    assert (E : e' = ENegate x).
    { destruct x; try (injection H as <-; reflexivity). discriminate Hhx. }
    subst e'. clear H.
    assert (Hi' : invc (ENegate x) = true) by (cbn [invc]; rewrite Hhx, P1; reflexivity).
    assert (Hsem : forall d, slv (ENegate x) d = slv (ENegate e) d)
      by (intros d; rewrite !cs_negate, P6; reflexivity).
    split_postc.
    + exact Hi'.
    + intros _. reflexivity.
    + intros _. reflexivity.
    + exact Hsem.
    + intros s l E. discriminate E.
    + intros k d _. apply (h7c o ids); try reflexivity. exact Hsem.
  - (* ---------------- ESearch ---------------- *)
    injection H as <-. apply postc_refl. exact Hi.
Qed.

(* shake_0 does not panic on such trees *)
Lemma shake0_totalc : forall fuel e, invc e = true -> exists e', shake0 fuel e = Ok e'.
Proof.
  induction fuel as [|fu IH]; intros e Hi; [eexists; reflexivity|].
  destruct e as [s l|l s r|b|f m|f|x|i|z|k e|cols rows|e|f e| |s f c]; try discriminate Hi;
    try (eexists; reflexivity).
  - destruct (invc_group s l Hi) as [Hs [Hl _]].
    cbn [shake0]. rewrite Hs. cbn [negb].
    destruct (mapM_ok (fun x => shake0 fu x) l) as [l' Hl'].
    { intros x Hx. apply IH. apply (forallb_In _ _ _ Hl Hx). }
    rewrite Hl'. cbn [bind]. destruct l' as [|x [|x2 l'']]; eexists; reflexivity.
  - cbn [invc] in Hi. destruct (is_and_or s) eqn:Hs.
    + apply andb_true_iff in Hi. destruct Hi as [Hil Hir].
      rewrite shake0_bexp_andor by exact Hs.
      destruct (IH l Hil) as [l' Hl']. destruct (IH r Hir) as [r' Hr'].
      rewrite Hl', Hr'. cbn [bind].
      destruct (flat s l' r') as [L|] eqn:Hflat; [|eexists; reflexivity].
      assert (Hil' : invc l' = true) by apply (shake0_postc fu l l' Hil Hl').
      assert (Hir' : invc r' = true) by apply (shake0_postc fu r r' Hir Hr').
      destruct (flatc_spec s l' r' L Hs Hil' Hir' Hflat) as [HiL _].
      apply IH. exact HiL.
    + apply andb_true_iff in Hi. destruct Hi as [Hll Hlr].
      rewrite shake0_bexp_cmp by exact Hs.
      rewrite (shake0_leaf fu l Hll), (shake0_leaf fu r Hlr). cbn [bind]. eexists; reflexivity.
  - cbn [invc] in Hi. apply andb_true_iff in Hi. destruct Hi as [_ Hie].
    destruct (is_group_dec e) as [[s [l ->]]|Hng].
    + destruct (invc_group s l Hie) as [Hs [Hl _]].
      rewrite shake0_match_group.
      destruct (mapM_ok (fun x => shake0 fu x) l) as [l' Hl'].
      { intros x Hx. apply IH. apply (forallb_In _ _ _ Hl Hx). }
      rewrite Hl'. cbn [bind]. eexists; reflexivity.
    + destruct (IH e Hie) as [x Hx]. rewrite (shake0_match_other fu k e Hng), Hx. cbn [bind].
      eexists; reflexivity.
  - cbn [invc] in Hi. apply andb_true_iff in Hi. destruct Hi as [_ Hie].
    destruct (IH e Hie) as [x Hx]. cbn [shake0]. rewrite Hx. cbn [bind].
    assert (P1 : invc x = true) by apply (shake0_postc fu e x Hie Hx).
    destruct x; try (eexists; reflexivity).
    apply IH. cbn [invc] in P1. apply andb_true_iff in P1. apply P1.
Qed.
End CondShake.


(* ---- changing the identifier table under a condition that does not count members ---- *)
Fixpoint no_quant_ident (e : expr) : bool :=
  match e with
  | EGroup _ l => forallb no_quant_ident l
  | EBexp l _ r => no_quant_ident l && no_quant_ident r
  | EMatch _ (EIdent _) => false
  | EMatch _ e' | ENegate e' | ENested _ e' => no_quant_ident e'
  | _ => true
  end.
Definition shake_input_ok (o : oracles) (sw : switches) (dt : detection) : bool :=
  forallb (fun t => C01.no_nested t && C01.sh0 t && C01.no_dneg t && C01.shx t)
          (all_trees (staged sw dt)).

Definition ids_rel (R : expr -> expr -> Prop) (ids ids' : list (str * expr)) : Prop :=
  forall i, match lookup i ids, lookup i ids' with
            | Some b, Some b' => R b b'
            | None, None => True
            | _, _ => False
            end.

Lemma Forall2_diag : forall {A} (R : A -> A -> Prop) l, (forall x, In x l -> R x x) -> Forall2 R l l.
Proof.
  intros A R. induction l as [|x l IH]; intros H; constructor.
  - apply H. left. reflexivity.
  - apply IH. intros y Hy. apply H. right. exact Hy.
Qed.

Lemma h7_ids : forall o ids ids' e (d : docq), other_q e = true ->
  solve_cond o ids' e d = solve_cond o ids e d ->
  forall k, solve_cond o ids' (EMatch k e) d = solve_cond o ids (EMatch k e) d.
Proof.
  intros o ids ids' e d He H [|n].
  - rewrite !cs_all_other by exact He. exact H.
  - rewrite !cs_of_other by exact He. rewrite H. reflexivity.
Qed.

Lemma solve_ids_change : forall o ids ids' (d : docq),
  ids_rel (fun b b' => solve_body o b' d = solve_body o b d) ids ids' ->
  forall e, wf_cond ids e = true -> no_nested e = true -> no_quant_ident e = true ->
  solve_cond o ids' e d = solve_cond o ids e d.
Proof.
  intros o ids ids' d Hrel. induction e as [e IH] using size_ind. intros Hw Hn Hq.
  assert (Hmem : forall l, (forall x, In x l -> (expr_size x < expr_size e)%nat) ->
            forallb (wf_cond ids) l = true -> forallb no_nested l = true ->
            forallb no_quant_ident l = true ->
            Forall2 (fun y x => (fun (y : expr) (_ : unit) => solve_cond o ids' y d) y tt =
                                (fun (x : expr) (_ : unit) => solve_cond o ids x d) x tt) l l).
  { intros l Hsz H1 H2 H3. apply Forall2_diag. intros x Hx. cbn beta.
    apply IH; [apply Hsz; exact Hx|apply (forallb_In _ _ _ H1 Hx)|apply (forallb_In _ _ _ H2 Hx)
              |apply (forallb_In _ _ _ H3 Hx)]. }
  destruct e as [s l|l s r|b|f m|f|z|i|z|k e|cols rows|e|f e| |s f c]; try discriminate Hw.
  - (* EGroup *)
    cbn [wf_cond no_nested no_quant_ident] in Hw, Hn, Hq.
    apply andb_true_iff in Hw. destruct Hw as [Hs Hw].
    pose proof (Hmem l (fun x Hx => size_member s l x Hx) Hw Hn Hq) as HF.
    destruct s; try discriminate Hs.
    + rewrite !cs_group_and. apply and_fold_F2. exact HF.
    + rewrite !cs_group_or. apply or_fold_F2. exact HF.
  - (* EBexp *)
    destruct s; try reflexivity; cbn [wf_cond is_and_or_op no_nested no_quant_ident] in Hw, Hn, Hq;
      apply andb_true_iff in Hw; destruct Hw as [Hw1 Hw2];
      apply andb_true_iff in Hn; destruct Hn as [Hn1 Hn2];
      apply andb_true_iff in Hq; destruct Hq as [Hq1 Hq2].
    + rewrite !cs_bexp_and. unfold and2.
      rewrite (IH l), (IH r); try assumption; try reflexivity; cbn [expr_size]; lia.
    + rewrite !cs_bexp_or. unfold or2.
      rewrite (IH l), (IH r); try assumption; try reflexivity; cbn [expr_size]; lia.
  - (* EIdent *)
    unfold solve_cond. cbn [solve]. specialize (Hrel i).
    destruct (lookup i ids), (lookup i ids'); try contradiction; [exact Hrel|reflexivity].
  - (* EMatch *)
    destruct e as [s l|l s r|b|f m|f|z|i|z|k0 e|cols rows|e|f e| |s f c]; try discriminate Hw;
      try discriminate Hn; try discriminate Hq.
    + cbn [wf_cond no_nested no_quant_ident] in Hw, Hn, Hq.
      apply andb_true_iff in Hw. destruct Hw as [Hs Hw].
      assert (HF := Hmem l ltac:(intros x Hx; pose proof (size_member s l x Hx); cbn [expr_size] in *; lia) Hw Hn Hq).
      destruct k as [|n].
      * rewrite !cs_all_group. apply and_fold_F2. exact HF.
      * rewrite !cs_of_group. apply of_fold_F2. exact HF.
    + apply h7_ids; [reflexivity|]. apply IH; [cbn [expr_size]; lia|exact Hw|exact Hn|exact Hq].
    + apply h7_ids; [reflexivity|]. apply IH; [cbn [expr_size]; lia|exact Hw|exact Hn|exact Hq].
    + apply h7_ids; [reflexivity|]. apply IH; [cbn [expr_size]; lia|exact Hw|exact Hn|exact Hq].
    + destruct k; destruct s; reflexivity.
  - (* ENegate *)
    cbn [wf_cond no_nested no_quant_ident] in Hw, Hn, Hq.
    rewrite !cs_negate, (IH e); try assumption; try reflexivity. cbn [expr_size]. lia.
  - (* ENested *)
    discriminate Hn.
  - (* ESearch *)
    reflexivity.
Qed.

Lemma map_ids_F2 : forall (f : expr -> out expr) ids ids', map_ids f ids = Ok ids' ->
  Forall2 (fun kv kv' => fst kv' = fst kv /\ f (snd kv) = Ok (snd kv')) ids ids'.
Proof.
  intros f ids ids' H. unfold map_ids in H. apply mapM_Forall2 in H.
  eapply Forall2_In_impl; [exact H|]. intros [k b] [k' b'] _ _ Hxy. cbn beta in Hxy.
  cbn [fst snd] in *. apply bind_ok_inv in Hxy. destruct Hxy as [e [He Hxy]].
  injection Hxy as <- <-. auto.
Qed.

Lemma map_ids_ok : forall (f : expr -> out expr) ids,
  (forall kv, In kv ids -> exists b, f (snd kv) = Ok b) -> exists ids', map_ids f ids = Ok ids'.
Proof.
  intros f ids H. unfold map_ids. apply mapM_ok. intros kv Hkv.
  destruct (H kv Hkv) as [b Hb]. rewrite Hb. cbn [bind]. eexists; reflexivity.
Qed.

Lemma ids_rel_F2 : forall (R : expr -> expr -> Prop) ids ids',
  Forall2 (fun kv kv' => fst kv' = fst kv /\ R (snd kv) (snd kv')) ids ids' -> ids_rel R ids ids'.
Proof.
  intros R ids ids' H. induction H as [|[k b] [k' b'] l l' Hxy Hl IH]; intros i; cbn [lookup].
  - exact I.
  - cbn [fst snd] in Hxy. destruct Hxy as [-> HR].
    destruct (str_eqb i k); [exact HR|apply IH].
Qed.

Lemma wf_cond_rel : forall (R : expr -> expr -> Prop) ids ids', ids_rel R ids ids' ->
  forall e, wf_cond ids e = true -> wf_cond ids' e = true.
Proof.
  intros R ids ids' Hrel. induction e as [e IH] using size_ind. intros Hw.
  destruct e as [s l|l s r|b|f m|f|z|i|z|k e|cols rows|e|f e| |s f c]; try discriminate Hw;
    cbn [wf_cond] in *.
  - apply andb_true_iff in Hw. destruct Hw as [Hs Hw]. rewrite Hs. cbn [andb].
    apply forallb_intro. intros x Hx.
    apply IH; [apply (size_member s l x Hx)|apply (forallb_In _ _ _ Hw Hx)].
  - destruct (is_and_or_op s); [|reflexivity].
    apply andb_true_iff in Hw. destruct Hw as [H1 H2].
    rewrite (IH l), (IH r); try assumption; try reflexivity; cbn [expr_size]; lia.
  - unfold has_key in *. specialize (Hrel i).
    destruct (lookup i ids), (lookup i ids'); try contradiction; try discriminate; reflexivity.
  - apply IH; [cbn [expr_size]; lia|exact Hw].
  - apply IH; [cbn [expr_size]; lia|exact Hw].
  - apply IH; [cbn [expr_size]; lia|exact Hw].
  - reflexivity.
Qed.

Lemma shake_total : forall ord e, invc e = true -> exists e', shake ord e = Ok e'.
Proof.
  intros ord e Hi. unfold shake.
  destruct (shake0_totalc C01.o0 [] (shake_fuel e) e Hi) as [e0 H0].
  rewrite H0. cbn [bind]. eexists; reflexivity.
Qed.

(* the whole shake pass on a condition, the identifier table being fixed *)
Lemma shake_cond_exact : forall o ord ids e e' (d : docq),
  ord_keeps ord -> C03.npd d -> forallb (fun kv => wf_body (snd kv)) ids = true ->
  wf_cond ids e = true -> invc e = true ->
  shake ord e = Ok e' -> solve_cond o ids e' d = solve_cond o ids e d.
Proof.
  intros o ord ids e e' d Hord Hd Hids Hw Hi H. unfold shake in H.
  apply bind_ok_inv in H. destruct H as [e0 [H0 H]]. injection H as <-.
  destruct (shake0_postc o ids _ e e0 Hi H0) as [P1 [_ [_ [P6 _]]]].
  rewrite (shake1_exact_gen o ids Hids d Hd ord Hord _ e0
             (shake0_wfc ids _ e e0 Hw H0) (invc_nn e0 P1) (invc_cl e0 P1)).
  apply P6.
Qed.

Lemma input_ok_split : forall t,
  C01.no_nested t && C01.sh0 t && C01.no_dneg t && C01.shx t = true ->
  C01.no_nested t = true /\ C01.sh0 t = true /\ C01.no_dneg t = true /\ C01.shx t = true.
Proof.
  intros t H. apply andb_true_iff in H. destruct H as [H H4].
  apply andb_true_iff in H. destruct H as [H H3].
  apply andb_true_iff in H. destruct H as [H1 H2]. auto.
Qed.

(* fix D15/D20: an identifier body is shaken entry by entry; the group of the entries stays *)
Lemma entries_shake_exact_flat : forall o ord b,
  ord_keeps ord ->
  wf_body b = true -> C01.no_nested b = true ->
  C01.sh0 b = true -> C01.no_dneg b = true -> C01.shx b = true ->
  exists b', entries (shake ord) b = Ok b' /\
    (forall d0, C03.npd d0 -> solve_body o b' d0 = solve_body o b d0) /\ wf_body b' = true.
Proof.
  intros o ord b Hord B0 B1 B2 B3 B4.
  set (P := fun x => wf_body x = true /\ C01.no_nested x = true /\ C01.sh0 x = true /\
                     C01.no_dneg x = true /\ C01.shx x = true).
  set (Q := fun x y : expr => (forall d0, C03.npd d0 -> solve_body o y d0 = solve_body o x d0) /\
                              wf_body y = true).
  assert (Hf : forall x, P x -> exists y, shake ord x = Ok y /\ Q x y).
  { intros x [X0 [X1 [X2 [X3 X4]]]].
    assert (Hi : invc x = true).
    { apply (invc_of [] x false); auto using no_dneg_here. apply C03.wf_body_cond_nil. exact X0. }
    destruct (shake_total ord x Hi) as [y Hy]. exists y. split; [exact Hy|]. split.
    - intros d0 Hd0. apply (shake_exact_flat_keeps o ord _ _ d0 Hord Hd0 X0 X1 X2 X3 X4 Hy).
    - apply (shake_exact_flat_keeps o ord _ _ (pure_doc (fun _ => None)) Hord (C03.npd_pure _) X0 X1 X2 X3 X4 Hy). }
  destruct (entries_rel (shake ord) P Q b Hf) as [b' [Hb' Hrel]].
  { destruct b as [s l| | | | | | | | | | | | |]; try (unfold P; auto).
    intros x Hx. unfold P. split; [exact (wf_body_member _ _ _ B0 Hx)|].
    cbn [C01.no_nested C01.sh0] in B1, B2.
    split; [exact (forallb_In _ _ _ B1 Hx)|]. split; [exact (forallb_In _ _ _ B2 Hx)|].
    split; [exact (no_dneg_member _ _ _ B3 Hx)|exact (shx_member _ _ _ B4 Hx)]. }
  exists b'. split; [exact Hb'|].
  destruct b as [s l| | | | | | | | | | | | |]; try exact Hrel.
  destruct Hrel as [l' [-> HF]]. pose proof (wf_body_group _ _ B0) as Hs. split.
  - intros d0 Hd0.
    assert (HF2 : Forall2 (fun y x => (fun (y : expr) (_ : unit) => solve_cond o [] y d0) y tt =
                                      (fun (x : expr) (_ : unit) => solve_cond o [] x d0) x tt) l' l).
    { apply Forall2_flip'. eapply Forall2_In_impl; [exact HF|]. intros x y _ _ [Hxy _]. apply Hxy. exact Hd0. }
    change (solve_cond o [] (EGroup s l') d0 = solve_cond o [] (EGroup s l) d0).
    destruct s; try discriminate Hs.
    + rewrite !cs_group_and. apply and_fold_F2. exact HF2.
    + rewrite !cs_group_or. apply or_fold_F2. exact HF2.
  - cbn [wf_body]. change (is_and_or_op s) with (is_and_or s). rewrite Hs. cbn [andb].
    eapply Forall2_forallb; [exact HF|]. intros x y _ [_ Hw]. exact Hw.
Qed.

(* optimise_no_matrix_exact_flat is false as stated for reason (a): with a hash order that
   loses keys the merged searches of an or-group are lost *)
Lemma optimise_no_matrix_exact_flat_refuted :
  let f := [102%N] in let g := [103%N] in
  let e := EGroup BOr [ESearch (SContains [97%N]) f false; ESearch (SContains [98%N]) g false] in
  let r := mk_rule (EIdent [88%N]) [([88%N], e)] in
  let d : doc := fun k => if str_eqb k f then Some (VStr [97%N]) else None in
  let sw := {| sw_coalesce := true; sw_shake := true; sw_rewrite := false; sw_matrix := false |} in
  wf_det (r_det r) = true /\ r_optimised r = false /\
  C01.no_nested (d_expr (r_det r)) = true /\ C01.cmp_leaves (d_expr (r_det r)) = true /\
  shake_input_ok C01.o0 sw (r_det r) = true /\
  matches C01.o0 r d = Ok true /\
  exists r', optimise C01.o0 (fun _ => []) sw r = Ok r' /\ matches C01.o0 r' d = Ok false.
Proof.
  cbv zeta. do 6 (split; [vm_compute; reflexivity|]).
  eexists. split; [vm_compute; reflexivity|]. vm_compute. reflexivity.
Qed.

Lemma optimise_no_matrix_exact_flat_keeps : forall o ord sw r (d : doc),
  ord_keeps ord ->
  C01.H_strip o ->
  sw_matrix sw = false ->
  wf_det (r_det r) = true -> r_optimised r = false ->
  C01.no_nested (d_expr (r_det r)) = true -> C01.cmp_leaves (d_expr (r_det r)) = true ->
  (sw_coalesce sw = true \/ no_quant_ident (d_expr (r_det r)) = true) ->
  (sw_shake sw = true -> shake_input_ok o sw (r_det r) = true) ->
  exists r', optimise o ord sw r = Ok r' /\
             solve_rule3 o (r_det r') (pure_doc d) = solve_rule3 o (r_det r) (pure_doc d) /\
             matches o r' d = matches o r d.
Proof.
  intros o ord sw r d Hord Hst Hmx Hwf Hopt Hnn Hcl Hqi Hin.
  enough (E : exists r', optimise o ord sw r = Ok r' /\
             solve_rule3 o (r_det r') (pure_doc d) = solve_rule3 o (r_det r) (pure_doc d)).
  { destruct E as [r' [E1 E2]]. exists r'. split; [exact E1|]. split; [exact E2|].
    unfold matches. rewrite E2. reflexivity. }
  destruct (sw_shake sw) eqn:Hsh.
  2:{ apply (C01.optimise_coalesce_rewrite_exact_alt o ord sw r (pure_doc d)); assumption. }
  specialize (Hin eq_refl).
  pose proof (C03.npd_pure d) as Hd.
  pose proof (wf_det_ids _ Hwf) as Hids.
  destruct r as [opt [e ids] tp tn]. cbn [r_det r_optimised d_expr d_ids] in *. subst opt.
  unfold wf_det in Hwf. cbn [d_expr d_ids] in Hwf.
  apply andb_true_iff in Hwf. destruct Hwf as [Hwc Hwb].
  unfold shake_input_ok, staged in Hin. cbn [d_expr d_ids] in Hin.
  unfold optimise. cbn [r_optimised r_det r_tp r_tn]. unfold optimise_detection.
  rewrite Hsh, Hmx. cbn [d_expr d_ids].
  destruct (sw_coalesce sw) eqn:Hco.
  - (* coalesce on: one identifier-free tree *)
    destruct (coalesce_sem o ids Hids e Hwc Hnn Hcl) as [e1 [He1 [Hw1 Hsem1]]].
    rewrite He1 in Hin. cbn [ok_or all_trees fst snd map forallb] in Hin.
    apply andb_true_iff in Hin. destruct Hin as [Hin _].
    destruct (input_ok_split e1 Hin) as [I1 [I2 [I3 I4]]].
    assert (Hi1 : invc e1 = true).
    { apply (invc_of [] e1 false); auto using no_dneg_here. apply C03.wf_body_cond_nil. exact Hw1. }
    destruct (shake_total ord e1 Hi1) as [e2 He2].
    destruct (shake_exact_flat_keeps o ord e1 e2 (pure_doc d) Hord Hd Hw1 I1 I2 I3 I4 He2) as [Hsem2 _].
    rewrite He1. cbn [bind d_expr d_ids]. rewrite He2. cbn [bind map_ids mapM d_expr d_ids].
    destruct (sw_rewrite sw); (eexists; split; [reflexivity|]); cbn [r_det]; unfold solve_rule3;
      cbn [d_expr d_ids map].
    + change (solve_cond o [] (rewrite o e2) (pure_doc d)) with (solve_body o (rewrite o e2) (pure_doc d)).
      rewrite (rw_body o Hst), Hsem2. apply Hsem1.
    + change (solve_cond o [] e2 (pure_doc d)) with (solve_body o e2 (pure_doc d)).
      rewrite Hsem2. apply Hsem1.
  - (* coalesce off: the condition and every identifier body *)
    destruct Hqi as [Hqi|Hqi]; [discriminate Hqi|].
    cbn [bind all_trees fst snd forallb] in *.
    apply andb_true_iff in Hin. destruct Hin as [Hine Hinb].
    destruct (input_ok_split e Hine) as [I1 [I2 [I3 I4]]].
    assert (Hbody : forall kv, In kv ids ->
              wf_body (snd kv) = true /\ invc (snd kv) = true /\
              C01.no_nested (snd kv) = true /\ C01.sh0 (snd kv) = true /\
              C01.no_dneg (snd kv) = true /\ C01.shx (snd kv) = true).
    { intros kv Hkv. pose proof (forallb_In _ _ _ Hwb Hkv) as Hw. cbn beta in Hw.
      assert (Hin' : In (snd kv) (map snd ids)) by (apply in_map; exact Hkv).
      pose proof (forallb_In _ _ _ Hinb Hin') as Hb. cbn beta in Hb.
      destruct (input_ok_split _ Hb) as [B1 [B2 [B3 B4]]].
      split; [exact Hw|]. split; [|auto].
      apply (invc_of [] (snd kv) false); auto using no_dneg_here. apply C03.wf_body_cond_nil. exact Hw. }
    destruct (map_ids_ok (entries (shake ord)) ids) as [ids2 Hids2].
    { intros kv Hkv. destruct (Hbody kv Hkv) as [B0 [_ [B1 [B2 [B3 B4]]]]].
      destruct (entries_shake_exact_flat o ord _ Hord B0 B1 B2 B3 B4) as [b' [Hb' _]].
      exists b'. exact Hb'. }
    pose proof (map_ids_F2 _ _ _ Hids2) as HF.
    assert (HF' : Forall2 (fun kv kv' => fst kv' = fst kv /\
                     ((forall d0, C03.npd d0 -> solve_body o (snd kv') d0 = solve_body o (snd kv) d0) /\
                      wf_body (snd kv') = true)) ids ids2).
    { eapply Forall2_In_impl; [exact HF|]. intros kv kv' Hkv _ [Hk Hs].
      split; [exact Hk|]. destruct (Hbody kv Hkv) as [B0 [_ [B1 [B2 [B3 B4]]]]].
      destruct (entries_shake_exact_flat o ord _ Hord B0 B1 B2 B3 B4) as [b' [Hb' Hq]].
      rewrite Hs in Hb'. injection Hb' as <-. exact Hq. }
    assert (Hwb2 : forallb (fun kv => wf_body (snd kv)) ids2 = true).
    { eapply Forall2_forallb; [exact HF'|]. intros kv kv' _ [_ [_ Hw]]. exact Hw. }
    assert (Hrel : ids_rel (fun b b' => solve_body o b' (pure_doc d) = solve_body o b (pure_doc d)) ids ids2).
    { apply ids_rel_F2. eapply Forall2_In_impl; [exact HF'|]. intros kv kv' _ _ [Hk [Hs _]].
      split; [exact Hk|]. apply Hs. exact Hd. }
    pose proof (wf_cond_rel _ _ _ Hrel e Hwc) as Hwc2.
    assert (Hie : invc e = true) by (apply (invc_of ids e false); auto using no_dneg_here).
    destruct (shake_total ord e Hie) as [e2 He2].
    pose proof (shake_cond_exact o ord ids2 e e2 (pure_doc d) Hord Hd Hwb2 Hwc2 Hie He2) as Hsem.
    pose proof (solve_ids_change o ids ids2 (pure_doc d) Hrel e Hwc Hnn Hqi) as Hchg.
    cbn [d_expr d_ids]. rewrite He2. cbn [bind]. rewrite Hids2. cbn [bind d_expr d_ids].
    destruct (sw_rewrite sw); (eexists; split; [reflexivity|]); cbn [r_det]; unfold solve_rule3;
      cbn [d_expr d_ids].
    + rewrite (rewrite_exact o ids2 e2 (pure_doc d) Hst), Hsem. exact Hchg.
    + rewrite Hsem. exact Hchg.
Qed.

Lemma optimise_no_matrix_exact_flat_alt : forall o ord sw r (d : doc),
  (forall l, Permutation (ord l) l) ->
  C01.H_strip o ->
  sw_matrix sw = false ->
  wf_det (r_det r) = true -> r_optimised r = false ->
  C01.no_nested (d_expr (r_det r)) = true -> C01.cmp_leaves (d_expr (r_det r)) = true ->
  (sw_coalesce sw = true \/ no_quant_ident (d_expr (r_det r)) = true) ->
  (sw_shake sw = true -> shake_input_ok o sw (r_det r) = true) ->
  exists r', optimise o ord sw r = Ok r' /\
             solve_rule3 o (r_det r') (pure_doc d) = solve_rule3 o (r_det r) (pure_doc d) /\
             matches o r' d = matches o r d.
Proof.
  intros o ord sw r d Hord. apply optimise_no_matrix_exact_flat_keeps.
  apply perm_ord_keeps. exact Hord.
Qed.

(* ---- non-vacuity ---- *)
Example shake1_flat_example :
  let f := [102%N] in let g := [103%N] in
  let e := EGroup BOr [ESearch (SContains [97%N]) f false; ESearch (SExact [98%N]) g false;
                       ESearch (SStartsWith [99%N]) f false; ESearch (SEndsWith [100%N]) g false;
                       ESearch (SRegex [101%N] false) f false] in
  wf_body e = true /\ C01.no_nested e = true /\
  shake1 (fun k => k) 10 e =
    EGroup BOr [ESearch (SAho [MTContains [97%N]; MTStartsWith [99%N]] false) f false;
                ESearch (SAho [MTExact [98%N]; MTEndsWith [100%N]] false) g false;
                ESearch (SRegex [101%N] false) f false].
Proof. vm_compute. repeat split; reflexivity. Qed.
